(* C12 - blend functions are total, bounded in [0,1], match their published formulas; documented identities.
   Model: Blend/Model.v, ONE text over the scalar interface [num]; [f NR] is the instance at the Coq reals (theorems),
   [f NQ] the instance at exact rationals (what the correspondence check runs against numpy).
   Spec: Blend/Spec.v (PDF 1.7 11.3.5 / W3C compositing / Adobe).  [unit x] is 0 <= x <= 1.
   Totality is by construction (Gallina functions); purity is an aliasing fact about numpy arrays, observed by the
   harness, not expressible here.  Axioms reached: those of the standard library's real numbers (see Print
   Assumptions below): ClassicalDedekindReals.sig_forall_dec, sig_not_dec, FunctionalExtensionality.functional_extensionality_dep. *)
From Coq Require Import QArith Reals Lra.
From PsdV Require Import Blend.Num Blend.Model Blend.Spec Blend.ProofsR Blend.ProofsNS Blend.ProofsClip Blend.ProofsLip Blend.ProofsMono Blend.Refine Blend.RefineNS Blend.Table Blend.ProofsTable.
From Coq Require Import String List.
Open Scope R_scope.

(* ================================================================= separable modes: range *)
Theorem range_every_separable_mode : forall (m : sep_mode) (cb cs : R),
  unit cb -> unit cs -> unit (blend_sep NR m cb cs).
Proof. exact range_sep. Qed.
Print Assumptions range_every_separable_mode.
Example unit_inhabited : unit (1/2) /\ unit 0 /\ unit 1.
Proof. unfold unit. lra. Qed.

(* the same on the executable instance (soft light excepted: its rational sqrt is a bracket, see below) *)
Theorem range_every_separable_mode_exec : forall (m : sep_mode) (cb cs : Q),
  m <> SoftLight -> (0 <= cb <= 1)%Q -> (0 <= cs <= 1)%Q -> (0 <= blend_sep NQ m cb cs <= 1)%Q.
Proof. exact range_sep_Q. Qed.
Print Assumptions range_every_separable_mode_exec.

(* ================================================================= separable modes: published formulas *)
Theorem formula_exact_modes : forall cb cs : R,
  normal NR cb cs = s_normal cb cs /\ multiply NR cb cs = s_multiply cb cs /\ screen NR cb cs = s_screen cb cs /\
  overlay NR cb cs = s_overlay cb cs /\ darken NR cb cs = s_darken cb cs /\ lighten NR cb cs = s_lighten cb cs /\
  hard_light NR cb cs = s_hard_light cb cs /\ soft_light NR cb cs = s_soft_light cb cs /\
  linear_dodge NR cb cs = s_linear_dodge cb cs /\ linear_burn NR cb cs = s_linear_burn cb cs /\
  pin_light NR cb cs = s_pin_light cb cs /\ difference NR cb cs = s_difference cb cs /\
  exclusion NR cb cs = s_exclusion cb cs /\ subtract NR cb cs = s_subtract cb cs.
Proof.
  intros. repeat split;
    auto using formula_normal, formula_multiply, formula_screen, formula_overlay, formula_darken, formula_lighten,
      formula_hard_light, formula_soft_light, formula_linear_dodge, formula_linear_burn, formula_pin_light,
      formula_difference, formula_exclusion, formula_subtract.
Qed.
Print Assumptions formula_exact_modes.

Theorem formula_linear_light_is_clip : forall cb cs : R,
  unit cb -> unit cs -> linear_light NR cb cs = Rmax 0 (Rmin 1 (cb + 2 * cs - 1)).
Proof. exact formula_linear_light. Qed.
Print Assumptions formula_linear_light_is_clip.

(* soft light: Adobe's variant exactly (above); NOT the W3C/PDF piecewise-D variant *)
Theorem soft_light_is_not_w3c_refuted :
  exists cb cs, unit cb /\ unit cs /\ soft_light NR cb cs - s_soft_light_w3c cb cs = 11/256.
Proof. exact soft_light_w3c_refuted. Qed.
Print Assumptions soft_light_is_not_w3c_refuted.

(* regularised singular formulas: distance <= 1e-9 / (distance of the source from the singularity) *)
Theorem formula_color_dodge_tol : forall cb cs : R, unit cb -> cs < 1 ->
  (1 - cs) * Rabs (color_dodge NR cb cs - s_color_dodge cb cs) <= 1/1000000000.
Proof. exact formula_color_dodge. Qed.
Print Assumptions formula_color_dodge_tol.
Theorem formula_color_dodge_white_source : forall cb : R, color_dodge NR cb 1 = s_color_dodge cb 1.
Proof. exact formula_color_dodge_at_1. Qed.
Print Assumptions formula_color_dodge_white_source.
Theorem formula_color_burn_tol : forall cb cs : R, unit cb -> 0 < cs ->
  cs * Rabs (color_burn NR cb cs - s_color_burn cb cs) <= 1/1000000000.
Proof. exact formula_color_burn. Qed.
Print Assumptions formula_color_burn_tol.
Theorem formula_color_burn_black_source : forall cb : R, color_burn NR cb 0 = s_color_burn cb 0.
Proof. exact formula_color_burn_at_0. Qed.
Print Assumptions formula_color_burn_black_source.
Theorem formula_divide_tol : forall cb cs : R, unit cb -> 0 < cs ->
  cs * Rabs (divide NR cb cs - s_divide cb cs) <= 1/1000000000.
Proof. exact formula_divide. Qed.
Print Assumptions formula_divide_tol.
Theorem formula_vivid_light_tol : forall cb cs : R, unit cb ->
  (0 < cs <= 1/2 -> (2 * cs) * Rabs (vivid_light NR cb cs - s_vivid_light cb cs) <= 1/1000000000) /\
  (1/2 < cs < 1 -> (2 - 2 * cs) * Rabs (vivid_light NR cb cs - s_vivid_light cb cs) <= 1/1000000000) /\
  vivid_light NR cb 0 = s_vivid_light cb 0 /\ vivid_light NR cb 1 = s_vivid_light cb 1.
Proof.
  intros cb cs Hb. split; [|split].
  - apply formula_vivid_light_burn. exact Hb.
  - apply formula_vivid_light_dodge. exact Hb.
  - apply formula_vivid_light_ends.
Qed.
Print Assumptions formula_vivid_light_tol.
Example tol_hypotheses_inhabited : unit (1/3) /\ (1/2 < 3/4 < 1) /\ (0 < 1/4 <= 1/2).
Proof. unfold unit. lra. Qed.

(* hard mix: Adobe's threshold formula away from the threshold; on the line Cb + Cs = 1 the 0.999999 factor flips it *)
Theorem formula_hard_mix_off_threshold : forall cb cs : R, unit cb -> unit cs ->
  cb + cs < 1 \/ 1 + 1/1000000 <= cb + cs -> hard_mix NR cb cs = s_hard_mix cb cs.
Proof. exact formula_hard_mix. Qed.
Print Assumptions formula_hard_mix_off_threshold.
Theorem hard_mix_on_threshold_is_refuted :
  exists cb cs, unit cb /\ unit cs /\ cb + cs = 1 /\ hard_mix NR cb cs = 0 /\ s_hard_mix cb cs = 1.
Proof. exact hard_mix_on_threshold_refuted. Qed.
Print Assumptions hard_mix_on_threshold_is_refuted.
Example hard_mix_guard_inhabited : unit (1/4) /\ unit (1/4) /\ (1/4 + 1/4 < 1 \/ 1 + 1/1000000 <= 1/4 + 1/4).
Proof. unfold unit. lra. Qed.

(* ================================================================= the Photoshop-specific modes, one by one:
   each with its range theorem and its formula theorem, guards spelled out *)
Theorem range_linear_dodge_mode : forall cb cs, unit cb -> unit cs -> unit (linear_dodge NR cb cs).
Proof. intros; apply range_linear_dodge; assumption. Qed.
Theorem formula_linear_dodge_mode : forall cb cs, linear_dodge NR cb cs = Rmin 1 (cb + cs).
Proof. exact formula_linear_dodge. Qed.
Theorem range_linear_burn_mode : forall cb cs, unit cb -> unit cs -> unit (linear_burn NR cb cs).
Proof. intros; apply range_linear_burn; assumption. Qed.
Theorem formula_linear_burn_mode : forall cb cs, linear_burn NR cb cs = Rmax 0 (cb + cs - 1).
Proof. exact formula_linear_burn. Qed.
Theorem range_vivid_light_mode : forall cb cs, unit cb -> unit cs -> unit (vivid_light NR cb cs).
Proof. intros; apply range_vivid_light; assumption. Qed.
(* formula: formula_vivid_light_tol above (guards 0 < cs <= 1/2, 1/2 < cs < 1, cs = 0, cs = 1 cover [0,1]) *)
Theorem range_linear_light_mode : forall cb cs, unit cb -> unit cs -> unit (linear_light NR cb cs).
Proof. intros; apply range_linear_light; assumption. Qed.
(* formula: formula_linear_light_is_clip above (guard: both in [0,1]) *)
Theorem range_pin_light_mode : forall cb cs, unit cb -> unit cs -> unit (pin_light NR cb cs).
Proof. intros; apply range_pin_light; assumption. Qed.
Theorem formula_pin_light_mode : forall cb cs,
  pin_light NR cb cs = if Rle_dec cs (1/2) then Rmin cb (2 * cs) else Rmax cb (2 * cs - 1).
Proof. exact formula_pin_light. Qed.
Theorem range_hard_mix_mode : forall cb cs, unit cb -> unit cs -> unit (hard_mix NR cb cs).
Proof. intros; apply range_hard_mix; assumption. Qed.
Theorem hard_mix_is_exactly : forall cb cs,
  hard_mix NR cb cs = if Rle_dec 1 (cb + 999999/1000000 * cs) then 1 else 0.
Proof. exact hard_mix_exact_characterisation. Qed.
(* formula: formula_hard_mix_off_threshold (guard cb + cs < 1 \/ 1 + 1e-6 <= cb + cs) and its refuted complement *)
Theorem range_difference_mode : forall cb cs, unit cb -> unit cs -> unit (difference NR cb cs).
Proof. intros; apply range_difference; assumption. Qed.
Theorem formula_difference_mode : forall cb cs, difference NR cb cs = Rabs (cb - cs).
Proof. exact formula_difference. Qed.
Theorem range_exclusion_mode : forall cb cs, unit cb -> unit cs -> unit (exclusion NR cb cs).
Proof. intros; apply range_exclusion; assumption. Qed.
Theorem formula_exclusion_mode : forall cb cs, exclusion NR cb cs = cb + cs - 2 * cb * cs.
Proof. exact formula_exclusion. Qed.
Theorem range_subtract_mode : forall cb cs, unit cb -> unit cs -> unit (subtract NR cb cs).
Proof. intros; apply range_subtract; assumption. Qed.
Theorem formula_subtract_mode : forall cb cs, subtract NR cb cs = Rmax 0 (cb - cs).
Proof. exact formula_subtract. Qed.
Theorem range_divide_mode : forall cb cs, unit cb -> unit cs -> unit (divide NR cb cs).
Proof. intros; apply range_divide; assumption. Qed.
(* formula: formula_divide_tol above (guard 0 < cs); at the singular point cs = 0 the code is: *)
Theorem divide_black_source : forall cb, divide NR cb 0 = Rmin 1 (cb * 1000000000).
Proof. exact divide_at_0. Qed.
Print Assumptions divide_black_source.
Print Assumptions hard_mix_is_exactly.

(* ================================================================= monotonicity on [0,1]
   mono_b f: b <= b' -> f b s <= f b' s;  mono_s / anti_s: the same in the source, increasing / decreasing *)
Theorem monotone_in_the_backdrop :
  mono_b (normal NR) /\ mono_b (multiply NR) /\ mono_b (screen NR) /\ mono_b (overlay NR) /\ mono_b (darken NR) /\
  mono_b (lighten NR) /\ mono_b (color_dodge NR) /\ mono_b (color_burn NR) /\ mono_b (linear_dodge NR) /\
  mono_b (linear_burn NR) /\ mono_b (hard_light NR) /\ mono_b (soft_light NR) /\ mono_b (vivid_light NR) /\
  mono_b (linear_light NR) /\ mono_b (pin_light NR) /\ mono_b (hard_mix NR) /\ mono_b (divide NR) /\
  mono_b (subtract NR).
Proof.
  repeat split; auto using mono_b_normal, mono_b_multiply, mono_b_screen, mono_b_overlay, mono_b_darken, mono_b_lighten,
    mono_b_color_dodge, mono_b_color_burn, mono_b_linear_dodge, mono_b_linear_burn, mono_b_hard_light, mono_b_soft_light,
    mono_b_vivid_light, mono_b_linear_light, mono_b_pin_light, mono_b_hard_mix, mono_b_divide, mono_b_subtract.
Qed.
Print Assumptions monotone_in_the_backdrop.
Theorem monotone_in_the_source :
  mono_s (normal NR) /\ mono_s (multiply NR) /\ mono_s (screen NR) /\ mono_s (overlay NR) /\ mono_s (darken NR) /\
  mono_s (lighten NR) /\ mono_s (color_dodge NR) /\ mono_s (color_burn NR) /\ mono_s (linear_dodge NR) /\
  mono_s (linear_burn NR) /\ mono_s (hard_light NR) /\ mono_s (soft_light NR) /\ mono_s (linear_light NR) /\
  mono_s (pin_light NR) /\ mono_s (hard_mix NR) /\ anti_s (divide NR) /\ anti_s (subtract NR).
Proof.
  repeat split; auto using mono_s_normal, mono_s_multiply, mono_s_screen, mono_s_overlay, mono_s_darken, mono_s_lighten,
    mono_s_color_dodge, mono_s_color_burn, mono_s_linear_dodge, mono_s_linear_burn, mono_s_hard_light, mono_s_soft_light,
    mono_s_linear_light, mono_s_pin_light, mono_s_hard_mix, anti_s_divide, anti_s_subtract.
Qed.
Print Assumptions monotone_in_the_source.
(* vivid light is monotone in the source on each side of 1/2 but drops by about 1e-9 across the seam
   (color_burn(b,1) = (b+e)/(1+e) > color_dodge(b,0) = b/(1+e)); difference and exclusion are not monotone: *)
Theorem vivid_light_source_monotonicity_refuted : ~ mono_s (vivid_light NR).
Proof. exact vivid_light_seam_refuted. Qed.
Print Assumptions vivid_light_source_monotonicity_refuted.
Theorem difference_exclusion_not_monotone : ~ mono_b (difference NR) /\ ~ mono_b (exclusion NR).
Proof. exact difference_not_monotone. Qed.

(* ================================================================= documented identities *)
Theorem identities : forall b s x : R,
  normal NR b s = s /\ multiply NR b 1 = b /\ screen NR b 0 = b /\ darken NR x x = x /\ lighten NR x x = x /\
  overlay NR b s = hard_light NR s b /\ dissolve NR b s = s.
Proof.
  intros. repeat split; auto using id_normal, id_multiply_white, id_screen_black, id_darken_self, id_lighten_self,
    id_overlay_hard_light, id_dissolve_normal.
Qed.
Print Assumptions identities.

(* ================================================================= non-separable: helper laws *)
Theorem lum_of_set_lum : forall (c : rgb NR) (l : R),
  unit3 (map3 NR (fun v => v + (l - lum NR c)) c) -> lum NR (set_lum NR c l) = l.
Proof. exact lum_set_lum. Qed.
Print Assumptions lum_of_set_lum.
Example lum_of_set_lum_hypothesis_inhabited :
  unit3 (map3 NR (fun v => v + (1/2 - lum NR (1/4, 1/2, 3/4))) (1/4, 1/2, 3/4)).
Proof. munfold. unfold unit3, unit. lra. Qed.

Theorem sat_of_set_sat : forall (c : rgb NR) (s : R),
  0 <= s -> mid3 NR c < max3 NR c -> sat NR (set_sat NR c s) = s.
Proof. exact sat_set_sat. Qed.
Print Assumptions sat_of_set_sat.
Example sat_of_set_sat_hypothesis_inhabited : mid3 NR (1/4, 1/2, 3/4) < max3 NR (1/4, 1/2, 3/4).
Proof. munfold. rcases; lra. Qed.
Theorem sat_of_set_sat_two_maxima_refuted : exists c s, unit3 c /\ unit s /\ sat NR (set_sat NR c s) <> s.
Proof. exact sat_set_sat_tie_refuted. Qed.
Print Assumptions sat_of_set_sat_two_maxima_refuted.

Theorem set_sat_matches_pdf : forall (c : rgb NR) (s : R), 0 <= s -> s_min3 c < s_max3 c ->
  close3 (s_max3 c - s_min3 c) (s * (1 / 1000000000)) (set_sat NR c s) (s_set_sat c s).
Proof. exact set_sat_close. Qed.
Print Assumptions set_sat_matches_pdf.
Theorem set_sat_of_grey : forall r s : R, set_sat NR (r, r, r) s = (0, 0, 0) /\ s_set_sat (r, r, r) s = (0, 0, 0).
Proof. exact set_sat_grey. Qed.
Print Assumptions set_sat_of_grey.

Theorem clip_color_is_identity_in_range : forall c : rgb NR, unit3 c -> clip_color NR c = c.
Proof. exact clip_color_id. Qed.
Print Assumptions clip_color_is_identity_in_range.
Theorem set_lum_matches_pdf_without_clipping : forall (c : rgb NR) (l : R),
  unit3 (map3 NR (fun v => v + (l - lum NR c)) c) -> set_lum NR c l = s_set_lum c l.
Proof. exact set_lum_is_spec_noclip. Qed.
Print Assumptions set_lum_matches_pdf_without_clipping.

(* ================================================================= non-separable modes, RGB path *)
Theorem range_every_nonseparable_mode_rgb : forall (m : nonsep_mode) (cb cs : rgb NR),
  unit3 cb -> unit3 cs -> unit3 (blend_rgb NR m cb cs).
Proof. exact range_rgb. Qed.
Print Assumptions range_every_nonseparable_mode_rgb.
Theorem range_every_nonseparable_mode_rgb_exec : forall (m : nonsep_mode) (cb cs : rgb NQ),
  unit3Q cb -> unit3Q cs -> unit3Q (blend_rgb NQ m cb cs).
Proof. exact range_rgb_Q. Qed.
Print Assumptions range_every_nonseparable_mode_rgb_exec.

Theorem formula_darker_lighter_color : forall cb cs : rgb NR,
  darker_color_rgb NR cb cs = s_darker_color cb cs /\ lighter_color_rgb NR cb cs = s_lighter_color cb cs.
Proof. intros. split; [apply formula_darker_color | apply formula_lighter_color]. Qed.
Print Assumptions formula_darker_lighter_color.
Theorem formula_color_luminosity_without_clipping : forall cb cs : rgb NR,
  (unit3 (map3 NR (fun v => v + (lum NR cb - lum NR cs)) cs) -> color_rgb NR cb cs = s_color cb cs) /\
  (unit3 (map3 NR (fun v => v + (lum NR cs - lum NR cb)) cb) -> luminosity_rgb NR cb cs = s_luminosity cb cs).
Proof. intros. split; [apply formula_color_noclip | apply formula_luminosity_noclip]. Qed.
Print Assumptions formula_color_luminosity_without_clipping.
(* with clipping: _clip_color (1e-9 in both denominators, two final clamps) stays within 2e-8 of PDF ClipColor
   for every colour whose luminosity is in [0,1]; so color and luminosity match the PDF formulas on the whole cube *)
Theorem clip_color_matches_pdf : forall c : rgb NR, 0 <= lum NR c <= 1 ->
  close3 1 (20 * e9) (clip_color NR c) (s_clip_color c).
Proof. exact clip_color_close. Qed.
Print Assumptions clip_color_matches_pdf.
Theorem formula_color_everywhere : forall cb cs : rgb NR, unit3 cb ->
  close3 1 (20 * e9) (color_rgb NR cb cs) (s_color cb cs).
Proof. exact formula_color. Qed.
Print Assumptions formula_color_everywhere.
Theorem formula_luminosity_everywhere : forall cb cs : rgb NR, unit3 cs ->
  close3 1 (20 * e9) (luminosity_rgb NR cb cs) (s_luminosity cb cs).
Proof. exact formula_luminosity. Qed.
Print Assumptions formula_luminosity_everywhere.
Example unit3_inhabited : unit3 (1/4, 1/2, 3/4) /\ 0 <= lum NR (-1/10, 1/2, 11/10) <= 1.
Proof. munfold. unfold unit3, unit. lra. Qed.
(* hue and saturation on the whole cube.  PDF SetLum (ClipColor after the luminosity shift) is Lipschitz in its
   colour argument for the sup norm with constant 2 * KL, KL = 1 + 200/11 (so 2 KL < 38.4); composing the SetSat
   stage bound (s * 1e-9 / (Cmax - Cmin)) through it and adding the SetLum stage bound (2e-8) gives: *)
Theorem pdf_set_lum_is_lipschitz : forall (c c' : rgb NR) (l h : R), unit l -> dist3 c c' h ->
  dist3 (s_set_lum c l) (s_set_lum c' l) (KL * (2 * h)).
Proof. exact s_set_lum_lip. Qed.
Print Assumptions pdf_set_lum_is_lipschitz.
Theorem formula_hue_everywhere : forall cb cs : rgb NR, unit3 cb -> unit3 cs ->
  close3 (s_sat cs) (60 * e9) (hue_rgb NR cb cs) (s_hue cb cs).
Proof. exact formula_hue_weighted. Qed.
Print Assumptions formula_hue_everywhere.
Theorem formula_saturation_everywhere : forall cb cs : rgb NR, unit3 cb -> unit3 cs ->
  close3 (s_sat cb) (60 * e9) (saturation_rgb NR cb cs) (s_saturation cb cs).
Proof. exact formula_saturation_weighted. Qed.
Print Assumptions formula_saturation_everywhere.
(* the same unweighted: |code - PDF| <= 2e-8 + 2 KL * Sat(other) * 1e-9 / (Cmax - Cmin), channel by channel;
   and 2e-8 when the colour whose hue is kept is grey (weight 0 above) *)
Theorem formula_hue_explicit : forall cb cs : rgb NR, unit3 cb -> unit3 cs -> s_min3 cs < s_max3 cs ->
  dist3 (hue_rgb NR cb cs) (s_hue cb cs) (20 * e9 + KL * (2 * (s_sat cb * e9 / (s_max3 cs - s_min3 cs)))).
Proof. exact formula_hue. Qed.
Theorem formula_saturation_explicit : forall cb cs : rgb NR, unit3 cb -> unit3 cs -> s_min3 cb < s_max3 cb ->
  dist3 (saturation_rgb NR cb cs) (s_saturation cb cs)
        (20 * e9 + KL * (2 * (s_sat cs * e9 / (s_max3 cb - s_min3 cb)))).
Proof. exact formula_saturation. Qed.
Theorem formula_hue_grey_source_everywhere : forall (cb : rgb NR) (r : R), unit3 cb ->
  dist3 (hue_rgb NR cb (r, r, r)) (s_hue cb (r, r, r)) (20 * e9).
Proof. exact formula_hue_grey_source. Qed.
Theorem formula_saturation_grey_backdrop_everywhere : forall (r : R) (cs : rgb NR), unit r ->
  dist3 (saturation_rgb NR (r, r, r) cs) (s_saturation (r, r, r) cs) (20 * e9).
Proof. exact formula_saturation_grey_backdrop. Qed.
Print Assumptions formula_hue_explicit.
Print Assumptions formula_saturation_explicit.
Print Assumptions formula_hue_grey_source_everywhere.
Print Assumptions formula_saturation_grey_backdrop_everywhere.
Example hue_hypotheses_inhabited : unit3 (1/4, 1/2, 3/4) /\ s_min3 (1/4, 1/2, 3/4) < s_max3 (1/4, 1/2, 3/4).
Proof. unfold unit3, unit, s_min3, s_max3, Rmin, Rmax. repeat scase1; lra. Qed.

(* ================================================================= CMYK wrapper *)
Theorem cmyk_K_is_always_the_source_K : forall (m : nonsep_mode) (cb cs : cmyk NR),
  snd (blend_cmyk NR m cb cs) = snd cs.
Proof. exact blend_cmyk_K_is_source. Qed.
Print Assumptions cmyk_K_is_always_the_source_K.

Theorem range_cmyk_is_refuted : exists m cb cs, unit4 cb /\ unit4 cs /\ ~ unit4 (blend_cmyk NR m cb cs).
Proof. exact range_cmyk_refuted. Qed.
Print Assumptions range_cmyk_is_refuted.
(* the same witness on the executable instance, by computation: the cyan channel is -1/2 / (1/2 + 1e-9) *)
Theorem range_cmyk_is_refuted_exec :
  (fst (fst (fst (blend_cmyk NQ LighterColor (0, 0, 0, 0) (0, 0, 0, 1#2)))) < 0)%Q.
Proof. vm_compute. reflexivity. Qed.
Print Assumptions range_cmyk_is_refuted_exec.

(* the exact class: a channel comes out negative iff the blended value is brighter than the source black allows *)
Theorem cmyk_channel_negative_iff : forall k v : R, 0 <= k < 1 -> (cmy_chan k v < 0 <-> 1 - k < v).
Proof. exact cmy_chan_negative_iff. Qed.
Print Assumptions cmyk_channel_negative_iff.
Theorem cmyk_channel_never_above_1 : forall k v : R, unit k -> 0 <= v -> cmy_chan k v <= 1.
Proof. exact cmy_chan_le_1. Qed.
Print Assumptions cmyk_channel_never_above_1.
(* positive statement under the guard excluding that class *)
Theorem range_cmyk_guarded : forall (f : rgb NR -> rgb NR -> rgb NR) (cb cs : cmyk NR),
  unit (snd cs) -> unit3 (f (cmyk2rgb NR cb) (cmyk2rgb NR cs)) ->
  le3 (f (cmyk2rgb NR cb) (cmyk2rgb NR cs)) (1 - snd cs) -> unit4 (wrap_cmyk NR f cb cs).
Proof. exact wrap_cmyk_range. Qed.
Print Assumptions range_cmyk_guarded.
(* F-C12-1 exactly, for all six modes: in range IFF the source black is 1 or no blended RGB channel exceeds
   1 - K of the source.  (<-) is the positive range theorem on the complement of the finding's class. *)
Theorem range_cmyk_exactly : forall (m : nonsep_mode) (cb cs : cmyk NR), unit4 cb -> unit4 cs ->
  (unit4 (blend_cmyk NR m cb cs) <->
   (snd cs = 1 \/ le3 (blend_rgb NR m (cmyk2rgb NR cb) (cmyk2rgb NR cs)) (1 - snd cs))).
Proof. exact range_cmyk_iff. Qed.
Print Assumptions range_cmyk_exactly.
Theorem range_cmyk_darker_lighter_source_K_below_backdrop_K : forall (m : nonsep_mode) (cb cs : cmyk NR),
  m = DarkerColor \/ m = LighterColor -> unit4 cb -> unit4 cs -> snd cs <= snd cb -> unit4 (blend_cmyk NR m cb cs).
Proof. exact range_cmyk_darker_lighter. Qed.
Print Assumptions range_cmyk_darker_lighter_source_K_below_backdrop_K.
Example range_cmyk_darker_lighter_hypotheses_inhabited :
  unit4 (1/4, 1/2, 3/4, 1/2) /\ unit4 (1/2, 1/4, 1, 1/4) /\ snd (1/2, 1/4, 1, 1/4) <= snd (1/4, 1/2, 3/4, 1/2).
Proof. unfold unit4, unit. cbn [snd]. repeat split; lra. Qed.
Theorem range_cmyk_source_K0 : forall (m : nonsep_mode) (cb cs : cmyk NR),
  unit4 cb -> unit4 cs -> snd cs = 0 -> unit4 (blend_cmyk NR m cb cs).
Proof. exact range_cmyk_K0. Qed.
Print Assumptions range_cmyk_source_K0.
Example range_cmyk_source_K0_hypotheses_inhabited :
  unit4 (1/4, 1/2, 3/4, 1/2) /\ unit4 (1/2, 1/4, 1, 0) /\ snd (1/2, 1/4, 1, 0) = 0.
Proof. unfold unit4, unit. cbn [snd]. repeat split; lra. Qed.

(* ================================================================= the BLEND_FUNC table
   Blend/Table.v holds the table as data (key string -> model function).  On every run the harness dumps the live
   dict as (key, function.__name__) pairs into build/C12/gen/BlendTable.v and proves there
       check_live live_table = true            (same key set, no duplicates, same function name per key)
   and instantiates checked_live_table_is_sound with it; a swapped / missing / extra entry breaks that obligation,
   and the oracle (vh.c12.table_check) reports the offending key as a concrete failure. *)
Theorem every_table_entry_is_a_proved_mode : forall (k : string) (f : fname),
  In (k, f) blend_table -> entry_proved f.
Proof. exact table_entries_proved. Qed.
Print Assumptions every_table_entry_is_a_proved_mode.
Theorem table_has_54_unique_keys_and_two_per_function :
  (length blend_table = 54%nat /\ nodup_keys table_names = true) /\ forall f, count_f f = 2%nat.
Proof. split; [exact table_shape | exact table_covers_every_mode]. Qed.
Print Assumptions table_has_54_unique_keys_and_two_per_function.
Theorem function_name_determines_the_model_function : forall f g : fname, fname_str f = fname_str g -> f = g.
Proof. exact fname_str_injective. Qed.
Theorem checked_live_table_is_sound : forall live, check_live live = true ->
  forall k n, In (k, n) live ->
  exists f, In (k, f) blend_table /\ fname_str f = n /\ entry_proved f /\ (forall g, fname_str g = n -> g = f).
Proof. exact live_table_sound. Qed.
Print Assumptions checked_live_table_is_sound.
Example check_live_accepts_the_model_table : check_live table_names = true.
Proof. vm_compute. reflexivity. Qed.
Example check_live_rejects_a_swapped_entry :
  check_live (("BlendMode.NORMAL", "multiply") :: tl table_names)%string = false.
Proof. vm_compute. reflexivity. Qed.

(* ================================================================= the executable instance refines the real one *)
Theorem exec_refines_real_separable : forall (m : sep_mode) (cb cs : Q), m <> SoftLight -> (0 <= cs <= 1)%Q ->
  Q2R (blend_sep NQ m cb cs) = blend_sep NR m (Q2R cb) (Q2R cs).
Proof. exact refine_sep. Qed.
Print Assumptions exec_refines_real_separable.
Theorem exec_soft_light_within_2p32 : forall cb cs : Q, (0 <= cb <= 1)%Q -> (0 <= cs <= 1)%Q ->
  Rabs (Q2R (soft_light NQ cb cs) - soft_light NR (Q2R cb) (Q2R cs)) <= / IZR (2 ^ 32).
Proof. exact refine_soft_light. Qed.
Print Assumptions exec_soft_light_within_2p32.
Theorem exec_refines_real_rgb : forall (m : nonsep_mode) (cb cs : rgb NQ),
  Q2R3 (blend_rgb NQ m cb cs) = blend_rgb NR m (Q2R3 cb) (Q2R3 cs).
Proof. exact refine_rgb. Qed.
Print Assumptions exec_refines_real_rgb.
Theorem exec_refines_real_cmyk : forall (m : nonsep_mode) (cb cs : cmyk NQ), Q2R (snd cs) <= 1 ->
  Q2R4 (blend_cmyk NQ m cb cs) = blend_cmyk NR m (Q2R4 cb) (Q2R4 cs).
Proof. exact refine_cmyk. Qed.
Print Assumptions exec_refines_real_cmyk.

(* the non-separable formula theorems read on the executable instance *)
Theorem formula_nonseparable_exec : forall cb cs : rgb NQ, unit3Q cb -> unit3Q cs ->
  close3 (s_sat (Q2R3 cs)) (60 * e9) (Q2R3 (hue_rgb NQ cb cs)) (s_hue (Q2R3 cb) (Q2R3 cs)) /\
  close3 (s_sat (Q2R3 cb)) (60 * e9) (Q2R3 (saturation_rgb NQ cb cs)) (s_saturation (Q2R3 cb) (Q2R3 cs)) /\
  close3 1 (20 * e9) (Q2R3 (color_rgb NQ cb cs)) (s_color (Q2R3 cb) (Q2R3 cs)) /\
  close3 1 (20 * e9) (Q2R3 (luminosity_rgb NQ cb cs)) (s_luminosity (Q2R3 cb) (Q2R3 cs)).
Proof.
  intros cb cs Hb Hs. repeat split;
    [apply formula_hue_exec | apply formula_saturation_exec | apply formula_color_exec | apply formula_luminosity_exec];
    assumption.
Qed.
Print Assumptions formula_nonseparable_exec.
