From PsdV Require Import Base.Prelude Blend.Num Blend.Model.
