(* C14 -- read-only operations are pure, and derived values are never stale. *)
From PsdV Require Import Base.Prelude Edit.Model Edit.Corr Edit.Inv Edit.Cache.
Open Scope Z_scope.

(* F-C14-1: no structure edit invalidates a cached bbox: new group, read its (empty) bbox,
   append a layer: the cache keeps (0,0,0,0) *)
Theorem structure_edit_stale_refuted :
  exists s o, Inv s /\ Coherent s /\ snd (step s o) = Done [] /\ ~ Coherent (fst (step s o)).
Proof.
  exists (run empty_state (init4 ++ [NewGroup (Some 0); ObsBbox 4; NewPixel (Some 0) 2 2 3 3])), (Append 4 5).
  split; [apply Invb_iff; vm_compute; reflexivity|].
  split; [apply coherentb_iff; vm_compute; reflexivity|].
  split; [vm_compute; reflexivity|].
  intro H. apply coherentb_iff in H. vm_compute in H. discriminate.
Qed.
Print Assumptions structure_edit_stale_refuted.

(* F-C14-2: _invalidate_bbox stops below the document: the document's cache survives every setter *)
Theorem document_cache_stale_refuted :
  exists s o, Inv s /\ Coherent s /\ snd (step s o) = Done [] /\ ~ Coherent (fst (step s o)).
Proof.
  exists (run empty_state (init4 ++ [ObsBbox 0])), (SetLeft 1 5).
  split; [apply Invb_iff; vm_compute; reflexivity|].
  split; [apply coherentb_iff; vm_compute; reflexivity|].
  split; [vm_compute; reflexivity|].
  intro H. apply coherentb_iff in H. vm_compute in H. discriminate.
Qed.
Print Assumptions document_cache_stale_refuted.

(* F-C14-3: hiding a group invalidates the caches above it, not those of the groups inside it,
   whose members are no longer visible *)
Theorem group_visibility_stale_refuted :
  exists s o, Inv s /\ Coherent s /\ snd (step s o) = Done [] /\ ~ Coherent (fst (step s o)).
Proof.
  exists (run empty_state (init1 ++ [ObsBbox 2])), (SetVisible 1 false).
  split; [apply Invb_iff; vm_compute; reflexivity|].
  split; [apply coherentb_iff; vm_compute; reflexivity|].
  split; [vm_compute; reflexivity|].
  intro H. apply coherentb_iff in H. vm_compute in H. discriminate.
Qed.
Print Assumptions group_visibility_stale_refuted.
