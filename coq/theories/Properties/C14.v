(* C14 -- read-only operations are pure, and derived values are never stale.

   Model: Edit/Model.v ([ocache] = the _bbox of groups and documents; [fresh_bbox] = Group.extract_bbox
   computed now, following the stored _parent pointers for visibility as the code does).
   Coherent s (Edit/Cache.v): every filled cache equals the fresh value. *)
From PsdV Require Import Base.Prelude Edit.Model Edit.Corr Edit.Inv Edit.Cache Edit.Forest Edit.ProofsInv Edit.ProofsCache.
Open Scope Z_scope.

(* ---------------------------------------------------------------- read-only operations are pure *)
(* bbox / size / repr / descendants / find / is_visible change nothing but bbox caches: structure, pointers,
   flags, rectangles, clip lists, dirty flag and allocation stay as they were -- for every state, reachable or
   not, and every code variant.  (What a later save() writes is a function of exactly these fields.) *)
Theorem observers_pure : forall s o, is_observer o = true -> same_but_caches s (fst (step s o)).
Proof. exact observers_pure_l. Qed.
Print Assumptions observers_pure.

(* a fresh bounding box never reads a cache: the answer does not depend on what was read before *)
Theorem fresh_ignores_caches : forall s s' g, same_but_caches s s' -> fresh_bbox s' g = fresh_bbox s g.
Proof. exact fresh_nocache. Qed.
Print Assumptions fresh_ignores_caches.

Theorem observers_commute_with_fresh : forall s o g, is_observer o = true ->
  fresh_bbox (fst (step s o)) g = fresh_bbox s g.
Proof. intros s o g Ho. apply fresh_nocache, observers_pure_l, Ho. Qed.
Print Assumptions observers_commute_with_fresh.

(* read-only operations keep every cache coherent (they only store fresh values) *)
Theorem observers_keep_coherent : forall s o, is_observer o = true ->
  Forall (fun x => 0 <= x < next s) (op_ids o) -> Coherent s -> Coherent (fst (step s o)).
Proof. exact observers_coherent_l. Qed.
Print Assumptions observers_keep_coherent.

(* on a coherent state the answer of bbox IS the fresh value (an empty document answers its viewbox) *)
Theorem coherent_bbox_answer : forall s x v,
  Coherent s -> 0 <= x < next s -> is_container s x = true -> corrupt s = false ->
  snd (step s (ObsBbox x)) = Done v ->
  exists b, fresh_bbox s x = Some b /\
            v = box_list (if (kind s x =? KDoc) && box_eqb b box0 then orect (objs s x) else b).
Proof. exact obs_bbox_answer. Qed.
Print Assumptions coherent_bbox_answer.

Example coherent_scene1 :
  let s := run (empty_state_v (mkCfg true true true true true)) (init1 ++ [ObsBbox 0; ObsBbox 1; ObsRepr 2]) in
  Coherent s /\ ocache (objs s 1) = Some (1, 0, 6, 3).
Proof. split; [apply coherentb_iff; vm_compute; reflexivity | vm_compute; reflexivity]. Qed.

(* ---------------------------------------------------------------- setters *)
(* layer.left = v: every cache that is still filled afterwards and whose object does not have the moved
   layer below it equals a fresh computation.  setter_keeps_coherent_partial: the complementary half --
   "the caches of all objects above the layer were dropped", which needs the reachability of every
   lister through the stored _parent chain (true under Inv on the repaired variant a55dbce, false
   for documents before it, see document_cache_stale_refuted) -- is not proved here; it is checked on
   the implementation after every step by the staleness oracle of harness/vh/c14.py. *)
Theorem setter_keeps_coherent_partial : forall s x v w,
  Coherent s -> snd (step s (SetLeft x v)) = Done w ->
  forall j b, 0 <= j < next s -> ocache (objs (fst (step s (SetLeft x v))) j) = Some b ->
              ~ In x (ids_l (kids_of s j)) -> fresh_bbox (fst (step s (SetLeft x v))) j = Some b.
Proof.
  intros s x v w C HD j b Hj Hc Hx. unfold step in *. destruct (corrupt s); [discriminate|].
  cbn [needs_container needs_layer] in *. unfold do_set_left in *.
  destruct (kind s x =? KPixel); cbn [negb] in *; [|discriminate].
  pose proof (invalidate_oc s x) as O. destruct (invalidate s x) as [s1 [|]]; cbn [fst snd] in *; [|discriminate].
  destruct (orect (objs s x)) as [[[l t] r] bt]. cbn [fst] in *.
  apply (move_keeps_coherent_off_path s x _ s1 C O j b Hj Hc Hx).
Qed.
Print Assumptions setter_keeps_coherent_partial.

(* ---------------------------------------------------------------- what the faithful model refutes *)
(* variant cfg0 = the pinned tree; each witness is replayed on the real code by harness/vh/c14.py *)

(* F-C14-1 (fixed by a55dbce): no structure edit invalidates a cached bbox *)
Theorem structure_edit_stale_refuted :
  exists s o, Inv s /\ Coherent s /\ snd (step s o) = Done [] /\ ~ Coherent (fst (step s o)).
Proof.
  exists (run empty_state (init4 ++ [NewGroup (Some 0); ObsBbox 4; NewPixel (Some 0) 2 2 3 3])), (Append 4 5).
  split; [apply Invb_iff; vm_compute; reflexivity|].
  split; [apply coherentb_iff; vm_compute; reflexivity|].
  split; [vm_compute; reflexivity|].
  intro H. apply coherentb_iff in H. vm_compute in H. discriminate.
Qed.
Print Assumptions structure_edit_stale_refuted.

(* F-C14-2 (fixed by a55dbce): the document's cache survived every setter *)
Theorem document_cache_stale_refuted :
  exists s o, Inv s /\ Coherent s /\ snd (step s o) = Done [] /\ ~ Coherent (fst (step s o)).
Proof.
  exists (run empty_state (init4 ++ [ObsBbox 0])), (SetLeft 1 5).
  split; [apply Invb_iff; vm_compute; reflexivity|].
  split; [apply coherentb_iff; vm_compute; reflexivity|].
  split; [vm_compute; reflexivity|].
  intro H. apply coherentb_iff in H. vm_compute in H. discriminate.
Qed.
Print Assumptions document_cache_stale_refuted.

(* F-C14-3 (fixed by a55dbce): hiding a group left the caches of the groups inside it *)
Theorem group_visibility_stale_refuted :
  exists s o, Inv s /\ Coherent s /\ snd (step s o) = Done [] /\ ~ Coherent (fst (step s o)).
Proof.
  exists (run empty_state (init1 ++ [ObsBbox 2])), (SetVisible 1 false).
  split; [apply Invb_iff; vm_compute; reflexivity|].
  split; [apply coherentb_iff; vm_compute; reflexivity|].
  split; [vm_compute; reflexivity|].
  intro H. apply coherentb_iff in H. vm_compute in H. discriminate.
Qed.
Print Assumptions group_visibility_stale_refuted.

(* the same three histories on the repaired variant end coherent *)
Example repaired_variant_coherent :
  let c := mkCfg true true true true true in
  Coherent (run (empty_state_v c) (init4 ++ [NewGroup (Some 0); ObsBbox 4; NewPixel (Some 0) 2 2 3 3; Append 4 5]))
  /\ Coherent (run (empty_state_v c) (init4 ++ [ObsBbox 0; SetLeft 1 5]))
  /\ Coherent (run (empty_state_v c) (init1 ++ [ObsBbox 2; SetVisible 1 false])).
Proof. repeat split; apply coherentb_iff; vm_compute; reflexivity. Qed.

(* F-C14-5 (open, every variant): a removed group keeps its _parent; its cache depends on the old parent's
   visibility and no invalidation walk reaches it *)
Theorem stale_parent_chain_refuted : forall c : cfg,
  exists s o, Inv s /\ Coherent s /\ snd (step s o) = Done [] /\ ~ Coherent (fst (step s o)).
Proof.
  intro c. exists (run (empty_state_v c) (init1 ++ [Remove 1 2; ObsBbox 2])), (SetVisible 1 false).
  destruct c as [[] [] [] [] []];
    (split; [apply Invb_iff; vm_compute; reflexivity|];
     split; [apply coherentb_iff; vm_compute; reflexivity|];
     split; [vm_compute; reflexivity|];
     intro H; apply coherentb_iff in H; vm_compute in H; discriminate).
Qed.
Print Assumptions stale_parent_chain_refuted.
