(* C14 -- read-only operations are pure, and derived values are never stale.

   Model: Edit/Model.v ([ocache] = the _bbox of groups and documents; [fresh_bbox] = Group.extract_bbox
   computed now, following the stored _parent pointers for visibility as the code does).
   Coherent s (Edit/Cache.v): every filled cache equals the fresh value. *)
From PsdV Require Import Base.Prelude Edit.Model Edit.Corr Edit.Inv Edit.Cache Edit.Forest Edit.ProofsInv Edit.ProofsTree
  Edit.ProofsCache Edit.ProofsCoh.
Open Scope Z_scope.

(* ---------------------------------------------------------------- read-only operations are pure *)
(* bbox / size / repr / descendants / find / is_visible change nothing but bbox caches: structure, pointers,
   flags, rectangles, clip lists, dirty flag and allocation stay as they were -- for every state, reachable or
   not, and every code variant.  (What a later save() writes is a function of exactly these fields.) *)
Theorem observers_pure : forall s o, is_observer o = true -> same_but_caches s (fst (step s o)).
Proof. exact observers_pure_l. Qed.
Print Assumptions observers_pure.

(* a fresh bounding box never reads a cache: the answer does not depend on what was read before *)
Theorem fresh_ignores_caches : forall s s' g, same_but_caches s s' -> fresh_bbox s' g = fresh_bbox s g.
Proof. exact fresh_nocache. Qed.
Print Assumptions fresh_ignores_caches.

Theorem observers_commute_with_fresh : forall s o g, is_observer o = true ->
  fresh_bbox (fst (step s o)) g = fresh_bbox s g.
Proof. intros s o g Ho. apply fresh_nocache, observers_pure_l, Ho. Qed.
Print Assumptions observers_commute_with_fresh.

(* read-only operations keep every cache coherent (they only store fresh values) *)
Theorem observers_keep_coherent : forall s o, is_observer o = true ->
  Forall (fun x => 0 <= x < next s) (op_ids o) -> Coherent s -> Coherent (fst (step s o)).
Proof. exact observers_coherent_l. Qed.
Print Assumptions observers_keep_coherent.

(* on a coherent state the answer of bbox IS the fresh value (an empty document answers its viewbox) *)
Theorem coherent_bbox_answer : forall s x v,
  Coherent s -> 0 <= x < next s -> is_container s x = true -> corrupt s = false ->
  snd (step s (ObsBbox x)) = Done v ->
  exists b, fresh_bbox s x = Some b /\
            v = box_list (if (kind s x =? KDoc) && box_eqb b box0 then orect (objs s x) else b).
Proof. exact obs_bbox_answer. Qed.
Print Assumptions coherent_bbox_answer.

Example coherent_scene1 :
  let s := run (empty_state_v (mkCfg true true true true true)) (init1 ++ [ObsBbox 0; ObsBbox 1; ObsRepr 2]) in
  Coherent s /\ ocache (objs s 1) = Some (1, 0, 6, 3).
Proof. split; [apply coherentb_iff; vm_compute; reflexivity | vm_compute; reflexivity]. Qed.

(* ---------------------------------------------------------------- derived values are never stale (repaired variant) *)
(* CoherentA s (Edit/ProofsCoh.v): every group or document that hangs below a document ([att]) and has a filled
   bbox cache answers exactly the fresh computation.  [fixedv]: the variant with the repairs a55dbce (caches dropped
   upwards incl. the document, downwards on group visibility and on adoption) and edc9f34.
   One step, ANY of the 27 modelled operations -- every structure edit, every setter, every read-only operation --
   from ANY state satisfying the invariant, inside [guard] (objects exist; layers handed to append / extend /
   insert / item assignment are detached = no double listing, the class of F-C14-4).  The proof needs that
   _invalidate_bbox_upwards reaches every lister through the stored _parent chain (inval_up_reach: I1 + a size
   argument for the fuel) and that a fresh bbox only depends on the subtree and on the visibility chain above it.
   Objects that do NOT hang below a document are outside the statement: a removed group keeps its stale _parent
   and its cache can go stale (F-C14-5, stale_parent_chain_refuted); when it is attached again all caches inside
   it are dropped, which is why the attached part stays coherent. *)
Theorem step_coherent : forall s o,
  Inv s -> quiet s -> fixedv s -> guard s o -> CoherentA s -> CoherentA (fst (step s o)).
Proof. intros s o HI Q. apply step_cohA. split; assumption. Qed.
Print Assumptions step_coherent.

(* every guarded history, of any length, from any coherent state satisfying the invariant *)
Theorem history_coherent : forall h s,
  Inv s -> quiet s -> fixedv s -> guards s h -> CoherentA s -> CoherentA (run s h).
Proof. intros h s HI Q. apply run_cohA. split; assumption. Qed.
Print Assumptions history_coherent.

(* ... in particular every state reachable from nothing *)
Theorem reachable_coherent : forall c h,
  cachefix c = true -> clipsfix c = true -> descfix c = true ->
  guards (empty_state_v c) h -> CoherentA (run (empty_state_v c) h).
Proof.
  intros c h C1 C2 C3 Hg. apply run_cohA; [apply empty_good; left; exact C3 | split; assumption | exact Hg|].
  intros j b _ _ Hc. cbn in Hc. discriminate.
Qed.
Print Assumptions reachable_coherent.

Example coherent_history_example :
  let s := run (empty_state_v (mkCfg true true true true true)) init1 in
  guards s [ObsBbox 0; ObsBbox 1; ObsBbox 2; MoveToGroup 4 2; SetVisible 1 false; NewPixel (Some 0) 0 0 2 2; Insert 2 0 7; SetLeft 3 5].
Proof. apply guardsb_ok. vm_compute. reflexivity. Qed.

(* with a coherent attached object, the answer of bbox is the fresh value: coherent_bbox_answer above
   (stated for Coherent; the same proof works from the cache entry of the object asked) *)

(* outside the guard: a layer listed in two groups (accepted by append, F-C10-1) reports only its last lister, so a
   setter drops the caches above that one only: the attached group 2 keeps a stale box -- on the repaired variant *)
Definition dl_s0 : state := run (empty_state_v (mkCfg true true true true true)) init4.
Definition dl_h : list op := [Append 0 3; ObsBbox 2; SetLeft 3 6].
Lemma dl_inv : Inv dl_s0. Proof. apply Invb_iff. vm_compute. reflexivity. Qed.
Lemma dl_coh : CoherentA dl_s0. Proof. apply coherent_cohA; [exact dl_inv | apply coherentb_iff; vm_compute; reflexivity]. Qed.
Lemma dl_notroot : ~ rootid dl_s0 3. Proof. apply (notin_memz 3 (map tid (roots dl_s0))). vm_compute. reflexivity. Qed.
Lemma dl_att : att (run dl_s0 dl_h) 2.
Proof.
  apply (att_child _ 0 2).
  - apply att_doc; [vm_compute; reflexivity | apply (proj1 (memz_In 0 (ids_l (roots (run dl_s0 dl_h))))); vm_compute; reflexivity].
  - apply (In_edge_b 0 2 (edges_l (roots (run dl_s0 dl_h)))). vm_compute. reflexivity.
Qed.
Lemma dl_e1 : is_container (run dl_s0 dl_h) 2 = true. Proof. vm_compute. reflexivity. Qed.
Lemma dl_e2 : ocache (objs (run dl_s0 dl_h) 2) = Some (3, 2, 5, 5). Proof. vm_compute. reflexivity. Qed.
Lemma dl_e3 : fresh_bbox (run dl_s0 dl_h) 2 = Some (6, 2, 8, 5). Proof. vm_compute. reflexivity. Qed.
Theorem double_listing_breaks_coherence_refuted :
  exists s h, Inv s /\ CoherentA s /\ ~ guards s h /\ ~ CoherentA (run s h).
Proof.
  exists dl_s0, dl_h. split; [exact dl_inv|]. split; [exact dl_coh|]. split.
  - intros [[_ Hr] _]. exact (dl_notroot Hr).
  - intro C.
    pose proof (C 2 (3, 2, 5, 5) dl_att dl_e1 dl_e2) as E4. rewrite dl_e3 in E4. discriminate.
Qed.
Print Assumptions double_listing_breaks_coherence_refuted.

(* the partial statement about left/top that needs no invariant at all *)
Theorem setter_keeps_coherent_partial : forall s x v w,
  Coherent s -> snd (step s (SetLeft x v)) = Done w ->
  forall j b, 0 <= j < next s -> ocache (objs (fst (step s (SetLeft x v))) j) = Some b ->
              ~ In x (ids_l (kids_of s j)) -> fresh_bbox (fst (step s (SetLeft x v))) j = Some b.
Proof.
  intros s x v w C HD j b Hj Hc Hx. unfold step in *. destruct (corrupt s); [discriminate|].
  cbn [needs_container needs_layer] in *. unfold do_set_left in *.
  destruct (kind s x =? KPixel); cbn [negb] in *; [|discriminate].
  pose proof (invalidate_oc s x) as O. destruct (invalidate s x) as [s1 [|]]; cbn [fst snd] in *; [|discriminate].
  destruct (orect (objs s x)) as [[[l t] r] bt]. cbn [fst] in *.
  apply (move_keeps_coherent_off_path s x _ s1 C O j b Hj Hc Hx).
Qed.
Print Assumptions setter_keeps_coherent_partial.

(* ---------------------------------------------------------------- what the faithful model refutes *)
(* variant cfg0 = the pinned tree; each witness is replayed on the real code by harness/vh/c14.py *)

(* F-C14-1 (fixed by a55dbce): no structure edit invalidates a cached bbox *)
Theorem structure_edit_stale_refuted :
  exists s o, Inv s /\ Coherent s /\ snd (step s o) = Done [] /\ ~ Coherent (fst (step s o)).
Proof.
  exists (run empty_state (init4 ++ [NewGroup (Some 0); ObsBbox 4; NewPixel (Some 0) 2 2 3 3])), (Append 4 5).
  split; [apply Invb_iff; vm_compute; reflexivity|].
  split; [apply coherentb_iff; vm_compute; reflexivity|].
  split; [vm_compute; reflexivity|].
  intro H. apply coherentb_iff in H. vm_compute in H. discriminate.
Qed.
Print Assumptions structure_edit_stale_refuted.

(* F-C14-2 (fixed by a55dbce): the document's cache survived every setter *)
Theorem document_cache_stale_refuted :
  exists s o, Inv s /\ Coherent s /\ snd (step s o) = Done [] /\ ~ Coherent (fst (step s o)).
Proof.
  exists (run empty_state (init4 ++ [ObsBbox 0])), (SetLeft 1 5).
  split; [apply Invb_iff; vm_compute; reflexivity|].
  split; [apply coherentb_iff; vm_compute; reflexivity|].
  split; [vm_compute; reflexivity|].
  intro H. apply coherentb_iff in H. vm_compute in H. discriminate.
Qed.
Print Assumptions document_cache_stale_refuted.

(* F-C14-3 (fixed by a55dbce): hiding a group left the caches of the groups inside it *)
Theorem group_visibility_stale_refuted :
  exists s o, Inv s /\ Coherent s /\ snd (step s o) = Done [] /\ ~ Coherent (fst (step s o)).
Proof.
  exists (run empty_state (init1 ++ [ObsBbox 2])), (SetVisible 1 false).
  split; [apply Invb_iff; vm_compute; reflexivity|].
  split; [apply coherentb_iff; vm_compute; reflexivity|].
  split; [vm_compute; reflexivity|].
  intro H. apply coherentb_iff in H. vm_compute in H. discriminate.
Qed.
Print Assumptions group_visibility_stale_refuted.

(* the same three histories on the repaired variant end coherent *)
Example repaired_variant_coherent :
  let c := mkCfg true true true true true in
  Coherent (run (empty_state_v c) (init4 ++ [NewGroup (Some 0); ObsBbox 4; NewPixel (Some 0) 2 2 3 3; Append 4 5]))
  /\ Coherent (run (empty_state_v c) (init4 ++ [ObsBbox 0; SetLeft 1 5]))
  /\ Coherent (run (empty_state_v c) (init1 ++ [ObsBbox 2; SetVisible 1 false])).
Proof. repeat split; apply coherentb_iff; vm_compute; reflexivity. Qed.

(* F-C14-5 (open, every variant): a removed group keeps its _parent; its cache depends on the old parent's
   visibility and no invalidation walk reaches it *)
Theorem stale_parent_chain_refuted : forall c : cfg,
  exists s o, Inv s /\ Coherent s /\ snd (step s o) = Done [] /\ ~ Coherent (fst (step s o)).
Proof.
  intro c. exists (run (empty_state_v c) (init1 ++ [Remove 1 2; ObsBbox 2])), (SetVisible 1 false).
  destruct c as [[] [] [] [] []];
    (split; [apply Invb_iff; vm_compute; reflexivity|];
     split; [apply coherentb_iff; vm_compute; reflexivity|];
     split; [vm_compute; reflexivity|];
     intro H; apply coherentb_iff in H; vm_compute in H; discriminate).
Qed.
Print Assumptions stale_parent_chain_refuted.
