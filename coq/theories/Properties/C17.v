(* C17 - the stored merged image is valid and matches the layers after an edit.
   Plane-plumbing model of PSDImage.save (Pixels/Model.v): the compositor's result is an input
   ([rendered]); what is proved is which planes reach ImageData.set_data, that they read back, and
   when their number and size are the ones the header declares.  Every statement holds for every
   width, height, channel count, depth in {8,16,32} and all four compression methods. *)
From Coq Require Import Reals.
From PsdV Require Import Base.Prelude Pixels.Model Pixels.Corr Pixels.Proofs Pixels.File Pixels.Merged Pixels.MergedDoc.
Open Scope Z_scope.

(* 1. nothing structural was edited: the image-data record is the one that was read, untouched *)
Theorem clean_save_preserves_bytes : forall c hd old rd transp ti,
  save c hd false old rd transp ti = Ok old.
Proof. exact Proofs.clean_save. Qed.
Print Assumptions clean_save_preserves_bytes.

(* 2. whatever ImageData.get_data returns has the shape the header declares: one plane per channel,
   each of height*width*bytes-per-sample; so a merged image that reads back at all is well-shaped *)
Theorem readback_has_header_shape : forall st hd ps,
  header_ok hd -> get_data st hd = Ok ps -> planes_fit hd ps.
Proof. exact Proofs.get_data_fit. Qed.
Print Assumptions readback_has_header_shape.

(* 3. planes that fit the header read back exactly, for every compression method *)
Theorem fitting_planes_read_back : forall c hd ps, header_ok hd -> planes_fit hd ps ->
  (do st <- set_data c hd ps; get_data st hd) = Ok ps.
Proof. exact Proofs.set_get_inverse. Qed.
Print Assumptions fitting_planes_read_back.

(* 4. THE CODE AS IT IS (fx_save = false).  After a structural edit save() stores the bands of
   composite(force=True): colour planes plus ALWAYS an alpha band, 8-bit samples.  The merged image
   that is written reads back as exactly those bands IF AND ONLY IF the document is 8-bit and has
   exactly one channel more than its colour mode needs, in grayscale or RGB (F-C17-1/2/3). *)
Theorem planes_match_iff : forall c hd old rd transp ti,
  fx_save c = false -> header_ok hd -> rendered8 hd rd ->
  ((exists st, save c hd true old rd transp ti = Ok st /\
               get_data st hd = Ok (rd_straight rd ++ [rd_alpha rd]))
   <-> unfixed_save_class hd).
Proof.
  intros c hd old rd transp ti Hfx Hh Hrd. split.
  - intros (st & Hs & Hg). exact (Proofs.save_unfixed_only c hd old rd transp ti st Hfx Hh Hrd Hs Hg).
  - exact (Proofs.save_unfixed_ok c hd old rd transp ti Hfx Hh Hrd).
Qed.
Print Assumptions planes_match_iff.
Example planes_match_iff_hyp :
  header_ok (mkH CRgb 4 2 1 8) /\ rendered8 (mkH CRgb 4 2 1 8) (mkRd [[1;2];[3;4];[5;6]] [] [9;9]) /\
  unfixed_save_class (mkH CRgb 4 2 1 8).
Proof.
  split; [unfold header_ok, depth_ok; cbn; lia|]. split.
  - split; [reflexivity|]. split; [repeat constructor|reflexivity].
  - split; [reflexivity|]. right. split; reflexivity.
Qed.

(* the number of bands written, against the header: equal exactly for (grayscale, 2), (RGB, 4) *)
Theorem bands_written_iff : forall hd,
  bands_written_unfixed hd = Some (h_channels hd) <->
  (h_cm hd = CGray /\ h_channels hd = 2) \/ (h_cm hd = CRgb /\ h_channels hd = 4).
Proof.
  intro hd. unfold bands_written_unfixed. destruct (h_cm hd); split; intro H;
    try discriminate; try (destruct H as [[? ?]|[? ?]]; congruence).
  - left. split; [reflexivity|congruence].
  - right. split; [reflexivity|congruence].
Qed.
Print Assumptions bands_written_iff.

(* the failing side, as concrete witnesses (each replayed on the code by the harness):
   F-C17-1  RGB, 3 channels: four planes are joined; RAW keeps all 4 (payload longer than the header
            geometry, the 4th is cut on reading), RLE stores 3, ZIP / ZIP+prediction cannot be read *)
Theorem rgb3_four_planes_refuted : exists hd rd,
  header_ok hd /\ rendered8 hd rd /\ h_cm hd = CRgb /\ h_channels hd = 3 /\
  (exists st, save unfixed hd true (mkI RAW []) rd false 0 = Ok st /\
              zlen (i_vis st) = 4 * plane_bytes hd /\ get_data st hd = Ok (rd_straight rd)) /\
  (exists st, save unfixed hd true (mkI ZIP []) rd false 0 = Ok st /\ get_data st hd = Err AssertErr) /\
  (exists st, save unfixed hd true (mkI ZIPP []) rd false 0 = Ok st /\ get_data st hd = Err AssertErr).
Proof.
  exists (mkH CRgb 3 2 2 8), (mkRd [[1;2;3;4];[5;6;7;8];[9;10;11;12]] [] [255;255;0;0]).
  split; [unfold header_ok, depth_ok; cbn; lia|].
  split; [split; [reflexivity|split; [repeat constructor|reflexivity]]|].
  split; [reflexivity|]. split; [reflexivity|].
  repeat split; eexists; repeat split; vm_compute; reflexivity.
Qed.
Print Assumptions rgb3_four_planes_refuted.

(* F-C17-2  CMYK: composite_pil asks PIL for mode "CMYKA": save() raises TypeError *)
Theorem cmyk_save_fails_refuted : forall c hd old rd transp ti,
  fx_save c = false -> h_cm hd = CCmyk ->
  save c hd true old rd transp ti = Err TypeErr.
Proof.
  intros c hd old rd transp ti Hfx Hcm. unfold save. cbn [negb]. rewrite Hfx. cbn [negb].
  unfold composite_pil_force. rewrite Hcm. reflexivity.
Qed.
Print Assumptions cmyk_save_fails_refuted.

(* F-C17-3  16-bit (and 32-bit) documents get 8-bit planes: half (a quarter of) the bytes the header
   needs; RLE raises at once only on reading, RAW/ZIP store a short payload that cannot be read *)
Theorem deep_save_fails_refuted : exists hd rd,
  header_ok hd /\ rendered8 hd rd /\ h_depth hd = 16 /\ h_cm hd = CRgb /\ h_channels hd = 4 /\
  forall cmp, exists e, (do st <- save unfixed hd true (mkI cmp []) rd false 0; get_data st hd) = Err e.
Proof.
  exists (mkH CRgb 4 2 1 16), (mkRd [[1;2];[3;4];[5;6]] [] [255;0]).
  split; [unfold header_ok, depth_ok; cbn; lia|].
  split; [split; [reflexivity|split; [repeat constructor|reflexivity]]|].
  repeat split. intros []; eexists; vm_compute; reflexivity.
Qed.
Print Assumptions deep_save_fails_refuted.

(* 5. THE PROPOSED CORRECTION (fx_save = true; /verif/proposed_fixes/c17_merged_image_on_save.diff,
   not applied).  For every header, compression, channel count and depth: the merged image that is
   written reads back, has exactly the planes and plane size the header declares, holds the
   rendered colour in the colour planes, the rendered alpha in the transparency plane when the
   document has one, and every other plane (saved selections) as it was. *)
Theorem save_fixed_planes_match : forall c hd old rd transp ti planes,
  fx_save c = true -> header_ok hd -> h_cm hd <> CBitmap ->
  get_data old hd = Ok planes -> rendered_fit hd rd ->
  (length (rd_straight rd) <= length planes)%nat -> 0 <= ti < h_channels hd ->
  let nc := length (rd_straight rd) in
  let transparency := transp && (nc <? length planes)%nat in
  exists st ps,
    save c hd true old rd transp ti = Ok st /\ get_data st hd = Ok ps /\
    planes_fit hd ps /\
    (transparency = false -> firstn nc ps = chosen_color hd rd false /\ skipn nc ps = skipn nc planes) /\
    (transparency = true -> nth (Z.to_nat ti) ps [] = rd_alpha rd /\
       forall i, (i < nc)%nat -> i <> Z.to_nat ti -> nth i ps [] = nth i (chosen_color hd rd true) []).
Proof. exact Proofs.save_fixed_spec. Qed.
Print Assumptions save_fixed_planes_match.
Example save_fixed_planes_match_hyp :
  let hd := mkH CCmyk 5 2 1 16 in
  let old := mkI RLE (concat [[0;0;0;0];[1;1;1;1];[2;2;2;2];[3;3;3;3];[4;4;4;4]]) in
  let rd := mkRd [[9;9;9;9];[8;8;8;8];[7;7;7;7];[6;6;6;6]] [[9;9;9;9];[8;8;8;8];[7;7;7;7];[6;6;6;6]] [5;5;5;5] in
  header_ok hd /\ h_cm hd <> CBitmap /\ rendered_fit hd rd /\
  get_data old hd = Ok [[0;0;0;0];[1;1;1;1];[2;2;2;2];[3;3;3;3];[4;4;4;4]] /\
  (do st <- save fixed hd true old rd true 4; get_data st hd)
    = Ok [[9;9;9;9];[8;8;8;8];[7;7;7;7];[6;6;6;6];[5;5;5;5]].
Proof.
  cbv zeta. split; [unfold header_ok, depth_ok; cbn; lia|]. split; [discriminate|].
  split; [split; [repeat constructor|split; [repeat constructor|split; reflexivity]]|].
  split; vm_compute; reflexivity.
Qed.

(* ---------------------------------------------------------------- several saves of the same object *)
(* 6. The dirty flag is sticky: whatever history of structural edits, attribute edits and saves
   precedes it, a save() is the save of a dirty document as soon as that history contains ONE
   structural edit - so an attribute edit (visible, opacity, offset) made after an earlier save is
   rendered into the merged image of the next file as well. *)
Theorem save_after_any_history : forall c hd s pre rd tr ti,
  session c hd s (pre ++ [SSave rd tr ti]) =
  session c hd s pre ++
  [save c hd (fst s || existsb is_struct pre) (snd (state_after c hd s pre)) rd tr ti].
Proof. exact Proofs.session_save_after. Qed.
Print Assumptions save_after_any_history.

Theorem dirty_flag_sticky : forall c hd s steps,
  fst (state_after c hd s steps) = fst s || existsb is_struct steps.
Proof. exact Proofs.state_after_flag. Qed.
Print Assumptions dirty_flag_sticky.

(* the history [structural edit; save; attribute edit; save]: both files get a freshly rendered image *)
Theorem edit_save_edit_save : forall c hd old rd1 t1 i1 rd2 t2 i2,
  session c hd (false, old) [SStruct; SSave rd1 t1 i1; SAttr; SSave rd2 t2 i2] =
  [ save c hd true old rd1 t1 i1;
    save c hd true (match save c hd true old rd1 t1 i1 with Ok d => d | Err _ => old end) rd2 t2 i2 ].
Proof.
  intros. cbn [session step_state fst snd].
  destruct (save c hd true old rd1 t1 i1); reflexivity.
Qed.
Print Assumptions edit_save_edit_save.

(* with a reset of the flag after regenerating (a tempting optimisation, NOT the code) the second file
   of that history keeps the merged image of the first although its layers changed *)
Theorem reset_variant_stale_refuted : exists hd old rd1 rd2,
  header_ok hd /\ rendered8 hd rd1 /\ rendered8 hd rd2 /\ unfixed_save_class hd /\
  rd_straight rd1 <> rd_straight rd2 /\
  (exists d1, session_reset unfixed hd (false, old) [SStruct; SSave rd1 false 0; SAttr; SSave rd2 false 0]
              = [Ok d1; Ok d1]) /\
  (exists d1 d2, session unfixed hd (false, old) [SStruct; SSave rd1 false 0; SAttr; SSave rd2 false 0]
                 = [Ok d1; Ok d2] /\ get_data d2 hd = Ok (rd_straight rd2 ++ [rd_alpha rd2])).
Proof.
  exists (mkH CGray 2 2 1 8), (mkI RAW [0;0;0;0]), (mkRd [[10;20]] [] [255;255]), (mkRd [[30;40]] [] [255;0]).
  split; [unfold header_ok, depth_ok; cbn; lia|].
  split; [split; [reflexivity|split; [repeat constructor|reflexivity]]|].
  split; [split; [reflexivity|split; [repeat constructor|reflexivity]]|].
  split; [split; [reflexivity|left; split; reflexivity]|].
  split; [discriminate|].
  split; [eexists; vm_compute; reflexivity|].
  eexists; eexists; split; vm_compute; reflexivity.
Qed.
Print Assumptions reset_variant_stale_refuted.

(* ---------------------------------------------------------------- on the bytes of the file *)
(* 7. clean save through the file model (C01): a file that a well-formed document was written to, read
   and written again with no edit in between, gives the very same bytes; the image-data record that is
   read is the stored one and the section write_image_data emits for it is identical *)
Theorem clean_save_preserves_file_bytes : forall enc_s dec_s pad d bs n d',
  0 < pad -> PM.wf_psd enc_s dec_s d = true ->
  PM.write_psd enc_s pad d = Ok (bs, n) ->
  PM.read_psd dec_s bs = Ok d' ->
  PM.write_psd enc_s pad d' = Ok (bs, n) /\
  PM.p_img d' = PM.p_img d /\
  PM.write_image_data (PM.p_img d') = PM.write_image_data (PM.p_img d).
Proof. intros enc_s dec_s. exact (File.clean_save_file_bytes enc_s dec_s). Qed.
Print Assumptions clean_save_preserves_file_bytes.

(* 8. the dirty case tied to the compositor's result type.  [comp x y k] = (colour, shape, alpha) of
   composite(psd, force=True) at pixel (x, y), channel k, about which ONLY the range is assumed
   (each component in [0,1]: Properties/C11.v composite_in_range); composite_pil quantises with
   (255 * x).astype(uint8) = integer part of 255 x.  For the documents of [unfixed_save_class] the
   merged image save() writes reads back as exactly those quantised bands, sample by sample, all bytes.
   Outside (oracle / C11-C13): that the code's compositor IS the modelled function, float32 versus real
   arithmetic (also in 255*x next to an integer), NumPy/PIL moving samples unchanged. *)
Theorem merged_image_is_quantised_composite :
  forall comp : Z -> Z -> nat -> R * R * R,
  (forall x y k, let '(C, f, al) := comp x y k in unitR C /\ unitR f /\ unitR al) ->
  forall c hd old transp ti,
  fx_save c = false -> header_ok hd -> unfixed_save_class hd ->
  let rd := rendered_of comp hd in
  exists st planes,
    save c hd true old rd transp ti = Ok st /\ get_data st hd = Ok planes /\
    planes = rd_straight rd ++ [rd_alpha rd] /\ Forall bytes planes /\
    (forall k x y, (k < Z.to_nat (cm_channels (h_cm hd)))%nat -> 0 <= x < h_w hd -> 0 <= y < h_h hd ->
       nth (Z.to_nat (y * h_w hd + x)) (nth k planes []) 0 = quant8 (comp_color comp x y k)) /\
    (forall x y, 0 <= x < h_w hd -> 0 <= y < h_h hd ->
       nth (Z.to_nat (y * h_w hd + x)) (last planes []) 0 = quant8 (comp_alpha comp x y)).
Proof. exact Merged.merged_image_is_quantised_composite. Qed.
Print Assumptions merged_image_is_quantised_composite.

(* ... instantiated with the document compositor of C11/C13 over the reals *)
Theorem merged_image_is_quantised_document_composite : forall vp cb ab ls c hd old transp ti,
  Forall CPD.layer_ok ls -> CK.unit cb -> CK.unit ab ->
  fx_save c = false -> header_ok hd -> unfixed_save_class hd ->
  let comp := doc_comp vp cb ab ls in
  let rd := rendered_of comp hd in
  exists st planes,
    save c hd true old rd transp ti = Ok st /\ get_data st hd = Ok planes /\
    planes = rd_straight rd ++ [rd_alpha rd] /\ Forall bytes planes /\
    (forall k x y, (k < Z.to_nat (cm_channels (h_cm hd)))%nat -> 0 <= x < h_w hd -> 0 <= y < h_h hd ->
       nth (Z.to_nat (y * h_w hd + x)) (nth k planes []) 0 = quant8 (comp_color comp x y k)) /\
    (forall x y, 0 <= x < h_w hd -> 0 <= y < h_h hd ->
       nth (Z.to_nat (y * h_w hd + x)) (last planes []) 0 = quant8 (comp_alpha comp x y)).
Proof. exact MergedDoc.merged_image_is_quantised_document_composite. Qed.
Print Assumptions merged_image_is_quantised_document_composite.

Theorem quantised_samples_are_bytes : forall x, unitR x -> byte (quant8 x).
Proof. exact Merged.quant8_byte. Qed.
Print Assumptions quantised_samples_are_bytes.
