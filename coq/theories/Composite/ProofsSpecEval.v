(* The kernel (Model.v: straight colour, _divide with 0/0 -> 1, _clip) computes the PDF recurrences of
   SpecEval.v on every well-formed element tree: same shape, same alphas, same premultiplied colours. *)
From Coq Require Import Reals Lra Psatz List Bool.
From PsdV Require Import Composite.Scalar Composite.Model Composite.Spec Composite.SpecEval
  Composite.ProofsKernel Composite.ProofsLaws Composite.ProofsLawsNS Composite.ProofsSim.
Import ListNotations.
Open Scope R_scope.

Record prel (s : stR) (q : pstate) : Prop := {
  pr_a0 : a0 s = q_a0 q;
  pr_p0 : a0 s * c0 s = q_p0 q;
  pr_f : sg s = q_f q;
  pr_ag : ag s = q_ag q;
  pr_a : a s = q_a q;
  pr_p : a s * c s = q_p q
}.

Lemma div_mul_cancel (x y : R) : x <> 0 -> x * y / x = y.
Proof. intros. field. assumption. Qed.

Lemma prel_init iso cb ab Cb : ab * cb = ab * Cb -> prel (@init ROps iso cb ab) (pinit iso Cb ab).
Proof.
  intros H. destruct iso; constructor; cbn; toR; try reflexivity; try ring; assumption.
Qed.

(* one source *)
Lemma source_prel (s : stR) (q : pstate) cs cs' fs als B ko :
  Inv s -> src_ok cs fs als -> blend_ok B -> prel s q -> (als = 0 \/ cs = cs') ->
  prel (@apply_source ROps s cs fs als B ko) (pdf_source q cs' fs als B ko).
Proof.
  intros I S HB [E0 Ep0 Ef Eag Ea Ep] Hsrc.
  pose proof (inv_a _ I) as Ia.
  assert (Hag : ag (@apply_source ROps s cs fs als B ko) = q_ag (pdf_source q cs' fs als B ko)).
  { destruct ko; cbn; toR; unfold Union; rewrite <- ?E0, <- Eag; ring. }
  assert (Ha : a (@apply_source ROps s cs fs als B ko) = q_a (pdf_source q cs' fs als B ko)).
  { destruct ko; cbn; toR; unfold Union; rewrite <- ?E0, <- Eag; ring. }
  constructor.
  - destruct ko; exact E0.
  - destruct ko; exact Ep0.
  - destruct ko; cbn; toR; unfold Union; rewrite <- Ef; ring.
  - exact Hag.
  - exact Ha.
  - (* premultiplied colour *)
    destruct ko.
    + destruct (apply_source_ko_Inv s cs fs als B I S HB) as [I' Hc].
      set (s' := @apply_source ROps s cs fs als B true) in *.
      cbn [pdf_source q_p]. rewrite <- E0, <- Ep0, <- Ep.
      assert (HB' : a0 s * B (c0 s) cs = a0 s * B (a0 s * c0 s / a0 s) cs).
      { destruct (Req_dec (a0 s) 0) as [Z|NZ]; [rewrite Z; ring|]. rewrite div_mul_cancel by assumption. reflexivity. }
      assert (Hnum : num_ko s cs fs als B =
                     (1 - fs) * (a s * c s) + (fs - als) * (a0 s * c0 s)
                     + als * ((1 - a0 s) * cs' + a0 s * B (a0 s * c0 s / a0 s) cs')).
      { unfold num_ko. destruct Hsrc as [Z | <-].
        - rewrite Z. ring.
        - replace (als * ((1 - a0 s) * cs + a0 s * B (c0 s) cs))
            with (als * ((1 - a0 s) * cs) + als * (a0 s * B (c0 s) cs)) by ring.
          rewrite HB'. ring. }
      destruct (Req_dec (a s') 0) as [Z | NZ].
      * rewrite Z, Rmult_0_l.
        (* new alpha 0: a0 = 0 and alphag' = 0, hence a = ..., everything vanishes *)
        destruct (apply_source_ko_fields s cs fs als B) as (_ & _ & _ & F3 & F4 & _). fold s' in F3, F4.
        pose proof (inv_a0 _ I) as U0. pose proof (inv_ag _ I') as Ug. fold s' in Ug. rewrite F3 in Ug.
        destruct S as (Ucs & Hal & Hfs). pose proof (inv_ag _ I) as Uag. pose proof (inv_c _ I) as Uc.
        pose proof (inv_c0 _ I) as Uc0. unfold unit in *.
        rewrite F4 in Z.
        assert (Z0 : a0 s = 0) by nra.
        assert (Zg : ag_ko s fs als = 0) by (rewrite Z0 in Z; lra).
        unfold ag_ko in Zg. rewrite Z0 in Zg.
        assert (Zal : als = 0) by nra.
        assert (Zfa : (1 - fs) * ag s = 0) by (rewrite Zal in Zg; lra).
        rewrite Z0, Zal, Ia, Z0.
        replace ((1 - fs) * ((0 + ag s - 0 * ag s) * c s)) with (((1 - fs) * ag s) * c s) by ring.
        rewrite Zfa. ring.
      * rewrite Rmult_comm, (Hc NZ). exact Hnum.
    + destruct (apply_source_normal_Inv s cs fs als B I S HB) as [I' Hc].
      set (s' := @apply_source ROps s cs fs als B false) in *.
      cbn [pdf_source q_p]. rewrite <- Ea, <- Ep.
      assert (HB' : a s * B (c s) cs = a s * B (a s * c s / a s) cs).
      { destruct (Req_dec (a s) 0) as [Z|NZ]; [rewrite Z; ring|]. rewrite div_mul_cancel by assumption. reflexivity. }
      assert (Hnum : num_normal s cs als B =
                     (1 - fs) * (a s * c s) + (fs - als) * (a s * c s)
                     + als * ((1 - a s) * cs' + a s * B (a s * c s / a s) cs')).
      { unfold num_normal. destruct Hsrc as [Z | <-].
        - rewrite Z. ring.
        - replace (als * ((1 - a s) * cs + a s * B (c s) cs))
            with (als * ((1 - a s) * cs) + als * (a s * B (c s) cs)) by ring.
          rewrite HB'. ring. }
      destruct (Req_dec (a s') 0) as [Z | NZ].
      * rewrite Z, Rmult_0_l.
        destruct (apply_source_normal_fields s cs fs als B) as (_ & _ & _ & _ & F4). fold s' in F4.
        rewrite (alpha_step s als Ia) in F4. rewrite F4 in Z.
        pose proof (Inv_a_unit _ I) as Ua. destruct S as (Ucs & Hal & Hfs). unfold unit in *.
        assert (Za : a s = 0) by nra. assert (Zal : als = 0) by (rewrite Za in Z; lra).
        rewrite Za, Zal. ring.
      * rewrite Rmult_comm, (Hc NZ). exact Hnum.
Qed.

(* straight colour of a compositor with alpha, from the related premultiplied state *)
Lemma colour_of_prel (s : stR) (q : pstate) : prel s q -> a s <> 0 -> c s = q_p q / q_a q.
Proof.
  intros [_ _ _ _ Ea Ep] NZ. rewrite <- Ea, <- Ep. rewrite div_mul_cancel by assumption. reflexivity.
Qed.

Definition tracks (e : elR) : Prop :=
  forall s q, Inv s -> prel s q -> prel (apply_elem e s) (pdf_elem e q).

Lemma fold_tracks (l : list elR) : Forall wf l -> Forall tracks l ->
  forall s q, Inv s -> prel s q -> prel (apply_list l s) (pdf_list l q).
Proof.
  induction l as [|e l IH]; intros W T s q I E; cbn; [assumption|].
  inversion W; inversion T; subst. apply IH; try assumption.
  - apply apply_elem_Inv; assumption.
  - match goal with H : tracks e |- _ => apply H; assumption end.
Qed.

Theorem apply_elem_tracks (e : elR) : wf e -> tracks e.
Proof.
  induction e as [cs f fa B ko cl IHc | iso ch fa B ko cl IHch IHc] using elem_ind';
    intros W s q I E; inversion W; subst.
  - assert (Tcl : Forall tracks cl) by (rewrite Forall_forall in *; intros x Hx; apply IHc; auto).
    pose proof (init_Inv false cs f ltac:(assumption) ltac:(assumption)) as I0.
    pose proof (fold_tracks cl ltac:(assumption) Tcl _ _ I0 (prel_init false cs f cs eq_refl)) as Ecl.
    pose proof (apply_list_Inv cl ltac:(assumption) _ I0) as Icl.
    cbn [apply_elem pdf_elem]. unfold apply_factors. change (fmul ROps) with Rmult. toR.
    fold (apply_list cl (@init ROps false cs f)) in *. fold (pdf_list cl (pinit false cs f)) in *.
    apply source_prel; try assumption.
    + apply (factors_src_ok _ f f fa); try assumption; [apply (inv_c _ Icl) | unfold unit in *; lra].
    + destruct (Req_dec f 0) as [Z | NZ].
      * left. rewrite Z. ring.
      * right. apply colour_of_prel; [exact Ecl|].
        pose proof (Inv_a_ge_a0 _ Icl) as G. destruct (apply_list_backdrop_fields cl (@init ROps false cs f)) as [E1 _].
        rewrite E1 in G. cbn in G. toR. match goal with H : unit f |- _ => unfold unit in H end. lra.
  - assert (Tch : Forall tracks ch) by (rewrite Forall_forall in *; intros x Hx; apply IHch; auto).
    assert (Tcl : Forall tracks cl) by (rewrite Forall_forall in *; intros x Hx; apply IHc; auto).
    set (cb := if ko then c0 s else c s). set (ab := if ko then a0 s else a s).
    assert (Ub : unit cb /\ unit ab).
    { unfold cb, ab. destruct ko; split;
        [apply (inv_c0 _ I) | apply (inv_a0 _ I) | apply (inv_c _ I) | apply (Inv_a_unit _ I)]. }
    destruct Ub as [Ucb Uab].
    set (qab := if ko then q_a0 q else q_a q). set (qPb := if ko then q_p0 q else q_p q).
    assert (Eab : ab = qab /\ ab * cb = qPb).
    { destruct E. unfold ab, cb, qab, qPb. destruct ko; split; assumption. }
    destruct Eab as [Eab EPb].
    pose proof (init_Inv iso cb ab Ucb Uab) as I0.
    assert (E0 : prel (@init ROps iso cb ab) (pinit iso (qPb / qab) qab)).
    { rewrite <- Eab, <- EPb. apply prel_init.
      destruct (Req_dec ab 0) as [Z|NZ]; [rewrite Z; ring|]. rewrite div_mul_cancel by assumption. reflexivity. }
    pose proof (fold_tracks ch ltac:(assumption) Tch _ _ I0 E0) as Eg.
    pose proof (apply_list_Inv ch ltac:(assumption) _ I0) as Ig.
    cbn [apply_elem pdf_elem]. fold cb ab qab qPb.
    fold (apply_list ch (@init ROps iso cb ab)) in *. fold (pdf_list ch (pinit iso (qPb / qab) qab)) in *.
    set (g := apply_list ch (@init ROps iso cb ab)) in *.
    set (qg := pdf_list ch (pinit iso (qPb / qab) qab)) in *.
    unfold finish, apply_factors. change (fmul ROps) with Rmult. toR.
    destruct Eg as [G0 Gp0 Gf Gag Ga Gp].
    rewrite <- Gf, <- Gag.
    pose proof (init_Inv false _ _ (finish_color_unit g) (inv_ag _ Ig)) as Ic0.
    pose proof (apply_list_Inv cl ltac:(assumption) _ Ic0) as Icl.
    apply source_prel; try assumption.
    + apply (factors_src_ok _ (sg g) (ag g) fa); try assumption.
      * apply (inv_c _ Icl).
      * apply (inv_sg _ Ig).
      * split; [apply (inv_ag _ Ig) | apply (inv_as _ Ig)].
    + destruct (Req_dec (ag g) 0) as [Z | NZ].
      * left. rewrite Z. ring.
      * right.
        assert (Hfc : @finish_color ROps g = pdf_result_color qg).
        { destruct (finish_unclipped g Ig NZ) as (_ & F1 & F2). rewrite F1. unfold pdf_result_color.
          rewrite <- Gp, <- Gp0, <- Gag, <- F2. rewrite div_mul_cancel by assumption. reflexivity. }
        assert (Ecl : prel (apply_list cl (@init ROps false (@finish_color ROps g) (ag g)))
                           (pdf_list cl (pinit false (pdf_result_color qg) (ag g)))).
        { apply fold_tracks; try assumption. apply prel_init. rewrite Hfc. reflexivity. }
        fold (apply_list cl (@init ROps false (@finish_color ROps g) (ag g))).
        fold (pdf_list cl (pinit false (pdf_result_color qg) (ag g))).
        apply colour_of_prel; [exact Ecl|].
        pose proof (Inv_a_ge_a0 _ Icl) as G.
        destruct (apply_list_backdrop_fields cl (@init ROps false (@finish_color ROps g) (ag g))) as [E1 _].
        fold (apply_list cl (@init ROps false (@finish_color ROps g) (ag g))) in G.
        rewrite E1 in G. cbn in G. toR. pose proof (inv_ag _ Ig) as U. unfold unit in U. lra.
Qed.

(* Theorem: on every well-formed element list and backdrop the kernel's result is the PDF result *)
Theorem kernel_is_pdf (iso : bool) (cb ab : R) (l : list elR) :
  Forall wf l -> unit cb -> unit ab ->
  let '(C, f, al) := @composite_px ROps iso cb ab l in
  let '(P, f', al') := pdf_composite iso cb ab l in
  f = f' /\ al = al' /\ al * C = P.
Proof.
  intros W Hcb Hab. unfold composite_px, pdf_composite, finish.
  pose proof (init_Inv iso cb ab Hcb Hab) as I0.
  assert (T : Forall tracks l) by (rewrite Forall_forall in *; intros x Hx; apply apply_elem_tracks; auto).
  pose proof (fold_tracks l W T _ _ I0 (prel_init iso cb ab cb eq_refl)) as [E0 Ep0 Ef Eag Ea Ep].
  pose proof (apply_list_Inv l W _ I0) as I.
  set (s := apply_list l (@init ROps iso cb ab)) in *.
  repeat split; try assumption.
  rewrite <- Ep, <- Ep0, <- Eag.
  destruct (Req_dec (ag s) 0) as [Z | NZ].
  - rewrite Z. pose proof (inv_rm _ I) as Rm. rewrite Z in Rm. lra.
  - destruct (finish_unclipped s I NZ) as (_ & F1 & F2). rewrite F1. exact F2.
Qed.
