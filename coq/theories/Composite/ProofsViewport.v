(* viewport = crop, for the whole document model (any nesting, masks, clipping runs, groups):
   sampling the same document for two viewports that both contain the pixel gives element lists that differ
   only by (a) elements dropped by the "out of viewport" early exit, which have shape 0 at the pixel, and
   (b) the same difference inside groups and clipping runs.  Such lists evaluate to equivalent states. *)
From Coq Require Import ZArith Reals Lra Psatz List Bool Lia ZifyBool.
From PsdV Require Import Composite.Scalar Composite.Model Composite.Geometry Composite.Doc
  Composite.ProofsKernel Composite.ProofsGeometry Composite.ProofsBlend Composite.ProofsLaws Composite.ProofsLawsNS
  Composite.ProofsSim Composite.ProofsDoc.
Import ListNotations.
Open Scope R_scope.

(* the simulation relation and its soundness live in ProofsSim.v; here b = true (shape-0 elements) *)
Notation sim := (ProofsSim.sim true).
Notation esim := (ProofsSim.esim true).

(* ------------------------------------------------------------------ sampling for two nested viewports *)
Section Crop.
Variables (x y : Z) (k : nat).

Lemma factors_at_crop vp' vp at_ :
  inside vp' x y = true -> inside vp x y = true ->
  @factors_at ROps vp' x y at_ = @factors_at ROps vp x y at_.
Proof.
  intros H' H. unfold factors_at.
  destruct (at_mask at_) as [mk|]; [|destruct vp' as [[[? ?] ?] ?], vp as [[[? ?] ?] ?]; reflexivity].
  pose proof (paste_crop vp vp' (mk_rect mk) (@plane_at ROps (at_den at_) (mk_data mk) (rwidth (mk_rect mk)))
                (@byte ROps (mk_bg mk)) x y H H') as P.
  destruct vp' as [[[vl' vt'] vr'] vb'], vp as [[[vl vt] vr] vb].
  destruct (mk_disabled mk); [reflexivity|].
  destruct (mk_data mk) eqn:Ed; [reflexivity|]. rewrite <- Ed in *. rewrite P. reflexivity.
Qed.

Definition crop_ok (L : layer) : Prop :=
  forall vp' vp clips' clips, subrect vp' vp -> inside vp' x y = true -> sim clips' clips ->
  sim (@sample_layer ROps vp' x y k L clips') (@sample_layer ROps vp x y k L clips).

Lemma runs_sim (ls : list layer) vp' vp :
  Forall crop_ok ls -> subrect vp' vp -> inside vp' x y = true ->
  sim (fst (@sample_runs ROps vp' x y k ls)) (fst (@sample_runs ROps vp x y k ls)) /\
  sim (snd (@sample_runs ROps vp' x y k ls)) (snd (@sample_runs ROps vp x y k ls)).
Proof.
  intros H S Hin. induction H as [|L ls HL Hls IH]; cbn [sample_runs]; [split; constructor|].
  destruct (sample_runs vp' x y k ls) as [pend' res'], (sample_runs vp x y k ls) as [pend res].
  cbn [fst snd] in IH. destruct IH as [IH1 IH2].
  destruct (at_clip (attrs_of L)); cbn [fst snd].
  - split; [|assumption]. apply sim_app; [apply HL; try assumption; apply sim_nil | assumption].
  - split; [apply sim_nil|]. apply sim_app; [apply HL; assumption | assumption].
Qed.

Lemma list_sim (ls : list layer) vp' vp :
  Forall crop_ok ls -> subrect vp' vp -> inside vp' x y = true ->
  sim (@sample_list ROps vp' x y k ls) (@sample_list ROps vp x y k ls).
Proof.
  intros H S Hin. unfold sample_list. destruct (runs_sim ls vp' vp H S Hin) as [H1 H2].
  destruct (sample_runs vp' x y k ls), (sample_runs vp x y k ls). apply sim_app; assumption.
Qed.

Lemma sim_refl_leaf cs f fa B ko cl' cl l' l : sim cl' cl -> sim l' l ->
  sim (LeafR cs f fa B ko cl' :: l') (LeafR cs f fa B ko cl :: l).
Proof. intros. apply sim_cons; [apply esim_leaf; assumption | assumption]. Qed.

Theorem sample_layer_crop (L : layer) : crop_ok L.
Proof.
  induction L as [rc chans alpha at_ | pass ch at_ IH] using layer_ind';
    intros vp' vp clips' clips S Hin' Hcl.
  - pose proof (subrect_inside vp' vp x y S Hin') as Hin.
    cbn [sample_layer attrs_of bbox_of].
    destruct (negb (at_vis at_)); [apply sim_nil|].
    destruct (is_zero_rect (intersect vp rc)) eqn:Z.
    + rewrite (intersect_sub_zero vp' vp rc S Z). apply sim_nil.
    + pose proof (paste_abs vp rc (@plane_at ROps (at_den at_) alpha (rwidth rc)) (@f0 ROps) x y Hin) as Pa.
      pose proof (paste_crop vp vp' rc (@plane_at ROps (at_den at_) alpha (rwidth rc)) (@f0 ROps) x y Hin Hin') as Pc1.
      pose proof (paste_crop vp vp' rc (@plane_at ROps (at_den at_) (nth k chans []) (rwidth rc)) (@f1 ROps) x y Hin Hin') as Pc2.
      pose proof (factors_at_crop vp' vp at_ Hin' Hin) as Fc.
      destruct (is_zero_rect (intersect vp' rc)) eqn:Z'.
      * pose proof (zero_intersect_not_inside vp' rc x y Z' Hin') as Hout.
        destruct vp as [[[vl vt] vr] vb], rc as [[[bl bt] br] bb_]. rewrite Pa, Hout.
        apply sim_dropR; [apply nb_shape | apply sim_nil].
      * destruct vp' as [[[vl' vt'] vr'] vb'], vp as [[[vl vt] vr] vb].
        rewrite Pc1, Pc2, Fc. apply sim_refl_leaf; [assumption | apply sim_nil].
  - pose proof (subrect_inside vp' vp x y S Hin') as Hin.
    rewrite !sample_group_unfold.
    destruct (negb (at_vis at_)); [apply sim_nil|].
    set (bb := bbox_of (Gr pass ch at_)).
    pose proof (factors_at_crop vp' vp at_ Hin' Hin) as Fc.
    destruct (is_zero_rect (intersect vp bb)) eqn:Z.
    + rewrite (intersect_sub_zero vp' vp bb S Z). apply sim_nil.
    + cbn zeta. rewrite (inside_intersect_l vp bb x y Hin).
      destruct (is_zero_rect (intersect vp' bb)) eqn:Z'.
      * rewrite (zero_intersect_not_inside vp' bb x y Z' Hin'). apply sim_dropR; [apply nb_shape | apply sim_nil].
      * rewrite (inside_intersect_l vp' bb x y Hin'). rewrite Fc.
        destruct (inside bb x y) eqn:Hb.
        -- destruct (intersect_subrect vp' vp bb S Z') as [S' _].
           apply sim_cons; [|apply sim_nil]. apply esim_group; [|assumption].
           apply list_sim; try assumption.
           rewrite inside_intersect_l; assumption.
        -- apply sim_refl_leaf; [assumption | apply sim_nil].
Qed.

Theorem sample_list_crop (ls : list layer) vp' vp :
  subrect vp' vp -> inside vp' x y = true ->
  sim (@sample_list ROps vp' x y k ls) (@sample_list ROps vp x y k ls).
Proof.
  intros. apply list_sim; try assumption. rewrite Forall_forall. intros L _. apply sample_layer_crop.
Qed.

End Crop.

(* ------------------------------------------------------------------ the law *)
(* equality of two results modulo colour where alpha is 0 *)
Definition result_eq (r r' : R * R * R) : Prop :=
  let '(C, f, al) := r in let '(C', f', al') := r' in f = f' /\ al = al' /\ al * C = al' * C'.

Theorem viewport_crop (ls : list layer) (vp' vp : rect) (cb ab : R) (x y : Z) (k : nat) :
  Forall layer_ok ls -> unit cb -> unit ab ->
  subrect vp' vp -> inside vp' x y = true ->
  result_eq (@composite_doc ROps vp' cb ab ls x y k) (@composite_doc ROps vp cb ab ls x y k).
Proof.
  intros OK Hcb Hab S Hin. unfold composite_doc, composite_px, result_eq.
  pose proof (init_Inv false cb ab Hcb Hab) as I0.
  pose proof (sample_list_wf ls vp' x y k OK) as W'.
  pose proof (sample_list_wf ls vp x y k OK) as W.
  pose proof (sim_sound_peq _ _ (sample_list_crop x y k ls vp' vp S Hin) W' W _ _ I0 I0 (peq_refl _)) as E.
  apply (finish_peq _ _ (apply_list_Inv _ W' _ I0) (apply_list_Inv _ W _ I0) E).
Qed.

(* any two viewports containing the pixel give the same result there: the viewport machinery computes a
   viewport-free (whole-plane) function of the document *)
Lemma subrect_intersect_l a b : is_zero_rect (intersect a b) = false -> subrect (intersect a b) a.
Proof.
  destruct a as [[[a0 a1] a2] a3], b as [[[b0 b1] b2] b3]. unfold intersect, subrect.
  destruct ((Z.min a2 b2 <=? Z.max a0 b0) || (Z.min a3 b3 <=? Z.max a1 b1)); [intros H; discriminate H|].
  intros _. lia.
Qed.

Lemma subrect_intersect_r a b : is_zero_rect (intersect a b) = false -> subrect (intersect a b) b.
Proof.
  destruct a as [[[a0 a1] a2] a3], b as [[[b0 b1] b2] b3]. unfold intersect, subrect.
  destruct ((Z.min a2 b2 <=? Z.max a0 b0) || (Z.min a3 b3 <=? Z.max a1 b1)); [intros H; discriminate H|].
  intros _. lia.
Qed.

Theorem viewport_independent (ls : list layer) (vp1 vp2 : rect) (cb ab : R) (x y : Z) (k : nat) :
  Forall layer_ok ls -> unit cb -> unit ab ->
  inside vp1 x y = true -> inside vp2 x y = true ->
  result_eq (@composite_doc ROps vp1 cb ab ls x y k) (@composite_doc ROps vp2 cb ab ls x y k).
Proof.
  intros OK Hcb Hab H1 H2.
  assert (Hi : inside (intersect vp1 vp2) x y = true) by (rewrite inside_intersect, H1, H2; reflexivity).
  assert (NZ : is_zero_rect (intersect vp1 vp2) = false).
  { destruct (is_zero_rect (intersect vp1 vp2)) eqn:E; [|reflexivity].
    apply rect_eqb_eq in E. rewrite E, inside_zero_rect in Hi. discriminate Hi. }
  pose proof (viewport_crop ls _ vp1 cb ab x y k OK Hcb Hab (subrect_intersect_l _ _ NZ) Hi) as E1.
  pose proof (viewport_crop ls _ vp2 cb ab x y k OK Hcb Hab (subrect_intersect_r _ _ NZ) Hi) as E2.
  unfold result_eq in *.
  destruct (@composite_doc ROps (intersect vp1 vp2) cb ab ls x y k) as [[C0 f0'] al0].
  destruct (@composite_doc ROps vp1 cb ab ls x y k) as [[C1 f1'] al1].
  destruct (@composite_doc ROps vp2 cb ab ls x y k) as [[C2 f2'] al2].
  destruct E1 as (A1 & A2 & A3), E2 as (B1 & B2 & B3).
  repeat split; congruence.
Qed.
