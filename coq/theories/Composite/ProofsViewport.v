(* viewport = crop, for the whole document model (any nesting, masks, clipping runs, groups):
   sampling the same document for two viewports that both contain the pixel gives element lists that differ
   only by (a) elements dropped by the "out of viewport" early exit, which have shape 0 at the pixel, and
   (b) the same difference inside groups and clipping runs.  Such lists evaluate to equivalent states. *)
From Coq Require Import ZArith Reals Lra Psatz List Bool Lia ZifyBool.
From PsdV Require Import Composite.Scalar Composite.Model Composite.Geometry Composite.Doc
  Composite.ProofsKernel Composite.ProofsGeometry Composite.ProofsBlend Composite.ProofsLaws Composite.ProofsDoc.
Import ListNotations.
Open Scope R_scope.

(* l' is l with some shape-0 leaves removed, recursively inside groups and clip lists *)
Inductive sim : list elR -> list elR -> Prop :=
| sim_nil : sim [] []
| sim_drop cs fa B ko cl l' l : sim l' l -> sim l' (LeafR cs 0 fa B ko cl :: l)
| sim_cons e' e l' l : esim e' e -> sim l' l -> sim (e' :: l') (e :: l)
with esim : elR -> elR -> Prop :=
| esim_leaf cs f fa B ko cl' cl : sim cl' cl -> esim (LeafR cs f fa B ko cl') (LeafR cs f fa B ko cl)
| esim_group iso ch' ch fa B ko cl' cl :
    sim ch' ch -> sim cl' cl -> esim (GroupR iso ch' fa B ko cl') (GroupR iso ch fa B ko cl).

Scheme sim_ind2 := Induction for sim Sort Prop
  with esim_ind2 := Induction for esim Sort Prop.
Combined Scheme sim_esim_ind from sim_ind2, esim_ind2.

Lemma sim_app a' a b' b : sim a' a -> sim b' b -> sim (a' ++ b') (a ++ b).
Proof. induction 1; intros Hb; cbn; [assumption | constructor; auto | constructor; auto]. Qed.

Lemma Inv_a_ge_a0 (s : stR) : Inv s -> a0 s <= a s.
Proof.
  intros I. rewrite (inv_a _ I). pose proof (inv_a0 _ I). pose proof (inv_ag _ I). unfold unit in *. nra.
Qed.

(* colours of two equivalent clip-compositors agree as soon as the base has alpha *)
Lemma clip_color_rel (u v : stR) (al : R) :
  Inv u -> Inv v -> peq u v -> a0 u = al -> al <> 0 -> c u = c v.
Proof.
  intros Iu Iv E Ha NZ. destruct E as [_ _ _ _ Ea Ec].
  pose proof (Inv_a_ge_a0 _ Iu) as G. pose proof (inv_a0 _ Iu) as U. unfold unit in U.
  assert (a u <> 0) by (rewrite Ha in *; lra).
  apply mul_cancel_l with (a u); [assumption|]. rewrite Ec, Ea. reflexivity.
Qed.

Lemma wf_clips_of e : wf e -> Forall wf (match e with Leaf _ _ _ _ _ cl => cl | Group _ _ _ _ _ cl => cl end).
Proof. intros W; inversion W; assumption. Qed.

Theorem sim_sound :
  (forall l' l, sim l' l -> Forall wf l' -> Forall wf l ->
     forall s t, Inv s -> Inv t -> peq s t -> peq (apply_list l' s) (apply_list l t)) /\
  (forall e' e, esim e' e -> wf e' -> wf e ->
     forall s t, Inv s -> Inv t -> peq s t -> peq (apply_elem e' s) (apply_elem e t)).
Proof.
  apply sim_esim_ind.
  - (* nil *) intros _ _ s t _ _ E. exact E.
  - (* drop *) intros cs fa B ko cl l' l Hs IH W' W s t Is It E.
    inversion W as [|? ? We Wl]; subst. cbn [apply_list fold_left].
    pose proof (leaf_null_noop cs fa B ko cl t It) as N.
    apply (IH W' Wl s _ Is (apply_elem_Inv _ We t It)).
    eapply peq_trans; [exact E | apply peq_sym; exact N].
  - (* cons *) intros e' e l' l He IHe Hs IH W' W s t Is It E.
    inversion W' as [|? ? We' Wl']; inversion W as [|? ? We Wl]; subst. cbn [apply_list fold_left].
    apply (IH Wl' Wl); [apply apply_elem_Inv; assumption | apply apply_elem_Inv; assumption |].
    apply IHe; assumption.
  - (* leaf *) intros cs f fa B ko cl' cl Hs IH W' W s t Is It E.
    inversion W'; inversion W; subst. cbn [apply_elem]. unfold apply_factors.
    pose proof (init_Inv false cs f ltac:(assumption) ltac:(assumption)) as I0.
    pose proof (IH ltac:(assumption) ltac:(assumption) _ _ I0 I0 (peq_refl _)) as Ecl.
    fold (apply_list cl' (@init ROps false cs f)) in *. fold (apply_list cl (@init ROps false cs f)) in *.
    apply apply_source_peq; [exact E|].
    destruct (Req_dec f 0) as [Z | NZ].
    + left. rewrite Z. change (fmul ROps) with Rmult. rring.
    + right. apply (clip_color_rel _ _ f); try assumption.
      * apply apply_list_Inv; assumption.
      * apply apply_list_Inv; assumption.
      * destruct (apply_list_backdrop_fields cl' (@init ROps false cs f)) as [E1 _]. exact E1.
  - (* group *) intros iso ch' ch fa B ko cl' cl Hch IHch Hcl IHcl W' W s t Is It E.
    inversion W'; inversion W; subst. cbn [apply_elem].
    set (bs := if ko then c0 s else c s). set (as_ := if ko then a0 s else a s).
    set (bt := if ko then c0 t else c t). set (at_ := if ko then a0 t else a t).
    assert (Hab : as_ = at_ /\ as_ * bs = at_ * bt).
    { destruct E. unfold as_, at_, bs, bt. destruct ko; split; assumption. }
    destruct Hab as [Hab Hp]. 
    assert (Ubs : unit bs /\ unit as_) by (unfold bs, as_; destruct ko; split;
      [apply (inv_c0 _ Is) | apply (inv_a0 _ Is) | apply (inv_c _ Is) | apply (Inv_a_unit _ Is)]).
    assert (Ubt : unit bt /\ unit at_) by (unfold bt, at_; destruct ko; split;
      [apply (inv_c0 _ It) | apply (inv_a0 _ It) | apply (inv_c _ It) | apply (Inv_a_unit _ It)]).
    destruct Ubs as [Ubs Uas], Ubt as [Ubt Uat].
    pose proof (init_Inv iso bs as_ Ubs Uas) as I1.
    pose proof (init_Inv iso bt at_ Ubt Uat) as I2.
    assert (E12 : peq (@init ROps iso bs as_) (@init ROps iso bt at_)).
    { rewrite <- Hab in *. apply init_peq. rewrite Hp. reflexivity. }
    pose proof (IHch ltac:(assumption) ltac:(assumption) _ _ I1 I2 E12) as Eg.
    fold (apply_list ch' (@init ROps iso bs as_)) in *. fold (apply_list ch (@init ROps iso bt at_)) in *.
    pose proof (apply_list_Inv ch' ltac:(assumption) _ I1) as Ig'.
    pose proof (apply_list_Inv ch ltac:(assumption) _ I2) as Ig.
    set (g' := apply_list ch' (@init ROps iso bs as_)) in *.
    set (g := apply_list ch (@init ROps iso bt at_)) in *.
    unfold finish. unfold apply_factors.
    destruct Eg as [G0 Gc0 Gsg Gag Ga Gc].
    rewrite Gsg, Gag.
    fold (apply_list cl' (@init ROps false (@finish_color ROps g') (ag g))).
    fold (apply_list cl (@init ROps false (@finish_color ROps g) (ag g))).
    apply apply_source_peq; [exact E|].
    destruct (Req_dec (ag g) 0) as [Z | NZ].
    + left. rewrite Z. change (fmul ROps) with Rmult. rring.
    + right.
      assert (Hfc : @finish_color ROps g' = @finish_color ROps g).
      { assert (NZ' : ag g' <> 0) by (rewrite Gag; exact NZ).
        destruct (finish_unclipped g' Ig' NZ') as (_ & F1' & F2').
        destruct (finish_unclipped g Ig NZ) as (_ & F1 & F2).
        rewrite F1, F1'. apply mul_cancel_l with (ag g); [exact NZ|].
        transitivity (a g' * c g' - a0 g' * c0 g' * (1 - ag g')); [rewrite <- Gag; exact F2'|].
        rewrite Gc, Gc0, Gag. symmetry. exact F2. }
      rewrite Hfc.
      pose proof (init_Inv false _ _ (finish_color_unit g) (inv_ag _ Ig)) as I0.
      pose proof (IHcl ltac:(assumption) ltac:(assumption) _ _ I0 I0 (peq_refl _)) as Ecl.
      apply (clip_color_rel _ _ (ag g)); try assumption.
      * apply apply_list_Inv; assumption.
      * apply apply_list_Inv; assumption.
      * destruct (apply_list_backdrop_fields cl' (@init ROps false (@finish_color ROps g) (ag g))) as [E1 _]. exact E1.
Qed.

(* ------------------------------------------------------------------ sampling for two nested viewports *)
Section Crop.
Variables (x y : Z) (k : nat).

Lemma factors_at_crop vp' vp at_ :
  inside vp' x y = true -> inside vp x y = true ->
  @factors_at ROps vp' x y at_ = @factors_at ROps vp x y at_.
Proof.
  intros H' H. unfold factors_at.
  destruct (at_mask at_) as [mk|]; [|destruct vp' as [[[? ?] ?] ?], vp as [[[? ?] ?] ?]; reflexivity].
  pose proof (paste_crop vp vp' (mk_rect mk) (@plane_at ROps (mk_data mk) (rwidth (mk_rect mk)))
                (@byte ROps (mk_bg mk)) x y H H') as P.
  destruct vp' as [[[vl' vt'] vr'] vb'], vp as [[[vl vt] vr] vb].
  destruct (mk_disabled mk); [reflexivity|].
  destruct (mk_data mk) eqn:Ed; [reflexivity|]. rewrite <- Ed in *. rewrite P. reflexivity.
Qed.

Definition crop_ok (L : layer) : Prop :=
  forall vp' vp clips' clips, subrect vp' vp -> inside vp' x y = true -> sim clips' clips ->
  sim (@sample_layer ROps vp' x y k L clips') (@sample_layer ROps vp x y k L clips).

Lemma runs_sim (ls : list layer) vp' vp :
  Forall crop_ok ls -> subrect vp' vp -> inside vp' x y = true ->
  sim (fst (@sample_runs ROps vp' x y k ls)) (fst (@sample_runs ROps vp x y k ls)) /\
  sim (snd (@sample_runs ROps vp' x y k ls)) (snd (@sample_runs ROps vp x y k ls)).
Proof.
  intros H S Hin. induction H as [|L ls HL Hls IH]; cbn [sample_runs]; [split; constructor|].
  destruct (sample_runs vp' x y k ls) as [pend' res'], (sample_runs vp x y k ls) as [pend res].
  cbn [fst snd] in IH. destruct IH as [IH1 IH2].
  destruct (at_clip (attrs_of L)); cbn [fst snd].
  - split; [|assumption]. apply sim_app; [apply HL; try assumption; constructor | assumption].
  - split; [constructor|]. apply sim_app; [apply HL; assumption | assumption].
Qed.

Lemma list_sim (ls : list layer) vp' vp :
  Forall crop_ok ls -> subrect vp' vp -> inside vp' x y = true ->
  sim (@sample_list ROps vp' x y k ls) (@sample_list ROps vp x y k ls).
Proof.
  intros H S Hin. unfold sample_list. destruct (runs_sim ls vp' vp H S Hin) as [H1 H2].
  destruct (sample_runs vp' x y k ls), (sample_runs vp x y k ls). apply sim_app; assumption.
Qed.

Lemma sim_refl_leaf cs f fa B ko cl' cl l' l : sim cl' cl -> sim l' l ->
  sim (LeafR cs f fa B ko cl' :: l') (LeafR cs f fa B ko cl :: l).
Proof. intros. apply sim_cons; [constructor; assumption | assumption]. Qed.

Theorem sample_layer_crop (L : layer) : crop_ok L.
Proof.
  induction L as [rc chans alpha at_ | pass ch at_ IH] using layer_ind';
    intros vp' vp clips' clips S Hin' Hcl.
  - pose proof (subrect_inside vp' vp x y S Hin') as Hin.
    cbn [sample_layer attrs_of bbox_of].
    destruct (negb (at_vis at_)); [constructor|].
    destruct (is_zero_rect (intersect vp rc)) eqn:Z.
    + rewrite (intersect_sub_zero vp' vp rc S Z). constructor.
    + pose proof (paste_abs vp rc (@plane_at ROps alpha (rwidth rc)) (@f0 ROps) x y Hin) as Pa.
      pose proof (paste_crop vp vp' rc (@plane_at ROps alpha (rwidth rc)) (@f0 ROps) x y Hin Hin') as Pc1.
      pose proof (paste_crop vp vp' rc (@plane_at ROps (nth k chans []) (rwidth rc)) (@f1 ROps) x y Hin Hin') as Pc2.
      pose proof (factors_at_crop vp' vp at_ Hin' Hin) as Fc.
      destruct (is_zero_rect (intersect vp' rc)) eqn:Z'.
      * pose proof (zero_intersect_not_inside vp' rc x y Z' Hin') as Hout.
        destruct vp as [[[vl vt] vr] vb], rc as [[[bl bt] br] bb_]. rewrite Pa, Hout.
        apply sim_drop. constructor.
      * destruct vp' as [[[vl' vt'] vr'] vb'], vp as [[[vl vt] vr] vb].
        rewrite Pc1, Pc2, Fc. apply sim_refl_leaf; [assumption | constructor].
  - pose proof (subrect_inside vp' vp x y S Hin') as Hin.
    rewrite !sample_group_unfold.
    destruct (negb (at_vis at_)); [constructor|].
    set (bb := bbox_of (Gr pass ch at_)).
    pose proof (factors_at_crop vp' vp at_ Hin' Hin) as Fc.
    destruct (is_zero_rect (intersect vp bb)) eqn:Z.
    + rewrite (intersect_sub_zero vp' vp bb S Z). constructor.
    + cbn zeta. rewrite (inside_intersect_l vp bb x y Hin).
      destruct (is_zero_rect (intersect vp' bb)) eqn:Z'.
      * rewrite (zero_intersect_not_inside vp' bb x y Z' Hin'). apply sim_drop. constructor.
      * rewrite (inside_intersect_l vp' bb x y Hin'). rewrite Fc.
        destruct (inside bb x y) eqn:Hb.
        -- destruct (intersect_subrect vp' vp bb S Z') as [S' _].
           apply sim_cons; [|constructor]. constructor; [|assumption].
           apply list_sim; try assumption.
           rewrite inside_intersect_l; assumption.
        -- apply sim_refl_leaf; [assumption | constructor].
Qed.

Theorem sample_list_crop (ls : list layer) vp' vp :
  subrect vp' vp -> inside vp' x y = true ->
  sim (@sample_list ROps vp' x y k ls) (@sample_list ROps vp x y k ls).
Proof.
  intros. apply list_sim; try assumption. rewrite Forall_forall. intros L _. apply sample_layer_crop.
Qed.

End Crop.

(* ------------------------------------------------------------------ the law *)
(* equality of two results modulo colour where alpha is 0 *)
Definition result_eq (r r' : R * R * R) : Prop :=
  let '(C, f, al) := r in let '(C', f', al') := r' in f = f' /\ al = al' /\ al * C = al' * C'.

Theorem viewport_crop (ls : list layer) (vp' vp : rect) (cb ab : R) (x y : Z) (k : nat) :
  Forall layer_ok ls -> unit cb -> unit ab ->
  subrect vp' vp -> inside vp' x y = true ->
  result_eq (@composite_doc ROps vp' cb ab ls x y k) (@composite_doc ROps vp cb ab ls x y k).
Proof.
  intros OK Hcb Hab S Hin. unfold composite_doc, composite_px, result_eq.
  pose proof (init_Inv false cb ab Hcb Hab) as I0.
  pose proof (sample_list_wf ls vp' x y k OK) as W'.
  pose proof (sample_list_wf ls vp x y k OK) as W.
  pose proof (proj1 sim_sound _ _ (sample_list_crop x y k ls vp' vp S Hin) W' W _ _ I0 I0 (peq_refl _)) as E.
  apply (finish_peq _ _ (apply_list_Inv _ W' _ I0) (apply_list_Inv _ W _ I0) E).
Qed.

(* any two viewports containing the pixel give the same result there: the viewport machinery computes a
   viewport-free (whole-plane) function of the document *)
Lemma subrect_intersect_l a b : is_zero_rect (intersect a b) = false -> subrect (intersect a b) a.
Proof.
  destruct a as [[[a0 a1] a2] a3], b as [[[b0 b1] b2] b3]. unfold intersect, subrect.
  destruct ((Z.min a2 b2 <=? Z.max a0 b0) || (Z.min a3 b3 <=? Z.max a1 b1)); [intros H; discriminate H|].
  intros _. lia.
Qed.

Lemma subrect_intersect_r a b : is_zero_rect (intersect a b) = false -> subrect (intersect a b) b.
Proof.
  destruct a as [[[a0 a1] a2] a3], b as [[[b0 b1] b2] b3]. unfold intersect, subrect.
  destruct ((Z.min a2 b2 <=? Z.max a0 b0) || (Z.min a3 b3 <=? Z.max a1 b1)); [intros H; discriminate H|].
  intros _. lia.
Qed.

Theorem viewport_independent (ls : list layer) (vp1 vp2 : rect) (cb ab : R) (x y : Z) (k : nat) :
  Forall layer_ok ls -> unit cb -> unit ab ->
  inside vp1 x y = true -> inside vp2 x y = true ->
  result_eq (@composite_doc ROps vp1 cb ab ls x y k) (@composite_doc ROps vp2 cb ab ls x y k).
Proof.
  intros OK Hcb Hab H1 H2.
  assert (Hi : inside (intersect vp1 vp2) x y = true) by (rewrite inside_intersect, H1, H2; reflexivity).
  assert (NZ : is_zero_rect (intersect vp1 vp2) = false).
  { destruct (is_zero_rect (intersect vp1 vp2)) eqn:E; [|reflexivity].
    apply rect_eqb_eq in E. rewrite E, inside_zero_rect in Hi. discriminate Hi. }
  pose proof (viewport_crop ls _ vp1 cb ab x y k OK Hcb Hab (subrect_intersect_l _ _ NZ) Hi) as E1.
  pose proof (viewport_crop ls _ vp2 cb ab x y k OK Hcb Hab (subrect_intersect_r _ _ NZ) Hi) as E2.
  unfold result_eq in *.
  destruct (@composite_doc ROps (intersect vp1 vp2) cb ab ls x y k) as [[C0 f0'] al0].
  destruct (@composite_doc ROps vp1 cb ab ls x y k) as [[C1 f1'] al1].
  destruct (@composite_doc ROps vp2 cb ab ls x y k) as [[C2 f2'] al2].
  destruct E1 as (A1 & A2 & A3), E2 as (B1 & B2 & B3).
  repeat split; congruence.
Qed.
