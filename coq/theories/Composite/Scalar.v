(* Scalars of the compositing model.  The model (Model.v, Doc.v) is written ONCE over an abstract
   structure of operations; it is instantiated with exact rationals [QOps] (runs under vm_compute in the
   correspondence check) and with the Coq reals [ROps] (the theorems).  [Transfer.v] proves that
   Q2R carries the Q instance onto the R instance. *)
From Coq Require Import ZArith QArith Qreduction Reals Bool.

Record Ops := {
  F : Type;
  fofZ : Z -> F;
  fadd : F -> F -> F;
  fsub : F -> F -> F;
  fmul : F -> F -> F;
  fdiv : F -> F -> F;          (* raw division; only used with a non-zero divisor *)
  fleb : F -> F -> bool;
}.

Definition QOps : Ops := {|
  F := Q;
  fofZ := inject_Z;
  fadd := fun a b => Qred (Qplus a b);
  fsub := fun a b => Qred (Qminus a b);
  fmul := fun a b => Qred (Qmult a b);
  fdiv := fun a b => Qred (Qdiv a b);
  fleb := Qle_bool;
|}.

Definition Rleb (x y : R) : bool := if Rle_dec x y then true else false.

Definition ROps : Ops := {|
  F := R;
  fofZ := IZR;
  fadd := Rplus;
  fsub := Rminus;
  fmul := Rmult;
  fdiv := Rdiv;
  fleb := Rleb;
|}.

Lemma Rleb_true x y : Rleb x y = true <-> (x <= y)%R.
Proof. unfold Rleb. destruct (Rle_dec x y); split; intros H; auto; try discriminate H; try contradiction. Qed.

Lemma Rleb_false x y : Rleb x y = false <-> (y < x)%R.
Proof.
  unfold Rleb. destruct (Rle_dec x y); split; intros H; auto; try discriminate H.
  - exfalso. apply (Rlt_irrefl x). eapply Rle_lt_trans; eauto.
  - apply Rnot_le_lt; assumption.
Qed.
