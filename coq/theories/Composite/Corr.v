(* Glue for the correspondence checks of C11 / C13 (harness/vh/c11.py, c13.py).
   The implementation's float32 result is shipped as integers scaled by 2^20; the exact rational model is
   evaluated by vm_compute and compared within the tolerance, premultiplied (colour under alpha 0 is
   arbitrary in the code: 0/0 -> 1). *)
From Coq Require Import ZArith QArith Qabs Qreduction List Bool.
From PsdV Require Import Base.Prelude Composite.Scalar Composite.Model Composite.Geometry Composite.Doc.
Import ListNotations.
Open Scope Z_scope.

Definition SCALE : Z := 1048576.           (* 2^20 *)

Record comp_case := MkCase {
  cc_layers : list layer;
  cc_nch : nat;
  cc_vp : rect;
  cc_color : list (Z * Z);                 (* backdrop colour per channel, numerator / denominator *)
  cc_alpha : Z * Z;                        (* backdrop alpha *)
  cc_tol : Z;                              (* tolerance in units of 1/SCALE *)
  cc_out : list Z                          (* per pixel (row-major over the viewport): shape, alpha, alpha*colour_k ... *)
}.

Definition qfrac (p : Z * Z) : Q := Qred (Qdiv (inject_Z (fst p)) (inject_Z (snd p))).

Definition close (tol : Z) (model : Q) (impl : Z) : bool :=
  Qle_bool (Qabs (Qminus (Qmult model (inject_Z SCALE)) (inject_Z impl))) (inject_Z tol).

(* model values of one pixel in the order of cc_out *)
Definition pixel_values (cs : comp_case) (x y : Z) : list Q :=
  let ab := qfrac (cc_alpha cs) in
  let per_ch := map (fun k => composite_doc (O:=QOps) (cc_vp cs) (qfrac (nth k (cc_color cs) (1, 1))) ab
                                (cc_layers cs) x y k) (seq 0 (cc_nch cs)) in
  match per_ch with
  | [] => []
  | (_, sh, al) :: _ => sh :: al :: map (fun r => let '(col, _, a_) := r in Qred (Qmult a_ col)) per_ch
  end.

Definition zrange (lo hi : Z) : list Z := map (fun i => lo + Z.of_nat i) (seq 0 (Z.to_nat (hi - lo))).

Definition all_values (cs : comp_case) : list Q :=
  let '(l, t, r, b) := cc_vp cs in
  flat_map (fun y => flat_map (fun x => pixel_values cs x y) (zrange l r)) (zrange t b).

Fixpoint first_bad (tol : Z) (n : Z) (ms : list Q) (os : list Z) : Z :=
  match ms, os with
  | [], [] => -1
  | m :: ms', o :: os' => if close tol m o then first_bad tol (n + 1) ms' os' else n
  | _, _ => n + 1000000      (* lengths differ *)
  end.

(* [0] = the model agrees with the implementation everywhere; otherwise [1; index of the first bad value] *)
Definition check_case (cs : comp_case) : list Z :=
  let k := first_bad (cc_tol cs) 0 (all_values cs) (cc_out cs) in
  if k <? 0 then [0] else [1; k].

(* model output as scaled integers (used by the replay printer) *)
Definition model_scaled (cs : comp_case) : list Z :=
  map (fun q => let q' := Qred (Qmult q (inject_Z SCALE)) in Z.div (Qnum q') (Zpos (Qden q'))) (all_values cs).

(* ---- geometry streams: _intersect and paste against the real functions ---- *)
Definition rect_list (r : rect) : list Z := let '(a, b, c, d) := r in [a; b; c; d].

Definition intersect_case (p : rect * rect) : list Z := rect_list (intersect (fst p) (snd p)).

(* values[i][j] = 1 + i * width + j ; background bg ; output = the pasted view, row-major.
   (bg = 0 takes the np.zeros branch of `if background`, any other value the np.full branch) *)
Definition paste_case (p : rect * rect * Z) : list Z :=
  let '(vp, bb, bg) := p in
  let w := rwidth bb in
  flat_map (fun i => map (fun j => paste vp bb (fun i' j' => 1 + i' * w + j') bg i j) (zrange 0 (rwidth vp)))
           (zrange 0 (rheight vp)).
