(* Rectangles (left, top, right, bottom), composite._intersect and composite.paste on Z.
   An array of the code with bounding box bb = (l,t,r,b) is modelled by a function of the RELATIVE
   indices (row i, column j), 0 <= i < b-t, 0 <= j < r-l, exactly as NumPy addresses it. *)
From Coq Require Import ZArith Bool Lia.
Open Scope Z_scope.

Definition rect := (Z * Z * Z * Z)%type.

Definition rect_eqb (a b : rect) : bool :=
  let '(a0, a1, a2, a3) := a in let '(b0, b1, b2, b3) := b in
  (a0 =? b0) && (a1 =? b1) && (a2 =? b2) && (a3 =? b3).

Definition zero_rect : rect := (0, 0, 0, 0).
Definition is_zero_rect (r : rect) : bool := rect_eqb r zero_rect.

(* composite._intersect *)
Definition intersect (a b : rect) : rect :=
  let '(a0, a1, a2, a3) := a in let '(b0, b1, b2, b3) := b in
  let i0 := Z.max a0 b0 in let i1 := Z.max a1 b1 in
  let i2 := Z.min a2 b2 in let i3 := Z.min a3 b3 in
  if (i2 <=? i0) || (i3 <=? i1) then zero_rect else (i0, i1, i2, i3).

(* the absolute pixel (x, y) lies in the rectangle *)
Definition inside (r : rect) (x y : Z) : bool :=
  let '(l, t, rr, b) := r in (l <=? x) && (x <? rr) && (t <=? y) && (y <? b).

Definition rect_union (a b : rect) : rect :=
  let '(a0, a1, a2, a3) := a in let '(b0, b1, b2, b3) := b in
  (Z.min a0 b0, Z.min a1 b1, Z.max a2 b2, Z.max a3 b3).

Definition rwidth (r : rect) : Z := let '(l, _, rr, _) := r in rr - l.
Definition rheight (r : rect) : Z := let '(_, t, _, b) := r in b - t.

(* composite.paste(viewport, bbox, values, background)[i][j]:
     view = full(background); inter = _intersect(viewport, bbox); if inter == (0,0,0,0): return view
     v = inter - viewport origin ; b = inter - bbox origin
     view[v1:v3, v0:v2] = values[b1:b3, b0:b2]                                                   *)
Definition paste {A : Type} (vp bb : rect) (values : Z -> Z -> A) (background : A) (i j : Z) : A :=
  let inter := intersect vp bb in
  if is_zero_rect inter then background else
  let '(i0, i1, i2, i3) := inter in
  let '(vl, vt, _, _) := vp in
  let '(bl, bt, _, _) := bb in
  let v0 := i0 - vl in let v1 := i1 - vt in let v2 := i2 - vl in let v3 := i3 - vt in
  let b0 := i0 - bl in let b1 := i1 - bt in
  if (v1 <=? i) && (i <? v3) && (v0 <=? j) && (j <? v2)
  then values (b1 + (i - v1)) (b0 + (j - v0))
  else background.

(* well-formed rectangle: what a viewport or a non-empty bounding box is *)
Definition proper (r : rect) : Prop := let '(l, t, rr, b) := r in l < rr /\ t < b.
Definition weak (r : rect) : Prop := let '(l, t, rr, b) := r in l <= rr /\ t <= b.

(* sub-rectangle *)
Definition subrect (a b : rect) : Prop :=
  let '(a0, a1, a2, a3) := a in let '(b0, b1, b2, b3) := b in b0 <= a0 /\ b1 <= a1 /\ a2 <= b2 /\ a3 <= b3.
