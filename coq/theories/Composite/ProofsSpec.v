(* The kernel computes the published formulas (Spec.v): C11 algebra. *)
From Coq Require Import Reals Lra Psatz List Bool.
From PsdV Require Import Composite.Scalar Composite.Model Composite.Spec Composite.ProofsKernel.
Import ListNotations.
Open Scope R_scope.

(* a plain source of _apply_source: colour, shape, alpha, blend function (normal path) *)
Record source := mkSrc { s_c : R; s_f : R; s_a : R; s_B : R -> R -> R }.

Definition apply_sources (l : list source) (st : stR) : stR :=
  fold_left (fun s x => @apply_source ROps s (s_c x) (s_f x) (s_a x) (s_B x) false) l st.

(* ---- union_fold: group alpha / shape / total alpha after ANY list of sources (pure algebra, no side condition) *)
Lemma union_fold_gen (l : list source) : forall st : stR,
  1 - ag (apply_sources l st) = (1 - ag st) * prod_compl (map s_a l) /\
  1 - sg (apply_sources l st) = (1 - sg st) * prod_compl (map s_f l) /\
  a0 (apply_sources l st) = a0 st /\ c0 (apply_sources l st) = c0 st.
Proof.
  induction l as [|x l IH]; intros st.
  - cbn. repeat split; rring.
  - cbn [apply_sources fold_left map prod_compl].
    destruct (IH (@apply_source ROps st (s_c x) (s_f x) (s_a x) (s_B x) false)) as (E1 & E2 & E3 & E4).
    unfold apply_sources in *. rewrite E1, E2, E3, E4. cbn. repeat split; rring.
Qed.

Lemma union_fold (l : list source) iso cb ab :
  let st := apply_sources l (@init ROps iso cb ab) in
  ag st = group_alpha (map s_a l) /\ sg st = group_alpha (map s_f l).
Proof.
  destruct (union_fold_gen l (@init ROps iso cb ab)) as (E1 & E2 & _).
  unfold group_alpha. cbn in *. split; lra.
Qed.

Lemma total_alpha_fold (l : list source) (st : stR) :
  a st = a0 st + ag st - a0 st * ag st ->
  a (apply_sources l st) = 1 - (1 - a st) * prod_compl (map s_a l).
Proof.
  revert st. induction l as [|x l IH]; intros st I1.
  - cbn. rring.
  - cbn [apply_sources fold_left map prod_compl]. unfold apply_sources in IH. rewrite IH.
    + cbn. toR. rewrite I1. rring.
    + cbn. rring.
Qed.

(* ---- step_is_pdf_formula: one _apply_source step is the basic compositing formula 11.3.3 *)
Lemma step_is_pdf_formula (st : stR) cs fs als B :
  Inv st -> src_ok cs fs als -> blend_ok B ->
  let st' := @apply_source ROps st cs fs als B false in
  a st' = pdf_alpha (a st) als /\
  a st' * c st' = pdf_premult B (c st) (a st) cs als /\
  (a st' <> 0 -> c st' = pdf_color B (c st) (a st) cs als).
Proof.
  intros I S HB st'.
  destruct (apply_source_normal_Inv st cs fs als B I S HB) as [I' Hc]. fold st' in I', Hc.
  destruct (apply_source_normal_fields st cs fs als B) as (_ & _ & _ & _ & E4). fold st' in E4.
  assert (Ea : a st' = pdf_alpha (a st) als).
  { rewrite E4, (alpha_step st als (inv_a _ I)). unfold pdf_alpha, Union. rring. }
  assert (Ep : a st' <> 0 -> a st' * c st' = pdf_premult B (c st) (a st) cs als).
  { intros Hnz. rewrite Rmult_comm, (Hc Hnz). reflexivity. }
  split; [exact Ea|]. split.
  - destruct (Req_dec (a st') 0) as [Hz|Hnz]; [|auto].
    rewrite Hz, Rmult_0_l. rewrite Ea in Hz. unfold pdf_alpha, Union in Hz.
    pose proof (Inv_a_unit _ I) as Ha. destruct S as (_ & Hal & Hfs). unfold unit in *.
    assert (a st = 0 /\ als = 0) as [Z1 Z2] by (split; nra).
    unfold pdf_premult. rewrite Z1, Z2. rring.
  - intros Hnz. pose proof (Ep Hnz) as E. unfold pdf_color. fold (pdf_alpha (a st) als). rewrite <- Ea.
    unfold pdf_premult in E.
    apply Rmult_eq_reg_l with (a st'); [|assumption]. rewrite E. toR.
    set (X := (1 - a st) * cs + a st * B (c st) cs).
    assert (R1 : a st' * ((1 - als / a st') * c st + als / a st' * X) = (a st' - als) * c st + als * X)
      by (field; assumption).
    rewrite R1, Ea. unfold pdf_alpha, Union. rring.
Qed.

(* ---- porter_duff: an isolated group of Normal-mode sources is the Porter-Duff "over" fold *)
Definition normal_B : R -> R -> R := fun _ cs => cs.

Lemma normal_blend_ok : blend_ok normal_B.
Proof. intros x y _ Hy. exact Hy. Qed.

Definition src_normal (p : R * R) : source := mkSrc (fst p) (snd p) (snd p) normal_B.

Lemma porter_duff_gen (l : list (R * R)) : forall st : stR,
  Inv st -> Forall (fun p => unit (fst p) /\ unit (snd p)) l ->
  let st' := apply_sources (map src_normal l) st in
  Inv st' /\
  (a st' * c st', a st') = fold_left (fun dst s => pd_over (snd s * fst s, snd s) dst) l (a st * c st, a st).
Proof.
  induction l as [|[cs als] l IH]; intros st I Hl; cbn [map apply_sources fold_left].
  - split; [assumption|reflexivity].
  - inversion Hl as [|? ? [Hcs Hal] Hl']; subst. cbn [fst snd] in *.
    assert (S : src_ok cs als als) by (unfold src_ok, unit in *; lra).
    destruct (step_is_pdf_formula st cs als als normal_B I S normal_blend_ok) as (Ea & Ep & _).
    destruct (apply_source_normal_Inv st cs als als normal_B I S normal_blend_ok) as [I' _].
    set (st1 := @apply_source ROps st cs als als normal_B false) in *.
    specialize (IH st1 I' Hl'). cbn zeta in IH. destruct IH as [I2 E].
    unfold apply_sources in *. cbn [s_c s_f s_a s_B src_normal fst snd]. fold st1.
    split; [exact I2|]. rewrite E. f_equal.
    unfold pd_over. rewrite Ep, Ea. unfold pdf_premult, pdf_alpha, Union, normal_B. f_equal; rring.
Qed.

Theorem porter_duff (l : list (R * R)) cb ab :
  unit cb -> unit ab -> Forall (fun p => unit (fst p) /\ unit (snd p)) l ->
  let '(C, f, al) := @finish ROps (apply_sources (map src_normal l) (@init ROps true cb ab)) in
  (al * C, al) = pd_stack l.
Proof.
  intros Hcb Hab Hl.
  pose proof (porter_duff_gen l _ (init_Inv true cb ab Hcb Hab) Hl) as [I E]. cbn zeta in E.
  set (st := apply_sources (map src_normal l) (@init ROps true cb ab)) in *.
  unfold finish, pd_stack.
  assert (E0 : a0 st = 0).
  { destruct (union_fold_gen (map src_normal l) (@init ROps true cb ab)) as (_ & _ & E3 & _). exact E3. }
  assert (Eag : ag st = a st) by (rewrite (inv_a _ I), E0; rring).
  replace (a (@init ROps true cb ab) * c (@init ROps true cb ab), a (@init ROps true cb ab)) with (0, 0) in E
    by (cbn; f_equal; rring).
  rewrite <- E, Eag. f_equal.
  destruct (Req_dec (ag st) 0) as [Hz|Hnz].
  - rewrite <- Eag, Hz. rring.
  - destruct (finish_unclipped st I Hnz) as (_ & EC & _). rewrite EC, E0. unfold Rdiv. rring.
Qed.
