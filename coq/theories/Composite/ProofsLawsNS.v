(* The state equivalence of ProofsLaws.v in two strengths:
     rel true  = peq      : everything observable, shape included;
     rel false = peq_ns   : the same without the group SHAPE.  Shape only ever feeds shape, except through the
                            knockout formulas; so in knockout-free element trees the weaker relation is a
                            congruence too, and an element with ALPHA 0 (opacity 0, density 0, fill 0 ...) is a
                            no-op for it although it still has shape. *)
From Coq Require Import Reals Lra Psatz List Bool.
From PsdV Require Import Composite.Scalar Composite.Model Composite.Spec Composite.ProofsKernel Composite.ProofsLaws.
Import ListNotations.
Open Scope R_scope.

Record peq_ns (s t : stR) : Prop := {
  pn_a0 : a0 s = a0 t;
  pn_c0 : a0 s * c0 s = a0 t * c0 t;
  pn_ag : ag s = ag t;
  pn_a : a s = a t;
  pn_c : a s * c s = a t * c t
}.

Definition rel (b : bool) (s t : stR) : Prop := if b then peq s t else peq_ns s t.

Lemma peq_peq_ns s t : peq s t -> peq_ns s t.
Proof. intros [? ? ? ? ? ?]. constructor; assumption. Qed.

Lemma peq_rel b s t : peq s t -> rel b s t.
Proof. destruct b; [auto | apply peq_peq_ns]. Qed.

Lemma rel_ns b s t : rel b s t -> peq_ns s t.
Proof. destruct b; [apply peq_peq_ns | auto]. Qed.

Lemma rel_refl b s : rel b s s.
Proof. apply peq_rel. apply peq_refl. Qed.

Lemma rel_sym b s t : rel b s t -> rel b t s.
Proof.
  destruct b; cbn; [apply peq_sym|]. intros [? ? ? ? ?]. constructor; symmetry; assumption.
Qed.

Lemma rel_trans b s t u : rel b s t -> rel b t u -> rel b s u.
Proof.
  destruct b; cbn; [apply peq_trans|]. intros [? ? ? ? ?] [? ? ? ? ?]. constructor; etransitivity; eassumption.
Qed.

(* normal path: the shape argument of _apply_source cancels out of colour, alpha and group alpha *)
Lemma apply_source_peq_ns (s t : stR) cs cs' fs fs' als B :
  peq_ns s t -> (als = 0 \/ cs = cs') ->
  peq_ns (@apply_source ROps s cs fs als B false) (@apply_source ROps t cs' fs' als B false)
  /\ c (@apply_source ROps s cs fs als B false) = c (@apply_source ROps t cs' fs' als B false).
Proof.
  intros [E0 Ec0 Eag Ea Ec] Hsrc.
  assert (Hnum : (1 - fs) * a s * c s + ((fs - als) * a s * c s + als * ((1 - a s) * cs + a s * B (c s) cs))
               = (1 - fs') * a t * c t + ((fs' - als) * a t * c t + als * ((1 - a t) * cs' + a t * B (c t) cs'))).
  { replace ((1 - fs) * a s * c s + ((fs - als) * a s * c s + als * ((1 - a s) * cs + a s * B (c s) cs)))
      with ((1 - als) * (a s * c s) + als * ((1 - a s) * cs + a s * B (c s) cs)) by ring.
    replace ((1 - fs') * a t * c t + ((fs' - als) * a t * c t + als * ((1 - a t) * cs' + a t * B (c t) cs')))
      with ((1 - als) * (a t * c t) + als * ((1 - a t) * cs' + a t * B (c t) cs')) by ring.
    rewrite Ec, Ea. destruct Hsrc as [Z | <-].
    - rewrite Z. ring.
    - destruct (Req_dec (a t) 0) as [Z | NZ].
      + rewrite Z. ring.
      + assert (c s = c t) by (apply mul_cancel_l with (a t); [assumption | rewrite <- Ea at 1; exact Ec]).
        congruence. }
  assert (Hcol : c (@apply_source ROps s cs fs als B false) = c (@apply_source ROps t cs' fs' als B false)).
  { cbn. toR. f_equal. f_equal; [exact Hnum | rewrite E0, Eag; reflexivity]. }
  assert (Ha' : a (@apply_source ROps s cs fs als B false) = a (@apply_source ROps t cs' fs' als B false))
    by (cbn; toR; rewrite E0, Eag; reflexivity).
  split; [|exact Hcol]. constructor.
  - exact E0.
  - exact Ec0.
  - cbn; toR; rewrite Eag; reflexivity.
  - exact Ha'.
  - rewrite Ha', Hcol. reflexivity.
Qed.

Lemma apply_source_rel b (s t : stR) cs cs' fs fs' als B ko :
  rel b s t -> (b = true -> fs = fs') -> (b = false -> ko = false) -> (als = 0 \/ cs = cs') ->
  rel b (@apply_source ROps s cs fs als B ko) (@apply_source ROps t cs' fs' als B ko)
  /\ c (@apply_source ROps s cs fs als B ko) = c (@apply_source ROps t cs' fs' als B ko).
Proof.
  intros E Hf Hk Hs. destruct b; cbn in *.
  - rewrite <- (Hf eq_refl). apply apply_source_peq; assumption.
  - rewrite (Hk eq_refl). apply apply_source_peq_ns; assumption.
Qed.

Lemma init_rel b iso cb cb' ab : ab * cb = ab * cb' -> rel b (@init ROps iso cb ab) (@init ROps iso cb' ab).
Proof. intros H. apply peq_rel. apply init_peq. exact H. Qed.

(* an alpha-0 source is a no-op for the weaker relation (normal path) *)
Lemma apply_source_alpha_null (s : stR) cs fs B :
  Inv s -> unit fs -> peq_ns (@apply_source ROps s cs fs 0 B false) s.
Proof.
  intros I U. destruct (apply_source_zero_alpha s cs fs B I U) as (E1 & E2 & E3 & _).
  constructor; try assumption; reflexivity.
Qed.

(* knockout-free element trees *)
Inductive kofree : elR -> Prop :=
| kf_leaf cs f fa B cl : Forall kofree cl -> kofree (LeafR cs f fa B false cl)
| kf_group iso ch fa B cl : Forall kofree ch -> Forall kofree cl -> kofree (GroupR iso ch fa B false cl).

Definition okb (b : bool) (e : elR) : Prop := b = true \/ kofree e.

Lemma okb_ko b e : okb b e -> b = false -> elem_ko e = false.
Proof. intros [-> | K] Hb; [discriminate Hb|]. inversion K; reflexivity. Qed.
