(* Document-level no-op law: layers that contribute nothing at a pixel - hidden, outside their box there,
   alpha 0 there, and (knockout-free documents, modulo shape) opacity / fill opacity 0 - may be inserted at ANY
   positions of ANY sibling lists of the layer tree (top level, inside groups at any depth, inside clipping
   runs as clipping layers) without changing the result, for every viewport containing the pixel.
   The only side condition is the one that makes it an insertion rather than a restructuring: a NON-clipping
   layer is not inserted directly below clipping layers (it would become their base). *)
From Coq Require Import ZArith Reals Lra Psatz List Bool Lia.
From PsdV Require Import Composite.Scalar Composite.Model Composite.Geometry Composite.Doc Composite.Plane
  Composite.ProofsKernel Composite.ProofsGeometry Composite.ProofsBlend Composite.ProofsLaws Composite.ProofsLawsNS
  Composite.ProofsSim Composite.ProofsDoc Composite.ProofsViewport Composite.ProofsInsert Composite.ProofsWrap
  Composite.ProofsPlane.
Import ListNotations.

Lemma nullb_weaken b (e : elR) : nullb true e -> nullb b e.
Proof.
  induction e as [cs f fa B ko cl IHc | iso ch fa B ko cl IHch IHc] using elem_ind'; intros N; inversion N; subst;
    try discriminate.
  - apply nb_shape.
  - apply nb_group. rewrite Forall_forall in *. intros x Hx. apply IHch; auto.
Qed.

Section AtPixel.
Variables (b : bool) (x y : Z) (k : nat).

Notation simb := (ProofsSim.sim b).

(* the layer contributes nothing at this pixel *)
Definition noop_at (N : layer) : Prop := Forall (nullb b) (@plane_layer ROps x y k N []).

Definition next_plain (l : list layer) : Prop :=
  match l with [] => True | n :: _ => at_clip (attrs_of n) = false end.

(* l' is l with no-op layers inserted, here and inside groups *)
Inductive ins : list layer -> list layer -> Prop :=
| ins_nil : ins [] []
| ins_keep L l' l : ins l' l -> ins (L :: l') (L :: l)
| ins_group pass ch' ch at_ l' l : ins ch' ch -> ins l' l -> ins (Gr pass ch' at_ :: l') (Gr pass ch at_ :: l)
| ins_new N l' l : noop_at N -> at_clip (attrs_of N) = true \/ next_plain l' -> ins l' l -> ins (N :: l') l.

Lemma plane_layer_clips_sim (L : layer) cl' cl :
  simb cl' cl -> simb (@plane_layer ROps x y k L cl') (@plane_layer ROps x y k L cl).
Proof.
  intros H. destruct L as [rc chans alpha at_ | pass ch at_].
  - cbn [plane_layer attrs_of]. destruct (negb (at_vis at_)); [apply sim_nil|].
    apply sim_cons; [apply esim_leaf; exact H | apply sim_nil].
  - rewrite !plane_group_unfold. destruct (negb (at_vis at_)); [apply sim_nil|].
    apply sim_cons; [apply esim_group; [apply sim_refl | exact H] | apply sim_nil].
Qed.

Lemma sim_dropL_all (n l' l : list elR) : Forall (nullb b) n -> simb l' l -> simb (n ++ l') l.
Proof. induction 1; intros; cbn; [assumption | apply sim_dropL; auto]. Qed.

Lemma plane_runs_no_pending (l : list layer) : next_plain l -> fst (@plane_runs ROps x y k l) = [].
Proof.
  destruct l as [|n t]; intros H; [reflexivity|]. cbn [plane_runs]. destruct (plane_runs x y k t).
  cbn in H. rewrite H. reflexivity.
Qed.

Theorem ins_runs_sim (l' l : list layer) : ins l' l ->
  simb (fst (@plane_runs ROps x y k l')) (fst (@plane_runs ROps x y k l)) /\
  simb (snd (@plane_runs ROps x y k l')) (snd (@plane_runs ROps x y k l)).
Proof.
  induction 1 as [| L l' l H IH | pass ch' ch at_ l' l Hch IHch H IH | N l' l HN Hc H IH].
  - cbn. split; apply sim_nil.
  - cbn [plane_runs]. destruct (plane_runs x y k l') as [p' r'], (plane_runs x y k l) as [p r].
    cbn [fst snd] in IH. destruct IH as [I1 I2].
    destruct (at_clip (attrs_of L)); cbn [fst snd].
    + split; [|assumption]. apply sim_app; [apply sim_refl | assumption].
    + split; [apply sim_nil|]. apply sim_app; [apply plane_layer_clips_sim; assumption | assumption].
  - cbn [plane_runs attrs_of]. destruct (plane_runs x y k l') as [p' r'], (plane_runs x y k l) as [p r].
    cbn [fst snd] in IH. destruct IH as [I1 I2].
    assert (G : forall cl' cl, simb cl' cl ->
              simb (@plane_layer ROps x y k (Gr pass ch' at_) cl') (@plane_layer ROps x y k (Gr pass ch at_) cl)).
    { intros cl' cl Hcl. rewrite !plane_group_unfold. destruct (negb (at_vis at_)); [apply sim_nil|].
      apply sim_cons; [|apply sim_nil]. apply esim_group; [|exact Hcl].
      unfold plane_list. destruct IHch as [C1 C2].
      destruct (plane_runs x y k ch'), (plane_runs x y k ch). apply sim_app; assumption. }
    destruct (at_clip at_); cbn [fst snd].
    + split; [|assumption]. apply sim_app; [apply G; apply sim_nil | assumption].
    + split; [apply sim_nil|]. apply sim_app; [apply G; assumption | assumption].
  - cbn [plane_runs]. destruct IH as [I1 I2].
    destruct (plane_runs x y k l') as [p' r'] eqn:E'. cbn [fst snd] in *.
    destruct (at_clip (attrs_of N)) eqn:C; cbn [fst snd].
    + split; [|assumption]. apply sim_dropL_all; assumption.
    + destruct Hc as [Hc | Hc]; [discriminate Hc|].
      pose proof (plane_runs_no_pending l' Hc) as P. rewrite E' in P. cbn in P. subst p'.
      split; [exact I1|]. apply sim_dropL_all; assumption.
Qed.

Theorem ins_plane_sim (l' l : list layer) : ins l' l ->
  simb (@plane_list ROps x y k l') (@plane_list ROps x y k l).
Proof.
  intros H. unfold plane_list. destruct (ins_runs_sim l' l H) as [R1 R2].
  destruct (plane_runs x y k l'), (plane_runs x y k l). apply sim_app; assumption.
Qed.

(* ---- sufficient conditions for [noop_at] *)
Lemma noop_hidden (N : layer) : at_vis (attrs_of N) = false -> noop_at N.
Proof. intros H. unfold noop_at. destruct N; cbn [plane_layer attrs_of] in *; rewrite H; constructor. Qed.

(* the pixel is outside the layer's (group's) bounding box: e.g. a layer outside the viewport *)
Lemma noop_outside_box (N : layer) : inside (bbox_of N) x y = false -> noop_at N.
Proof.
  intros H. unfold noop_at. pose proof (plane_layer_null x y k N H []) as P.
  eapply Forall_impl; [|exact P]. intros e. apply nullb_weaken.
Qed.

End AtPixel.

Open Scope R_scope.

Lemma byte_0 : @byte ROps 0 = 0.
Proof. unfold byte. cbn. lra. Qed.

Lemma pval_0 den : @pval ROps den 0 = 0.
Proof. unfold pval. cbn. unfold Rdiv. apply Rmult_0_l. Qed.

(* a pixel layer whose transparency plane is 0 everywhere *)
Lemma noop_alpha0 b x y k rc chans alpha at_ :
  Forall (fun z => z = 0%Z) alpha -> noop_at b x y k (Px rc chans alpha at_).
Proof.
  intros H. unfold noop_at. cbn [plane_layer attrs_of].
  destruct (negb (at_vis at_)); [constructor|]. constructor; [|constructor].
  assert (E : abs_at rc (@plane_at ROps (at_den at_) alpha (rwidth rc)) (@f0 ROps) x y = 0).
  { unfold abs_at. destruct rc as [[[bl bt] br] bb_]. destruct (inside _ x y); [|reflexivity].
    unfold plane_at.
    assert (Z : nth (Z.to_nat ((y - bt) * rwidth (bl, bt, br, bb_) + (x - bl))) alpha 0%Z = 0%Z).
    { destruct (Nat.lt_ge_cases (Z.to_nat ((y - bt) * rwidth (bl, bt, br, bb_) + (x - bl))) (length alpha)) as [Hl|Hl].
      - rewrite Forall_forall in H. apply H. apply nth_In. exact Hl.
      - apply nth_overflow. exact Hl. }
    rewrite Z. apply pval_0. }
  rewrite E. apply nb_shape.
Qed.

(* opacity 0 or fill opacity 0, any kind of layer: alpha-null (the weaker strength) *)
Lemma noop_opacity0 x y k (N : layer) :
  at_op (attrs_of N) = 0%Z \/ at_fill (attrs_of N) = 0%Z -> noop_at false x y k N.
Proof.
  intros H. unfold noop_at.
  assert (P : fprod (@factors_plane ROps x y (attrs_of N)) = 0).
  { unfold fprod, factors_plane. cbn [fm fd fk fq]. destruct H as [H | H]; rewrite H, byte_0; ring. }
  destruct N as [rc chans alpha at_ | pass ch at_].
  - cbn [plane_layer attrs_of] in *. destruct (negb (at_vis at_)); [constructor|].
    constructor; [|constructor]. apply nb_alpha; [reflexivity | exact P].
  - rewrite plane_group_unfold. cbn [attrs_of] in P. destruct (negb (at_vis at_)); [constructor|].
    constructor; [|constructor]. apply nb_group_alpha; [reflexivity | exact P].
Qed.

(* ---- knockout-free documents sample to knockout-free elements *)
Inductive layer_kofree : layer -> Prop :=
| lk_px rc chans alpha at_ : at_ko at_ = false -> layer_kofree (Px rc chans alpha at_)
| lk_gr pass ch at_ : at_ko at_ = false -> Forall layer_kofree ch -> layer_kofree (Gr pass ch at_).

Lemma plane_runs_kofree x y k (ls : list layer) :
  Forall (fun L => forall clips, Forall kofree clips -> Forall kofree (@plane_layer ROps x y k L clips)) ls ->
  Forall kofree (fst (@plane_runs ROps x y k ls)) /\ Forall kofree (snd (@plane_runs ROps x y k ls)).
Proof.
  induction 1 as [|L ls HL Hls IH]; cbn [plane_runs]; [split; constructor|].
  destruct (plane_runs x y k ls) as [p r]. cbn [fst snd] in IH. destruct IH as [I1 I2].
  destruct (at_clip (attrs_of L)); cbn [fst snd].
  - split; [|assumption]. apply Forall_app. split; [apply HL; constructor | assumption].
  - split; [constructor|]. apply Forall_app. split; [apply HL; assumption | assumption].
Qed.

Lemma plane_layer_kofree (L : layer) : layer_kofree L ->
  forall x y k clips, Forall kofree clips -> Forall kofree (@plane_layer ROps x y k L clips).
Proof.
  induction L as [rc chans alpha at_ | pass ch at_ IH] using layer_ind'; intros K x y k clips Hc; inversion K; subst.
  - cbn [plane_layer attrs_of]. destruct (negb (at_vis at_)); [constructor|]. constructor; [|constructor].
    match goal with H : at_ko at_ = false |- _ => rewrite H end. constructor. exact Hc.
  - rewrite plane_group_unfold. destruct (negb (at_vis at_)); [constructor|]. constructor; [|constructor].
    match goal with H : at_ko at_ = false |- _ => rewrite H end. constructor; [|exact Hc].
    unfold plane_list.
    assert (Hall : Forall (fun L => forall clips, Forall kofree clips -> Forall kofree (@plane_layer ROps x y k L clips)) ch).
    { rewrite Forall_forall in *. intros L HL clips0 Hc0. apply IH; auto. }
    destruct (plane_runs_kofree x y k ch Hall) as [R1 R2].
    destruct (plane_runs x y k ch). apply Forall_app. split; assumption.
Qed.

Lemma plane_list_kofree (ls : list layer) x y k : Forall layer_kofree ls -> Forall kofree (@plane_list ROps x y k ls).
Proof.
  intros H. unfold plane_list.
  assert (Hall : Forall (fun L => forall clips, Forall kofree clips -> Forall kofree (@plane_layer ROps x y k L clips)) ls).
  { rewrite Forall_forall in *. intros L HL clips0 Hc0. apply plane_layer_kofree; auto. }
  destruct (plane_runs_kofree x y k ls Hall) as [R1 R2].
  destruct (plane_runs x y k ls). apply Forall_app. split; assumption.
Qed.

(* ---- the law, for the viewport model *)
Lemma doc_plane_peq (ls : list layer) vp cb ab x y k :
  Forall layer_ok ls -> unit cb -> unit ab -> inside vp x y = true ->
  peq (apply_list (@sample_list ROps vp x y k ls) (@init ROps false cb ab))
      (apply_list (@plane_list ROps x y k ls) (@init ROps false cb ab)).
Proof.
  intros OK Hcb Hab Hin. pose proof (init_Inv false cb ab Hcb Hab) as I0.
  exact (sim_sound_peq _ _ (sample_list_plane x y k ls vp Hin) (sample_list_wf ls vp x y k OK)
           (plane_list_wf ls x y k OK) _ _ I0 I0 (peq_refl _)).
Qed.

(* shape-0 insertions (hidden, outside their box, alpha 0 at the pixel): every document, full result *)
Theorem noop_insert_document (l' l : list layer) vp cb ab x y k :
  ins true x y k l' l -> Forall layer_ok l' -> Forall layer_ok l -> unit cb -> unit ab -> inside vp x y = true ->
  result_eq (@composite_doc ROps vp cb ab l' x y k) (@composite_doc ROps vp cb ab l x y k).
Proof.
  intros H OK' OK Hcb Hab Hin. unfold composite_doc, composite_px, result_eq.
  pose proof (init_Inv false cb ab Hcb Hab) as I0.
  pose proof (doc_plane_peq l' vp cb ab x y k OK' Hcb Hab Hin) as E1.
  pose proof (doc_plane_peq l vp cb ab x y k OK Hcb Hab Hin) as E3.
  pose proof (sim_sound_peq _ _ (ins_plane_sim true x y k l' l H) (plane_list_wf l' x y k OK')
                (plane_list_wf l x y k OK) _ _ I0 I0 (peq_refl _)) as E2.
  pose proof (peq_trans _ _ _ E1 (peq_trans _ _ _ E2 (peq_sym _ _ E3))) as E.
  apply (finish_peq _ _ (apply_list_Inv _ (sample_list_wf l' vp x y k OK') _ I0)
                        (apply_list_Inv _ (sample_list_wf l vp x y k OK) _ I0) E).
Qed.

(* alpha-0 insertions as well (opacity 0, fill opacity 0): knockout-free documents, alpha and colour *)
Theorem noop_insert_document_alpha (l' l : list layer) vp cb ab x y k :
  ins false x y k l' l -> Forall layer_ok l' -> Forall layer_ok l ->
  Forall layer_kofree l' -> Forall layer_kofree l -> unit cb -> unit ab -> inside vp x y = true ->
  let '(C', _, al') := @composite_doc ROps vp cb ab l' x y k in
  let '(C, _, al) := @composite_doc ROps vp cb ab l x y k in
  al' = al /\ al' * C' = al * C.
Proof.
  intros H OK' OK K' K Hcb Hab Hin. unfold composite_doc, composite_px.
  pose proof (init_Inv false cb ab Hcb Hab) as I0.
  pose proof (peq_peq_ns _ _ (doc_plane_peq l' vp cb ab x y k OK' Hcb Hab Hin)) as E1.
  pose proof (peq_peq_ns _ _ (doc_plane_peq l vp cb ab x y k OK Hcb Hab Hin)) as E3.
  assert (O' : Forall (okb false) (@plane_list ROps x y k l')).
  { eapply Forall_impl; [|apply plane_list_kofree; exact K']. intros; right; assumption. }
  assert (O : Forall (okb false) (@plane_list ROps x y k l)).
  { eapply Forall_impl; [|apply plane_list_kofree; exact K]. intros; right; assumption. }
  pose proof (proj1 (sim_sound false) _ _ (ins_plane_sim false x y k l' l H) (plane_list_wf l' x y k OK')
                (plane_list_wf l x y k OK) O' O _ _ I0 I0 (rel_refl false _)) as E2.
  cbn [rel] in E2.
  pose proof (rel_trans false _ _ _ E1 (rel_trans false _ _ _ E2 (rel_sym false _ _ E3))) as E. cbn [rel] in E.
  pose proof (finish_peq_ns _ _ (apply_list_Inv _ (sample_list_wf l' vp x y k OK') _ I0)
                (apply_list_Inv _ (sample_list_wf l vp x y k OK) _ I0) E) as F.
  unfold finish in *. exact F.
Qed.
