(* Document-level pass-through wrapping at ANY depth and in any number of places at once:
   [wrapped l' l] = l' is l where ranges of whole clipping runs - at the top level, inside groups, inside the
   wrapped ranges themselves - have been put into visible, full-opacity, full-fill, unmasked, non-knockout
   pass-through groups.  For every viewport containing the pixel the two documents composite to the same
   shape, alpha and premultiplied colour. *)
From Coq Require Import ZArith Reals Lra Psatz List Bool Lia.
From PsdV Require Import Composite.Scalar Composite.Model Composite.Geometry Composite.Doc Composite.Plane
  Composite.ProofsKernel Composite.ProofsGeometry Composite.ProofsBlend Composite.ProofsLaws Composite.ProofsLawsNS
  Composite.ProofsSim Composite.ProofsDoc Composite.ProofsViewport Composite.ProofsInsert Composite.ProofsWrap
  Composite.ProofsPlane Composite.ProofsNoopDoc.
Import ListNotations.

Inductive wrapped : list layer -> list layer -> Prop :=
| wr_nil : wrapped [] []
| wr_keep L l' l : wrapped l' l -> wrapped (L :: l') (L :: l)
| wr_group pass ch' ch at_ l' l : wrapped ch' ch -> wrapped l' l -> wrapped (Gr pass ch' at_ :: l') (Gr pass ch at_ :: l)
| wr_wrap run' run l' l :
    starts_with_base run' ->                                  (* the range starts with a base layer ...        *)
    next_not_clipping l' ->                                   (* ... and ends where the next run starts         *)
    Forall (fun L => at_ko (attrs_of L) = false) run' ->      (* no knockout layer directly in the range        *)
    wrapped run' run -> wrapped l' l ->
    wrapped (Gr true run' wrap_attrs :: l') (run ++ l).

Lemma wrapped_starts l' l : wrapped l' l -> starts_with_base l' -> starts_with_base l.
Proof.
  induction 1 as [| L l' l H IH | pass ch' ch at_ l' l Hch IHch H IH | run' run l' l Hs Hn Hk Hr IHr H IH]; intros S.
  - exact S.
  - exact S.
  - exact S.
  - specialize (IHr Hs). destruct run as [|n t]; [destruct IHr|]. exact IHr.
Qed.

Lemma wrapped_next l' l : wrapped l' l -> next_not_clipping l' -> next_not_clipping l.
Proof.
  intros H N. destruct l' as [|n t].
  - inversion H; subst. exact I.
  - pose proof (wrapped_starts _ _ H N) as S. destruct l; [exact I | exact S].
Qed.

Section AtPixel.
Variables (x y : Z) (k : nat).
Notation simT := (ProofsSim.sim true).

Lemma plane_runs_app (r l2 : list layer) :
  fst (@plane_runs ROps x y k l2) = [] ->
  @plane_runs ROps x y k (r ++ l2) =
  (fst (@plane_runs ROps x y k r), snd (@plane_runs ROps x y k r) ++ snd (@plane_runs ROps x y k l2)).
Proof.
  intros H. induction r as [|a r IH]; cbn [app plane_runs].
  - destruct (plane_runs x y k l2) as [p q]. cbn in *. subst. reflexivity.
  - rewrite IH. destruct (plane_runs x y k r) as [p q]. cbn [fst snd].
    destruct (at_clip (attrs_of a)); [reflexivity|]. rewrite app_assoc. reflexivity.
Qed.

Lemma plane_starts_no_pending (l : list layer) : starts_with_base l -> fst (@plane_runs ROps x y k l) = [].
Proof.
  destruct l as [|n t]; [intros []|]. intros H. cbn [plane_runs]. destruct (plane_runs x y k t).
  cbn in H. rewrite H. reflexivity.
Qed.

Lemma plane_next_no_pending (l : list layer) : next_not_clipping l -> fst (@plane_runs ROps x y k l) = [].
Proof.
  destruct l as [|n t]; intros H; [reflexivity|]. cbn [plane_runs]. destruct (plane_runs x y k t).
  cbn in H. rewrite H. reflexivity.
Qed.

Lemma plane_layer_ko (L : layer) clips :
  at_ko (attrs_of L) = false -> Forall (fun e => elem_ko e = false) (@plane_layer ROps x y k L clips).
Proof.
  intros H. destruct L as [rc chans alpha at_ | pass ch at_].
  - cbn [plane_layer attrs_of] in *. destruct (negb (at_vis at_)); [constructor|]. repeat constructor. exact H.
  - rewrite plane_group_unfold. cbn [attrs_of] in H. destruct (negb (at_vis at_)); repeat constructor. exact H.
Qed.

Lemma plane_runs_ko (ls : list layer) :
  Forall (fun L => at_ko (attrs_of L) = false) ls ->
  Forall (fun e => elem_ko e = false) (fst (@plane_runs ROps x y k ls)) /\
  Forall (fun e => elem_ko e = false) (snd (@plane_runs ROps x y k ls)).
Proof.
  induction 1 as [|L ls HL Hls IH]; cbn [plane_runs]; [split; constructor|].
  destruct (plane_runs x y k ls) as [p q]. cbn [fst snd] in IH. destruct IH as [I1 I2].
  destruct (at_clip (attrs_of L)); cbn [fst snd].
  - split; [|assumption]. apply Forall_app. split; [apply plane_layer_ko; assumption | assumption].
  - split; [constructor|]. apply Forall_app. split; [apply plane_layer_ko; assumption | assumption].
Qed.

Lemma wrap_factors_plane : @factors_plane ROps x y wrap_attrs = ones.
Proof. unfold factors_plane, wrap_attrs, ones. cbn [at_mask at_fill at_op fst snd]. rewrite byte_255. reflexivity. Qed.

Lemma plane_layer_clips_simT (L : layer) cl' cl :
  simT cl' cl -> simT (@plane_layer ROps x y k L cl') (@plane_layer ROps x y k L cl).
Proof. apply (plane_layer_clips_sim true). Qed.

Theorem wrapped_runs_sim (l' l : list layer) : wrapped l' l ->
  simT (fst (@plane_runs ROps x y k l')) (fst (@plane_runs ROps x y k l)) /\
  simT (snd (@plane_runs ROps x y k l')) (snd (@plane_runs ROps x y k l)).
Proof.
  induction 1 as [| L l' l H IH | pass ch' ch at_ l' l Hch IHch H IH | run' run l' l Hs Hn Hk Hr IHr H IH].
  - cbn. split; apply sim_nil.
  - cbn [plane_runs]. destruct (plane_runs x y k l') as [p' r'], (plane_runs x y k l) as [p r].
    cbn [fst snd] in IH. destruct IH as [I1 I2].
    destruct (at_clip (attrs_of L)); cbn [fst snd].
    + split; [|assumption]. apply sim_app; [apply sim_refl | assumption].
    + split; [apply sim_nil|]. apply sim_app; [apply plane_layer_clips_simT; assumption | assumption].
  - cbn [plane_runs attrs_of]. destruct (plane_runs x y k l') as [p' r'], (plane_runs x y k l) as [p r].
    cbn [fst snd] in IH. destruct IH as [I1 I2].
    assert (G : forall cl' cl, simT cl' cl ->
              simT (@plane_layer ROps x y k (Gr pass ch' at_) cl') (@plane_layer ROps x y k (Gr pass ch at_) cl)).
    { intros cl' cl Hcl. rewrite !plane_group_unfold. destruct (negb (at_vis at_)); [apply sim_nil|].
      apply sim_cons; [|apply sim_nil]. apply esim_group; [|exact Hcl].
      unfold plane_list. destruct IHch as [C1 C2].
      destruct (plane_runs x y k ch'), (plane_runs x y k ch). apply sim_app; assumption. }
    destruct (at_clip at_); cbn [fst snd].
    + split; [|assumption]. apply sim_app; [apply G; apply sim_nil | assumption].
    + split; [apply sim_nil|]. apply sim_app; [apply G; assumption | assumption].
  - (* the wrapping group on the left, its contents spliced on the right *)
    destruct IHr as [R1 R2]. destruct IH as [I1 I2].
    pose proof (plane_next_no_pending l' Hn) as P'.
    pose proof (plane_next_no_pending l (wrapped_next _ _ H Hn)) as P.
    pose proof (plane_starts_no_pending run' Hs) as Q'.
    pose proof (plane_starts_no_pending run (wrapped_starts _ _ Hr Hs)) as Q.
    rewrite (plane_runs_app run l P). cbn [fst snd]. rewrite Q.
    cbn [plane_runs attrs_of at_clip wrap_attrs].
    destruct (plane_runs x y k l') as [p' r'] eqn:E'. cbn [fst snd] in *. subst p'.
    split; [apply sim_nil|].
    rewrite plane_group_unfold. cbn [at_vis wrap_attrs negb at_bm at_ko]. rewrite wrap_factors_plane.
    change (@blend_fn ROps BNormal) with normal_fn. cbn [app].
    apply sim_wrap.
    + unfold plane_list. destruct (plane_runs_ko run' Hk) as [K1 K2].
      destruct (plane_runs x y k run'). apply Forall_app. split; assumption.
    + unfold plane_list. rewrite Q' in R1. destruct (plane_runs x y k run') as [a1 a2].
      cbn [fst snd] in *. subst a1. cbn [app]. rewrite Q in R1.
      destruct (plane_runs x y k run) as [b1 b2]. cbn [fst snd] in *. exact R2.
    + exact I2.
Qed.

Theorem wrapped_plane_sim (l' l : list layer) : wrapped l' l ->
  simT (@plane_list ROps x y k l') (@plane_list ROps x y k l).
Proof.
  intros H. unfold plane_list. destruct (wrapped_runs_sim l' l H) as [R1 R2].
  destruct (plane_runs x y k l'), (plane_runs x y k l). apply sim_app; assumption.
Qed.

End AtPixel.

Open Scope R_scope.

Theorem passthrough_wrap_anywhere (l' l : list layer) vp cb ab x y k :
  wrapped l' l -> Forall layer_ok l' -> Forall layer_ok l -> unit cb -> unit ab -> inside vp x y = true ->
  result_eq (@composite_doc ROps vp cb ab l' x y k) (@composite_doc ROps vp cb ab l x y k).
Proof.
  intros H OK' OK Hcb Hab Hin. unfold composite_doc, composite_px, result_eq.
  pose proof (init_Inv false cb ab Hcb Hab) as I0.
  pose proof (doc_plane_peq l' vp cb ab x y k OK' Hcb Hab Hin) as E1.
  pose proof (doc_plane_peq l vp cb ab x y k OK Hcb Hab Hin) as E3.
  pose proof (sim_sound_peq _ _ (wrapped_plane_sim x y k l' l H) (plane_list_wf l' x y k OK')
                (plane_list_wf l x y k OK) _ _ I0 I0 (peq_refl _)) as E2.
  pose proof (peq_trans _ _ _ E1 (peq_trans _ _ _ E2 (peq_sym _ _ E3))) as E.
  apply (finish_peq _ _ (apply_list_Inv _ (sample_list_wf l' vp x y k OK') _ I0)
                        (apply_list_Inv _ (sample_list_wf l vp x y k OK) _ I0) E).
Qed.
