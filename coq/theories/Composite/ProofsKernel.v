(* Lemmas about the per-pixel kernel over the reals (ROps instance of Model.v). *)
From Coq Require Import Reals Lra Psatz List Bool ZArith.
From PsdV Require Import Composite.Scalar Composite.Model.
Import ListNotations.
Open Scope R_scope.

Notation stR := (state ROps).
Notation elR := (elem ROps).
Notation faR := (factors ROps).
Notation LeafR := (@Leaf ROps).
Notation GroupR := (@Group ROps).

Ltac toR := change (F ROps) with R in *.
(* [ring] looks the structure up by the type of the left-hand side, which may print as [F ROps] *)
Ltac rring := toR; first [ring | symmetry; ring | lra].
Ltac rfield := toR; first [field | symmetry; field].

(* ------------------------------------------------------------------ the primitive operations on R *)
Lemma f0_R : @f0 ROps = 0. Proof. reflexivity. Qed.
Lemma f1_R : @f1 ROps = 1. Proof. reflexivity. Qed.

Lemma is_zero_true (x : R) : @is_zero ROps x = true <-> x = 0.
Proof.
  unfold is_zero. cbn. rewrite andb_true_iff, !Rleb_true. split; intros; lra.
Qed.

Lemma is_zero_false (x : R) : @is_zero ROps x = false <-> x <> 0.
Proof.
  split; intros H.
  - intros E. apply is_zero_true in E. congruence.
  - destruct (@is_zero ROps x) eqn:E; auto. apply is_zero_true in E. contradiction.
Qed.

Lemma union_R (b s : R) : @union ROps b s = b + s - b * s.
Proof. reflexivity. Qed.

Lemma divs_zero (x : R) : @divs ROps x 0 = 1.
Proof. unfold divs. replace (@is_zero ROps 0) with true; auto. symmetry. apply is_zero_true. reflexivity. Qed.

Lemma divs_nz (x y : R) : y <> 0 -> @divs ROps x y = x / y.
Proof. intros H. unfold divs. apply is_zero_false in H. rewrite H. reflexivity. Qed.

Lemma clip_range (x : R) : 0 <= @clip ROps x <= 1.
Proof.
  unfold clip. cbn.
  destruct (Rleb x 0) eqn:E1; [lra|].
  destruct (Rleb 1 x) eqn:E2; [lra|].
  apply Rleb_false in E1, E2. lra.
Qed.

Lemma clip_id (x : R) : 0 <= x <= 1 -> @clip ROps x = x.
Proof.
  intros H. unfold clip. cbn.
  destruct (Rleb x 0) eqn:E1.
  - apply Rleb_true in E1. lra.
  - destruct (Rleb 1 x) eqn:E2; auto. apply Rleb_true in E2. lra.
Qed.

Definition unit (x : R) : Prop := 0 <= x <= 1.

Lemma union_unit x y : unit x -> unit y -> unit (x + y - x * y).
Proof. unfold unit. intros. split; nra. Qed.

(* ------------------------------------------------------------------ invariant of a Compositor *)
(* I1: _alpha = Union(_alpha_0, _alpha_g);  I4: the backdrop-removed colour is a colour:
   0 <= alpha*color - alpha_0*color_0*(1 - alpha_g) <= alpha_g *)
Record Inv (st : stR) : Prop := {
  inv_c0 : unit (c0 st);
  inv_a0 : unit (a0 st);
  inv_sg : unit (sg st);
  inv_ag : unit (ag st);
  inv_c : unit (c st);
  inv_a : a st = a0 st + ag st - a0 st * ag st;
  inv_rm : 0 <= a st * c st - a0 st * c0 st * (1 - ag st) <= ag st;
  inv_as : ag st <= sg st
}.

Lemma Inv_a_unit (st : stR) : Inv st -> unit (a st).
Proof. intros [? ? ? ? ? Ha ? ?]. rewrite Ha. apply union_unit; assumption. Qed.

Lemma init_Inv iso cb ab : unit cb -> unit ab -> Inv (@init ROps iso cb ab).
Proof.
  intros Hc Ha. unfold unit in *.
  destruct iso; constructor; cbn; unfold unit; try lra; nra.
Qed.

(* a source as _apply_source receives it *)
Definition src_ok (cs fs als : R) : Prop := unit cs /\ 0 <= als <= fs /\ fs <= 1.
Definition blend_ok (B : R -> R -> R) : Prop := forall x y, unit x -> unit y -> unit (B x y).

(* the un-clipped, un-divided new colour numerator and the new alpha of the normal path *)
Definition num_normal (st : stR) (cs als : R) (B : R -> R -> R) : R :=
  (1 - als) * (a st * c st) + als * ((1 - a st) * cs + a st * B (c st) cs).

Lemma apply_source_normal_fields (st : stR) cs fs als B :
  let st' := @apply_source ROps st cs fs als B false in
  c0 st' = c0 st /\ a0 st' = a0 st /\
  sg st' = sg st + fs - sg st * fs /\
  ag st' = ag st + als - ag st * als /\
  a st' = a0 st + (ag st + als - ag st * als) - a0 st * (ag st + als - ag st * als).
Proof. cbn. repeat split; reflexivity. Qed.

Lemma apply_source_normal_color (st : stR) cs fs als B :
  c (@apply_source ROps st cs fs als B false) =
  @clip ROps (@divs ROps (num_normal st cs als B) (a (@apply_source ROps st cs fs als B false))).
Proof.
  cbn. unfold num_normal. f_equal. f_equal. ring.
Qed.

(* new alpha in terms of the previous alpha (needs I1) *)
Lemma alpha_step (st : stR) (als : R) : a st = a0 st + ag st - a0 st * ag st ->
  a0 st + (ag st + als - ag st * als) - a0 st * (ag st + als - ag st * als) = a st + als - a st * als.
Proof. intros H. rewrite H. ring. Qed.

Lemma num_normal_bounds (st : stR) cs fs als B :
  Inv st -> src_ok cs fs als -> blend_ok B ->
  0 <= num_normal st cs als B <= a st + als - a st * als.
Proof.
  intros I (Hcs & Hal & Hfs) HB.
  pose proof (Inv_a_unit _ I) as Ha. destruct I as [_ _ _ _ Hc _ _ _].
  pose proof (HB _ _ Hc Hcs) as Hb. unfold unit, num_normal in *.
  set (X := (1 - a st) * cs + a st * B (c st) cs).
  assert (0 <= X <= 1) by (unfold X; split; nra).
  assert (0 <= a st * c st <= a st) by (split; nra).
  split; nra.
Qed.

(* Theorem (state stays in the unit interval, clip is the identity, the removal bound persists):
   normal path *)
Lemma apply_source_normal_Inv (st : stR) cs fs als B :
  Inv st -> src_ok cs fs als -> blend_ok B ->
  Inv (@apply_source ROps st cs fs als B false)
  /\ (* _clip changed nothing *)
     (a (@apply_source ROps st cs fs als B false) <> 0 ->
      c (@apply_source ROps st cs fs als B false) * a (@apply_source ROps st cs fs als B false)
      = num_normal st cs als B).
Proof.
  intros I S HB.
  pose proof (num_normal_bounds _ _ _ _ _ I S HB) as Hn.
  pose proof (Inv_a_unit _ I) as Ha.
  pose proof (apply_source_normal_color st cs fs als B) as Hc.
  destruct (apply_source_normal_fields st cs fs als B) as (E0 & E1 & E2 & E3 & E4).
  set (st' := @apply_source ROps st cs fs als B false) in *.
  destruct S as (Hcs & Hal & Hfs).
  destruct I as [I0 I1 I2 I3 I4 I5 I6 I7].
  assert (Ea : a st' = a st + als - a st * als) by (rewrite E4; apply alpha_step; assumption).
  assert (Hcol : a st' <> 0 -> c st' * a st' = num_normal st cs als B /\ unit (c st')).
  { intros Hnz. rewrite Hc. rewrite divs_nz by assumption.
    assert (Hq : 0 <= num_normal st cs als B / a st' <= 1).
    { assert (0 < a st') by (unfold unit in *; rewrite Ea in *; nra).
      split.
      - apply Rmult_le_reg_r with (a st'); [assumption|]. unfold Rdiv. rewrite Rmult_assoc, Rinv_l by assumption. lra.
      - apply Rmult_le_reg_r with (a st'); [assumption|]. unfold Rdiv. rewrite Rmult_assoc, Rinv_l by assumption. rewrite Ea. lra. }
    rewrite clip_id by assumption. split; [field; assumption| exact Hq]. }
  split; [|intros Hnz; apply Hcol; assumption].
  constructor.
  - rewrite E0; assumption.
  - rewrite E1; assumption.
  - rewrite E2. apply union_unit; [assumption| unfold unit in *; lra].
  - rewrite E3. apply union_unit; [assumption| unfold unit in *; lra].
  - rewrite Hc. apply clip_range.
  - rewrite E1, E3, E4. reflexivity.
  - rewrite E0, E1, E3.
    destruct (Req_dec (a st') 0) as [Hz | Hnz].
    + (* new alpha 0: everything vanishes *)
      rewrite Hz. unfold unit in *.
      assert (a st = 0 /\ als = 0) as [Z1 Z2] by (rewrite Ea in Hz; split; nra).
      assert (a0 st = 0 /\ ag st = 0) as [Z3 Z4] by (rewrite I5 in Z1; split; nra).
      rewrite Z2, Z3, Z4. lra.
    + destruct (Hcol Hnz) as [Hm _]. rewrite Rmult_comm, Hm. unfold num_normal.
      set (X := (1 - a st) * cs + a st * B (c st) cs).
      assert (0 <= X <= 1).
      { pose proof (HB _ _ I4 Hcs). unfold unit in *. unfold X. split; nra. }
      unfold unit in *. split; nra.
  - rewrite E2, E3. unfold unit in *.
    assert ((1 - sg st) * (1 - fs) <= (1 - ag st) * (1 - als)) by nra. nra.
Qed.

(* ------------------------------------------------------------------ knockout path *)
Definition ag_ko (st : stR) (fs als : R) : R := (1 - fs) * ag st + (fs - als) * a0 st + als.
Definition num_ko (st : stR) (cs fs als : R) (B : R -> R -> R) : R :=
  (1 - fs) * (a st * c st) + (fs - als) * (a0 st * c0 st)
  + als * ((1 - a0 st) * cs + a0 st * B (c0 st) cs).

Lemma apply_source_ko_fields (st : stR) cs fs als B :
  let st' := @apply_source ROps st cs fs als B true in
  c0 st' = c0 st /\ a0 st' = a0 st /\
  sg st' = sg st + fs - sg st * fs /\
  ag st' = ag_ko st fs als /\
  a st' = a0 st + ag_ko st fs als - a0 st * ag_ko st fs als /\
  c st' = @clip ROps (@divs ROps (num_ko st cs fs als B) (a st')).
Proof.
  cbn. unfold ag_ko, num_ko. repeat split; try reflexivity.
  f_equal. f_equal. ring.
Qed.

Lemma apply_source_ko_Inv (st : stR) cs fs als B :
  Inv st -> src_ok cs fs als -> blend_ok B ->
  Inv (@apply_source ROps st cs fs als B true)
  /\ (a (@apply_source ROps st cs fs als B true) <> 0 ->
      c (@apply_source ROps st cs fs als B true) * a (@apply_source ROps st cs fs als B true)
      = num_ko st cs fs als B).
Proof.
  intros I S HB.
  pose proof (Inv_a_unit _ I) as Ha.
  destruct (apply_source_ko_fields st cs fs als B) as (E0 & E1 & E2 & E3 & E4 & Hc).
  set (st' := @apply_source ROps st cs fs als B true) in *.
  destruct S as (Hcs & Hal & Hfs).
  destruct I as [I0 I1 I2 I3 I4 I5 I6 I7].
  pose proof (HB _ _ I0 Hcs) as Hb.
  set (X := (1 - a0 st) * cs + a0 st * B (c0 st) cs) in *.
  assert (HX : 0 <= X <= 1) by (unfold unit in *; unfold X; split; nra).
  assert (Hagk : unit (ag_ko st fs als)).
  { unfold ag_ko, unit in *. split; nra. }
  assert (Hac : 0 <= a st * c st <= a st) by (unfold unit in *; split; nra).
  assert (Hac0 : 0 <= a0 st * c0 st <= a0 st) by (unfold unit in *; split; nra).
  (* numerator bounds *)
  assert (Hn0 : 0 <= num_ko st cs fs als B).
  { unfold num_ko. fold X. unfold unit in *. nra. }
  assert (Hn1 : num_ko st cs fs als B <= a st').
  { rewrite E4. unfold num_ko, ag_ko. fold X. rewrite I5. unfold unit in *.
    assert (a0 st * c0 st <= a0 st) by nra.
    assert ((a0 st + ag st - a0 st * ag st) * c st <= a0 st + ag st - a0 st * ag st) by nra.
    assert (0 <= (1 - a0 st) * (fs - als) * a0 st) by (apply Rmult_le_pos; [apply Rmult_le_pos|]; lra).
    nra. }
  assert (Hcol : a st' <> 0 -> c st' * a st' = num_ko st cs fs als B /\ unit (c st')).
  { intros Hnz. rewrite Hc. rewrite divs_nz by assumption.
    assert (Hpos : 0 < a st').
    { assert (0 <= a st') by (rewrite E4; unfold unit in *; nra). lra. }
    assert (Hq : 0 <= num_ko st cs fs als B / a st' <= 1).
    { split.
      - apply Rmult_le_reg_r with (a st'); [assumption|]. unfold Rdiv. rewrite Rmult_assoc, Rinv_l by assumption. lra.
      - apply Rmult_le_reg_r with (a st'); [assumption|]. unfold Rdiv. rewrite Rmult_assoc, Rinv_l by assumption. lra. }
    rewrite clip_id by assumption. split; [field; assumption| exact Hq]. }
  split; [|intros Hnz; apply Hcol; assumption].
  constructor.
  - rewrite E0; assumption.
  - rewrite E1; assumption.
  - rewrite E2. apply union_unit; [assumption| unfold unit in *; lra].
  - rewrite E3. assumption.
  - rewrite Hc. apply clip_range.
  - rewrite E1, E3, E4. reflexivity.
  - rewrite E0, E1, E3.
    destruct (Req_dec (a st') 0) as [Hz | Hnz].
    + rewrite Hz. unfold unit in *.
      assert (a0 st = 0 /\ ag_ko st fs als = 0) as [Z3 Z4] by (rewrite E4 in Hz; split; nra).
      rewrite Z3, Z4. lra.
    + destruct (Hcol Hnz) as [Hm _]. rewrite Rmult_comm, Hm. unfold num_ko, ag_ko. fold X.
      (* = (1-fs)*(ac - a0c0(1-ag)) + (fs-als)*a0^2*c0 + als*X *)
      replace ((1 - fs) * (a st * c st) + (fs - als) * (a0 st * c0 st) + als * X
               - a0 st * c0 st * (1 - ((1 - fs) * ag st + (fs - als) * a0 st + als)))
        with ((1 - fs) * (a st * c st - a0 st * c0 st * (1 - ag st))
              + (fs - als) * (a0 st * (a0 st * c0 st)) + als * X) by ring.
      unfold unit in *.
      assert (0 <= a0 st * (a0 st * c0 st) <= a0 st) by (split; nra).
      split; nra.
  - rewrite E2, E3. unfold ag_ko, unit in *. nra.
Qed.

Lemma apply_source_Inv (st : stR) cs fs als B ko :
  Inv st -> src_ok cs fs als -> blend_ok B -> Inv (@apply_source ROps st cs fs als B ko).
Proof.
  intros. destruct ko.
  - apply apply_source_ko_Inv; assumption.
  - apply apply_source_normal_Inv; assumption.
Qed.

(* ------------------------------------------------------------------ elements: induction principle, well-formedness *)
Section ElemInd.
  Variable P : elR -> Prop.
  Hypothesis HL : forall cs f fa B ko clips, Forall P clips -> P (LeafR cs f fa B ko clips).
  Hypothesis HG : forall iso ch fa B ko clips, Forall P ch -> Forall P clips -> P (GroupR iso ch fa B ko clips).
  Fixpoint elem_ind' (e : elR) : P e :=
    let fix all (l : list elR) : Forall P l :=
      match l with [] => Forall_nil P | x :: t => Forall_cons x (elem_ind' x) (all t) end in
    match e with
    | Leaf cs f fa B ko clips => HL cs f fa B ko clips (all clips)
    | Group iso ch fa B ko clips => HG iso ch fa B ko clips (all ch) (all clips)
    end.
End ElemInd.

Definition fa_ok (fa : faR) : Prop := unit (fm fa) /\ unit (fd fa) /\ unit (fk fa) /\ unit (fq fa).

Inductive wf : elR -> Prop :=
| wf_leaf cs f fa B ko clips :
    unit cs -> unit f -> fa_ok fa -> blend_ok B -> Forall wf clips -> wf (LeafR cs f fa B ko clips)
| wf_group iso ch fa B ko clips :
    fa_ok fa -> blend_ok B -> Forall wf ch -> Forall wf clips -> wf (GroupR iso ch fa B ko clips).

Lemma factors_src_ok col sh al (fa : faR) :
  unit col -> unit sh -> 0 <= al <= sh -> fa_ok fa ->
  src_ok col (sh * fm fa * fk fa) (al * (fm fa * fd fa * fq fa) * fk fa).
Proof.
  intros Hc Hs Ha (Hm & Hd & Hk & Hq). unfold src_ok, unit in *.
  assert (0 <= fm fa * fk fa <= 1) by (split; nra).
  assert (0 <= fd fa * fq fa <= 1) by (split; nra).
  assert (0 <= al * (fm fa * fk fa)) by nra.
  assert (al * (fm fa * fk fa) <= sh * (fm fa * fk fa)) by nra.
  replace (al * (fm fa * fd fa * fq fa) * fk fa) with (al * (fm fa * fk fa) * (fd fa * fq fa)) by ring.
  replace (sh * fm fa * fk fa) with (sh * (fm fa * fk fa)) by ring.
  repeat split; try lra; try nra.
Qed.

Lemma apply_factors_Inv (st : stR) col sh al fa B ko :
  Inv st -> unit col -> unit sh -> 0 <= al <= sh -> fa_ok fa -> blend_ok B ->
  Inv (@apply_factors ROps st col sh al fa B ko).
Proof.
  intros. unfold apply_factors. apply apply_source_Inv; try assumption.
  apply (factors_src_ok col sh al fa); assumption.
Qed.

Lemma fold_Inv (l : list elR) :
  Forall (fun e => forall st, Inv st -> Inv (apply_elem e st)) l ->
  forall st, Inv st -> Inv (fold_left (fun s e => apply_elem e s) l st).
Proof.
  induction 1 as [|e l He Hl IH]; intros st I; cbn; auto.
Qed.

Lemma finish_color_unit (st : stR) : unit (@finish_color ROps st).
Proof. unfold finish_color. apply clip_range. Qed.

(* Theorem state_in_unit_interval, for whole element trees of any depth *)
Lemma apply_elem_Inv (e : elR) : wf e -> forall st, Inv st -> Inv (apply_elem e st).
Proof.
  induction e as [cs f fa B ko clips IHc | iso ch fa B ko clips IHch IHc] using elem_ind';
    intros W st I; inversion W; subst; cbn [apply_elem].
  - assert (Hclips : Forall (fun e => forall st, Inv st -> Inv (apply_elem e st)) clips).
    { rewrite Forall_forall in *. intros x Hx. apply IHc; auto. }
    pose proof (fold_Inv clips Hclips _ (init_Inv false cs f ltac:(assumption) ltac:(assumption))) as Ig.
    apply apply_factors_Inv; try assumption.
    + apply (inv_c _ Ig).
    + unfold unit in *; lra.
  - assert (Hch : Forall (fun e => forall st, Inv st -> Inv (apply_elem e st)) ch).
    { rewrite Forall_forall in *. intros x Hx. apply IHch; auto. }
    assert (Hclips : Forall (fun e => forall st, Inv st -> Inv (apply_elem e st)) clips).
    { rewrite Forall_forall in *. intros x Hx. apply IHc; auto. }
    set (cb := if ko then c0 st else c st).
    set (ab := if ko then a0 st else a st).
    assert (Hcb : unit cb) by (unfold cb; destruct ko; [apply (inv_c0 _ I) | apply (inv_c _ I)]).
    assert (Hab : unit ab) by (unfold ab; destruct ko; [apply (inv_a0 _ I) | apply (Inv_a_unit _ I)]).
    pose proof (fold_Inv ch Hch _ (init_Inv iso cb ab Hcb Hab)) as Ig.
    set (g := fold_left (fun s e' => apply_elem e' s) ch (init iso cb ab)) in *.
    unfold finish.
    pose proof (finish_color_unit g) as Hfc.
    pose proof (fold_Inv clips Hclips _ (init_Inv false _ _ Hfc (inv_ag _ Ig))) as Ic.
    apply apply_factors_Inv; try assumption.
    + apply (inv_c _ Ic).
    + apply (inv_sg _ Ig).
    + split; [apply (inv_ag _ Ig) | apply (inv_as _ Ig)].
Qed.

Lemma apply_list_Inv (l : list elR) : Forall wf l -> forall st, Inv st -> Inv (apply_list l st).
Proof.
  intros W. unfold apply_list. apply fold_Inv. rewrite Forall_forall in *. intros x Hx. apply apply_elem_Inv; auto.
Qed.

(* the backdrop-removal formula of the `color` property yields a colour without help from _clip *)
Lemma finish_unclipped (st : stR) : Inv st -> ag st <> 0 ->
  let C := c st + (c st - c0 st) * (a0 st / ag st - a0 st) in
  unit C /\ @finish_color ROps st = C /\ ag st * C = a st * c st - a0 st * c0 st * (1 - ag st).
Proof.
  intros I Hnz C.
  assert (E : ag st * C = a st * c st - a0 st * c0 st * (1 - ag st)).
  { unfold C. rewrite (inv_a _ I). field. assumption. }
  pose proof (inv_rm _ I) as Hrm. pose proof (inv_ag _ I) as Hag. unfold unit in *.
  assert (Hpos : 0 < ag st) by lra.
  assert (HC : 0 <= C <= 1).
  { rewrite <- E in Hrm. split; nra. }
  repeat split; try apply HC; try exact E.
  unfold finish_color. rewrite divs_nz by assumption. cbn. fold C. apply clip_id. exact HC.
Qed.
