(* Document-level pass-through wrapping: in any sibling list, replacing a range of whole clipping runs
   (first layer not clipping, next sibling after the range not clipping, no knockout layer in the range) by a
   visible, full-opacity, full-fill, unmasked, non-knockout pass-through group holding that range leaves the
   Compositor in an equivalent state at every pixel of the viewport - the group's own viewport restriction
   and the "out of viewport" exits included. *)
From Coq Require Import ZArith Reals Lra Psatz List Bool Lia ZifyBool.
From PsdV Require Import Composite.Scalar Composite.Model Composite.Geometry Composite.Doc
  Composite.ProofsKernel Composite.ProofsGeometry Composite.ProofsBlend Composite.ProofsLaws Composite.ProofsDoc
  Composite.ProofsLawsNS Composite.ProofsSim Composite.ProofsViewport Composite.ProofsInsert.
Import ListNotations.

(* ---- list plumbing of sample_runs *)
Lemma sample_runs_app {O : Ops} vp x y k (r l2 : list layer) :
  fst (@sample_runs O vp x y k l2) = [] ->
  @sample_runs O vp x y k (r ++ l2) =
  (fst (@sample_runs O vp x y k r), snd (@sample_runs O vp x y k r) ++ snd (@sample_runs O vp x y k l2)).
Proof.
  intros H. induction r as [|a r IH]; cbn [app sample_runs].
  - destruct (sample_runs vp x y k l2) as [p q]. cbn in *. subst. reflexivity.
  - rewrite IH. destruct (sample_runs vp x y k r) as [p q]. cbn [fst snd].
    destruct (at_clip (attrs_of a)); [reflexivity|]. rewrite app_assoc. reflexivity.
Qed.

Lemma sample_list_app {O : Ops} vp x y k (l1 m : list layer) :
  fst (@sample_runs O vp x y k m) = [] ->
  @sample_list O vp x y k (l1 ++ m) = @sample_list O vp x y k l1 ++ snd (@sample_runs O vp x y k m).
Proof.
  intros H. unfold sample_list. rewrite (sample_runs_app vp x y k l1 m H).
  destruct (sample_runs vp x y k l1) as [p q]. cbn [fst snd]. rewrite app_assoc. reflexivity.
Qed.

Definition starts_with_base (l : list layer) : Prop :=
  match l with [] => False | n :: _ => at_clip (attrs_of n) = false end.

Lemma starts_with_base_no_pending {O : Ops} vp x y k l :
  starts_with_base l -> fst (@sample_runs O vp x y k l) = [].
Proof.
  destruct l as [|n t]; [intros []|]. intros H. cbn [sample_runs]. destruct (sample_runs vp x y k t).
  cbn in H. rewrite H. reflexivity.
Qed.

Lemma three_way {O : Ops} vp x y k (l1 X l2 : list layer) :
  starts_with_base X -> next_not_clipping l2 ->
  @sample_list O vp x y k (l1 ++ X ++ l2) =
  @sample_list O vp x y k l1 ++ @sample_list O vp x y k X ++ snd (@sample_runs O vp x y k l2).
Proof.
  intros HX H2.
  pose proof (runs_no_pending (O:=O) vp x y k l2 H2) as P2.
  assert (PX : fst (@sample_runs O vp x y k (X ++ l2)) = []).
  { rewrite (sample_runs_app vp x y k X l2 P2). cbn [fst]. apply starts_with_base_no_pending. exact HX. }
  rewrite (sample_list_app vp x y k l1 (X ++ l2) PX). f_equal.
  rewrite (sample_runs_app vp x y k X l2 P2). cbn [snd]. f_equal.
  unfold sample_list. pose proof (starts_with_base_no_pending (O:=O) vp x y k X HX) as E.
  destruct (sample_runs vp x y k X) as [p q]. cbn in E. subst. reflexivity.
Qed.

Open Scope R_scope.

(* ---- the wrapping group's attributes *)
Definition wrap_attrs : attrs := MkAttrs true 255 255 BNormal false None false 255.

Lemma byte_255 : @byte ROps 255 = 1.
Proof. unfold byte. cbn. lra. Qed.

Lemma wrap_factors vp x y : @factors_at ROps vp x y wrap_attrs = ones.
Proof.
  unfold factors_at, wrap_attrs, ones. destruct vp as [[[vl vt] vr] vb]. cbn [at_mask at_fill at_op fst snd].
  rewrite byte_255. reflexivity.
Qed.

(* ---- knockout flags of sampled elements *)
Lemma sample_layer_ko vp x y k (L : layer) clips :
  at_ko (attrs_of L) = false -> Forall (fun e => elem_ko e = false) (@sample_layer ROps vp x y k L clips).
Proof.
  intros H. destruct L as [rc chans alpha at_ | pass ch at_].
  - cbn [sample_layer attrs_of bbox_of] in *.
    destruct (negb (at_vis at_)); [constructor|].
    destruct (is_zero_rect (intersect vp rc)); [constructor|].
    destruct vp as [[[vl vt] vr] vb]. repeat constructor. exact H.
  - rewrite sample_group_unfold. cbn [attrs_of] in H.
    destruct (negb (at_vis at_)); [constructor|].
    destruct (is_zero_rect _); [constructor|]. cbn zeta.
    destruct (inside _ x y); repeat constructor; exact H.
Qed.

Lemma sample_runs_ko vp x y k (ls : list layer) :
  Forall (fun L => at_ko (attrs_of L) = false) ls ->
  Forall (fun e => elem_ko e = false) (fst (@sample_runs ROps vp x y k ls)) /\
  Forall (fun e => elem_ko e = false) (snd (@sample_runs ROps vp x y k ls)).
Proof.
  induction 1 as [|L ls HL Hls IH]; cbn [sample_runs]; [split; constructor|].
  destruct (sample_runs vp x y k ls) as [p q]. cbn [fst snd] in IH. destruct IH as [I1 I2].
  destruct (at_clip (attrs_of L)); cbn [fst snd].
  - split; [|assumption]. apply Forall_app. split; [apply sample_layer_ko; assumption | assumption].
  - split; [constructor|]. apply Forall_app. split; [apply sample_layer_ko; assumption | assumption].
Qed.

Lemma sample_list_ko vp x y k (ls : list layer) :
  Forall (fun L => at_ko (attrs_of L) = false) ls ->
  Forall (fun e => elem_ko e = false) (@sample_list ROps vp x y k ls).
Proof.
  intros H. unfold sample_list. destruct (sample_runs_ko vp x y k ls H) as [I1 I2].
  destruct (sample_runs vp x y k ls). apply Forall_app. split; assumption.
Qed.

(* ---- a pixel outside a layer's box sees nothing of that layer *)
Definition null_leaf (e : elR) : Prop := exists cs fa B ko cl, e = LeafR cs 0 fa B ko cl.

Lemma sim_nil_nulls (l : list elR) : Forall null_leaf l -> sim [] l.
Proof.
  induction 1 as [|e l (cs & fa & B & ko & cl & ->) Hl IH]; [apply sim_nil|]. apply sim_dropR; [apply nb_shape | exact IH].
Qed.

Lemma sample_layer_null vp x y k (L : layer) clips :
  inside vp x y = true -> inside (bbox_of L) x y = false ->
  Forall null_leaf (@sample_layer ROps vp x y k L clips).
Proof.
  intros Hin Hout. destruct L as [rc chans alpha at_ | pass ch at_].
  - cbn [sample_layer attrs_of bbox_of] in *.
    destruct (negb (at_vis at_)); [constructor|].
    destruct (is_zero_rect (intersect vp rc)); [constructor|].
    pose proof (paste_abs vp rc (@plane_at ROps (at_den at_) alpha (rwidth rc)) (@f0 ROps) x y Hin) as Pa.
    destruct vp as [[[vl vt] vr] vb], rc as [[[bl bt] br] bb_]. rewrite Pa, Hout.
    constructor; [|constructor]. repeat eexists.
  - rewrite sample_group_unfold.
    destruct (negb (at_vis at_)); [constructor|].
    destruct (is_zero_rect _); [constructor|]. cbn zeta.
    rewrite (inside_intersect_l vp _ x y Hin), Hout.
    constructor; [|constructor]. repeat eexists.
Qed.

(* bounding box of a group contains the boxes of its visible children *)
Open Scope Z_scope.
Lemma inside_union_l a b x y : inside a x y = true -> inside (rect_union a b) x y = true.
Proof. destruct a as [[[a0 a1] a2] a3], b as [[[b0 b1] b2] b3]. unfold inside, rect_union. lia. Qed.
Lemma inside_union_r a b x y : inside b x y = true -> inside (rect_union a b) x y = true.
Proof. destruct a as [[[a0 a1] a2] a3], b as [[[b0 b1] b2] b3]. unfold inside, rect_union. lia. Qed.

Definition opt_inside (o : option rect) x y : bool := match o with None => false | Some r => inside r x y end.

Lemma group_bbox_contains pass (ch : list layer) at_ (L : layer) x y :
  In L ch -> at_vis (attrs_of L) = true -> inside (bbox_of L) x y = true ->
  inside (bbox_of (Gr pass ch at_)) x y = true.
Proof.
  intros HIn Hv Hi. cbn [bbox_of].
  set (go := fix go (ls : list layer) (acc : option rect) {struct ls} : option rect :=
        match ls with
        | [] => acc
        | x :: tl =>
            go tl (if at_vis (attrs_of x)
                   then if is_zero_rect (bbox_of x) then acc
                        else Some match acc with Some r => rect_union r (bbox_of x) | None => bbox_of x end
                   else acc)
        end).
  assert (Mono : forall ls acc, opt_inside acc x y = true -> opt_inside (go ls acc) x y = true).
  { induction ls as [|a ls IH]; intros acc Ha; cbn [go]; [exact Ha|]. apply IH.
    destruct (at_vis (attrs_of a)); [|exact Ha].
    destruct (is_zero_rect (bbox_of a)); [exact Ha|].
    destruct acc as [r|]; cbn in *; [apply inside_union_l; exact Ha | discriminate Ha]. }
  assert (Hit : forall ls acc, In L ls -> opt_inside (go ls acc) x y = true).
  { induction ls as [|a ls IH]; intros acc HI; [destruct HI|]. cbn [go]. destruct HI as [-> | HI].
    - apply Mono. rewrite Hv.
      destruct (is_zero_rect (bbox_of L)) eqn:Z.
      + apply rect_eqb_eq in Z. rewrite Z, inside_zero_rect in Hi. discriminate Hi.
      + destruct acc as [r|]; cbn; [apply inside_union_r; exact Hi | exact Hi].
    - apply IH. exact HI. }
  specialize (Hit ch None HIn). destruct (go ch None); cbn in Hit; [exact Hit | discriminate Hit].
Qed.
Open Scope R_scope.

Lemma sample_runs_null vp x y k pass (ch : list layer) at_ (ls : list layer) :
  inside vp x y = true -> inside (bbox_of (Gr pass ch at_)) x y = false ->
  (forall L, In L ls -> In L ch) ->
  Forall null_leaf (fst (@sample_runs ROps vp x y k ls)) /\ Forall null_leaf (snd (@sample_runs ROps vp x y k ls)).
Proof.
  intros Hin Hout. induction ls as [|L ls IH]; intros Sub; cbn [sample_runs]; [split; constructor|].
  assert (Sub' : forall L0, In L0 ls -> In L0 ch) by (intros; apply Sub; right; assumption).
  destruct (IH Sub') as [I1 I2]. destruct (sample_runs vp x y k ls) as [p q]. cbn [fst snd] in *.
  assert (HL : forall clips, Forall null_leaf (@sample_layer ROps vp x y k L clips)).
  { intros clips. destruct (at_vis (attrs_of L)) eqn:Hv.
    - apply sample_layer_null; [exact Hin|].
      destruct (inside (bbox_of L) x y) eqn:E; [|reflexivity].
      rewrite (group_bbox_contains pass ch at_ L x y (Sub L (or_introl eq_refl)) Hv E) in Hout. discriminate Hout.
    - rewrite (hidden_vanishes vp x y k L Hv). constructor. }
  destruct (at_clip (attrs_of L)); cbn [fst snd].
  - split; [|assumption]. apply Forall_app. split; [apply HL | assumption].
  - split; [constructor|]. apply Forall_app. split; [apply HL | assumption].
Qed.

(* ---- the core: the wrapped group against its contents, from any state *)
Lemma wrap_core vp x y k (run : list layer) (s : stR) :
  inside vp x y = true -> Forall layer_ok run ->
  Forall (fun L => at_ko (attrs_of L) = false) run -> Inv s ->
  peq (apply_list (@sample_layer ROps vp x y k (Gr true run wrap_attrs) []) s)
      (apply_list (@sample_list ROps vp x y k run) s).
Proof.
  intros Hin OK KO I.
  pose proof (sample_list_wf run vp x y k OK) as Wd.
  rewrite sample_group_unfold. cbn [at_vis wrap_attrs negb].
  set (bb := bbox_of (Gr true run wrap_attrs)).
  assert (Null : inside bb x y = false -> peq s (apply_list (@sample_list ROps vp x y k run) s)).
  { intros Hout. unfold sample_list.
    destruct (sample_runs_null vp x y k true run wrap_attrs run Hin Hout (fun L H => H)) as [N1 N2].
    pose proof (sample_list_wf run vp x y k OK) as W. unfold sample_list in W.
    destruct (sample_runs vp x y k run) as [p q]. cbn [fst snd] in *.
    pose proof (sim_nil_nulls (p ++ q) (proj2 (Forall_app _ _ _) (conj N1 N2))) as S.
    exact (sim_sound_peq [] (p ++ q) S (Forall_nil _) W s s I I (peq_refl s)). }
  destruct (is_zero_rect (intersect vp bb)) eqn:Z.
  - (* the group misses the viewport altogether *)
    cbn [apply_list fold_left]. apply Null. apply (zero_intersect_not_inside vp bb x y Z Hin).
  - cbn zeta. rewrite (inside_intersect_l vp bb x y Hin).
    destruct (inside bb x y) eqn:Hb.
    + (* inside the group's viewport: kernel theorem + crop of the children's viewport *)
      rewrite wrap_factors. cbn [at_bm at_ko wrap_attrs negb apply_list fold_left].
      change (@blend_fn ROps BNormal) with normal_fn.
      set (vp' := intersect vp bb).
      pose proof (sample_list_wf run vp' x y k OK) as W'.
      pose proof (passthrough_wrap (@sample_list ROps vp' x y k run) s W' (sample_list_ko vp' x y k run KO) I) as P1.
      eapply peq_trans; [exact P1|].
      assert (S' : subrect vp' vp).
      { unfold vp'. apply subrect_intersect_l. exact Z. }
      assert (Hin' : inside vp' x y = true) by (unfold vp'; rewrite inside_intersect_l; assumption).
      exact (sim_sound_peq _ _ (sample_list_crop x y k run vp' vp S' Hin') W' Wd s s I I (peq_refl s)).
    + (* outside the group's box: the group is a blank source, its contents are shape 0 here *)
      cbn [apply_list fold_left].
      eapply peq_trans; [apply (leaf_null_noop _ _ _ _ _ s I) | apply Null; reflexivity].
Qed.

(* Theorem: wrapping a range of whole clipping runs of a sibling list in a pass-through group *)
Theorem passthrough_wrap_document vp x y k (l1 run l2 : list layer) (s : stR) :
  inside vp x y = true ->
  Forall layer_ok l1 -> Forall layer_ok run -> Forall layer_ok l2 ->
  starts_with_base run -> next_not_clipping l2 ->
  Forall (fun L => at_ko (attrs_of L) = false) run -> Inv s ->
  peq (apply_list (@sample_list ROps vp x y k (l1 ++ [Gr true run wrap_attrs] ++ l2)) s)
      (apply_list (@sample_list ROps vp x y k (l1 ++ run ++ l2)) s).
Proof.
  intros Hin OK1 OKr OK2 Hrun Hl2 KO I.
  rewrite (three_way vp x y k l1 [Gr true run wrap_attrs] l2 ltac:(reflexivity) Hl2).
  rewrite (three_way vp x y k l1 run l2 Hrun Hl2).
  unfold apply_list. rewrite !fold_left_app. fold (apply_list (@sample_list ROps vp x y k l1) s).
  set (s1 := apply_list (@sample_list ROps vp x y k l1) s).
  assert (I1 : Inv s1) by (apply apply_list_Inv; [apply sample_list_wf; assumption | assumption]).
  assert (Wg : Forall wf (@sample_list ROps vp x y k [Gr true run wrap_attrs])).
  { apply sample_list_wf. constructor; [|constructor]. constructor; [assumption|].
    unfold attrs_ok, wrap_attrs, is_byte. cbn. repeat split; lia. }
  assert (Wr : Forall wf (@sample_list ROps vp x y k run)) by (apply sample_list_wf; assumption).
  assert (W2 : Forall wf (snd (@sample_runs ROps vp x y k l2))).
  { assert (Hall : Forall (fun L => forall vp clips, Forall wf clips -> Forall wf (@sample_layer ROps vp x y k L clips)) l2).
    { rewrite Forall_forall in *. intros L HL vp0 clips0 Hc0. apply sample_layer_wf; auto. }
    apply (proj2 (sample_runs_wf vp x y k l2 Hall)). }
  fold (apply_list (@sample_list ROps vp x y k [Gr true run wrap_attrs]) s1).
  fold (apply_list (@sample_list ROps vp x y k run) s1).
  fold (apply_list (snd (@sample_runs ROps vp x y k l2)) (apply_list (@sample_list ROps vp x y k [Gr true run wrap_attrs]) s1)).
  fold (apply_list (snd (@sample_runs ROps vp x y k l2)) (apply_list (@sample_list ROps vp x y k run) s1)).
  apply apply_list_peq; try assumption.
  - apply apply_list_Inv; assumption.
  - apply apply_list_Inv; assumption.
  - assert (E : @sample_list ROps vp x y k [Gr true run wrap_attrs] = @sample_layer ROps vp x y k (Gr true run wrap_attrs) []).
    { unfold sample_list. cbn [sample_runs]. cbn [attrs_of at_clip wrap_attrs]. rewrite app_nil_r. reflexivity. }
    rewrite E. apply wrap_core; assumption.
Qed.
