(* Whole-plane sampling of a document: every layer is a function on the whole plane (colour 1 / shape 0
   outside its box, mask = its background outside the mask's box); no viewports, no bounding boxes of groups,
   no early exits.  This is the setting of the PDF group-compositing recurrences.  Definitions only;
   generic in the scalar structure. *)
From Coq Require Import ZArith List Bool.
From PsdV Require Import Composite.Scalar Composite.Model Composite.Geometry Composite.Doc.
Import ListNotations.
Open Scope Z_scope.

Section Plane.
Context {O : Ops}.
Notation F := (F O).

(* the value at the absolute pixel (x, y) of an array that covers the box bb, [bg] elsewhere *)
Definition abs_at {A : Type} (bb : rect) (values : Z -> Z -> A) (bg : A) (x y : Z) : A :=
  let '(bl, bt, _, _) := bb in if inside bb x y then values (y - bt) (x - bl) else bg.

Definition factors_plane (x y : Z) (at_ : attrs) : factors O :=
  let md :=
    match at_mask at_ with
    | Some mk =>
        if mk_disabled mk then (f1, f1)
        else
          let w := rwidth (mk_rect mk) in
          let m := match mk_data mk with
                   | [] => f1
                   | _ => abs_at (mk_rect mk) (plane_at (at_den at_) (mk_data mk) w) (byte (mk_bg mk)) x y
                   end in
          (m, match mk_density mk with None => f1 | Some d => byte d end)
    | None => (f1, f1)
    end in
  mkFactors (fst md) (snd md) (byte (at_fill at_)) (byte (at_op at_)).

Fixpoint plane_layer (x y : Z) (k : nat) (L : layer) (clips : list (elem O)) {struct L} : list (elem O) :=
  let at_ := attrs_of L in
  if negb (at_vis at_) then [] else
  let fa := factors_plane x y at_ in
  let B := blend_fn (at_bm at_) in
  match L with
  | Px rc chans alpha _ =>
      let w := rwidth rc in
      [Leaf (abs_at rc (plane_at (at_den at_) (nth k chans []) w) f1 x y) (abs_at rc (plane_at (at_den at_) alpha w) f0 x y)
            fa B (at_ko at_) clips]
  | Gr pass ch _ =>
      let fix go (ls : list layer) : list (elem O) * list (elem O) :=
        match ls with
        | [] => ([], [])
        | l :: tl =>
            let '(pend, res) := go tl in
            if at_clip (attrs_of l) then (plane_layer x y k l [] ++ pend, res)
            else ([], plane_layer x y k l pend ++ res)
        end in
      let '(pend, res) := go ch in
      [Group (negb pass) (pend ++ res) fa B (at_ko at_) clips]
  end.

Fixpoint plane_runs (x y : Z) (k : nat) (ls : list layer) : list (elem O) * list (elem O) :=
  match ls with
  | [] => ([], [])
  | l :: tl =>
      let '(pend, res) := plane_runs x y k tl in
      if at_clip (attrs_of l) then (plane_layer x y k l [] ++ pend, res)
      else ([], plane_layer x y k l pend ++ res)
  end.

Definition plane_list (x y : Z) (k : nat) (ls : list layer) : list (elem O) :=
  let '(pend, res) := plane_runs x y k ls in pend ++ res.

Definition composite_plane (cb ab : F) (ls : list layer) (x y : Z) (k : nat) : F * F * F :=
  composite_px false cb ab (plane_list x y k ls).

End Plane.
