(* The published compositing model, stated independently of the code's structure.
   PDF 32000-1:2008 (PDF 1.7), 11.3.3 basic compositing formula, 11.4.8 summary of group compositing
   computations; Porter & Duff 1984 "over" on premultiplied colour.  Reals; definitions only. *)
From Coq Require Import Reals List.
Import ListNotations.
Open Scope R_scope.

(* 11.3.6:  Union(b, s) = 1 - (1 - b)(1 - s) *)
Definition Union (b s : R) : R := 1 - (1 - b) * (1 - s).

(* 11.3.3:  alpha_r = Union(alpha_b, alpha_s)
            C_r = (1 - alpha_s/alpha_r) C_b + (alpha_s/alpha_r) [ (1 - alpha_b) C_s + alpha_b B(C_b, C_s) ] *)
Definition pdf_alpha (ab als : R) : R := Union ab als.
Definition pdf_color (B : R -> R -> R) (Cb ab Cs als : R) : R :=
  let ar := pdf_alpha ab als in
  (1 - als / ar) * Cb + (als / ar) * ((1 - ab) * Cs + ab * B Cb Cs).

(* the same formula multiplied through by alpha_r (no division) *)
Definition pdf_premult (B : R -> R -> R) (Cb ab Cs als : R) : R :=
  (1 - als) * (ab * Cb) + als * ((1 - ab) * Cs + ab * B Cb Cs).

(* 11.4.8: group alpha after elements with alphas l (no knockout):  1 - prod (1 - alpha_i) *)
Fixpoint prod_compl (l : list R) : R := match l with [] => 1 | x :: t => (1 - x) * prod_compl t end.
Definition group_alpha (l : list R) : R := 1 - prod_compl l.

(* 11.4.8: result colour of a non-isolated group, backdrop removed:
     C = C_n + (C_n - C_0) (alpha_0 / alpha_g_n - alpha_0) *)
Definition pdf_removal (Cn C0 a0 agn : R) : R := Cn + (Cn - C0) * (a0 / agn - a0).

(* Porter-Duff "A over B" on premultiplied pairs (colour*alpha, alpha) *)
Definition pd_over (src dst : R * R) : R * R :=
  let '(ps, als) := src in let '(pd, ad) := dst in (ps + (1 - als) * pd, als + (1 - als) * ad).

(* a stack of (colour, alpha) layers, bottom first, painted over the transparent plane *)
Definition pd_stack (l : list (R * R)) : R * R :=
  fold_left (fun dst s => pd_over (snd s * fst s, snd s) dst) l (0, 0).

(* pass-through group at opacity q: linear interpolation, in premultiplied space, between the parent's
   state before the group and the state after painting the children directly onto the parent *)
Definition lerp (q x0 x1 : R) : R := (1 - q) * x0 + q * x1.
