(* Per-pixel, per-channel model of psd_tools.composite.Compositor  (definitions only).

   One pixel position and one colour channel are fixed; every NumPy array of the code is then a scalar.
   [state]         = (_color_0, _alpha_0, _shape_g, _alpha_g, _color, _alpha) of a Compositor
   [apply_source]  = Compositor._apply_source   (normal path and knockout path, _divide, _clip)
   [finish]        = Compositor.finish / the `color` property (backdrop removal)
   [elem]          = what one layer contributes at this pixel after sampling (Doc.v does the sampling):
                     a leaf (pixel layer) or a group of elements, each with its mask x density x fill-opacity
                     x opacity factors, blend function, knockout flag and its clipping layers
   [apply_elem]    = Compositor.apply  (after the filter / viewport tests, which live in Doc.v),
                     _get_object / _get_group (recursion through `composite`), _apply_clip_layers.
   Generic over [Ops]; blend functions of the elements are arbitrary functions F -> F -> F. *)
From Coq Require Import ZArith List Bool.
From PsdV Require Import Composite.Scalar.
Import ListNotations.

Section Kernel.
Context {O : Ops}.
Notation F := (F O).

Definition f0 : F := fofZ O 0.
Definition f1 : F := fofZ O 1.
Infix "+." := (fadd O) (at level 50, left associativity).
Infix "-." := (fsub O) (at level 50, left associativity).
Infix "*." := (fmul O) (at level 40, left associativity).

Definition is_zero (x : F) : bool := fleb O x f0 && fleb O f0 x.

(* composite._union *)
Definition union (b s : F) : F := b +. s -. b *. s.
(* composite._divide : a / b with every non-finite quotient (b = 0) replaced by 1 *)
Definition divs (a b : F) : F := if is_zero b then f1 else fdiv O a b.
(* composite._clip *)
Definition clip (x : F) : F := if fleb O x f0 then f0 else if fleb O f1 x then f1 else x.

Record state := mkState { c0 : F; a0 : F; sg : F; ag : F; c : F; a : F }.

(* Compositor.__init__ : an isolated group starts from alpha_0 = 0 (colour_0 is kept) *)
Definition init (isolated : bool) (cb ab : F) : state :=
  let a_ := if isolated then f0 else ab in
  mkState cb a_ f0 f0 cb a_.

(* Compositor._apply_source(color, shape, alpha, blend_mode, knockout) *)
Definition apply_source (st : state) (cs fs als : F) (B : F -> F -> F) (ko : bool) : state :=
  let sg' := union (sg st) fs in
  let ag' := if ko then (f1 -. fs) *. ag st +. (fs -. als) *. a0 st +. als
             else union (ag st) als in
  let a_prev := a st in
  let a' := union (a0 st) ag' in
  let ab := if ko then a0 st else a_prev in
  let cb := if ko then c0 st else c st in
  let ct := (fs -. als) *. ab *. cb +. als *. ((f1 -. ab) *. cs +. ab *. B cb cs) in
  let c' := clip (divs ((f1 -. fs) *. a_prev *. c st +. ct) a') in
  mkState (c0 st) (a0 st) sg' ag' c' a'.

(* the `color` property: removal of the backdrop contribution *)
Definition finish_color (st : state) : F :=
  clip (c st +. (c st -. c0 st) *. (divs (a0 st) (ag st) -. a0 st)).

(* Compositor.finish() = (color, shape, alpha) *)
Definition finish (st : state) : F * F * F := (finish_color st, sg st, ag st).

(* mask shape, mask density, fill opacity, opacity  (each already divided by 255) *)
Record factors := mkFactors { fm : F; fd : F; fk : F; fq : F }.

Inductive elem :=
| Leaf (cs f : F) (fa : factors) (B : F -> F -> F) (ko : bool) (clips : list elem)
| Group (isolated : bool) (children : list elem) (fa : factors) (B : F -> F -> F) (ko : bool) (clips : list elem).

(* Compositor.apply from `shape *= shape_mask` on *)
Definition apply_factors (st : state) (col sh al : F) (fa : factors) (B : F -> F -> F) (ko : bool) : state :=
  let sh1 := sh *. fm fa in
  let al1 := al *. (fm fa *. fd fa *. fq fa) in
  apply_source st col (sh1 *. fk fa) (al1 *. fk fa) B ko.

Fixpoint apply_elem (e : elem) (st : state) {struct e} : state :=
  match e with
  | Leaf cs f fa B ko clips =>
      (* _get_object: colour, shape; alpha = shape; then _apply_clip_layers (backdrop = the object itself) *)
      let col := c (fold_left (fun s e' => apply_elem e' s) clips (init false cs f)) in
      apply_factors st col f f fa B ko
  | Group iso ch fa B ko clips =>
      (* _get_group: the children are composited by a fresh Compositor whose backdrop is the current
         (or, for knockout, the initial) colour/alpha of this one *)
      let cb := if ko then c0 st else c st in
      let ab := if ko then a0 st else a st in
      let g := fold_left (fun s e' => apply_elem e' s) ch (init iso cb ab) in
      let '(col, sh, al) := finish g in
      let col' := c (fold_left (fun s e' => apply_elem e' s) clips (init false col al)) in
      apply_factors st col' sh al fa B ko
  end.

Definition apply_list (l : list elem) (st : state) : state :=
  fold_left (fun s e => apply_elem e s) l st.

(* composite(group, color, alpha) at this pixel *)
Definition composite_px (isolated : bool) (cb ab : F) (l : list elem) : F * F * F :=
  finish (apply_list l (init isolated cb ab)).

(* ------------------------------------------------------------------ the blend functions modelled here *)
Definition fmin (x y : F) : F := if fleb O x y then x else y.
Definition fmax (x y : F) : F := if fleb O x y then y else x.
Definition f2 : F := fofZ O 2.

Inductive blend := BNormal | BMultiply | BScreen | BDarken | BLighten | BDifference | BExclusion
                 | BLinearDodge | BLinearBurn | BSubtract | BOverlay | BHardLight.

Definition hard_light (cb cs : F) : F :=
  (* blend.hard_light: index = Cs > 0.5 ; multiply(Cb, 2Cs) else screen(Cb, 2Cs-1) *)
  if fleb O (f2 *. cs) f1 then cb *. (f2 *. cs)
  else let s := f2 *. cs -. f1 in cb +. s -. cb *. s.

Definition blend_fn (b : blend) (cb cs : F) : F :=
  match b with
  | BNormal => cs
  | BMultiply => cb *. cs
  | BScreen => cb +. cs -. cb *. cs
  | BDarken => fmin cb cs
  | BLighten => fmax cb cs
  | BDifference => if fleb O cs cb then cb -. cs else cs -. cb
  | BExclusion => cb +. cs -. f2 *. cb *. cs
  | BLinearDodge => fmin f1 (cb +. cs)
  | BLinearBurn => fmax f0 (cb +. cs -. f1)
  | BSubtract => fmax f0 (cb -. cs)
  | BOverlay => hard_light cs cb
  | BHardLight => hard_light cb cs
  end.

End Kernel.

Arguments state : clear implicits.
Arguments elem : clear implicits.
Arguments factors : clear implicits.
