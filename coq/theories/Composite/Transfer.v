(* The model is generic in the scalar structure.  This file proves that a map h between two instances that
   commutes with the primitive operations commutes with the whole model (kernel AND document sampling), and
   that Q2R is such a map from the rational instance (the one executed by vm_compute in the correspondence
   check) to the real instance (the one the theorems are about). *)
From Coq Require Import ZArith QArith Qreduction Qreals Reals Lra List Bool.
From PsdV Require Import Composite.Scalar Composite.Model Composite.Geometry Composite.Doc.
Import ListNotations.

Section Hom.
Variables (A B : Ops) (h : F A -> F B).

Record ops_hom : Prop := {
  h_ofZ : forall z, h (fofZ A z) = fofZ B z;
  h_add : forall x y, h (fadd A x y) = fadd B (h x) (h y);
  h_sub : forall x y, h (fsub A x y) = fsub B (h x) (h y);
  h_mul : forall x y, h (fmul A x y) = fmul B (h x) (h y);
  h_leb : forall x y, fleb A x y = fleb B (h x) (h y);
  h_div : forall x y, @is_zero A y = false -> h (fdiv A x y) = fdiv B (h x) (h y)
}.

Hypothesis H : ops_hom.

Lemma h_f0 : h (@f0 A) = @f0 B. Proof. apply (h_ofZ H). Qed.
Lemma h_f1 : h (@f1 A) = @f1 B. Proof. apply (h_ofZ H). Qed.
Lemma h_f2 : h (@f2 A) = @f2 B. Proof. apply (h_ofZ H). Qed.

Lemma h_is_zero x : @is_zero A x = @is_zero B (h x).
Proof. unfold is_zero. rewrite !(h_leb H), h_f0. reflexivity. Qed.

Lemma h_union x y : h (@union A x y) = @union B (h x) (h y).
Proof. unfold union. rewrite (h_sub H), (h_add H), (h_mul H). reflexivity. Qed.

Lemma h_divs x y : h (@divs A x y) = @divs B (h x) (h y).
Proof.
  unfold divs. rewrite <- h_is_zero. destruct (@is_zero A y) eqn:E; [apply h_f1 | apply (h_div H); exact E].
Qed.

Lemma h_clip x : h (@clip A x) = @clip B (h x).
Proof.
  unfold clip. rewrite <- h_f0, <- h_f1, <- !(h_leb H).
  destruct (fleb A x f0); [reflexivity|]. destruct (fleb A f1 x); reflexivity.
Qed.

Definition hstate (s : state A) : state B :=
  mkState (h (c0 s)) (h (a0 s)) (h (sg s)) (h (ag s)) (h (c s)) (h (a s)).

Definition Brel (f : F A -> F A -> F A) (g : F B -> F B -> F B) : Prop :=
  forall x y, h (f x y) = g (h x) (h y).

Lemma h_init iso cb ab : hstate (init iso cb ab) = init iso (h cb) (h ab).
Proof. unfold init, hstate. cbn. destruct iso; rewrite ?h_f0; reflexivity. Qed.

Lemma h_apply_source s cs fs als f g ko : Brel f g ->
  hstate (apply_source s cs fs als f ko) = apply_source (hstate s) (h cs) (h fs) (h als) g ko.
Proof.
  intros HB. unfold apply_source, hstate. cbn [c0 a0 sg ag c a].
  f_equal.
  - apply h_union.
  - destruct ko; [|apply h_union].
    rewrite !(h_add H), !(h_mul H), !(h_sub H), h_f1. reflexivity.
  - rewrite h_clip, h_divs. f_equal. f_equal.
    + destruct ko; rewrite !(h_add H), !(h_mul H), !(h_sub H), ?(h_add H), ?(h_mul H), ?(h_sub H), ?h_f1, ?HB; reflexivity.
    + rewrite h_union. f_equal. destruct ko; [|apply h_union].
      rewrite !(h_add H), !(h_mul H), !(h_sub H), h_f1. reflexivity.
  - rewrite h_union. f_equal. destruct ko; [|apply h_union].
    rewrite !(h_add H), !(h_mul H), !(h_sub H), h_f1. reflexivity.
Qed.

Lemma h_finish_color s : h (finish_color s) = finish_color (hstate s).
Proof.
  unfold finish_color, hstate. cbn [c0 a0 sg ag c a].
  rewrite h_clip, (h_add H), (h_mul H), !(h_sub H), h_divs. reflexivity.
Qed.

Definition hfactors (fa : factors A) : factors B := mkFactors (h (fm fa)) (h (fd fa)) (h (fk fa)) (h (fq fa)).

Lemma h_apply_factors s col sh al fa f g ko : Brel f g ->
  hstate (apply_factors s col sh al fa f ko) = apply_factors (hstate s) (h col) (h sh) (h al) (hfactors fa) g ko.
Proof.
  intros HB. unfold apply_factors. rewrite (h_apply_source _ _ _ _ f g ko HB).
  unfold hfactors. cbn [fm fd fk fq]. rewrite !(h_mul H). reflexivity.
Qed.

(* relation between element trees of the two instances *)
Fixpoint erel (e : elem A) (e' : elem B) {struct e} : Prop :=
  match e, e' with
  | Leaf cs f fa Bf ko cl, Leaf cs' f' fa' Bf' ko' cl' =>
      h cs = cs' /\ h f = f' /\ hfactors fa = fa' /\ Brel Bf Bf' /\ ko = ko' /\
      (fix lrel (l : list (elem A)) (l' : list (elem B)) : Prop :=
         match l, l' with
         | [], [] => True
         | x :: t, x' :: t' => erel x x' /\ lrel t t'
         | _, _ => False
         end) cl cl'
  | Group iso ch fa Bf ko cl, Group iso' ch' fa' Bf' ko' cl' =>
      iso = iso' /\ hfactors fa = fa' /\ Brel Bf Bf' /\ ko = ko' /\
      (fix lrel (l : list (elem A)) (l' : list (elem B)) : Prop :=
         match l, l' with
         | [], [] => True
         | x :: t, x' :: t' => erel x x' /\ lrel t t'
         | _, _ => False
         end) ch ch' /\
      (fix lrel (l : list (elem A)) (l' : list (elem B)) : Prop :=
         match l, l' with
         | [], [] => True
         | x :: t, x' :: t' => erel x x' /\ lrel t t'
         | _, _ => False
         end) cl cl'
  | _, _ => False
  end.

Fixpoint lrel (l : list (elem A)) (l' : list (elem B)) : Prop :=
  match l, l' with
  | [], [] => True
  | x :: t, x' :: t' => erel x x' /\ lrel t t'
  | _, _ => False
  end.

Lemma lrel_app l1 l1' l2 l2' : lrel l1 l1' -> lrel l2 l2' -> lrel (l1 ++ l2) (l1' ++ l2').
Proof.
  revert l1'. induction l1 as [|x t IH]; intros [|x' t'] H1 H2; cbn in *; try contradiction; auto.
  destruct H1. split; auto.
Qed.

Section ElemIndA.
  Variable P : elem A -> Prop.
  Hypothesis HL : forall cs f fa Bf ko clips, Forall P clips -> P (Leaf cs f fa Bf ko clips).
  Hypothesis HG : forall iso ch fa Bf ko clips, Forall P ch -> Forall P clips -> P (Group iso ch fa Bf ko clips).
  Fixpoint elemA_ind (e : elem A) : P e :=
    let fix all (l : list (elem A)) : Forall P l :=
      match l with [] => Forall_nil P | x :: t => Forall_cons x (elemA_ind x) (all t) end in
    match e with
    | Leaf cs f fa Bf ko clips => HL cs f fa Bf ko clips (all clips)
    | Group iso ch fa Bf ko clips => HG iso ch fa Bf ko clips (all ch) (all clips)
    end.
End ElemIndA.

Definition commutes (e : elem A) : Prop :=
  forall e' s, erel e e' -> hstate (apply_elem e s) = apply_elem e' (hstate s).

Lemma fold_commutes (l : list (elem A)) : Forall commutes l ->
  forall l' s, lrel l l' ->
  hstate (fold_left (fun s0 e0 => apply_elem e0 s0) l s) = fold_left (fun s0 e0 => apply_elem e0 s0) l' (hstate s).
Proof.
  induction 1 as [|x t Hx Ht IH]; intros [|x' t'] s R; cbn in *; try contradiction; [reflexivity|].
  destruct R as [R1 R2]. rewrite (IH t' _ R2). rewrite (Hx x' s R1). reflexivity.
Qed.

Theorem apply_elem_commutes (e : elem A) : commutes e.
Proof.
  induction e as [cs f fa Bf ko cl IHc | iso ch fa Bf ko cl IHch IHc] using elemA_ind;
    intros e' s R; destruct e' as [cs' f' fa' Bf' ko' cl' | iso' ch' fa' Bf' ko' cl']; cbn [erel] in R; try contradiction.
  - destruct R as (<- & <- & <- & HB & <- & Rc). fold lrel in Rc.
    cbn [apply_elem].
    rewrite (h_apply_factors _ _ _ _ _ Bf Bf' ko HB). f_equal.
    pose proof (fold_commutes cl IHc cl' (init false cs f) Rc) as E.
    rewrite h_init in E. rewrite <- E. reflexivity.
  - destruct R as (<- & <- & HB & <- & Rch & Rc). fold lrel in Rch, Rc.
    cbn [apply_elem]. unfold finish.
    set (cb := if ko then c0 s else c s). set (ab := if ko then a0 s else a s).
    pose proof (fold_commutes ch IHch ch' (init iso cb ab) Rch) as Eg. rewrite h_init in Eg.
    assert (Ecb : h cb = (if ko then c0 (hstate s) else c (hstate s))) by (unfold cb; destruct ko; reflexivity).
    assert (Eab : h ab = (if ko then a0 (hstate s) else a (hstate s))) by (unfold ab; destruct ko; reflexivity).
    rewrite Ecb, Eab in Eg.
    set (g := fold_left (fun s0 e0 => apply_elem e0 s0) ch (init iso cb ab)) in *.
    rewrite <- Eg.
    rewrite (h_apply_factors _ _ _ _ _ Bf Bf' ko HB).
    pose proof (fold_commutes cl IHc cl' (init false (finish_color g) (ag g)) Rc) as E.
    rewrite h_init, h_finish_color in E.
    change (ag (hstate g)) with (h (ag g)). change (sg (hstate g)) with (h (sg g)).
    rewrite <- E. reflexivity.
Qed.

Theorem apply_list_commutes (l : list (elem A)) l' s : lrel l l' ->
  hstate (apply_list l s) = apply_list l' (hstate s).
Proof.
  intros R. unfold apply_list. apply fold_commutes; [|exact R].
  rewrite Forall_forall. intros x _. apply apply_elem_commutes.
Qed.

Theorem composite_px_commutes iso cb ab (l : list (elem A)) l' : lrel l l' ->
  let '(C, f, al) := composite_px iso cb ab l in
  composite_px iso (h cb) (h ab) l' = (h C, h f, h al).
Proof.
  intros R. unfold composite_px, finish.
  rewrite <- h_init, <- (apply_list_commutes l l' _ R), <- h_finish_color. reflexivity.
Qed.

(* ---- the blend functions and the document sampling commute as well *)
Lemma h_fmin x y : h (@fmin A x y) = @fmin B (h x) (h y).
Proof. unfold fmin. rewrite <- (h_leb H). destruct (fleb A x y); reflexivity. Qed.
Lemma h_fmax x y : h (@fmax A x y) = @fmax B (h x) (h y).
Proof. unfold fmax. rewrite <- (h_leb H). destruct (fleb A x y); reflexivity. Qed.

Lemma h_hard_light x y : h (@hard_light A x y) = @hard_light B (h x) (h y).
Proof.
  unfold hard_light. rewrite <- h_f2, <- h_f1, <- !(h_mul H), <- (h_leb H).
  destruct (fleb A (fmul A f2 y) f1).
  - rewrite (h_mul H). reflexivity.
  - rewrite (h_sub H), (h_add H), (h_mul H), !(h_sub H). reflexivity.
Qed.

Lemma blend_fn_rel (b : blend) : Brel (@blend_fn A b) (@blend_fn B b).
Proof.
  intros x y. destruct b; cbn [blend_fn];
    rewrite ?h_fmin, ?h_fmax, ?h_hard_light, ?(h_sub H), ?(h_add H), ?(h_mul H), ?(h_sub H), ?(h_add H), ?(h_mul H),
            ?h_f0, ?h_f1, ?h_f2; try reflexivity.
  rewrite <- (h_leb H). destruct (fleb A y x); rewrite (h_sub H); reflexivity.
Qed.

Hypothesis nzpos : forall p : positive, @is_zero A (fofZ A (Zpos p)) = false.

Lemma h_byte z : h (@byte A z) = @byte B z.
Proof. unfold byte. rewrite (h_div H) by apply nzpos. rewrite !(h_ofZ H). reflexivity. Qed.

Lemma h_pval den z : h (@pval A den z) = @pval B den z.
Proof. unfold pval. rewrite (h_div H) by apply nzpos. rewrite !(h_ofZ H). reflexivity. Qed.

Lemma h_plane_at den data w i j : h (@plane_at A den data w i j) = @plane_at B den data w i j.
Proof. unfold plane_at. apply h_pval. Qed.

Lemma h_paste vp bb (vals : Z -> Z -> F A) bg i j :
  h (paste vp bb vals bg i j) = paste vp bb (fun i j => h (vals i j)) (h bg) i j.
Proof.
  unfold paste. destruct (is_zero_rect (intersect vp bb)); [reflexivity|].
  destruct (intersect vp bb) as [[[i0 i1] i2] i3], vp as [[[vl vt] vr] vb], bb as [[[bl bt] br] bb_].
  match goal with |- context [if ?c then _ else _] => destruct c end; reflexivity.
Qed.

Lemma paste_ext {T} vp bb (v1 v2 : Z -> Z -> T) bg i j :
  (forall i j, v1 i j = v2 i j) -> paste vp bb v1 bg i j = paste vp bb v2 bg i j.
Proof.
  intros E. unfold paste. destruct (is_zero_rect (intersect vp bb)); [reflexivity|].
  destruct (intersect vp bb) as [[[i0 i1] i2] i3], vp as [[[vl vt] vr] vb], bb as [[[bl bt] br] bb_].
  match goal with |- context [if ?c then _ else _] => destruct c end; [apply E | reflexivity].
Qed.

Lemma h_factors_at vp x y at_ : hfactors (@factors_at A vp x y at_) = @factors_at B vp x y at_.
Proof.
  unfold factors_at, hfactors. destruct vp as [[[vl vt] vr] vb]. cbn [fm fd fk fq].
  rewrite !h_byte.
  destruct (at_mask at_) as [mk|]; cbn [fst snd]; [|rewrite h_f1; reflexivity].
  destruct (mk_disabled mk); cbn [fst snd]; [rewrite h_f1; reflexivity|].
  f_equal.
  - destruct (mk_data mk) eqn:E; [apply h_f1|]. rewrite h_paste, h_byte. apply paste_ext. intros. apply h_plane_at.
  - destruct (mk_density mk); [apply h_byte | apply h_f1].
Qed.

Section LayerInd.
  Variable P : layer -> Prop.
  Hypothesis HP : forall rc chans alpha at_, P (Px rc chans alpha at_).
  Hypothesis HG : forall pass ch at_, Forall P ch -> P (Gr pass ch at_).
  Fixpoint layer_ind2 (l : layer) : P l :=
    match l with
    | Px rc chans alpha at_ => HP rc chans alpha at_
    | Gr pass ch at_ =>
        HG pass ch at_ ((fix all (ls : list layer) : Forall P ls :=
                           match ls with [] => Forall_nil P | x :: t => Forall_cons x (layer_ind2 x) (all t) end) ch)
    end.
End LayerInd.

Definition sample_rel (L : layer) : Prop :=
  forall vp x y k cl cl', lrel cl cl' -> lrel (@sample_layer A vp x y k L cl) (@sample_layer B vp x y k L cl').

Lemma runs_rel vp x y k (ls : list layer) : Forall sample_rel ls ->
  lrel (fst (@sample_runs A vp x y k ls)) (fst (@sample_runs B vp x y k ls)) /\
  lrel (snd (@sample_runs A vp x y k ls)) (snd (@sample_runs B vp x y k ls)).
Proof.
  induction 1 as [|L ls HL Hls IH]; cbn [sample_runs]; [split; exact I|].
  destruct (@sample_runs A vp x y k ls) as [pa ra], (@sample_runs B vp x y k ls) as [pb rb].
  cbn [fst snd] in IH. destruct IH as [IH1 IH2].
  destruct (at_clip (attrs_of L)); cbn [fst snd].
  - split; [|assumption]. apply lrel_app; [apply HL; exact I | assumption].
  - split; [exact I|]. apply lrel_app; [apply HL; assumption | assumption].
Qed.

Lemma group_runs_eq (O : Ops) vp x y k (ch : list layer) :
  (fix go (ls : list layer) : list (elem O) * list (elem O) :=
     match ls with
     | [] => ([], [])
     | l :: tl =>
         let '(pend, res) := go tl in
         if at_clip (attrs_of l) then (sample_layer vp x y k l [] ++ pend, res)
         else ([], sample_layer vp x y k l pend ++ res)
     end) ch = @sample_runs O vp x y k ch.
Proof. induction ch as [|l tl IH]; [reflexivity|]. cbn [sample_runs]. rewrite IH. reflexivity. Qed.

Theorem sample_layer_rel (L : layer) : sample_rel L.
Proof.
  induction L as [rc chans alpha at_ | pass ch at_ IH] using layer_ind2; intros vp x y k cl cl' Rc.
  - cbn [sample_layer attrs_of bbox_of].
    destruct (negb (at_vis at_)); [exact I|].
    destruct (is_zero_rect (intersect vp rc)); [exact I|].
    destruct vp as [[[vl vt] vr] vb]. cbn [lrel erel]. fold lrel. split; [|exact I].
    repeat split.
    + rewrite h_paste, h_f1. apply paste_ext. intros. apply h_plane_at.
    + rewrite h_paste, h_f0. apply paste_ext. intros. apply h_plane_at.
    + apply h_factors_at.
    + apply blend_fn_rel.
    + exact Rc.
  - cbn [sample_layer attrs_of].
    destruct (negb (at_vis at_)); [exact I|].
    destruct (is_zero_rect (intersect vp (bbox_of (Gr pass ch at_)))); [exact I|].
    destruct vp as [[[vl vt] vr] vb].
    destruct (inside (intersect (vl, vt, vr, vb) (bbox_of (Gr pass ch at_))) x y).
    + rewrite !group_runs_eq.
      destruct (runs_rel (intersect (vl, vt, vr, vb) (bbox_of (Gr pass ch at_))) x y k ch IH) as [R1 R2].
      destruct (@sample_runs A (intersect (vl, vt, vr, vb) (bbox_of (Gr pass ch at_))) x y k ch) as [pa ra],
               (@sample_runs B (intersect (vl, vt, vr, vb) (bbox_of (Gr pass ch at_))) x y k ch) as [pb rb].
      cbn [fst snd] in R1, R2. cbn [lrel erel]. fold lrel. split; [|exact I].
      repeat split.
      * apply h_factors_at.
      * apply blend_fn_rel.
      * apply lrel_app; assumption.
      * exact Rc.
    + cbn [lrel erel]. fold lrel. split; [|exact I].
      repeat split; try apply h_f1; try apply h_f0; try apply h_factors_at; try apply blend_fn_rel; exact Rc.
Qed.

Theorem sample_list_rel vp x y k (ls : list layer) :
  lrel (@sample_list A vp x y k ls) (@sample_list B vp x y k ls).
Proof.
  unfold sample_list.
  assert (Hall : Forall sample_rel ls) by (rewrite Forall_forall; intros L _; apply sample_layer_rel).
  destruct (runs_rel vp x y k ls Hall) as [R1 R2].
  destruct (@sample_runs A vp x y k ls), (@sample_runs B vp x y k ls). apply lrel_app; assumption.
Qed.

(* Theorem: the whole document model commutes with h *)
Theorem composite_doc_commutes vp cb ab ls x y k :
  let '(C, f, al) := @composite_doc A vp cb ab ls x y k in
  @composite_doc B vp (h cb) (h ab) ls x y k = (h C, h f, h al).
Proof.
  unfold composite_doc. apply composite_px_commutes. apply sample_list_rel.
Qed.

End Hom.

(* ------------------------------------------------------------------ Q2R is such a map *)
Open Scope R_scope.

Lemma Q2R_red q : Q2R (Qred q) = Q2R q.
Proof. apply Qeq_eqR. apply Qred_correct. Qed.

Lemma Qle_bool_Rleb x y : Qle_bool x y = Rleb (Q2R x) (Q2R y).
Proof.
  destruct (Qle_bool x y) eqn:E.
  - symmetry. apply Rleb_true. apply Qle_Rle. apply Qle_bool_iff. exact E.
  - symmetry. apply Rleb_false. apply Rnot_le_lt. intros Hle. apply Rle_Qle in Hle.
    apply Qle_bool_iff in Hle. congruence.
Qed.

Lemma Q2R_inject_Z z : Q2R (inject_Z z) = IZR z.
Proof. unfold Q2R, inject_Z. cbn. rewrite Rinv_1. ring. Qed.

Theorem Q2R_hom : ops_hom QOps ROps Q2R.
Proof.
  constructor.
  - intros z. change (Q2R (inject_Z z) = IZR z). apply Q2R_inject_Z.
  - intros x y. change (Q2R (Qred (Qplus x y)) = Q2R x + Q2R y). rewrite Q2R_red. apply Q2R_plus.
  - intros x y. change (Q2R (Qred (Qminus x y)) = Q2R x - Q2R y). rewrite Q2R_red. apply Q2R_minus.
  - intros x y. change (Q2R (Qred (Qmult x y)) = Q2R x * Q2R y). rewrite Q2R_red. apply Q2R_mult.
  - intros x y. change (Qle_bool x y = Rleb (Q2R x) (Q2R y)). apply Qle_bool_Rleb.
  - intros x y Hz. change (Q2R (Qred (Qdiv x y)) = Q2R x / Q2R y). rewrite Q2R_red. apply Q2R_div.
    intros E. unfold is_zero in Hz. change (Qle_bool y (inject_Z 0) && Qle_bool (inject_Z 0) y = false) in Hz.
    assert (H1 : Qle_bool y (inject_Z 0) = true) by (apply Qle_bool_iff; rewrite E; apply Qle_refl).
    assert (H2 : Qle_bool (inject_Z 0) y = true) by (apply Qle_bool_iff; rewrite E; apply Qle_refl).
    rewrite H1, H2 in Hz. discriminate Hz.
Qed.

Lemma nzpos_Q (p : positive) : @is_zero QOps (fofZ QOps (Zpos p)) = false.
Proof.
  unfold is_zero. change (Qle_bool (inject_Z (Zpos p)) (inject_Z 0) && Qle_bool (inject_Z 0) (inject_Z (Zpos p)) = false).
  assert (E : Qle_bool (inject_Z (Zpos p)) (inject_Z 0) = false).
  { destruct (Qle_bool (inject_Z (Zpos p)) (inject_Z 0)) eqn:E; [|reflexivity].
    apply Qle_bool_iff in E. rewrite <- Zle_Qle in E. exfalso. apply E. reflexivity. }
  rewrite E. reflexivity.
Qed.

(* Theorem: what vm_compute evaluates over Q is, through Q2R, exactly the real-number model *)
Theorem model_Q_is_model_R vp (cb ab : Q) ls x y k :
  let '(C, f, al) := @composite_doc QOps vp cb ab ls x y k in
  @composite_doc ROps vp (Q2R cb) (Q2R ab) ls x y k = (Q2R C, Q2R f, Q2R al).
Proof. exact (composite_doc_commutes QOps ROps Q2R Q2R_hom nzpos_Q vp cb ab ls x y k). Qed.
