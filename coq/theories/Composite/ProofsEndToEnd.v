(* End to end: the document model (visibility filter, bounding boxes of groups, viewport intersection and early
   exits, paste with backgrounds, clip-run grouping, straight-colour arithmetic with _divide / _clip) computes,
   at every pixel of ANY viewport, the PDF 11.4.8 group recurrences evaluated on the whole plane. *)
From Coq Require Import ZArith Reals List Bool.
From PsdV Require Import Composite.Scalar Composite.Model Composite.Geometry Composite.Doc Composite.Plane
  Composite.Spec Composite.SpecEval Composite.ProofsKernel Composite.ProofsLaws Composite.ProofsDoc
  Composite.ProofsViewport Composite.ProofsPlane Composite.ProofsSpecEval.
Import ListNotations.
Open Scope R_scope.

Theorem viewport_model_eq_spec (ls : list layer) (vp : rect) (cb ab : R) (x y : Z) (k : nat) :
  Forall layer_ok ls -> unit cb -> unit ab -> inside vp x y = true ->
  let '(C, f, al) := @composite_doc ROps vp cb ab ls x y k in
  let '(P, f', al') := pdf_composite false cb ab (@plane_list ROps x y k ls) in
  f = f' /\ al = al' /\ al * C = P.
Proof.
  intros OK Hcb Hab Hin.
  pose proof (viewport_model_eq_plane ls vp cb ab x y k OK Hcb Hab Hin) as E1.
  pose proof (kernel_is_pdf false cb ab (@plane_list ROps x y k ls) (plane_list_wf ls x y k OK) Hcb Hab) as E2.
  unfold composite_plane, result_eq in *.
  destruct (@composite_doc ROps vp cb ab ls x y k) as [[C f] al].
  destruct (@composite_px ROps false cb ab (@plane_list ROps x y k ls)) as [[C1 f1] al1].
  destruct (pdf_composite false cb ab (@plane_list ROps x y k ls)) as [[P f2] al2].
  destruct E1 as (A1 & A2 & A3), E2 as (B1 & B2 & B3).
  repeat split; congruence.
Qed.
