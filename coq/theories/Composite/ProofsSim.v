(* Simulation between element lists that differ by NULL elements (dropped on either side, anywhere in the
   tree: top level, inside groups, inside clipping runs), in the two strengths of ProofsLawsNS.v:
     b = true  : null = shape 0 (a leaf with f = 0; a group of null elements) - sound for every tree;
     b = false : null = alpha 0 as well (opacity / density / fill-opacity / mask product 0, groups of such) -
                 sound for knockout-free trees, modulo the group shape. *)
From Coq Require Import Reals Lra Psatz List Bool.
From PsdV Require Import Composite.Scalar Composite.Model Composite.Spec Composite.ProofsKernel
  Composite.ProofsLaws Composite.ProofsLawsNS.
Import ListNotations.
Open Scope R_scope.

Definition fprod (fa : faR) : R := fm fa * fd fa * fq fa * fk fa.

Inductive nullb (b : bool) : elR -> Prop :=
| nb_shape cs fa B ko cl : nullb b (LeafR cs 0 fa B ko cl)
| nb_alpha cs f fa B ko cl : b = false -> fprod fa = 0 -> nullb b (LeafR cs f fa B ko cl)
| nb_group iso ch fa B ko cl : Forall (nullb b) ch -> nullb b (GroupR iso ch fa B ko cl)
| nb_group_alpha iso ch fa B ko cl : b = false -> fprod fa = 0 -> nullb b (GroupR iso ch fa B ko cl).

Lemma okb_children b iso ch fa B ko cl : okb b (GroupR iso ch fa B ko cl) -> Forall (okb b) ch /\ Forall (okb b) cl.
Proof.
  intros [-> | K].
  - split; apply Forall_forall; intros; left; reflexivity.
  - inversion K; subst. split; eapply Forall_impl; try eassumption; intros; right; assumption.
Qed.

Lemma okb_clips b cs f fa B ko cl : okb b (LeafR cs f fa B ko cl) -> Forall (okb b) cl.
Proof.
  intros [-> | K].
  - apply Forall_forall; intros; left; reflexivity.
  - inversion K; subst. eapply Forall_impl; try eassumption; intros; right; assumption.
Qed.

Lemma unit_mul3 x y z : unit x -> unit y -> unit z -> unit (x * y * z).
Proof. unfold unit. intros. assert (0 <= x * y <= 1) by (split; nra). split; nra. Qed.

Lemma fold_noop b (l : list elR) :
  Forall wf l ->
  Forall (fun e => forall s, Inv s -> rel b (apply_elem e s) s) l ->
  forall s, Inv s -> rel b (apply_list l s) s.
Proof.
  induction l as [|e l IH]; intros W H s I; cbn; [apply rel_refl|].
  inversion W; inversion H; subst.
  eapply rel_trans; [|match goal with Hx : forall s, Inv s -> rel b (apply_elem e s) s |- _ => apply Hx; exact I end].
  (* rel b (apply_list l (apply_elem e s)) (apply_elem e s) *)
  apply IH; try assumption. apply apply_elem_Inv; assumption.
Qed.

(* Theorem: a null element is a no-op *)
Theorem nullb_noop b (e : elR) : nullb b e -> wf e -> okb b e -> forall s, Inv s -> rel b (apply_elem e s) s.
Proof.
  induction e as [cs f fa B ko cl IHc | iso ch fa B ko cl IHch IHc] using elem_ind'; intros N W OK s I.
  - inversion N; subst.
    + apply peq_rel. apply leaf_null_noop. exact I.
    + (* alpha 0 by the factors *)
      pose proof (okb_ko _ _ OK eq_refl) as K. cbn in K. subst ko. cbn [rel].
      inversion W; subst. cbn [apply_elem]. unfold apply_factors. change (fmul ROps) with Rmult. toR.
      match goal with H : fprod fa = 0 |- _ => unfold fprod in H; rename H into P end.
      replace (f * (fm fa * fd fa * fq fa) * fk fa) with (f * (fm fa * fd fa * fq fa * fk fa)) by rring.
      rewrite P, Rmult_0_r.
      apply apply_source_alpha_null; [exact I|].
      match goal with H : fa_ok fa |- _ => destruct H as (Hm & Hd & Hk & Hq) end.
      apply unit_mul3; assumption.
  - inversion W; subst.
    destruct (okb_children _ _ _ _ _ _ _ OK) as [OKch OKcl].
    set (cb := if ko then c0 s else c s). set (ab := if ko then a0 s else a s).
    assert (Ub : unit cb /\ unit ab).
    { unfold cb, ab. destruct ko; split;
        [apply (inv_c0 _ I) | apply (inv_a0 _ I) | apply (inv_c _ I) | apply (Inv_a_unit _ I)]. }
    destruct Ub as [Ucb Uab].
    pose proof (init_Inv iso cb ab Ucb Uab) as I0.
    pose proof (apply_list_Inv ch ltac:(assumption) _ I0) as Ig.
    match goal with H : fa_ok fa |- _ => pose proof H as Hfa; destruct H as (Hm & Hd & Hk & Hq) end.
    cbn [apply_elem]. fold cb ab. fold (apply_list ch (@init ROps iso cb ab)).
    set (g := apply_list ch (@init ROps iso cb ab)) in *.
    unfold finish, apply_factors. change (fmul ROps) with Rmult. toR.
    inversion N; subst.
    + (* all children null: the group has alpha 0 (and shape 0 when b = true) *)
      assert (Eg : rel b g (@init ROps iso cb ab)).
      { apply fold_noop; try assumption.
        rewrite Forall_forall in *. intros x Hx s0 I0'. apply IHch; auto. }
      pose proof (rel_ns _ _ _ Eg) as [_ _ Eag _ _].
      assert (Zag : ag g = 0) by (rewrite Eag; destruct iso; reflexivity).
      rewrite Zag. replace (0 * (fm fa * fd fa * fq fa) * fk fa) with 0 by rring.
      destruct b.
      * destruct Eg as [_ _ Esg _ _ _].
        assert (Zsg : sg g = 0) by (rewrite Esg; destruct iso; reflexivity).
        rewrite Zsg. replace (0 * fm fa * fk fa) with 0 by rring.
        apply apply_source_null. exact I.
      * pose proof (okb_ko _ _ OK eq_refl) as K. cbn in K. subst ko. cbn [rel].
        apply apply_source_alpha_null; [exact I|]. apply unit_mul3; try assumption. apply (inv_sg _ Ig).
    + (* the group's own factors vanish *)
      pose proof (okb_ko _ _ OK eq_refl) as K. cbn in K. subst ko. cbn [rel].
      match goal with H : fprod fa = 0 |- _ => unfold fprod in H; rename H into P end.
      replace (ag g * (fm fa * fd fa * fq fa) * fk fa) with (ag g * (fm fa * fd fa * fq fa * fk fa)) by rring.
      rewrite P, Rmult_0_r.
      apply apply_source_alpha_null; [exact I|]. apply unit_mul3; try assumption. apply (inv_sg _ Ig).
Qed.

Inductive sim (b : bool) : list elR -> list elR -> Prop :=
| sim_nil : sim b [] []
| sim_dropR e l' l : nullb b e -> sim b l' l -> sim b l' (e :: l)
| sim_dropL e l' l : nullb b e -> sim b l' l -> sim b (e :: l') l
| sim_cons e' e l' l : esim b e' e -> sim b l' l -> sim b (e' :: l') (e :: l)
(* a run of non-knockout elements on the right, the same run inside a full-opacity unmasked non-knockout
   pass-through group on the left (ProofsLaws.passthrough_wrap) *)
| sim_wrap ch' ch l' l :
    Forall (fun e => elem_ko e = false) ch' -> sim b ch' ch -> sim b l' l ->
    sim b (GroupR false ch' ones normal_fn false [] :: l') (ch ++ l)
with esim (b : bool) : elR -> elR -> Prop :=
| esim_leaf cs f fa B ko cl' cl : sim b cl' cl -> esim b (LeafR cs f fa B ko cl') (LeafR cs f fa B ko cl)
| esim_group iso ch' ch fa B ko cl' cl :
    sim b ch' ch -> sim b cl' cl -> esim b (GroupR iso ch' fa B ko cl') (GroupR iso ch fa B ko cl).

Scheme sim_ind2 := Induction for sim Sort Prop
  with esim_ind2 := Induction for esim Sort Prop.
Combined Scheme sim_esim_ind from sim_ind2, esim_ind2.

Lemma sim_app b a' a_ b' b_ : sim b a' a_ -> sim b b' b_ -> sim b (a' ++ b') (a_ ++ b_).
Proof.
  induction 1; intros Hb; cbn; [assumption | apply sim_dropR; auto | apply sim_dropL; auto | apply sim_cons; auto |].
  rewrite <- app_assoc. apply sim_wrap; auto.
Qed.

Lemma sim_of_esims b (l : list elR) : Forall (fun e => esim b e e) l -> sim b l l.
Proof. induction 1; [apply sim_nil | apply sim_cons; assumption]. Qed.

Lemma esim_refl b (e : elR) : esim b e e.
Proof.
  induction e as [cs f fa B ko cl IHc | iso ch fa B ko cl IHch IHc] using elem_ind'.
  - constructor. apply sim_of_esims. exact IHc.
  - constructor; apply sim_of_esims; assumption.
Qed.

Lemma sim_refl b (l : list elR) : sim b l l.
Proof. apply sim_of_esims. apply Forall_forall. intros; apply esim_refl. Qed.

Lemma Inv_a_ge_a0 (s : stR) : Inv s -> a0 s <= a s.
Proof.
  intros I. rewrite (inv_a _ I). pose proof (inv_a0 _ I). pose proof (inv_ag _ I). unfold unit in *. nra.
Qed.

(* colours of two equivalent clip-compositors agree as soon as the base has alpha *)
Lemma clip_color_rel (u v : stR) (al : R) :
  Inv u -> Inv v -> peq_ns u v -> a0 u = al -> al <> 0 -> c u = c v.
Proof.
  intros Iu Iv E Ha NZ. destruct E as [_ _ _ Ea Ec].
  pose proof (Inv_a_ge_a0 _ Iu) as G. pose proof (inv_a0 _ Iu) as U. unfold unit in U.
  assert (a u <> 0) by (rewrite Ha in *; lra).
  apply mul_cancel_l with (a u); [assumption|]. rewrite Ec, Ea. reflexivity.
Qed.

Theorem sim_sound b :
  (forall l' l, sim b l' l -> Forall wf l' -> Forall wf l -> Forall (okb b) l' -> Forall (okb b) l ->
     forall s t, Inv s -> Inv t -> rel b s t -> rel b (apply_list l' s) (apply_list l t)) /\
  (forall e' e, esim b e' e -> wf e' -> wf e -> okb b e' -> okb b e ->
     forall s t, Inv s -> Inv t -> rel b s t -> rel b (apply_elem e' s) (apply_elem e t)).
Proof.
  apply sim_esim_ind.
  - intros _ _ _ _ s t _ _ E. exact E.
  - (* drop right *) intros e l' l N Hs IH W' W O' O s t Is It E.
    inversion W as [|? ? We Wl]; inversion O as [|? ? Oe Ol]; subst. cbn [apply_list fold_left].
    pose proof (nullb_noop b e N We Oe t It) as Nn.
    apply (IH W' Wl O' Ol s _ Is (apply_elem_Inv _ We t It)).
    eapply rel_trans; [exact E | apply rel_sym; exact Nn].
  - (* drop left *) intros e l' l N Hs IH W' W O' O s t Is It E.
    inversion W' as [|? ? We Wl]; inversion O' as [|? ? Oe Ol]; subst. cbn [apply_list fold_left].
    pose proof (nullb_noop b e N We Oe s Is) as Nn.
    apply (IH Wl W Ol O _ t (apply_elem_Inv _ We s Is) It).
    eapply rel_trans; [exact Nn | exact E].
  - (* cons *) intros e' e l' l He IHe Hs IH W' W O' O s t Is It E.
    inversion W' as [|? ? We' Wl']; inversion W as [|? ? We Wl];
    inversion O' as [|? ? Oe' Ol']; inversion O as [|? ? Oe Ol]; subst. cbn [apply_list fold_left].
    apply (IH Wl' Wl Ol' Ol); [apply apply_elem_Inv; assumption | apply apply_elem_Inv; assumption |].
    apply IHe; assumption.
  - (* wrap *) intros ch' ch l' l N Hch IHch Hl IHl W' W O' O s t Is It E.
    inversion W' as [|? ? Wg Wl']; inversion O' as [|? ? Og Ol']; subst.
    apply Forall_app in W. destruct W as [Wch Wl]. apply Forall_app in O. destruct O as [Och Ol].
    assert (Wch' : Forall wf ch') by (inversion Wg; assumption).
    destruct (okb_children _ _ _ _ _ _ _ Og) as [Och' _].
    cbn [apply_list fold_left]. unfold apply_list. rewrite fold_left_app.
    fold (apply_list ch t). fold (apply_list l (apply_list ch t)).
    fold (apply_list l' (apply_elem (GroupR false ch' ones normal_fn false []) s)).
    pose proof (passthrough_wrap ch' s Wch' N Is) as P1.
    pose proof (IHch Wch' Wch Och' Och s t Is It E) as E2.
    apply (IHl Wl' Wl Ol' Ol).
    + apply apply_elem_Inv; assumption.
    + apply apply_list_Inv; assumption.
    + eapply rel_trans; [apply peq_rel; exact P1 | exact E2].
  - (* leaf *) intros cs f fa B ko cl' cl Hs IH W' W O' O s t Is It E.
    inversion W'; inversion W; subst. cbn [apply_elem]. unfold apply_factors.
    pose proof (init_Inv false cs f ltac:(assumption) ltac:(assumption)) as I0.
    pose proof (IH ltac:(assumption) ltac:(assumption) (okb_clips _ _ _ _ _ _ _ O') (okb_clips _ _ _ _ _ _ _ O)
                   _ _ I0 I0 (rel_refl b _)) as Ecl.
    fold (apply_list cl' (@init ROps false cs f)) in *. fold (apply_list cl (@init ROps false cs f)) in *.
    apply apply_source_rel; [exact E | reflexivity | intros Hb; exact (okb_ko _ _ O Hb) |].
    destruct (Req_dec f 0) as [Z | NZ].
    + left. rewrite Z. change (fmul ROps) with Rmult. rring.
    + right. apply (clip_color_rel _ _ f); try assumption.
      * apply apply_list_Inv; assumption.
      * apply apply_list_Inv; assumption.
      * apply (rel_ns b). exact Ecl.
      * destruct (apply_list_backdrop_fields cl' (@init ROps false cs f)) as [E1 _]. exact E1.
  - (* group *) intros iso ch' ch fa B ko cl' cl Hch IHch Hcl IHcl W' W O' O s t Is It E.
    inversion W'; inversion W; subst. cbn [apply_elem].
    destruct (okb_children _ _ _ _ _ _ _ O') as [Och' Ocl'].
    destruct (okb_children _ _ _ _ _ _ _ O) as [Och Ocl].
    set (bs := if ko then c0 s else c s). set (as_ := if ko then a0 s else a s).
    set (bt := if ko then c0 t else c t). set (at_ := if ko then a0 t else a t).
    assert (Hab : as_ = at_ /\ as_ * bs = at_ * bt).
    { pose proof (rel_ns _ _ _ E) as [? ? ? ? ?]. unfold as_, at_, bs, bt. destruct ko; split; assumption. }
    destruct Hab as [Hab Hp].
    assert (Ubs : unit bs /\ unit as_) by (unfold bs, as_; destruct ko; split;
      [apply (inv_c0 _ Is) | apply (inv_a0 _ Is) | apply (inv_c _ Is) | apply (Inv_a_unit _ Is)]).
    assert (Ubt : unit bt /\ unit at_) by (unfold bt, at_; destruct ko; split;
      [apply (inv_c0 _ It) | apply (inv_a0 _ It) | apply (inv_c _ It) | apply (Inv_a_unit _ It)]).
    destruct Ubs as [Ubs Uas], Ubt as [Ubt Uat].
    pose proof (init_Inv iso bs as_ Ubs Uas) as I1.
    pose proof (init_Inv iso bt at_ Ubt Uat) as I2.
    assert (E12 : rel b (@init ROps iso bs as_) (@init ROps iso bt at_)).
    { rewrite <- Hab in *. apply init_rel. rewrite Hp. reflexivity. }
    pose proof (IHch ltac:(assumption) ltac:(assumption) Och' Och _ _ I1 I2 E12) as Eg.
    fold (apply_list ch' (@init ROps iso bs as_)) in *. fold (apply_list ch (@init ROps iso bt at_)) in *.
    pose proof (apply_list_Inv ch' ltac:(assumption) _ I1) as Ig'.
    pose proof (apply_list_Inv ch ltac:(assumption) _ I2) as Ig.
    set (g' := apply_list ch' (@init ROps iso bs as_)) in *.
    set (g := apply_list ch (@init ROps iso bt at_)) in *.
    unfold finish. unfold apply_factors.
    pose proof (rel_ns _ _ _ Eg) as [G0 Gc0 Gag Ga Gc].
    rewrite Gag.
    fold (apply_list cl' (@init ROps false (@finish_color ROps g') (ag g))).
    fold (apply_list cl (@init ROps false (@finish_color ROps g) (ag g))).
    apply apply_source_rel; [exact E | | intros Hb; exact (okb_ko _ _ O Hb) |].
    + intros Hb. subst b. destruct Eg as [_ _ Gsg _ _ _]. rewrite Gsg. reflexivity.
    + destruct (Req_dec (ag g) 0) as [Z | NZ].
      * left. rewrite Z. change (fmul ROps) with Rmult. rring.
      * right.
        assert (Hfc : @finish_color ROps g' = @finish_color ROps g).
        { assert (NZ' : ag g' <> 0) by (rewrite Gag; exact NZ).
          destruct (finish_unclipped g' Ig' NZ') as (_ & F1' & F2').
          destruct (finish_unclipped g Ig NZ) as (_ & F1 & F2).
          rewrite F1, F1'. apply mul_cancel_l with (ag g); [exact NZ|].
          transitivity (a g' * c g' - a0 g' * c0 g' * (1 - ag g')); [rewrite <- Gag; exact F2'|].
          rewrite Gc, Gc0, Gag. symmetry. exact F2. }
        rewrite Hfc.
        pose proof (init_Inv false _ _ (finish_color_unit g) (inv_ag _ Ig)) as I0.
        pose proof (IHcl ltac:(assumption) ltac:(assumption) Ocl' Ocl _ _ I0 I0 (rel_refl b _)) as Ecl.
        apply (clip_color_rel _ _ (ag g)); try assumption.
        -- apply apply_list_Inv; assumption.
        -- apply apply_list_Inv; assumption.
        -- apply (rel_ns b). exact Ecl.
        -- destruct (apply_list_backdrop_fields cl' (@init ROps false (@finish_color ROps g) (ag g))) as [E1 _]. exact E1.
Qed.

Lemma okb_true_all (l : list elR) : Forall (okb true) l.
Proof. apply Forall_forall. intros; left; reflexivity. Qed.

(* the strong form, as used for viewports and shape-0 layers *)
Corollary sim_sound_peq (l' l : list elR) :
  sim true l' l -> Forall wf l' -> Forall wf l ->
  forall s t, Inv s -> Inv t -> peq s t -> peq (apply_list l' s) (apply_list l t).
Proof.
  intros S W' W s t Is It E.
  exact (proj1 (sim_sound true) l' l S W' W (okb_true_all l') (okb_true_all l) s t Is It E).
Qed.

(* the weaker form gives: same group alpha, same total alpha, same premultiplied colour *)
Lemma finish_peq_ns (s t : stR) : Inv s -> Inv t -> peq_ns s t ->
  let '(C, f, al) := @finish ROps s in let '(C', f', al') := @finish ROps t in
  al = al' /\ al * C = al' * C'.
Proof.
  intros Is It [E0 Ec0 Eag Ea Ec]. unfold finish. split; [assumption|].
  destruct (Req_dec (ag s) 0) as [Z | NZ].
  - rewrite <- Eag, Z. ring.
  - destruct (finish_unclipped s Is NZ) as (_ & F1 & F2).
    assert (NZ' : ag t <> 0) by (rewrite <- Eag; exact NZ).
    destruct (finish_unclipped t It NZ') as (_ & F1' & F2').
    rewrite F1, F1', F2, F2', Ec, Ec0, Eag. reflexivity.
Qed.
