(* The blend functions modelled in Model.v map [0,1]^2 into [0,1] (so every hypothesis [blend_ok B] of the
   general theorems is met by the documents the correspondence check runs). *)
From Coq Require Import Reals Lra Psatz Bool.
From PsdV Require Import Composite.Scalar Composite.Model Composite.ProofsKernel.
Open Scope R_scope.

Ltac rleb_cases :=
  repeat match goal with
  | |- context [Rleb ?x ?y] =>
      let E := fresh "E" in destruct (Rleb x y) eqn:E;
      [apply Rleb_true in E | apply Rleb_false in E]
  end.

Lemma hard_light_range x y : unit x -> unit y -> unit (@hard_light ROps x y).
Proof.
  unfold unit, hard_light. cbn. intros Hx Hy. rleb_cases; split; nra.
Qed.

Theorem blend_fn_range (b : blend) : blend_ok (@blend_fn ROps b).
Proof.
  intros x y Hx Hy. destruct b; cbn [blend_fn]; try (apply hard_light_range; assumption);
    unfold unit, fmin, fmax in *; cbn; rleb_cases; split; nra.
Qed.
