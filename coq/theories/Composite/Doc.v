(* Document-level model: the layer tree as psd-tools holds it after decoding, and the SAMPLING of that tree
   at one pixel (x, y), one channel k, for a Compositor with viewport vp.  Sampling mirrors

     Compositor.apply            layer filter (Layer.is_visible), `_intersect(viewport, layer.bbox) == (0,0,0,0)`
                                 early exit, clipping layers with a target skipped in the main pass
     PSDImage._compute_clipping_layers   which consecutive clipping layers belong to which base
     Group.extract_bbox          bounding box of a group = union over its visible children
     _get_object / paste         colour pasted with background 1, shape with background 0
     _get_group                  children composited in viewport' = viewport /\ bbox, result pasted back
     _get_mask / _get_const      mask (pasted with its background colour), density, fill opacity, opacity

   and produces the per-pixel element list evaluated by Model.apply_list. *)
From Coq Require Import ZArith List Bool.
From PsdV Require Import Composite.Scalar Composite.Model Composite.Geometry.
Import ListNotations.
Open Scope Z_scope.

Record maskd := MkMask {
  mk_rect : rect; mk_data : list Z; mk_bg : Z; mk_density : option Z; mk_disabled : bool }.

Record attrs := MkAttrs {
  at_vis : bool;          (* record.flags.visible *)
  at_op : Z;              (* record.opacity 0..255 *)
  at_fill : Z;            (* Tag.BLEND_FILL_OPACITY, 255 when the block is absent *)
  at_bm : blend;          (* blend function used by _apply_source (pass-through groups: normal) *)
  at_clip : bool;         (* record.clipping == NON_BASE *)
  at_mask : option maskd;
  at_ko : bool;           (* Tag.KNOCKOUT_SETTING *)
  at_den : positive       (* scale of the layer's planes (colour, transparency, mask): 255 for 8-bit documents,
                             65535 for 16-bit; a 32-bit float plane holds value/at_den *) }.

Inductive layer :=
| Px (rc : rect) (chans : list (list Z)) (alpha : list Z) (at_ : attrs)      (* planes row-major, 0..255 *)
| Gr (pass : bool) (children : list layer) (at_ : attrs).                    (* children bottom first *)

Definition attrs_of (l : layer) : attrs := match l with Px _ _ _ a => a | Gr _ _ a => a end.

(* Group.extract_bbox (visible children only; children whose box is (0,0,0,0) are ignored) *)
Fixpoint bbox_of (l : layer) : rect :=
  match l with
  | Px rc _ _ _ => rc
  | Gr _ ch _ =>
      let fix go (ls : list layer) (acc : option rect) : option rect :=
        match ls with
        | [] => acc
        | x :: tl =>
            let acc' :=
              if at_vis (attrs_of x) then
                let b := bbox_of x in
                if is_zero_rect b then acc
                else Some (match acc with None => b | Some r => rect_union r b end)
              else acc in
            go tl acc'
        end in
      match go ch None with None => zero_rect | Some r => r end
  end.

Section Sample.
Context {O : Ops}.
Notation F := (F O).

Definition byte (z : Z) : F := fdiv O (fofZ O z) (fofZ O 255).

(* numpy_io._parse_array: plane value / 255 (8 bit), / 65535 (16 bit), the float itself (32 bit) *)
Definition pval (den : positive) (z : Z) : F := fdiv O (fofZ O z) (fofZ O (Zpos den)).

Definition plane_at (den : positive) (data : list Z) (w : Z) (i j : Z) : F :=
  pval den (nth (Z.to_nat (i * w + j)) data 0).

(* _get_mask (raster part) and _get_const *)
Definition factors_at (vp : rect) (x y : Z) (at_ : attrs) : factors O :=
  let '(vl, vt, _, _) := vp in
  let md :=
    match at_mask at_ with
    | Some mk =>
        if mk_disabled mk then (f1, f1)
        else
          let w := rwidth (mk_rect mk) in
          let m := match mk_data mk with
                   | [] => f1      (* Layer.numpy('mask') is None for an empty plane: shape stays 1.0 *)
                   | _ => paste vp (mk_rect mk) (plane_at (at_den at_) (mk_data mk) w) (byte (mk_bg mk)) (y - vt) (x - vl)
                   end in
          (m, match mk_density mk with None => f1 | Some d => byte d end)
    | None => (f1, f1)
    end in
  mkFactors (fst md) (snd md) (byte (at_fill at_)) (byte (at_op at_)).

Fixpoint sample_layer (vp : rect) (x y : Z) (k : nat) (L : layer) (clips : list (elem O)) {struct L}
  : list (elem O) :=
  let at_ := attrs_of L in
  if negb (at_vis at_) then [] else                                 (* layer_filter = is_visible *)
  if is_zero_rect (intersect vp (bbox_of L)) then [] else          (* "Out of viewport" *)
  let fa := factors_at vp x y at_ in
  let B := blend_fn (at_bm at_) in
  let '(vl, vt, _, _) := vp in
  match L with
  | Px rc chans alpha _ =>
      let w := rwidth rc in
      let col := paste vp rc (plane_at (at_den at_) (nth k chans []) w) f1 (y - vt) (x - vl) in
      let sh := paste vp rc (plane_at (at_den at_) alpha w) f0 (y - vt) (x - vl) in
      [Leaf col sh fa B (at_ko at_) clips]
  | Gr pass ch _ =>
      let vp' := intersect vp (bbox_of L) in
      if inside vp' x y then
        let fix go (ls : list layer) : list (elem O) * list (elem O) :=
          (* right-to-left: (sampled clipping layers waiting for their base, elements above them) *)
          match ls with
          | [] => ([], [])
          | l :: tl =>
              let '(pend, res) := go tl in
              if at_clip (attrs_of l) then (sample_layer vp' x y k l [] ++ pend, res)
              else ([], sample_layer vp' x y k l pend ++ res)
          end in
        let '(pend, res) := go ch in
        [Group (negb pass) (pend ++ res) fa B (at_ko at_) clips]
      else
        (* paste(self._viewport, viewport, ...): colour 1, shape 0, alpha 0 outside the group's viewport *)
        [Leaf f1 f0 fa B (at_ko at_) clips]
  end.

(* the same right-to-left grouping for a list of siblings (top level of the document) *)
Fixpoint sample_runs (vp : rect) (x y : Z) (k : nat) (ls : list layer) : list (elem O) * list (elem O) :=
  match ls with
  | [] => ([], [])
  | l :: tl =>
      let '(pend, res) := sample_runs vp x y k tl in
      if at_clip (attrs_of l) then (sample_layer vp x y k l [] ++ pend, res)
      else ([], sample_layer vp x y k l pend ++ res)
  end.

Definition sample_list (vp : rect) (x y : Z) (k : nat) (ls : list layer) : list (elem O) :=
  let '(pend, res) := sample_runs vp x y k ls in pend ++ res.

(* composite(psd, color, alpha, viewport) at pixel (x,y), channel k:  (color, shape, alpha) *)
Definition composite_doc (vp : rect) (cb ab : F) (ls : list layer) (x y : Z) (k : nat) : F * F * F :=
  composite_px false cb ab (sample_list vp x y k ls).

End Sample.
