(* Index arithmetic of _intersect / paste (all by case analysis + lia). *)
From Coq Require Import ZArith Bool Lia ZifyBool.
From PsdV Require Import Composite.Geometry.
Open Scope Z_scope.

Lemma rect_eqb_eq a b : rect_eqb a b = true <-> a = b.
Proof.
  destruct a as [[[a0 a1] a2] a3], b as [[[b0 b1] b2] b3]. unfold rect_eqb.
  rewrite !andb_true_iff, !Z.eqb_eq. split.
  - intros [[[-> ->] ->] ->]. reflexivity.
  - intros E. inversion E. auto.
Qed.

Lemma inside_zero_rect x y : inside zero_rect x y = false.
Proof. unfold inside, zero_rect. lia. Qed.

(* _intersect is the set intersection; the (0,0,0,0) sentinel is exactly "no common pixel" *)
Theorem inside_intersect a b x y : inside (intersect a b) x y = inside a x y && inside b x y.
Proof.
  destruct a as [[[a0 a1] a2] a3], b as [[[b0 b1] b2] b3]. unfold intersect.
  destruct ((Z.min a2 b2 <=? Z.max a0 b0) || (Z.min a3 b3 <=? Z.max a1 b1)) eqn:E.
  - rewrite inside_zero_rect. unfold inside. lia.
  - unfold inside. lia.
Qed.

Theorem intersect_zero_iff a b :
  is_zero_rect (intersect a b) = true <-> forall x y, inside a x y && inside b x y = false.
Proof.
  split.
  - intros H x y. rewrite <- inside_intersect. apply rect_eqb_eq in H. rewrite H. apply inside_zero_rect.
  - intros H. destruct a as [[[a0 a1] a2] a3], b as [[[b0 b1] b2] b3]. unfold intersect.
    destruct ((Z.min a2 b2 <=? Z.max a0 b0) || (Z.min a3 b3 <=? Z.max a1 b1)) eqn:E.
    + reflexivity.
    + exfalso. specialize (H (Z.max a0 b0) (Z.max a1 b1)). unfold inside in H. lia.
Qed.

Lemma intersect_comm_inside a b x y : inside (intersect a b) x y = inside (intersect b a) x y.
Proof. rewrite !inside_intersect. apply andb_comm. Qed.

Lemma subrect_inside a b x y : subrect a b -> inside a x y = true -> inside b x y = true.
Proof.
  destruct a as [[[a0 a1] a2] a3], b as [[[b0 b1] b2] b3]. unfold subrect, inside. lia.
Qed.

(* paste in absolute coordinates: inside the viewport, the pasted array shows the source array where the
   source's box covers the pixel and the background elsewhere *)
Theorem paste_abs {A : Type} (vp bb : rect) (values : Z -> Z -> A) (bg : A) x y :
  inside vp x y = true ->
  let '(vl, vt, _, _) := vp in let '(bl, bt, _, _) := bb in
  paste vp bb values bg (y - vt) (x - vl) = if inside bb x y then values (y - bt) (x - bl) else bg.
Proof.
  intros Hin.
  pose proof (inside_intersect vp bb x y) as Hi. rewrite Hin in Hi. cbn [andb] in Hi.
  destruct vp as [[[vl vt] vr] vb], bb as [[[bl bt] br] bb_]. unfold paste.
  destruct (is_zero_rect (intersect (vl, vt, vr, vb) (bl, bt, br, bb_))) eqn:Ez.
  - apply rect_eqb_eq in Ez. rewrite Ez, inside_zero_rect in Hi. rewrite <- Hi. reflexivity.
  - destruct (intersect (vl, vt, vr, vb) (bl, bt, br, bb_)) as [[[i0 i1] i2] i3] eqn:Ei.
    rewrite <- Hi. unfold inside.
    destruct ((i1 - vt <=? y - vt) && (y - vt <? i3 - vt) && (i0 - vl <=? x - vl) && (x - vl <? i2 - vl)) eqn:E1;
    destruct ((i0 <=? x) && (x <? i2) && (i1 <=? y) && (y <? i3)) eqn:E2; try lia.
    + f_equal; lia.
    + reflexivity.
Qed.

(* sub-viewport = crop, at the level of one pasted array *)
Theorem paste_crop {A : Type} (vp vp' bb : rect) (values : Z -> Z -> A) (bg : A) x y :
  inside vp x y = true -> inside vp' x y = true ->
  let '(vl, vt, _, _) := vp in let '(vl', vt', _, _) := vp' in
  paste vp' bb values bg (y - vt') (x - vl') = paste vp bb values bg (y - vt) (x - vl).
Proof.
  intros H1 H2.
  pose proof (paste_abs vp bb values bg x y H1) as P1.
  pose proof (paste_abs vp' bb values bg x y H2) as P2.
  destruct vp as [[[vl vt] vr] vb], vp' as [[[vl' vt'] vr'] vb'], bb as [[[bl bt] br] bb_].
  rewrite P1, P2. reflexivity.
Qed.

(* the row-major position used by plane_at is within the plane *)
Lemma plane_index_bound (bb : rect) x y :
  inside bb x y = true ->
  let '(bl, bt, br, bb_) := bb in
  0 <= (y - bt) * (br - bl) + (x - bl) < (br - bl) * (bb_ - bt).
Proof.
  destruct bb as [[[bl bt] br] bb_]. unfold inside. intros H. nia.
Qed.

(* ---- sub-viewports *)
Lemma is_zero_rect_false_inside r : is_zero_rect r = false -> r <> zero_rect.
Proof. intros H E. subst. discriminate H. Qed.

Lemma intersect_sub_zero vp' vp bb :
  subrect vp' vp -> is_zero_rect (intersect vp bb) = true -> is_zero_rect (intersect vp' bb) = true.
Proof.
  intros S H. apply intersect_zero_iff. intros x y.
  pose proof (proj1 (intersect_zero_iff vp bb) H x y) as Hz.
  destruct (inside vp' x y) eqn:E; [|reflexivity].
  rewrite (subrect_inside vp' vp x y S E) in Hz. exact Hz.
Qed.

Lemma intersect_subrect vp' vp bb :
  subrect vp' vp -> is_zero_rect (intersect vp' bb) = false ->
  subrect (intersect vp' bb) (intersect vp bb) /\ is_zero_rect (intersect vp bb) = false.
Proof.
  destruct vp' as [[[a0 a1] a2] a3], vp as [[[b0 b1] b2] b3], bb as [[[c0 c1] c2] c3].
  unfold subrect, intersect. intros (H0 & H1 & H2 & H3).
  destruct ((Z.min a2 c2 <=? Z.max a0 c0) || (Z.min a3 c3 <=? Z.max a1 c1)) eqn:E1.
  - intros H. discriminate H.
  - intros _.
    destruct ((Z.min b2 c2 <=? Z.max b0 c0) || (Z.min b3 c3 <=? Z.max b1 c1)) eqn:E2; [lia|].
    split; [lia|].
    unfold is_zero_rect, rect_eqb, zero_rect. lia.
Qed.

Lemma inside_intersect_l vp bb x y : inside vp x y = true -> inside (intersect vp bb) x y = inside bb x y.
Proof. intros H. rewrite inside_intersect, H. reflexivity. Qed.

Lemma zero_intersect_not_inside vp bb x y :
  is_zero_rect (intersect vp bb) = true -> inside vp x y = true -> inside bb x y = false.
Proof.
  intros Hz Hin. pose proof (proj1 (intersect_zero_iff vp bb) Hz x y) as H. rewrite Hin in H. exact H.
Qed.
