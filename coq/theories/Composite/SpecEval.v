(* The group-compositing recurrences of PDF 32000-1:2008 section 11.4.8, as an evaluator of element trees.
   Written on PREMULTIPLIED colour so that no convention is needed where alpha is 0 (the PDF formulas divide by
   alpha_i; multiplied through by alpha_i they read as below); no clipping anywhere.  Reals; definitions only.

   PDF notation -> fields:   alpha_0 = q_a0,  alpha_0*C_0 = q_p0,  fg_i = q_f,  alphag_i = q_ag,
                             alpha_i = q_a,   alpha_i*C_i = q_p.
   For element i with source colour Cs, shape fs, alpha as, blend function B_i and backdrop
     (alpha_b, C_b) = (alpha_{i-1}, C_{i-1})  or, for a knockout element,  (alpha_0, C_0):
       fg_i      = Union(fg_{i-1}, fs)
       alphag_i  = (1 - fs) alphag_{i-1} + (fs - as) alpha_0 + as        [knockout]      | Union(alphag_{i-1}, as)
       alpha_i   = Union(alpha_0, alphag_i)
       alpha_i C_i = (1 - fs) alpha_{i-1} C_{i-1} + (fs - as) alpha_b C_b + as ((1 - alpha_b) Cs + alpha_b B_i(C_b, Cs))
   Result of the group:  C = C_n + (C_n - C_0)(alpha_0/alphag_n - alpha_0), i.e.
       alphag_n C = alpha_n C_n - alpha_0 C_0 (1 - alphag_n) ;   f = fg_n ;   alpha = alphag_n.
   A source is a leaf (Cs = its colour after its clipping run, fs = f*fm*fk, as = f*(fm*qm)*(fk*qk)) or a nested
   group (its result, with the same factors), isolated groups starting from alpha_0 = 0.  A clipping run paints
   the clip layers over (colour, alpha) of the base as a non-isolated backdrop; the painted colour C_n (not
   backdrop-removed) replaces the base colour.  (Clipping runs are Photoshop's, not PDF's.) *)
From Coq Require Import Reals List.
From PsdV Require Import Composite.Scalar Composite.Model Composite.Spec.
Import ListNotations.
Open Scope R_scope.

Record pstate := mkP { q_p0 : R; q_a0 : R; q_f : R; q_ag : R; q_p : R; q_a : R }.

Definition pinit (isolated : bool) (Cb ab : R) : pstate :=
  let a_ := if isolated then 0 else ab in mkP (a_ * Cb) a_ 0 0 (a_ * Cb) a_.

Definition pdf_source (q : pstate) (Cs fs als : R) (B : R -> R -> R) (ko : bool) : pstate :=
  let ab := if ko then q_a0 q else q_a q in
  let Pb := if ko then q_p0 q else q_p q in
  let Cb := Pb / ab in
  let ag' := if ko then (1 - fs) * q_ag q + (fs - als) * q_a0 q + als else Union (q_ag q) als in
  mkP (q_p0 q) (q_a0 q) (Union (q_f q) fs) ag'
      ((1 - fs) * q_p q + (fs - als) * Pb + als * ((1 - ab) * Cs + ab * B Cb Cs))
      (Union (q_a0 q) ag').

(* colour of the group result, backdrop removed *)
Definition pdf_result_color (q : pstate) : R := (q_p q - q_p0 q * (1 - q_ag q)) / q_ag q.

Fixpoint pdf_elem (e : elem ROps) (q : pstate) {struct e} : pstate :=
  match e with
  | Leaf cs f fa B ko clips =>
      let cq := fold_left (fun s e' => pdf_elem e' s) clips (pinit false cs f) in
      let col := q_p cq / q_a cq in
      pdf_source q col (f * fm fa * fk fa) (f * (fm fa * fd fa * fq fa) * fk fa) B ko
  | Group iso ch fa B ko clips =>
      let ab := if ko then q_a0 q else q_a q in
      let Pb := if ko then q_p0 q else q_p q in
      let g := fold_left (fun s e' => pdf_elem e' s) ch (pinit iso (Pb / ab) ab) in
      let cq := fold_left (fun s e' => pdf_elem e' s) clips (pinit false (pdf_result_color g) (q_ag g)) in
      let col := q_p cq / q_a cq in
      pdf_source q col (q_f g * fm fa * fk fa) (q_ag g * (fm fa * fd fa * fq fa) * fk fa) B ko
  end.

Definition pdf_list (l : list (elem ROps)) (q : pstate) : pstate := fold_left (fun s e => pdf_elem e s) l q.

(* (alphag*C, f, alphag) of compositing the list over the backdrop (Cb, ab) *)
Definition pdf_composite (isolated : bool) (Cb ab : R) (l : list (elem ROps)) : R * R * R :=
  let q := pdf_list l (pinit isolated Cb ab) in (q_p q - q_p0 q * (1 - q_ag q), q_f q, q_ag q).
