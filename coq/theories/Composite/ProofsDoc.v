(* Document level (Doc.v over the reals): what sampling does with hidden layers and layers outside the
   viewport, and that sampling a well-formed 8-bit document only produces well-formed elements, so that
   every theorem about the kernel applies to the documents the model evaluates. *)
From Coq Require Import ZArith Reals Lra Psatz List Bool Lia.
From PsdV Require Import Composite.Scalar Composite.Model Composite.Geometry Composite.Doc
  Composite.ProofsKernel Composite.ProofsGeometry Composite.ProofsBlend.
Import ListNotations.

Section LayerInd.
  Variable P : layer -> Prop.
  Hypothesis HP : forall rc chans alpha at_, P (Px rc chans alpha at_).
  Hypothesis HG : forall pass ch at_, Forall P ch -> P (Gr pass ch at_).
  Fixpoint layer_ind' (l : layer) : P l :=
    match l with
    | Px rc chans alpha at_ => HP rc chans alpha at_
    | Gr pass ch at_ =>
        HG pass ch at_ ((fix all (ls : list layer) : Forall P ls :=
                           match ls with [] => Forall_nil P | x :: t => Forall_cons x (layer_ind' x) (all t) end) ch)
    end.
End LayerInd.

(* ---- hidden layers and layers that do not meet the viewport contribute nothing: no-op by construction *)
Theorem sample_hidden {O : Ops} vp x y k (L : layer) clips :
  at_vis (attrs_of L) = false -> sample_layer (O:=O) vp x y k L clips = [].
Proof. intros H. destruct L; cbn [sample_layer attrs_of] in *; rewrite H; reflexivity. Qed.

Theorem sample_outside {O : Ops} vp x y k (L : layer) clips :
  is_zero_rect (intersect vp (bbox_of L)) = true -> sample_layer (O:=O) vp x y k L clips = [].
Proof.
  intros H. destruct L; cbn [sample_layer attrs_of] in *;
    destruct (at_vis _); cbn [negb]; try reflexivity; rewrite H; reflexivity.
Qed.

(* the inner right-to-left grouping of sample_layer is sample_runs *)
Lemma sample_group_unfold {O : Ops} vp x y k pass ch at_ clips :
  sample_layer (O:=O) vp x y k (Gr pass ch at_) clips =
  if negb (at_vis at_) then [] else
  if is_zero_rect (intersect vp (bbox_of (Gr pass ch at_))) then [] else
  let vp' := intersect vp (bbox_of (Gr pass ch at_)) in
  if inside vp' x y
  then [Group (negb pass) (sample_list vp' x y k ch) (factors_at vp x y at_) (blend_fn (at_bm at_)) (at_ko at_) clips]
  else [Leaf f1 f0 (factors_at vp x y at_) (blend_fn (at_bm at_)) (at_ko at_) clips].
Proof.
  cbn [sample_layer attrs_of].
  destruct (negb (at_vis at_)); [reflexivity|].
  destruct (is_zero_rect (intersect vp (bbox_of (Gr pass ch at_)))); [reflexivity|].
  destruct vp as [[[vl vt] vr] vb].
  destruct (inside (intersect (vl, vt, vr, vb) (bbox_of (Gr pass ch at_))) x y); [|reflexivity].
  unfold sample_list.
  set (vp' := intersect (vl, vt, vr, vb) (bbox_of (Gr pass ch at_))).
  assert (E : forall ls,
    (fix go (ls : list layer) : list (elem O) * list (elem O) :=
       match ls with
       | [] => ([], [])
       | l :: tl =>
           let '(pend, res) := go tl in
           if at_clip (attrs_of l) then (sample_layer vp' x y k l [] ++ pend, res)
           else ([], sample_layer vp' x y k l pend ++ res)
       end) ls = sample_runs vp' x y k ls).
  { induction ls as [|l tl IH]; [reflexivity|]. cbn [sample_runs]. rewrite IH. reflexivity. }
  rewrite E. destruct (sample_runs vp' x y k ch). reflexivity.
Qed.

(* ---- well-formed 8-bit documents sample to well-formed elements *)
Open Scope Z_scope.
Definition is_byte (z : Z) : Prop := 0 <= z <= 255.
Definition bytes_ok (l : list Z) : Prop := Forall is_byte l.

(* plane values lie between 0 and the scale of the layer's planes *)
Definition vals_ok (den : positive) (l : list Z) : Prop := Forall (fun z => 0 <= z <= Zpos den) l.

Definition mask_ok (den : positive) (m : maskd) : Prop :=
  vals_ok den (mk_data m) /\ is_byte (mk_bg m) /\ match mk_density m with None => True | Some d => is_byte d end.
Definition attrs_ok (a : attrs) : Prop :=
  is_byte (at_op a) /\ is_byte (at_fill a) /\ match at_mask a with None => True | Some m => mask_ok (at_den a) m end.

Inductive layer_ok : layer -> Prop :=
| ok_px rc chans alpha at_ :
    Forall (vals_ok (at_den at_)) chans -> vals_ok (at_den at_) alpha -> attrs_ok at_ -> layer_ok (Px rc chans alpha at_)
| ok_gr pass ch at_ : Forall layer_ok ch -> attrs_ok at_ -> layer_ok (Gr pass ch at_).

Open Scope R_scope.

Lemma byte_unit z : is_byte z -> unit (@byte ROps z).
Proof.
  intros [H0 H1]. unfold byte, unit. cbn.
  apply IZR_le in H0. apply IZR_le in H1.
  split.
  - apply Rmult_le_pos; [exact H0|]. left. apply Rinv_0_lt_compat. lra.
  - apply Rmult_le_reg_r with 255; [lra|]. unfold Rdiv. rewrite Rmult_assoc, Rinv_l by lra. lra.
Qed.

Lemma pval_unit den z : (0 <= z <= Zpos den)%Z -> unit (@pval ROps den z).
Proof.
  intros [H0 H1]. unfold pval, unit. cbn.
  apply IZR_le in H0. apply IZR_le in H1.
  assert (Hp : 0 < IZR (Zpos den)) by (apply IZR_lt; lia).
  split.
  - apply Rmult_le_pos; [exact H0|]. left. apply Rinv_0_lt_compat. exact Hp.
  - apply Rmult_le_reg_r with (IZR (Zpos den)); [exact Hp|].
    unfold Rdiv. rewrite Rmult_assoc, Rinv_l by lra. lra.
Qed.

Lemma nth_val den (l : list Z) n : vals_ok den l -> (0 <= nth n l 0 <= Zpos den)%Z.
Proof.
  intros H. destruct (Nat.lt_ge_cases n (length l)) as [Hl|Hl].
  - unfold vals_ok in H. rewrite Forall_forall in H. apply H. apply nth_In. exact Hl.
  - rewrite nth_overflow by exact Hl. lia.
Qed.

Lemma plane_at_unit den data w i j : vals_ok den data -> unit (@plane_at ROps den data w i j).
Proof. intros H. unfold plane_at. apply pval_unit. apply nth_val. exact H. Qed.

Lemma paste_unit vp bb (vals : Z -> Z -> R) bg i j :
  (forall i j, unit (vals i j)) -> unit bg -> unit (paste vp bb vals bg i j).
Proof.
  intros Hv Hb. unfold paste.
  destruct (is_zero_rect (intersect vp bb)); [exact Hb|].
  destruct (intersect vp bb) as [[[i0 i1] i2] i3], vp as [[[vl vt] vr] vb], bb as [[[bl bt] br] bb_].
  match goal with |- context [if ?c then _ else _] => destruct c end; [apply Hv | exact Hb].
Qed.

Lemma unit_1 : unit 1. Proof. unfold unit; lra. Qed.
Lemma unit_0 : unit 0. Proof. unfold unit; lra. Qed.

Lemma factors_at_ok vp x y at_ : attrs_ok at_ -> fa_ok (@factors_at ROps vp x y at_).
Proof.
  intros (Hop & Hfill & Hm). unfold factors_at. destruct vp as [[[vl vt] vr] vb].
  unfold fa_ok. cbn [fm fd fk fq].
  assert (Hmd : unit (fst (match at_mask at_ with
      | Some mk => if mk_disabled mk then (@f1 ROps, @f1 ROps) else
          (match mk_data mk with [] => @f1 ROps | _ :: _ =>
             paste (vl, vt, vr, vb) (mk_rect mk) (@plane_at ROps (at_den at_) (mk_data mk) (rwidth (mk_rect mk))) (@byte ROps (mk_bg mk)) (y - vt) (x - vl) end,
           match mk_density mk with None => @f1 ROps | Some d => @byte ROps d end)
      | None => (@f1 ROps, @f1 ROps) end)) /\
     unit (snd (match at_mask at_ with
      | Some mk => if mk_disabled mk then (@f1 ROps, @f1 ROps) else
          (match mk_data mk with [] => @f1 ROps | _ :: _ =>
             paste (vl, vt, vr, vb) (mk_rect mk) (@plane_at ROps (at_den at_) (mk_data mk) (rwidth (mk_rect mk))) (@byte ROps (mk_bg mk)) (y - vt) (x - vl) end,
           match mk_density mk with None => @f1 ROps | Some d => @byte ROps d end)
      | None => (@f1 ROps, @f1 ROps) end))).
  { destruct (at_mask at_) as [mk|]; [|split; apply unit_1].
    destruct Hm as (Hd & Hbg & Hden).
    destruct (mk_disabled mk); [split; apply unit_1|]. cbn [fst snd]. split.
    - destruct (mk_data mk) eqn:Ed; [apply unit_1|]. rewrite <- Ed in *. apply paste_unit.
      + intros. apply plane_at_unit. exact Hd.
      + apply byte_unit. exact Hbg.
    - destruct (mk_density mk); [apply byte_unit; exact Hden | apply unit_1]. }
  destruct Hmd as [H1 H2]. repeat split; try apply H1; try apply H2; apply byte_unit; assumption.
Qed.

Lemma sample_runs_wf vp x y k (ls : list layer) :
  Forall (fun L => forall vp clips, Forall wf clips -> Forall wf (@sample_layer ROps vp x y k L clips)) ls ->
  Forall wf (fst (@sample_runs ROps vp x y k ls)) /\ Forall wf (snd (@sample_runs ROps vp x y k ls)).
Proof.
  induction 1 as [|L ls HL Hls IH]; cbn [sample_runs]; [split; constructor|].
  destruct (sample_runs vp x y k ls) as [pend res]. cbn [fst snd] in IH. destruct IH as [IH1 IH2].
  destruct (at_clip (attrs_of L)); cbn [fst snd].
  - split; [|assumption]. apply Forall_app. split; [apply HL; constructor | assumption].
  - split; [constructor|]. apply Forall_app. split; [apply HL; assumption | assumption].
Qed.

(* Theorem: sampling a well-formed document yields well-formed elements (any nesting depth) *)
Theorem sample_layer_wf (L : layer) : layer_ok L ->
  forall vp x y k clips, Forall wf clips -> Forall wf (@sample_layer ROps vp x y k L clips).
Proof.
  induction L as [rc chans alpha at_ | pass ch at_ IH] using layer_ind'; intros OK vp x y k clips Hc.
  - inversion OK; subst. cbn [sample_layer attrs_of bbox_of].
    destruct (negb (at_vis at_)); [constructor|].
    destruct (is_zero_rect (intersect vp rc)); [constructor|].
    destruct vp as [[[vl vt] vr] vb]. constructor; [|constructor].
    constructor; try assumption.
    + apply paste_unit; [|apply unit_1]. intros. apply plane_at_unit.
      destruct (Nat.lt_ge_cases k (length chans)) as [Hk|Hk].
      * match goal with H : Forall (vals_ok (at_den at_)) chans |- _ => rewrite Forall_forall in H; apply H end. apply nth_In. exact Hk.
      * rewrite nth_overflow by exact Hk. constructor.
    + apply paste_unit; [|apply unit_0]. intros. apply plane_at_unit. assumption.
    + apply factors_at_ok. assumption.
    + apply blend_fn_range.
  - inversion OK; subst. rewrite sample_group_unfold.
    destruct (negb (at_vis at_)); [constructor|].
    destruct (is_zero_rect (intersect vp (bbox_of (Gr pass ch at_)))); [constructor|].
    cbn zeta.
    destruct (inside (intersect vp (bbox_of (Gr pass ch at_))) x y).
    + constructor; [|constructor]. constructor; try assumption.
      * apply factors_at_ok. assumption.
      * apply blend_fn_range.
      * unfold sample_list.
        assert (Hall : Forall (fun L => forall vp clips, Forall wf clips -> Forall wf (@sample_layer ROps vp x y k L clips)) ch).
        { rewrite Forall_forall in *. intros L HL vp0 clips0 Hc0. apply IH; auto. }
        pose proof (sample_runs_wf (intersect vp (bbox_of (Gr pass ch at_))) x y k ch Hall) as [R1 R2].
        destruct (sample_runs (intersect vp (bbox_of (Gr pass ch at_))) x y k ch). apply Forall_app. split; assumption.
    + constructor; [|constructor]. constructor; try assumption.
      * apply unit_1.
      * apply unit_0.
      * apply factors_at_ok. assumption.
      * apply blend_fn_range.
Qed.

Theorem sample_list_wf (ls : list layer) vp x y k :
  Forall layer_ok ls -> Forall wf (@sample_list ROps vp x y k ls).
Proof.
  intros H. unfold sample_list.
  assert (Hall : Forall (fun L => forall vp clips, Forall wf clips -> Forall wf (@sample_layer ROps vp x y k L clips)) ls).
  { rewrite Forall_forall in *. intros L HL vp0 clips0 Hc0. apply sample_layer_wf; auto. }
  pose proof (sample_runs_wf vp x y k ls Hall) as [H1 H2].
  destruct (sample_runs vp x y k ls). apply Forall_app. split; assumption.
Qed.

(* Corollary: the document model's result is a colour, a shape and an alpha in [0,1], for every
   well-formed 8-bit document, viewport, pixel, channel and backdrop in [0,1] *)
Theorem composite_doc_in_range (ls : list layer) vp cb ab x y k :
  Forall layer_ok ls -> unit cb -> unit ab ->
  let '(C, f, al) := @composite_doc ROps vp cb ab ls x y k in unit C /\ unit f /\ unit al.
Proof.
  intros H Hcb Hab. unfold composite_doc, composite_px, finish.
  pose proof (apply_list_Inv _ (sample_list_wf ls vp x y k H) _ (init_Inv false cb ab Hcb Hab)) as I.
  repeat split; try apply finish_color_unit; try apply (inv_sg _ I); apply (inv_ag _ I).
Qed.
