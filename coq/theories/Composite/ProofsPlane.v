(* The viewport / bounding-box machinery of the document model computes the whole-plane function:
   for every viewport containing the pixel, sampling with the viewport and sampling on the whole plane give
   element lists that differ by shape-0 elements only (ProofsSim.v), hence equivalent results. *)
From Coq Require Import ZArith Reals Lra Psatz List Bool Lia ZifyBool.
From PsdV Require Import Composite.Scalar Composite.Model Composite.Geometry Composite.Doc Composite.Plane
  Composite.ProofsKernel Composite.ProofsGeometry Composite.ProofsBlend Composite.ProofsLaws Composite.ProofsLawsNS
  Composite.ProofsSim Composite.ProofsDoc Composite.ProofsViewport Composite.ProofsInsert Composite.ProofsWrap.
Import ListNotations.

Notation simT := (ProofsSim.sim true).

Lemma plane_group_unfold {O : Ops} x y k pass ch at_ clips :
  plane_layer (O:=O) x y k (Gr pass ch at_) clips =
  if negb (at_vis at_) then [] else
  [Group (negb pass) (plane_list x y k ch) (factors_plane x y at_) (blend_fn (at_bm at_)) (at_ko at_) clips].
Proof.
  cbn [plane_layer attrs_of]. destruct (negb (at_vis at_)); [reflexivity|].
  unfold plane_list.
  assert (E : forall ls,
    (fix go (ls : list layer) : list (elem O) * list (elem O) :=
       match ls with
       | [] => ([], [])
       | l :: tl =>
           let '(pend, res) := go tl in
           if at_clip (attrs_of l) then (plane_layer x y k l [] ++ pend, res)
           else ([], plane_layer x y k l pend ++ res)
       end) ls = plane_runs x y k ls).
  { induction ls as [|l tl IH]; [reflexivity|]. cbn [plane_runs]. rewrite IH. reflexivity. }
  rewrite E. destruct (plane_runs x y k ch). reflexivity.
Qed.

Lemma paste_is_abs_at {A : Type} vp bb (vals : Z -> Z -> A) bg x y :
  inside vp x y = true ->
  let '(vl, vt, _, _) := vp in paste vp bb vals bg (y - vt) (x - vl) = abs_at bb vals bg x y.
Proof.
  intros H. pose proof (paste_abs vp bb vals bg x y H) as P.
  destruct vp as [[[vl vt] vr] vb], bb as [[[bl bt] br] bb_]. unfold abs_at. exact P.
Qed.

Lemma factors_at_plane vp x y at_ :
  inside vp x y = true -> @factors_at ROps vp x y at_ = @factors_plane ROps x y at_.
Proof.
  intros H. unfold factors_at, factors_plane.
  destruct (at_mask at_) as [mk|]; [|destruct vp as [[[? ?] ?] ?]; reflexivity].
  pose proof (paste_is_abs_at vp (mk_rect mk) (@plane_at ROps (at_den at_) (mk_data mk) (rwidth (mk_rect mk)))
                (@byte ROps (mk_bg mk)) x y H) as P.
  destruct vp as [[[vl vt] vr] vb].
  destruct (mk_disabled mk); [reflexivity|].
  destruct (mk_data mk) eqn:Ed; [reflexivity|]. rewrite <- Ed in *. rewrite P. reflexivity.
Qed.

Section AtPixel.
Variables (x y : Z) (k : nat).

(* a pixel outside a layer's box: on the plane the layer is a null element there *)
Definition plane_null_ok (L : layer) : Prop :=
  inside (bbox_of L) x y = false -> forall clips, Forall (nullb true) (@plane_layer ROps x y k L clips).

Lemma plane_runs_null (ls : list layer) :
  Forall plane_null_ok ls ->
  (forall L, In L ls -> at_vis (attrs_of L) = true -> inside (bbox_of L) x y = false) ->
  Forall (nullb true) (fst (@plane_runs ROps x y k ls)) /\ Forall (nullb true) (snd (@plane_runs ROps x y k ls)).
Proof.
  induction 1 as [|L ls HL Hls IH]; intros Out; cbn [plane_runs]; [split; constructor|].
  assert (Out' : forall L0, In L0 ls -> at_vis (attrs_of L0) = true -> inside (bbox_of L0) x y = false)
    by (intros; apply Out; [right|]; assumption).
  destruct (IH Out') as [I1 I2]. destruct (plane_runs x y k ls) as [p q]. cbn [fst snd] in *.
  assert (HN : forall clips, Forall (nullb true) (@plane_layer ROps x y k L clips)).
  { intros clips. destruct (at_vis (attrs_of L)) eqn:Hv.
    - apply HL. apply Out; [left; reflexivity | exact Hv].
    - destruct L; cbn [plane_layer attrs_of] in *; rewrite Hv; constructor. }
  destruct (at_clip (attrs_of L)); cbn [fst snd].
  - split; [|assumption]. apply Forall_app. split; [apply HN | assumption].
  - split; [constructor|]. apply Forall_app. split; [apply HN | assumption].
Qed.

Lemma plane_layer_null (L : layer) : plane_null_ok L.
Proof.
  induction L as [rc chans alpha at_ | pass ch at_ IH] using layer_ind'; intros Hout clips.
  - cbn [plane_layer attrs_of bbox_of] in *.
    destruct (negb (at_vis at_)); [constructor|].
    constructor; [|constructor].
    unfold abs_at at 2. destruct rc as [[[bl bt] br] bb_]. rewrite Hout. apply nb_shape.
  - rewrite plane_group_unfold. destruct (negb (at_vis at_)); [constructor|].
    constructor; [|constructor]. apply nb_group.
    unfold plane_list.
    assert (Out : forall L, In L ch -> at_vis (attrs_of L) = true -> inside (bbox_of L) x y = false).
    { intros L HIn Hv. destruct (inside (bbox_of L) x y) eqn:E; [|reflexivity].
      rewrite (group_bbox_contains pass ch at_ L x y HIn Hv E) in Hout. discriminate Hout. }
    destruct (plane_runs_null ch IH Out) as [N1 N2].
    destruct (plane_runs x y k ch). apply Forall_app. split; assumption.
Qed.

Definition plane_ok (L : layer) : Prop :=
  forall vp clips' clips, inside vp x y = true -> simT clips' clips ->
  simT (@sample_layer ROps vp x y k L clips') (@plane_layer ROps x y k L clips).

Lemma runs_plane_sim (ls : list layer) vp :
  Forall plane_ok ls -> inside vp x y = true ->
  simT (fst (@sample_runs ROps vp x y k ls)) (fst (@plane_runs ROps x y k ls)) /\
  simT (snd (@sample_runs ROps vp x y k ls)) (snd (@plane_runs ROps x y k ls)).
Proof.
  intros H Hin. induction H as [|L ls HL Hls IH]; cbn [sample_runs plane_runs]; [split; apply sim_nil|].
  destruct (sample_runs vp x y k ls) as [pend' res'], (plane_runs x y k ls) as [pend res].
  cbn [fst snd] in IH. destruct IH as [IH1 IH2].
  destruct (at_clip (attrs_of L)); cbn [fst snd].
  - split; [|assumption]. apply sim_app; [apply HL; try assumption; apply sim_nil | assumption].
  - split; [apply sim_nil|]. apply sim_app; [apply HL; assumption | assumption].
Qed.

Lemma sim_dropR_all (l' l n : list elR) : Forall (nullb true) n -> simT l' l -> simT l' (n ++ l).
Proof. induction 1; intros; cbn; [assumption | apply sim_dropR; auto]. Qed.

Theorem sample_layer_plane (L : layer) : plane_ok L.
Proof.
  induction L as [rc chans alpha at_ | pass ch at_ IH] using layer_ind'; intros vp clips' clips Hin Hcl.
  - cbn [sample_layer plane_layer attrs_of bbox_of].
    destruct (negb (at_vis at_)); [apply sim_nil|].
    pose proof (paste_is_abs_at vp rc (@plane_at ROps (at_den at_) alpha (rwidth rc)) (@f0 ROps) x y Hin) as P1.
    pose proof (paste_is_abs_at vp rc (@plane_at ROps (at_den at_) (nth k chans []) (rwidth rc)) (@f1 ROps) x y Hin) as P2.
    pose proof (factors_at_plane vp x y at_ Hin) as Fc.
    destruct (is_zero_rect (intersect vp rc)) eqn:Z.
    + (* dropped by the viewport test: the pixel is outside the layer's box *)
      pose proof (zero_intersect_not_inside vp rc x y Z Hin) as Hout.
      apply sim_dropR; [|apply sim_nil].
      unfold abs_at at 2. destruct rc as [[[bl bt] br] bb_]. rewrite Hout. apply nb_shape.
    + destruct vp as [[[vl vt] vr] vb]. rewrite P1, P2, Fc.
      apply sim_cons; [apply esim_leaf; assumption | apply sim_nil].
  - rewrite sample_group_unfold, plane_group_unfold.
    destruct (negb (at_vis at_)) eqn:V; [apply sim_nil|].
    set (bb := bbox_of (Gr pass ch at_)).
    pose proof (factors_at_plane vp x y at_ Hin) as Fc.
    assert (Null : inside bb x y = false ->
       nullb true (GroupR (negb pass) (@plane_list ROps x y k ch) (factors_plane x y at_) (blend_fn (at_bm at_)) (at_ko at_) clips)).
    { intros Hout. unfold bb in Hout. pose proof (plane_layer_null (Gr pass ch at_) Hout clips) as N.
      rewrite plane_group_unfold, V in N. inversion N; assumption. }
    destruct (is_zero_rect (intersect vp bb)) eqn:Z.
    + apply sim_dropR; [|apply sim_nil]. apply Null. apply (zero_intersect_not_inside vp bb x y Z Hin).
    + cbn zeta. rewrite (inside_intersect_l vp bb x y Hin), Fc.
      destruct (inside bb x y) eqn:Hb.
      * apply sim_cons; [|apply sim_nil]. apply esim_group; [|assumption].
        unfold sample_list, plane_list.
        assert (Hin' : inside (intersect vp bb) x y = true) by (rewrite inside_intersect_l; assumption).
        destruct (runs_plane_sim ch (intersect vp bb) IH Hin') as [R1 R2].
        destruct (sample_runs (intersect vp bb) x y k ch), (plane_runs x y k ch). apply sim_app; assumption.
      * apply sim_dropL; [apply nb_shape|]. apply sim_dropR; [apply Null; reflexivity | apply sim_nil].
Qed.

Theorem sample_list_plane (ls : list layer) vp :
  inside vp x y = true -> simT (@sample_list ROps vp x y k ls) (@plane_list ROps x y k ls).
Proof.
  intros Hin. unfold sample_list, plane_list.
  assert (Hall : Forall plane_ok ls) by (apply Forall_forall; intros; apply sample_layer_plane).
  destruct (runs_plane_sim ls vp Hall Hin) as [R1 R2].
  destruct (sample_runs vp x y k ls), (plane_runs x y k ls). apply sim_app; assumption.
Qed.

End AtPixel.

(* ---- well-formedness of plane samples *)
Open Scope R_scope.

Lemma abs_at_unit bb (vals : Z -> Z -> R) bg x y :
  (forall i j, unit (vals i j)) -> unit bg -> unit (abs_at bb vals bg x y).
Proof. intros Hv Hb. unfold abs_at. destruct bb as [[[bl bt] br] bb_]. destruct (inside _ x y); [apply Hv | exact Hb]. Qed.

Lemma factors_plane_ok x y at_ : attrs_ok at_ -> fa_ok (@factors_plane ROps x y at_).
Proof.
  intros (Hop & Hfill & Hm). unfold factors_plane, fa_ok. cbn [fm fd fk fq].
  assert (Hmd : unit (fst (match at_mask at_ with
      | Some mk => if mk_disabled mk then (@f1 ROps, @f1 ROps) else
          (match mk_data mk with [] => @f1 ROps | _ :: _ =>
             abs_at (mk_rect mk) (@plane_at ROps (at_den at_) (mk_data mk) (rwidth (mk_rect mk))) (@byte ROps (mk_bg mk)) x y end,
           match mk_density mk with None => @f1 ROps | Some d => @byte ROps d end)
      | None => (@f1 ROps, @f1 ROps) end)) /\
     unit (snd (match at_mask at_ with
      | Some mk => if mk_disabled mk then (@f1 ROps, @f1 ROps) else
          (match mk_data mk with [] => @f1 ROps | _ :: _ =>
             abs_at (mk_rect mk) (@plane_at ROps (at_den at_) (mk_data mk) (rwidth (mk_rect mk))) (@byte ROps (mk_bg mk)) x y end,
           match mk_density mk with None => @f1 ROps | Some d => @byte ROps d end)
      | None => (@f1 ROps, @f1 ROps) end))).
  { destruct (at_mask at_) as [mk|]; [|split; apply unit_1].
    destruct Hm as (Hd & Hbg & Hden).
    destruct (mk_disabled mk); [split; apply unit_1|]. cbn [fst snd]. split.
    - destruct (mk_data mk) eqn:Ed; [apply unit_1|]. rewrite <- Ed in *. apply abs_at_unit.
      + intros. apply plane_at_unit. exact Hd.
      + apply byte_unit. exact Hbg.
    - destruct (mk_density mk); [apply byte_unit; exact Hden | apply unit_1]. }
  destruct Hmd as [H1 H2]. repeat split; try apply H1; try apply H2; apply byte_unit; assumption.
Qed.

Lemma plane_runs_wf x y k (ls : list layer) :
  Forall (fun L => forall clips, Forall wf clips -> Forall wf (@plane_layer ROps x y k L clips)) ls ->
  Forall wf (fst (@plane_runs ROps x y k ls)) /\ Forall wf (snd (@plane_runs ROps x y k ls)).
Proof.
  induction 1 as [|L ls HL Hls IH]; cbn [plane_runs]; [split; constructor|].
  destruct (plane_runs x y k ls) as [pend res]. cbn [fst snd] in IH. destruct IH as [IH1 IH2].
  destruct (at_clip (attrs_of L)); cbn [fst snd].
  - split; [|assumption]. apply Forall_app. split; [apply HL; constructor | assumption].
  - split; [constructor|]. apply Forall_app. split; [apply HL; assumption | assumption].
Qed.

Theorem plane_layer_wf (L : layer) : layer_ok L ->
  forall x y k clips, Forall wf clips -> Forall wf (@plane_layer ROps x y k L clips).
Proof.
  induction L as [rc chans alpha at_ | pass ch at_ IH] using layer_ind'; intros OK x y k clips Hc.
  - inversion OK; subst. cbn [plane_layer attrs_of].
    destruct (negb (at_vis at_)); [constructor|]. constructor; [|constructor].
    constructor; try assumption.
    + apply abs_at_unit; [|apply unit_1]. intros. apply plane_at_unit.
      destruct (Nat.lt_ge_cases k (length chans)) as [Hk|Hk].
      * match goal with H : Forall (vals_ok (at_den at_)) chans |- _ => rewrite Forall_forall in H; apply H end. apply nth_In. exact Hk.
      * rewrite nth_overflow by exact Hk. constructor.
    + apply abs_at_unit; [|apply unit_0]. intros. apply plane_at_unit. assumption.
    + apply factors_plane_ok. assumption.
    + apply blend_fn_range.
  - inversion OK; subst. rewrite plane_group_unfold.
    destruct (negb (at_vis at_)); [constructor|]. constructor; [|constructor].
    constructor; try assumption.
    + apply factors_plane_ok. assumption.
    + apply blend_fn_range.
    + unfold plane_list.
      assert (Hall : Forall (fun L => forall clips, Forall wf clips -> Forall wf (@plane_layer ROps x y k L clips)) ch).
      { rewrite Forall_forall in *. intros L HL clips0 Hc0. apply IH; auto. }
      destruct (plane_runs_wf x y k ch Hall) as [R1 R2].
      destruct (plane_runs x y k ch). apply Forall_app. split; assumption.
Qed.

Theorem plane_list_wf (ls : list layer) x y k : Forall layer_ok ls -> Forall wf (@plane_list ROps x y k ls).
Proof.
  intros H. unfold plane_list.
  assert (Hall : Forall (fun L => forall clips, Forall wf clips -> Forall wf (@plane_layer ROps x y k L clips)) ls).
  { rewrite Forall_forall in *. intros L HL clips0 Hc0. apply plane_layer_wf; auto. }
  destruct (plane_runs_wf x y k ls Hall) as [R1 R2].
  destruct (plane_runs x y k ls). apply Forall_app. split; assumption.
Qed.

(* Theorem: with ANY viewport containing the pixel the document model computes the whole-plane function *)
Theorem viewport_model_eq_plane (ls : list layer) (vp : rect) (cb ab : R) (x y : Z) (k : nat) :
  Forall layer_ok ls -> unit cb -> unit ab -> inside vp x y = true ->
  result_eq (@composite_doc ROps vp cb ab ls x y k) (@composite_plane ROps cb ab ls x y k).
Proof.
  intros OK Hcb Hab Hin. unfold composite_doc, composite_plane, composite_px, result_eq.
  pose proof (init_Inv false cb ab Hcb Hab) as I0.
  pose proof (sample_list_wf ls vp x y k OK) as W'.
  pose proof (plane_list_wf ls x y k OK) as W.
  pose proof (sim_sound_peq _ _ (sample_list_plane x y k ls vp Hin) W' W _ _ I0 I0 (peq_refl _)) as E.
  apply (finish_peq _ _ (apply_list_Inv _ W' _ I0) (apply_list_Inv _ W _ I0) E).
Qed.
