(* Document-level no-op insertion: a hidden layer, or a layer whose box misses the viewport, inserted anywhere
   in a sibling list leaves the SAMPLED ELEMENT LIST literally unchanged (hence every result), provided the
   insertion does not change which base the following clipping layers belong to: the inserted layer is itself
   a clipping layer, or the next sibling is not one.  Inside a group, a hidden layer also leaves the group's
   bounding box unchanged.  (Generic in the scalar structure: plain equalities.) *)
From Coq Require Import ZArith List Bool.
From PsdV Require Import Composite.Scalar Composite.Model Composite.Geometry Composite.Doc.
Import ListNotations.

Section Insert.
Context {O : Ops}.

Definition next_not_clipping (l2 : list layer) : Prop :=
  match l2 with [] => True | n :: _ => at_clip (attrs_of n) = false end.

Lemma runs_no_pending vp x y k (l2 : list layer) :
  next_not_clipping l2 -> fst (@sample_runs O vp x y k l2) = [].
Proof.
  destruct l2 as [|n t]; intros H; [reflexivity|]. cbn [sample_runs] in *.
  destruct (sample_runs vp x y k t). cbn in H. rewrite H. reflexivity.
Qed.

(* the inserted layer samples to nothing *)
Definition vanishes (vp : rect) (x y : Z) (k : nat) (N : layer) : Prop :=
  forall clips, @sample_layer O vp x y k N clips = [].

Lemma sample_runs_insert vp x y k (N : layer) (l1 l2 : list layer) :
  vanishes vp x y k N ->
  at_clip (attrs_of N) = true \/ next_not_clipping l2 ->
  @sample_runs O vp x y k (l1 ++ N :: l2) = @sample_runs O vp x y k (l1 ++ l2).
Proof.
  intros V Hc. induction l1 as [|a l1 IH]; cbn [app sample_runs].
  - destruct (sample_runs vp x y k l2) as [pend res] eqn:E.
    destruct (at_clip (attrs_of N)) eqn:C.
    + rewrite V. reflexivity.
    + destruct Hc as [Hc|Hc]; [discriminate Hc|].
      pose proof (runs_no_pending vp x y k l2 Hc) as P. rewrite E in P. cbn in P. subst pend.
      rewrite V. reflexivity.
  - rewrite IH. reflexivity.
Qed.

Theorem sample_list_insert vp x y k (N : layer) (l1 l2 : list layer) :
  vanishes vp x y k N ->
  at_clip (attrs_of N) = true \/ next_not_clipping l2 ->
  @sample_list O vp x y k (l1 ++ N :: l2) = @sample_list O vp x y k (l1 ++ l2).
Proof. intros V Hc. unfold sample_list. rewrite (sample_runs_insert vp x y k N l1 l2 V Hc). reflexivity. Qed.

Lemma hidden_vanishes vp x y k (N : layer) : at_vis (attrs_of N) = false -> vanishes vp x y k N.
Proof. intros H clips. destruct N; cbn [sample_layer attrs_of] in *; rewrite H; reflexivity. Qed.

Lemma outside_vanishes vp x y k (N : layer) :
  is_zero_rect (intersect vp (bbox_of N)) = true -> vanishes vp x y k N.
Proof.
  intros H clips. destruct N; cbn [sample_layer attrs_of] in *;
    destruct (at_vis _); cbn [negb]; try reflexivity; rewrite H; reflexivity.
Qed.

(* a hidden layer does not take part in the bounding box of the group it is inserted into *)
Lemma bbox_insert_hidden pass (N : layer) (l1 l2 : list layer) at_ :
  at_vis (attrs_of N) = false ->
  bbox_of (Gr pass (l1 ++ N :: l2) at_) = bbox_of (Gr pass (l1 ++ l2) at_).
Proof.
  intros H. cbn [bbox_of].
  set (go := fix go (ls : list layer) (acc : option rect) {struct ls} : option rect :=
        match ls with
        | [] => acc
        | x :: tl =>
            go tl (if at_vis (attrs_of x)
                   then if is_zero_rect (bbox_of x) then acc
                        else Some match acc with Some r => rect_union r (bbox_of x) | None => bbox_of x end
                   else acc)
        end).
  assert (E : forall l1 acc, go (l1 ++ N :: l2) acc = go (l1 ++ l2) acc).
  { induction l0 as [|a l0 IH]; intros acc; cbn [app].
    - cbn [go]. rewrite H. reflexivity.
    - cbn [go]. apply IH. }
  rewrite E. reflexivity.
Qed.

(* a hidden layer inserted into a group (any position compatible with the clipping runs) changes nothing *)
Theorem sample_group_insert_hidden vp x y k pass (N : layer) (l1 l2 : list layer) at_ clips :
  at_vis (attrs_of N) = false ->
  at_clip (attrs_of N) = true \/ next_not_clipping l2 ->
  @sample_layer O vp x y k (Gr pass (l1 ++ N :: l2) at_) clips =
  @sample_layer O vp x y k (Gr pass (l1 ++ l2) at_) clips.
Proof.
  intros Hv Hc. cbn [sample_layer attrs_of].
  rewrite (bbox_insert_hidden pass N l1 l2 at_ Hv).
  destruct (negb (at_vis at_)); [reflexivity|].
  destruct (is_zero_rect (intersect vp (bbox_of (Gr pass (l1 ++ l2) at_)))); [reflexivity|].
  destruct vp as [[[vl vt] vr] vb].
  set (vp' := intersect (vl, vt, vr, vb) (bbox_of (Gr pass (l1 ++ l2) at_))).
  destruct (inside vp' x y); [|reflexivity].
  assert (E : forall ls,
    (fix go (ls : list layer) : list (elem O) * list (elem O) :=
       match ls with
       | [] => ([], [])
       | l :: tl =>
           let '(pend, res) := go tl in
           if at_clip (attrs_of l) then (sample_layer vp' x y k l [] ++ pend, res)
           else ([], sample_layer vp' x y k l pend ++ res)
       end) ls = sample_runs vp' x y k ls).
  { induction ls as [|l tl IH]; [reflexivity|]. cbn [sample_runs]. rewrite IH. reflexivity. }
  rewrite !E. rewrite (sample_runs_insert vp' x y k N l1 l2 (hidden_vanishes vp' x y k N Hv) Hc). reflexivity.
Qed.

End Insert.
