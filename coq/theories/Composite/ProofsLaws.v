(* C13 algebra on the per-pixel kernel: equivalence of states modulo colour under zero alpha,
   congruence of every step, no-op sources, pass-through wrapping. *)
From Coq Require Import Reals Lra Psatz List Bool.
From PsdV Require Import Composite.Scalar Composite.Model Composite.Spec Composite.ProofsKernel.
Import ListNotations.
Open Scope R_scope.

(* Two Compositor states are equivalent when they agree on everything that can ever be observed:
   the colour fields only matter multiplied by their alpha (0/0 -> 1 makes colour under alpha 0 arbitrary). *)
Record peq (s t : stR) : Prop := {
  pe_a0 : a0 s = a0 t;
  pe_c0 : a0 s * c0 s = a0 t * c0 t;
  pe_sg : sg s = sg t;
  pe_ag : ag s = ag t;
  pe_a : a s = a t;
  pe_c : a s * c s = a t * c t
}.

Lemma peq_refl s : peq s s.
Proof. constructor; reflexivity. Qed.

Lemma peq_sym s t : peq s t -> peq t s.
Proof. intros [? ? ? ? ? ?]. constructor; symmetry; assumption. Qed.

Lemma peq_trans s t u : peq s t -> peq t u -> peq s u.
Proof. intros [? ? ? ? ? ?] [? ? ? ? ? ?]. constructor; etransitivity; eassumption. Qed.

Lemma mul_cancel_l (x y z : R) : x <> 0 -> x * y = x * z -> y = z.
Proof. intros H E. apply Rmult_eq_reg_l with x; assumption. Qed.

(* --- congruence of _apply_source: equivalent states, same source (or any colours when the source alpha is 0) *)
Lemma apply_source_peq (s t : stR) cs cs' fs als B ko :
  peq s t -> (als = 0 \/ cs = cs') ->
  peq (@apply_source ROps s cs fs als B ko) (@apply_source ROps t cs' fs als B ko)
  /\ c (@apply_source ROps s cs fs als B ko) = c (@apply_source ROps t cs' fs als B ko).
Proof.
  intros [E0 Ec0 Esg Eag Ea Ec] Hsrc.
  (* the numerator of the new colour is the same on both sides *)
  assert (Hnum : forall ab cb ab' cb' : R, ab = ab' -> ab * cb = ab' * cb' ->
            (fs - als) * ab * cb + als * ((1 - ab) * cs + ab * B cb cs)
          = (fs - als) * ab' * cb' + als * ((1 - ab') * cs' + ab' * B cb' cs')).
  { intros ab cb ab' cb' Hab Hp. subst ab'.
    destruct Hsrc as [Z | Ecs].
    - subst als. replace ((fs - 0) * ab * cb) with (fs * (ab * cb)) by ring.
      replace ((fs - 0) * ab * cb') with (fs * (ab * cb')) by ring. rewrite Hp. ring.
    - subst cs'. destruct (Req_dec ab 0) as [Z | NZ].
      + subst ab. ring.
      + apply mul_cancel_l in Hp; [|assumption]. subst cb'. reflexivity. }
  assert (Hcol : c (@apply_source ROps s cs fs als B ko) = c (@apply_source ROps t cs' fs als B ko)).
  { destruct ko; cbn; toR.
    - f_equal. f_equal.
      + rewrite (Hnum (a0 s) (c0 s) (a0 t) (c0 t) E0 Ec0).
        replace ((1 - fs) * a s * c s) with ((1 - fs) * (a s * c s)) by ring.
        replace ((1 - fs) * a t * c t) with ((1 - fs) * (a t * c t)) by ring. rewrite Ec. reflexivity.
      + rewrite E0, Eag. reflexivity.
    - f_equal. f_equal.
      + rewrite (Hnum (a s) (c s) (a t) (c t) Ea Ec).
        replace ((1 - fs) * a s * c s) with ((1 - fs) * (a s * c s)) by ring.
        replace ((1 - fs) * a t * c t) with ((1 - fs) * (a t * c t)) by ring. rewrite Ec. reflexivity.
      + rewrite E0, Eag. reflexivity. }
  assert (Ha' : a (@apply_source ROps s cs fs als B ko) = a (@apply_source ROps t cs' fs als B ko))
    by (destruct ko; cbn; toR; rewrite E0, Eag; reflexivity).
  assert (Hag' : ag (@apply_source ROps s cs fs als B ko) = ag (@apply_source ROps t cs' fs als B ko))
    by (destruct ko; cbn; toR; rewrite ?E0, Eag; reflexivity).
  assert (Hsg' : sg (@apply_source ROps s cs fs als B ko) = sg (@apply_source ROps t cs' fs als B ko))
    by (destruct ko; cbn; toR; rewrite Esg; reflexivity).
  split; [|exact Hcol].
  constructor.
  - destruct ko; exact E0.
  - destruct ko; exact Ec0.
  - exact Hsg'.
  - exact Hag'.
  - exact Ha'.
  - rewrite Ha', Hcol. reflexivity.
Qed.

(* --- no-op law: a source with shape 0 and alpha 0 (hidden is simply not applied; a layer outside the
       viewport or with alpha 0 at this pixel arrives here with shape = alpha = 0) *)
Lemma apply_source_null (s : stR) cs B ko :
  Inv s -> peq (@apply_source ROps s cs 0 0 B ko) s.
Proof.
  intros I. pose proof (inv_a _ I) as Ia. pose proof (inv_c _ I) as Hc.
  assert (Ea : a (@apply_source ROps s cs 0 0 B ko) = a s).
  { destruct ko; cbn; toR; rewrite Ia; ring. }
  constructor.
  - destruct ko; reflexivity.
  - destruct ko; reflexivity.
  - destruct ko; cbn; toR; ring.
  - destruct ko; cbn; toR; ring.
  - exact Ea.
  - rewrite Ea.
    assert (Hcc : c (@apply_source ROps s cs 0 0 B ko) = @clip ROps (@divs ROps (a s * c s) (a s))).
    { destruct ko; cbn -[clip divs]; toR; (f_equal; f_equal); try ring; rewrite Ia; ring. }
    rewrite Hcc. destruct (Req_dec (a s) 0) as [Z | NZ].
    + rewrite Z. ring.
    + rewrite divs_nz by assumption. replace (a s * c s / a s) with (c s) by (rfield; assumption).
      rewrite clip_id by exact Hc. reflexivity.
Qed.

(* zero OPACITY (alpha 0 but shape f): group alpha, total alpha and premultiplied colour are unchanged;
   only the shape grows - which is what PDF prescribes (shape is not opacity).  Normal path. *)
Lemma apply_source_zero_alpha (s : stR) cs fs B :
  Inv s -> unit fs ->
  let s' := @apply_source ROps s cs fs 0 B false in
  ag s' = ag s /\ a s' = a s /\ a s' * c s' = a s * c s /\ sg s' = sg s + fs - sg s * fs.
Proof.
  intros I Hf s'. pose proof (inv_a _ I) as Ia. pose proof (inv_c _ I) as Hc.
  assert (Eag : ag s' = ag s) by (cbn; toR; ring).
  assert (Ea : a s' = a s) by (cbn; toR; rewrite Ia; ring).
  split; [exact Eag|]. split; [exact Ea|]. split; [|cbn; toR; ring].
  rewrite Ea.
  assert (Hcc : c s' = @clip ROps (@divs ROps (a s * c s) (a s))).
  { unfold s'. cbn -[clip divs]. toR. (f_equal; f_equal); try ring; rewrite Ia; ring. }
  rewrite Hcc. destruct (Req_dec (a s) 0) as [Z | NZ].
  - rewrite Z. ring.
  - rewrite divs_nz by assumption. replace (a s * c s / a s) with (c s) by (rfield; assumption).
    rewrite clip_id by exact Hc. reflexivity.
Qed.

(* ------------------------------------------------------------------ elements as sources *)
(* what Compositor.apply hands to _apply_source for element e when the group's backdrop is (cb, ab) *)
Definition elem_src (e : elR) (cb ab : R) : R * R * R :=
  match e with
  | Leaf cs f fa B ko clips =>
      (c (apply_list clips (@init ROps false cs f)), f * fm fa * fk fa, f * (fm fa * fd fa * fq fa) * fk fa)
  | Group iso ch fa B ko clips =>
      let g := apply_list ch (@init ROps iso cb ab) in
      (c (apply_list clips (@init ROps false (@finish_color ROps g) (ag g))),
       sg g * fm fa * fk fa, ag g * (fm fa * fd fa * fq fa) * fk fa)
  end.
Definition elem_B (e : elR) : R -> R -> R := match e with Leaf _ _ _ B _ _ => B | Group _ _ _ B _ _ => B end.
Definition elem_ko (e : elR) : bool := match e with Leaf _ _ _ _ ko _ => ko | Group _ _ _ _ ko _ => ko end.
Definition backdrop (s : stR) (ko : bool) : R * R := if ko then (c0 s, a0 s) else (c s, a s).

Lemma apply_elem_src (e : elR) (s : stR) :
  apply_elem e s =
  let '(cb, ab) := backdrop s (elem_ko e) in
  let '(col, fs, als) := elem_src e cb ab in
  @apply_source ROps s col fs als (elem_B e) (elem_ko e).
Proof. destruct e as [cs f fa B ko clips | iso ch fa B ko clips]; destruct ko; reflexivity. Qed.

Lemma backdrop_unit (s : stR) ko : Inv s -> unit (fst (backdrop s ko)) /\ unit (snd (backdrop s ko)).
Proof.
  intros I. destruct ko; cbn.
  - split; [apply (inv_c0 _ I) | apply (inv_a0 _ I)].
  - split; [apply (inv_c _ I) | apply (Inv_a_unit _ I)].
Qed.

Lemma elem_src_ok (e : elR) cb ab : wf e -> unit cb -> unit ab ->
  let '(col, fs, als) := elem_src e cb ab in src_ok col fs als /\ blend_ok (elem_B e).
Proof.
  intros W Hcb Hab. inversion W; subst; cbn [elem_src elem_B].
  - pose proof (apply_list_Inv clips ltac:(assumption) _ (init_Inv false cs f ltac:(assumption) ltac:(assumption))) as Ic.
    split; [|assumption].
    apply (factors_src_ok _ f f fa); try assumption; [apply (inv_c _ Ic) | unfold unit in *; lra].
  - pose proof (apply_list_Inv ch ltac:(assumption) _ (init_Inv iso cb ab Hcb Hab)) as Ig.
    set (g := apply_list ch (@init ROps iso cb ab)) in *.
    pose proof (apply_list_Inv clips ltac:(assumption) _
                  (init_Inv false _ _ (finish_color_unit g) (inv_ag _ Ig))) as Ic.
    split; [|assumption].
    apply (factors_src_ok _ (sg g) (ag g) fa); try assumption.
    + apply (inv_c _ Ic).
    + apply (inv_sg _ Ig).
    + split; [apply (inv_ag _ Ig) | apply (inv_as _ Ig)].
Qed.

Lemma apply_elem_Inv' (e : elR) (s : stR) : wf e -> Inv s -> Inv (apply_elem e s).
Proof. intros; apply apply_elem_Inv; assumption. Qed.

Lemma init_peq iso cb cb' ab : ab * cb = ab * cb' -> peq (@init ROps iso cb ab) (@init ROps iso cb' ab).
Proof.
  intros H. destruct iso; constructor; cbn; toR; try reflexivity; try ring; assumption.
Qed.

Definition cong (e : elR) : Prop :=
  forall s t, Inv s -> Inv t -> peq s t -> peq (apply_elem e s) (apply_elem e t).

Lemma fold_peq (l : list elR) : Forall wf l -> Forall cong l ->
  forall s t, Inv s -> Inv t -> peq s t -> peq (apply_list l s) (apply_list l t).
Proof.
  induction l as [|e l IH]; intros W C s t Is It E; cbn; [assumption|].
  inversion W; inversion C; subst. apply IH; try assumption.
  - apply apply_elem_Inv; assumption.
  - apply apply_elem_Inv; assumption.
  - match goal with H : cong e |- _ => apply H; assumption end.
Qed.

(* the source an element produces depends on the backdrop only through (alpha, alpha*colour) *)
Definition src_rel (e : elR) : Prop :=
  forall cb cb' ab, unit cb -> unit cb' -> unit ab -> ab * cb = ab * cb' ->
  let '(col, fs, als) := elem_src e cb ab in
  let '(col', fs', als') := elem_src e cb' ab in
  fs = fs' /\ als = als' /\ (als = 0 \/ col = col').

Lemma src_rel_cong (e : elR) : wf e -> src_rel e -> cong e.
Proof.
  intros W SR s t Is It E.
  rewrite !apply_elem_src.
  destruct (backdrop_unit s (elem_ko e) Is) as [U1 U2].
  destruct (backdrop_unit t (elem_ko e) It) as [U1' U2'].
  assert (Hb : snd (backdrop s (elem_ko e)) = snd (backdrop t (elem_ko e)) /\
               snd (backdrop s (elem_ko e)) * fst (backdrop s (elem_ko e))
               = snd (backdrop t (elem_ko e)) * fst (backdrop t (elem_ko e))).
  { destruct E. destruct (elem_ko e); cbn; split; assumption. }
  destruct (backdrop s (elem_ko e)) as [cb ab], (backdrop t (elem_ko e)) as [cb' ab']. cbn [fst snd] in *.
  destruct Hb as [Hab Hp]. subst ab'.
  specialize (SR cb cb' ab U1 U1' U2 Hp).
  destruct (elem_src e cb ab) as [[col fs] als], (elem_src e cb' ab) as [[col' fs'] als'].
  destruct SR as (-> & -> & Hc).
  apply apply_source_peq; assumption.
Qed.

Lemma all_src_rel (e : elR) : wf e -> src_rel e.
Proof.
  induction e as [cs f fa B ko clips IHc | iso ch fa B ko clips IHch IHc] using elem_ind';
    intros W; inversion W; subst; intros cb cb' ab Hcb Hcb' Hab Hp; cbn [elem_src].
  - repeat split; try reflexivity. right. reflexivity.
  - assert (Cch : Forall cong ch).
    { rewrite Forall_forall in *. intros x Hx. apply src_rel_cong; auto. }
    assert (Ccl : Forall cong clips).
    { rewrite Forall_forall in *. intros x Hx. apply src_rel_cong; auto. }
    pose proof (init_Inv iso cb ab Hcb Hab) as I1.
    pose proof (init_Inv iso cb' ab Hcb' Hab) as I2.
    pose proof (fold_peq ch ltac:(assumption) Cch _ _ I1 I2 (init_peq iso cb cb' ab Hp)) as Eg.
    pose proof (apply_list_Inv ch ltac:(assumption) _ I1) as Ig.
    pose proof (apply_list_Inv ch ltac:(assumption) _ I2) as Ig'.
    set (g := apply_list ch (@init ROps iso cb ab)) in *.
    set (g' := apply_list ch (@init ROps iso cb' ab)) in *.
    destruct Eg as [E0 Ec0 Esg Eag Ea Ec].
    rewrite <- Esg, <- Eag. split; [reflexivity|]. split; [reflexivity|].
    destruct (Req_dec (ag g) 0) as [Z | NZ].
    + left. rewrite Z. ring.
    + right.
      assert (Hfc : @finish_color ROps g = @finish_color ROps g').
      { destruct (finish_unclipped g Ig NZ) as (_ & F1 & F2).
        assert (NZ' : ag g' <> 0) by (rewrite <- Eag; exact NZ).
        destruct (finish_unclipped g' Ig' NZ') as (_ & F1' & F2').
        rewrite F1, F1'. apply mul_cancel_l with (ag g); [exact NZ|].
        transitivity (a g * c g - a0 g * c0 g * (1 - ag g)); [exact F2|].
        rewrite Eag. symmetry. rewrite F2'. rewrite Ec, Ec0. reflexivity. }
      rewrite Hfc. reflexivity.
Qed.

(* Theorem: every element respects the equivalence (colour under zero alpha never leaks) *)
Theorem apply_elem_peq (e : elR) : wf e -> cong e.
Proof. intros W. apply src_rel_cong; [assumption | apply all_src_rel; assumption]. Qed.

Theorem apply_list_peq (l : list elR) : Forall wf l ->
  forall s t, Inv s -> Inv t -> peq s t -> peq (apply_list l s) (apply_list l t).
Proof.
  intros W. apply fold_peq; [assumption|]. rewrite Forall_forall in *. intros x Hx. apply apply_elem_peq; auto.
Qed.

(* finish respects the equivalence: same shape and alpha, same premultiplied colour *)
Theorem finish_peq (s t : stR) : Inv s -> Inv t -> peq s t ->
  let '(C, f, al) := @finish ROps s in let '(C', f', al') := @finish ROps t in
  f = f' /\ al = al' /\ al * C = al' * C'.
Proof.
  intros Is It [E0 Ec0 Esg Eag Ea Ec]. unfold finish. repeat split; try assumption.
  destruct (Req_dec (ag s) 0) as [Z | NZ].
  - rewrite <- Eag, Z. ring.
  - destruct (finish_unclipped s Is NZ) as (_ & F1 & F2).
    assert (NZ' : ag t <> 0) by (rewrite <- Eag; exact NZ).
    destruct (finish_unclipped t It NZ') as (_ & F1' & F2').
    rewrite F1, F1', F2, F2', Ec, Ec0, Eag. reflexivity.
Qed.

(* ------------------------------------------------------------------ no-op elements *)
(* an element whose own shape is 0 at this pixel (outside its box, alpha 0, ...) whatever its clip layers *)
Theorem leaf_null_noop cs fa B ko clips (s : stR) :
  Inv s -> peq (apply_elem (LeafR cs 0 fa B ko clips) s) s.
Proof.
  intros I. cbn [apply_elem]. unfold apply_factors. change (fmul ROps) with Rmult. toR.
  replace (0 * fm fa * fk fa) with 0 by rring.
  replace (0 * (fm fa * fd fa * fq fa) * fk fa) with 0 by rring.
  apply apply_source_null. exact I.
Qed.

(* a zero-opacity (or zero fill-opacity x zero alpha ...) leaf: alpha and premultiplied colour unchanged *)
Theorem leaf_zero_opacity_noop cs f fa B clips (s : stR) :
  Inv s -> unit f -> fa_ok fa -> fq fa = 0 ->
  let s' := apply_elem (LeafR cs f fa B false clips) s in
  ag s' = ag s /\ a s' = a s /\ a s' * c s' = a s * c s.
Proof.
  intros I Hf (Hm & Hd & Hk & Hq) Z s'. unfold s'. cbn [apply_elem]. unfold apply_factors. change (fmul ROps) with Rmult. toR.
  rewrite Z. replace (f * (fm fa * fd fa * 0) * fk fa) with 0 by rring.
  assert (U : unit (f * fm fa * fk fa)).
  { unfold unit in *. assert (0 <= f * fm fa <= 1) by (split; nra). split; nra. }
  destruct (apply_source_zero_alpha s (c (fold_left (fun s0 e' => apply_elem e' s0) clips (@init ROps false cs f)))
              (f * fm fa * fk fa) B I U) as (E1 & E2 & E3 & _).
  repeat split; assumption.
Qed.

(* ------------------------------------------------------------------ pass-through wrapping *)
(* what the NEXT non-knockout element can see of a state: total alpha and premultiplied colour *)
Definition veq (s t : stR) : Prop := a s = a t /\ a s * c s = a t * c t.

Lemma apply_elem_backdrop_fields (e : elR) (s : stR) :
  a0 (apply_elem e s) = a0 s /\ c0 (apply_elem e s) = c0 s.
Proof.
  rewrite apply_elem_src. destruct (backdrop s (elem_ko e)) as [cb ab].
  destruct (elem_src e cb ab) as [[col fs] als]. split; reflexivity.
Qed.

Lemma apply_list_backdrop_fields (l : list elR) : forall s : stR,
  a0 (apply_list l s) = a0 s /\ c0 (apply_list l s) = c0 s.
Proof.
  induction l as [|e l IH]; intros s; cbn; [split; reflexivity|].
  destruct (IH (apply_elem e s)) as [E1 E2]. destruct (apply_elem_backdrop_fields e s) as [E3 E4].
  unfold apply_list in *. rewrite E1, E2, E3, E4. split; reflexivity.
Qed.

Lemma nonko_step (e : elR) (u v : stR) :
  wf e -> elem_ko e = false -> Inv u -> Inv v -> veq u v ->
  veq (apply_elem e u) (apply_elem e v) /\
  exists fs als : R,
    1 - ag (apply_elem e u) = (1 - ag u) * (1 - als) /\ 1 - ag (apply_elem e v) = (1 - ag v) * (1 - als) /\
    1 - sg (apply_elem e u) = (1 - sg u) * (1 - fs) /\ 1 - sg (apply_elem e v) = (1 - sg v) * (1 - fs).
Proof.
  intros W Hko Iu Iv [Ea Ec].
  rewrite !apply_elem_src, Hko. cbn [backdrop].
  pose proof (all_src_rel e W (c u) (c v) (a u) (inv_c _ Iu) (inv_c _ Iv) (Inv_a_unit _ Iu)) as SR.
  assert (Hp : a u * c u = a u * c v) by (rewrite Ec, Ea; reflexivity).
  specialize (SR Hp).
  pose proof (elem_src_ok e (c u) (a u) W (inv_c _ Iu) (Inv_a_unit _ Iu)) as Su.
  pose proof (elem_src_ok e (c v) (a v) W (inv_c _ Iv) (Inv_a_unit _ Iv)) as Sv.
  rewrite <- Ea in Sv |- *.
  destruct (elem_src e (c u) (a u)) as [[col fs] als], (elem_src e (c v) (a u)) as [[col' fs'] als'].
  destruct SR as (<- & <- & Hc). destruct Su as [Su HB], Sv as [Sv _].
  destruct (apply_source_normal_Inv u col fs als (elem_B e) Iu Su HB) as [Iu' Hu].
  destruct (apply_source_normal_Inv v col' fs als (elem_B e) Iv Sv HB) as [Iv' Hv].
  destruct (apply_source_normal_fields u col fs als (elem_B e)) as (_ & _ & U2 & U3 & U4).
  destruct (apply_source_normal_fields v col' fs als (elem_B e)) as (_ & _ & V2 & V3 & V4).
  set (u' := @apply_source ROps u col fs als (elem_B e) false) in *.
  set (v' := @apply_source ROps v col' fs als (elem_B e) false) in *.
  assert (Eau : a u' = a u + als - a u * als) by (rewrite U4; apply alpha_step; apply (inv_a _ Iu)).
  assert (Eav : a v' = a v + als - a v * als) by (rewrite V4; apply alpha_step; apply (inv_a _ Iv)).
  assert (Ea' : a u' = a v') by (rewrite Eau, Eav, Ea; reflexivity).
  split.
  - split; [exact Ea'|].
    destruct (Req_dec (a u') 0) as [Z | NZ].
    + rewrite <- Ea', Z. ring.
    + assert (NZ' : a v' <> 0) by (rewrite <- Ea'; exact NZ).
      rewrite (Rmult_comm (a u')), (Hu NZ), (Rmult_comm (a v')), (Hv NZ').
      unfold num_normal. rewrite <- Ec, <- Ea.
      destruct Hc as [Z | <-].
      * rewrite Z. ring.
      * destruct (Req_dec (a u) 0) as [Z | NZa].
        -- rewrite Z. ring.
        -- assert (c u = c v) by (apply mul_cancel_l with (a u); assumption). congruence.
  - exists fs, als. rewrite U3, V3, U2, V2. repeat split; ring.
Qed.

Lemma nonko_fold (l : list elR) :
  Forall wf l -> Forall (fun e => elem_ko e = false) l ->
  forall u v : stR, Inv u -> Inv v -> veq u v ->
  veq (apply_list l u) (apply_list l v) /\
  exists K K' : R,
    1 - ag (apply_list l u) = (1 - ag u) * K /\ 1 - ag (apply_list l v) = (1 - ag v) * K /\
    1 - sg (apply_list l u) = (1 - sg u) * K' /\ 1 - sg (apply_list l v) = (1 - sg v) * K'.
Proof.
  induction l as [|e l IH]; intros W N u v Iu Iv E.
  - cbn. split; [assumption|]. exists 1, 1. repeat split; ring.
  - inversion W; inversion N; subst. cbn [apply_list fold_left].
    destruct (nonko_step e u v ltac:(assumption) ltac:(assumption) Iu Iv E) as [E1 (fs & als & A1 & A2 & A3 & A4)].
    destruct (IH ltac:(assumption) ltac:(assumption) (apply_elem e u) (apply_elem e v)
                 (apply_elem_Inv e ltac:(assumption) u Iu) (apply_elem_Inv e ltac:(assumption) v Iv) E1)
      as [E2 (K & K' & B1 & B2 & B3 & B4)].
    unfold apply_list in *. split; [exact E2|].
    exists ((1 - als) * K), ((1 - fs) * K'). rewrite B1, B2, B3, B4, A1, A2, A3, A4. repeat split; ring.
Qed.

Definition ones : faR := @mkFactors ROps 1 1 1 1.
Definition normal_fn : R -> R -> R := fun _ cs => cs.

(* Theorem passthrough_wrap: putting a run of elements into a full-opacity, unmasked, non-knockout
   pass-through group (blend function normal, as BLEND_FUNC.get(PASS_THROUGH, normal)) leaves the
   Compositor in an equivalent state - for element trees of any depth and any blend functions with
   range [0,1]; the elements of the run themselves must not be knockout elements (their backdrop would
   become the group's initial backdrop). *)
Theorem passthrough_wrap (l : list elR) (s : stR) :
  Forall wf l -> Forall (fun e => elem_ko e = false) l -> Inv s ->
  peq (apply_elem (GroupR false l ones normal_fn false []) s) (apply_list l s).
Proof.
  intros W N I.
  pose proof (Inv_a_unit _ I) as Ua. pose proof (inv_c _ I) as Uc.
  pose proof (init_Inv false (c s) (a s) Uc Ua) as Ig0.
  assert (E0 : veq (@init ROps false (c s) (a s)) s) by (split; reflexivity).
  destruct (nonko_fold l W N _ s Ig0 I E0) as [[Ea Ec] (K & K' & G1 & D1 & G2 & D2)].
  pose proof (apply_list_Inv l W _ Ig0) as Ig.
  pose proof (apply_list_Inv l W _ I) as Id.
  destruct (apply_list_backdrop_fields l (@init ROps false (c s) (a s))) as [Ga0 Gc0].
  destruct (apply_list_backdrop_fields l s) as [Da0 Dc0].
  cbn [apply_elem]. fold (apply_list l (@init ROps false (c s) (a s))).
  set (g := apply_list l (@init ROps false (c s) (a s))) in *.
  set (d := apply_list l s) in *.
  cbn in Ga0, Gc0, G1, G2. toR.
  unfold finish. cbn [fold_left init c]. unfold apply_factors, ones. cbn [fm fd fk fq]. change (fmul ROps) with Rmult. toR.
  replace (sg g * 1 * 1) with (sg g) by rring.
  replace (ag g * (1 * 1 * 1) * 1) with (ag g) by rring.
  set (C := @finish_color ROps g).
  assert (S : src_ok C (sg g) (ag g)).
  { split; [apply finish_color_unit|]. split; [split; [apply (inv_ag _ Ig) | apply (inv_as _ Ig)] | apply (inv_sg _ Ig)]. }
  assert (HB : blend_ok normal_fn) by (intros x y _ Hy; exact Hy).
  destruct (apply_source_normal_Inv s C (sg g) (ag g) normal_fn I S HB) as [Iw Hw].
  destruct (apply_source_normal_fields s C (sg g) (ag g) normal_fn) as (W0 & W1 & W2 & W3 & W4).
  set (w := @apply_source ROps s C (sg g) (ag g) normal_fn false) in *.
  (* group alpha / shape of the direct run, from the common factors K, K' *)
  assert (HK : K = 1 - ag g) by lra. assert (HK' : K' = 1 - sg g) by lra.
  rewrite HK in D1. rewrite HK' in D2.
  assert (Eag : ag w = ag d) by (rewrite W3; nra).
  assert (Esg : sg w = sg d) by (rewrite W2; nra).
  assert (Eaw : a w = a d).
  { rewrite (inv_a _ Iw), (inv_a _ Id), W1, Da0, Eag. reflexivity. }
  constructor.
  - rewrite W1, Da0. reflexivity.
  - rewrite W0, W1, Da0, Dc0. reflexivity.
  - exact Esg.
  - exact Eag.
  - exact Eaw.
  - destruct (Req_dec (a w) 0) as [Z | NZ].
    + rewrite <- Eaw, Z. ring.
    + rewrite (Rmult_comm (a w)), (Hw NZ). unfold num_normal, normal_fn.
      (* G*C = a_g c_g - a_s c_s (1 - G) *)
      assert (HGC : ag g * C = a g * c g - a s * c s * (1 - ag g)).
      { destruct (Req_dec (ag g) 0) as [Zg | NZg].
        - pose proof (inv_rm _ Ig) as R. rewrite Ga0, Gc0, Zg in R. rewrite Zg. lra.
        - destruct (finish_unclipped g Ig NZg) as (_ & F1 & F2). unfold C. rewrite F1, F2, Ga0, Gc0. reflexivity. }
      rewrite <- Ec.
      replace ((1 - ag g) * (a s * c s) + ag g * ((1 - a s) * C + a s * C))
        with ((1 - ag g) * (a s * c s) + ag g * C) by ring.
      rewrite HGC. ring.
Qed.

(* ------------------------------------------------------------------ pass-through group with opacity / mask *)
(* A non-knockout pass-through group with mask m, density d, fill k and opacity q (t = m*d*q*k) leaves the
   parent in the state that interpolates linearly, in premultiplied space, between the state before the
   group and the state reached by painting the children directly:  (1-t)*before + t*after. *)
Theorem passthrough_lerp (l : list elR) (fa : faR) (s : stR) :
  Forall wf l -> Forall (fun e => elem_ko e = false) l -> fa_ok fa -> Inv s ->
  let t := fm fa * fd fa * fq fa * fk fa in
  let w := apply_elem (GroupR false l fa normal_fn false []) s in
  let d := apply_list l s in
  a w = lerp t (a s) (a d) /\ a w * c w = lerp t (a s * c s) (a d * c d).
Proof.
  intros W N Hfa I t w d.
  pose proof (Inv_a_unit _ I) as Ua. pose proof (inv_c _ I) as Uc.
  pose proof (init_Inv false (c s) (a s) Uc Ua) as Ig0.
  assert (E0 : veq (@init ROps false (c s) (a s)) s) by (split; reflexivity).
  destruct (nonko_fold l W N _ s Ig0 I E0) as [[Ea Ec] (K & K' & G1 & D1 & G2 & D2)].
  pose proof (apply_list_Inv l W _ Ig0) as Ig.
  pose proof (apply_list_Inv l W _ I) as Id.
  destruct (apply_list_backdrop_fields l (@init ROps false (c s) (a s))) as [Ga0 Gc0].
  fold d in Ea, Ec, Id.
  set (g := apply_list l (@init ROps false (c s) (a s))) in *.
  cbn in Ga0, Gc0, G1, G2. toR.
  assert (Ew : w = @apply_source ROps s (@finish_color ROps g) (sg g * fm fa * fk fa)
                     (ag g * (fm fa * fd fa * fq fa) * fk fa) normal_fn false).
  { unfold w. cbn [apply_elem]. fold (apply_list l (@init ROps false (c s) (a s))). fold g.
    unfold finish. cbn [fold_left init c]. unfold apply_factors. change (fmul ROps) with Rmult. reflexivity. }
  set (C := @finish_color ROps g) in *.
  assert (S : src_ok C (sg g * fm fa * fk fa) (ag g * (fm fa * fd fa * fq fa) * fk fa)).
  { apply (factors_src_ok C (sg g) (ag g) fa); try assumption.
    - apply finish_color_unit.
    - apply (inv_sg _ Ig).
    - split; [apply (inv_ag _ Ig) | apply (inv_as _ Ig)]. }
  assert (HB : blend_ok normal_fn) by (intros x y _ Hy; exact Hy).
  destruct (apply_source_normal_Inv s C _ _ normal_fn I S HB) as [Iw Hw].
  destruct (apply_source_normal_fields s C (sg g * fm fa * fk fa) (ag g * (fm fa * fd fa * fq fa) * fk fa) normal_fn)
    as (_ & _ & _ & _ & W4).
  rewrite <- Ew in Iw, Hw, W4.
  assert (Et : ag g * (fm fa * fd fa * fq fa) * fk fa = t * ag g) by (unfold t; ring).
  rewrite Et in *.
  assert (Eaw : a w = a s + t * ag g - a s * (t * ag g)).
  { rewrite W4. apply alpha_step. apply (inv_a _ I). }
  (* a_d = Union(a_s, G) *)
  assert (Ead : a d = a s + ag g - a s * ag g).
  { rewrite <- Ea. rewrite (inv_a _ Ig), Ga0. reflexivity. }
  assert (HGC : ag g * C = a d * c d - a s * c s * (1 - ag g)).
  { rewrite <- Ec. destruct (Req_dec (ag g) 0) as [Zg | NZg].
    - pose proof (inv_rm _ Ig) as Rm. rewrite Ga0, Gc0, Zg in Rm. rewrite Zg. lra.
    - destruct (finish_unclipped g Ig NZg) as (_ & F1 & F2). unfold C. rewrite F1, F2, Ga0, Gc0. reflexivity. }
  split.
  - rewrite Eaw, Ead. unfold lerp. ring.
  - destruct (Req_dec (a w) 0) as [Z | NZ].
    + (* total alpha 0: both premultiplied colours vanish *)
      rewrite Z, Rmult_0_l. unfold lerp.
      assert (Ut : 0 <= t <= 1).
      { destruct Hfa as (Hm & Hd & Hk & Hq). unfold t, unit in *.
        assert (0 <= fm fa * fd fa <= 1) by (split; nra).
        assert (0 <= fm fa * fd fa * fq fa <= 1) by (split; nra). split; nra. }
      pose proof (inv_ag _ Ig) as Ug. pose proof (inv_c _ Id) as Ucd. pose proof (Inv_a_unit _ Id) as Uad.
      unfold unit in *.
      assert (Utg : 0 <= t * ag g <= 1) by (split; nra).
      rewrite Eaw in Z.
      assert (Zs : a s = 0) by nra.
      assert (Ztg : t * ag g = 0) by (rewrite Zs in Z; lra).
      rewrite Zs. destruct (Req_dec t 0) as [Zt | NZt].
      * rewrite Zt. rring.
      * assert (Zg : ag g = 0) by (apply Rmult_integral in Ztg; destruct Ztg; [contradiction|assumption]).
        assert (Zd : a d = 0) by (rewrite Ead, Zs, Zg; rring). rewrite Zd. rring.
    + rewrite (Rmult_comm (a w)), (Hw NZ). unfold num_normal, normal_fn, lerp.
      replace ((1 - t * ag g) * (a s * c s) + t * ag g * ((1 - a s) * C + a s * C))
        with ((1 - t * ag g) * (a s * c s) + t * (ag g * C)) by rring.
      rewrite HGC. ring.
Qed.
