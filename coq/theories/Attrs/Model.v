(* C16 - attribute edits.  Executable model of the attribute getters and setters of
   psd_tools.api.layers (Layer, Group, Artboard, ShapeLayer, FillLayer, PixelLayer) and of what
   PSDImage.save + PSDImage.open do to the fields those setters touch.

   Definitions only.  One layer is a record [layer]: the LayerRecord fields the setters write,
   the three tagged blocks they go through ([luni] unicode name, [lsct] section divider, [lspf]
   protection flags), blocks / flags they must leave alone ([iOpa], transparency_protected, the other
   flag bits), the kind (= which Python class the layer object has), the context the getters read
   (is the layer attached to a document, document size, bbox of shape / artboard / group content,
   visibility of the ancestors) and an opaque pixel payload.

   The model mirrors the code AS IT IS.  The three repairs proposed in /verif/proposed_fixes
   (c16_group_blend_mode, c16_lock_without_block, c16_clipping_detached) are switches of a [cfg]:
   [orig_cfg] is the code before them, [fixed_cfg] the code after them. *)
From PsdV Require Import Base.Prelude.

(* ------------------------------------------------------------------ outcomes *)
(* Python exception classes raised by the modelled code paths. *)
Inductive aerr :=
| EValue        (* ValueError: BlendMode(value) of an unknown key *)
| EAssert       (* AssertionError: name too long, opacity out of range *)
| EStruct       (* struct.error: a field does not fit its wire format on save *)
| EType         (* a value of the wrong Python type for the attribute (never generated) *)
| EAttribute    (* AttributeError: property 'left' of 'Group' object has no setter *)
| ENotImpl      (* NotImplementedError: ShapeLayer / Artboard position is not writable yet *)
| EUnicode.     (* UnicodeEncodeError: record name not encodable in macroman on save *)

Definition aerr_code (e : aerr) : Z :=
  match e with
  | EValue => 1 | EAssert => 4 | EStruct => 6 | EType => 7
  | EAttribute => 12 | ENotImpl => 13 | EUnicode => 14
  end.

Inductive ares (A : Type) := AOk (a : A) | AErr (e : aerr).
Arguments AOk {A} a.
Arguments AErr {A} e.

(* ------------------------------------------------------------------ constants *)
(* BlendMode members as the big-endian integer of their 4-byte key, in declaration order
   (psd_tools/constants.py).  Tied to the code by the correspondence stream "tables". *)
Definition bm_pass : Z := 1885434739.   (* b"pass" *)
Definition bm_norm : Z := 1852797549.   (* b"norm" *)
Definition blend_keys : list Z :=
  [1885434739; 1852797549; 1684632435; 1684107883; 1836411936; 1768188278; 1818391150;
   1684751212; 1818850405; 1935897198; 1684633120; 1818518631; 1818706796; 1870030194;
   1934387572; 1749838196; 1984719220; 1816947060; 1884055924; 1749903736; 1684629094;
   1936553316; 1718842722; 1717856630; 1752524064; 1935766560; 1668246642; 1819634976].

Fixpoint zmem (x : Z) (l : list Z) : bool :=
  match l with [] => false | y :: r => (x =? y) || zmem x r end.

Definition valid_blend (b : Z) : bool := zmem b blend_keys.

(* code points of bytes 0x80..0xFF in Python's mac_roman codec; 0..0x7F are themselves *)
Definition macroman_high : list Z :=
  [196; 197; 199; 201; 209; 214; 220; 225; 224; 226; 228; 227; 229; 231; 233; 232; 234; 235;
   237; 236; 238; 239; 241; 243; 242; 244; 246; 245; 250; 249; 251; 252; 8224; 176; 162; 163;
   167; 8226; 182; 223; 174; 169; 8482; 180; 168; 8800; 198; 216; 8734; 177; 8804; 8805; 165;
   181; 8706; 8721; 8719; 960; 8747; 170; 186; 937; 230; 248; 191; 161; 172; 8730; 402; 8776;
   8710; 171; 187; 8230; 160; 192; 195; 213; 338; 339; 8211; 8212; 8220; 8221; 8216; 8217; 247;
   9674; 255; 376; 8260; 8364; 8249; 8250; 64257; 64258; 8225; 183; 8218; 8222; 8240; 194; 202;
   193; 203; 200; 205; 206; 207; 204; 211; 212; 63743; 210; 218; 219; 217; 305; 710; 732; 175;
   728; 729; 730; 184; 733; 731; 711].

Definition macroman_char (c : Z) : bool := ((0 <=? c) && (c <? 128)) || zmem c macroman_high.
Definition macroman (s : list Z) : bool := forallb macroman_char s.

Definition qmark : Z := 63.   (* '?' *)

(* ------------------------------------------------------------------ state *)
Inductive kind := KPixel | KGroup | KArtboard | KType | KShape | KSmart | KFill | KAdjust.

Definition kind_code (k : kind) : Z :=
  match k with
  | KPixel => 0 | KGroup => 1 | KArtboard => 2 | KType => 3
  | KShape => 4 | KSmart => 5 | KFill => 6 | KAdjust => 7
  end.

(* Group and Artboard (a subclass) take the blend mode from the section divider block *)
Definition is_group (k : kind) : bool :=
  match k with KGroup | KArtboard => true | _ => false end.

(* SectionDividerSetting: kind, signature (present or None), blend_mode (or None), sub_type (or None) *)
Record sdiv := mkSdiv { sd_kind : Z; sd_sig : bool; sd_blend : option Z; sd_sub : option Z }.

Definition box := (Z * Z * Z * Z)%type.      (* (left, top, right, bottom) *)
Definition box0 : box := (0, 0, 0, 0).

Record layer := mkLayer {
  l_kind : kind;
  l_attached : bool;          (* bool(self._psd): a document is attached and has a top-level layer *)
  l_rname : list Z;           (* record.name, code points *)
  l_luni : option (list Z);   (* data of the 'luni' block *)
  l_tp : bool;                (* record.flags.transparency_protected *)
  l_vis : bool;               (* record.flags.visible *)
  l_fbits : Z;                (* the other six bits of the flags byte *)
  l_opacity : Z;              (* record.opacity *)
  l_rblend : Z;               (* record.blend_mode key *)
  l_clip : bool;              (* record.clipping == Clipping.NON_BASE *)
  l_left : Z; l_top : Z; l_right : Z; l_bottom : Z;     (* record rectangle *)
  l_lsct : option sdiv;       (* data of the 'lsct' block *)
  l_lspf : option Z;          (* value of the 'lspf' block *)
  l_iopa : option Z;          (* value of the 'iOpa' block (fill opacity): no setter touches it *)
  l_docw : Z; l_doch : Z;     (* size of the attached document (FillLayer.right / bottom fall back to it) *)
  l_box : box;                (* ShapeLayer / Artboard: their computed bbox; Group: bbox of its visible content *)
  l_ancvis : bool;            (* parent is not None and parent.is_visible() *)
  l_pixels : Z;               (* opaque digest of the channel data *)
  l_lsdk : option sdiv        (* data of the 'lsdk' block (nested section divider: deeply nested groups) *)
}.

(* record updates *)
Definition with_name (s : layer) (rn : list Z) (u : option (list Z)) : layer :=
  mkLayer (l_kind s) (l_attached s) rn u (l_tp s) (l_vis s) (l_fbits s) (l_opacity s) (l_rblend s)
    (l_clip s) (l_left s) (l_top s) (l_right s) (l_bottom s) (l_lsct s) (l_lspf s) (l_iopa s)
    (l_docw s) (l_doch s) (l_box s) (l_ancvis s) (l_pixels s) (l_lsdk s).
Definition with_vis (s : layer) (v : bool) : layer :=
  mkLayer (l_kind s) (l_attached s) (l_rname s) (l_luni s) (l_tp s) v (l_fbits s) (l_opacity s) (l_rblend s)
    (l_clip s) (l_left s) (l_top s) (l_right s) (l_bottom s) (l_lsct s) (l_lspf s) (l_iopa s)
    (l_docw s) (l_doch s) (l_box s) (l_ancvis s) (l_pixels s) (l_lsdk s).
Definition with_opacity (s : layer) (v : Z) : layer :=
  mkLayer (l_kind s) (l_attached s) (l_rname s) (l_luni s) (l_tp s) (l_vis s) (l_fbits s) v (l_rblend s)
    (l_clip s) (l_left s) (l_top s) (l_right s) (l_bottom s) (l_lsct s) (l_lspf s) (l_iopa s)
    (l_docw s) (l_doch s) (l_box s) (l_ancvis s) (l_pixels s) (l_lsdk s).
Definition with_blend (s : layer) (rb : Z) (d k : option sdiv) : layer :=
  mkLayer (l_kind s) (l_attached s) (l_rname s) (l_luni s) (l_tp s) (l_vis s) (l_fbits s) (l_opacity s) rb
    (l_clip s) (l_left s) (l_top s) (l_right s) (l_bottom s) d (l_lspf s) (l_iopa s)
    (l_docw s) (l_doch s) (l_box s) (l_ancvis s) (l_pixels s) k.
Definition with_clip (s : layer) (v : bool) : layer :=
  mkLayer (l_kind s) (l_attached s) (l_rname s) (l_luni s) (l_tp s) (l_vis s) (l_fbits s) (l_opacity s) (l_rblend s)
    v (l_left s) (l_top s) (l_right s) (l_bottom s) (l_lsct s) (l_lspf s) (l_iopa s)
    (l_docw s) (l_doch s) (l_box s) (l_ancvis s) (l_pixels s) (l_lsdk s).
Definition with_lr (s : layer) (l r : Z) : layer :=
  mkLayer (l_kind s) (l_attached s) (l_rname s) (l_luni s) (l_tp s) (l_vis s) (l_fbits s) (l_opacity s) (l_rblend s)
    (l_clip s) l (l_top s) r (l_bottom s) (l_lsct s) (l_lspf s) (l_iopa s)
    (l_docw s) (l_doch s) (l_box s) (l_ancvis s) (l_pixels s) (l_lsdk s).
Definition with_tb (s : layer) (t b : Z) : layer :=
  mkLayer (l_kind s) (l_attached s) (l_rname s) (l_luni s) (l_tp s) (l_vis s) (l_fbits s) (l_opacity s) (l_rblend s)
    (l_clip s) (l_left s) t (l_right s) b (l_lsct s) (l_lspf s) (l_iopa s)
    (l_docw s) (l_doch s) (l_box s) (l_ancvis s) (l_pixels s) (l_lsdk s).
Definition with_lspf (s : layer) (p : option Z) : layer :=
  mkLayer (l_kind s) (l_attached s) (l_rname s) (l_luni s) (l_tp s) (l_vis s) (l_fbits s) (l_opacity s) (l_rblend s)
    (l_clip s) (l_left s) (l_top s) (l_right s) (l_bottom s) (l_lsct s) p (l_iopa s)
    (l_docw s) (l_doch s) (l_box s) (l_ancvis s) (l_pixels s) (l_lsdk s).

(* ------------------------------------------------------------------ which code is modelled *)
Record cfg := mkCfg {
  fix_group : bool;   (* c16_group_blend_mode.diff applied *)
  fix_lock : bool;    (* c16_lock_without_block.diff applied *)
  fix_clip : bool;    (* c16_clipping_detached.diff applied *)
  fix_lsdk : bool;    (* c16_group_setting_lsdk.diff applied: Group._setting takes the divider from 'lsdk' when
                         present, else from 'lsct' (as PSDImage._init does); before: 'lsct' only *)
  fix_ctor : bool     (* /repo commit cc4d99c: Group.new / PixelLayer.frompil put _legacy_name(name) (the name, or "?"
                         when mac_roman cannot encode it) into the record and frompil also stores a 'luni' block *)
}.
Definition orig_cfg : cfg := mkCfg false false false false false.
Definition fixed_cfg : cfg := mkCfg true true true true true.

(* ------------------------------------------------------------------ getters *)
(* Layer.name: tagged_blocks.get_data(UNICODE_LAYER_NAME, record.name) *)
Definition get_name (s : layer) : list Z :=
  match l_luni s with Some u => u | None => l_rname s end.

Definition get_visible (s : layer) : bool := l_vis s.
Definition get_opacity (s : layer) : Z := l_opacity s.

(* Group._setting: the divider the group's blend mode getter and setter work on *)
Definition setting (c : cfg) (s : layer) : option sdiv :=
  if fix_lsdk c then match l_lsdk s with Some k => Some k | None => l_lsct s end else l_lsct s.

(* Layer.blend_mode / Group.blend_mode (None when the divider carries no blend mode) *)
Definition get_blend (c : cfg) (s : layer) : option Z :=
  if is_group (l_kind s) then
    match setting c s with
    | Some d => sd_blend d
    | None => Some (l_rblend s)
    end
  else Some (l_rblend s).

(* bbox as the left/top/right/bottom getters of the layer's class compute it *)
Definition get_box (s : layer) : box :=
  match l_kind s with
  | KShape | KArtboard => l_box s                         (* cached, recomputed to the same value *)
  | KGroup => if l_vis s && l_ancvis s then l_box s else box0      (* Group.extract_bbox over visible children *)
  | KFill =>                                              (* FillLayer.right / bottom fall back to the canvas *)
      (l_left s, l_top s,
       if l_right s =? 0 then l_docw s else l_right s,
       if l_bottom s =? 0 then l_doch s else l_bottom s)
  | _ => (l_left s, l_top s, l_right s, l_bottom s)
  end.

Definition get_left (s : layer) : Z := let '(l, _, _, _) := get_box s in l.
Definition get_top (s : layer) : Z := let '(_, t, _, _) := get_box s in t.
Definition get_right (s : layer) : Z := let '(_, _, r, _) := get_box s in r.
Definition get_bottom (s : layer) : Z := let '(_, _, _, b) := get_box s in b.
Definition get_width (s : layer) : Z := get_right s - get_left s.
Definition get_height (s : layer) : Z := get_bottom s - get_top s.

Definition get_clip (s : layer) : bool := l_clip s.

(* Layer.locks: the ProtectedSetting of the block (its value), or None *)
Definition get_lock (s : layer) : option Z := l_lspf s.

(* ------------------------------------------------------------------ setters *)
(* name.setter: assert len(value) < 256; record.name = value if macroman-encodable else "?";
   tagged_blocks.set_data(UNICODE_LAYER_NAME, value) *)
Definition set_name (v : list Z) (s : layer) : ares layer :=
  if Z.of_nat (length v) <? 256 then
    AOk (with_name s (if macroman v then v else [qmark]) (Some v))
  else AErr EAssert.

Definition set_visible (v : bool) (s : layer) : ares layer := AOk (with_vis s v).

Definition set_opacity (v : Z) (s : layer) : ares layer :=
  if (0 <=? v) && (v <=? 255) then AOk (with_opacity s v) else AErr EAssert.

(* Layer.blend_mode.setter / Group.blend_mode.setter *)
Definition upd_div (c : cfg) (v : Z) (d : sdiv) : sdiv :=
  mkSdiv (sd_kind d) (if fix_group c then true else sd_sig d) (Some v) (sd_sub d).

Definition set_blend (c : cfg) (v : Z) (s : layer) : ares layer :=
  if negb (valid_blend v) then AErr EValue
  else if is_group (l_kind s) then
    let rb := if v =? bm_pass then bm_norm else v in
    if fix_lsdk c then
      match l_lsdk s with
      | Some k => AOk (with_blend s rb (l_lsct s) (Some (upd_div c v k)))
      | None => AOk (with_blend s rb (option_map (upd_div c v) (l_lsct s)) None)
      end
    else AOk (with_blend s rb (option_map (upd_div c v) (l_lsct s)) (l_lsdk s))
  else AOk (with_blend s v (l_lsct s) (l_lsdk s)).

(* left.setter: w = self.width; record.left = v; record.right = v + w.
   Group has a getter-only property (GroupMixin.left); ShapeLayer / Artboard raise. *)
Definition set_left (v : Z) (s : layer) : ares layer :=
  match l_kind s with
  | KGroup => AErr EAttribute
  | KShape | KArtboard => AErr ENotImpl
  | _ => AOk (with_lr s v (v + get_width s))
  end.

Definition set_top (v : Z) (s : layer) : ares layer :=
  match l_kind s with
  | KGroup => AErr EAttribute
  | KShape | KArtboard => AErr ENotImpl
  | _ => AOk (with_tb s v (v + get_height s))
  end.

(* offset.setter: self.left, self.top = x, y *)
Definition set_offset (x y : Z) (s : layer) : ares layer :=
  match set_left x s with
  | AOk s1 => set_top y s1
  | AErr e => AErr e
  end.

(* clipping_layer.setter: `if self._psd:` guards the whole body in the original code *)
Definition set_clip (c : cfg) (v : bool) (s : layer) : ares layer :=
  if fix_clip c || l_attached s then AOk (with_clip s v) else AOk s.

(* Layer.lock(flags): with a block, block.data.value = int(flags); without one the original code
   stores a COPY holding 0 (TaggedBlocks.set_data constructs a new element) and mutates its local *)
Definition set_lock (c : cfg) (v : Z) (s : layer) : ares layer :=
  match l_lspf s with
  | Some _ => AOk (with_lspf s (Some v))
  | None => AOk (with_lspf s (Some (if fix_lock c then v else 0)))
  end.

(* ------------------------------------------------------------------ the attribute algebra *)
Inductive attr := AName | AVisible | AOpacity | ABlend | ALeft | ATop | AClip | ALock.

Inductive val :=
| VStr (l : list Z)     (* str as code points *)
| VBool (b : bool)
| VInt (z : Z)          (* int, or a BlendMode as its key *)
| VNone.                (* Python None *)

Definition attr_code (a : attr) : Z :=
  match a with
  | AName => 0 | AVisible => 1 | AOpacity => 2 | ABlend => 3
  | ALeft => 4 | ATop => 5 | AClip => 6 | ALock => 7
  end.
Definition attr_eqb (a b : attr) : bool := attr_code a =? attr_code b.

Definition opt_val (o : option Z) : val := match o with Some z => VInt z | None => VNone end.

Definition get (c : cfg) (a : attr) (s : layer) : val :=
  match a with
  | AName => VStr (get_name s)
  | AVisible => VBool (get_visible s)
  | AOpacity => VInt (get_opacity s)
  | ABlend => opt_val (get_blend c s)
  | ALeft => VInt (get_left s)
  | ATop => VInt (get_top s)
  | AClip => VBool (get_clip s)
  | ALock => opt_val (get_lock s)
  end.

Definition set (c : cfg) (a : attr) (v : val) (s : layer) : ares layer :=
  match a, v with
  | AName, VStr l => set_name l s
  | AVisible, VBool b => set_visible b s
  | AOpacity, VInt z => set_opacity z s
  | ABlend, VInt z => set_blend c z s
  | ALeft, VInt z => set_left z s
  | ATop, VInt z => set_top z s
  | AClip, VBool b => set_clip c b s
  | ALock, VInt z => set_lock c z s
  | _, _ => AErr EType
  end.

(* ------------------------------------------------------------------ save + open *)
Definition i32 (z : Z) : bool := (-2147483648 <=? z) && (z <=? 2147483647).
Definition u32 (z : Z) : bool := (0 <=? z) && (z <=? 4294967295).

Definition is_hi (c : Z) : bool := (55296 <=? c) && (c <=? 56319).   (* D800..DBFF *)
Definition is_lo (c : Z) : bool := (56320 <=? c) && (c <=? 57343).   (* DC00..DFFF *)

(* str -> UTF-16BE (surrogatepass) -> str: an adjacent high+low surrogate pair comes back as one character *)
Fixpoint utf16_rt (l : list Z) : list Z :=
  match l with
  | [] => []
  | h :: tl =>
      match tl with
      | lo :: r =>
          if is_hi h && is_lo lo
          then (65536 + (h - 55296) * 1024 + (lo - 56320)) :: utf16_rt r
          else h :: utf16_rt tl
      | [] => [h]
      end
  end.

(* SectionDividerSetting.write then .read: the blend mode (and sub type) are only written
   `if self.signature and self.blend_mode` *)
Definition sdiv_rt (d : sdiv) : sdiv :=
  match sd_sig d, sd_blend d with
  | true, Some b => mkSdiv (sd_kind d) true (Some b) (sd_sub d)
  | _, _ => mkSdiv (sd_kind d) false None None
  end.

(* what the wire formats accept: "4i" rectangle, "I" protection flags, pascal record name in macroman *)
Definition storable (s : layer) : bool :=
  i32 (l_top s) && i32 (l_left s) && i32 (l_bottom s) && i32 (l_right s)
  && match l_lspf s with Some p => u32 p | None => true end.

Definition name_writable (s : layer) : bool :=
  macroman (l_rname s) && (Z.of_nat (length (l_rname s)) <=? 255).

Definition writable (s : layer) : bool := storable s && name_writable s.

(* the layer as PSDImage.open finds it in the bytes PSDImage.save wrote *)
Definition stored (s : layer) : layer :=
  mkLayer (l_kind s) true (l_rname s) (option_map utf16_rt (l_luni s)) (l_tp s) (l_vis s)
    (l_fbits s) (l_opacity s) (l_rblend s) (l_clip s) (l_left s) (l_top s) (l_right s)
    (l_bottom s) (option_map sdiv_rt (l_lsct s)) (l_lspf s) (l_iopa s)
    (l_docw s) (l_doch s) (l_box s) (l_ancvis s) (l_pixels s) (option_map sdiv_rt (l_lsdk s)).

Definition reopen (s : layer) : ares layer :=
  if negb (storable s) then AErr EStruct
  else if negb (macroman (l_rname s)) then AErr EUnicode
  else if negb (Z.of_nat (length (l_rname s)) <=? 255) then AErr EStruct
  else AOk (stored s).

(* group.append(layer) / psd.append(layer) as seen by the appended layer: it gets the document *)
Definition attach (docw doch : Z) (ancvis : bool) (s : layer) : layer :=
  mkLayer (l_kind s) true (l_rname s) (l_luni s) (l_tp s) (l_vis s)
    (l_fbits s) (l_opacity s) (l_rblend s) (l_clip s) (l_left s) (l_top s) (l_right s)
    (l_bottom s) (l_lsct s) (l_lspf s) (l_iopa s) docw doch (l_box s) ancvis (l_pixels s) (l_lsdk s).

(* ------------------------------------------------------------------ constructors of the API *)
(* _legacy_name(value) *)
Definition legacy_name (v : list Z) : list Z := if macroman v then v else [qmark].

(* Group.new(name, open_folder): record (0,0,0,0), 'lsct' from the divider kind alone in the original
   code, 'luni' = name; not attached; no protection block;
   four empty channels (digest [pix]) *)
Definition new_group (c : cfg) (name : list Z) (open_folder : bool) (pix : Z) : layer :=
  mkLayer KGroup false (if fix_ctor c then legacy_name name else name) (Some name) false true 8 255 bm_norm false 0 0 0 0
    (Some (if fix_group c
           then mkSdiv (if open_folder then 1 else 2) true (Some bm_pass) None
           else mkSdiv (if open_folder then 1 else 2) false None None))
    None None 0 0 box0 false pix None.

(* PixelLayer.frompil(image, psd, name, top, left) of a w x h image: no tagged blocks at all in the original
   code; since cc4d99c a 'luni' block with the name.  (Both constructors now assert len(name) < 256; the
   constructors are modelled on the names they accept.) *)
Definition new_pixel (c : cfg) (attached : bool) (name : list Z) (top left w h docw doch pix : Z) : layer :=
  mkLayer KPixel attached (if fix_ctor c then legacy_name name else name) (if fix_ctor c then Some name else None)
    false true 8 255 bm_norm false left top (left + w) (top + h)
    None None None docw doch box0 false pix None.

(* ------------------------------------------------------------------ histories *)
Inductive op :=
| OSet (a : attr) (v : val)
| OOffset (x y : Z)
| OAttach (docw doch : Z) (ancvis : bool)
| OReopen.

Definition apply (c : cfg) (o : op) (s : layer) : ares layer :=
  match o with
  | OSet a v => set c a v s
  | OOffset x y => set_offset x y s
  | OAttach w h av => AOk (attach w h av s)
  | OReopen => reopen s
  end.

(* an operation that raises leaves the layer as it was *)
Definition step (c : cfg) (s : layer) (o : op) : layer :=
  match apply c o s with AOk s' => s' | AErr _ => s end.

Definition run (c : cfg) (ops : list op) (s : layer) : layer := fold_left (step c) ops s.
