(* C16 - persistence by composition: the [save_open_assumption] of Properties/C16.v DISCHARGED.

   The attribute model's layer (Attrs/Model.v) is mapped to the byte-level layer record of the format model
   (Psd/Model.v: rectangle "4i", channel infos, signature, blend mode key, opacity, clipping, flags byte, extras
   block with mask, blending ranges, pascal name padded to 4, tagged blocks), with the blocks the setters touch
   as TYPED leaf payloads (Psd/Leaf.v: 'luni' StringElement, 'lsct'/'lsdk' SectionDividerSetting, 'lspf'
   ProtectedSetting, 'iOpa' ByteElement) and the str <-> UTF-16 code unit step of Strings/Model.v.
   Everything else a real record carries (channel infos, mask, blending ranges, all other tagged blocks) is an
   arbitrary well-formed environment [env].

     save_open_bytes e s  =  abs_of_record (read_record (write_record (record_of e s)))

   is then equal to [AOk (stored s)] (theorem stored_roundtrip), from Psd.Proofs.record_rt
   (= C01.layer_record_roundtrip), Psd.LeafProofs.leaf_rt, Strings.Proofs.join_units_utf16 and
   Strings.CodecProofs.macroman_law.  Imported read-only; nothing of those files is restated. *)
From PsdV Require Import Base.Prelude Psd.Codec Psd.Model Psd.Proofs Psd.Leaf Psd.LeafProofs Psd.ResaveWrite.
From PsdV Require Strings.Codecs Strings.CodecProofs Strings.Model Strings.Proofs Strings.Main.
From PsdV Require Import Attrs.Model Attrs.Proofs.
From Coq Require Import ZArith List Bool Lia ZifyBool.
Import ListNotations.
Open Scope Z_scope.

Module SM := PsdV.Strings.Model.
Module SP := PsdV.Strings.Proofs.
Module SC := PsdV.Strings.Codecs.
Module SCP := PsdV.Strings.CodecProofs.

(* ------------------------------------------------------------------ the charset of the pascal name *)
(* str.encode("macroman") / bytes.decode("macroman") as the Section codec of Psd/Model.v *)
Definition mac_enc (s : list Z) : res (list Z) :=
  match SC.macroman_enc s with Some b => Ok b | None => Err ValueErr end.
Definition mac_dec (b : list Z) : res (list Z) :=
  match SC.macroman_dec b with Some s => Ok s | None => Err ValueErr end.

(* ------------------------------------------------------------------ keys of the typed blocks *)
Definition key_luni : Z := 1819635305.   (* b"luni" *)
Definition key_lsct : Z := 1819501428.   (* b"lsct" *)
Definition key_lsdk : Z := 1819501675.   (* b"lsdk" *)
Definition key_lspf : Z := 1819504742.   (* b"lspf" *)
Definition key_iopa : Z := 1766813793.   (* b"iOpa" *)
Definition my_keys : list Z := [key_luni; key_lsct; key_lsdk; key_lspf; key_iopa].

(* the keys select the modelled payload classes in TYPES (Psd/Leaf.v: model_leaf_keys, compared with the
   live dict on every run of C01) *)
Lemma my_keys_typed :
  map (fun k => existsb (fun p => (fst p =? k) && (snd p =? 5)) model_leaf_keys) [key_luni] = [true] /\
  map (fun k => existsb (fun p => (fst p =? k) && (snd p =? 8)) model_leaf_keys) [key_lsct; key_lsdk] = [true; true] /\
  map (fun k => existsb (fun p => (fst p =? k) && (snd p =? 2)) model_leaf_keys) [key_lspf] = [true] /\
  map (fun k => existsb (fun p => (fst p =? k) && (snd p =? 1)) model_leaf_keys) [key_iopa] = [true].
Proof. repeat split. Qed.

(* ------------------------------------------------------------------ leaves *)
Definition leaf_of_div (d : sdiv) : leaf :=
  LSectionDivider (sd_kind d) (if sd_sig d then Some sig_8BIM else None) (sd_blend d) (sd_sub d).
Definition div_of_leaf (l : leaf) : res sdiv :=
  match l with
  | LSectionDivider k sg bl sub => Ok (mkSdiv k (Psd.Model.is_some sg) bl sub)
  | _ => Err TypeErr
  end.

Definition leaf_of_luni (u : list Z) : leaf := LString (SM.utf16_units u).
Definition luni_of_leaf (l : leaf) : res (list Z) :=
  match l with LString units => Ok (SM.join_units units) | _ => Err TypeErr end.

Definition int_of_leaf (l : leaf) : res Z :=
  match l with LInteger v => Ok v | LByte v => Ok v | _ => Err TypeErr end.

(* payload bytes as TaggedBlock.write produces them inside a layer record: the record writes its blocks with
   padding 1, so the payload object is written with the inner padding 4 *)
Definition payload (l : leaf) : res (list Z) := do x <- write_leaf 4 l; Ok (fst x).

Definition oblock (key : Z) (o : option leaf) : res (list tagged_block) :=
  match o with
  | None => Ok []
  | Some l => do b <- payload l; Ok [mkTB sig_8BIM key b]
  end.

Definition my_blocks (s : layer) : res (list tagged_block) :=
  do b1 <- oblock key_luni (option_map leaf_of_luni (l_luni s));
  do b2 <- oblock key_lsct (option_map leaf_of_div (l_lsct s));
  do b3 <- oblock key_lsdk (option_map leaf_of_div (l_lsdk s));
  do b4 <- oblock key_lspf (option_map LInteger (l_lspf s));
  do b5 <- oblock key_iopa (option_map LByte (l_iopa s));
  Ok (b1 ++ b2 ++ b3 ++ b4 ++ b5).

(* ------------------------------------------------------------------ flags *)
Definition flags_of_layer (s : layer) : flags8 :=
  mkFlags (l_tp s) (l_vis s) (Z.testbit (l_fbits s) 2) (Z.testbit (l_fbits s) 3) (Z.testbit (l_fbits s) 4)
          (Z.testbit (l_fbits s) 5) (Z.testbit (l_fbits s) 6) (Z.testbit (l_fbits s) 7).
Definition fbits_of_flags (f : flags8) : Z :=
  b2z (fb2 f) 4 + b2z (fb3 f) 8 + b2z (fb4 f) 16 + b2z (fb5 f) 32 + b2z (fb6 f) 64 + b2z (fb7 f) 128.

(* ------------------------------------------------------------------ environment: the rest of a real record *)
Record env := mkEnv {
  e_version : Z;
  e_channels : list channel_info;
  e_mask : option mask_data;
  e_ranges : blending_ranges;
  e_others : list tagged_block     (* every other tagged block of the layer (effects, ids, type data, ...) *)
}.

Definition env_wf (e : env) : bool :=
  forallb wf_ci (e_channels e) &&
  match e_mask e with Some m => wf_mask m | None => true end &&
  wf_ranges (e_ranges e) &&
  forallb wf_tb (e_others e) && nodupz (map tb_key (e_others e)) &&
  forallb (fun b => negb (memz (tb_key b) my_keys)) (e_others e).

Definition record_of (e : env) (s : layer) : res layer_record :=
  do bl <- my_blocks s;
  Ok (mkRec (l_top s) (l_left s) (l_bottom s) (l_right s) (e_channels e) sig_8BIM (l_rblend s) (l_opacity s)
            (if l_clip s then 1 else 0) (flags_of_layer s) (e_mask e) (e_ranges e) (l_rname s)
            (bl ++ e_others e)).

(* ------------------------------------------------------------------ abstraction of a record that was read *)
Definition find_block (key : Z) (l : list tagged_block) : option tagged_block :=
  find (fun b => tb_key b =? key) l.

Definition rd_block {A} (k : lkind) (conv : leaf -> res A) (key : Z) (l : list tagged_block) : res (option A) :=
  match find_block key l with
  | None => Ok None
  | Some b => do lf <- read_leaf k (tb_data b); do a <- conv lf; Ok (Some a)
  end.

(* [ctx] supplies what is not in the record: the class of the layer object (decided by PSDImage._init from the
   blocks of the environment), the document context and the channel data *)
Definition abs_of_record (ctx : layer) (r : layer_record) : res layer :=
  do luni <- rd_block KString luni_of_leaf key_luni (r_blocks r);
  do lsct <- rd_block KSectionDivider div_of_leaf key_lsct (r_blocks r);
  do lsdk <- rd_block KSectionDivider div_of_leaf key_lsdk (r_blocks r);
  do lspf <- rd_block KInteger int_of_leaf key_lspf (r_blocks r);
  do iopa <- rd_block KByte int_of_leaf key_iopa (r_blocks r);
  Ok (mkLayer (l_kind ctx) true (r_name r) luni (fb0 (r_flags r)) (fb1 (r_flags r)) (fbits_of_flags (r_flags r))
        (r_opacity r) (r_blend r) (r_clip r =? 1) (r_left r) (r_top r) (r_right r) (r_bottom r)
        lsct lspf iopa (l_docw ctx) (l_doch ctx) (l_box ctx) (l_ancvis ctx) (l_pixels ctx) lsdk).

(* PSDImage.save to bytes, PSDImage.open, seen on one layer *)
Definition save_open_bytes (e : env) (s : layer) : ares layer :=
  match record_of e s with
  | Err _ => AErr EStruct
  | Ok r =>
      match write_record mac_enc (e_version e) r with
      | Err _ => AErr EStruct
      | Ok (bs, _) =>
          match read_record mac_dec (e_version e) bs with
          | Err _ => AErr EStruct
          | Ok (r', _) => match abs_of_record s r' with Ok s' => AOk s' | Err _ => AErr EStruct end
          end
      end
  end.

(* ------------------------------------------------------------------ invariants of a layer state *)
(* what the constructors / attrs validators of the real objects guarantee and every setter keeps:
   enum members, byte-sized fields, the flag bits, section divider kinds *)
Definition div_wf (d : sdiv) : bool :=
  memz (sd_kind d) model_section_dividers &&
  match sd_blend d with Some b => memz b model_blend_modes | None => true end.

Definition odiv_wf (o : option sdiv) : bool := match o with Some d => div_wf d | None => true end.

Definition wf_layer (s : layer) : bool :=
  memz (l_rblend s) model_blend_modes &&
  (l_fbits s =? fbits_of_flags (flags_of_layer s)) &&
  odiv_wf (l_lsct s) && odiv_wf (l_lsdk s).

(* a Python str: code points 0 .. 0x10FFFF *)
Definition text_ok (s : layer) : Prop :=
  match l_luni s with Some u => SM.valid_str u | None => True end.

(* ------------------------------------------------------------------ small facts *)
Lemma macroman_tables : macroman_high = SC.macroman_hi.
Proof. reflexivity. Qed.

Lemma zmem_index c : forall l k, zmem c l = true -> exists i, SC.index_of c l k = Some i.
Proof.
  induction l as [|x l IH]; intros k H; [discriminate|]. simpl in *.
  rewrite (Z.eqb_sym x c). destruct (c =? x); [eauto|]. simpl in H. apply IH; assumption.
Qed.

Lemma macroman_enc_ok l : macroman l = true -> exists b, SC.macroman_enc l = Some b /\ length b = length l.
Proof.
  unfold macroman, SC.macroman_enc, SC.table_enc.
  induction l as [|c l IH]; intro H; [exists []; split; reflexivity|].
  simpl in H. apply andb_true_iff in H as [Hc Hl]. destruct (IH Hl) as (b & Hb & Hlen).
  assert (exists y, SC.table_enc1 SC.macroman_hi c = Some y) as [y Hy].
  { unfold SC.table_enc1, macroman_char in *. destruct ((0 <=? c) && (c <? 128)); [eauto|].
    rewrite orb_false_l in Hc. apply zmem_index. exact Hc. }
  exists (y :: b). simpl. rewrite Hy, Hb. split; [reflexivity|]. simpl. congruence.
Qed.

Lemma mac_wf_name l : macroman l = true -> wf_name mac_enc mac_dec l = true.
Proof.
  intro H. destruct (macroman_enc_ok l H) as (b & Hb & _). unfold wf_name, mac_enc, mac_dec. rewrite Hb.
  rewrite (SCP.macroman_law _ _ Hb). apply list_eqb_eq. reflexivity.
Qed.

Lemma join_units_is_utf16_rt l : SM.join_units l = utf16_rt l.
Proof. reflexivity. Qed.      (* the two fixpoints are the same term *)

(* the blend modes of the attribute model are the format model's *)
Lemma valid_blend_model z : valid_blend z = true -> memz z model_blend_modes = true.
Proof.
  unfold valid_blend. assert (F : forallb (fun k => memz k model_blend_modes) blend_keys = true) by reflexivity.
  revert F. generalize blend_keys. induction l as [|k l IH]; intros F H; [discriminate|].
  simpl in *. apply andb_true_iff in F as [Fk Fl]. destruct (z =? k) eqn:E.
  - apply Z.eqb_eq in E. subst. exact Fk.
  - apply IH; assumption.
Qed.

(* ------------------------------------------------------------------ finding the typed blocks again *)
Lemma find_block_app k a b :
  find_block k (a ++ b) = match find_block k a with Some x => Some x | None => find_block k b end.
Proof. unfold find_block. induction a as [|x a IH]; [reflexivity|]. simpl. destruct (tb_key x =? k); [reflexivity|exact IH]. Qed.

Lemma oblock_find key o bl k :
  oblock key o = Ok bl ->
  find_block k bl = if key =? k then match bl with b :: _ => Some b | [] => None end else None.
Proof.
  unfold oblock. destruct o as [l|]; [|intro H; inversion H; destruct (key =? k); reflexivity].
  destruct (payload l); simpl; intro H; inversion H; subst. unfold find_block. simpl. destruct (key =? k); reflexivity.
Qed.

Lemma others_find e k : env_wf e = true -> memz k my_keys = true -> find_block k (e_others e) = None.
Proof.
  unfold env_wf. intros W Hk. apply andb_true_iff in W as [_ W]. unfold find_block.
  induction (e_others e) as [|b l IH]; [reflexivity|]. simpl in *. apply andb_true_iff in W as [Wb Wl].
  destruct (tb_key b =? k) eqn:E; [|apply IH; assumption].
  apply Z.eqb_eq in E. subst. rewrite Hk in Wb. discriminate.
Qed.

(* ------------------------------------------------------------------ one payload through write + read *)
(* the section divider is the lossy one: SectionDividerSetting.write emits the blend mode (and sub type) only
   `if self.signature and self.blend_mode`; what is read back is [sdiv_rt] *)
Lemma div_payload_rt d b :
  div_wf d = true -> payload (leaf_of_div d) = Ok b ->
  (do lf <- read_leaf KSectionDivider b; div_of_leaf lf) = Ok (sdiv_rt d).
Proof.
  unfold payload. intros W H.
  assert (Hn : write_leaf 4 (leaf_of_div d) = write_leaf 4 (leaf_of_div (sdiv_rt d))).
  { unfold leaf_of_div, sdiv_rt. destruct (sd_sig d), (sd_blend d); reflexivity. }
  rewrite Hn in H. destruct (write_leaf 4 (leaf_of_div (sdiv_rt d))) as [[bs n]|] eqn:E; [|discriminate].
  inversion H; subst. cbn [fst].
  assert (Wf : wf_leaf (leaf_of_div (sdiv_rt d)) = true).
  { unfold div_wf in W. apply andb_true_iff in W as [Wk Wb].
    unfold leaf_of_div, sdiv_rt. destruct (sd_sig d), (sd_blend d);
      cbn [sd_kind sd_sig sd_blend sd_sub wf_leaf]; rewrite Wk; try rewrite Wb; reflexivity. }
  pose proof (leaf_rt 4 _ _ _ ltac:(lia) Wf E) as R. change (kind_of (leaf_of_div (sdiv_rt d))) with KSectionDivider in R.
  rewrite R. cbn [bind]. unfold leaf_of_div, div_of_leaf, sdiv_rt.
  destruct (sd_sig d), (sd_blend d); reflexivity.
Qed.

Lemma luni_payload_rt u b :
  SM.valid_str u -> payload (leaf_of_luni u) = Ok b ->
  (do lf <- read_leaf KString b; luni_of_leaf lf) = Ok (utf16_rt u).
Proof.
  unfold payload. intros V H. destruct (write_leaf 4 (leaf_of_luni u)) as [[bs n]|] eqn:E; [|discriminate].
  inversion H; subst. cbn [fst].
  pose proof (leaf_rt 4 (leaf_of_luni u) _ _ ltac:(lia) eq_refl E) as R. change (kind_of (leaf_of_luni u)) with KString in R.
  rewrite R. cbn [bind]. unfold leaf_of_luni, luni_of_leaf.
  rewrite (SP.join_units_utf16 _ V). rewrite join_units_is_utf16_rt. reflexivity.
Qed.

Lemma int_payload_rt v b :
  payload (LInteger v) = Ok b -> (do lf <- read_leaf KInteger b; int_of_leaf lf) = Ok v.
Proof.
  unfold payload. intro H. destruct (write_leaf 4 (LInteger v)) as [[bs n]|] eqn:E; [|discriminate].
  inversion H; subst. cbn [fst].
  pose proof (leaf_rt 4 (LInteger v) _ _ ltac:(lia) eq_refl E) as R. change (kind_of (LInteger v)) with KInteger in R.
  rewrite R. reflexivity.
Qed.

Lemma byte_payload_rt v b :
  payload (LByte v) = Ok b -> (do lf <- read_leaf KByte b; int_of_leaf lf) = Ok v.
Proof.
  unfold payload. intro H. destruct (write_leaf 4 (LByte v)) as [[bs n]|] eqn:E; [|discriminate].
  inversion H; subst. cbn [fst].
  pose proof (leaf_rt 4 (LByte v) _ _ ltac:(lia) eq_refl E) as R. change (kind_of (LByte v)) with KByte in R.
  rewrite R. reflexivity.
Qed.

(* ------------------------------------------------------------------ the record of a layer is well formed *)
Lemma oblock_shape key o bl :
  oblock key o = Ok bl -> (o = None /\ bl = []) \/ (exists l b, o = Some l /\ payload l = Ok b /\ bl = [mkTB sig_8BIM key b]).
Proof.
  unfold oblock. destruct o as [l|]; [|intro H; inversion H; left; split; reflexivity].
  destruct (payload l) as [b|] eqn:E; simpl; intro H; inversion H; subst. right. eauto.
Qed.

Lemma memz_app x a b : memz x (a ++ b) = memz x a || memz x b.
Proof. unfold memz. apply existsb_app. Qed.

Lemma nodupz_app a : forall b, nodupz a = true -> nodupz b = true ->
  (forall x, memz x a = true -> memz x b = false) -> nodupz (a ++ b) = true.
Proof.
  induction a as [|x a IH]; intros b Ha Hb Hd; [exact Hb|].
  simpl in *. apply andb_true_iff in Ha as [Hx Ha]. rewrite memz_app.
  apply andb_true_iff. split.
  - apply negb_true_iff. apply negb_true_iff in Hx. rewrite Hx. simpl. apply Hd.
    unfold memz. simpl. rewrite Z.eqb_refl. reflexivity.
  - apply IH; try assumption. intros y Hy. apply Hd. unfold memz in *. simpl. rewrite Hy. apply orb_true_r.
Qed.

Lemma others_keys_disjoint e k :
  env_wf e = true -> memz k my_keys = true -> memz k (map tb_key (e_others e)) = false.
Proof.
  unfold env_wf. intros W Hk. apply andb_true_iff in W as [_ W].
  induction (e_others e) as [|b l IH]; [reflexivity|]. simpl in *. apply andb_true_iff in W as [Wb Wl].
  unfold memz in *. simpl. rewrite (IH Wl), orb_false_r.
  destruct (k =? tb_key b) eqn:E; [|reflexivity]. apply Z.eqb_eq in E. subst. fold (memz (tb_key b) my_keys) in Hk.
  unfold memz in Wb. rewrite Hk in Wb. discriminate.
Qed.

Lemma env_wf_parts e : env_wf e = true ->
  forallb wf_ci (e_channels e) = true /\ match e_mask e with Some m => wf_mask m | None => true end = true /\
  wf_ranges (e_ranges e) = true /\ forallb wf_tb (e_others e) = true /\ nodupz (map tb_key (e_others e)) = true.
Proof.
  unfold env_wf. intro W. repeat (apply andb_true_iff in W as [W ?]). repeat split; assumption.
Qed.

Ltac five_shapes H1 H2 H3 H4 H5 :=
  destruct (oblock_shape _ _ _ H1) as [[? ->]|(? & ? & ? & ? & ->)];
  destruct (oblock_shape _ _ _ H2) as [[? ->]|(? & ? & ? & ? & ->)];
  destruct (oblock_shape _ _ _ H3) as [[? ->]|(? & ? & ? & ? & ->)];
  destruct (oblock_shape _ _ _ H4) as [[? ->]|(? & ? & ? & ? & ->)];
  destruct (oblock_shape _ _ _ H5) as [[? ->]|(? & ? & ? & ? & ->)].

Lemma my_blocks_wf e s bl :
  env_wf e = true -> my_blocks s = Ok bl -> wf_tbs (bl ++ e_others e) = true.
Proof.
  intros W H. destruct (env_wf_parts e W) as (_ & _ & _ & Wt & Wn). unfold my_blocks in H.
  destruct (oblock key_luni _) as [b1|] eqn:H1; [|discriminate].
  destruct (oblock key_lsct _) as [b2|] eqn:H2; [|discriminate].
  destruct (oblock key_lsdk _) as [b3|] eqn:H3; [|discriminate].
  destruct (oblock key_lspf _) as [b4|] eqn:H4; [|discriminate].
  destruct (oblock key_iopa _) as [b5|] eqn:H5; [|discriminate].
  cbn [bind] in H. inversion H; subst bl. clear H.
  unfold wf_tbs. rewrite forallb_app, map_app. apply andb_true_iff. split.
  - rewrite Wt, andb_true_r. five_shapes H1 H2 H3 H4 H5; reflexivity.
  - apply nodupz_app; [|exact Wn|].
    + five_shapes H1 H2 H3 H4 H5; reflexivity.
    + intros x Hx. apply others_keys_disjoint; [exact W|].
      five_shapes H1 H2 H3 H4 H5; cbn [app map tb_key] in Hx; unfold memz in Hx |- *; cbn [existsb] in Hx |- *;
        repeat match goal with
               | H : (?a =? ?b) || _ = true |- _ =>
                   let E := fresh "E" in
                   destruct (a =? b) eqn:E; [apply Z.eqb_eq in E; subst; reflexivity|cbn [orb] in H]
               end; try discriminate.
Qed.

Lemma record_of_wf e s r :
  env_wf e = true -> wf_layer s = true -> name_writable s = true -> record_of e s = Ok r ->
  wf_record mac_enc mac_dec r = true.
Proof.
  intros W L N H. destruct (env_wf_parts e W) as (Wc & Wm & Wr & _ & _). unfold record_of in H.
  destruct (my_blocks s) as [bl|] eqn:B; [|discriminate]. cbn [bind] in H. inversion H; subst r. clear H.
  unfold wf_layer in L. apply andb_true_iff in L as [L _]. apply andb_true_iff in L as [L _]. apply andb_true_iff in L as [Lb _].
  unfold name_writable in N. apply andb_true_iff in N as [Nm _].
  unfold wf_record. cbn [r_channels r_sig r_blend r_clip r_mask r_ranges r_name r_blocks].
  rewrite Wc, Lb, Wm, Wr, (mac_wf_name _ Nm), (my_blocks_wf e s bl W B).
  destruct (l_clip s); reflexivity.
Qed.

(* ------------------------------------------------------------------ reading the layer back from its record *)
Lemma rd_conv {A} (R : res leaf) (conv : leaf -> res A) x :
  (do lf <- R; conv lf) = Ok x -> (do lf <- R; do a <- conv lf; Ok (Some a)) = Ok (Some x).
Proof. destruct R as [lf|]; cbn [bind]; [intros ->; reflexivity|discriminate]. Qed.

Lemma key_tests :
  (key_luni =? key_lsct) = false /\ (key_luni =? key_lsdk) = false /\ (key_luni =? key_lspf) = false /\
  (key_luni =? key_iopa) = false /\ (key_lsct =? key_luni) = false /\ (key_lsct =? key_lsdk) = false /\
  (key_lsct =? key_lspf) = false /\ (key_lsct =? key_iopa) = false /\ (key_lsdk =? key_luni) = false /\
  (key_lsdk =? key_lsct) = false /\ (key_lsdk =? key_lspf) = false /\ (key_lsdk =? key_iopa) = false /\
  (key_lspf =? key_luni) = false /\ (key_lspf =? key_lsct) = false /\ (key_lspf =? key_lsdk) = false /\
  (key_lspf =? key_iopa) = false /\ (key_iopa =? key_luni) = false /\ (key_iopa =? key_lsct) = false /\
  (key_iopa =? key_lsdk) = false /\ (key_iopa =? key_lspf) = false.
Proof. repeat split. Qed.

(* the block of key k among  b1 ++ .. ++ b5 ++ others  is the head of the bi built for k *)
Lemma find_mine e k b1 b2 b3 b4 b5 o1 o2 o3 o4 o5 :
  env_wf e = true -> memz k my_keys = true ->
  oblock key_luni o1 = Ok b1 -> oblock key_lsct o2 = Ok b2 -> oblock key_lsdk o3 = Ok b3 ->
  oblock key_lspf o4 = Ok b4 -> oblock key_iopa o5 = Ok b5 ->
  find_block k ((b1 ++ b2 ++ b3 ++ b4 ++ b5) ++ e_others e) =
    match (if key_luni =? k then hd_error b1 else None) with Some x => Some x | None =>
    match (if key_lsct =? k then hd_error b2 else None) with Some x => Some x | None =>
    match (if key_lsdk =? k then hd_error b3 else None) with Some x => Some x | None =>
    match (if key_lspf =? k then hd_error b4 else None) with Some x => Some x | None =>
          (if key_iopa =? k then hd_error b5 else None) end end end end.
Proof.
  intros W Hk H1 H2 H3 H4 H5.
  assert (hd : forall key o bl, oblock key o = Ok bl ->
             find_block k bl = if key =? k then hd_error bl else None).
  { intros key o bl H. rewrite (oblock_find _ _ _ k H). destruct bl; reflexivity. }
  rewrite !find_block_app, (hd _ _ _ H1), (hd _ _ _ H2), (hd _ _ _ H3), (hd _ _ _ H4), (hd _ _ _ H5),
    (others_find e k W Hk).
  destruct (if key_luni =? k then hd_error b1 else None); [reflexivity|].
  destruct (if key_lsct =? k then hd_error b2 else None); [reflexivity|].
  destruct (if key_lsdk =? k then hd_error b3 else None); [reflexivity|].
  destruct (if key_lspf =? k then hd_error b4 else None); [reflexivity|].
  destruct (if key_iopa =? k then hd_error b5 else None); reflexivity.
Qed.

Lemma find_mine5 e b1 b2 b3 b4 b5 o1 o2 o3 o4 o5 :
  env_wf e = true ->
  oblock key_luni o1 = Ok b1 -> oblock key_lsct o2 = Ok b2 -> oblock key_lsdk o3 = Ok b3 ->
  oblock key_lspf o4 = Ok b4 -> oblock key_iopa o5 = Ok b5 ->
  let all := (b1 ++ b2 ++ b3 ++ b4 ++ b5) ++ e_others e in
  find_block key_luni all = hd_error b1 /\ find_block key_lsct all = hd_error b2 /\
  find_block key_lsdk all = hd_error b3 /\ find_block key_lspf all = hd_error b4 /\
  find_block key_iopa all = hd_error b5.
Proof.
  intros W H1 H2 H3 H4 H5 all. subst all.
  destruct key_tests as (K1 & K2 & K3 & K4 & K5 & K6 & K7 & K8 & K9 & K10 & K11 & K12 & K13 & K14 & K15 & K16 & K17 & K18 & K19 & K20).
  repeat split.
  - rewrite (find_mine e key_luni _ _ _ _ _ _ _ _ _ _ W eq_refl H1 H2 H3 H4 H5).
    rewrite !Z.eqb_refl, K5, K9, K13, K17. destruct (hd_error b1); reflexivity.
  - rewrite (find_mine e key_lsct _ _ _ _ _ _ _ _ _ _ W eq_refl H1 H2 H3 H4 H5).
    rewrite !Z.eqb_refl, K1, K10, K14, K18. destruct (hd_error b2); reflexivity.
  - rewrite (find_mine e key_lsdk _ _ _ _ _ _ _ _ _ _ W eq_refl H1 H2 H3 H4 H5).
    rewrite !Z.eqb_refl, K2, K6, K15, K19. destruct (hd_error b3); reflexivity.
  - rewrite (find_mine e key_lspf _ _ _ _ _ _ _ _ _ _ W eq_refl H1 H2 H3 H4 H5).
    rewrite !Z.eqb_refl, K3, K7, K11, K20. destruct (hd_error b4); reflexivity.
  - rewrite (find_mine e key_iopa _ _ _ _ _ _ _ _ _ _ W eq_refl H1 H2 H3 H4 H5).
    rewrite !Z.eqb_refl, K4, K8, K12, K16. destruct (hd_error b5); reflexivity.
Qed.

Lemma wf_layer_parts s : wf_layer s = true ->
  memz (l_rblend s) model_blend_modes = true /\ l_fbits s = fbits_of_flags (flags_of_layer s) /\
  odiv_wf (l_lsct s) = true /\ odiv_wf (l_lsdk s) = true.
Proof.
  unfold wf_layer. intro L. apply andb_true_iff in L as [L L4]. apply andb_true_iff in L as [L L3].
  apply andb_true_iff in L as [L1 L2]. apply Z.eqb_eq in L2. repeat split; assumption.
Qed.

Lemma abs_record_of e s r :
  env_wf e = true -> wf_layer s = true -> text_ok s -> record_of e s = Ok r ->
  abs_of_record s r = Ok (stored s).
Proof.
  intros W L T H. destruct (wf_layer_parts s L) as (_ & Lf & Lc & Lk).
  unfold record_of in H. destruct (my_blocks s) as [bl|] eqn:B; [|discriminate].
  cbn [bind] in H. inversion H; subst r; clear H. unfold my_blocks in B.
  destruct (oblock key_luni _) as [b1|] eqn:H1; [|discriminate].
  destruct (oblock key_lsct _) as [b2|] eqn:H2; [|discriminate].
  destruct (oblock key_lsdk _) as [b3|] eqn:H3; [|discriminate].
  destruct (oblock key_lspf _) as [b4|] eqn:H4; [|discriminate].
  destruct (oblock key_iopa _) as [b5|] eqn:H5; [|discriminate].
  cbn [bind] in B. inversion B; subst bl; clear B.
  destruct (find_mine5 e _ _ _ _ _ _ _ _ _ _ W H1 H2 H3 H4 H5) as (F1 & F2 & F3 & F4 & F5).
  unfold abs_of_record, rd_block.
  cbn [r_blocks r_name r_flags r_opacity r_blend r_clip r_left r_top r_right r_bottom].
  rewrite F1, F2, F3, F4, F5.
  (* luni *)
  assert (R1 : match hd_error b1 with
               | Some b => do lf <- read_leaf KString (tb_data b); do a <- luni_of_leaf lf; Ok (Some a)
               | None => Ok None end = Ok (option_map utf16_rt (l_luni s))).
  { unfold text_ok in T. destruct (l_luni s) as [u|]; cbn [option_map] in *.
    - destruct (oblock_shape _ _ _ H1) as [[X _]|(l & b & X & P & ->)]; [discriminate|]. inversion X; subst l.
      cbn [hd_error tb_data]. apply rd_conv. apply luni_payload_rt; assumption.
    - inversion H1; subst. reflexivity. }
  assert (RD : forall key o bl, odiv_wf o = true -> oblock key (option_map leaf_of_div o) = Ok bl ->
               match hd_error bl with
               | Some b => do lf <- read_leaf KSectionDivider (tb_data b); do a <- div_of_leaf lf; Ok (Some a)
               | None => Ok None end = Ok (option_map sdiv_rt o)).
  { intros key o bl Wd Hb. destruct o as [d|]; cbn [option_map] in *.
    - destruct (oblock_shape _ _ _ Hb) as [[X _]|(l & b & X & P & ->)]; [discriminate|]. inversion X; subst l.
      cbn [hd_error tb_data]. apply rd_conv. apply div_payload_rt; assumption.
    - inversion Hb; subst. reflexivity. }
  assert (R4 : match hd_error b4 with
               | Some b => do lf <- read_leaf KInteger (tb_data b); do a <- int_of_leaf lf; Ok (Some a)
               | None => Ok None end = Ok (l_lspf s)).
  { destruct (l_lspf s) as [p|]; cbn [option_map] in *.
    - destruct (oblock_shape _ _ _ H4) as [[X _]|(l & b & X & P & ->)]; [discriminate|]. inversion X; subst l.
      cbn [hd_error tb_data]. apply rd_conv. apply int_payload_rt; assumption.
    - inversion H4; subst. reflexivity. }
  assert (R5 : match hd_error b5 with
               | Some b => do lf <- read_leaf KByte (tb_data b); do a <- int_of_leaf lf; Ok (Some a)
               | None => Ok None end = Ok (l_iopa s)).
  { destruct (l_iopa s) as [p|]; cbn [option_map] in *.
    - destruct (oblock_shape _ _ _ H5) as [[X _]|(l & b & X & P & ->)]; [discriminate|]. inversion X; subst l.
      cbn [hd_error tb_data]. apply rd_conv. apply byte_payload_rt; assumption.
    - inversion H5; subst. reflexivity. }
  rewrite R1. cbn [bind]. rewrite (RD _ _ _ Lc H2). cbn [bind]. rewrite (RD _ _ _ Lk H3). cbn [bind].
  rewrite R4. cbn [bind]. rewrite R5. cbn [bind].
  unfold stored. rewrite <- Lf. cbn [flags_of_layer fb0 fb1].
  destruct (l_clip s); reflexivity.
Qed.

(* ------------------------------------------------------------------ THE COMPOSITION *)
(* bytes written by LayerRecord.write for the layer, read back by LayerRecord.read and abstracted again,
   are the model's [stored]: record fields verbatim, 'luni' through UTF-16, dividers through write/read *)
Theorem stored_roundtrip_written e s r bs n :
  env_wf e = true -> wf_layer s = true -> text_ok s -> name_writable s = true ->
  record_of e s = Ok r -> write_record mac_enc (e_version e) r = Ok (bs, n) ->
  save_open_bytes e s = AOk (stored s).
Proof.
  intros W L T N R Wr. unfold save_open_bytes. rewrite R, Wr.
  pose proof (record_rt mac_enc mac_dec (e_version e) r bs n [] (record_of_wf e s r W L N R) Wr) as Rd.
  rewrite app_nil_r in Rd. rewrite Rd. rewrite (abs_record_of e s r W L T R). reflexivity.
Qed.

(* ================================================================== the write SUCCEEDS on writable layers *)
(* value ranges that the Python objects guarantee but [writable] does not mention (attrs validators, enum
   members, ByteElement), and a size bound for the one variable-length payload *)
Definition fields_fit (s : layer) : bool :=
  (0 <=? l_opacity s) && (l_opacity s <=? 255) &&
  match l_iopa s with Some v => (0 <=? v) && (v <=? 255) | None => true end &&
  match l_lsct s with Some d => match sd_sub d with Some t => u32 t | None => true end | None => true end &&
  match l_lsdk s with Some d => match sd_sub d with Some t => u32 t | None => true end | None => true end &&
  match l_luni s with Some u => len u <=? 16777216 | None => true end.

(* the environment's own parts write, within a size *)
Definition mask_writer (e : env) : W :=
  match e_mask e with Some m => write_mask m | None => w_fmt (pack_u 4 0) end.
Definition env_fits (e : env) : Prop :=
  len (e_channels e) < 65536 /\
  exists Bc Bm Br Bo,
    wok (w_concat (map (write_channel_info (e_version e)) (e_channels e))) Bc /\
    wok (mask_writer e) Bm /\ wok (write_ranges (e_ranges e)) Br /\
    wok (write_tagged_blocks (e_version e) 1 (e_others e)) Bo /\ Bm + Br + Bo < 2147483648.

Lemma wok_payload l B : wok (write_leaf 4 l) B -> exists b, payload l = Ok b /\ len b <= B.
Proof.
  intros (bs & n & E & Hn). unfold payload. rewrite E. cbn [bind fst]. exists bs. split; [reflexivity|].
  rewrite <- (wtruth_leaf 4 l bs n E). lia.
Qed.

Lemma memz_in_u4 l : forallb (in_u 4) l = true -> forall x, memz x l = true -> 0 <= x < pow256 4.
Proof.
  induction l as [|y l IH]; intros F x H; [discriminate|]. simpl in *. apply andb_true_iff in F as [Fy Fl].
  destruct (x =? y) eqn:E; [apply Z.eqb_eq in E; subst; unfold in_u in Fy; lia|apply IH; assumption].
Qed.
Lemma blend_in_u4 b : memz b model_blend_modes = true -> 0 <= b < pow256 4.
Proof. apply memz_in_u4. reflexivity. Qed.
Lemma divkind_in_u4 k : memz k model_section_dividers = true -> 0 <= k < pow256 4.
Proof. apply memz_in_u4. reflexivity. Qed.
Lemma u32_range p : u32 p = true -> 0 <= p < pow256 4.
Proof. unfold u32. rewrite pow256_4. lia. Qed.
Lemma i32_range p : i32 p = true -> - (pow256 4 / 2) <= p < pow256 4 / 2.
Proof. unfold i32. rewrite pow256_4. change (4294967296 / 2) with 2147483648. lia. Qed.

Lemma wok_div d :
  div_wf d = true -> match sd_sub d with Some t => u32 t | None => true end = true ->
  wok (write_leaf 4 (leaf_of_div d)) 16.
Proof.
  intros W S. unfold div_wf in W. apply andb_true_iff in W as [Wk Wb]. pose proof (divkind_in_u4 _ Wk) as Hk.
  unfold leaf_of_div. cbn [write_leaf].
  destruct (sd_sig d), (sd_blend d) as [b|]; try (eapply wok_mono; [apply wok_seq; [apply wok_fmt_rok, rok_pack_u; assumption|apply wok_nil]|simpl; lia]).
  pose proof (blend_in_u4 _ Wb) as Hb. assert (Hs : 0 <= sig_8BIM < pow256 4) by (rewrite pow256_4; unfold sig_8BIM; lia).
  destruct (sd_sub d) as [t|].
  - pose proof (u32_range _ S) as Ht.
    eapply wok_mono; [apply wok_seq; [apply wok_fmt_rok, rok_pack_u; assumption|
                      apply wok_seq; [apply wok_fmt_rok; rok_fields|apply wok_fmt_rok, rok_pack_u; assumption]]|simpl; lia].
  - eapply wok_mono; [apply wok_seq; [apply wok_fmt_rok, rok_pack_u; assumption|
                      apply wok_seq; [apply wok_fmt_rok; rok_fields|apply wok_nil]]|simpl; lia].
Qed.

Lemma rok_units us : Forall (fun u => SP.unitb u = true) us -> rok (pk_cat (map (pack_u 2) us)) (len us * 2).
Proof.
  induction 1 as [|u us Hu _ IH]; cbn [map]; [apply rok_pk_nil|].
  replace (len (u :: us) * 2) with (Z.of_nat 2 + len us * 2) by (rewrite len_cons; lia).
  apply rok_pk_cons; [|exact IH]. apply rok_pack_u. unfold SP.unitb in Hu. rewrite pow256_2. lia.
Qed.

Lemma wok_luni u :
  SM.valid_str u -> len u <= 16777216 -> wok (write_leaf 4 (leaf_of_luni u)) (4 * len u + 7).
Proof.
  intros V L. unfold leaf_of_luni. cbn [write_leaf]. unfold w_unicode.
  assert (Hl : len (SM.utf16_units u) <= 2 * len u).
  { unfold len. pose proof (PsdV.Strings.Main.utf16_units_length_le u). lia. }
  pose proof (len_nonneg (SM.utf16_units u)).
  eapply wok_mono; [apply wok_then_pad; [apply wok_seq; [apply wok_fmt_rok, rok_pack_u; rewrite pow256_4; lia|
                                                      apply wok_fmt_rok, rok_units, SP.utf16_units_range, V]|lia]|].
  change (Z.of_nat 4) with 4. lia.
Qed.

Definition blk_bound : Z := 67108871.      (* 4 * 2^24 + 7: the largest payload, a 'luni' of 2^24 characters *)

Definition mine_ok (b : tagged_block) : Prop :=
  tb_sig b = sig_8BIM /\ memz (tb_key b) my_keys = true /\ len (tb_data b) <= blk_bound.

Lemma oblock_ok key l B :
  memz key my_keys = true -> wok (write_leaf 4 l) B -> B <= blk_bound ->
  exists bl, oblock key (Some l) = Ok bl /\ Forall mine_ok bl /\ (length bl <= 1)%nat.
Proof.
  intros K Wl HB. destruct (wok_payload l B Wl) as (b & P & Lb). unfold oblock. rewrite P. cbn [bind].
  eexists. split; [reflexivity|]. split; [|simpl; lia]. constructor; [|constructor].
  unfold mine_ok. cbn [tb_sig tb_key tb_data]. repeat split; [assumption|lia].
Qed.

Lemma oblock_none key : exists bl, oblock key None = Ok bl /\ Forall mine_ok bl /\ (length bl <= 1)%nat.
Proof. exists []. repeat split; [constructor|simpl; lia]. Qed.

Lemma fields_fit_parts s : fields_fit s = true ->
  0 <= l_opacity s <= 255 /\
  match l_iopa s with Some v => 0 <= v <= 255 | None => True end /\
  match l_lsct s with Some d => match sd_sub d with Some t => u32 t | None => true end | None => true end = true /\
  match l_lsdk s with Some d => match sd_sub d with Some t => u32 t | None => true end | None => true end = true /\
  match l_luni s with Some u => len u <= 16777216 | None => True end.
Proof.
  unfold fields_fit. intro F. repeat (apply andb_true_iff in F as [F ?]).
  repeat split; try assumption; try lia.
  - destruct (l_iopa s); [lia|exact I].
  - destruct (l_luni s); [lia|exact I].
Qed.

Lemma my_blocks_ok s :
  wf_layer s = true -> fields_fit s = true -> text_ok s -> storable s = true ->
  exists bl, my_blocks s = Ok bl /\ Forall mine_ok bl /\ (length bl <= 5)%nat.
Proof.
  intros L F T S. destruct (wf_layer_parts s L) as (_ & _ & Lc & Lk).
  destruct (fields_fit_parts s F) as (_ & Fi & Fc & Fk & Fu).
  destruct (storable_parts s S) as (_ & _ & _ & _ & Sp).
  unfold my_blocks, text_ok in *.
  assert (exists b1, oblock key_luni (option_map leaf_of_luni (l_luni s)) = Ok b1 /\ Forall mine_ok b1 /\ (length b1 <= 1)%nat) as (b1 & -> & M1 & N1).
  { destruct (l_luni s) as [u|]; [|apply oblock_none]. cbn [option_map].
    apply (oblock_ok _ _ (4 * len u + 7)); [reflexivity|apply wok_luni; assumption|unfold blk_bound; lia]. }
  assert (forall key o, memz key my_keys = true -> odiv_wf o = true ->
            match o with Some d => match sd_sub d with Some t => u32 t | None => true end | None => true end = true ->
            exists bl, oblock key (option_map leaf_of_div o) = Ok bl /\ Forall mine_ok bl /\ (length bl <= 1)%nat) as HD.
  { intros key o K Wd Ws. destruct o as [d|]; [|apply oblock_none]. cbn [option_map].
    apply (oblock_ok _ _ 16); [exact K|apply wok_div; assumption|unfold blk_bound; lia]. }
  destruct (HD key_lsct _ eq_refl Lc Fc) as (b2 & -> & M2 & N2).
  destruct (HD key_lsdk _ eq_refl Lk Fk) as (b3 & -> & M3 & N3).
  assert (exists b4, oblock key_lspf (option_map LInteger (l_lspf s)) = Ok b4 /\ Forall mine_ok b4 /\ (length b4 <= 1)%nat) as (b4 & -> & M4 & N4).
  { destruct (l_lspf s) as [p|]; [|apply oblock_none]. cbn [option_map].
    apply (oblock_ok _ _ 4); [reflexivity| |unfold blk_bound; lia].
    cbn [write_leaf]. apply (wok_fmt_rok _ (Z.of_nat 4)), rok_pack_u, u32_range, Sp. }
  assert (exists b5, oblock key_iopa (option_map LByte (l_iopa s)) = Ok b5 /\ Forall mine_ok b5 /\ (length b5 <= 1)%nat) as (b5 & -> & M5 & N5).
  { destruct (l_iopa s) as [v|]; [|apply oblock_none]. cbn [option_map].
    apply (oblock_ok _ _ 4); [reflexivity| |unfold blk_bound; lia].
    cbn [write_leaf]. apply (wok_fmt_rok _ (Z.of_nat 1 + (Z.of_nat 3 + 0))).
    apply rok_pk_cons; [apply rok_pack_u; rewrite pow256_1; lia|]. apply rok_pk_cons; [apply rok_zeros|apply rok_pk_nil]. }
  cbn [bind]. eexists. split; [reflexivity|]. split.
  - repeat (apply Forall_app; split); assumption.
  - rewrite !app_length. lia.
Qed.

(* one of the typed blocks inside the record *)
Lemma wok_my_block v b : mine_ok b -> wok (write_tagged_block v 1 b) (len (tb_data b) + 16).
Proof.
  intros (Sg & K & Lb). unfold write_tagged_block.
  assert (Hk : 0 <= tb_key b < pow256 4).
  { unfold my_keys, memz in K. cbn [existsb] in K. rewrite pow256_4.
    unfold key_luni, key_lsct, key_lsdk, key_lspf, key_iopa in K. lia. }
  assert (Hs : 0 <= tb_sig b < pow256 4) by (rewrite Sg, pow256_4; unfold sig_8BIM; lia).
  pose proof (len_nonneg (tb_data b)).
  eapply wok_mono.
  - apply wok_seq; [apply wok_fmt_rok; rok_fields|].
    apply wok_length_block; [apply wok_bytes| |lia].
    destruct (tb_len_bytes_cases v (tb_key b)) as [-> | ->]; [rewrite pow256_4|rewrite pow256_8]; unfold blk_bound in Lb; lia.
  - destruct (tb_len_bytes_cases v (tb_key b)) as [-> | ->]; cbn [Nat.add];
      change (Z.of_nat 4) with 4; change (Z.of_nat 8) with 8; lia.
Qed.

Lemma wok_my_blocks v bl :
  Forall mine_ok bl -> wok (w_concat (map (write_tagged_block v 1) bl)) (len bl * (blk_bound + 16)).
Proof.
  induction 1 as [|b bl Hb _ IH]; cbn [map w_concat]; [apply wok_nil|].
  eapply wok_mono; [apply wok_seq; [apply wok_my_block, Hb|exact IH]|].
  destruct Hb as (_ & _ & Lb). rewrite len_cons. lia.
Qed.

Lemma wok_concat_app a : forall b A B, Forall wtruth a ->
  wok (w_concat a) A -> wok (w_concat b) B -> wok (w_concat (a ++ b)) (A + B).
Proof.
  induction a as [|x a IH]; intros b A B T Ha Hb.
  - destruct Ha as (bs & n & E & Hn). inversion E; subst. eapply wok_mono; [exact Hb|lia].
  - inversion T as [|? ? Tx Ta]; subst. destruct Ha as (bs & n & E & Hn). cbn [w_concat app] in *.
    apply w_seq_inv in E as (b1 & n1 & b2 & n2 & E1 & E2 & -> & ->).
    pose proof (Tx _ _ E1) as L1. pose proof (wtruth_concat _ Ta _ _ E2) as L2.
    pose proof (len_nonneg b1). pose proof (len_nonneg b2).
    eapply wok_mono; [apply wok_seq; [exists b1, n1; split; [exact E1|split; [lia|apply Z.le_refl]]|
                                      apply (IH b n2 B Ta); [exists b2, n2; split; [exact E2|lia]|exact Hb]]|lia].
Qed.

(* the pascal name: macroman-encodable, at most 255 bytes *)
Lemma wok_pascal name : macroman name = true -> len name <= 255 -> wok (w_pascal mac_enc name 4) 259.
Proof.
  intros M L. destruct (macroman_enc_ok name M) as (b & Hb & Hl). unfold w_pascal, mac_enc. rewrite Hb. cbn [bind].
  assert (Lb : len b = len name) by (unfold len; congruence). pose proof (len_nonneg b).
  eapply wok_mono; [apply wok_then_pad; [apply wok_seq; [apply wok_fmt_rok, rok_pack_u; rewrite pow256_1; lia|apply wok_bytes]|lia]|].
  change (Z.of_nat 1) with 1. lia.
Qed.

Lemma wok_ok w B : wok w B -> exists bs n, w = Ok (bs, n).
Proof. intros (bs & n & E & _). eauto. Qed.

(* LayerRecord.write succeeds on a writable layer (in an environment that writes) *)
Theorem write_succeeds e s :
  env_wf e = true -> env_fits e -> wf_layer s = true -> fields_fit s = true -> text_ok s -> writable s = true ->
  exists r bs n, record_of e s = Ok r /\ write_record mac_enc (e_version e) r = Ok (bs, n).
Proof.
  intros W (Hc & Bc & Bm & Br & Bo & Kc & Km & Kr & Ko & Hsum) L F T Wr.
  unfold writable in Wr. apply andb_true_iff in Wr as [S N].
  destruct (my_blocks_ok s L F T S) as (bl & HB & MB & NB).
  unfold record_of. rewrite HB. cbn [bind].
  destruct (wf_layer_parts s L) as (Lb & _ & _ & _).
  destruct (fields_fit_parts s F) as (Fo & _ & _ & _ & _).
  destruct (storable_parts s S) as (S1 & S2 & S3 & S4 & _).
  unfold name_writable in N. apply andb_true_iff in N as [Nm Nl].
  pose proof (i32_range _ S1). pose proof (i32_range _ S2). pose proof (i32_range _ S3). pose proof (i32_range _ S4).
  pose proof (blend_in_u4 _ Lb) as Hb.
  assert (Hs : 0 <= sig_8BIM < pow256 4) by (rewrite pow256_4; unfold sig_8BIM; lia).
  assert (Ho : 0 <= l_opacity s < pow256 1) by (rewrite pow256_1; lia).
  assert (Hcl : 0 <= (if l_clip s then 1 else 0) < pow256 1) by (rewrite pow256_1; destruct (l_clip s); lia).
  assert (Hn : 0 <= len (e_channels e) < pow256 2) by (rewrite pow256_2; pose proof (len_nonneg (e_channels e)); lia).
  pose proof (flags_byte_range (flip1 (flags_of_layer s))) as Hf.
  assert (Hf' : 0 <= lflags_byte (flags_of_layer s) < pow256 1) by (rewrite pow256_1; exact Hf).
  (* the tagged blocks: mine, then the environment's *)
  assert (Kt : wok (write_tagged_blocks (e_version e) 1 (bl ++ e_others e)) (len bl * (blk_bound + 16) + Bo)).
  { unfold write_tagged_blocks. rewrite map_app. apply wok_concat_app; [|apply wok_my_blocks; exact MB|exact Ko].
    apply Forall_forall. intros w Hw. apply in_map_iff in Hw as (b & <- & _). apply wtruth_tagged_block. }
  assert (Hlen : len bl <= 5) by (unfold len; lia). pose proof (len_nonneg bl).
  (* the extras block *)
  assert (Ke : wok (write_record_extra mac_enc (e_version e)
                      (mkRec (l_top s) (l_left s) (l_bottom s) (l_right s) (e_channels e) sig_8BIM (l_rblend s)
                         (l_opacity s) (if l_clip s then 1 else 0) (flags_of_layer s) (e_mask e) (e_ranges e)
                         (l_rname s) (bl ++ e_others e)))
                   (Bm + Br + 259 + (len bl * (blk_bound + 16) + Bo) + 1)).
  { unfold write_record_extra. cbn [r_mask r_ranges r_name r_blocks].
    replace (Bm + Br + 259 + (len bl * (blk_bound + 16) + Bo) + 1)
      with (Bm + Br + 259 + (len bl * (blk_bound + 16) + Bo) + (2 - 1)) by lia.
    apply wok_then_pad; [|lia]. repeat apply wok_seq; [exact Km|exact Kr|apply wok_pascal; [exact Nm|unfold len; apply Z.leb_le in Nl; exact Nl]|exact Kt]. }
  match goal with |- exists r bs n, Ok ?R = Ok r /\ _ => set (rec := R) end.
  assert (K : wok (write_record mac_enc (e_version e) rec)
                ((Z.of_nat 4 + (Z.of_nat 4 + (Z.of_nat 4 + (Z.of_nat 4 + (Z.of_nat 2 + 0))))) + Bc
                 + (Z.of_nat 4 + (Z.of_nat 4 + (Z.of_nat 1 + (Z.of_nat 1 + 0)))) + Z.of_nat 1
                 + (Bm + Br + 259 + (len bl * (blk_bound + 16) + Bo) + 1 + Z.of_nat (1 + 4) + (1 - 1))));
    [|destruct K as (bs & n & E & _); exists rec, bs, n; split; [reflexivity|exact E]].
  subst rec.
  unfold write_record. cbn [r_top r_left r_bottom r_right r_channels r_sig r_blend r_opacity r_clip r_flags].
  repeat apply wok_seq.
  - apply wok_fmt_rok. rok_fields.
  - exact Kc.
  - apply wok_fmt_rok. rok_fields.
  - apply wok_fmt_rok, rok_pack_u. exact Hf'.
  - apply wok_length_block; [exact Ke| |lia].
    rewrite pow256_4. unfold blk_bound. destruct Km as (? & ? & _ & ?), Kr as (? & ? & _ & ?), Ko as (? & ? & _ & ?). nia.
Qed.

(* ------------------------------------------------------------------ THE DISCHARGED ASSUMPTION *)
(* everything a state must satisfy beyond [writable]: invariants of the Python objects and sizes *)
Definition sound (e : env) (s : layer) : Prop :=
  env_wf e = true /\ env_fits e /\ wf_layer s = true /\ fields_fit s = true /\ text_ok s.

Theorem stored_roundtrip e s :
  sound e s -> writable s = true -> save_open_bytes e s = AOk (stored s).
Proof.
  intros (W & Ef & L & F & T) Wr.
  destruct (write_succeeds e s W Ef L F T Wr) as (r & bs & n & R & Wb).
  unfold writable in Wr. apply andb_true_iff in Wr as [_ N].
  exact (stored_roundtrip_written e s r bs n W L T N R Wb).
Qed.

(* ------------------------------------------------------------------ the invariants are kept by every setter *)
Definition value_text_ok (a : attr) (v : val) : Prop :=
  match a, v with AName, VStr l => SM.valid_str l | _, _ => True end.

Lemma wf_layer_build s :
  memz (l_rblend s) model_blend_modes = true -> l_fbits s = fbits_of_flags (flags_of_layer s) ->
  odiv_wf (l_lsct s) = true -> odiv_wf (l_lsdk s) = true -> wf_layer s = true.
Proof. unfold wf_layer. intros -> E -> ->. rewrite <- E, Z.eqb_refl. reflexivity. Qed.

Lemma set_blend_wf c z s s' : set_blend c z s = AOk s' -> wf_layer s = true -> wf_layer s' = true.
Proof.
  intros H L. destruct (wf_layer_parts s L) as (Lb & Lf & Lc & Lk).
  pose proof (set_blend_form _ _ _ _ H) as [V _]. pose proof (valid_blend_model _ V) as Vm.
  assert (Hn : memz bm_norm model_blend_modes = true) by reflexivity.
  assert (U : forall o, odiv_wf o = true -> odiv_wf (option_map (upd_div c z) o) = true).
  { intros [d|] Wd; [|reflexivity]. cbn [option_map odiv_wf] in *. unfold div_wf in *.
    apply andb_true_iff in Wd as [Wk _]. cbn [upd_div sd_kind sd_blend]. rewrite Wk, Vm. reflexivity. }
  assert (R : memz (if z =? bm_pass then bm_norm else z) model_blend_modes = true) by (destruct (z =? bm_pass); assumption).
  unfold set_blend in H. rewrite V in H. cbn [negb] in H.
  destruct (is_group (l_kind s)); [destruct (fix_lsdk c); [destruct (l_lsdk s) as [k|] eqn:EK|]|]; inversion H; subst s'; clear H;
    apply wf_layer_build; cbn [with_blend l_rblend l_lsct l_lsdk]; try assumption; try (apply U; assumption); try exact Lf.
  apply (U (Some k)). exact Lk.
Qed.

Lemma set_wf_layer c a v s s' : set c a v s = AOk s' -> wf_layer s = true -> wf_layer s' = true.
Proof.
  intros H L. destruct a, v; simpl in H; try discriminate.
  - unfold set_name in H. destruct (Z.of_nat (length l) <? 256); inversion H; subst. exact L.
  - inversion H; subst. exact L.
  - unfold set_opacity in H. destruct ((0 <=? z) && (z <=? 255)); inversion H; subst. exact L.
  - eapply set_blend_wf; eauto.
  - unfold set_left in H. destruct (l_kind s); inversion H; subst; exact L.
  - unfold set_top in H. destruct (l_kind s); inversion H; subst; exact L.
  - unfold set_clip in H. destruct (fix_clip c || l_attached s); inversion H; subst; exact L.
  - unfold set_lock in H. destruct (l_lspf s); inversion H; subst; exact L.
Qed.

Lemma set_fields_fit c a v s s' : set c a v s = AOk s' -> fields_fit s = true -> fields_fit s' = true.
Proof.
  intros H F. destruct a, v; simpl in H; try discriminate.
  - unfold set_name in H. destruct (Z.of_nat (length l) <? 256) eqn:E; inversion H; subst.
    unfold fields_fit in *. cbn [with_name l_opacity l_iopa l_lsct l_lsdk l_luni].
    repeat (apply andb_true_iff in F as [F ?]). repeat (apply andb_true_iff; split); try assumption.
    unfold len. lia.
  - inversion H; subst. exact F.
  - unfold set_opacity in H. destruct ((0 <=? z) && (z <=? 255)) eqn:E; inversion H; subst.
    unfold fields_fit in *. cbn [with_opacity l_opacity l_iopa l_lsct l_lsdk l_luni].
    repeat (apply andb_true_iff in F as [F ?]). repeat (apply andb_true_iff; split); try assumption; lia.
  - unfold fields_fit in *. repeat (apply andb_true_iff in F as [F ?]).
    unfold set_blend in H. destruct (negb (valid_blend z)); [discriminate|].
    destruct (is_group (l_kind s)); [destruct (fix_lsdk c); [destruct (l_lsdk s) as [k|] eqn:EK|]|]; inversion H; subst s'; clear H;
      cbn [with_blend l_opacity l_iopa l_lsct l_lsdk l_luni option_map upd_div sd_sub];
      repeat (apply andb_true_iff; split); try assumption; try reflexivity;
      destruct (l_lsct s); cbn [option_map upd_div sd_sub]; assumption.
  - unfold set_left in H. destruct (l_kind s); inversion H; subst; exact F.
  - unfold set_top in H. destruct (l_kind s); inversion H; subst; exact F.
  - unfold set_clip in H. destruct (fix_clip c || l_attached s); inversion H; subst; exact F.
  - unfold set_lock in H. destruct (l_lspf s); inversion H; subst; exact F.
Qed.

Lemma set_text_ok c a v s s' : set c a v s = AOk s' -> value_text_ok a v -> text_ok s -> text_ok s'.
Proof.
  intros H V T. destruct a, v; simpl in H; try discriminate.
  - unfold set_name in H. destruct (Z.of_nat (length l) <? 256); inversion H; subst. exact V.
  - inversion H; subst. exact T.
  - unfold set_opacity in H. destruct ((0 <=? z) && (z <=? 255)); inversion H; subst. exact T.
  - apply set_blend_form in H as [_ (rb & d & k & ->)]. exact T.
  - unfold set_left in H. destruct (l_kind s); inversion H; subst; exact T.
  - unfold set_top in H. destruct (l_kind s); inversion H; subst; exact T.
  - unfold set_clip in H. destruct (fix_clip c || l_attached s); inversion H; subst; exact T.
  - unfold set_lock in H. destruct (l_lspf s); inversion H; subst; exact T.
Qed.

Lemma sound_set e c a v s s' : set c a v s = AOk s' -> value_text_ok a v -> sound e s -> sound e s'.
Proof.
  intros H V (W & Ef & L & F & T). split; [exact W|]. split; [exact Ef|]. split; [|split].
  - eapply set_wf_layer; eauto.
  - eapply set_fields_fit; eauto.
  - eapply set_text_ok; eauto.
Qed.

Lemma sound_run_sets e c l : forall s,
  Forall (fun av => value_text_ok (fst av) (snd av)) l -> sound e s -> sound e (run_sets c l s).
Proof.
  induction l as [|[a v] l IH]; intros s V S; [exact S|].
  inversion V as [|? ? Va Vl]; subst. unfold run_sets in *. cbn [fold_left]. apply IH; [exact Vl|].
  unfold step. cbn [apply fst snd]. destruct (set c a v s) eqn:E; [|exact S]. eapply sound_set; eauto.
Qed.

(* the API constructors produce sound layers *)
Lemma sound_new_group e n o p :
  env_wf e = true -> env_fits e -> SM.valid_str n -> len n <= 16777216 -> sound e (new_group fixed_cfg n o p).
Proof.
  intros W Ef V L. split; [exact W|]. split; [exact Ef|]. split; [destruct o; reflexivity|]. split; [|exact V].
  unfold fields_fit. cbn. apply Z.leb_le in L. destruct o; rewrite L; reflexivity.
Qed.

Lemma sound_new_pixel e att n t l w h dw dh p :
  env_wf e = true -> env_fits e -> SM.valid_str n -> len n <= 16777216 ->
  sound e (new_pixel fixed_cfg att n t l w h dw dh p).
Proof.
  intros W Ef V L. split; [exact W|]. split; [exact Ef|]. split; [reflexivity|]. split; [|exact V].
  unfold fields_fit. cbn. apply Z.leb_le in L. rewrite L. reflexivity.
Qed.

(* ------------------------------------------------------------------ the persistence theorems, on bytes *)
Definition stored_fn (s : layer) : ares layer := AOk (stored s).
Lemma stored_fn_spec : forall s, writable s = true -> stored_fn s = AOk (stored s).
Proof. reflexivity. Qed.

Theorem persist_get_bytes e c a s :
  sound e s -> writable s = true -> persist_get_guard c a s = true ->
  exists s', save_open_bytes e s = AOk s' /\ get c a s' = get c a s.
Proof.
  intros S W G. rewrite (stored_roundtrip e s S W).
  exact (persist_get stored_fn stored_fn_spec c a s W G).
Qed.

Theorem persist_set_bytes e c a v s s1 :
  sound e s -> value_text_ok a v ->
  set c a v s = AOk s1 -> get_set_guard c a v s = true -> persist_set_guard c a v s = true ->
  writable s1 = true ->
  exists s2, save_open_bytes e s1 = AOk s2 /\ get c a s2 = v.
Proof.
  intros S V H G P W. rewrite (stored_roundtrip e s1 (sound_set e c a v s s1 H V S) W).
  exact (persist_set stored_fn stored_fn_spec c a v s s1 H G P W).
Qed.

Theorem persist_rest_bytes e s :
  sound e s -> writable s = true ->
  exists s', save_open_bytes e s = AOk s' /\ l_kind s' = l_kind s /\ l_pixels s' = l_pixels s /\
    get_width s' = get_width s /\ get_height s' = get_height s /\ l_iopa s' = l_iopa s /\
    l_tp s' = l_tp s /\ l_fbits s' = l_fbits s.
Proof.
  intros S W. rewrite (stored_roundtrip e s S W). exact (persist_rest stored_fn stored_fn_spec s W).
Qed.

Theorem history_persist_bytes e a l s :
  sound e s -> Forall (fun av => value_text_ok (fst av) (snd av)) l ->
  divider_ok fixed_cfg s = true -> divider_signed fixed_cfg s = true -> derived_pos (l_kind s) a = false ->
  writable (run_sets fixed_cfg l s) = true ->
  (a = AName -> persist_get_guard fixed_cfg AName (run_sets fixed_cfg l s) = true) ->
  exists s', save_open_bytes e (run_sets fixed_cfg l s) = AOk s' /\
             get fixed_cfg a s' = lastval (l_kind s) a l (get fixed_cfg a s) /\ l_pixels s' = l_pixels s.
Proof.
  intros S V D Sg P W N.
  rewrite (stored_roundtrip e _ (sound_run_sets e fixed_cfg l s V S) W).
  exact (history_persist stored_fn stored_fn_spec a l s D Sg P W N).
Qed.

(* ------------------------------------------------------------------ ... and ONLY on writable layers *)
Lemma pack_s_in n v b : pack_s n v = Ok b -> in_s n v = true.
Proof. unfold pack_s. destruct (in_s n v); [reflexivity|discriminate]. Qed.
Lemma pack_u_in n v b : pack_u n v = Ok b -> in_u n v = true.
Proof. unfold pack_u. destruct (in_u n v); [reflexivity|discriminate]. Qed.
Lemma in_s4_i32 v : in_s 4 v = true -> i32 v = true.
Proof. unfold in_s, i32. rewrite pow256_4. change (4294967296 / 2) with 2147483648. lia. Qed.
Lemma in_u4_u32 v : in_u 4 v = true -> u32 v = true.
Proof. unfold in_u, u32. rewrite pow256_4. lia. Qed.

Lemma index_zmem c : forall l k i, SC.index_of c l k = Some i -> zmem c l = true.
Proof.
  induction l as [|x l IH]; intros k i H; [discriminate|]. simpl in *. rewrite (Z.eqb_sym c x).
  destruct (x =? c); [reflexivity|]. simpl. eapply IH; eauto.
Qed.

Lemma macroman_enc_some l b : SC.macroman_enc l = Some b -> macroman l = true.
Proof.
  unfold SC.macroman_enc, SC.table_enc, macroman. revert b.
  induction l as [|c l IH]; intros b H; [reflexivity|]. simpl in *.
  destruct (SC.table_enc1 SC.macroman_hi c) as [y|] eqn:Ec; [|discriminate].
  destruct (SC.map_opt (SC.table_enc1 SC.macroman_hi) l) as [r|] eqn:El; [|discriminate].
  rewrite (IH r eq_refl), andb_true_r. unfold SC.table_enc1 in Ec. unfold macroman_char.
  destruct ((0 <=? c) && (c <? 128)); [reflexivity|]. simpl. apply (index_zmem c _ _ _ Ec).
Qed.

Theorem written_only_if_writable e s r bs n :
  record_of e s = Ok r -> write_record mac_enc (e_version e) r = Ok (bs, n) -> writable s = true.
Proof.
  intros R H. unfold record_of in R. destruct (my_blocks s) as [bl|] eqn:B; [|discriminate].
  cbn [bind] in R. inversion R; subst r; clear R. unfold write_record in H.
  cbn [r_top r_left r_bottom r_right r_channels r_sig r_blend r_opacity r_clip r_flags] in H.
  apply w_seq_inv in H as (b1234 & n1234 & b5 & n5 & H & H5 & -> & ->).
  apply w_seq_inv in H as (b123 & n123 & b4 & n4 & H & H4 & -> & ->).
  apply w_seq_inv in H as (b12 & n12 & b3 & n3 & H & H3 & -> & ->).
  apply w_seq_inv in H as (b1 & n1 & b2 & n2 & H1 & H2 & -> & ->).
  apply w_fmt_inv in H1 as [H1 _]. open_pk H1.
  (* the extras block was written: so was the pascal name *)
  unfold w_length_block in H5.
  destruct (write_record_extra mac_enc (e_version e) _) as [[xe ne]|] eqn:He; [|discriminate]. clear H5.
  unfold write_record_extra in He. cbn [r_mask r_ranges r_name r_blocks] in He.
  apply w_then_pad_inv in He as (ex & nex & Hx & _ & _).
  apply w_seq_inv in Hx as (e123 & m123 & e4 & m4 & Hx & _ & _ & _).
  apply w_seq_inv in Hx as (e12 & m12 & e3 & m3 & _ & He3 & _ & _).
  unfold w_pascal, mac_enc in He3. destruct (SC.macroman_enc (l_rname s)) as [d|] eqn:Ed; [|discriminate].
  cbn [bind] in He3. apply w_then_pad_inv in He3 as (ey & ney & Hy & _ & _).
  apply w_seq_inv in Hy as (ea & nea & ec & nec & Ha & _ & _ & _). apply w_fmt_inv in Ha as [Ha _].
  apply pack_u_in in Ha. unfold in_u in Ha. rewrite pow256_1 in Ha.
  pose proof (SCP.map_opt_length _ _ _ Ed) as Ld.
  (* the protection block was built *)
  assert (Sp : match l_lspf s with Some p => u32 p | None => true end = true).
  { destruct (l_lspf s) as [p|] eqn:Ep; [|reflexivity]. unfold my_blocks in B. rewrite Ep in B. cbn [option_map] in B.
    destruct (oblock key_luni _); [|discriminate]. destruct (oblock key_lsct _); [|discriminate].
    destruct (oblock key_lsdk _); [|discriminate]. cbn [bind] in B.
    destruct (oblock key_lspf (Some (LInteger p))) eqn:Eo; [|discriminate].
    unfold oblock, payload in Eo. cbn [write_leaf] in Eo.
    destruct (w_fmt (pack_u 4 p)) as [[q nq]|] eqn:Eq; [|discriminate].
    apply w_fmt_inv in Eq as [Eq _]. apply in_u4_u32. eapply pack_u_in; eauto. }
  unfold writable. apply andb_true_iff. split.
  - apply storable_build; try assumption; apply in_s4_i32; eapply pack_s_in; eauto.
  - unfold name_writable. rewrite (macroman_enc_some _ _ Ed). unfold len in Ha. rewrite Ld in Ha. lia.
Qed.

(* with [stored_roundtrip]: on a sound layer the byte-level save + open succeeds exactly when the layer is
   [writable], and then returns [stored] - the model's [reopen] is the byte-level function *)
Theorem save_open_bytes_is_reopen e s :
  sound e s -> (exists s', save_open_bytes e s = AOk s') <-> writable s = true.
Proof.
  intro S. split.
  - intros [s' H]. unfold save_open_bytes in H.
    destruct (record_of e s) as [r|] eqn:R; [|discriminate].
    destruct (write_record mac_enc (e_version e) r) as [[bs n]|] eqn:Wb; [|discriminate].
    eapply written_only_if_writable; eauto.
  - intro W. exists (stored s). apply stored_roundtrip; assumption.
Qed.
