(* C16 - lemmas about the attribute model (Attrs/Model.v). *)
From PsdV Require Import Base.Prelude Attrs.Model.
From Coq Require Import ZArith List Bool Lia.

Definition is_some {A} (o : option A) : bool := match o with Some _ => true | None => false end.

(* ------------------------------------------------------------------ guards *)
(* the exact class of (configuration, attribute, value, state) on which the getter returns the value just set *)
Definition get_set_guard (c : cfg) (a : attr) (v : val) (s : layer) : bool :=
  match a, v with
  | ABlend, VInt z => negb (is_group (l_kind s)) || is_some (setting c s) || negb (z =? bm_pass)
  | AClip, VBool b => fix_clip c || l_attached s || Bool.eqb b (l_clip s)
  | ALock, VInt z => fix_lock c || is_some (l_lspf s) || (z =? 0)
  | _, _ => true
  end.

(* a group's left/top are derived from its visible content: its own visibility feeds them (by design) *)
Definition frame_guard (a b : attr) (s : layer) : bool :=
  negb (attr_eqb a AVisible && (kind_code (l_kind s) =? 1) && (attr_eqb b ALeft || attr_eqb b ATop)).

(* FillLayer.right / bottom read a stored 0 as "canvas size" *)
Definition move_guard_x (v : Z) (s : layer) : bool :=
  negb ((kind_code (l_kind s) =? 6) && (v + get_width s =? 0)).
Definition move_guard_y (v : Z) (s : layer) : bool :=
  negb ((kind_code (l_kind s) =? 6) && (v + get_height s =? 0)).

(* every Group object the library builds has the divider block *)
Definition divider_ok (c : cfg) (s : layer) : bool := negb (is_group (l_kind s)) || is_some (setting c s).

(* the group's divider writes its blend mode: it has a signature, or no blend mode to lose *)
Definition divider_signed (c : cfg) (s : layer) : bool :=
  negb (is_group (l_kind s)) ||
  match setting c s with Some d => sd_sig d || negb (is_some (sd_blend d)) | None => true end.

(* text that UTF-16 returns unchanged *)
Definition utf16_stable (l : list Z) : bool := list_eqb (utf16_rt l) l.

Definition persist_get_guard (c : cfg) (a : attr) (s : layer) : bool :=
  match a with
  | AName => match l_luni s with Some u => utf16_stable u | None => true end
  | ABlend => divider_signed c s
  | _ => true
  end.

Definition persist_set_guard (c : cfg) (a : attr) (v : val) (s : layer) : bool :=
  match a, v with
  | AName, VStr l => utf16_stable l
  | ABlend, VInt _ =>
      negb (is_group (l_kind s)) || fix_group c ||
      match setting c s with Some d => sd_sig d | None => true end
  | _, _ => true
  end.

(* ------------------------------------------------------------------ basic facts *)
Lemma attr_eqb_eq a b : attr_eqb a b = true <-> a = b.
Proof. destruct a, b; unfold attr_eqb; simpl; split; intro H; try reflexivity; try discriminate. Qed.

Lemma bm_pass_norm : (bm_pass =? bm_norm) = false.
Proof. reflexivity. Qed.

Lemma valid_pass : valid_blend bm_pass = true.
Proof. reflexivity. Qed.

Lemma macroman_qmark : macroman [qmark] = true.
Proof. reflexivity. Qed.

Ltac inv H := inversion H; subst; clear H.

(* ------------------------------------------------------------------ the blend mode setter, summarised *)
Lemma set_blend_form c v s s' :
  set_blend c v s = AOk s' -> valid_blend v = true /\ exists rb d k, s' = with_blend s rb d k.
Proof.
  unfold set_blend. destruct (valid_blend v); simpl; [|discriminate]. intro H. split; [reflexivity|].
  destruct (is_group (l_kind s)); [destruct (fix_lsdk c); [destruct (l_lsdk s)|]|]; inv H; eauto.
Qed.

(* on a group: the record gets NORMAL for PASS_THROUGH, the divider Group._setting sees gets the value *)
Lemma set_blend_group c v s s' :
  set_blend c v s = AOk s' -> is_group (l_kind s) = true ->
  setting c s' = option_map (upd_div c v) (setting c s) /\
  l_rblend s' = (if v =? bm_pass then bm_norm else v).
Proof.
  unfold set_blend, setting. destruct (valid_blend v); simpl; [|discriminate]. intros H G. rewrite G in H.
  destruct (fix_lsdk c); [destruct (l_lsdk s)|]; inv H; simpl; split; reflexivity.
Qed.

Lemma set_blend_plain c v s s' :
  set_blend c v s = AOk s' -> is_group (l_kind s) = false -> s' = with_blend s v (l_lsct s) (l_lsdk s).
Proof.
  unfold set_blend. destruct (valid_blend v); simpl; [|discriminate]. intros H G. rewrite G in H. now inv H.
Qed.

Lemma setting_with_other c s s' :
  l_lsct s' = l_lsct s -> l_lsdk s' = l_lsdk s -> setting c s' = setting c s.
Proof. unfold setting. intros -> ->. reflexivity. Qed.

(* ------------------------------------------------------------------ what a successful set leaves alone *)
Definition same_rest (s s' : layer) : Prop :=
  l_kind s' = l_kind s /\ l_pixels s' = l_pixels s /\ l_iopa s' = l_iopa s /\ l_tp s' = l_tp s /\
  l_fbits s' = l_fbits s /\ l_docw s' = l_docw s /\ l_doch s' = l_doch s /\ l_box s' = l_box s /\
  l_ancvis s' = l_ancvis s /\ l_attached s' = l_attached s.

Lemma same_rest_refl s : same_rest s s.
Proof. unfold same_rest; repeat split. Qed.

Lemma set_same_rest c a v s s' : set c a v s = AOk s' -> same_rest s s'.
Proof.
  intro H. destruct a, v; simpl in H; try discriminate.
  - unfold set_name in H. destruct (Z.of_nat (length l) <? 256); inv H. unfold same_rest; repeat split.
  - inv H. unfold same_rest; repeat split.
  - unfold set_opacity in H. destruct ((0 <=? z) && (z <=? 255)); inv H. unfold same_rest; repeat split.
  - apply set_blend_form in H as [_ (rb & d & k & ->)]. unfold same_rest; repeat split.
  - unfold set_left in H. destruct (l_kind s) eqn:K; inv H; unfold same_rest; simpl; repeat split; assumption.
  - unfold set_top in H. destruct (l_kind s) eqn:K; inv H; unfold same_rest; simpl; repeat split; assumption.
  - unfold set_clip in H. destruct (fix_clip c || l_attached s); inv H; unfold same_rest; repeat split.
  - unfold set_lock in H. destruct (l_lspf s); inv H; unfold same_rest; repeat split.
Qed.

(* ------------------------------------------------------------------ acceptance *)
(* the edits the API accepts: depends on the value and the kind only *)
Definition accepts (k : kind) (a : attr) (v : val) : bool :=
  match a, v with
  | AName, VStr l => Z.of_nat (length l) <? 256
  | AVisible, VBool _ => true
  | AOpacity, VInt z => (0 <=? z) && (z <=? 255)
  | ABlend, VInt z => valid_blend z
  | ALeft, VInt _ | ATop, VInt _ =>
      match k with KGroup | KShape | KArtboard => false | _ => true end
  | AClip, VBool _ => true
  | ALock, VInt _ => true
  | _, _ => false
  end.

Lemma set_accepts c a v s : (exists s', set c a v s = AOk s') <-> accepts (l_kind s) a v = true.
Proof.
  destruct a, v; simpl; split; try (intros [s' H]; discriminate); try discriminate; try (intros _; reflexivity).
  - intros [s' H]. unfold set_name in H. destruct (Z.of_nat (length l) <? 256); [reflexivity|discriminate].
  - intro H. unfold set_name. rewrite H. eexists; reflexivity.
  - intros _. eexists; reflexivity.
  - intros [s' H]. unfold set_opacity in H. destruct ((0 <=? z) && (z <=? 255)); [reflexivity|discriminate].
  - intro H. unfold set_opacity. rewrite H. eexists; reflexivity.
  - intros [s' H]. apply set_blend_form in H as [H _]. exact H.
  - intro H. unfold set_blend. rewrite H. simpl.
    destruct (is_group (l_kind s)); [destruct (fix_lsdk c); [destruct (l_lsdk s)|]|]; eexists; reflexivity.
  - intros [s' H]. unfold set_left in H. destruct (l_kind s); try discriminate; reflexivity.
  - intro H. unfold set_left. destruct (l_kind s); try discriminate; eexists; reflexivity.
  - intros [s' H]. unfold set_top in H. destruct (l_kind s); try discriminate; reflexivity.
  - intro H. unfold set_top. destruct (l_kind s); try discriminate; eexists; reflexivity.
  - intros _. unfold set_clip. destruct (fix_clip c || l_attached s); eexists; reflexivity.
  - intros _. unfold set_lock. destruct (l_lspf s); eexists; reflexivity.
Qed.

(* ------------------------------------------------------------------ get after set *)
Lemma get_set c a v s s' :
  set c a v s = AOk s' -> get_set_guard c a v s = true -> get c a s' = v.
Proof.
  intros H G. destruct a, v; simpl in H; try discriminate.
  - unfold set_name in H. destruct (Z.of_nat (length l) <? 256); inv H. reflexivity.
  - inv H. reflexivity.
  - unfold set_opacity in H. destruct ((0 <=? z) && (z <=? 255)); inv H. reflexivity.
  - simpl in G. unfold get, get_blend.
    pose proof (set_blend_form _ _ _ _ H) as [_ (rb & d & k & E)].
    assert (K' : l_kind s' = l_kind s) by (subst s'; reflexivity). rewrite K'.
    destruct (is_group (l_kind s)) eqn:K.
    + destruct (set_blend_group _ _ _ _ H K) as [S R]. rewrite S, R.
      destruct (setting c s); simpl in *; [reflexivity|].
      destruct (z =? bm_pass); [discriminate|reflexivity].
    + rewrite (set_blend_plain _ _ _ _ H K). reflexivity.
  - unfold set_left in H. unfold get, get_left, get_box.
    destruct (l_kind s) eqn:K; inv H; simpl; rewrite K; reflexivity.
  - unfold set_top in H. unfold get, get_top, get_box.
    destruct (l_kind s) eqn:K; inv H; simpl; rewrite K; reflexivity.
  - unfold set_clip in H. simpl in G. unfold get, get_clip.
    destruct (fix_clip c || l_attached s) eqn:E; inv H; simpl; [reflexivity|].
    rewrite orb_false_l in G. apply eqb_prop in G. congruence.
  - unfold set_lock in H. simpl in G. unfold get, get_lock.
    destruct (l_lspf s) eqn:E; inv H; simpl; [reflexivity|].
    destruct (fix_lock c); [reflexivity|]. simpl in G. apply Z.eqb_eq in G. congruence.
Qed.

(* the guard is exact: outside it the getter does NOT return the value *)
Lemma get_set_exact c a v s s' :
  set c a v s = AOk s' -> get_set_guard c a v s = false -> get c a s' <> v.
Proof.
  intros H G. destruct a, v; simpl in H; try discriminate; simpl in G; try discriminate.
  - apply orb_false_iff in G as [G G3]. apply orb_false_iff in G as [G1 G2].
    apply negb_false_iff in G1. apply negb_false_iff in G3. apply Z.eqb_eq in G3. subst z.
    pose proof (set_blend_form _ _ _ _ H) as [_ (rb & d & k & E)].
    assert (K' : l_kind s' = l_kind s) by (subst s'; reflexivity).
    destruct (set_blend_group _ _ _ _ H G1) as [S R].
    unfold get, get_blend. rewrite K', G1, S, R. destruct (setting c s); [discriminate|]. simpl. discriminate.
  - unfold set_clip in H.
    apply orb_false_iff in G as [G G3]. rewrite G in H. inv H.
    unfold get, get_clip. intro X. inv X. rewrite eqb_reflx in G3. discriminate.
  - unfold set_lock in H.
    apply orb_false_iff in G as [G G3]. apply orb_false_iff in G as [G1 G2].
    destruct (l_lspf s) eqn:E; [discriminate|]. inv H. rewrite G1.
    unfold get, get_lock. simpl. intro X. inv X. discriminate.
Qed.

(* ------------------------------------------------------------------ frame *)
Lemma frame c a b v s s' :
  a <> b -> set c a v s = AOk s' -> frame_guard a b s = true -> get c b s' = get c b s.
Proof.
  intros N H G. destruct a, v; simpl in H; try discriminate.
  - unfold set_name in H. destruct (Z.of_nat (length l) <? 256); inv H.
    destruct b; try congruence; reflexivity.
  - inv H. destruct b; try congruence; try reflexivity.
    + unfold get, get_left, get_box. simpl.
      destruct (l_kind s) eqn:K; try reflexivity. unfold frame_guard in G. rewrite K in G. discriminate.
    + unfold get, get_top, get_box. simpl.
      destruct (l_kind s) eqn:K; try reflexivity. unfold frame_guard in G. rewrite K in G. discriminate.
  - unfold set_opacity in H. destruct ((0 <=? z) && (z <=? 255)); inv H.
    destruct b; try congruence; reflexivity.
  - apply set_blend_form in H as [_ (rb & d & k & ->)]. destruct b; try congruence; reflexivity.
  - unfold set_left in H.
    destruct (l_kind s) eqn:K; inv H; destruct b; try congruence; try reflexivity;
      unfold get, get_top, get_box; simpl; rewrite K; reflexivity.
  - unfold set_top in H.
    destruct (l_kind s) eqn:K; inv H; destruct b; try congruence; try reflexivity;
      unfold get, get_left, get_box; simpl; rewrite K; reflexivity.
  - unfold set_clip in H. destruct (fix_clip c || l_attached s); inv H;
      destruct b; try congruence; reflexivity.
  - unfold set_lock in H. destruct (l_lspf s); inv H; destruct b; try congruence; reflexivity.
Qed.

(* ------------------------------------------------------------------ moving keeps the size *)
Lemma move_left_size v s s' :
  set_left v s = AOk s' -> move_guard_x v s = true ->
  get_width s' = get_width s /\ get_height s' = get_height s.
Proof.
  unfold set_left, move_guard_x. intros H G.
  destruct (l_kind s) eqn:K; inv H; simpl in G;
    unfold get_width, get_height, get_right, get_left, get_top, get_bottom, get_box in *; simpl; rewrite K in *; simpl in *;
    try (split; lia).
  apply negb_true_iff in G. rewrite G. split; lia.
Qed.

Lemma move_top_size v s s' :
  set_top v s = AOk s' -> move_guard_y v s = true ->
  get_width s' = get_width s /\ get_height s' = get_height s.
Proof.
  unfold set_top, move_guard_y. intros H G.
  destruct (l_kind s) eqn:K; inv H; simpl in G;
    unfold get_width, get_height, get_right, get_left, get_top, get_bottom, get_box in *; simpl; rewrite K in *; simpl in *;
    try (split; lia).
  apply negb_true_iff in G. rewrite G. split; lia.
Qed.

(* exactness: a fill layer on a non-empty canvas whose new right edge is 0 does change its width *)
Lemma move_left_size_exact v s s' :
  set_left v s = AOk s' -> move_guard_x v s = false -> l_docw s <> 0 -> get_width s' <> get_width s.
Proof.
  unfold set_left, move_guard_x. intros H G D.
  apply negb_false_iff in G. apply andb_true_iff in G as [G1 G2].
  destruct (l_kind s) eqn:K; simpl in G1; try discriminate. inv H.
  apply Z.eqb_eq in G2.
  unfold get_width, get_right, get_left, get_box in *; simpl; rewrite K in *; simpl in *.
  destruct (l_right s =? 0) eqn:R.
  - replace (v + (l_docw s - l_left s) =? 0) with true by (symmetry; apply Z.eqb_eq; lia). lia.
  - replace (v + (l_right s - l_left s) =? 0) with true by (symmetry; apply Z.eqb_eq; lia).
    apply Z.eqb_neq in R. lia.
Qed.

Lemma move_offset_size x y s s' :
  set_offset x y s = AOk s' -> move_guard_x x s = true -> move_guard_y y s = true ->
  get_width s' = get_width s /\ get_height s' = get_height s.
Proof.
  unfold set_offset. intros H Gx Gy. destruct (set_left x s) as [s1|] eqn:E; [|discriminate].
  destruct (move_left_size _ _ _ E Gx) as [W1 H1].
  assert (K : l_kind s1 = l_kind s).
  { unfold set_left in E. destruct (l_kind s) eqn:K; inv E; simpl; assumption. }
  assert (Gy' : move_guard_y y s1 = true) by (unfold move_guard_y in *; rewrite K, H1; assumption).
  destruct (move_top_size _ _ _ H Gy') as [W2 H2]. split; congruence.
Qed.

(* ------------------------------------------------------------------ histories *)
Definition sets := list (attr * val).

Definition run_sets (c : cfg) (l : sets) (s : layer) : layer :=
  fold_left (fun s av => step c s (OSet (fst av) (snd av))) l s.

Lemma run_sets_run c l s : run_sets c l s = run c (map (fun av => OSet (fst av) (snd av)) l) s.
Proof. unfold run_sets, run. revert s. induction l; intro s; simpl; [reflexivity|apply IHl]. Qed.

(* the value a getter must show after a history: the last accepted value for that attribute *)
Definition lastval (k : kind) (a : attr) (l : sets) (d : val) : val :=
  fold_left (fun d av => if attr_eqb a (fst av) && accepts k (fst av) (snd av) then snd av else d) l d.

(* invariants of the setters *)
Lemma set_divider_ok c a v s s' : set c a v s = AOk s' -> divider_ok c s = true -> divider_ok c s' = true.
Proof.
  intros H D. pose proof (set_same_rest _ _ _ _ _ H) as [K _]. unfold divider_ok in *. rewrite K.
  destruct (is_group (l_kind s)) eqn:G; [|reflexivity]. simpl in *.
  destruct a, v; simpl in H; try discriminate.
  - unfold set_name in H. destruct (Z.of_nat (length l) <? 256); inv H. assumption.
  - inv H. assumption.
  - unfold set_opacity in H. destruct ((0 <=? z) && (z <=? 255)); inv H. assumption.
  - destruct (set_blend_group _ _ _ _ H G) as [S _]. rewrite S. destruct (setting c s); [reflexivity|discriminate].
  - unfold set_left in H. destruct (l_kind s); inv H; assumption.
  - unfold set_top in H. destruct (l_kind s); inv H; assumption.
  - unfold set_clip in H. destruct (fix_clip c || l_attached s); inv H; assumption.
  - unfold set_lock in H. destruct (l_lspf s); inv H; assumption.
Qed.

Lemma set_divider_signed c a v s s' :
  fix_group c = true -> set c a v s = AOk s' -> divider_signed c s = true -> divider_signed c s' = true.
Proof.
  intros F H D. pose proof (set_same_rest _ _ _ _ _ H) as [K _]. unfold divider_signed in *. rewrite K.
  destruct (is_group (l_kind s)) eqn:G; [|reflexivity]. simpl in *.
  destruct a, v; simpl in H; try discriminate.
  - unfold set_name in H. destruct (Z.of_nat (length l) <? 256); inv H. assumption.
  - inv H. assumption.
  - unfold set_opacity in H. destruct ((0 <=? z) && (z <=? 255)); inv H. assumption.
  - destruct (set_blend_group _ _ _ _ H G) as [S _]. rewrite S. destruct (setting c s); [|reflexivity].
    simpl. rewrite F. reflexivity.
  - unfold set_left in H. destruct (l_kind s); inv H; assumption.
  - unfold set_top in H. destruct (l_kind s); inv H; assumption.
  - unfold set_clip in H. destruct (fix_clip c || l_attached s); inv H; assumption.
  - unfold set_lock in H. destruct (l_lspf s); inv H; assumption.
Qed.

(* with the three repairs the only residue of the get/set guard is the group without a divider block *)
Lemma guard_fixed a v s : divider_ok fixed_cfg s = true -> get_set_guard fixed_cfg a v s = true.
Proof.
  unfold divider_ok. intro D. destruct a, v; try reflexivity. simpl.
  destruct (is_group (l_kind s)); simpl in *; [rewrite D|]; reflexivity.
Qed.

Definition derived_pos (k : kind) (a : attr) : bool :=
  (kind_code k =? 1) && (attr_eqb a ALeft || attr_eqb a ATop).

Lemma frame_guard_of k a b s : l_kind s = k -> derived_pos k b = false -> frame_guard a b s = true.
Proof.
  intros K D. unfold frame_guard, derived_pos in *. rewrite K.
  destruct (attr_eqb a AVisible); [|reflexivity]. simpl. rewrite D. reflexivity.
Qed.

Lemma history c a l : forall s,
  (forall b v, get_set_guard c b v s = true) ->
  (forall s1 s2 b v, set c b v s1 = AOk s2 ->
     (forall b' v', get_set_guard c b' v' s1 = true) -> (forall b' v', get_set_guard c b' v' s2 = true)) ->
  derived_pos (l_kind s) a = false ->
  get c a (run_sets c l s) = lastval (l_kind s) a l (get c a s).
Proof.
  induction l as [|[b v] l IH]; intros s G P D; [reflexivity|].
  unfold run_sets, lastval in *. simpl fold_left. unfold step at 2. simpl apply.
  destruct (set c b v s) as [s1|e] eqn:E.
  - pose proof (set_same_rest _ _ _ _ _ E) as [K _].
    assert (A : accepts (l_kind s) b v = true) by (apply (set_accepts c); eauto).
    simpl fst; simpl snd. rewrite A, andb_true_r.
    rewrite <- K. rewrite IH; [|eapply P; eauto|assumption|rewrite K; assumption].
    f_equal. destruct (attr_eqb a b) eqn:AB.
    + apply attr_eqb_eq in AB. subst b. eapply get_set; eauto.
    + eapply frame; eauto.
      * intro X. subst b. assert (attr_eqb a a = true) by (apply attr_eqb_eq; reflexivity). congruence.
      * eapply frame_guard_of; eauto.
  - assert (A : accepts (l_kind s) b v = false).
    { destruct (accepts (l_kind s) b v) eqn:A; [|reflexivity].
      apply (set_accepts c) in A as [s' A]. congruence. }
    simpl fst; simpl snd. rewrite A, andb_false_r. apply IH; assumption.
Qed.

Lemma history_fixed a l s :
  divider_ok fixed_cfg s = true -> derived_pos (l_kind s) a = false ->
  get fixed_cfg a (run_sets fixed_cfg l s) = lastval (l_kind s) a l (get fixed_cfg a s).
Proof.
  intros D P. apply history; [intros; apply guard_fixed; assumption| |assumption].
  intros s1 s2 b v E H b' v'. apply guard_fixed.
  destruct (divider_ok fixed_cfg s1) eqn:D1.
  - eapply set_divider_ok; eauto.
  - (* unreachable start, but the statement is per step: derive from the guard on s1 *)
    exfalso. revert D1. unfold divider_ok.
    specialize (H ABlend (VInt bm_pass)). simpl in H.
    destruct (is_group (l_kind s1)); simpl in *; [|discriminate].
    destruct (setting fixed_cfg s1); simpl in *; discriminate.
Qed.

Lemma run_sets_kind c l : forall s, l_kind (run_sets c l s) = l_kind s.
Proof.
  induction l as [|[b v] l IH]; intro s; [reflexivity|].
  unfold run_sets in *. simpl. rewrite IH. unfold step. simpl.
  destruct (set c b v s) eqn:E; [|reflexivity]. apply (set_same_rest _ _ _ _ _ E).
Qed.

Lemma run_sets_pixels c l : forall s, l_pixels (run_sets c l s) = l_pixels s.
Proof.
  induction l as [|[b v] l IH]; intro s; [reflexivity|].
  unfold run_sets in *. simpl. rewrite IH. unfold step. simpl.
  destruct (set c b v s) eqn:E; [|reflexivity]. apply (set_same_rest _ _ _ _ _ E).
Qed.

Lemma run_sets_divider_ok c l : forall s, divider_ok c s = true -> divider_ok c (run_sets c l s) = true.
Proof.
  induction l as [|[b v] l IH]; intros s D; [assumption|].
  unfold run_sets in *. simpl. apply IH. unfold step. simpl.
  destruct (set c b v s) eqn:E; [|assumption]. eapply set_divider_ok; eauto.
Qed.

Lemma run_sets_divider_signed c l : fix_group c = true -> forall s,
  divider_signed c s = true -> divider_signed c (run_sets c l s) = true.
Proof.
  intro F. induction l as [|[b v] l IH]; intros s D; [assumption|].
  unfold run_sets in *. simpl. apply IH. unfold step. simpl.
  destruct (set c b v s) eqn:E; [|assumption]. eapply set_divider_signed; eauto.
Qed.

(* ------------------------------------------------------------------ save + open *)
Lemma utf16_stable_eq l : utf16_stable l = true -> utf16_rt l = l.
Proof. apply list_eqb_eq. Qed.

Definition no_surrogate (l : list Z) : Prop := forall c, In c l -> is_hi c = false.

Lemma utf16_rt_no_surrogate l : no_surrogate l -> utf16_rt l = l.
Proof.
  induction l as [|h tl IH]; intro N; [reflexivity|].
  simpl. destruct tl as [|lo r]; [reflexivity|].
  rewrite (N h (or_introl eq_refl)). simpl andb. cbv iota.
  f_equal. apply IH. intros c Hc. apply N. right. exact Hc.
Qed.

Lemma setting_stored c s : setting c (stored s) = option_map sdiv_rt (setting c s).
Proof. unfold setting. simpl. destruct (fix_lsdk c); [destruct (l_lsdk s)|]; reflexivity. Qed.

Lemma sdiv_rt_blend d : sd_sig d || negb (is_some (sd_blend d)) = true -> sd_blend (sdiv_rt d) = sd_blend d.
Proof. unfold sdiv_rt. destruct (sd_sig d), (sd_blend d); simpl; intro H; try reflexivity; discriminate. Qed.

Section Persist.
  (* PSDImage.save to bytes followed by PSDImage.open, as seen on one layer.
     ASSUMPTION (tested by the harness on every generated case by a real save + open): a layer whose fields
     fit their wire formats comes back with its record fields and blocks as [stored] describes. *)
  Variable save_open : layer -> ares layer.
  Hypothesis save_open_stored : forall s, writable s = true -> save_open s = AOk (stored s).

  Lemma persist_get c a s :
    writable s = true -> persist_get_guard c a s = true ->
    exists s', save_open s = AOk s' /\ get c a s' = get c a s.
  Proof.
    intros W G. exists (stored s). split; [apply save_open_stored; assumption|].
    destruct a; try reflexivity.
    - unfold get, get_name. simpl. simpl in G. destruct (l_luni s); simpl; [|reflexivity].
      rewrite (utf16_stable_eq _ G). reflexivity.
    - unfold get, get_blend. rewrite setting_stored. simpl l_kind. simpl in G. unfold divider_signed in G.
      destruct (is_group (l_kind s)); [|reflexivity]. simpl in G.
      destruct (setting c s) as [d|]; simpl; [|reflexivity].
      rewrite (sdiv_rt_blend _ G). reflexivity.
  Qed.

  (* set, then save + open: the getter of the reopened layer returns the value *)
  Lemma persist_set c a v s s1 :
    set c a v s = AOk s1 -> get_set_guard c a v s = true -> persist_set_guard c a v s = true ->
    writable s1 = true ->
    exists s2, save_open s1 = AOk s2 /\ get c a s2 = v.
  Proof.
    intros H G P W. exists (stored s1). split; [apply save_open_stored; assumption|].
    pose proof (get_set _ _ _ _ _ H G) as GS.
    destruct a, v; simpl in H; try discriminate.
    - unfold set_name in H. destruct (Z.of_nat (length l) <? 256); inv H.
      unfold get, get_name. simpl. simpl in P. rewrite (utf16_stable_eq _ P). reflexivity.
    - rewrite <- GS. reflexivity.
    - rewrite <- GS. reflexivity.
    - simpl in P, G. unfold get, get_blend in *. rewrite setting_stored. simpl l_kind. simpl l_rblend.
      pose proof (set_blend_form _ _ _ _ H) as [_ (rb & d0 & k0 & E)].
      assert (K' : l_kind s1 = l_kind s) by (subst s1; reflexivity). rewrite K' in *.
      destruct (is_group (l_kind s)) eqn:K; [|exact GS].
      destruct (set_blend_group _ _ _ _ H K) as [S R]. rewrite S in *.
      destruct (setting c s) as [d|]; simpl in *; [|exact GS].
      unfold sdiv_rt. simpl. destruct (fix_group c); simpl in *; [reflexivity|]. rewrite P. reflexivity.
    - rewrite <- GS. unfold get, get_left, get_box. simpl. reflexivity.
    - rewrite <- GS. unfold get, get_top, get_box. simpl. reflexivity.
    - rewrite <- GS. reflexivity.
    - rewrite <- GS. reflexivity.
  Qed.

  (* nothing else is disturbed by the round trip: kind, pixels, size, fill opacity, flags *)
  Lemma persist_rest s :
    writable s = true ->
    exists s', save_open s = AOk s' /\ l_kind s' = l_kind s /\ l_pixels s' = l_pixels s /\
      get_width s' = get_width s /\ get_height s' = get_height s /\ l_iopa s' = l_iopa s /\
      l_tp s' = l_tp s /\ l_fbits s' = l_fbits s.
  Proof.
    intro W. exists (stored s). split; [apply save_open_stored; assumption|].
    repeat split.
  Qed.
End Persist.

(* the executable [reopen] of the model satisfies the assumption *)
Lemma reopen_stored s : writable s = true -> reopen s = AOk (stored s).
Proof.
  unfold writable, name_writable, reopen. intro W.
  apply andb_true_iff in W as [W1 W2]. apply andb_true_iff in W2 as [W2 W3].
  rewrite W1, W2, W3. reflexivity.
Qed.

(* ... and raises exactly when the layer is not writable *)
Lemma reopen_error s : writable s = false -> exists e, reopen s = AErr e.
Proof.
  unfold writable, name_writable, reopen. intro W.
  destruct (storable s); simpl in *; [|eexists; reflexivity].
  destruct (macroman (l_rname s)); simpl in *; [|eexists; reflexivity].
  rewrite W. simpl. eexists; reflexivity.
Qed.

(* which sets keep a layer writable *)
Lemma storable_parts s :
  storable s = true ->
  i32 (l_top s) = true /\ i32 (l_left s) = true /\ i32 (l_bottom s) = true /\ i32 (l_right s) = true /\
  match l_lspf s with Some p => u32 p | None => true end = true.
Proof.
  unfold storable. intro W.
  apply andb_true_iff in W as [W W5]. apply andb_true_iff in W as [W W4].
  apply andb_true_iff in W as [W W3]. apply andb_true_iff in W as [W1 W2]. repeat split; assumption.
Qed.

Lemma storable_build s :
  i32 (l_top s) = true -> i32 (l_left s) = true -> i32 (l_bottom s) = true -> i32 (l_right s) = true ->
  match l_lspf s with Some p => u32 p | None => true end = true -> storable s = true.
Proof. unfold storable. intros -> -> -> -> ->. reflexivity. Qed.

Lemma set_writable c a v s s' :
  set c a v s = AOk s' -> writable s = true ->
  match a, v with
  | ALeft, VInt z => i32 z && i32 (z + get_width s)
  | ATop, VInt z => i32 z && i32 (z + get_height s)
  | ALock, VInt z => u32 z
  | _, _ => true
  end = true ->
  writable s' = true.
Proof.
  intros H W R. unfold writable in *. apply andb_true_iff in W as [W N].
  destruct (storable_parts _ W) as (W1 & W2 & W3 & W4 & W5).
  destruct a, v; simpl in H; try discriminate.
  - unfold set_name in H. destruct (Z.of_nat (length l) <? 256) eqn:L; inv H.
    apply andb_true_iff. split; [exact W|]. unfold name_writable. simpl.
    destruct (macroman l) eqn:M.
    + rewrite M. simpl. apply Z.leb_le. apply Z.ltb_lt in L. lia.
    + reflexivity.
  - inv H. apply andb_true_iff. split; assumption.
  - unfold set_opacity in H. destruct ((0 <=? z) && (z <=? 255)); inv H. apply andb_true_iff. split; assumption.
  - apply set_blend_form in H as [_ (rb & d & k & ->)]. apply andb_true_iff; split; assumption.
  - unfold set_left in H. apply andb_true_iff in R as [R1 R2].
    destruct (l_kind s); inv H; (apply andb_true_iff; split; [apply storable_build; assumption|exact N]).
  - unfold set_top in H. apply andb_true_iff in R as [R1 R2].
    destruct (l_kind s); inv H; (apply andb_true_iff; split; [apply storable_build; assumption|exact N]).
  - unfold set_clip in H. destruct (fix_clip c || l_attached s); inv H; apply andb_true_iff; split; assumption.
  - unfold set_lock in H.
    destruct (l_lspf s) eqn:E; inv H; (apply andb_true_iff; split; [apply storable_build; try assumption|exact N]); simpl.
    destruct (fix_lock c); [exact R|reflexivity].
Qed.

(* save + open twice is save + open once *)
Lemma sdiv_rt_idem d : sdiv_rt (sdiv_rt d) = sdiv_rt d.
Proof. unfold sdiv_rt. destruct (sd_sig d), (sd_blend d); reflexivity. Qed.

(* ------------------------------------------------------------------ the API constructors *)
Lemma new_group_fixed n o p :
  divider_ok fixed_cfg (new_group fixed_cfg n o p) = true /\ divider_signed fixed_cfg (new_group fixed_cfg n o p) = true /\
  get fixed_cfg ABlend (new_group fixed_cfg n o p) = VInt bm_pass.
Proof. repeat split. Qed.

Lemma new_pixel_ok c att n t l w h dw dh p :
  divider_ok c (new_pixel c att n t l w h dw dh p) = true /\ divider_signed c (new_pixel c att n t l w h dw dh p) = true.
Proof. split; reflexivity. Qed.

(* since cc4d99c a created layer can be written whatever its name (shorter than 256 characters) is *)
Lemma legacy_name_macroman v : macroman (legacy_name v) = true.
Proof. unfold legacy_name. destruct (macroman v) eqn:M; [exact M|reflexivity]. Qed.

Lemma legacy_name_length v : length (legacy_name v) = length v \/ length (legacy_name v) = 1%nat.
Proof. unfold legacy_name. destruct (macroman v); [left|right]; reflexivity. Qed.

Lemma new_group_name_writable n o p :
  Z.of_nat (length n) < 256 -> name_writable (new_group fixed_cfg n o p) = true /\ get fixed_cfg AName (new_group fixed_cfg n o p) = VStr n.
Proof.
  intro L. split; [|reflexivity]. unfold name_writable. simpl. rewrite legacy_name_macroman. simpl.
  apply Z.leb_le. destruct (legacy_name_length n) as [E|E]; rewrite E; simpl; lia.
Qed.

Lemma new_pixel_name_writable att n t l w h dw dh p :
  Z.of_nat (length n) < 256 ->
  name_writable (new_pixel fixed_cfg att n t l w h dw dh p) = true /\ get fixed_cfg AName (new_pixel fixed_cfg att n t l w h dw dh p) = VStr n.
Proof.
  intro L. split; [|reflexivity]. unfold name_writable. simpl. rewrite legacy_name_macroman. simpl.
  apply Z.leb_le. destruct (legacy_name_length n) as [E|E]; rewrite E; simpl; lia.
Qed.

(* ------------------------------------------------------------------ a whole history, then save + open *)
Lemma history_persist (save_open : layer -> ares layer) :
  (forall s, writable s = true -> save_open s = AOk (stored s)) ->
  forall a l s,
  divider_ok fixed_cfg s = true -> divider_signed fixed_cfg s = true -> derived_pos (l_kind s) a = false ->
  writable (run_sets fixed_cfg l s) = true ->
  (a = AName -> persist_get_guard fixed_cfg AName (run_sets fixed_cfg l s) = true) ->
  exists s', save_open (run_sets fixed_cfg l s) = AOk s' /\
             get fixed_cfg a s' = lastval (l_kind s) a l (get fixed_cfg a s) /\ l_pixels s' = l_pixels s.
Proof.
  intros A a l s D S P W N.
  assert (G : persist_get_guard fixed_cfg a (run_sets fixed_cfg l s) = true).
  { destruct a; try reflexivity.
    - apply N; reflexivity.
    - simpl. apply run_sets_divider_signed; [reflexivity|assumption]. }
  destruct (persist_get save_open A fixed_cfg a _ W G) as [s' [E1 E2]].
  exists s'. split; [assumption|]. split.
  - rewrite E2. apply history_fixed; assumption.
  - rewrite A in E1 by assumption. inv E1. simpl. apply run_sets_pixels.
Qed.
