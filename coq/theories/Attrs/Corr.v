(* Correspondence glue for C16: canonical observation of a model layer (mirrored by
   harness/vh/c16.py: obs_api / obs_raw), the trace of a history, and its digest. *)
From PsdV Require Import Base.Prelude Attrs.Model.
From Coq Require Import Uint63.

Definition enc_str (l : list Z) : list Z := Z.of_nat (length l) :: l.
Definition enc_optz (o : option Z) : list Z := match o with Some z => [1; z] | None => [0] end.
Definition enc_bool (b : bool) : Z := if b then 1 else 0.

(* what the public getters return *)
Definition obs_api (c : cfg) (s : layer) : list Z :=
  enc_str (get_name s)
  ++ [enc_bool (get_visible s); get_opacity s]
  ++ enc_optz (get_blend c s)
  ++ [get_left s; get_top s; get_right s; get_bottom s; get_width s; get_height s; enc_bool (get_clip s)]
  ++ enc_optz (get_lock s)
  ++ [kind_code (l_kind s)].

(* the record fields and blocks underneath *)
Definition obs_raw (s : layer) : list Z :=
  enc_str (l_rname s)
  ++ match l_luni s with Some u => 1 :: enc_str u | None => [0] end
  ++ [enc_bool (l_tp s); enc_bool (l_vis s); l_fbits s; l_opacity s; l_rblend s; enc_bool (l_clip s);
      l_left s; l_top s; l_right s; l_bottom s]
  ++ match l_lsct s with
     | Some d => [1; sd_kind d; enc_bool (sd_sig d)] ++ enc_optz (sd_blend d) ++ enc_optz (sd_sub d)
     | None => [0]
     end
  ++ enc_optz (l_lspf s)
  ++ enc_optz (l_iopa s)
  ++ [enc_bool (l_attached s); l_pixels s]
  ++ match l_lsdk s with
     | Some d => [1; sd_kind d; enc_bool (sd_sig d)] ++ enc_optz (sd_blend d) ++ enc_optz (sd_sub d)
     | None => [0]
     end.

Definition obs (c : cfg) (s : layer) : list Z := obs_api c s ++ obs_raw s.

(* after each operation: 0 and the observation, or the exception code (state unchanged) *)
Fixpoint trace (c : cfg) (ops : list op) (s : layer) : list Z :=
  match ops with
  | [] => []
  | o :: r =>
      match apply c o s with
      | AOk s' => 0 :: obs c s' ++ trace c r s'
      | AErr e => aerr_code e :: trace c r s
      end
  end.

Definition case_out (c : cfg) (s : layer) (ops : list op) : list Z := obs c s ++ trace c ops s.

Definition case_digest (a : cfg * layer * list op) : list Z :=
  let '(c, s, ops) := a in [to_Z (h63_list 0%uint63 (case_out c s ops))].

(* the constants the model shares with psd_tools/constants.py and the mac_roman codec *)
Definition tables : list Z :=
  blend_keys ++ [bm_pass; bm_norm; qmark] ++ macroman_high.

(* macroman predicate on a list of probe code points *)
Definition macroman_probe (l : list Z) : list Z := map (fun c => enc_bool (macroman_char c)) l.

(* constructors *)
Definition ctor_group (a : cfg * list Z * bool * Z) : list Z :=
  let '(c, n, o, pix) := a in obs c (new_group c n o pix).
Definition ctor_pixel (a : cfg * bool * list Z * (Z * Z * Z * Z) * (Z * Z * Z)) : list Z :=
  let '(c, att, n, (t, l, w, h), (dw, dh, pix)) := a in obs c (new_pixel c att n t l w h dw dh pix).
