(* C20: the one piece of process-wide mutable state that the writers consult:
   psd_tools/psd/descriptor.py:54-77  _TERMS / read_length_and_key / write_length_and_key.
   The term set is threaded explicitly; a "history" is a list of byte strings handed to the key reader. *)
From PsdV Require Import Base.Prelude.

Definition key := list Z.
Definition terms := list key.

Fixpoint mem (k : key) (T : terms) : bool :=
  match T with [] => false | t :: T' => list_eqb k t || mem k T' end.

(* big-endian 4-byte unsigned *)
Definition be32 (n : Z) : list Z :=
  [ (n / 16777216) mod 256; (n / 65536) mod 256; (n / 256) mod 256; n mod 256 ].
Definition un_be32 (b : list Z) : option Z :=
  match b with
  | [a; b; c; d] => Some (a * 16777216 + b * 65536 + c * 256 + d)
  | _ => None
  end.

(* write_length_and_key(fp, value): bytes emitted and the count the function reports *)
Definition write_key (T : terms) (k : key) : res (list Z * Z) :=
  let n := if mem k T then 0 else Z.of_nat (length k) in
  if 4294967295 <? n then Err StructErr       (* struct 'I' range *)
  else Ok (be32 n ++ k, 4 + Z.of_nat (length k)).

(* read_length_and_key(fp): returns key, new term set, remaining stream.
   Since commit 708c13e a key that is cut short by the end of the data raises IOError (before it, whatever
   fp.read returned became the key: [read_key_v0] below keeps that reader for the refutation theorem). *)
Definition read_key (T : terms) (s : list Z) : res (key * terms * list Z) :=
  match un_be32 (firstn 4 s) with
  | None => Err IOErr                                     (* read_fmt: short read *)
  | Some len =>
      let s' := skipn 4 s in
      let want := if len =? 0 then 4 else len in
      if Z.of_nat (length s') <? want then Err IOErr      (* the data ends inside the key *)
      else
        let n := Z.to_nat want in
        let k := firstn n s' in
        let T' := if (len =? 0) && negb (mem k T) then k :: T else T in
        Ok (k, T', skipn n s')
  end.

(* the reader before 708c13e: fp.read(n) returns what is left when fewer than n bytes remain (no error) *)
Definition read_key_v0 (T : terms) (s : list Z) : res (key * terms * list Z) :=
  match un_be32 (firstn 4 s) with
  | None => Err IOErr
  | Some len =>
      let s' := skipn 4 s in
      let n := Z.to_nat (Z.min (if len =? 0 then 4 else len) (Z.of_nat (length s'))) in
      let k := firstn n s' in
      let T' := if (len =? 0) && negb (mem k T) then k :: T else T in
      Ok (k, T', skipn n s')
  end.
Definition read_terms_v0 (T : terms) (s : list Z) : terms :=
  match read_key_v0 T s with Ok (_, T', _) => T' | Err _ => T end.

(* a history of reads performed earlier in the process (other documents) *)
Definition read_terms (T : terms) (s : list Z) : terms :=
  match read_key T s with Ok (_, T', _) => T' | Err _ => T end.
Definition run_history (T0 : terms) (h : list (list Z)) : terms := fold_left read_terms h T0.

(* keys added by a history *)
Definition added (T0 : terms) (h : list (list Z)) : terms :=
  filter (fun k => negb (mem k T0)) (run_history T0 h).

(* a small descriptor: class id + items (key, 32-bit integer payload) -- enough to lift the key law
   to "the bytes of a structure" *)
Record desc := { classID : key; items : list (key * Z) }.

Fixpoint write_items (T : terms) (its : list (key * Z)) : res (list Z * Z) :=
  match its with
  | [] => Ok ([], 0)
  | (k, v) :: r =>
      do kb <- write_key T k;
      do rb <- write_items T r;
      Ok (fst kb ++ [108; 111; 110; 103] ++ be32 v ++ fst rb, snd kb + 8 + snd rb)   (* 'long' + value *)
  end.

Definition write_desc (T : terms) (d : desc) : res (list Z * Z) :=
  do cb <- write_key T (classID d);
  do ib <- write_items T (items d);
  Ok (fst cb ++ be32 (Z.of_nat (length (items d))) ++ fst ib, snd cb + 4 + snd ib).

Definition desc_keys (d : desc) : list key := classID d :: map fst (items d).

(* ---- operation sequences for the correspondence check *)
Inductive op := OpRead (s : list Z) | OpWrite (k : key).

Definition enc_out (l : list Z) : list Z := Z.of_nat (length l) :: l.

Fixpoint run_ops (T : terms) (ops : list op) : list Z * terms :=
  match ops with
  | [] => ([], T)
  | OpRead s :: r =>
      match read_key T s with
      | Ok (k, T', rest) =>
          let '(o, Tf) := run_ops T' r in (enc_out (0 :: k) ++ [Z.of_nat (length rest)] ++ o, Tf)
      | Err e => let '(o, Tf) := run_ops T r in (enc_out [err_code e] ++ o, Tf)
      end
  | OpWrite k :: r =>
      match write_key T k with
      | Ok (b, w) => let '(o, Tf) := run_ops T r in (enc_out (0 :: b) ++ [w] ++ o, Tf)
      | Err e => let '(o, Tf) := run_ops T r in (enc_out [err_code e] ++ o, Tf)
      end
  end.

(* output of a session + the keys it added, in insertion order (most recent first) *)
Definition session (T0 : terms) (ops : list op) : list Z :=
  let '(o, Tf) := run_ops T0 ops in
  o ++ [-1] ++ flat_map enc_out (firstn (length Tf - length T0) Tf).

Definition all4 (T : terms) : bool := forallb (fun k => Nat.eqb (length k) 4) T.
