From PsdV Require Import Base.Prelude State.Model.
From Coq Require Import ZifyBool.
Ltac Zify.zify_post_hook ::= Z.to_euclidean_division_equations.

Lemma mem_In k T : mem k T = true <-> In k T.
Proof.
  induction T as [|t T IH]; simpl; [split; [discriminate|tauto]|].
  rewrite orb_true_iff, IH, list_eqb_eq. split; intros [H|H]; auto.
Qed.

Lemma mem_false_In k T : mem k T = false <-> ~ In k T.
Proof. rewrite <- mem_In. destruct (mem k T); split; congruence. Qed.

(* --- the writer looks at the term set only through membership of the key it writes *)
Lemma write_key_frame T T' k : mem k T = mem k T' -> write_key T k = write_key T' k.
Proof. unfold write_key; intros ->; reflexivity. Qed.

(* --- reads only ever add *)
Lemma read_terms_mono T s k : mem k T = true -> mem k (read_terms T s) = true.
Proof.
  unfold read_terms, read_key; intros H.
  destruct (un_be32 (firstn 4 s)) as [len|]; [|exact H].
  destruct (_ <? _); [exact H|].
  cbn. destruct ((len =? 0) && negb (mem _ T)); [|exact H].
  simpl. rewrite H. apply orb_true_r.
Qed.

Lemma run_history_mono h : forall T k, mem k T = true -> mem k (run_history T h) = true.
Proof.
  induction h as [|s h IH]; intros T k H; [exact H|].
  cbn [run_history fold_left]. apply IH. apply read_terms_mono, H.
Qed.

Lemma mem_added T0 h k :
  mem k (added T0 h) = mem k (run_history T0 h) && negb (mem k T0).
Proof.
  unfold added. generalize (run_history T0 h) as T. intro T.
  induction T as [|t T IH]; [reflexivity|].
  cbn [filter]. destruct (mem t T0) eqn:Ht; cbn [negb].
  - rewrite IH. cbn [mem]. destruct (list_eqb k t) eqn:E; [|reflexivity].
    apply list_eqb_eq in E; subst. rewrite Ht. cbn. rewrite !andb_false_r. reflexivity.
  - cbn [mem]. rewrite IH. destruct (list_eqb k t) eqn:E; [|reflexivity].
    apply list_eqb_eq in E; subst. rewrite Ht. reflexivity.
Qed.

(* --- history independence, and exactly when it fails *)
Lemma history_independent T0 h k :
  mem k (added T0 h) = false -> write_key (run_history T0 h) k = write_key T0 k.
Proof.
  rewrite mem_added. intros H. apply write_key_frame.
  destruct (mem k T0) eqn:E.
  - apply run_history_mono, E.
  - rewrite andb_true_r in H. exact H.
Qed.

Lemma be32_0 : be32 0 = [0; 0; 0; 0].
Proof. reflexivity. Qed.

Lemma be32_inj_0 n : 0 < n <= 4294967295 -> be32 n <> be32 0.
Proof. unfold be32. intros Hn H. injection H as H1 H2 H3 H4. lia. Qed.

Lemma history_dependent T0 h k :
  mem k (added T0 h) = true -> (0 < length k)%nat -> Z.of_nat (length k) <= 4294967295 ->
  exists b b', write_key (run_history T0 h) k = Ok b /\ write_key T0 k = Ok b' /\ fst b <> fst b'.
Proof.
  rewrite mem_added, andb_true_iff, negb_true_iff. intros [H1 H2] Hl Hu.
  unfold write_key. rewrite H1, H2.
  destruct (4294967295 <? 0) eqn:E0; [lia|].
  destruct (4294967295 <? Z.of_nat (length k)) eqn:E1; [lia|].
  eexists; eexists; split; [reflexivity|split; [reflexivity|]].
  cbn [fst]. intro H. apply app_inv_tail in H. symmetry in H. revert H. apply be32_inj_0. lia.
Qed.

(* lifted to a structure: the bytes of a descriptor *)
Lemma write_items_indep T T' its :
  (forall k, In k (map fst its) -> mem k T = mem k T') -> write_items T its = write_items T' its.
Proof.
  induction its as [|[k v] r IH]; intros H; [reflexivity|].
  cbn [write_items]. rewrite (write_key_frame T T' k) by (apply H; left; reflexivity).
  rewrite IH by (intros k' Hk; apply H; right; exact Hk). reflexivity.
Qed.

Lemma write_desc_indep T T' d :
  (forall k, In k (desc_keys d) -> mem k T = mem k T') -> write_desc T d = write_desc T' d.
Proof.
  intros H. unfold write_desc.
  rewrite (write_key_frame T T' (classID d)) by (apply H; left; reflexivity).
  rewrite (write_items_indep T T') by (intros k Hk; apply H; right; exact Hk). reflexivity.
Qed.

Lemma desc_history_independent T0 h d :
  (forall k, In k (desc_keys d) -> mem k (added T0 h) = false) ->
  write_desc (run_history T0 h) d = write_desc T0 d.
Proof.
  intros H. apply write_desc_indep. intros k Hk. specialize (H k Hk).
  rewrite mem_added in H. destruct (mem k T0) eqn:E.
  - apply run_history_mono, E.
  - rewrite andb_true_r in H. exact H.
Qed.

(* --- key codec: what is written is read back, whatever the reader's term set *)
Lemma un_be32_be32 n : 0 <= n <= 4294967295 -> un_be32 (be32 n) = Some n.
Proof. intros H. unfold be32, un_be32. f_equal. lia. Qed.

Definition wfkey (T : terms) (k : key) : Prop :=
  (mem k T = true -> length k = 4%nat) /\
  (mem k T = false -> (0 < length k)%nat /\ Z.of_nat (length k) <= 4294967295).

Lemma firstn_app_exact {A} (a b : list A) : firstn (length a) (a ++ b) = a.
Proof. rewrite firstn_app, Nat.sub_diag, firstn_all, firstn_O, app_nil_r. reflexivity. Qed.
Lemma skipn_app_exact {A} (a b : list A) : skipn (length a) (a ++ b) = b.
Proof. rewrite skipn_app, Nat.sub_diag, skipn_all. reflexivity. Qed.

Lemma be32_length n : length (be32 n) = 4%nat. Proof. reflexivity. Qed.
Lemma firstn4_be32 n l : firstn 4 (be32 n ++ l) = be32 n. Proof. reflexivity. Qed.
Lemma skipn4_be32 n l : skipn 4 (be32 n ++ l) = l. Proof. reflexivity. Qed.

Lemma read_key_app T' n k rest :
  0 <= n <= 4294967295 -> Z.of_nat (length k) = (if n =? 0 then 4 else n) ->
  read_key T' (be32 n ++ k ++ rest) =
  Ok (k, (if (n =? 0) && negb (mem k T') then k :: T' else T'), rest).
Proof.
  intros Hn Hk. unfold read_key.
  rewrite firstn4_be32, skipn4_be32, un_be32_be32 by exact Hn.
  rewrite <- Hk.
  destruct (Z.of_nat (length (k ++ rest)) <? Z.of_nat (length k)) eqn:E;
    [rewrite app_length in E; lia|].
  rewrite Nat2Z.id, firstn_app_exact, skipn_app_exact. reflexivity.
Qed.

Lemma read_write_key_any T T' k rest b :
  wfkey T k -> write_key T k = Ok b ->
  exists T'', read_key T' (fst b ++ rest) = Ok (k, T'', rest) /\
              (mem k T' = true \/ mem k T = false -> T'' = T').
Proof.
  intros [Hin Hout]. unfold write_key.
  destruct (mem k T) eqn:Hm.
  - specialize (Hin eq_refl). destruct (4294967295 <? 0) eqn:E0; [lia|].
    intros Hb. assert (Hb' : fst b = be32 0 ++ k) by (injection Hb as <-; reflexivity).
    rewrite Hb', <- app_assoc.
    rewrite read_key_app by (rewrite ?Z.eqb_refl; lia).
    eexists; split; [reflexivity|]. rewrite Z.eqb_refl. cbn [andb].
    intros [H|H]; [rewrite H; reflexivity|discriminate].
  - destruct (Hout eq_refl) as [Hl Hu].
    destruct (4294967295 <? Z.of_nat (length k)) eqn:E0; [lia|].
    intros Hb. assert (Hb' : fst b = be32 (Z.of_nat (length k)) ++ k) by (injection Hb as <-; reflexivity).
    rewrite Hb', <- app_assoc.
    assert (Ez : (Z.of_nat (length k) =? 0) = false) by lia.
    rewrite read_key_app by (rewrite ?Ez; lia).
    rewrite Ez. cbn [andb]. eexists; split; [reflexivity|]. intros _; reflexivity.
Qed.

Lemma read_write_key T k rest b :
  wfkey T k -> write_key T k = Ok b -> read_key T (fst b ++ rest) = Ok (k, T, rest).
Proof.
  intros Hw Hb. destruct (read_write_key_any T T k rest b Hw Hb) as [T'' [Hr HT]].
  rewrite Hr. rewrite HT; [reflexivity|]. destruct (mem k T); auto.
Qed.

Lemma write_key_truthful T k b : write_key T k = Ok b -> snd b = Z.of_nat (length (fst b)).
Proof.
  unfold write_key. destruct (_ <? _); [discriminate|]. intros H.
  assert (H1 : fst b = be32 (if mem k T then 0 else Z.of_nat (length k)) ++ k) by (injection H as <-; reflexivity).
  assert (H2 : snd b = 4 + Z.of_nat (length k)) by (injection H as <-; reflexivity).
  rewrite H1, H2, app_length, be32_length. lia.
Qed.

(* --- the term set keeps 4-byte keys only: a read either finds the whole key or fails (since 708c13e) *)
Lemma read_terms_all4 T s :
  all4 T = true -> all4 (read_terms T s) = true.
Proof.
  intros HT. unfold read_terms, read_key.
  destruct (un_be32 (firstn 4 s)) as [len|]; [|exact HT].
  destruct (len =? 0) eqn:E.
  - destruct (Z.of_nat (length (skipn 4 s)) <? 4) eqn:El; [exact HT|].
    cbn [andb]. destruct (mem _ T); cbn [negb]; [exact HT|].
    cbn [all4 forallb]. fold (all4 T). rewrite HT, andb_true_r.
    apply Nat.eqb_eq. change (Z.to_nat 4) with 4%nat. rewrite firstn_length. lia.
  - destruct (_ <? _); exact HT.
Qed.

Lemma run_history_all4 h : forall T, all4 T = true -> all4 (run_history T h) = true.
Proof.
  induction h as [|s h IH]; intros T HT; [exact HT|].
  cbn [run_history fold_left]. apply IH. apply read_terms_all4, HT.
Qed.
