(* Correspondence glue for C05: compact input descriptors (mirrored in harness/vh/c05.py)
   and the digest of the model's output. *)
From PsdV Require Import Base.Prelude Rle.Model.
From Coq Require Import Uint63.

Inductive enc_in :=
| EBits (n : nat) (k : Z)
| EItems (items : list (Z * Z * Z))      (* (kind, length, value): kind 0 = replicate, 1 = ramp *)
| ERaw (l : list Z).

Fixpoint bits (n : nat) (k : Z) : list Z :=
  match n with O => [] | S n' => (k mod 2) :: bits n' (k / 2) end.

Fixpoint ramp (n : nat) (v : Z) : list Z :=
  match n with O => [] | S n' => (v mod 256) :: ramp n' (v + 1) end.

Definition item_bytes (it : Z * Z * Z) : list Z :=
  let '(kind, n, v) := it in
  if kind =? 0 then repeat v (Z.to_nat n) else ramp (Z.to_nat n) v.

Definition enc_bytes (d : enc_in) : list Z :=
  match d with
  | EBits n k => bits n k
  | EItems its => flat_map item_bytes its
  | ERaw l => l
  end.

Definition enc_digest (d : enc_in) : Z :=
  to_Z (h63_list 0%uint63 (canon (Ok (encode (enc_bytes d))))).
