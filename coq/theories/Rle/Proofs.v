(* Lemmas and proofs about the PackBits model (Rle/Model.v).  The property theorems of C05
   are restated in Properties/C05.v and closed by [exact] of a lemma of this file. *)
From Coq Require Import ZArith List Bool Lia ZifyBool Arith Wf_nat.
From PsdV Require Import Base.Prelude Rle.Model.
Import ListNotations.
Open Scope Z_scope.

(* ====================================================================== generic facts *)
Lemma bytes_dec l : forallb byteb l = true -> bytes l.
Proof.
  intros H. apply Forall_forall. intros x Hx.
  rewrite forallb_forall in H. apply byteb_spec. apply H. exact Hx.
Qed.

Lemma bytes_skipn n l : bytes l -> bytes (skipn n l).
Proof.
  unfold bytes. intros H. rewrite <- (firstn_skipn n l) in H. apply Forall_app in H. apply H.
Qed.

Lemma bytes_firstn n l : bytes l -> bytes (firstn n l).
Proof.
  unfold bytes. intros H. rewrite <- (firstn_skipn n l) in H. apply Forall_app in H. apply H.
Qed.

Lemma length_zero_nil {A} (l : list A) : length l = 0%nat -> l = [].
Proof. destruct l; [reflexivity|discriminate]. Qed.

(* ====================================================================== the spec expander *)
Lemma expand_copy : forall t k rest, length t = S k ->
  expand_go (Copy k) (t ++ rest) = option_map (app t) (expand_go Hdr rest).
Proof.
  induction t as [|b t IH]; intros k rest Hl; [discriminate|].
  cbn [app expand_go]. destruct k as [|k'].
  - cbn [length] in Hl. assert (Ht : t = []) by (apply length_zero_nil; lia). subst t.
    cbn [app]. destruct (expand_go Hdr rest); reflexivity.
  - rewrite IH by (cbn [length] in Hl; lia).
    destruct (expand_go Hdr rest); reflexivity.
Qed.

Lemma headers_copy : forall t k rest, length t = S k ->
  headers_go (Copy k) (t ++ rest) = headers_go Hdr rest.
Proof.
  induction t as [|b t IH]; intros k rest Hl; [discriminate|].
  cbn [app headers_go]. destruct k as [|k'].
  - cbn [length] in Hl. assert (Ht : t = []) by (apply length_zero_nil; lia). subst t.
    reflexivity.
  - apply IH. cbn [length] in Hl. lia.
Qed.

Lemma expand_copy_inv : forall l k r, expand_go (Copy k) l = Some r ->
  (S k <= length l)%nat /\
  exists r', r = firstn (S k) l ++ r' /\ expand_go Hdr (skipn (S k) l) = Some r'.
Proof.
  induction l as [|b l IH]; intros k r H; [discriminate|].
  cbn [expand_go] in H. destruct k as [|k'].
  - destruct (expand_go Hdr l) as [r0|] eqn:E; [|discriminate].
    cbn [option_map] in H. inversion H; subst r. split; [cbn [length]; lia|].
    exists r0. split; [reflexivity|exact E].
  - destruct (expand_go (Copy k') l) as [r0|] eqn:E; [|discriminate].
    cbn [option_map] in H. inversion H; subst r.
    apply IH in E. destruct E as (E1 & r' & E2 & E3).
    split; [cbn [length]; lia|]. exists r'. split.
    + subst r0. reflexivity.
    + exact E3.
Qed.

(* ====================================================================== encoder: inner loops *)
Lemma run_spec x : forall l k k' r, run x k l = (k', r) ->
  (k <= k')%nat /\ l = repeat x (k' - k) ++ r /\ (k <= 127 -> k' <= 127)%nat.
Proof.
  induction l as [|y l IH]; intros k k' r H; cbn [run] in H.
  - inversion H; subst. rewrite Nat.sub_diag. split; [lia|]. split; [reflexivity|lia].
  - destruct ((k <? MAX_LEN)%nat && (x =? y)) eqn:E.
    + apply IH in H. destruct H as (H1 & H2 & H3).
      apply andb_true_iff in E. destruct E as [E1 E2].
      apply Z.eqb_eq in E2. subst y. apply Nat.ltb_lt in E1. unfold MAX_LEN in E1.
      split; [lia|]. split; [|lia].
      replace (k' - k)%nat with (S (k' - S k)) by lia. cbn [repeat app]. f_equal. exact H2.
    + inversion H; subst. rewrite Nat.sub_diag. split; [lia|]. split; [reflexivity|lia].
Qed.

Lemma run_step x k l : (k < 127)%nat -> run x k (x :: l) = run x (S k) l.
Proof.
  intros H. cbn [run]. rewrite Z.eqb_refl.
  assert (E : (k <? MAX_LEN)%nat = true) by (apply Nat.ltb_lt; exact H).
  rewrite E. reflexivity.
Qed.

(* what the input looks like where a literal packet stops; [n] = length of the packet *)
Definition tailshape (n : nat) (r : list Z) : Prop :=
  r = [] \/ (127 <= n)%nat \/ (exists x, r = [x; x]) \/
  (exists x z r', r = x :: x :: z :: r' /\ (125 <= n)%nat) \/
  (exists x r', r = x :: x :: x :: r').

Lemma lit_spec : forall l k t r, lit k l = (t, r) ->
  l = t ++ r /\ (k <= 127 -> k + length t <= 127)%nat /\ tailshape (k + length t) r.
Proof.
  unfold tailshape.
  induction l as [|x rest IH]; intros k t r H.
  - cbn [lit] in H. inversion H; subst. split; [reflexivity|]. split; [cbn [length]; lia|].
    left; reflexivity.
  - cbn [lit] in H. destruct (MAX_LEN <=? k)%nat eqn:Ek.
    + inversion H; subst. apply Nat.leb_le in Ek. unfold MAX_LEN in Ek.
      split; [reflexivity|]. cbn [length]. split; [lia|]. right; left. lia.
    + apply Nat.leb_gt in Ek. unfold MAX_LEN in Ek. destruct rest as [|y rest'].
      * inversion H; subst. split; [reflexivity|]. cbn [length]. split; [lia|].
        left; reflexivity.
      * assert (REC : forall t' r', lit (S k) (y :: rest') = (t', r') ->
                  x :: y :: rest' = (x :: t') ++ r' /\
                  (k <= 127 -> k + length (x :: t') <= 127)%nat /\
                  tailshape (k + length (x :: t')) r').
        { intros t' r' EL. apply IH in EL. destruct EL as (L1 & L2 & L3).
          split; [cbn [app]; f_equal; exact L1|]. cbn [length].
          replace (k + S (length t'))%nat with (S k + length t')%nat by lia.
          split; [lia|exact L3]. }
        unfold tailshape in REC.
        destruct (x =? y) eqn:Exy.
        -- apply Z.eqb_eq in Exy. subst y. destruct rest' as [|z rest''].
           ++ inversion H; subst. split; [reflexivity|]. cbn [length]. split; [lia|].
              right; right; left. exists x; reflexivity.
           ++ destruct (MAX_LEN - k <=? 2)%nat eqn:E2.
              ** inversion H; subst. apply Nat.leb_le in E2. unfold MAX_LEN in E2.
                 split; [reflexivity|]. cbn [length]. split; [lia|].
                 right; right; right; left. exists x, z, rest''. split; [reflexivity|lia].
              ** destruct (x =? z) eqn:Exz.
                 --- inversion H; subst. apply Z.eqb_eq in Exz. subst z.
                     split; [reflexivity|]. cbn [length]. split; [lia|].
                     right; right; right; right. exists x, rest''. reflexivity.
                 --- destruct (lit (S k) (x :: z :: rest'')) as [t' r'] eqn:EL.
                     inversion H; subst. apply REC. reflexivity.
        -- destruct (lit (S k) (y :: rest')) as [t' r'] eqn:EL.
           inversion H; subst. apply REC. reflexivity.
Qed.

Lemma lit0_cons x rest t r : lit 0 (x :: rest) = (t, r) ->
  (forall y rest', rest = y :: rest' -> x <> y) -> exists t', t = x :: t'.
Proof.
  intros H Hne. cbn [lit] in H.
  assert (E : (MAX_LEN <=? 0)%nat = false) by reflexivity. rewrite E in H.
  destruct rest as [|y rest'].
  - inversion H. eauto.
  - destruct (x =? y) eqn:Exy.
    + apply Z.eqb_eq in Exy. exfalso. eapply Hne; eauto.
    + destruct (lit 1 (y :: rest')) as [t' r']. inversion H. eauto.
Qed.

(* ====================================================================== encoder: one packet *)
Lemma enc_loop_nil f : enc_loop f [] = [].
Proof. destruct f; reflexivity. Qed.

Lemma encode_eq l : encode l = enc_loop (length l) l.
Proof. destruct l as [|x [|y l]]; reflexivity. Qed.

Lemma enc_rep f x l' : exists k r,
  x :: l' = repeat x k ++ r /\ (1 <= k <= 127)%nat /\
  (forall l'', l' = x :: l'' -> (2 <= k)%nat) /\
  enc_loop (S f) (x :: x :: l') = (256 - Z.of_nat k) :: x :: enc_loop f r.
Proof.
  destruct (run x 0 (x :: l')) as [k r] eqn:ER. exists k, r.
  assert (E1 : enc_loop (S f) (x :: x :: l') = (256 - Z.of_nat k) :: x :: enc_loop f r).
  { cbn [enc_loop]. rewrite Z.eqb_refl. rewrite ER. reflexivity. }
  rewrite run_step in ER by lia.
  pose proof (run_spec _ _ _ _ _ ER) as (R1 & R2 & R3).
  split; [|split; [lia|split; [|exact E1]]].
  - replace k with (S (k - 1)) by lia. cbn [repeat app]. f_equal. exact R2.
  - intros l'' ->. rewrite run_step in ER by lia. apply run_spec in ER. lia.
Qed.

Lemma enc_lit f x rest : (forall y rest', rest = y :: rest' -> x <> y) -> exists t r,
  x :: rest = t ++ r /\ (1 <= length t <= 127)%nat /\ tailshape (length t) r /\
  enc_loop (S f) (x :: rest) = (Z.of_nat (length t) - 1) :: t ++ enc_loop f r.
Proof.
  intros Hne. destruct (lit 0 (x :: rest)) as [t r] eqn:EL. exists t, r.
  assert (E1 : enc_loop (S f) (x :: rest) = (Z.of_nat (length t) - 1) :: t ++ enc_loop f r).
  { cbn [enc_loop]. destruct rest as [|y rest'].
    - rewrite EL. reflexivity.
    - destruct (x =? y) eqn:E.
      + apply Z.eqb_eq in E. exfalso. eapply Hne; eauto.
      + rewrite EL. reflexivity. }
  destruct (lit0_cons _ _ _ _ EL Hne) as [t' Ht].
  apply lit_spec in EL. destruct EL as (L1 & L2 & L3). cbn [Nat.add] in L2, L3.
  split; [exact L1|]. split; [subst t; cbn [length] in *; lia|]. split; [exact L3|exact E1].
Qed.

Lemma enc_step f x rest :
  (exists k r, x :: rest = x :: repeat x k ++ r /\ (1 <= k <= 127)%nat /\
     (forall l'', rest = x :: x :: l'' -> (2 <= k)%nat) /\
     enc_loop (S f) (x :: rest) = (256 - Z.of_nat k) :: x :: enc_loop f r)
  \/ (exists t r, x :: rest = t ++ r /\ (1 <= length t <= 127)%nat /\ tailshape (length t) r /\
     enc_loop (S f) (x :: rest) = (Z.of_nat (length t) - 1) :: t ++ enc_loop f r).
Proof.
  destruct rest as [|y rest'].
  - right. apply enc_lit. intros; discriminate.
  - destruct (Z.eq_dec x y) as [<-|Hxy].
    + left. destruct (enc_rep f x rest') as (k & r & A & B & C & D). exists k, r.
      split; [f_equal; exact A|]. split; [exact B|]. split; [|exact D].
      intros l'' E. inversion E. eapply C; eauto.
    + right. apply enc_lit. intros y' r' E. inversion E; subst. exact Hxy.
Qed.

(* ====================================================================== 1. encode_expand *)
Lemma enc_loop_expand : forall f l, (length l <= f)%nat -> expand_go Hdr (enc_loop f l) = Some l.
Proof.
  induction f as [|f IH]; intros l Hl.
  - destruct l; [reflexivity|cbn [length] in Hl; lia].
  - destruct l as [|x rest]; [reflexivity|].
    destruct (enc_step f x rest) as [(k & r & E & Hk & _ & EE)|(t & r & E & Ht & _ & EE)];
      rewrite EE; rewrite E in Hl |- *; clear EE E.
    + cbn [length] in Hl. rewrite app_length, repeat_length in Hl.
      cbn [expand_go].
      destruct (256 - Z.of_nat k <? 128) eqn:E1; [lia|].
      destruct (256 - Z.of_nat k =? 128) eqn:E2; [lia|].
      replace (Z.to_nat (257 - (256 - Z.of_nat k))) with (S k) by lia.
      cbn [expand_go]. rewrite IH by lia. reflexivity.
    + rewrite app_length in Hl.
      cbn [expand_go].
      destruct (Z.of_nat (length t) - 1 <? 128) eqn:E1; [|lia].
      rewrite (expand_copy t (Z.to_nat (Z.of_nat (length t) - 1))) by lia.
      rewrite IH by lia. reflexivity.
Qed.

Lemma encode_expand l : expand (encode l) = Some l.
Proof. rewrite encode_eq. apply enc_loop_expand. lia. Qed.

(* ====================================================================== 2. encode_no_noop *)
Lemma enc_loop_headers : forall f l, Forall (fun h => h <> 128) (headers_go Hdr (enc_loop f l)).
Proof.
  induction f as [|f IH]; intros l; [constructor|].
  destruct l as [|x rest]; [constructor|].
  destruct (enc_step f x rest) as [(k & r & E & Hk & _ & EE)|(t & r & E & Ht & _ & EE)];
    rewrite EE; clear EE E.
  - cbn [headers_go].
    destruct (256 - Z.of_nat k <? 128) eqn:E1; [lia|].
    destruct (256 - Z.of_nat k =? 128) eqn:E2; [lia|].
    cbn [headers_go]. constructor; [lia|apply IH].
  - cbn [headers_go].
    destruct (Z.of_nat (length t) - 1 <? 128) eqn:E1; [|lia].
    rewrite (headers_copy t (Z.to_nat (Z.of_nat (length t) - 1))) by lia.
    constructor; [lia|apply IH].
Qed.

Lemma encode_no_noop l : ~ In 128 (headers (encode l)).
Proof.
  intros H. rewrite encode_eq in H. unfold headers in H.
  pose proof (enc_loop_headers (length l) l) as F.
  rewrite Forall_forall in F. apply (F 128 H). reflexivity.
Qed.

(* ====================================================================== 3. encode_bound *)
Lemma enc_loop_bound : forall f l, (length l <= f)%nat ->
  (127 * length (enc_loop f l) <= 128 * length l + 126)%nat.
Proof.
  induction f as [f IH] using lt_wf_ind. intros l Hl.
  destruct f as [|f]; [cbn [enc_loop length]; lia|].
  destruct l as [|x rest]; [cbn [enc_loop length]; lia|].
  destruct (enc_step f x rest) as [(k & r & E & Hk & _ & EE)|(t & r & E & Ht & TS & EE)];
    rewrite EE; rewrite E in Hl |- *; clear EE E.
  - cbn [length] in Hl |- *. rewrite app_length, repeat_length in Hl |- *.
    assert (B := IH f (Nat.lt_succ_diag_r f) r ltac:(lia)). lia.
  - rewrite app_length in Hl. cbn [length]. rewrite !app_length.
    destruct TS as [-> | [T | [(y & ->) | [(y & z & r' & -> & T) | (y & r' & ->)]]]].
    + rewrite enc_loop_nil. cbn [length]. lia.
    + assert (B := IH f (Nat.lt_succ_diag_r f) r ltac:(lia)). lia.
    + destruct f as [|f']; [cbn [length] in Hl; lia|].
      destruct (enc_rep f' y []) as (k & r2 & A & Hk & _ & ->).
      assert (L := f_equal (@length Z) A).
      cbn [length] in L. rewrite app_length, repeat_length in L.
      assert (r2 = []) by (apply length_zero_nil; lia). subst r2.
      rewrite enc_loop_nil. cbn [length]. lia.
    + destruct f as [|f']; [cbn [length] in Hl; lia|].
      destruct (enc_rep f' y (z :: r')) as (k & r2 & A & Hk & _ & ->).
      assert (L := f_equal (@length Z) A).
      cbn [length] in L. rewrite app_length, repeat_length in L.
      cbn [length] in Hl |- *.
      assert (B := IH f' ltac:(lia) r2 ltac:(lia)). lia.
    + destruct f as [|f']; [cbn [length] in Hl; lia|].
      destruct (enc_rep f' y (y :: r')) as (k & r2 & A & Hk & K2 & ->).
      specialize (K2 r' eq_refl).
      assert (L := f_equal (@length Z) A).
      cbn [length] in L. rewrite app_length, repeat_length in L.
      cbn [length] in Hl |- *.
      assert (B := IH f' ltac:(lia) r2 ltac:(lia)). lia.
Qed.

Lemma encode_bound l :
  127 * Z.of_nat (length (encode l)) <= 128 * Z.of_nat (length l) + 126.
Proof. rewrite encode_eq. pose proof (enc_loop_bound (length l) l (le_n _)). lia. Qed.

(* ====================================================================== encoder output is bytes *)
Lemma bytes_repeat x k : byte x -> bytes (repeat x k).
Proof. intros H. induction k; cbn [repeat]; constructor; assumption. Qed.

Lemma enc_loop_bytes : forall f l, bytes l -> bytes (enc_loop f l).
Proof.
  unfold bytes.
  induction f as [|f IH]; intros l Hb; [constructor|].
  destruct l as [|x rest]; [constructor|].
  destruct (enc_step f x rest) as [(k & r & E & Hk & _ & EE)|(t & r & E & Ht & _ & EE)];
    rewrite EE; rewrite E in Hb; clear EE E.
  - inversion Hb as [|? ? Hx Hr]; subst. apply Forall_app in Hr. destruct Hr as [_ Hr].
    constructor; [unfold byte; lia|]. constructor; [exact Hx|]. apply IH. exact Hr.
  - apply Forall_app in Hb. destruct Hb as [Hbt Hbr].
    constructor; [unfold byte; lia|]. apply Forall_app. split; [exact Hbt|]. apply IH. exact Hbr.
Qed.

Lemma encode_bytes l : bytes l -> bytes (encode l).
Proof. rewrite encode_eq. apply enc_loop_bytes. Qed.

(* ====================================================================== 4. py_decode_total *)
Lemma finish_cases size acc : finish size acc = Ok acc \/ finish size acc = Err ValueErr.
Proof. unfold finish. destruct (negb _ && negb _); auto. Qed.

Lemma py_loop_total : forall fuel d j size acc, (length d < fuel)%nat ->
  (exists r, py_loop fuel d j size acc = Ok r) \/ py_loop fuel d j size acc = Err ValueErr.
Proof.
  induction fuel as [|fuel IH]; intros d j size acc Hf; [lia|].
  cbn [py_loop]. destruct d as [|bit d'].
  - destruct (finish_cases size acc) as [-> | ->]; eauto.
  - cbn [length] in Hf. destruct (bit >? 128).
    + destruct (j + (257 - bit) >? size); [right; reflexivity|].
      destruct d' as [|v d''].
      * destruct (finish_cases size acc) as [-> | ->]; eauto.
      * apply IH. cbn [length] in Hf. lia.
    + destruct (bit <? 128).
      * destruct ((Z.of_nat (length d') <? bit + 1) || (j + (bit + 1) >? size));
          [right; reflexivity|].
        apply IH. rewrite skipn_length. lia.
      * apply IH. lia.
Qed.

Lemma py_decode_total d n : (exists r, py_decode d n = Ok r) \/ py_decode d n = Err ValueErr.
Proof.
  destruct d as [|b [|b' d]]; unfold py_decode.
  - apply py_loop_total. cbn [length]. lia.
  - destruct (b =? 128); eauto.
  - apply py_loop_total. lia.
Qed.

(* ====================================================================== 5. py_decode_exact *)
Lemma finish_exact size acc r : (Z.of_nat (length acc) <= size \/ acc = []) ->
  finish size acc = Ok r -> Z.of_nat (length r) = size.
Proof.
  unfold finish. intros Hj H.
  destruct (negb (size =? 0) && negb (Z.of_nat (length acc) =? size)) eqn:E; [discriminate|].
  inversion H; subst r. destruct Hj as [Hj | ->]; [lia|]. cbn [length] in *. lia.
Qed.

Lemma py_loop_exact : forall fuel d j size acc r, bytes d ->
  j = Z.of_nat (length acc) -> (j <= size \/ acc = []) ->
  py_loop fuel d j size acc = Ok r -> Z.of_nat (length r) = size.
Proof.
  induction fuel as [|fuel IH]; intros d j size acc r Hb Hj Hs H; [discriminate|].
  cbn [py_loop] in H. destruct d as [|bit d'].
  - subst j. eapply finish_exact; eauto.
  - inversion Hb as [|? ? Hbit Hb']; subst. unfold byte in Hbit.
    destruct (bit >? 128) eqn:E1.
    + destruct (Z.of_nat (length acc) + (257 - bit) >? size) eqn:E2; [discriminate|].
      destruct d' as [|v d''].
      * eapply finish_exact; eauto.
      * inversion Hb' as [|? ? _ Hb'']; subst.
        refine (IH _ _ _ _ _ Hb'' _ _ H); [|left; lia].
        rewrite app_length, repeat_length. lia.
    + destruct (bit <? 128) eqn:E3.
      * destruct ((Z.of_nat (length d') <? bit + 1) ||
                  (Z.of_nat (length acc) + (bit + 1) >? size)) eqn:E4; [discriminate|].
        refine (IH _ _ _ _ _ (bytes_skipn _ _ Hb') _ _ H); [|left; lia].
        rewrite app_length, firstn_length_le by lia. lia.
      * eapply IH; [exact Hb'|reflexivity|exact Hs|exact H].
Qed.

Lemma py_decode_exact d n r : bytes d -> py_decode d n = Ok r ->
  Z.of_nat (length r) = n \/ (d = [128] /\ r = []).
Proof.
  intros Hb H. destruct d as [|b [|b' d]]; unfold py_decode in H.
  - left. eapply py_loop_exact; [exact Hb|reflexivity|right; reflexivity|exact H].
  - destruct (b =? 128) eqn:E; [|discriminate]. right. inversion H.
    apply Z.eqb_eq in E. subst b. split; reflexivity.
  - left. eapply py_loop_exact; [exact Hb|reflexivity|right; reflexivity|exact H].
Qed.

(* ====================================================================== 6/7. the two decoders *)
Lemma write_at_app acc pad j src : j = Z.of_nat (length acc) -> (length src <= length pad)%nat ->
  write_at (acc ++ pad) j src = Ok ((acc ++ src) ++ skipn (length src) pad).
Proof.
  intros -> H. unfold write_at. rewrite app_length.
  destruct ((Z.of_nat (length acc) <? 0) ||
            (Z.of_nat (length acc) + Z.of_nat (length src) >? Z.of_nat (length acc + length pad)))
    eqn:E; [lia|].
  rewrite Nat2Z.id. rewrite firstn_app, Nat.sub_diag, firstn_all. cbn [firstn]. rewrite app_nil_r.
  rewrite skipn_app. rewrite skipn_all2 by lia.
  replace (length acc + length src - length acc)%nat with (length src) by lia.
  cbn [app]. rewrite app_assoc. reflexivity.
Qed.

(* [buf = acc ++ pad]: the part of the buffer already written is exactly python's [result] *)
Lemma cy_py_loop : forall fuel d j size acc pad, bytes d ->
  j = Z.of_nat (length acc) -> Z.of_nat (length acc + length pad) = size ->
  (trailing_rep fuel d j size = false /\
   cy_loop fuel d j size (acc ++ pad) = py_loop fuel d j size acc)
  \/ (trailing_rep fuel d j size = true /\
      cy_loop fuel d j size (acc ++ pad) = Err IndexErr /\
      py_loop fuel d j size acc = Err ValueErr).
Proof.
  induction fuel as [|fuel IH]; intros d j size acc pad Hb Hj Hs; [left; split; reflexivity|].
  cbn [trailing_rep cy_loop py_loop]. destruct d as [|bit d'].
  - left. split; [reflexivity|]. unfold finish. rewrite <- Hj.
    destruct (negb (size =? 0) && negb (j =? size)) eqn:E; [reflexivity|].
    assert (pad = []) by (apply length_zero_nil; lia). subst pad.
    rewrite app_nil_r. reflexivity.
  - apply Forall_cons_iff in Hb. destruct Hb as [Hbit Hb']. unfold byte in Hbit.
    destruct (bit >? 128) eqn:E1.
    + destruct (j + (257 - bit) >? size) eqn:E2; [left; split; reflexivity|].
      destruct d' as [|v d''].
      * right. split; [reflexivity|]. split; [reflexivity|]. unfold finish.
        destruct (negb (size =? 0) && negb (Z.of_nat (length acc) =? size)) eqn:E;
          [reflexivity|lia].
      * apply Forall_cons_iff in Hb'. destruct Hb' as [_ Hb''].
        assert (W : write_at (acc ++ pad) j (repeat v (Z.to_nat (257 - bit)))
                    = Ok ((acc ++ repeat v (Z.to_nat (257 - bit)))
                            ++ skipn (length (repeat v (Z.to_nat (257 - bit)))) pad)).
        { apply write_at_app; [exact Hj|]. rewrite repeat_length. lia. }
        rewrite W. cbn [bind]. apply IH; [exact Hb''| |].
        -- rewrite app_length, repeat_length. lia.
        -- rewrite app_length, skipn_length, !repeat_length. lia.
    + destruct (bit <? 128) eqn:E3.
      * destruct ((Z.of_nat (length d') <? bit + 1) || (j + (bit + 1) >? size)) eqn:E4;
          [left; split; reflexivity|].
        assert (L : length (firstn (Z.to_nat (bit + 1)) d') = Z.to_nat (bit + 1))
          by (apply firstn_length_le; lia).
        assert (W : write_at (acc ++ pad) j (firstn (Z.to_nat (bit + 1)) d')
                    = Ok ((acc ++ firstn (Z.to_nat (bit + 1)) d')
                            ++ skipn (length (firstn (Z.to_nat (bit + 1)) d')) pad)).
        { apply write_at_app; [exact Hj|]. rewrite L. lia. }
        rewrite W. cbn [bind]. apply IH; [apply bytes_skipn; exact Hb'| |].
        -- rewrite app_length, L. lia.
        -- rewrite app_length, skipn_length, !L. lia.
      * apply IH; assumption.
Qed.

Lemma cy_py_cases d n : bytes d -> 0 <= n ->
  (trailing_replicate d n = false /\ cy_decode d n = py_decode d n)
  \/ (trailing_replicate d n = true /\ cy_decode d n = Err IndexErr /\
      py_decode d n = Err ValueErr).
Proof.
  intros Hb Hn.
  assert (G : forall d', bytes d' ->
     (trailing_rep (S (length d')) d' 0 n = false /\
      cy_loop (S (length d')) d' 0 n (repeat 0 (Z.to_nat n)) = py_loop (S (length d')) d' 0 n [])
     \/ (trailing_rep (S (length d')) d' 0 n = true /\
         cy_loop (S (length d')) d' 0 n (repeat 0 (Z.to_nat n)) = Err IndexErr /\
         py_loop (S (length d')) d' 0 n [] = Err ValueErr)).
  { intros d' Hb'. apply (cy_py_loop (S (length d')) d' 0 n [] (repeat 0 (Z.to_nat n)) Hb').
    - reflexivity.
    - cbn [length Nat.add]. rewrite repeat_length. lia. }
  destruct d as [|b [|b' d]]; unfold trailing_replicate, cy_decode, py_decode.
  - apply G. exact Hb.
  - left. split; reflexivity.
  - apply G. exact Hb.
Qed.

Lemma cy_py_agree d n : bytes d -> 0 <= n ->
  cy_decode d n = py_decode d n \/
  (trailing_replicate d n = true /\ cy_decode d n = Err IndexErr /\ py_decode d n = Err ValueErr).
Proof.
  intros Hb Hn. destruct (cy_py_cases d n Hb Hn) as [[_ H]|H]; [left; exact H|right; exact H].
Qed.

Lemma trailing_replicate_differ d n : bytes d -> 0 <= n -> trailing_replicate d n = true ->
  cy_decode d n = Err IndexErr /\ py_decode d n = Err ValueErr.
Proof.
  intros Hb Hn HT. destruct (cy_py_cases d n Hb Hn) as [[H _]|[_ H]]; [congruence|exact H].
Qed.

Lemma differ_trailing_replicate d n : bytes d -> 0 <= n -> cy_decode d n <> py_decode d n ->
  trailing_replicate d n = true.
Proof.
  intros Hb Hn HD. destruct (cy_py_cases d n Hb Hn) as [[_ H]|[H _]]; [contradiction|exact H].
Qed.

Lemma cy_decode_total d n : bytes d -> 0 <= n ->
  (exists r, cy_decode d n = Ok r) \/ cy_decode d n = Err ValueErr \/ cy_decode d n = Err IndexErr.
Proof.
  intros Hb Hn. destruct (cy_py_agree d n Hb Hn) as [H|(_ & H & _)]; [|auto].
  rewrite H. destruct (py_decode_total d n) as [HH|HH]; auto.
Qed.

Lemma cy_decode_no_oob_write d n : bytes d -> 0 <= n -> cy_decode d n <> Err OOBWrite.
Proof.
  intros Hb Hn. destruct (cy_decode_total d n Hb Hn) as [[r H]|[H|H]]; rewrite H; discriminate.
Qed.

(* ====================================================================== 8. decode_conforming *)
Lemma py_loop_conforming : forall fuel d j size acc r, bytes d -> (length d < fuel)%nat ->
  expand_go Hdr d = Some r -> j = Z.of_nat (length acc) ->
  j + Z.of_nat (length r) = size -> 0 < size ->
  py_loop fuel d j size acc = Ok (acc ++ r).
Proof.
  induction fuel as [|fuel IH]; intros d j size acc r Hb Hf HE Hj Hs Hpos; [lia|].
  cbn [py_loop]. destruct d as [|bit d'].
  - cbn [expand_go] in HE. inversion HE; subst r. cbn [length] in Hs.
    unfold finish.
    destruct (negb (size =? 0) && negb (Z.of_nat (length acc) =? size)) eqn:E; [lia|].
    rewrite app_nil_r. reflexivity.
  - apply Forall_cons_iff in Hb. destruct Hb as [Hbit Hb']. unfold byte in Hbit.
    cbn [length] in Hf. cbn [expand_go] in HE.
    destruct (bit <? 128) eqn:E1.
    + destruct (bit >? 128) eqn:E0; [lia|].
      apply expand_copy_inv in HE. destruct HE as (L1 & r' & -> & HE).
      replace (Z.to_nat (bit + 1)) with (S (Z.to_nat bit)) by lia.
      assert (L : length (firstn (S (Z.to_nat bit)) d') = S (Z.to_nat bit))
        by (apply firstn_length_le; exact L1).
      rewrite app_length, L in Hs.
      destruct ((Z.of_nat (length d') <? bit + 1) || (j + (bit + 1) >? size)) eqn:E4; [lia|].
      rewrite app_assoc. apply IH.
      * apply bytes_skipn. exact Hb'.
      * rewrite skipn_length. lia.
      * exact HE.
      * rewrite app_length, L. lia.
      * lia.
      * exact Hpos.
    + destruct (bit =? 128) eqn:E2.
      * destruct (bit >? 128) eqn:E0; [lia|]. apply IH; try assumption. lia.
      * destruct (bit >? 128) eqn:E0; [|lia].
        destruct d' as [|v d'']; [discriminate|].
        cbn [expand_go] in HE.
        destruct (expand_go Hdr d'') as [r'|] eqn:HE'; [|discriminate].
        cbn [option_map] in HE.
        assert (Hr : r = repeat v (Z.to_nat (257 - bit)) ++ r') by congruence.
        clear HE. subst r.
        rewrite app_length, repeat_length in Hs.
        destruct (j + (257 - bit) >? size) eqn:E3; [lia|].
        apply Forall_cons_iff in Hb'. destruct Hb' as [_ Hb''].
        rewrite app_assoc. apply IH.
        -- exact Hb''.
        -- cbn [length] in Hf. lia.
        -- exact HE'.
        -- rewrite app_length, repeat_length. lia.
        -- lia.
        -- exact Hpos.
Qed.

Lemma decode_conforming d n r : bytes d -> expand d = Some r -> Z.of_nat (length r) = n ->
  0 < n -> length d <> 1%nat -> py_decode d n = Ok r.
Proof.
  intros Hb HE Hn Hpos H1. unfold expand in HE.
  destruct d as [|b [|b' d]]; [|cbn [length] in H1; congruence|]; unfold py_decode.
  - apply (py_loop_conforming 1 [] 0 n [] r Hb); auto; cbn [length]; lia.
  - apply (py_loop_conforming _ _ 0 n [] r Hb); auto; cbn [length]; lia.
Qed.

(* ====================================================================== 9. decode_encode *)
Lemma expand_single b l : expand [b] = Some l -> l = [].
Proof.
  unfold expand. cbn [expand_go].
  destruct (b <? 128); [discriminate|]. destruct (b =? 128); [|discriminate].
  intros H; inversion H; reflexivity.
Qed.

Lemma decode_encode l : bytes l -> py_decode (encode l) (Z.of_nat (length l)) = Ok l.
Proof.
  intros Hb. destruct l as [|x l']; [reflexivity|].
  apply decode_conforming.
  - apply encode_bytes. exact Hb.
  - apply encode_expand.
  - reflexivity.
  - cbn [length]. lia.
  - intros H1. pose proof (encode_expand (x :: l')) as HE.
    destruct (encode (x :: l')) as [|b [|b' e]]; try discriminate.
    apply expand_single in HE. discriminate.
Qed.

Lemma decode_encode_cy l : bytes l -> cy_decode (encode l) (Z.of_nat (length l)) = Ok l.
Proof.
  intros Hb. pose proof (decode_encode l Hb) as HP.
  destruct (cy_py_agree (encode l) (Z.of_nat (length l)) (encode_bytes l Hb) ltac:(lia))
    as [H|(_ & _ & H)]; congruence.
Qed.

Lemma encode_not_trailing l : bytes l -> trailing_replicate (encode l) (Z.of_nat (length l)) = false.
Proof.
  intros Hb. destruct (trailing_replicate (encode l) (Z.of_nat (length l))) eqn:E; [|reflexivity].
  apply trailing_replicate_differ in E; [|apply encode_bytes; exact Hb|lia].
  rewrite (decode_encode l Hb) in E. destruct E; discriminate.
Qed.
