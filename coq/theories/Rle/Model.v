(* Model of psd_tools/compression/rle.py and _rle.pyx (definitions only).
   encode: one function for both implementations (same algorithm).
   py_decode / cy_decode: the two decoders, with every data[i] a checked access. *)
From PsdV Require Import Base.Prelude.

(* ---------- specification: textbook PackBits expander (independent of the code) *)
Inductive pstate := Hdr | Copy (k : nat) | Rep (c : nat).

Fixpoint expand_go (st : pstate) (l : list Z) : option (list Z) :=
  match l with
  | [] => match st with Hdr => Some [] | _ => None end
  | b :: l' =>
      match st with
      | Hdr =>
          if b <? 128 then expand_go (Copy (Z.to_nat b)) l'
          else if b =? 128 then expand_go Hdr l'
          else expand_go (Rep (Z.to_nat (257 - b))) l'
      | Copy k =>
          option_map (cons b) (expand_go (match k with O => Hdr | S k' => Copy k' end) l')
      | Rep c => option_map (app (repeat b c)) (expand_go Hdr l')
      end
  end.
(* [Copy k] : k+1 literal bytes still to copy. *)
Definition expand (l : list Z) : option (list Z) := expand_go Hdr l.

(* headers of a packet stream (None when the stream is cut inside a packet) *)
Fixpoint headers_go (st : pstate) (l : list Z) : list Z :=
  match l with
  | [] => []
  | b :: l' =>
      match st with
      | Hdr =>
          b :: (if b <? 128 then headers_go (Copy (Z.to_nat b)) l'
                else if b =? 128 then headers_go Hdr l'
                else headers_go (Rep 0) l')
      | Copy k => headers_go (match k with O => Hdr | S k' => Copy k' end) l'
      | Rep _ => headers_go Hdr l'
      end
  end.
Definition headers := headers_go Hdr.

(* ---------- encoder (rle.py:41-91, _rle.pyx:48-98) *)
Definition MAX_LEN : nat := 127.

(* replicate branch inner loop: [k] = j - i so far, [l] = data[j+1:] *)
Fixpoint run (x : Z) (k : nat) (l : list Z) : nat * list Z :=
  match l with
  | y :: l' => if (k <? MAX_LEN)%nat && (x =? y) then run x (S k) l' else (k, l)
  | [] => (k, [])
  end.

(* literal branch inner loop: [k] = j - i so far, [l] = data[j:] ; returns (data[i+k:j], data[j:]) *)
Fixpoint lit (k : nat) (l : list Z) : list Z * list Z :=
  match l with
  | [] => ([], [])
  | x :: rest =>
      if (MAX_LEN <=? k)%nat then ([], l)
      else match rest with
           | [] => ([x], [])
           | y :: rest' =>
               if x =? y then
                 match rest' with
                 | [] => ([], l)                      (* j + 2 == length *)
                 | z :: _ =>
                     if (MAX_LEN - k <=? 2)%nat then ([], l)
                     else if y =? z then ([], l)
                     else let '(t, r) := lit (S k) rest in (x :: t, r)
                 end
               else let '(t, r) := lit (S k) rest in (x :: t, r)
           end
  end.

Fixpoint enc_loop (fuel : nat) (l : list Z) : list Z :=
  match fuel with
  | O => []
  | S fuel' =>
      match l with
      | [] => []
      | x :: rest =>
          match rest with
          | y :: _ =>
              if x =? y then
                let '(k, r) := run x 0 rest in
                (256 - Z.of_nat k) :: x :: enc_loop fuel' r
              else
                let '(t, r) := lit 0 l in
                (Z.of_nat (length t) - 1) :: t ++ enc_loop fuel' r
          | [] =>
              let '(t, r) := lit 0 l in
              (Z.of_nat (length t) - 1) :: t ++ enc_loop fuel' r
          end
      end
  end.

Definition encode (l : list Z) : list Z :=
  match l with
  | [] => []
  | [x] => [0; x]
  | _ => enc_loop (length l) l
  end.

(* ---------- decoders *)
Definition finish (size : Z) (acc : list Z) : res (list Z) :=
  if negb (size =? 0) && negb (Z.of_nat (length acc) =? size) then Err ValueErr else Ok acc.

(* rle.py:18-35.  d = data[i:], j as in the code, acc = result *)
Fixpoint py_loop (fuel : nat) (d : list Z) (j size : Z) (acc : list Z) : res (list Z) :=
  match fuel with
  | O => Err OutOfFuel
  | S fuel' =>
      match d with
      | [] => finish size acc
      | bit :: d' =>
          if bit >? 128 then
            let c := 257 - bit in
            if j + c >? size then Err ValueErr
            else match d' with
                 | [] => finish size acc    (* data[i:i+1] is empty: nothing appended, loop ends *)
                 | v :: d'' => py_loop fuel' d'' (j + c) size (acc ++ repeat v (Z.to_nat c))
                 end
          else if bit <? 128 then
            let c := bit + 1 in
            if (Z.of_nat (length d') <? c) || (j + c >? size) then Err ValueErr
            else py_loop fuel' (skipn (Z.to_nat c) d') (j + c) size (acc ++ firstn (Z.to_nat c) d')
          else py_loop fuel' d' j size acc
      end
  end.

Definition py_decode (d : list Z) (size : Z) : res (list Z) :=
  match d with
  | [b] => if b =? 128 then Ok [] else Err ValueErr
  | _ => py_loop (S (length d)) d 0 size []
  end.

(* _rle.pyx:11-45.  The result buffer is a list of length [size]; writes go through
   [write_at], which reports an out-of-bounds write instead of performing it. *)
Definition write_at (buf : list Z) (j : Z) (src : list Z) : res (list Z) :=
  if (j <? 0) || (j + Z.of_nat (length src) >? Z.of_nat (length buf)) then Err OOBWrite
  else Ok (firstn (Z.to_nat j) buf ++ src ++ skipn (Z.to_nat j + length src) buf).

Fixpoint cy_loop (fuel : nat) (d : list Z) (j size : Z) (buf : list Z) : res (list Z) :=
  match fuel with
  | O => Err OutOfFuel
  | S fuel' =>
      match d with
      | [] => if negb (size =? 0) && negb (j =? size) then Err ValueErr else Ok buf
      | bit :: d' =>
          if bit >? 128 then
            let c := 257 - bit in
            if j + c >? size then Err ValueErr
            else match d' with
                 | [] => Err IndexErr       (* data[i] with i == length: bounds-checked memoryview *)
                 | v :: d'' =>
                     do buf' <- write_at buf j (repeat v (Z.to_nat c));
                     cy_loop fuel' d'' (j + c) size buf'
                 end
          else if bit <? 128 then
            let c := bit + 1 in
            if (Z.of_nat (length d') <? c) || (j + c >? size) then Err ValueErr
            else do buf' <- write_at buf j (firstn (Z.to_nat c) d');
                 cy_loop fuel' (skipn (Z.to_nat c) d') (j + c) size buf'
          else cy_loop fuel' d' j size buf
      end
  end.

Definition cy_decode (d : list Z) (size : Z) : res (list Z) :=
  match d with
  | [b] => if b =? 128 then Ok [] else Err ValueErr
  | _ => cy_loop (S (length d)) d 0 size (repeat 0 (Z.to_nat size))
  end.

(* the class of inputs on which the two decoders differ (finding F-C05-1):
   a replicate header (> 128) is the last byte and its run still fits [size]. *)
Fixpoint trailing_rep (fuel : nat) (d : list Z) (j size : Z) : bool :=
  match fuel with
  | O => false
  | S fuel' =>
      match d with
      | [] => false
      | bit :: d' =>
          if bit >? 128 then
            let c := 257 - bit in
            if j + c >? size then false
            else match d' with [] => true | _ :: d'' => trailing_rep fuel' d'' (j + c) size end
          else if bit <? 128 then
            let c := bit + 1 in
            if (Z.of_nat (length d') <? c) || (j + c >? size) then false
            else trailing_rep fuel' (skipn (Z.to_nat c) d') (j + c) size
          else trailing_rep fuel' d' j size
      end
  end.
Definition trailing_replicate (d : list Z) (size : Z) : bool :=
  match d with [_] => false | _ => trailing_rep (S (length d)) d 0 size end.
