(* Edit/Forest.v -- lemmas about rose forests of ids: occurrence counts, find, the
   by-id child-list update [upd_l], edges.  No objects, no states. *)
From PsdV Require Import Base.Prelude Edit.Model Edit.Inv.
From Coq Require Import Permutation.
Open Scope Z_scope.

(* ---------------------------------------------------------------- induction on rose trees *)
Section TreeInd.
  Variable P : tree -> Prop.
  Hypothesis H : forall i ks, Forall P ks -> P (T i ks).
  Fixpoint tree_ind2 (t : tree) : P t :=
    match t with
    | T i ks => H i ks ((fix go (l : list tree) : Forall P l :=
                           match l with
                           | [] => Forall_nil P
                           | x :: r => Forall_cons x (tree_ind2 x) (go r)
                           end) ks)
    end.
End TreeInd.

(* ---------------------------------------------------------------- counting *)
Definition cnt (x : Z) (l : list Z) : nat := count_occ Z.eq_dec l x.

Lemma cnt_nil x : cnt x [] = O.
Proof. reflexivity. Qed.
Lemma cnt_app x a b : cnt x (a ++ b) = (cnt x a + cnt x b)%nat.
Proof. apply count_occ_app. Qed.
Lemma cnt_cons x y l : cnt x (y :: l) = ((if Z.eq_dec y x then 1 else 0) + cnt x l)%nat.
Proof. unfold cnt. simpl. destruct (Z.eq_dec y x); reflexivity. Qed.
Lemma cnt_In x l : In x l <-> (0 < cnt x l)%nat.
Proof. unfold cnt. rewrite (count_occ_In Z.eq_dec). lia. Qed.
Lemma cnt_notin x l : ~ In x l <-> cnt x l = O.
Proof. unfold cnt. apply count_occ_not_In. Qed.
Lemma NoDup_cnt l : NoDup l <-> forall x, (cnt x l <= 1)%nat.
Proof. unfold cnt. apply NoDup_count_occ. Qed.
Lemma cnt_same_NoDup l l' : (forall x, cnt x l' = cnt x l) -> NoDup l -> NoDup l'.
Proof. intros H N. apply NoDup_cnt. intro x. rewrite H. apply NoDup_cnt. exact N. Qed.
Lemma cnt_same_In l l' : (forall x, cnt x l' = cnt x l) -> forall x, In x l' <-> In x l.
Proof. intros H x. rewrite !cnt_In, H. tauto. Qed.

Lemma NoDup_app_l (a b : list Z) : NoDup (a ++ b) -> NoDup a.
Proof. intro N. apply NoDup_cnt. intro x. apply NoDup_cnt with (x := x) in N. rewrite cnt_app in N. lia. Qed.
Lemma NoDup_app_r (a b : list Z) : NoDup (a ++ b) -> NoDup b.
Proof. intro N. apply NoDup_cnt. intro x. apply NoDup_cnt with (x := x) in N. rewrite cnt_app in N. lia. Qed.

Lemma ids_l_app a b : ids_l (a ++ b) = ids_l a ++ ids_l b.
Proof. unfold ids_l. apply flat_map_app. Qed.
Lemma ids_l_cons t l : ids_l (t :: l) = ids_t t ++ ids_l l.
Proof. reflexivity. Qed.
Lemma ids_t_eq i ks : ids_t (T i ks) = i :: ids_l ks.
Proof. reflexivity. Qed.
Lemma edges_l_app a b : edges_l (a ++ b) = edges_l a ++ edges_l b.
Proof. unfold edges_l. apply flat_map_app. Qed.
Lemma edges_l_cons t l : edges_l (t :: l) = edges_t t ++ edges_l l.
Proof. reflexivity. Qed.
Lemma edges_t_eq i ks : edges_t (T i ks) = map (fun c => (i, tid c)) ks ++ edges_l ks.
Proof. reflexivity. Qed.

Lemma tid_in_ids t : In (tid t) (ids_t t).
Proof. destruct t. simpl. auto. Qed.
Lemma In_ids_l x l : In x (ids_l l) <-> exists t, In t l /\ In x (ids_t t).
Proof. unfold ids_l. rewrite in_flat_map. tauto. Qed.
Lemma root_in_ids t l : In t l -> In (tid t) (ids_l l).
Proof. intro H. apply In_ids_l. exists t. split; [exact H | apply tid_in_ids]. Qed.

(* firstn / skipn pieces *)
Lemma cnt_ids_split x (l : list tree) k :
  cnt x (ids_l l) = (cnt x (ids_l (firstn k l)) + cnt x (ids_l (skipn k l)))%nat.
Proof. rewrite <- cnt_app, <- ids_l_app, firstn_skipn. reflexivity. Qed.

Lemma cnt_splice x (l : list tree) k m :
  cnt x (ids_l (splice l k m)) = (cnt x (ids_l l) + cnt x (ids_l m))%nat.
Proof.
  unfold splice. rewrite !ids_l_app, !cnt_app, (cnt_ids_split x l k). lia.
Qed.

Lemma nth_error_split {A} (l : list A) k d :
  nth_error l k = Some d -> l = firstn k l ++ d :: skipn (S k) l.
Proof.
  revert k; induction l as [|a l IH]; intros [|k] H; simpl in *; try discriminate.
  - inversion H; reflexivity.
  - f_equal. apply IH. exact H.
Qed.

Lemma cnt_del_nth x (l : list tree) k d :
  nth_error l k = Some d ->
  cnt x (ids_l l) = (cnt x (ids_l (del_nth l k)) + cnt x (ids_t d))%nat.
Proof.
  intro H. unfold del_nth. rewrite (nth_error_split l k d H) at 1.
  rewrite !ids_l_app, ids_l_cons, !cnt_app. lia.
Qed.

Lemma edges_splice e (l : list tree) k m :
  In e (edges_l (splice l k m)) -> In e (edges_l l) \/ In e (edges_l m).
Proof.
  unfold splice. rewrite !edges_l_app, !in_app_iff. intros [H|[H|H]]; auto; left.
  - rewrite <- (firstn_skipn k l), edges_l_app, in_app_iff. auto.
  - rewrite <- (firstn_skipn k l), edges_l_app, in_app_iff. auto.
Qed.
Lemma tids_splice x (l : list tree) k m :
  In x (map tid (splice l k m)) -> In x (map tid l) \/ In x (map tid m).
Proof.
  unfold splice. rewrite !map_app, !in_app_iff. intros [H|[H|H]]; auto; left.
  - rewrite <- (firstn_skipn k l), map_app, in_app_iff. auto.
  - rewrite <- (firstn_skipn k l), map_app, in_app_iff. auto.
Qed.
Lemma edges_del_nth e (l : list tree) k : In e (edges_l (del_nth l k)) -> In e (edges_l l).
Proof.
  unfold del_nth. rewrite edges_l_app, in_app_iff. intros [H|H].
  - rewrite <- (firstn_skipn k l), edges_l_app, in_app_iff. auto.
  - rewrite <- (firstn_skipn (S k) l), edges_l_app, in_app_iff. auto.
Qed.
Lemma tids_del_nth x (l : list tree) k : In x (map tid (del_nth l k)) -> In x (map tid l).
Proof.
  unfold del_nth. rewrite map_app, in_app_iff. intros [H|H].
  - rewrite <- (firstn_skipn k l), map_app, in_app_iff. auto.
  - rewrite <- (firstn_skipn (S k) l), map_app, in_app_iff. auto.
Qed.

(* ---------------------------------------------------------------- edges and ids *)
Lemma edges_in_ids : forall t a c, In (a, c) (edges_t t) -> In a (ids_t t) /\ In c (ids_l (tkids t)).
Proof.
  apply (tree_ind2 (fun t => forall a c, In (a, c) (edges_t t) -> In a (ids_t t) /\ In c (ids_l (tkids t)))).
  intros i ks IH a c H. rewrite edges_t_eq, in_app_iff in H. simpl tkids. rewrite ids_t_eq.
  destruct H as [H|H].
  - apply in_map_iff in H as [y [Hy Hin]]. inversion Hy; subst. split; [left; reflexivity|].
    apply root_in_ids. exact Hin.
  - unfold edges_l in H. apply in_flat_map in H as [y [Hy He]].
    rewrite Forall_forall in IH. destruct (IH y Hy a c He) as [Ha Hc].
    split.
    + right. apply In_ids_l. exists y. auto.
    + apply In_ids_l. exists y. split; [exact Hy|]. destruct y as [j kk]. rewrite ids_t_eq. right. exact Hc.
Qed.

Lemma edges_l_in_ids l a c : In (a, c) (edges_l l) -> In a (ids_l l) /\ In c (ids_l l).
Proof.
  unfold edges_l. rewrite in_flat_map. intros [t [Ht He]].
  destruct (edges_in_ids t a c He) as [Ha Hc]. split; apply In_ids_l; exists t; split; auto.
  destruct t as [j kk]. rewrite ids_t_eq. right. exact Hc.
Qed.

(* ---------------------------------------------------------------- occ / find *)
Lemma occ_t_In : forall t i, occ_t i t = true <-> In i (ids_t t).
Proof.
  apply (tree_ind2 (fun t => forall i, occ_t i t = true <-> In i (ids_t t))).
  intros j ks IH i. simpl occ_t. rewrite ids_t_eq, orb_true_iff, Z.eqb_eq, existsb_exists. simpl In.
  rewrite Forall_forall in IH. split.
  - intros [H|[y [Hy Ho]]]; [left; exact H | right]. apply In_ids_l. exists y. split; [exact Hy | apply IH; assumption].
  - intros [H|H]; [left; exact H | right]. apply In_ids_l in H as [y [Hy Hi]]. exists y. split; [exact Hy | apply IH; assumption].
Qed.
Lemma occ_l_In l i : occ_l i l = true <-> In i (ids_l l).
Proof.
  unfold occ_l. rewrite existsb_exists, In_ids_l. split; intros [t [Ht H]]; exists t; split; auto; apply occ_t_In; exact H.
Qed.

Lemma first_some_cons {A B} (f : A -> option B) x r :
  first_some f (x :: r) = match f x with Some y => Some y | None => first_some f r end.
Proof. reflexivity. Qed.

Lemma find_t_notin : forall t g, ~ In g (ids_t t) -> find_t g t = None.
Proof.
  apply (tree_ind2 (fun t => forall g, ~ In g (ids_t t) -> find_t g t = None)).
  intros j ks IH g Hn. simpl find_t. rewrite ids_t_eq in Hn. simpl in Hn.
  destruct (j =? g) eqn:E; [apply Z.eqb_eq in E; tauto|].
  assert (Hk : ~ In g (ids_l ks)) by tauto. clear Hn E.
  induction ks as [|x r IHr]; [reflexivity|].
  rewrite first_some_cons. inversion IH; subst. rewrite ids_l_cons, in_app_iff in Hk.
  rewrite (H1 g) by tauto. apply IHr; [assumption | tauto].
Qed.
Lemma find_l_notin l g : ~ In g (ids_l l) -> find_l g l = None.
Proof.
  unfold find_l. induction l as [|x r IH]; intro H; [reflexivity|].
  rewrite first_some_cons. rewrite ids_l_cons, in_app_iff in H.
  rewrite find_t_notin by tauto. apply IH. tauto.
Qed.

(* what find returns is a subtree: same id, ids and edges included (counted) *)
Lemma find_t_sub : forall t g u, find_t g t = Some u ->
  tid u = g /\ (forall x, (cnt x (ids_t u) <= cnt x (ids_t t))%nat) /\ (forall e, In e (edges_t u) -> In e (edges_t t)).
Proof.
  apply (tree_ind2 (fun t => forall g u, find_t g t = Some u ->
    tid u = g /\ (forall x, (cnt x (ids_t u) <= cnt x (ids_t t))%nat) /\ (forall e, In e (edges_t u) -> In e (edges_t t)))).
  intros j ks IH g u H. simpl find_t in H. destruct (j =? g) eqn:E.
  - inversion H; subst. apply Z.eqb_eq in E. simpl. split; [exact E|]. split; [intro; lia | auto].
  - clear E. assert (G : tid u = g /\ (forall x, (cnt x (ids_t u) <= cnt x (ids_l ks))%nat) /\ (forall e, In e (edges_t u) -> In e (edges_l ks))).
    { induction ks as [|y r IHr]; [discriminate|].
      rewrite first_some_cons in H. inversion IH; subst.
      destruct (find_t g y) eqn:F.
      - inversion H; subst. destruct (H2 g u F) as [A [B C]]. split; [exact A|]. split.
        + intro x. rewrite ids_l_cons, cnt_app. specialize (B x). lia.
        + intros e He. rewrite edges_l_cons, in_app_iff. left. auto.
      - destruct (IHr H3 H) as [A [B C]]. split; [exact A|]. split.
        + intro x. rewrite ids_l_cons, cnt_app. specialize (B x). lia.
        + intros e He. rewrite edges_l_cons, in_app_iff. right. auto. }
    destruct G as [A [B C]]. split; [exact A|]. split.
    + intro x. rewrite ids_t_eq, cnt_cons. specialize (B x). lia.
    + intros e He. rewrite edges_t_eq, in_app_iff. right. auto.
Qed.

Lemma find_l_sub l g u : find_l g l = Some u ->
  tid u = g /\ (forall x, (cnt x (ids_t u) <= cnt x (ids_l l))%nat) /\ (forall e, In e (edges_t u) -> In e (edges_l l)).
Proof.
  unfold find_l. induction l as [|y r IH]; intro H; [discriminate|].
  rewrite first_some_cons in H. destruct (find_t g y) eqn:F.
  - inversion H; subst. destruct (find_t_sub y g u F) as [A [B C]]. split; [exact A|]. split.
    + intro x. rewrite ids_l_cons, cnt_app. specialize (B x). lia.
    + intros e He. rewrite edges_l_cons, in_app_iff. left. auto.
  - destruct (IH H) as [A [B C]]. split; [exact A|]. split.
    + intro x. rewrite ids_l_cons, cnt_app. specialize (B x). lia.
    + intros e He. rewrite edges_l_cons, in_app_iff. right. auto.
Qed.

Lemma find_t_in : forall t g, In g (ids_t t) -> exists u, find_t g t = Some u.
Proof.
  intros t g H. destruct (find_t g t) eqn:E; [eauto|].
  exfalso. revert t g H E.
  apply (tree_ind2 (fun t => forall g, In g (ids_t t) -> find_t g t = None -> False)).
  intros j ks IH g H E. simpl find_t in E. rewrite ids_t_eq in H. simpl in H.
  destruct (j =? g) eqn:Ej; [discriminate|]. apply Z.eqb_neq in Ej.
  destruct H as [H|H]; [contradiction|]. clear Ej.
  induction ks as [|y r IHr]; [simpl in H; contradiction|].
  rewrite first_some_cons in E. inversion IH; subst.
  destruct (find_t g y) eqn:F; [discriminate|].
  rewrite ids_l_cons, in_app_iff in H. destruct H as [H|H]; [exact (H2 g H F) | exact (IHr H3 H E)].
Qed.
Lemma find_l_in l g : In g (ids_l l) -> exists u, find_l g l = Some u.
Proof.
  unfold find_l. induction l as [|y r IH]; intro H; [simpl in H; contradiction|].
  rewrite first_some_cons. rewrite ids_l_cons, in_app_iff in H.
  destruct (find_t g y) eqn:F; [eauto|].
  destruct H as [H|H]; [|apply IH; exact H].
  destruct (find_t_in y g H) as [u Hu]. congruence.
Qed.

(* a root of a duplicate-free forest is what find returns for its id *)
Lemma find_t_root t : find_t (tid t) t = Some t.
Proof. destruct t as [j ks]. simpl. rewrite Z.eqb_refl. reflexivity. Qed.
Lemma find_l_root l t : NoDup (ids_l l) -> In t l -> find_l (tid t) l = Some t.
Proof.
  unfold find_l. induction l as [|y r IH]; intros N H; [contradiction|].
  rewrite first_some_cons. rewrite ids_l_cons in N. destruct H as [H|H].
  - subst. rewrite find_t_root. reflexivity.
  - rewrite find_t_notin.
    + apply IH; [eapply NoDup_app_r; exact N | exact H].
    + intro Hy. apply NoDup_cnt with (x := tid t) in N. rewrite cnt_app in N.
      apply cnt_In in Hy. pose proof (root_in_ids t r H) as Hr. apply cnt_In in Hr. lia.
Qed.

(* ---------------------------------------------------------------- upd *)
Lemma upd_t_notin : forall t g f, ~ In g (ids_t t) -> upd_t g f t = t.
Proof.
  apply (tree_ind2 (fun t => forall g f, ~ In g (ids_t t) -> upd_t g f t = t)).
  intros j ks IH g f Hn. rewrite ids_t_eq in Hn. simpl in Hn. simpl upd_t.
  destruct (j =? g) eqn:E; [apply Z.eqb_eq in E; tauto|].
  f_equal. assert (Hk : ~ In g (ids_l ks)) by tauto. clear Hn E.
  induction ks as [|y r IHr]; [reflexivity|]. inversion IH; subst.
  rewrite ids_l_cons, in_app_iff in Hk. simpl map. rewrite H1 by tauto. f_equal. apply IHr; [assumption|tauto].
Qed.
Lemma upd_l_notin l g f : ~ In g (ids_l l) -> upd_l g f l = l.
Proof.
  unfold upd_l. induction l as [|y r IH]; intro H; [reflexivity|].
  rewrite ids_l_cons, in_app_iff in H. simpl map. rewrite upd_t_notin by tauto. f_equal. apply IH. tauto.
Qed.
Lemma upd_t_tid g f t : tid (upd_t g f t) = tid t.
Proof. destruct t. reflexivity. Qed.
Lemma upd_l_tids g f l : map tid (upd_l g f l) = map tid l.
Proof. unfold upd_l. rewrite map_map. apply map_ext. intro. apply upd_t_tid. Qed.

(* The effect of [upd] on a duplicate-free tree that contains g (with children ks0):
   counts, the new node, and where the new edges come from. *)
Definition upd_spec_t (g : Z) (f : list tree -> list tree) (t : tree) : Prop :=
  NoDup (ids_t t) -> forall ks0, find_t g t = Some (T g ks0) ->
    (forall x, (cnt x (ids_t (upd_t g f t)) + cnt x (ids_l ks0) = cnt x (ids_t t) + cnt x (ids_l (f ks0)))%nat)
    /\ find_t g (upd_t g f t) = Some (T g (f ks0))
    /\ (forall e, In e (edges_t (upd_t g f t)) ->
          In e (edges_t t) \/ In e (edges_l (f ks0)) \/ (fst e = g /\ In (snd e) (map tid (f ks0)))).

Definition upd_spec_l (g : Z) (f : list tree -> list tree) (l : list tree) : Prop :=
  NoDup (ids_l l) -> forall ks0, find_l g l = Some (T g ks0) ->
    (forall x, (cnt x (ids_l (upd_l g f l)) + cnt x (ids_l ks0) = cnt x (ids_l l) + cnt x (ids_l (f ks0)))%nat)
    /\ find_l g (upd_l g f l) = Some (T g (f ks0))
    /\ (forall e, In e (edges_l (upd_l g f l)) ->
          In e (edges_l l) \/ In e (edges_l (f ks0)) \/ (fst e = g /\ In (snd e) (map tid (f ks0)))).

Lemma upd_spec_lift g f l : Forall (upd_spec_t g f) l -> upd_spec_l g f l.
Proof.
  unfold upd_spec_l, find_l, upd_l. induction l as [|y r IH]; intros HF N ks0 Hf; [discriminate|].
  inversion HF as [|? ? Hy Hr]; subst. rewrite ids_l_cons in N.
  rewrite first_some_cons in Hf. simpl map.
  destruct (find_t g y) eqn:F.
  - inversion Hf; subst. clear Hf.
    assert (Ny : NoDup (ids_t y)) by (eapply NoDup_app_l; exact N).
    destruct (Hy Ny ks0 F) as [A [B C]].
    assert (Hg : In g (ids_t y)).
    { destruct (find_t_sub y g _ F) as [_ [D _]]. specialize (D g). rewrite ids_t_eq, cnt_cons in D.
      apply cnt_In. destruct (Z.eq_dec g g); [lia | congruence]. }
    assert (Hr' : ~ In g (ids_l r)).
    { intro Hx. apply NoDup_cnt with (x := g) in N. rewrite cnt_app in N. apply cnt_In in Hg. apply cnt_In in Hx. lia. }
    pose proof (upd_l_notin r g f Hr') as E. unfold upd_l in E. rewrite E.
    split; [|split].
    + intro x. rewrite !ids_l_cons, !cnt_app. specialize (A x). lia.
    + rewrite first_some_cons, B. reflexivity.
    + intros e He. rewrite edges_l_cons, in_app_iff in He. rewrite edges_l_cons, in_app_iff.
      destruct He as [He|He]; [|tauto]. destruct (C e He) as [H1|H1]; tauto.
  - assert (Nr : NoDup (ids_l r)) by (eapply NoDup_app_r; exact N).
    destruct (IH Hr Nr ks0 Hf) as [A [B C]].
    assert (Hy' : ~ In g (ids_t y)).
    { intro Hx. destruct (find_t_in y g Hx) as [u Hu]. congruence. }
    rewrite (upd_t_notin y g f Hy').
    split; [|split].
    + intro x. rewrite !ids_l_cons, !cnt_app. specialize (A x). lia.
    + rewrite first_some_cons, F. exact B.
    + intros e He. rewrite edges_l_cons, in_app_iff in He. rewrite edges_l_cons, in_app_iff.
      destruct He as [He|He]; [tauto|]. destruct (C e He) as [H1|H1]; tauto.
Qed.

Lemma upd_spec_all g f : forall t, upd_spec_t g f t.
Proof.
  apply tree_ind2. intros j ks IH N ks0 Hf.
  simpl find_t in Hf. simpl upd_t. destruct (j =? g) eqn:E.
  - apply Z.eqb_eq in E. subst j. inversion Hf; subst ks0. clear Hf.
    rewrite ids_t_eq in N. inversion N as [|? ? Hn Nk]; subst.
    pose proof (upd_l_notin ks g f Hn) as Eq. unfold upd_l in Eq. rewrite Eq.
    split; [|split].
    + intro x. rewrite !ids_t_eq, !cnt_cons. lia.
    + simpl. rewrite Z.eqb_refl. reflexivity.
    + intros e He. rewrite edges_t_eq, in_app_iff in He. destruct He as [He|He].
      * right. right. apply in_map_iff in He as [c [Hc Hin]]. subst e. simpl. split; [reflexivity|].
        apply in_map. exact Hin.
      * right. left. exact He.
  - rewrite ids_t_eq in N. inversion N as [|? ? Hn Nk]; subst.
    destruct (upd_spec_lift g f ks IH Nk ks0 Hf) as [A [B C]].
    split; [|split].
    + intro x. rewrite !ids_t_eq, !cnt_cons. specialize (A x). unfold upd_l in A. lia.
    + simpl. rewrite E. exact B.
    + intros e He. rewrite edges_t_eq, in_app_iff in He. rewrite edges_t_eq, in_app_iff.
      destruct He as [He|He].
      * left. left. apply in_map_iff in He as [c [Hc Hin]]. subst e.
        apply in_map_iff in Hin as [c0 [Hc0 Hin0]]. subst c. rewrite upd_t_tid.
        apply in_map_iff. exists c0. split; [reflexivity | exact Hin0].
      * destruct (C e He) as [H1|H1]; tauto.
Qed.

Lemma upd_l_spec g f l : upd_spec_l g f l.
Proof. apply upd_spec_lift. apply Forall_forall. intros t _. apply upd_spec_all. Qed.

(* ---------------------------------------------------------------- roots, children, unique parents *)
Lemma cnt_tids_le : forall l x, (cnt x (map tid l) <= cnt x (ids_l l))%nat.
Proof.
  induction l as [|y r IH]; intro x; [simpl; lia|].
  simpl map. rewrite ids_l_cons, cnt_cons, cnt_app. destruct y as [j ks]. simpl tid. rewrite ids_t_eq, cnt_cons.
  specialize (IH x). destruct (Z.eq_dec j x); lia.
Qed.
Lemma root_tids_NoDup l : NoDup (ids_l l) -> NoDup (map tid l).
Proof.
  intro N. apply NoDup_cnt. intro x. pose proof (cnt_tids_le l x). apply NoDup_cnt with (x := x) in N. lia.
Qed.

(* every id is a root or the target of exactly one edge *)
Definition b2n (b : bool) : nat := if b then 1%nat else 0%nat.
Lemma cnt_edges_ids_aux x l :
  Forall (fun t => (cnt x (map snd (edges_t t)) + (if Z.eq_dec (tid t) x then 1 else 0) = cnt x (ids_t t))%nat) l ->
  (cnt x (map snd (edges_l l)) + cnt x (map tid l) = cnt x (ids_l l))%nat.
Proof.
  induction 1 as [|y r Hy Hr IH]; [reflexivity|].
  rewrite edges_l_cons, map_app, cnt_app, ids_l_cons, cnt_app. cbn [map]. rewrite cnt_cons. lia.
Qed.
Lemma cnt_edges_ids_t : forall t x,
  (cnt x (map snd (edges_t t)) + (if Z.eq_dec (tid t) x then 1 else 0) = cnt x (ids_t t))%nat.
Proof.
  intros t x. revert t.
  apply (tree_ind2 (fun t =>
    (cnt x (map snd (edges_t t)) + (if Z.eq_dec (tid t) x then 1 else 0) = cnt x (ids_t t))%nat)).
  intros j ks IH. rewrite edges_t_eq, map_app, cnt_app, ids_t_eq, cnt_cons. cbn [tid].
  pose proof (cnt_edges_ids_aux x ks IH) as G.
  rewrite map_map. cbn [snd]. fold (map tid ks).
  replace (map (fun c => tid c) ks) with (map tid ks) by reflexivity. lia.
Qed.
Lemma cnt_edges_ids_l : forall l x,
  (cnt x (map snd (edges_l l)) + cnt x (map tid l) = cnt x (ids_l l))%nat.
Proof.
  intros l x. apply cnt_edges_ids_aux. apply Forall_forall. intros t _. apply cnt_edges_ids_t.
Qed.

Lemma cnt_snd_two (l : list (Z * Z)) a b c :
  In (a, c) l -> In (b, c) l -> a <> b -> (2 <= cnt c (map snd l))%nat.
Proof.
  induction l as [|[p q] r IH]; intros Ha Hb Hn; [contradiction|].
  simpl map. rewrite cnt_cons. simpl in Ha, Hb.
  destruct Ha as [Ha|Ha], Hb as [Hb|Hb].
  - inversion Ha; inversion Hb; subst. contradiction.
  - inversion Ha; subst. destruct (Z.eq_dec c c); [|congruence].
    assert (In c (map snd r)) by (apply in_map_iff; exists (b, c); auto). apply cnt_In in H. lia.
  - inversion Hb; subst. destruct (Z.eq_dec c c); [|congruence].
    assert (In c (map snd r)) by (apply in_map_iff; exists (a, c); auto). apply cnt_In in H. lia.
  - specialize (IH Ha Hb Hn). lia.
Qed.

Lemma unique_parent l a b c :
  NoDup (ids_l l) -> In (a, c) (edges_l l) -> In (b, c) (edges_l l) -> a = b.
Proof.
  intros N Ha Hb. destruct (Z.eq_dec a b) as [|Hn]; [assumption|]. exfalso.
  pose proof (cnt_snd_two _ a b c Ha Hb Hn). pose proof (cnt_edges_ids_l l c).
  apply NoDup_cnt with (x := c) in N. lia.
Qed.
Lemma root_not_child l a c : NoDup (ids_l l) -> In c (map tid l) -> ~ In (a, c) (edges_l l).
Proof.
  intros N Hr He. pose proof (cnt_edges_ids_l l c). apply NoDup_cnt with (x := c) in N.
  apply cnt_In in Hr. assert (In c (map snd (edges_l l))) by (apply in_map_iff; exists (a, c); auto).
  apply cnt_In in H0. lia.
Qed.
Lemma root_or_child l c : In c (ids_l l) -> In c (map tid l) \/ exists a, In (a, c) (edges_l l).
Proof.
  intro H. pose proof (cnt_edges_ids_l l c). apply cnt_In in H.
  destruct (cnt c (map tid l)) eqn:E.
  - right. assert (In c (map snd (edges_l l))) by (apply cnt_In; lia).
    apply in_map_iff in H1 as [[a c'] [Hc Hin]]. simpl in Hc. subst. eauto.
  - left. apply cnt_In. lia.
Qed.

(* children of the node found for g are exactly the targets of g's edges *)
Lemma kids_are_edges l g ks c : find_l g l = Some (T g ks) -> In c (map tid ks) -> In (g, c) (edges_l l).
Proof.
  intros F H. destruct (find_l_sub l g _ F) as [_ [_ E]]. apply E. rewrite edges_t_eq, in_app_iff. left.
  apply in_map_iff in H as [y [Hy Hin]]. subst. apply in_map_iff. exists y. auto.
Qed.

Lemma find_l_node l g u : find_l g l = Some u -> u = T g (tkids u).
Proof. intro F. destruct (find_l_sub l g u F) as [A _]. destruct u. simpl in *. congruence. Qed.

Lemma find_t_has : forall t g u, find_t g t = Some u -> In g (ids_t t).
Proof.
  intros t g u F. destruct (in_dec Z.eq_dec g (ids_t t)) as [|Hn]; [assumption|].
  rewrite (find_t_notin t g Hn) in F. discriminate.
Qed.

Definition eff_t (t : tree) : Prop :=
  NoDup (ids_t t) -> forall g ks c, find_t g t = Some (T g ks) -> In (g, c) (edges_t t) -> In c (map tid ks).

Lemma edge_from_found_aux l : Forall eff_t l ->
  NoDup (ids_l l) -> forall g ks c, find_l g l = Some (T g ks) -> In (g, c) (edges_l l) -> In c (map tid ks).
Proof.
  unfold find_l. induction 1 as [|y r Hy Hr IH]; intros N g ks c F He; [discriminate|].
  rewrite first_some_cons in F. rewrite ids_l_cons in N. rewrite edges_l_cons, in_app_iff in He.
  destruct (find_t g y) eqn:Fy.
  - inversion F; subst. pose proof (find_t_has y g _ Fy) as Hg.
    destruct He as [He|He].
    + apply (Hy (NoDup_app_l _ _ N) g ks c Fy He).
    + exfalso. pose proof (edges_l_in_ids r g c He) as [Hg' _].
      apply NoDup_cnt with (x := g) in N. rewrite cnt_app in N. apply cnt_In in Hg. apply cnt_In in Hg'. lia.
  - destruct He as [He|He].
    + exfalso. pose proof (edges_in_ids y g c He) as [Hg _]. destruct (find_t_in y g Hg) as [u Hu]. congruence.
    + apply (IH (NoDup_app_r _ _ N) g ks c F He).
Qed.

Lemma edge_from_found_t : forall t, eff_t t.
Proof.
  apply tree_ind2. intros j kk IH N g ks c F He.
  rewrite ids_t_eq in N. inversion N as [|? ? Hn Nk]; subst.
  simpl find_t in F. rewrite edges_t_eq, in_app_iff in He. destruct (j =? g) eqn:E.
  - apply Z.eqb_eq in E. subst j. inversion F; subst kk. destruct He as [He|He].
    + apply in_map_iff in He as [y [Hy Hi]]. inversion Hy; subst. apply in_map. exact Hi.
    + exfalso. apply Hn. apply (edges_l_in_ids ks g c He).
  - apply Z.eqb_neq in E. destruct He as [He|He].
    + apply in_map_iff in He as [y [Hy Hi]]. inversion Hy. congruence.
    + apply (edge_from_found_aux kk IH Nk g ks c F He).
Qed.

Lemma edge_from_found l g ks c :
  NoDup (ids_l l) -> find_l g l = Some (T g ks) -> In (g, c) (edges_l l) -> In c (map tid ks).
Proof.
  intros N F He. refine (edge_from_found_aux l _ N g ks c F He).
  apply Forall_forall. intros t _. apply edge_from_found_t.
Qed.

(* ---------------------------------------------------------------- dropping / adding roots *)
Lemma drop_roots_cons x y r :
  drop_roots [x] (y :: r) = if tid y =? x then drop_roots [x] r else y :: drop_roots [x] r.
Proof.
  unfold drop_roots. cbn [filter memz existsb]. rewrite orb_false_r.
  destruct (tid y =? x); reflexivity.
Qed.
Lemma drop_roots_none x l : ~ In x (map tid l) -> drop_roots [x] l = l.
Proof.
  induction l as [|y r IH]; intro H; [reflexivity|].
  rewrite drop_roots_cons. cbn [map In] in H. destruct (tid y =? x) eqn:E.
  - apply Z.eqb_eq in E. tauto.
  - f_equal. apply IH. tauto.
Qed.
Lemma drop_one l tx : NoDup (map tid l) -> In tx l ->
  (forall y, (cnt y (ids_l (drop_roots [tid tx] l)) + cnt y (ids_t tx) = cnt y (ids_l l))%nat)
  /\ (forall r, In r (map tid (drop_roots [tid tx] l)) <-> In r (map tid l) /\ r <> tid tx).
Proof.
  induction l as [|y r IH]; intros N H; [contradiction|].
  cbn [map] in N. inversion N as [|? ? Hn Nr]; subst. rewrite drop_roots_cons.
  destruct H as [H|H].
  - subst y. rewrite Z.eqb_refl. rewrite (drop_roots_none _ _ Hn). split.
    + intro y. rewrite ids_l_cons, cnt_app. lia.
    + intro q. cbn [map In]. split.
      * intro Hq. split; [right; exact Hq|]. intro E. subst. contradiction.
      * intros [[Hq|Hq] Hne]; [congruence | exact Hq].
  - destruct (tid y =? tid tx) eqn:E.
    + apply Z.eqb_eq in E. exfalso. apply Hn. rewrite E. apply in_map. exact H.
    + apply Z.eqb_neq in E. destruct (IH Nr H) as [A B]. split.
      * intro q. rewrite !ids_l_cons, !cnt_app. specialize (A q). lia.
      * intro q. cbn [map In]. rewrite B. split.
        -- intros [Hq|[Hq Hne]]; [split; [left; exact Hq | congruence] | split; [right; exact Hq | exact Hne]].
        -- intros [[Hq|Hq] Hne]; [left; exact Hq | right; split; assumption].
Qed.
Lemma drop_edges xs l e : In e (edges_l (drop_roots xs l)) -> In e (edges_l l).
Proof.
  unfold drop_roots, edges_l. rewrite !in_flat_map. intros [t [Ht He]]. apply filter_In in Ht as [Ht _]. eauto.
Qed.
Lemma find_l_drop x l g : (forall t, In t l -> tid t = x -> ~ In g (ids_t t)) ->
  find_l g (drop_roots [x] l) = find_l g l.
Proof.
  unfold find_l. induction l as [|y r IH]; intro H; [reflexivity|].
  rewrite drop_roots_cons, first_some_cons. destruct (tid y =? x) eqn:E.
  - apply Z.eqb_eq in E. rewrite (find_t_notin y g (H y (or_introl eq_refl) E)).
    apply IH. intros t Ht. apply H. right. exact Ht.
  - rewrite first_some_cons. destruct (find_t g y); [reflexivity|].
    apply IH. intros t Ht. apply H. right. exact Ht.
Qed.

Lemma add_roots_one d l : add_roots [d] l = if occ_l (tid d) l then l else l ++ [d].
Proof. reflexivity. Qed.

Lemma tid_inj_NoDup (l : list tree) a b : NoDup (map tid l) -> In a l -> In b l -> tid a = tid b -> a = b.
Proof.
  induction l as [|y r IH]; intros N Ha Hb E; [contradiction|].
  cbn [map] in N. inversion N as [|? ? Hn Nr]; subst.
  destruct Ha as [Ha|Ha], Hb as [Hb|Hb]; subst.
  - reflexivity.
  - exfalso. apply Hn. rewrite E. apply in_map. exact Hb.
  - exfalso. apply Hn. rewrite <- E. apply in_map. exact Ha.
  - apply IH; assumption.
Qed.

Lemma desc_t_noclips (cl : Z -> list Z) : (forall i, cl i = []) -> forall t, desc_t cl t = ids_t t.
Proof.
  intro H. apply tree_ind2. intros j ks IH. simpl. rewrite H, app_nil_r. f_equal.
  induction ks as [|y r IHr]; [reflexivity|]. inversion IH; subst. simpl. rewrite H2, IHr by assumption. reflexivity.
Qed.

(* ---------------------------------------------------------------- the part of the forest below a node is closed *)
Lemma below_closed_up l g ks a c :
  NoDup (ids_l l) -> find_l g l = Some (T g ks) -> In (a, c) (edges_l l) -> In c (ids_l ks) ->
  a = g \/ In a (ids_l ks).
Proof.
  intros N F He Hc. destruct (find_l_sub _ _ _ F) as [_ [_ Sub]].
  destruct (root_or_child ks c Hc) as [Hr|[b Hb]].
  - left. apply (unique_parent l a g c N He). apply (kids_are_edges _ _ _ _ F). exact Hr.
  - right. assert (Hb' : In (b, c) (edges_l l)) by (apply Sub; rewrite edges_t_eq, in_app_iff; right; exact Hb).
    rewrite (unique_parent l a b c N He Hb'). apply (edges_l_in_ids ks b c Hb).
Qed.

Lemma below_closed_down l g ks a c :
  NoDup (ids_l l) -> find_l g l = Some (T g ks) -> In (a, c) (edges_l l) -> In a (ids_l ks) ->
  In c (ids_l ks).
Proof.
  intros N F He Ha. destruct (in_dec Z.eq_dec c (ids_l ks)) as [|Hn]; [assumption|]. exfalso.
  destruct (upd_l_spec g (fun _ => []) l N ks F) as [A [_ C]].
  set (l' := upd_l g (fun _ => []) l) in *.
  pose proof (edges_l_in_ids l a c He) as [_ Hc].
  assert (Hc' : In c (ids_l l')).
  { apply cnt_In. specialize (A c). cbn [ids_l flat_map] in A. rewrite cnt_nil in A.
    apply cnt_notin in Hn. apply cnt_In in Hc. lia. }
  assert (Hnr : ~ In c (map tid l')).
  { unfold l'. rewrite upd_l_tids. intro Hr. exact (root_not_child l a c N Hr He). }
  destruct (root_or_child l' c Hc') as [Hr|[b Hb]]; [contradiction|].
  assert (Hb' : In (b, c) (edges_l l)).
  { destruct (C _ Hb) as [H1|[H1|[_ H1]]]; [exact H1 | simpl in H1; contradiction | simpl in H1; contradiction]. }
  pose proof (unique_parent l a b c N He Hb'). subst b.
  pose proof (edges_l_in_ids l' a c Hb) as [Ha' _].
  specialize (A a). cbn [ids_l flat_map] in A. rewrite cnt_nil in A.
  apply cnt_In in Ha. apply cnt_In in Ha'. apply NoDup_cnt with (x := a) in N. lia.
Qed.

Lemma node_not_below l g ks : NoDup (ids_l l) -> find_l g l = Some (T g ks) -> ~ In g (ids_l ks).
Proof.
  intros N F H. destruct (find_l_sub _ _ _ F) as [_ [Sub _]]. specialize (Sub g).
  rewrite ids_t_eq, cnt_cons in Sub. apply cnt_In in H. apply NoDup_cnt with (x := g) in N.
  destruct (Z.eq_dec g g); [lia | congruence].
Qed.

Lemma filter_eqb_cnt x : forall l, length (filter (Z.eqb x) l) = cnt x l.
Proof.
  induction l as [|y r IH]; [reflexivity|]. cbn [filter]. rewrite cnt_cons. destruct (x =? y) eqn:E.
  - apply Z.eqb_eq in E. subst. destruct (Z.eq_dec y y); [|congruence]. cbn [length]. rewrite IH. reflexivity.
  - apply Z.eqb_neq in E. destruct (Z.eq_dec y x); [congruence|]. exact IH.
Qed.
