(* Edit/ProofsTree.v -- consequences of the invariant: traversal without repetition, the document
   pointer of every layer below a document, histories. *)
From PsdV Require Import Base.Prelude Edit.Model Edit.Inv Edit.Forest Edit.ProofsInv.
Open Scope Z_scope.

(* ---------------------------------------------------------------- traversal *)
Lemma traversal_once s g : Inv s -> quiet s ->
  descendants s g = ids_l (kids_of s g) /\ NoDup (descendants s g).
Proof.
  intros HI Q. split; [apply descendants_quiet, Q|]. rewrite (descendants_quiet s g Q).
  pose proof (inv_nodup s HI) as N.
  destruct (in_dec Z.eq_dec g (ids_l (roots s))) as [Hin|Hn].
  - pose proof (found_node s g Hin) as F. destruct (find_l_sub _ _ _ F) as [_ [Sub _]].
    apply NoDup_cnt. intro x. specialize (Sub x). rewrite ids_t_eq, cnt_cons in Sub.
    apply NoDup_cnt with (x := x) in N. destruct (Z.eq_dec g x); lia.
  - rewrite (kids_of_notin s g Hn). constructor.
Qed.

(* every id below g is reached: the traversal covers exactly the listed layers *)
Lemma traversal_covers s g x : Inv s -> quiet s ->
  (In x (descendants s g) <-> In x (ids_l (kids_of s g))).
Proof. intros HI Q. rewrite (descendants_quiet s g Q). tauto. Qed.

(* find(name of x) / findall: x is met exactly once when it is below g, never otherwise *)
Lemma find_once s g x : Inv s -> quiet s ->
  count_z x (descendants s g) = if memz x (ids_l (kids_of s g)) then 1 else 0.
Proof.
  intros HI Q. destruct (traversal_once s g HI Q) as [E N]. rewrite <- E.
  unfold count_z, zlen. rewrite filter_eqb_cnt. apply NoDup_cnt with (x := x) in N.
  destruct (memz x (descendants s g)) eqn:M.
  - apply memz_In, cnt_In in M. assert (cnt x (descendants s g) = 1%nat) by lia. rewrite H. reflexivity.
  - apply memz_false_notin, cnt_notin in M. rewrite M. reflexivity.
Qed.

(* ---------------------------------------------------------------- every layer below a document reports it *)
Lemma I3_global s d x : Inv s -> kind s d = KDoc -> In x (ids_l (kids_of s d)) -> opsd (objs s x) = Some d.
Proof.
  intros HI Kd Hx. pose proof (inv_nodup s HI) as N.
  destruct (in_dec Z.eq_dec d (ids_l (roots s))) as [Hin|Hn]; [|rewrite (kids_of_notin s d Hn) in Hx; contradiction].
  pose proof (found_node s d Hin) as F. destruct (find_l_sub _ _ _ F) as [_ [_ Sub]].
  destruct HI as [_ [_ [H3 [Hk _]]]]. unfold I3 in H3. rewrite Forall_forall in H3, Hk.
  (* induction on the subtree below d *)
  assert (G : forall ks, (forall e, In e (edges_l ks) -> In e (edges_l (roots s))) ->
             (forall c, In c (map tid ks) -> opsd (objs s c) = Some d /\ kind s c <> KDoc) ->
             forall y, In y (ids_l ks) -> opsd (objs s y) = Some d).
  { intro ks. induction ks as [|t r IHr]; intros HE HR y Hy; [contradiction|].
    rewrite ids_l_cons, in_app_iff in Hy. destruct Hy as [Hy|Hy].
    - (* inside the tree t *)
      clear IHr. assert (Ht : opsd (objs s (tid t)) = Some d /\ kind s (tid t) <> KDoc) by (apply HR; left; reflexivity).
      assert (HEt : forall e, In e (edges_t t) -> In e (edges_l (roots s))).
      { intros e He. apply HE. rewrite edges_l_cons, in_app_iff. left. exact He. }
      clear HE HR. revert y Hy Ht HEt.
      apply (tree_ind2 (fun t => forall y, In y (ids_t t) ->
               opsd (objs s (tid t)) = Some d /\ kind s (tid t) <> KDoc ->
               (forall e, In e (edges_t t) -> In e (edges_l (roots s))) -> opsd (objs s y) = Some d)).
      intros j kk IH y Hy [Pj Kj] HEt. rewrite ids_t_eq in Hy. destruct Hy as [<-|Hy]; [exact Pj|].
      cbn [tid] in *. apply In_ids_l in Hy as [c [Hc Hyc]]. rewrite Forall_forall in IH.
      apply (IH c Hc y Hyc).
      + assert (He : In (j, tid c) (edges_l (roots s))).
        { apply HEt. rewrite edges_t_eq, in_app_iff. left. apply in_map_iff. exists c. auto. }
        pose proof (H3 _ He) as P. unfold psd_ok in P. apply Z.eqb_neq in Kj. rewrite Kj, Pj in P.
        split; [exact P|]. destruct (Hk _ He) as [_ L]. unfold is_layer in L. cbn [snd] in L.
        intro K. rewrite K in L. discriminate.
      + intros e He. apply HEt. rewrite edges_t_eq, in_app_iff. right. unfold edges_l. apply in_flat_map. exists c. auto.
    - apply IHr; [| |exact Hy].
      + intros e He. apply HE. rewrite edges_l_cons, in_app_iff. right. exact He.
      + intros c Hc. apply HR. right. exact Hc. }
  apply (G (kids_of s d)); [| |exact Hx].
  - intros e He. apply Sub. rewrite edges_t_eq, in_app_iff. right. exact He.
  - intros c Hc. pose proof (kids_are_edges _ _ _ _ F Hc) as He. pose proof (H3 _ He) as P.
    unfold psd_ok in P. apply Z.eqb_eq in Kd. rewrite Kd in P. split; [exact P|].
    destruct (Hk _ He) as [_ L]. unfold is_layer in L. cbn [snd] in L. intro K. rewrite K in L. discriminate.
Qed.

(* every listed child reports its lister *)
Lemma I1_parent s g c : Inv s -> In c (kid_ids s g) -> In g (ids_l (roots s)) -> oparent (objs s c) = Some g.
Proof.
  intros HI Hc Hg. pose proof (kids_are_edges _ _ _ _ (found_node s g Hg) Hc) as He.
  destruct HI as [H1 _]. unfold I1 in H1. rewrite Forall_forall in H1. apply (H1 _ He).
Qed.

(* ---------------------------------------------------------------- histories *)
Fixpoint guards (s : state) (h : list op) : Prop :=
  match h with
  | [] => True
  | o :: r => guard s o /\ guards (fst (step s o)) r
  end.

Lemma run_cons s o r : run s (o :: r) = run (fst (step s o)) r.
Proof. reflexivity. Qed.

Theorem run_good : forall h s, Good s -> guards s h -> Good (run s h).
Proof.
  induction h as [|o r IH]; intros s G Hg; [exact G|].
  destruct Hg as [G0 Gr]. rewrite run_cons. apply IH; [|exact Gr].
  destruct (step_ok s o G G0) as [G1 _]. exact G1.
Qed.

(* the variants the theorems cover: "clip stacks recomputed after edits" (edc9f34) only together with
   "descendants() ignores clip_layers" (b1bb75f), which is the order in which /repo received them *)
Definition cfg_ok (c : cfg) : Prop := descfix c = true \/ clipsfix c = false.

Lemma empty_good c : cfg_ok c -> Good (empty_state_v c).
Proof.
  intro Hc. split.
  - unfold Inv, I1, I2, I3, W, empty_state_v. cbn. repeat split; try constructor; try lia; try contradiction.
  - destruct Hc as [D|E]; [left; exact D | right; split; [exact E | reflexivity]].
Qed.

Theorem reachable_good c h : cfg_ok c -> guards (empty_state_v c) h -> Good (run (empty_state_v c) h).
Proof. intros Hc Hg. apply run_good; [apply empty_good, Hc | exact Hg]. Qed.

(* ---------------------------------------------------------------- the guard as a boolean (for computed examples) *)
Definition alloc_okb s (x : Z) : bool := (0 <=? x) && (x <? next s).
Definition rootidb s (x : Z) : bool := memz x (map tid (roots s)).
Definition guardb s (o : op) : bool :=
  forallb (alloc_okb s) (op_ids o) &&
  match o with
  | Append _ x | Insert _ _ x | SetItem _ _ x => rootidb s x
  | Extend g xs => forallb (rootidb s) xs && nodupb xs && (selffix (conf s) || negb (memz g xs))
  | SetClip _ _ => descfix (conf s)
  | _ => true
  end.
Fixpoint guardsb (s : state) (h : list op) : bool :=
  match h with
  | [] => true
  | o :: r => guardb s o && guardsb (fst (step s o)) r
  end.

Lemma guardb_ok s o : guardb s o = true -> guard s o.
Proof.
  unfold guardb, guard. rewrite andb_true_iff. intros [A B]. split.
  - apply Forall_forall. intros x Hx. rewrite forallb_forall in A. specialize (A x Hx).
    unfold alloc_okb in A. rewrite andb_true_iff, Z.leb_le, Z.ltb_lt in A. exact A.
  - destruct o; try exact I; try (apply memz_In; exact B); try exact B.
    rewrite !andb_true_iff in B. destruct B as [[B1 B2] B3]. split; [|split].
    + apply Forall_forall. intros y Hy. rewrite forallb_forall in B1. apply memz_In. apply B1. exact Hy.
    + apply nodupb_NoDup. exact B2.
    + rewrite orb_true_iff in B3. destruct B3 as [B3|B3]; [left; exact B3 | right].
      apply negb_true_iff in B3. apply memz_false_notin. exact B3.
Qed.
Lemma guardsb_ok : forall h s, guardsb s h = true -> guards s h.
Proof.
  induction h as [|o r IH]; intros s H; [exact I|]. simpl in H. apply andb_true_iff in H as [A B].
  split; [apply guardb_ok, A | apply IH, B].
Qed.
