(* Edit/ProofsInv.v -- the invariant Inv is preserved by every operation of the edit
   state machine (inside the guard), for every code variant. *)
From PsdV Require Import Base.Prelude Edit.Model Edit.Inv Edit.Forest.
Open Scope Z_scope.

(* ---------------------------------------------------------------- states that agree on what Inv reads *)
Record ptr_same (s s' : state) : Prop := mkPS {
  ps_roots : roots s' = roots s;
  ps_next : next s' = next s;
  ps_corrupt : corrupt s' = corrupt s;
  ps_conf : conf s' = conf s;
  ps_kind : forall i, okind (objs s' i) = okind (objs s i);
  ps_parent : forall i, oparent (objs s' i) = oparent (objs s i);
  ps_psd : forall i, opsd (objs s' i) = opsd (objs s i)
}.

Lemma ptr_same_refl s : ptr_same s s.
Proof. constructor; auto. Qed.
Lemma ptr_same_trans a b c : ptr_same a b -> ptr_same b c -> ptr_same a c.
Proof.
  intros [A1 A2 A3 A4 A5 A6 A7] [B1 B2 B3 B4 B5 B6 B7].
  constructor; intros; first [congruence | rewrite B5; apply A5 | rewrite B6; apply A6 | rewrite B7; apply A7].
Qed.

Lemma ptr_same_kind s s' i : ptr_same s s' -> kind s' i = kind s i.
Proof. intro H. unfold kind. apply (ps_kind _ _ H). Qed.
Lemma ptr_same_container s s' i : ptr_same s s' -> is_container s' i = is_container s i.
Proof. intro H. unfold is_container. rewrite (ptr_same_kind _ _ i H). reflexivity. Qed.
Lemma ptr_same_layer s s' i : ptr_same s s' -> is_layer s' i = is_layer s i.
Proof. intro H. unfold is_layer. rewrite (ptr_same_kind _ _ i H). reflexivity. Qed.

Lemma Forall_ext_in {A} (P Q : A -> Prop) l : (forall a, P a -> Q a) -> Forall P l -> Forall Q l.
Proof. intros H F. eapply Forall_impl; [exact H | exact F]. Qed.

Lemma ptr_same_inv s s' : ptr_same s s' -> Inv s -> Inv s'.
Proof.
  intros H [H1 [H2 [H3 [H4 [H5 [H6 [H7 H8]]]]]]].
  pose proof (ps_roots _ _ H) as R. pose proof (ps_next _ _ H) as Nx.
  assert (G1 : I1 s').
  { unfold I1 in *. rewrite R. eapply Forall_impl; [|exact H1]. intros e He. unfold parent_ok in *.
    rewrite (ps_parent _ _ H). exact He. }
  assert (G2 : I2 s') by (unfold I2 in *; rewrite R; exact H2).
  assert (G3 : I3 s').
  { unfold I3 in *. rewrite R. eapply Forall_impl; [|exact H3]. intros [g c] He. unfold psd_ok in *.
    rewrite (ptr_same_kind _ _ g H), !(ps_psd _ _ H). exact He. }
  assert (G4 : W s').
  { unfold W. rewrite R, Nx, (ps_corrupt _ _ H). split; [|split; [|split; [|split]]].
    - eapply Forall_impl; [|exact H4]. intros e [A B]. unfold kinds_ok.
      rewrite (ptr_same_container _ _ _ H), (ptr_same_layer _ _ _ H). auto.
    - exact H5.
    - exact H6.
    - unfold all_ids. rewrite Nx. eapply Forall_impl; [|exact H7]. intros i Hi. unfold parent_alloc in *.
      rewrite (ps_parent _ _ H), Nx. exact Hi.
    - exact H8. }
  exact (conj G1 (conj G2 (conj G3 G4))).
Qed.

(* field-preserving object updates *)
Definition keeps_ptrs (f : obj -> obj) : Prop :=
  forall o, okind (f o) = okind o /\ oparent (f o) = oparent o /\ opsd (f o) = opsd o.
Lemma keeps_cache c : keeps_ptrs (with_cache c). Proof. intro o. auto. Qed.
Lemma keeps_dirty c : keeps_ptrs (with_dirty c). Proof. intro o. auto. Qed.
Lemma keeps_vis c : keeps_ptrs (with_vis c). Proof. intro o. auto. Qed.
Lemma keeps_rect c : keeps_ptrs (with_rect c). Proof. intro o. auto. Qed.
Lemma keeps_clips c : keeps_ptrs (with_clips c). Proof. intro o. auto. Qed.
Lemma keeps_clipf c : keeps_ptrs (with_clipf c). Proof. intro o. auto. Qed.

Lemma mod_obj_ptr s i f : keeps_ptrs f -> ptr_same s (mod_obj s i f).
Proof.
  intro K. constructor; try reflexivity; intro j; unfold mod_obj, set_objs, upd; simpl;
    destruct (j =? i) eqn:E; try reflexivity; apply Z.eqb_eq in E; subst; apply K.
Qed.
Lemma map_objs_ptr s l f : keeps_ptrs f -> ptr_same s (map_objs s l f).
Proof.
  intro K. constructor; try reflexivity; intro j; unfold map_objs, set_objs; simpl;
    destruct (memz j l); try reflexivity; apply K.
Qed.

Lemma fold_mod_ptr {A} (g : A -> Z) (h : A -> obj -> obj) (l : list A) s :
  (forall a, keeps_ptrs (h a)) -> ptr_same s (fold_left (fun st a => mod_obj st (g a) (h a)) l s).
Proof.
  intro K. revert s. induction l as [|a r IH]; intro s; [apply ptr_same_refl|].
  simpl. eapply ptr_same_trans; [apply mod_obj_ptr, K | apply IH].
Qed.

Lemma compute_clipping_ptr s d : ptr_same s (compute_clipping s d).
Proof.
  unfold compute_clipping. eapply ptr_same_trans; [apply map_objs_ptr, keeps_clips|].
  apply (fold_mod_ptr fst (fun a => with_clips (snd a))). intro a. apply keeps_clips.
Qed.

Lemma inval_up_ptr fuel : forall s x, ptr_same s (inval_up fuel s x).
Proof.
  induction fuel as [|f IH]; intros s x; [apply ptr_same_refl|].
  simpl. set (s1 := if is_container s x then mod_obj s x (with_cache None) else s).
  assert (P1 : ptr_same s s1) by (unfold s1; destruct (is_container s x); [apply mod_obj_ptr, keeps_cache | apply ptr_same_refl]).
  destruct (oparent (objs s x)); [|exact P1]. eapply ptr_same_trans; [exact P1 | apply IH].
Qed.
Lemma inval_ptr fuel : forall s x, ptr_same s (fst (inval fuel s x)).
Proof.
  induction fuel as [|f IH]; intros s x; [apply ptr_same_refl|].
  simpl. set (s1 := if is_container s x then mod_obj s x (with_cache None) else s).
  assert (P1 : ptr_same s s1) by (unfold s1; destruct (is_container s x); [apply mod_obj_ptr, keeps_cache | apply ptr_same_refl]).
  destruct (oparent (objs s x)); [|exact P1]. destruct (kind s z =? KGroup); [|exact P1].
  eapply ptr_same_trans; [exact P1 | apply IH].
Qed.
Lemma invalidate_ptr s x : ptr_same s (fst (invalidate s x)).
Proof. unfold invalidate. destruct (cachefix (conf s)); [apply inval_up_ptr | apply inval_ptr]. Qed.
Lemma inval_below_ptr s g : ptr_same s (inval_below s g).
Proof. apply map_objs_ptr, keeps_cache. Qed.

Lemma mark_dirty_ptr s g : ptr_same s (mark_dirty s g).
Proof.
  unfold mark_dirty. set (s0 := if cachefix (conf s) then inval_up (fuel_of s) s g else s).
  assert (P0 : ptr_same s s0) by (unfold s0; destruct (cachefix (conf s)); [apply inval_up_ptr | apply ptr_same_refl]).
  destruct (eff_psd s0 g); [|exact P0].
  eapply ptr_same_trans; [exact P0|].
  destruct (clipsfix (conf s)).
  - eapply ptr_same_trans; [apply mod_obj_ptr, keeps_dirty | apply compute_clipping_ptr].
  - apply mod_obj_ptr, keeps_dirty.
Qed.

Lemma read_bbox_ptr s g : ptr_same s (fst (read_bbox s g)).
Proof.
  unfold read_bbox. destruct (ocache (objs s g)); [apply ptr_same_refl|].
  destruct (fresh_bbox s g); [apply mod_obj_ptr, keeps_cache | apply ptr_same_refl].
Qed.
Lemma repr_touch_ptr s x : ptr_same s (fst (repr_touch s x)).
Proof.
  unfold repr_touch. destruct (kind s x =? KGroup); [|apply ptr_same_refl].
  pose proof (read_bbox_ptr s x). destruct (read_bbox s x) as [s1 [b|]]; exact H.
Qed.
Lemma fail_fmt_ptr xs : forall s c, ptr_same s (fst (fail_fmt s xs c)).
Proof.
  induction xs as [|x r IH]; intros s c; [apply ptr_same_refl|].
  simpl. pose proof (repr_touch_ptr s x) as P. destruct (repr_touch s x) as [s1 [|]]; simpl in P.
  - eapply ptr_same_trans; [exact P | apply IH].
  - exact P.
Qed.
Lemma check_fail_ptr s g bad : ptr_same s (fst (check_fail s g bad)).
Proof.
  unfold check_fail. destruct bad as [x|]; [|apply ptr_same_refl].
  destruct (x =? g); apply fail_fmt_ptr.
Qed.

(* ---------------------------------------------------------------- subtree / kids_of *)
Lemma inv_nodup s : Inv s -> NoDup (ids_l (roots s)).
Proof. intros [_ [H _]]. exact H. Qed.

Lemma kids_of_found s g ks : find_l g (roots s) = Some (T g ks) -> kids_of s g = ks.
Proof. intro F. unfold kids_of, subtree. rewrite F. reflexivity. Qed.
Lemma kids_of_notin s g : ~ In g (ids_l (roots s)) -> kids_of s g = [].
Proof. intro H. unfold kids_of, subtree. rewrite find_l_notin by exact H. reflexivity. Qed.
Lemma found_node s g : In g (ids_l (roots s)) -> find_l g (roots s) = Some (T g (kids_of s g)).
Proof.
  intro H. destruct (find_l_in _ _ H) as [u F]. pose proof (find_l_node _ _ _ F) as E.
  unfold kids_of, subtree. rewrite F. rewrite E at 1. reflexivity.
Qed.
Lemma subtree_root s t : NoDup (ids_l (roots s)) -> In t (roots s) -> subtree s (tid t) = t.
Proof. intros N H. unfold subtree. rewrite (find_l_root _ _ N H). reflexivity. Qed.

(* ---------------------------------------------------------------- forest changes that keep Inv *)
Lemma inv_forest_change s s' : Inv s -> objs s' = objs s -> next s' = next s -> corrupt s' = corrupt s ->
  (forall y, cnt y (ids_l (roots s')) = cnt y (ids_l (roots s))) ->
  (forall e, In e (edges_l (roots s')) -> In e (edges_l (roots s))) -> Inv s'.
Proof.
  intros [H1 [H2 [H3 [H4 [H5 [H6 [H7 H8]]]]]]] Ho Hn Hc Hcnt Hed.
  unfold Inv, I1, I2, I3, W in *.
  rewrite Forall_forall in H1, H3, H4, H7.
  split; [|split; [|split; [|split; [|split; [|split; [|split; [|rewrite Hn; exact H8]]]]]]].
  - apply Forall_forall. intros e He. specialize (H1 e (Hed e He)). unfold parent_ok in *. rewrite Ho. exact H1.
  - eapply cnt_same_NoDup; [exact Hcnt | exact H2].
  - apply Forall_forall. intros [g c] He. specialize (H3 _ (Hed _ He)). unfold psd_ok, kind in *. rewrite !Ho. exact H3.
  - apply Forall_forall. intros e He. specialize (H4 e (Hed e He)).
    unfold kinds_ok, is_container, is_layer, kind in *. rewrite !Ho. exact H4.
  - intro i. rewrite (cnt_same_In _ _ Hcnt), Hn. apply H5.
  - rewrite Hc. exact H6.
  - apply Forall_forall. unfold all_ids in *. rewrite Hn. intros i Hi. specialize (H7 i Hi).
    unfold parent_alloc in *. rewrite Ho, Hn. exact H7.
Qed.

(* ---------------------------------------------------------------- detach_at *)
Lemma detach_at_facts s g k : NoDup (ids_l (roots s)) ->
  objs (detach_at s g k) = objs s /\ next (detach_at s g k) = next s
  /\ corrupt (detach_at s g k) = corrupt s /\ conf (detach_at s g k) = conf s
  /\ (forall y, cnt y (ids_l (roots (detach_at s g k))) = cnt y (ids_l (roots s)))
  /\ (forall e, In e (edges_l (roots (detach_at s g k))) -> In e (edges_l (roots s)))
  /\ (forall r, In r (map tid (roots s)) -> In r (map tid (roots (detach_at s g k))))
  /\ (forall d, nth_error (kids_of s g) k = Some d -> In d (roots (detach_at s g k))).
Proof.
  intro N. unfold detach_at. destruct (nth_error (kids_of s g) k) as [d|] eqn:E.
  2:{ repeat split; auto. intros d Hd. discriminate. }
  assert (Hg : In g (ids_l (roots s))).
  { destruct (in_dec Z.eq_dec g (ids_l (roots s))) as [|Hn]; [assumption|].
    rewrite (kids_of_notin s g Hn) in E. destruct k; discriminate. }
  pose proof (found_node s g Hg) as F. set (ks := kids_of s g) in *.
  destruct (upd_l_spec g (fun ks => del_nth ks k) (roots s) N ks F) as [A [B C]].
  set (rs1 := upd_l g (fun ks => del_nth ks k) (roots s)) in *.
  assert (A' : forall y, (cnt y (ids_l rs1) + cnt y (ids_t d) = cnt y (ids_l (roots s)))%nat).
  { intro y. specialize (A y). pose proof (cnt_del_nth y ks k d E). lia. }
  assert (Hocc : occ_l (tid d) rs1 = false).
  { destruct (occ_l (tid d) rs1) eqn:O; [|reflexivity]. exfalso. apply occ_l_In, cnt_In in O.
    specialize (A' (tid d)). pose proof (tid_in_ids d) as Hd. apply cnt_In in Hd.
    apply NoDup_cnt with (x := tid d) in N. lia. }
  unfold set_roots. cbn [roots objs next corrupt conf]. fold rs1. rewrite add_roots_one, Hocc.
  split; [reflexivity|]. split; [reflexivity|]. split; [reflexivity|]. split; [reflexivity|].
  split; [|split; [|split]].
  - intro y. rewrite ids_l_app, cnt_app. cbn [ids_l flat_map]. rewrite app_nil_r. apply A'.
  - intros e He. rewrite edges_l_app, in_app_iff in He. destruct He as [He|He].
    + destruct (C e He) as [H1|[H1|[H1 H2]]]; [exact H1 | |].
      * destruct (find_l_sub _ _ _ F) as [_ [_ Sub]]. apply Sub. rewrite edges_t_eq, in_app_iff. right.
        apply (edges_del_nth e ks k H1).
      * destruct e as [a c]. simpl in H1, H2. subst a.
        apply (kids_are_edges _ _ _ _ F). apply (tids_del_nth c ks k H2).
    + cbn [edges_l flat_map] in He. rewrite app_nil_r in He.
      destruct (find_l_sub _ _ _ F) as [_ [_ Sub]]. apply Sub. rewrite edges_t_eq, in_app_iff. right.
      unfold edges_l. apply in_flat_map. exists d. split; [|exact He]. apply nth_error_In with (n := k). exact E.
  - intros r Hr. rewrite map_app, in_app_iff. left. unfold rs1. rewrite upd_l_tids. exact Hr.
  - intros d' Hd'. inversion Hd'; subst. apply in_or_app. right. left. reflexivity.
Qed.

Lemma detach_at_inv s g k : Inv s -> Inv (detach_at s g k).
Proof.
  intro H. destruct (detach_at_facts s g k (inv_nodup s H)) as [A [B [C [D [E [F _]]]]]].
  apply (inv_forest_change s); auto.
Qed.
Lemma detach_n_inv n : forall s g, Inv s -> Inv (detach_n s g n).
Proof. induction n as [|n IH]; intros s g H; [exact H|]. simpl. apply IH. apply detach_at_inv. exact H. Qed.
Lemma detach_all_inv s g : Inv s -> Inv (detach_all s g).
Proof. apply detach_n_inv. Qed.

(* ---------------------------------------------------------------- clip lists do not matter *)
Definition quiet s : Prop :=
  descfix (conf s) = true \/ (clipsfix (conf s) = false /\ forall i, oclips (objs s i) = []).
Lemma quiet_clips_of s i : quiet s -> clips_of s i = [].
Proof.
  unfold clips_of. intros [H|[_ H]]; [rewrite H; reflexivity | destruct (descfix (conf s)); [reflexivity | apply H]].
Qed.
Lemma descendants_quiet s g : quiet s -> descendants s g = ids_l (kids_of s g).
Proof.
  intro Q. unfold descendants, ids_l. apply flat_map_ext. intro t.
  apply desc_t_noclips. intro i. apply quiet_clips_of. exact Q.
Qed.

(* ---------------------------------------------------------------- attach1 *)
Lemma attach1_facts s g k tx :
  NoDup (ids_l (roots s)) -> In tx (roots s) -> In g (ids_l (roots s)) -> ~ In g (ids_t tx) ->
  objs (attach1 s g k (tid tx)) = objs s /\ next (attach1 s g k (tid tx)) = next s
  /\ corrupt (attach1 s g k (tid tx)) = corrupt s /\ conf (attach1 s g k (tid tx)) = conf s
  /\ (forall y, cnt y (ids_l (roots (attach1 s g k (tid tx)))) = cnt y (ids_l (roots s)))
  /\ (forall e, In e (edges_l (roots (attach1 s g k (tid tx)))) -> In e (edges_l (roots s)) \/ e = (g, tid tx))
  /\ (forall r, In r (map tid (roots (attach1 s g k (tid tx)))) <-> In r (map tid (roots s)) /\ r <> tid tx)
  /\ kid_ids (attach1 s g k (tid tx)) g = map tid (splice (kids_of s g) k [tx]).
Proof.
  intros N Htx Hg Hng. unfold attach1. rewrite (subtree_root s tx N Htx).
  pose proof (found_node s g Hg) as F. set (ks := kids_of s g) in *.
  set (f := fun ks0 : list tree => splice ks0 k [tx]).
  destruct (upd_l_spec g f (roots s) N ks F) as [A [B C]].
  set (rs1 := upd_l g f (roots s)) in *.
  assert (Htx1 : In tx rs1).
  { unfold rs1, upd_l. rewrite <- (upd_t_notin tx g f Hng). apply in_map. exact Htx. }
  assert (Nt : NoDup (map tid rs1)) by (unfold rs1; rewrite upd_l_tids; apply root_tids_NoDup; exact N).
  destruct (drop_one rs1 tx Nt Htx1) as [D1 D2].
  assert (A1 : forall y, (cnt y (ids_l rs1) = cnt y (ids_l (roots s)) + cnt y (ids_t tx))%nat).
  { intro y. specialize (A y). unfold f in A. rewrite cnt_splice in A. cbn [ids_l flat_map] in A. rewrite app_nil_r in A. lia. }
  unfold set_roots. cbn [roots objs next corrupt conf].
  split; [reflexivity|]. split; [reflexivity|]. split; [reflexivity|]. split; [reflexivity|].
  split; [|split; [|split]].
  - intro y. specialize (D1 y). specialize (A1 y). lia.
  - intros e He. apply drop_edges in He. destruct (find_l_sub _ _ _ F) as [_ [_ Sub]].
    destruct (C e He) as [H1|[H1|[H1 H2]]].
    + left. exact H1.
    + left. unfold f in H1. apply edges_splice in H1 as [H1|H1].
      * apply Sub. rewrite edges_t_eq, in_app_iff. right. exact H1.
      * cbn [edges_l flat_map] in H1. rewrite app_nil_r in H1.
        unfold edges_l. apply in_flat_map. exists tx. auto.
    + destruct e as [a c]. simpl in H1, H2. subst a. unfold f in H2. apply tids_splice in H2 as [H2|H2].
      * left. apply (kids_are_edges _ _ _ _ F). exact H2.
      * right. simpl in H2. destruct H2 as [H2|[]]. subst. reflexivity.
  - intro r. rewrite D2. unfold rs1. rewrite upd_l_tids. tauto.
  - unfold kid_ids, kids_of, subtree. cbn [roots].
    rewrite find_l_drop.
    + fold rs1. rewrite B. reflexivity.
    + intros t Ht Et. fold rs1 in Ht.
      assert (t = tx) by (apply (tid_inj_NoDup rs1); assumption). subst. exact Hng.
Qed.

(* ---------------------------------------------------------------- Inv except for the edges that leave g *)
Definition InvG s (g : Z) : Prop :=
  Forall (fun e => fst e = g \/ parent_ok s e) (edges_l (roots s)) /\ I2 s
  /\ Forall (fun e => fst e = g \/ psd_ok s e) (edges_l (roots s)) /\ W s.

Lemma inv_invG s g : Inv s -> InvG s g.
Proof.
  intros [H1 [H2 [H3 H4]]]. split; [|split; [exact H2|split; [|exact H4]]].
  - eapply Forall_impl; [|exact H1]. intros e He. right. exact He.
  - eapply Forall_impl; [|exact H3]. intros e He. right. exact He.
Qed.

Lemma ptr_same_invG s s' g : ptr_same s s' -> InvG s g -> InvG s' g.
Proof.
  intros H [H1 [H2 [H3 [H4 [H5 [H6 [H7 H8]]]]]]].
  pose proof (ps_roots _ _ H) as R. pose proof (ps_next _ _ H) as Nx.
  unfold InvG, I2, W. rewrite R, Nx, (ps_corrupt _ _ H).
  split; [|split; [exact H2|split; [|split; [|split; [exact H5|split; [exact H6|split; [|exact H8]]]]]]].
  - eapply Forall_impl; [|exact H1]. intros e [He|He]; [left; exact He | right].
    unfold parent_ok in *. rewrite (ps_parent _ _ H). exact He.
  - eapply Forall_impl; [|exact H3]. intros [a c] [He|He]; [left; exact He | right].
    unfold psd_ok in *. rewrite (ptr_same_kind _ _ a H), !(ps_psd _ _ H). exact He.
  - eapply Forall_impl; [|exact H4]. intros e [A B]. unfold kinds_ok.
    rewrite (ptr_same_container _ _ _ H), (ptr_same_layer _ _ _ H). auto.
  - unfold all_ids. rewrite Nx. eapply Forall_impl; [|exact H7]. intros i Hi. unfold parent_alloc in *.
    rewrite (ps_parent _ _ H), Nx. exact Hi.
Qed.

Lemma attach1_invG s g k tx :
  InvG s g -> In tx (roots s) -> In g (ids_l (roots s)) -> ~ In g (ids_t tx) ->
  is_container s g = true -> is_layer s (tid tx) = true ->
  InvG (attach1 s g k (tid tx)) g.
Proof.
  intros [H1 [H2 [H3 [H4 [H5 [H6 [H7 H8]]]]]]] Htx Hg Hng Hcg Hlx.
  destruct (attach1_facts s g k tx H2 Htx Hg Hng) as [Ao [An [Ac [Af [Acnt [Aed [Art Akid]]]]]]].
  set (s' := attach1 s g k (tid tx)) in *.
  rewrite Forall_forall in H1, H3, H4, H7.
  unfold InvG, I2, W.
  split; [|split; [|split; [|split; [|split; [|split; [|split; [|rewrite An; exact H8]]]]]]].
  - apply Forall_forall. intros e He. destruct (Aed e He) as [Ho|Hn].
    + destruct (H1 e Ho) as [L|R]; [left; exact L | right]. unfold parent_ok in *. rewrite Ao. exact R.
    + left. subst e. reflexivity.
  - eapply cnt_same_NoDup; [exact Acnt | exact H2].
  - apply Forall_forall. intros e He. destruct (Aed e He) as [Ho|Hn].
    + destruct (H3 e Ho) as [L|R]; [left; exact L | right]. destruct e as [a c].
      unfold psd_ok, kind in *. rewrite !Ao. exact R.
    + left. subst e. reflexivity.
  - apply Forall_forall. intros e He. unfold kinds_ok, is_container, is_layer, kind. rewrite !Ao.
    destruct (Aed e He) as [Ho|Hn]; [apply (H4 e Ho) | subst e; simpl; split; assumption].
  - intro i. rewrite (cnt_same_In _ _ Acnt), An. apply H5.
  - rewrite Ac. exact H6.
  - apply Forall_forall. unfold all_ids. rewrite An. intros i Hi. specialize (H7 i Hi).
    unfold parent_alloc in *. rewrite Ao, An. exact H7.
Qed.

(* ---------------------------------------------------------------- meta (_update_layer_metadata) *)
Lemma meta_frame s g : roots (meta s g) = roots s /\ next (meta s g) = next s
  /\ corrupt (meta s g) = corrupt s /\ conf (meta s g) = conf s.
Proof.
  unfold meta, inval_below, map_objs, set_objs. destruct (cachefix (conf s)); destruct (eff_psd s g); cbn; auto.
Qed.
Lemma meta_kind s g i : okind (objs (meta s g) i) = okind (objs s i).
Proof.
  unfold meta, inval_below, map_objs, set_objs.
  destruct (cachefix (conf s)); destruct (eff_psd s g); cbn [objs];
    repeat match goal with |- context [if ?b then _ else _] => destruct b end; reflexivity.
Qed.
Lemma meta_parent s g i :
  oparent (objs (meta s g) i) = if memz i (kid_ids s g) then Some g else oparent (objs s i).
Proof.
  unfold meta, inval_below, map_objs, set_objs.
  destruct (cachefix (conf s)); destruct (eff_psd s g); cbn [objs];
    repeat match goal with |- context [if ?b then _ else _] => destruct b end; reflexivity.
Qed.
Lemma meta_psd s g i :
  opsd (objs (meta s g) i) =
  match eff_psd s g with
  | Some d => if memz i (descendants s g) then Some d else opsd (objs s i)
  | None => opsd (objs s i)
  end.
Proof.
  unfold meta, inval_below, map_objs, set_objs.
  destruct (cachefix (conf s)); destruct (eff_psd s g); cbn [objs];
    repeat match goal with |- context [if ?b then _ else _] => destruct b end; reflexivity.
Qed.

Lemma eff_psd_cases s g : (kind s g = KDoc /\ eff_psd s g = Some g) \/ (kind s g <> KDoc /\ eff_psd s g = opsd (objs s g)).
Proof.
  unfold eff_psd. destruct (kind s g =? KDoc) eqn:E; [left | right]; split; auto;
    [apply Z.eqb_eq | apply Z.eqb_neq]; exact E.
Qed.

(* after the lists are final, _update_layer_metadata re-establishes the invariant *)
Lemma meta_inv s g : InvG s g -> quiet s -> In g (ids_l (roots s)) -> Inv (meta s g).
Proof.
  intros [H1 [H2 [H3 [H4 [H5 [H6 [H7 H8]]]]]]] Q Hg.
  destruct (meta_frame s g) as [Fr [Fn [Fc Ff]]].
  pose proof (found_node s g Hg) as F. set (ks := kids_of s g) in *.
  assert (Ekid : kid_ids s g = map tid ks) by reflexivity.
  assert (Edesc : descendants s g = ids_l ks) by (apply descendants_quiet; exact Q).
  rewrite Forall_forall in H1, H3, H4, H7. unfold I2 in H2.
  pose proof (proj1 (H5 g) Hg) as Hgr.
  assert (Hchild : forall a c, In (a, c) (edges_l (roots s)) -> kind s c <> KDoc).
  { intros a c He. destruct (H4 _ He) as [_ L]. unfold is_layer in L. simpl in L. unfold KDoc, KGroup, KPixel in *.
    intro K. rewrite K in L. simpl in L. discriminate. }
  unfold Inv, I1, I2, I3, W. rewrite Fr, Fn, Fc.
  split; [|split; [exact H2|split; [|split; [|split; [exact H5|split; [exact H6|split; [|exact H8]]]]]]].
  - (* I1 *)
    apply Forall_forall. intros [a c] He. unfold parent_ok. cbn [fst snd]. rewrite meta_parent, Ekid.
    destruct (Z.eq_dec a g) as [->|Hne].
    + pose proof (edge_from_found _ _ _ _ H2 F He) as Hc. apply memz_In in Hc. rewrite Hc. reflexivity.
    + destruct (memz c (map tid ks)) eqn:M.
      * exfalso. apply memz_In in M. apply Hne.
        apply (unique_parent (roots s) a g c H2 He). apply (kids_are_edges _ _ _ _ F). exact M.
      * destruct (H1 _ He) as [L|R]; [simpl in L; contradiction | exact R].
  - (* I3 *)
    apply Forall_forall. intros [a c] He. unfold psd_ok. unfold kind. rewrite meta_kind. fold (kind s a).
    rewrite !meta_psd, Edesc.
    destruct (eff_psd_cases s g) as [[Kg Eg]|[Kg Eg]]; rewrite Eg.
    + (* g is a document *)
      destruct (memz c (ids_l ks)) eqn:Mc.
      * apply memz_In in Mc. destruct (below_closed_up _ _ _ _ _ H2 F He Mc) as [->|Ha].
        -- rewrite Kg, Z.eqb_refl. reflexivity.
        -- assert (Ka : kind s a <> KDoc).
           { destruct (root_or_child ks a Ha) as [Hr|[b Hb]].
             - apply (Hchild g a). apply (kids_are_edges _ _ _ _ F). exact Hr.
             - apply (Hchild b a). destruct (find_l_sub _ _ _ F) as [_ [_ Sub]]. apply Sub.
               rewrite edges_t_eq, in_app_iff. right. exact Hb. }
           apply Z.eqb_neq in Ka. rewrite Ka. apply memz_In in Ha. rewrite Ha. reflexivity.
      * assert (Hna : memz a (ids_l ks) = false).
        { destruct (memz a (ids_l ks)) eqn:Ma; [|reflexivity]. apply memz_In in Ma.
          pose proof (below_closed_down _ _ _ _ _ H2 F He Ma) as Hc. apply memz_In in Hc. congruence. }
        rewrite Hna. destruct (Z.eq_dec a g) as [->|Hne].
        -- exfalso. pose proof (edge_from_found _ _ _ _ H2 F He) as Hc.
           assert (In c (ids_l ks)).
           { apply in_map_iff in Hc as [y [Hy Hi]]. subst. apply root_in_ids. exact Hi. }
           apply memz_In in H. congruence.
        -- destruct (H3 _ He) as [L|R]; [simpl in L; contradiction | exact R].
    + (* g is a group *)
      destruct (opsd (objs s g)) as [d|] eqn:Pg.
      * destruct (memz c (ids_l ks)) eqn:Mc.
        -- apply memz_In in Mc. destruct (below_closed_up _ _ _ _ _ H2 F He Mc) as [->|Ha].
           ++ apply Z.eqb_neq in Kg. rewrite Kg.
              assert (Hng : memz g (ids_l ks) = false).
              { destruct (memz g (ids_l ks)) eqn:Mg; [|reflexivity]. apply memz_In in Mg.
                exfalso. exact (node_not_below _ _ _ H2 F Mg). }
              rewrite Hng, Pg. reflexivity.
           ++ assert (Ka : kind s a <> KDoc).
              { destruct (root_or_child ks a Ha) as [Hr|[b Hb]].
                - apply (Hchild g a). apply (kids_are_edges _ _ _ _ F). exact Hr.
                - apply (Hchild b a). destruct (find_l_sub _ _ _ F) as [_ [_ Sub]]. apply Sub.
                  rewrite edges_t_eq, in_app_iff. right. exact Hb. }
              apply Z.eqb_neq in Ka. rewrite Ka. apply memz_In in Ha. rewrite Ha. reflexivity.
        -- assert (Hna : memz a (ids_l ks) = false).
           { destruct (memz a (ids_l ks)) eqn:Ma; [|reflexivity]. apply memz_In in Ma.
             pose proof (below_closed_down _ _ _ _ _ H2 F He Ma) as Hc. apply memz_In in Hc. congruence. }
           rewrite Hna. destruct (Z.eq_dec a g) as [->|Hne].
           ++ exfalso. pose proof (edge_from_found _ _ _ _ H2 F He) as Hc.
              assert (In c (ids_l ks)).
              { apply in_map_iff in Hc as [y [Hy Hi]]. subst. apply root_in_ids. exact Hi. }
              apply memz_In in H. congruence.
           ++ destruct (H3 _ He) as [L|R]; [simpl in L; contradiction | exact R].
      * (* no document known: nothing is written *)
        destruct (Z.eq_dec a g) as [->|Hne].
        -- apply Z.eqb_neq in Kg. rewrite Kg, Pg. exact I.
        -- destruct (H3 _ He) as [L|R]; [simpl in L; contradiction | exact R].
  - (* kinds *)
    apply Forall_forall. intros e He. destruct (H4 e He) as [A B].
    unfold kinds_ok, is_container, is_layer, kind. rewrite !meta_kind. split; assumption.
  - (* parents allocated *)
    apply Forall_forall. unfold all_ids. rewrite Fn. intros i Hi. specialize (H7 i Hi).
    unfold parent_alloc in *. rewrite meta_parent, Fn. destruct (memz i (kid_ids s g)); [exact Hgr | exact H7].
Qed.

(* ---------------------------------------------------------------- quiet is preserved: clip lists untouched *)
Definition cl_same (s s' : state) : Prop :=
  conf s' = conf s /\ forall i, oclips (objs s' i) = oclips (objs s i).
Lemma cl_same_refl s : cl_same s s. Proof. split; auto. Qed.
Lemma cl_same_trans a b c : cl_same a b -> cl_same b c -> cl_same a c.
Proof. intros [A1 A2] [B1 B2]. split; [congruence | intro i; rewrite B2; apply A2]. Qed.
Lemma cl_same_quiet s s' : cl_same s s' -> quiet s -> quiet s'.
Proof.
  intros [C O] [Q|[Q1 Q2]]; [left | right]; rewrite C; auto. split; [exact Q1|]. intro i. rewrite O. apply Q2.
Qed.
Definition keeps_cl (f : obj -> obj) : Prop := forall o, oclips (f o) = oclips o.
Lemma mod_obj_cl s i f : keeps_cl f -> cl_same s (mod_obj s i f).
Proof.
  intro K. split; [reflexivity|]. intro j. unfold mod_obj, set_objs, upd. cbn [objs].
  destruct (j =? i) eqn:E; [|reflexivity]. apply Z.eqb_eq in E. subst. apply K.
Qed.
Lemma map_objs_cl s l f : keeps_cl f -> cl_same s (map_objs s l f).
Proof.
  intro K. split; [reflexivity|]. intro j. unfold map_objs, set_objs. cbn [objs].
  destruct (memz j l); [apply K | reflexivity].
Qed.
Lemma kcl_cache c : keeps_cl (with_cache c). Proof. intro; reflexivity. Qed.
Lemma kcl_dirty c : keeps_cl (with_dirty c). Proof. intro; reflexivity. Qed.
Lemma kcl_vis c : keeps_cl (with_vis c). Proof. intro; reflexivity. Qed.
Lemma kcl_rect c : keeps_cl (with_rect c). Proof. intro; reflexivity. Qed.
Lemma kcl_psd c : keeps_cl (with_psd c). Proof. intro; reflexivity. Qed.
Lemma kcl_parent c : keeps_cl (with_parent c). Proof. intro; reflexivity. Qed.
Lemma kcl_clipf c : keeps_cl (with_clipf c). Proof. intro; reflexivity. Qed.

Lemma inval_up_cl fuel : forall s x, cl_same s (inval_up fuel s x).
Proof.
  induction fuel as [|f IH]; intros s x; [apply cl_same_refl|].
  simpl. set (s1 := if is_container s x then mod_obj s x (with_cache None) else s).
  assert (P1 : cl_same s s1) by (unfold s1; destruct (is_container s x); [apply mod_obj_cl, kcl_cache | apply cl_same_refl]).
  destruct (oparent (objs s x)); [|exact P1]. eapply cl_same_trans; [exact P1 | apply IH].
Qed.
Lemma inval_cl fuel : forall s x, cl_same s (fst (inval fuel s x)).
Proof.
  induction fuel as [|f IH]; intros s x; [apply cl_same_refl|].
  simpl. set (s1 := if is_container s x then mod_obj s x (with_cache None) else s).
  assert (P1 : cl_same s s1) by (unfold s1; destruct (is_container s x); [apply mod_obj_cl, kcl_cache | apply cl_same_refl]).
  destruct (oparent (objs s x)); [|exact P1]. destruct (kind s z =? KGroup); [|exact P1].
  eapply cl_same_trans; [exact P1 | apply IH].
Qed.
Lemma invalidate_cl s x : cl_same s (fst (invalidate s x)).
Proof. unfold invalidate. destruct (cachefix (conf s)); [apply inval_up_cl | apply inval_cl]. Qed.
Lemma read_bbox_cl s g : cl_same s (fst (read_bbox s g)).
Proof.
  unfold read_bbox. destruct (ocache (objs s g)); [apply cl_same_refl|].
  destruct (fresh_bbox s g); [apply mod_obj_cl, kcl_cache | apply cl_same_refl].
Qed.
Lemma repr_touch_cl s x : cl_same s (fst (repr_touch s x)).
Proof.
  unfold repr_touch. destruct (kind s x =? KGroup); [|apply cl_same_refl].
  pose proof (read_bbox_cl s x). destruct (read_bbox s x) as [s1 [b|]]; exact H.
Qed.
Lemma fail_fmt_cl xs : forall s c, cl_same s (fst (fail_fmt s xs c)).
Proof.
  induction xs as [|x r IH]; intros s c; [apply cl_same_refl|].
  simpl. pose proof (repr_touch_cl s x) as P. destruct (repr_touch s x) as [s1 [|]]; simpl in P.
  - eapply cl_same_trans; [exact P | apply IH].
  - exact P.
Qed.
Lemma check_fail_cl s g bad : cl_same s (fst (check_fail s g bad)).
Proof.
  unfold check_fail. destruct bad as [x|]; [|apply cl_same_refl].
  destruct (x =? g); apply fail_fmt_cl.
Qed.

Lemma mark_dirty_quiet s g : quiet s -> quiet (mark_dirty s g).
Proof.
  intros [Q|[Q1 Q2]].
  - left. rewrite (ps_conf _ _ (mark_dirty_ptr s g)). exact Q.
  - assert (C : cl_same s (mark_dirty s g)).
    { unfold mark_dirty. rewrite Q1.
      set (s0 := if cachefix (conf s) then inval_up (fuel_of s) s g else s).
      assert (P0 : cl_same s s0) by (unfold s0; destruct (cachefix (conf s)); [apply inval_up_cl | apply cl_same_refl]).
      destruct (eff_psd s0 g); [|exact P0]. eapply cl_same_trans; [exact P0 | apply mod_obj_cl, kcl_dirty]. }
    apply (cl_same_quiet _ _ C). right. auto.
Qed.
Lemma meta_cl s g : cl_same s (meta s g).
Proof.
  unfold meta. set (s0 := if cachefix (conf s) then inval_below s g else s).
  assert (P0 : cl_same s s0) by (unfold s0, inval_below; destruct (cachefix (conf s)); [apply map_objs_cl, kcl_cache | apply cl_same_refl]).
  eapply cl_same_trans; [|apply map_objs_cl, kcl_parent].
  destruct (eff_psd s g); [|exact P0]. eapply cl_same_trans; [exact P0 | apply map_objs_cl, kcl_psd].
Qed.
Lemma objs_same_cl s s' : objs s' = objs s -> conf s' = conf s -> cl_same s s'.
Proof. intros O C. split; [exact C|]. intro i. rewrite O. reflexivity. Qed.

(* ---------------------------------------------------------------- listing several detached objects *)
Lemma attach1_keeps_root s g k x t :
  In t (roots s) -> tid t <> x -> ~ In g (ids_t t) -> In t (roots (attach1 s g k x)).
Proof.
  intros Ht Hne Hng. unfold attach1, set_roots. cbn [roots]. unfold drop_roots. apply filter_In. split.
  - unfold upd_l. rewrite <- (upd_t_notin t g (fun ks => splice ks k [subtree s x]) Hng). apply in_map. exact Ht.
  - cbn [memz existsb]. rewrite orb_false_r. apply negb_true_iff. apply Z.eqb_neq. exact Hne.
Qed.

Definition detached_ok s (g x : Z) : Prop := exists tx, In tx (roots s) /\ tid tx = x /\ ~ In g (ids_t tx).

Lemma attach_invG : forall xs s g k,
  InvG s g -> In g (ids_l (roots s)) -> is_container s g = true -> NoDup xs ->
  Forall (fun x => detached_ok s g x /\ is_layer s x = true) xs ->
  InvG (attach s g k xs) g /\ In g (ids_l (roots (attach s g k xs)))
  /\ objs (attach s g k xs) = objs s /\ conf (attach s g k xs) = conf s
  /\ next (attach s g k xs) = next s
  /\ (forall r, In r (map tid (roots s)) -> ~ In r xs -> In r (map tid (roots (attach s g k xs)))).
Proof.
  induction xs as [|x r IH]; intros s g k HG Hg Hc Nd HF;
    [simpl; split; [exact HG|]; split; [exact Hg|]; split; [reflexivity|]; split; [reflexivity|];
     split; [reflexivity|]; intros; assumption|].
  inversion HF as [|? ? [[tx [Htx [Et Hng]]] Hl] HFr]; subst.
  inversion Nd as [|? ? Hnx Ndr]; subst.
  pose proof HG as [_ [N2 _]].
  destruct (attach1_facts s g k tx N2 Htx Hg Hng) as [Ao [An [Ac [Af [Acnt [Aed [Art Akid]]]]]]].
  pose proof (attach1_invG s g k tx HG Htx Hg Hng Hc Hl) as HG1.
  set (s1 := attach1 s g k (tid tx)) in *.
  assert (Hg1 : In g (ids_l (roots s1))) by (apply (cnt_same_In _ _ Acnt); exact Hg).
  assert (Hc1 : is_container s1 g = true) by (unfold is_container, kind; rewrite Ao; exact Hc).
  assert (HF1 : Forall (fun x => detached_ok s1 g x /\ is_layer s1 x = true) r).
  { rewrite Forall_forall in *. intros y Hy. destruct (HFr y Hy) as [[ty [Hty [Ey Hny]]] Hly]. split.
    - exists ty. split; [|split; [exact Ey | exact Hny]].
      apply attach1_keeps_root; [exact Hty | | exact Hny]. rewrite Ey. intro E. apply Hnx. rewrite <- E. exact Hy.
    - unfold is_layer, kind. rewrite Ao. exact Hly. }
  destruct (IH s1 g (S k) HG1 Hg1 Hc1 Ndr HF1) as [B1 [B2 [B3 [B4 [B5 B6]]]]].
  simpl attach. fold s1. split; [exact B1|]. split; [exact B2|]. split; [rewrite B3; exact Ao|].
  split; [rewrite B4; exact Af|]. split; [rewrite B5; exact An|].
  intros q Hq Hnq. apply B6.
  - apply Art. split; [exact Hq|]. intro E. apply Hnq. left. symmetry. exact E.
  - intro Hin. apply Hnq. right. exact Hin.
Qed.

(* what a passed validity check tells about the arguments *)
Lemma pixel_no_kids s x : W s -> NoDup (ids_l (roots s)) -> kind s x = KPixel -> kids_of s x = [].
Proof.
  intros [Hk _] N K. destruct (in_dec Z.eq_dec x (ids_l (roots s))) as [Hin|Hn]; [|apply kids_of_notin; exact Hn].
  pose proof (found_node s x Hin) as F. destruct (kids_of s x) as [|c r] eqn:E; [reflexivity|]. exfalso.
  assert (He : In (x, tid c) (edges_l (roots s))) by (apply (kids_are_edges _ _ _ _ F); left; reflexivity).
  rewrite Forall_forall in Hk. destruct (Hk _ He) as [C _]. unfold is_container in C. simpl in C. rewrite K in C.
  discriminate.
Qed.

Lemma check_valid_ok s g : forall xs, check_valid s g xs = None ->
  Forall (fun x => is_layer s x = true /\ (selffix (conf s) = true -> x <> g)
                   /\ (kind s x = KGroup -> ~ In g (descendants s x))) xs.
Proof.
  induction xs as [|x r IH]; intro H; [constructor|]. simpl in H.
  destruct (is_layer s x) eqn:L; simpl in H; [|discriminate].
  destruct (selffix (conf s) && (x =? g)) eqn:S; [discriminate|].
  destruct ((kind s x =? KGroup) && memz g (descendants s x)) eqn:D; [discriminate|].
  constructor; [|apply IH; exact H]. split; [exact L|]. split.
  - intros Sf E. subst. rewrite Sf, Z.eqb_refl in S. discriminate.
  - intros K Hin. apply Z.eqb_eq in K. apply memz_In in Hin. rewrite K, Hin in D. discriminate.
Qed.

Lemma is_layer_kinds s x : is_layer s x = true -> kind s x = KGroup \/ kind s x = KPixel.
Proof. unfold is_layer. rewrite orb_true_iff, !Z.eqb_eq. tauto. Qed.

Lemma root_detached_ok s g x :
  Inv s -> quiet s -> In x (map tid (roots s)) -> x <> g -> is_layer s x = true ->
  (kind s x = KGroup -> ~ In g (descendants s x)) -> detached_ok s g x.
Proof.
  intros HI Q Hr Hne Hl Hd. pose proof (inv_nodup s HI) as N. destruct HI as [_ [_ [_ HW]]].
  apply in_map_iff in Hr as [tx [Et Htx]]. exists tx. split; [exact Htx|]. split; [exact Et|].
  pose proof (subtree_root s tx N Htx) as Es. rewrite Et in Es.
  destruct tx as [j ks]. simpl in Et. subst j. rewrite ids_t_eq. intros [E|Hin]; [congruence|].
  assert (Ek : kids_of s x = ks) by (unfold kids_of; rewrite Es; reflexivity).
  destruct (is_layer_kinds s x Hl) as [K|K].
  - apply (Hd K). rewrite (descendants_quiet s x Q), Ek. exact Hin.
  - rewrite (pixel_no_kids s x HW N K) in Ek. subst ks. simpl in Hin. exact Hin.
Qed.

(* ================================================================ operations *)
Definition Good s : Prop := Inv s /\ quiet s.
Definition rootid s (x : Z) : Prop := In x (map tid (roots s)).
Definition alloc_ok s (x : Z) : Prop := 0 <= x < next s.

Lemma good_ptr_cl s s' : ptr_same s s' -> cl_same s s' -> Good s -> Good s'.
Proof. intros P C [I Q]. split; [apply (ptr_same_inv _ _ P I) | apply (cl_same_quiet _ _ C Q)]. Qed.
Lemma alloc_in_forest s x : Inv s -> (alloc_ok s x <-> In x (ids_l (roots s))).
Proof. intros [_ [_ [_ [_ [H _]]]]]. unfold alloc_ok. rewrite H. tauto. Qed.

Lemma mark_dirty_good s g : Good s -> Good (mark_dirty s g).
Proof. intros [I Q]. split; [apply (ptr_same_inv _ _ (mark_dirty_ptr s g) I) | apply mark_dirty_quiet, Q]. Qed.
Lemma mark_dirty_roots s g : roots (mark_dirty s g) = roots s.
Proof. apply (ps_roots _ _ (mark_dirty_ptr s g)). Qed.
Lemma check_fail_good s g bad : Good s -> Good (fst (check_fail s g bad)).
Proof. apply good_ptr_cl; [apply check_fail_ptr | apply check_fail_cl]. Qed.
Lemma fail_fmt_good s xs c : Good s -> Good (fst (fail_fmt s xs c)).
Proof. apply good_ptr_cl; [apply fail_fmt_ptr | apply fail_fmt_cl]. Qed.

Lemma memz_false_notin x l : memz x l = false <-> ~ In x l.
Proof. rewrite <- memz_In. destruct (memz x l); split; intro H; try discriminate; try reflexivity. exfalso; apply H; reflexivity. Qed.

(* ---- detaching operations *)
Lemma detach_at_good s g k : Good s -> Good (detach_at s g k).
Proof.
  intros [HI Q]. split; [apply detach_at_inv; exact HI|].
  destruct (detach_at_facts s g k (inv_nodup s HI)) as [A [_ [_ [D _]]]].
  apply (cl_same_quiet s); [apply objs_same_cl; assumption | exact Q].
Qed.
Lemma detach_n_good n : forall s g, Good s -> Good (detach_n s g n).
Proof. induction n as [|n IH]; intros s g H; [exact H|]. simpl. apply IH. apply detach_at_good. exact H. Qed.

Lemma do_remove_good s g x : Good s -> Good (fst (do_remove s g x)).
Proof.
  intro H. unfold do_remove. destruct (index_of x (kid_ids s g)); [|exact H].
  cbn [fst]. apply mark_dirty_good, detach_at_good, H.
Qed.
Lemma do_pop_good s g i : Good s -> Good (fst (do_pop s g i)).
Proof.
  intro H. unfold do_pop. destruct (idx_pos (zlen (kids_of s g)) i); [|exact H].
  cbn [fst]. apply mark_dirty_good, detach_at_good, H.
Qed.
Lemma do_clear_good s g : Good s -> Good (fst (do_clear s g)).
Proof. intro H. unfold do_clear, detach_all. cbn [fst]. apply mark_dirty_good, detach_n_good, H. Qed.
Lemma do_delitem_good s g i : Good s -> Good (fst (do_delitem s g i)).
Proof.
  intro H. unfold do_delitem. destruct (clipsfix (conf s)).
  - destruct (idx_pos (zlen (kids_of s g)) i); [|exact H]. cbn [fst]. apply mark_dirty_good, detach_at_good, H.
  - destruct (idx_pos (zlen (kids_of s g)) i); cbn [fst]; [apply detach_at_good|]; apply mark_dirty_good, H.
Qed.

(* ---- the shape of a step: invariant, allocation frame, which roots may stop being roots *)
Definition kn_same (s s' : state) : Prop :=
  next s <= next s' /\ conf s' = conf s /\ forall i, 0 <= i < next s -> okind (objs s' i) = okind (objs s i).
Definition okstep (s s' : state) (moved : list Z) : Prop :=
  Good s' /\ kn_same s s' /\ (forall r, rootid s r -> ~ In r moved -> rootid s' r).

Lemma kn_same_refl s : kn_same s s.
Proof. split; [lia|]. split; auto. Qed.
Lemma kn_same_trans a b c : kn_same a b -> kn_same b c -> kn_same a c.
Proof.
  intros [A1 [A2 A3]] [B1 [B2 B3]]. split; [lia|]. split; [congruence|].
  intros i Hi. rewrite B3 by lia. apply A3. exact Hi.
Qed.
Lemma ptr_kn s s' : ptr_same s s' -> kn_same s s'.
Proof. intros H. split; [rewrite (ps_next _ _ H); lia|]. split; [apply (ps_conf _ _ H)|]. intros i _. apply (ps_kind _ _ H). Qed.
Lemma objs_kn s s' : objs s' = objs s -> next s' = next s -> conf s' = conf s -> kn_same s s'.
Proof. intros O N C. split; [lia|]. split; [exact C|]. intros i _. rewrite O. reflexivity. Qed.
Lemma kn_alloc s s' x : kn_same s s' -> alloc_ok s x -> alloc_ok s' x.
Proof. intros [N _] H. unfold alloc_ok in *. lia. Qed.
Lemma kn_container s s' x : kn_same s s' -> alloc_ok s x -> is_container s' x = is_container s x.
Proof. intros [_ [_ K]] H. unfold is_container, kind. rewrite (K x H). reflexivity. Qed.
Lemma kn_layer s s' x : kn_same s s' -> alloc_ok s x -> is_layer s' x = is_layer s x.
Proof. intros [_ [_ K]] H. unfold is_layer, kind. rewrite (K x H). reflexivity. Qed.

Lemma okstep_ptr s s' : Good s -> ptr_same s s' -> cl_same s s' -> okstep s s' [].
Proof.
  intros G P C. split; [apply (good_ptr_cl _ _ P C G)|]. split; [apply ptr_kn, P|].
  intros r Hr _. unfold rootid. rewrite (ps_roots _ _ P). exact Hr.
Qed.
Lemma okstep_refl s : Good s -> okstep s s [].
Proof. intro G. apply okstep_ptr; [exact G | apply ptr_same_refl | apply cl_same_refl]. Qed.
Lemma okstep_trans a b c m1 m2 : okstep a b m1 -> okstep b c m2 -> okstep a c (m1 ++ m2).
Proof.
  intros [_ [K1 R1]] [G2 [K2 R2]]. split; [exact G2|]. split; [apply (kn_same_trans _ _ _ K1 K2)|].
  intros r Hr Hn. apply R2; [apply R1; [exact Hr|] |]; intro H; apply Hn; apply in_or_app; auto.
Qed.
Lemma okstep_weaken s s' m m' : (forall x, In x m -> In x m') -> okstep s s' m -> okstep s s' m'.
Proof. intros Sub [G [K R]]. split; [exact G|]. split; [exact K|]. intros r Hr Hn. apply R; [exact Hr|]. intro H. apply Hn, Sub, H. Qed.

Lemma mark_dirty_ok s g : Good s -> okstep s (mark_dirty s g) [].
Proof.
  intro G. split; [apply mark_dirty_good, G|]. split; [apply ptr_kn, mark_dirty_ptr|].
  intros r Hr _. unfold rootid. rewrite mark_dirty_roots. exact Hr.
Qed.
Lemma check_fail_ok s g bad : Good s -> okstep s (fst (check_fail s g bad)) [].
Proof. intro G. apply okstep_ptr; [exact G | apply check_fail_ptr | apply check_fail_cl]. Qed.
Lemma fail_fmt_ok s xs c : Good s -> okstep s (fst (fail_fmt s xs c)) [].
Proof. intro G. apply okstep_ptr; [exact G | apply fail_fmt_ptr | apply fail_fmt_cl]. Qed.

(* after the lists are final: _update_layer_metadata; _update_psd_record *)
Lemma finish_ok s0 s1 g m :
  quiet s0 -> InvG s1 g -> In g (ids_l (roots s1)) ->
  objs s1 = objs s0 -> conf s1 = conf s0 -> next s1 = next s0 ->
  (forall r, rootid s0 r -> ~ In r m -> rootid s1 r) ->
  okstep s0 (mark_dirty (meta s1 g) g) m.
Proof.
  intros Q HG Hg O C N R.
  assert (Q1 : quiet s1) by (apply (cl_same_quiet s0); [apply objs_same_cl; assumption | exact Q]).
  assert (G2 : Good (meta s1 g)).
  { split; [apply meta_inv; assumption | apply (cl_same_quiet s1); [apply meta_cl | exact Q1]]. }
  destruct (meta_frame s1 g) as [Fr [Fn [Fc Ff]]].
  destruct (mark_dirty_ok (meta s1 g) g G2) as [G3 [K3 R3]].
  split; [exact G3|]. split.
  - eapply kn_same_trans; [|exact K3]. split; [lia|]. split; [congruence|]. intros i _. rewrite meta_kind, O. reflexivity.
  - intros r Hr Hn. apply R3; [|intros []]. unfold rootid. rewrite Fr. apply R; assumption.
Qed.

(* ---- extend / append *)
Lemma do_extend_ok s g xs :
  Good s -> alloc_ok s g -> is_container s g = true ->
  Forall (rootid s) xs -> NoDup xs -> (selffix (conf s) = true \/ ~ In g xs) ->
  okstep s (fst (do_extend s g xs)) xs.
Proof.
  intros [HI Q] Hg Hc Hr Nd Hself. unfold do_extend.
  destruct (check_valid s g xs) as [bad|] eqn:CV.
  { apply (okstep_weaken _ _ []); [intros x []|]. apply check_fail_ok. split; assumption. }
  pose proof (check_valid_ok s g xs CV) as Hok. rewrite Forall_forall in Hok, Hr.
  assert (Hne : forall x, In x xs -> x <> g).
  { intros x Hx. destruct Hself as [Sf|Hn]; [apply (proj1 (proj2 (Hok x Hx)) Sf) | intro E; subst; contradiction]. }
  assert (Hm : memz g xs = false) by (apply memz_false_notin; intro Hx; exact (Hne g Hx eq_refl)).
  rewrite Hm. apply (alloc_in_forest s g HI) in Hg.
  assert (HF : Forall (fun x => detached_ok s g x /\ is_layer s x = true) xs).
  { apply Forall_forall. intros x Hx. destruct (Hok x Hx) as [L [_ D]]. split; [|exact L].
    apply root_detached_ok; [exact HI | exact Q | exact (Hr x Hx) | exact (Hne x Hx) | exact L | exact D]. }
  destruct (attach_invG xs s g (length (kids_of s g)) (inv_invG s g HI) Hg Hc Nd HF) as [B1 [B2 [B3 [B4 [B5 B6]]]]].
  cbn [fst]. apply finish_ok; assumption.
Qed.

Lemma do_append_ok s g x :
  Good s -> alloc_ok s g -> is_container s g = true -> rootid s x -> okstep s (fst (do_append s g x)) [x].
Proof.
  intros HG Hg Hc Hr. unfold do_append. destruct (x =? g) eqn:E.
  { apply (okstep_weaken _ _ []); [intros y []|]. apply okstep_refl, HG. }
  apply Z.eqb_neq in E. apply do_extend_ok; auto.
  - constructor; [|constructor]. intros [].
  - right. intros [H|[]]. congruence.
Qed.

(* ---- insert *)
Lemma do_insert_ok s g i x :
  Good s -> alloc_ok s g -> is_container s g = true -> rootid s x -> okstep s (fst (do_insert s g i x)) [x].
Proof.
  intros [HI Q] Hg Hc Hr. unfold do_insert. destruct (x =? g) eqn:E.
  { apply (okstep_weaken _ _ []); [intros y []|]. apply fail_fmt_ok. split; assumption. }
  apply Z.eqb_neq in E.
  destruct (check_valid s g [x]) as [bad|] eqn:CV.
  { apply (okstep_weaken _ _ []); [intros y []|]. apply check_fail_ok. split; assumption. }
  pose proof (check_valid_ok s g [x] CV) as Hok. inversion Hok as [|? ? [L [_ D]] _]; subst.
  apply (alloc_in_forest s g HI) in Hg.
  assert (HF : Forall (fun y => detached_ok s g y /\ is_layer s y = true) [x]).
  { constructor; [|constructor]. split; [|exact L].
    apply root_detached_ok; [exact HI | exact Q | exact Hr | exact E | exact L | exact D]. }
  set (k := Z.to_nat (ins_pos (zlen (kids_of s g)) i)).
  assert (Nd : NoDup [x]) by (constructor; [intros [] | constructor]).
  destruct (attach_invG [x] s g k (inv_invG s g HI) Hg Hc Nd HF) as [B1 [B2 [B3 [B4 [B5 B6]]]]].
  cbn [fst]. apply finish_ok; assumption.
Qed.

(* ---- item assignment *)
Lemma detach_keeps_root s g k t : In t (roots s) -> ~ In g (ids_t t) -> In t (roots (detach_at s g k)).
Proof.
  intros Ht Hng. unfold detach_at. destruct (nth_error (kids_of s g) k); [|exact Ht].
  unfold set_roots. cbn [roots]. rewrite add_roots_one.
  assert (In t (upd_l g (fun ks => del_nth ks k) (roots s))).
  { unfold upd_l. rewrite <- (upd_t_notin t g (fun ks => del_nth ks k) Hng). apply in_map. exact Ht. }
  destruct (occ_l (tid t0) _); [exact H | apply in_or_app; left; exact H].
Qed.

Lemma detach_at_ok s g k : Good s -> okstep s (detach_at s g k) [].
Proof.
  intros [HI Q]. destruct (detach_at_facts s g k (inv_nodup s HI)) as [A [B [_ [D [_ [_ [R _]]]]]]].
  split; [apply detach_at_good; split; assumption|]. split; [apply objs_kn; assumption|].
  intros r Hr _. apply R. exact Hr.
Qed.
Lemma detach_n_ok n : forall s g, Good s -> okstep s (detach_n s g n) [].
Proof.
  induction n as [|n IH]; intros s g H; [apply okstep_refl, H|]. simpl.
  apply (okstep_trans s (detach_at s g 0) _ [] []); [apply detach_at_ok, H | apply IH, detach_at_good, H].
Qed.

Lemma do_setitem_ok s g i x :
  Good s -> alloc_ok s g -> is_container s g = true -> rootid s x -> okstep s (fst (do_setitem s g i x)) [x].
Proof.
  intros [HI Q] Hg Hc Hr. unfold do_setitem. destruct (x =? g) eqn:E.
  { apply (okstep_weaken _ _ []); [intros y []|]. apply fail_fmt_ok. split; assumption. }
  apply Z.eqb_neq in E.
  destruct (check_valid s g [x]) as [bad|] eqn:CV.
  { apply (okstep_weaken _ _ []); [intros y []|]. apply check_fail_ok. split; assumption. }
  destruct (idx_pos (zlen (kids_of s g)) i) as [j|].
  2:{ apply (okstep_weaken _ _ []); [intros y []|]. apply okstep_refl. split; assumption. }
  pose proof (check_valid_ok s g [x] CV) as Hok. inversion Hok as [|? ? [L [_ D]] _]; subst.
  destruct (root_detached_ok s g x HI Q Hr E L D) as [tx [Htx [Et Hng]]].
  set (k := Z.to_nat j).
  destruct (detach_at_ok s g k (conj HI Q)) as [[HI1 Q1] [K1 R1]].
  destruct (detach_at_facts s g k (inv_nodup s HI)) as [Ao [An [Ac [Af [Acnt _]]]]].
  set (s1 := detach_at s g k) in *.
  assert (Hg1 : In g (ids_l (roots s1))).
  { apply (cnt_same_In _ _ Acnt). apply (alloc_in_forest s g HI). exact Hg. }
  assert (Hc1 : is_container s1 g = true) by (unfold is_container, kind; rewrite Ao; exact Hc).
  assert (HF : Forall (fun y => detached_ok s1 g y /\ is_layer s1 y = true) [x]).
  { constructor; [|constructor]. split.
    - exists tx. split; [apply detach_keeps_root; assumption | split; assumption].
    - unfold is_layer, kind. rewrite Ao. exact L. }
  assert (Nd : NoDup [x]) by (constructor; [intros [] | constructor]).
  destruct (attach_invG [x] s1 g k (inv_invG s1 g HI1) Hg1 Hc1 Nd HF) as [B1 [B2 [B3 [B4 [B5 B6]]]]].
  cbn [fst]. apply finish_ok; try assumption; try congruence.
  intros r Hr0 Hn. apply B6; [apply R1; [exact Hr0 | intros []] | exact Hn].
Qed.

(* ---- detaching operations *)
Lemma do_remove_ok s g x : Good s -> okstep s (fst (do_remove s g x)) [].
Proof.
  intro H. unfold do_remove. destruct (index_of x (kid_ids s g)); [|apply okstep_refl, H].
  cbn [fst]. apply (okstep_trans s (detach_at s g n) _ [] []); [apply detach_at_ok, H | apply mark_dirty_ok, detach_at_good, H].
Qed.
Lemma do_pop_ok s g i : Good s -> okstep s (fst (do_pop s g i)) [].
Proof.
  intro H. unfold do_pop. destruct (idx_pos (zlen (kids_of s g)) i) as [j|]; [|apply okstep_refl, H].
  cbn [fst]. apply (okstep_trans s (detach_at s g (Z.to_nat j)) _ [] []); [apply detach_at_ok, H | apply mark_dirty_ok, detach_at_good, H].
Qed.
Lemma do_clear_ok s g : Good s -> okstep s (fst (do_clear s g)) [].
Proof.
  intro H. unfold do_clear, detach_all. cbn [fst].
  apply (okstep_trans s (detach_n s g (length (kids_of s g))) _ [] []); [apply detach_n_ok, H | apply mark_dirty_ok, detach_n_good, H].
Qed.
Lemma do_delitem_ok s g i : Good s -> okstep s (fst (do_delitem s g i)) [].
Proof.
  intro H. unfold do_delitem. destruct (clipsfix (conf s)).
  - destruct (idx_pos (zlen (kids_of s g)) i) as [j|]; [|apply okstep_refl, H]. cbn [fst].
    apply (okstep_trans s (detach_at s g (Z.to_nat j)) _ [] []); [apply detach_at_ok, H | apply mark_dirty_ok, detach_at_good, H].
  - destruct (idx_pos (zlen (kids_of s g)) i) as [j|]; cbn [fst]; [|apply mark_dirty_ok, H].
    apply (okstep_trans s (mark_dirty s g) _ [] []); [apply mark_dirty_ok, H | apply detach_at_ok, mark_dirty_good, H].
Qed.

(* ---- "if self in self.parent: self.parent.remove(self)" *)
Lemma index_of_nth x : forall (l : list tree) k, index_of x (map tid l) = Some k ->
  exists d, nth_error l k = Some d /\ tid d = x.
Proof.
  induction l as [|y r IH]; intros k H; [discriminate|]. simpl in H.
  destruct (tid y =? x) eqn:E.
  - inversion H; subst. exists y. split; [reflexivity | apply Z.eqb_eq; exact E].
  - destruct (index_of x (map tid r)) as [k'|] eqn:I; [|discriminate]. inversion H; subst.
    destruct (IH k' eq_refl) as [d [Hd Ed]]. exists d. auto.
Qed.
Lemma index_of_mem x : forall l, memz x l = true -> exists k, index_of x l = Some k.
Proof.
  induction l as [|y r IH]; intro H; [discriminate|]. simpl. unfold memz in H. simpl in H.
  destruct (y =? x) eqn:E; [eauto|]. rewrite Z.eqb_sym, E in H. simpl in H.
  destruct (IH H) as [k Hk]. rewrite Hk. simpl. eauto.
Qed.

Lemma unlist_good s x : Good s -> Good (unlist_from_parent s x).
Proof.
  intro H. unfold unlist_from_parent. destruct (oparent (objs s x)) as [p|]; [|exact H].
  destruct (memz x (kid_ids s p)); [apply do_remove_good; exact H | exact H].
Qed.



Lemma listed_has_parent s a x : Inv s -> In (a, x) (edges_l (roots s)) ->
  oparent (objs s x) = Some a /\ memz x (kid_ids s a) = true.
Proof.
  intros HI He. pose proof (inv_nodup s HI) as N. destruct HI as [H1 _]. unfold I1 in H1.
  rewrite Forall_forall in H1. split; [exact (H1 _ He)|].
  pose proof (edges_l_in_ids _ _ _ He) as [Hain _].
  apply memz_In. apply (edge_from_found _ _ _ _ N (found_node s a Hain) He).
Qed.
Lemma not_listed_root s x : Inv s -> alloc_ok s x ->
  (forall a, oparent (objs s x) = Some a -> memz x (kid_ids s a) = false) -> rootid s x.
Proof.
  intros HI Hx Hn. pose proof (proj1 (alloc_in_forest s x HI) Hx) as Hin.
  destruct (root_or_child _ _ Hin) as [Hr|[a Ha]]; [exact Hr|]. exfalso.
  destruct (listed_has_parent s a x HI Ha) as [P M]. rewrite (Hn a P) in M. discriminate.
Qed.

Lemma do_remove_root s p x : Good s -> memz x (kid_ids s p) = true -> rootid (fst (do_remove s p x)) x.
Proof.
  intros [HI Q] M. unfold do_remove. destruct (index_of_mem x _ M) as [k Hk]. rewrite Hk. cbn [fst].
  unfold rootid. rewrite mark_dirty_roots. unfold kid_ids in Hk.
  destruct (index_of_nth x _ k Hk) as [d [Hd Ed]].
  destruct (detach_at_facts s p k (inv_nodup s HI)) as [_ [_ [_ [_ [_ [_ [_ R]]]]]]].
  rewrite <- Ed. apply in_map. apply R. exact Hd.
Qed.

Lemma unlist_ok s x : Good s -> alloc_ok s x ->
  okstep s (unlist_from_parent s x) [] /\ rootid (unlist_from_parent s x) x.
Proof.
  intros G Hx. unfold unlist_from_parent. destruct (oparent (objs s x)) as [p|] eqn:P.
  - destruct (memz x (kid_ids s p)) eqn:M.
    + split; [apply do_remove_ok, G | apply do_remove_root; assumption].
    + split; [apply okstep_refl, G|]. apply not_listed_root; [apply G | exact Hx|].
      intros a Pa. rewrite P in Pa. inversion Pa; subst. exact M.
  - split; [apply okstep_refl, G|]. apply not_listed_root; [apply G | exact Hx|]. intros a Pa. rewrite P in Pa. discriminate.
Qed.

(* ---- delete_layer / move_to_group / move_up *)
Lemma repr_touch_ok s x : Good s -> okstep s (fst (repr_touch s x)) [].
Proof. intro G. apply okstep_ptr; [exact G | apply repr_touch_ptr | apply repr_touch_cl]. Qed.

Lemma do_delete_layer_ok s x : Good s -> alloc_ok s x -> okstep s (fst (do_delete_layer s x)) [].
Proof.
  intros G Hx. unfold do_delete_layer. destruct (oparent (objs s x)) as [p|] eqn:P.
  - cbn [fst]. destruct (unlist_ok s x G Hx) as [[G1 [K1 R1]] _].
    apply (okstep_trans s (unlist_from_parent s x) _ [] []); [split; [exact G1 | split; assumption] | apply mark_dirty_ok, G1].
  - pose proof (repr_touch_ok s x G) as H. destruct (repr_touch s x) as [s1 [|]]; exact H.
Qed.

Lemma do_move_to_group_ok s x g : Good s -> alloc_ok s x -> alloc_ok s g ->
  okstep s (fst (do_move_to_group s x g)) [x].
Proof.
  intros G Hx Hg. unfold do_move_to_group.
  destruct (is_container s g) eqn:C; cbn [negb].
  2:{ apply (okstep_weaken _ _ []); [intros y []|]. apply okstep_refl, G. }
  destruct (g =? x).
  { apply (okstep_weaken _ _ []); [intros y []|]. apply okstep_refl, G. }
  destruct ((kind s x =? KGroup) && memz g (descendants s x)).
  { apply (okstep_weaken _ _ []); [intros y []|]. apply fail_fmt_ok, G. }
  destruct (unlist_ok s x G Hx) as [[G1 [K1 R1]] Rx].
  set (s1 := unlist_from_parent s x) in *.
  apply (okstep_trans s s1 _ [] [x]); [split; [exact G1 | split; assumption]|].
  apply do_append_ok; [exact G1 | apply (kn_alloc _ _ _ K1 Hg) | rewrite (kn_container _ _ _ K1 Hg); exact C | exact Rx].
Qed.

Lemma do_move_up_ok s x off : Good s -> alloc_ok s x -> okstep s (fst (do_move_up s x off)) [x].
Proof.
  intros G Hx. unfold do_move_up. destruct (oparent (objs s x)) as [p|] eqn:P.
  2:{ apply (okstep_weaken _ _ []); [intros y []|]. apply okstep_refl, G. }
  destruct (index_of x (kid_ids s p)) as [k|] eqn:I.
  2:{ apply (okstep_weaken _ _ []); [intros y []|]. apply fail_fmt_ok, G. }
  (* x is listed in p: p is an allocated container *)
  assert (M : memz x (kid_ids s p) = true).
  { unfold kid_ids in *. destruct (index_of_nth x _ k I) as [d [Hd Ed]]. apply memz_In. rewrite <- Ed.
    apply in_map. apply nth_error_In with (n := k). exact Hd. }
  assert (Hpin : In p (ids_l (roots s))).
  { destruct (in_dec Z.eq_dec p (ids_l (roots s))) as [|Hn]; [assumption|]. unfold kid_ids in M.
    rewrite (kids_of_notin s p Hn) in M. discriminate. }
  destruct G as [HI Q]. pose proof (proj2 (alloc_in_forest s p HI) Hpin) as Hp.
  assert (Cp : is_container s p = true).
  { apply memz_In in M. pose proof (kids_are_edges _ _ _ _ (found_node s p Hpin) M) as He.
    destruct HI as [_ [_ [_ [Hk _]]]]. rewrite Forall_forall in Hk. apply (Hk _ He). }
  pose proof (do_remove_ok s p x (conj HI Q)) as [G1 [K1 R1]].
  pose proof (do_remove_root s p x (conj HI Q) M) as Rx.
  set (s1 := fst (do_remove s p x)) in *.
  apply (okstep_trans s s1 _ [] [x]); [split; [exact G1 | split; assumption]|].
  apply do_insert_ok; [exact G1 | apply (kn_alloc _ _ _ K1 Hp) | rewrite (kn_container _ _ _ K1 Hp); exact Cp | exact Rx].
Qed.

(* ---- allocation *)
Lemma ids_l_snoc l n : ids_l (l ++ [T n []]) = ids_l l ++ [n].
Proof. rewrite ids_l_app. reflexivity. Qed.
Lemma edges_l_snoc l n : edges_l (l ++ [T n []]) = edges_l l.
Proof. rewrite edges_l_app. cbn. apply app_nil_r. Qed.

Lemma alloc_step s o : Good s -> oparent o = None -> oclips o = [] ->
  okstep s (alloc s o) [] /\ rootid (alloc s o) (next s) /\ alloc_ok (alloc s o) (next s)
  /\ objs (alloc s o) (next s) = o.
Proof.
  intros [[H1 [H2 [H3 [H4 [H5 [H6 [H7 H8]]]]]]] Q] Po Co.
  set (n := next s).
  assert (Hlt : forall i, In i (ids_l (roots s)) -> i <> n) by (intros i Hi; apply H5 in Hi; unfold n; lia).
  assert (Hobj : forall i, i <> n -> objs (alloc s o) i = objs s i).
  { intros i Hi. unfold alloc, upd. cbn [objs]. fold n. destruct (i =? n) eqn:E; [apply Z.eqb_eq in E; contradiction | reflexivity]. }
  assert (Hedge : forall a c, In (a, c) (edges_l (roots s)) -> a <> n /\ c <> n).
  { intros a c He. destruct (edges_l_in_ids _ _ _ He) as [A C]. split; apply Hlt; assumption. }
  unfold I1, I3 in H1, H3. rewrite Forall_forall in H1, H3, H4, H7.
  assert (GI : Inv (alloc s o)).
  { unfold Inv, I1, I2, I3, W. cbn [roots next corrupt alloc]. rewrite edges_l_snoc, ids_l_snoc. fold n.
    split; [|split; [|split; [|split; [|split; [|split; [|split; [|unfold n in *; lia]]]]]]].
    - apply Forall_forall. intros [a c] He. destruct (Hedge a c He) as [_ Hc]. unfold parent_ok. cbn [fst snd].
      rewrite (Hobj c Hc). apply (H1 _ He).
    - apply NoDup_cnt. intro x. rewrite cnt_app, cnt_cons, cnt_nil. unfold I2 in H2.
      apply NoDup_cnt with (x := x) in H2. destruct (Z.eq_dec n x) as [<-|]; [|lia].
      assert (cnt n (ids_l (roots s)) = O) by (apply cnt_notin; intro Hi; exact (Hlt n Hi eq_refl)). lia.
    - apply Forall_forall. intros [a c] He. destruct (Hedge a c He) as [Ha Hc]. unfold psd_ok, kind.
      rewrite (Hobj a Ha), (Hobj c Hc). apply (H3 _ He).
    - apply Forall_forall. intros [a c] He. destruct (Hedge a c He) as [Ha Hc].
      unfold kinds_ok, is_container, is_layer, kind. cbn [fst snd]. rewrite (Hobj a Ha), (Hobj c Hc). apply (H4 _ He).
    - intro i. rewrite in_app_iff, H5. simpl. unfold n. lia.
    - exact H6.
    - apply Forall_forall. intros i Hi. apply all_ids_In in Hi. cbn [next alloc] in Hi. fold n in Hi.
      unfold parent_alloc. cbn [next alloc]. fold n. destruct (Z.eq_dec i n) as [->|Hne].
      + unfold alloc, upd. cbn [objs]. fold n. rewrite Z.eqb_refl, Po. exact I.
      + rewrite (Hobj i Hne). assert (Hi' : In i (all_ids s)) by (apply all_ids_In; unfold n in *; lia).
        specialize (H7 i Hi'). unfold parent_alloc in H7. destruct (oparent (objs s i)); [unfold n in *; lia | exact I]. }
  assert (GQ : quiet (alloc s o)).
  { destruct Q as [Q|[Q1 Q2]]; [left; exact Q | right]. split; [exact Q1|]. intro i.
    destruct (Z.eq_dec i n) as [->|Hne]; [|rewrite (Hobj i Hne); apply Q2].
    unfold alloc, upd. cbn [objs]. fold n. rewrite Z.eqb_refl. exact Co. }
  split; [|split; [|split]].
  - split; [split; assumption|]. split.
    + split; [cbn [next alloc]; lia|]. split; [reflexivity|]. intros i Hi. rewrite Hobj by (unfold n; lia). reflexivity.
    + intros r Hr _. unfold rootid, alloc. cbn [roots]. rewrite map_app, in_app_iff. left. exact Hr.
  - unfold rootid, alloc. cbn [roots]. rewrite map_app, in_app_iff. right. left. reflexivity.
  - unfold alloc_ok. cbn [next alloc]. lia.
  - unfold alloc, upd. cbn [objs]. rewrite Z.eqb_refl. reflexivity.
Qed.

(* ---- Group.new / Group.group_layers *)
Lemma fst_relabel (p : state * out) (v : list Z) :
  fst (match p with (s2, Done _) => (s2, Done v) | (s2, Fail c) => (s2, Fail c) end) = fst p.
Proof. destruct p as [s2 [w|c]]; reflexivity. Qed.

Lemma do_new_group_ok s parent : Good s -> (forall p, parent = Some p -> alloc_ok s p) ->
  okstep s (fst (do_new_group s parent)) [].
Proof.
  intros G Hp. unfold do_new_group.
  destruct (alloc_step s new_group_obj G eq_refl eq_refl) as [[G1 [K1 R1]] [Rn [An On]]].
  set (s1 := alloc s new_group_obj) in *. set (n := next s) in *.
  destruct parent as [p|]; [|split; [exact G1 | split; assumption]].
  destruct (is_container s1 p); [|split; [exact G1 | split; assumption]].
  rewrite fst_relabel.
  pose proof (do_move_to_group_ok s1 n p G1 An (kn_alloc _ _ _ K1 (Hp p eq_refl))) as [G2 [K2 R2]].
  split; [exact G2|]. split; [apply (kn_same_trans _ _ _ K1 K2)|].
  intros r Hr _. apply R2; [apply R1; [exact Hr | intros []]|].
  intros [E|[]]. subst r. unfold rootid in Hr.
  (* n = next s is not yet in the forest of s *)
  destruct G as [[_ [_ [_ [_ [H5 _]]]]] _]. pose proof (proj1 (H5 n)) as Hlt.
  apply in_map_iff in Hr as [t [Et Ht]]. rewrite <- Et in Hlt. specialize (Hlt (root_in_ids t _ Ht)). unfold n in Hlt. lia.
Qed.

Lemma move_all_ok n : forall xs st, Good st -> alloc_ok st n -> rootid st n ->
  Forall (fun x => alloc_ok st x /\ x <> n) xs ->
  okstep st (fst (move_all st xs n)) xs /\ rootid (fst (move_all st xs n)) n.
Proof.
  induction xs as [|x r IH]; intros st G An Rn HF; [simpl; split; [apply okstep_refl, G | exact Rn]|].
  inversion HF as [|? ? [Ax Nx] HFr]; subst. simpl.
  pose proof (do_move_to_group_ok st x n G Ax An) as [G1 [K1 R1]].
  destruct (do_move_to_group st x n) as [s1 [w|c]] eqn:E; cbn [fst] in *.
  - assert (HF1 : Forall (fun y => alloc_ok s1 y /\ y <> n) r).
    { eapply Forall_impl; [|exact HFr]. intros y [Ay Ny]. split; [apply (kn_alloc _ _ _ K1 Ay) | exact Ny]. }
    assert (Rn1 : rootid s1 n) by (apply R1; [exact Rn | intros [Hx|[]]; congruence]).
    destruct (IH s1 G1 (kn_alloc _ _ _ K1 An) Rn1 HF1) as [O2 Rn2].
    split; [|exact Rn2]. apply (okstep_trans st s1 _ [x] r); [split; [exact G1 | split; assumption] | exact O2].
  - split.
    + apply (okstep_weaken _ _ [x]); [intros y [Hy|[]]; left; exact Hy|]. split; [exact G1 | split; assumption].
    + apply R1; [exact Rn | intros [Hx|[]]; congruence].
Qed.

Lemma do_group_layers_ok s xs parent :
  Good s -> Forall (alloc_ok s) xs -> (forall p, parent = Some p -> alloc_ok s p) ->
  okstep s (fst (do_group_layers s xs parent)) xs.
Proof.
  intros G Hxs Hp. unfold do_group_layers. destruct xs as [|x0 r]; [apply okstep_refl, G|].
  set (xs := x0 :: r) in *.
  set (par := match parent with Some p => Some p | None => oparent (objs s x0) end).
  assert (Hpar : forall p, par = Some p -> alloc_ok s p).
  { intros p Ep. unfold par in Ep. destruct parent as [q|]; [inversion Ep; subst; apply Hp; reflexivity|].
    destruct G as [[_ [_ [_ [_ [_ [_ [H7 _]]]]]]] _]. rewrite Forall_forall in H7.
    inversion Hxs as [|? ? A0 _]; subst. specialize (H7 x0 (proj2 (all_ids_In s x0) A0)).
    unfold parent_alloc in H7. rewrite Ep in H7. exact H7. }
  destruct (alloc_step s new_group_obj G eq_refl eq_refl) as [[G1 [K1 R1]] [Rn [An On]]].
  set (s1 := alloc s new_group_obj) in *. set (n := next s) in *.
  assert (HF : Forall (fun x => alloc_ok s1 x /\ x <> n) xs).
  { eapply Forall_impl; [|exact Hxs]. intros y Ay. split; [apply (kn_alloc _ _ _ K1 Ay) | unfold alloc_ok, n in *; lia]. }
  destruct (move_all_ok n xs s1 G1 An Rn HF) as [[G2 [K2 R2]] Rn2].
  assert (O12 : okstep s (fst (move_all s1 xs n)) xs).
  { split; [exact G2|]. split; [apply (kn_same_trans _ _ _ K1 K2)|].
    intros q Hq Hn. apply R2; [apply R1; [exact Hq | intros []] | exact Hn]. }
  destruct (move_all s1 xs n) as [s2 [w|c]] eqn:E; cbn [fst] in *; [|exact O12].
  destruct par as [p|]; [|exact O12].
  destruct (is_container s2 p) eqn:C; [|exact O12].
  rewrite fst_relabel.
  assert (Ap2 : alloc_ok s2 p) by (apply (kn_alloc _ _ _ K2), (kn_alloc _ _ _ K1), Hpar; reflexivity).
  pose proof (do_append_ok s2 p n G2 Ap2 C Rn2) as [G3 [K3 R3]].
  split; [exact G3|]. split; [apply (kn_same_trans _ _ _ (kn_same_trans _ _ _ K1 K2) K3)|].
  intros q Hq Hn. apply R3.
  - apply R2; [apply R1; [exact Hq | intros []] | exact Hn].
  - intros [Eq|[]]. subst q. unfold rootid in Hq.
    destruct G as [[_ [_ [_ [_ [H5 _]]]]] _]. pose proof (proj1 (H5 n)) as Hlt.
    apply in_map_iff in Hq as [t [Et Ht]]. rewrite <- Et in Hlt. specialize (Hlt (root_in_ids t _ Ht)). unfold n in Hlt. lia.
Qed.

(* ---- setters and observers: nothing Inv reads is touched *)
Definition frame_same (s s' : state) : Prop := ptr_same s s' /\ cl_same s s'.
Lemma frame_refl s : frame_same s s. Proof. split; [apply ptr_same_refl | apply cl_same_refl]. Qed.
Lemma frame_trans a b c : frame_same a b -> frame_same b c -> frame_same a c.
Proof. intros [A1 A2] [B1 B2]. split; [eapply ptr_same_trans; eassumption | eapply cl_same_trans; eassumption]. Qed.
Lemma frame_ok s s' : Good s -> frame_same s s' -> okstep s s' [].
Proof. intros G [P C]. apply okstep_ptr; assumption. Qed.
Lemma frame_mod s i f : keeps_ptrs f -> keeps_cl f -> frame_same s (mod_obj s i f).
Proof. intros A B. split; [apply mod_obj_ptr, A | apply mod_obj_cl, B]. Qed.
Lemma frame_invalidate s x : frame_same s (fst (invalidate s x)).
Proof. split; [apply invalidate_ptr | apply invalidate_cl]. Qed.
Lemma frame_inval_below s g : frame_same s (inval_below s g).
Proof. split; [apply inval_below_ptr | apply map_objs_cl, kcl_cache]. Qed.
Lemma frame_read_bbox s g : frame_same s (fst (read_bbox s g)).
Proof. split; [apply read_bbox_ptr | apply read_bbox_cl]. Qed.

Lemma frame_set_visible s x b : frame_same s (fst (do_set_visible s x b)).
Proof.
  unfold do_set_visible. destruct (is_layer s x); cbn [negb]; [|apply frame_refl].
  pose proof (frame_invalidate s x) as F1. destruct (invalidate s x) as [s1 [|]]; cbn [fst] in *; [|exact F1].
  eapply frame_trans; [exact F1|].
  eapply frame_trans; [apply (frame_mod s1 x (with_vis b)); [apply keeps_vis | apply kcl_vis]|].
  destruct (cachefix (conf s) && (kind s x =? KGroup)); [apply frame_inval_below | apply frame_refl].
Qed.
Lemma frame_set_left s x v : frame_same s (fst (do_set_left s x v)).
Proof.
  unfold do_set_left. destruct (kind s x =? KPixel); cbn [negb]; [|apply frame_refl].
  pose proof (frame_invalidate s x) as F1. destruct (invalidate s x) as [s1 [|]]; cbn [fst] in *; [|exact F1].
  destruct (orect (objs s x)) as [[[l t] r] bt]. cbn [fst].
  eapply frame_trans; [exact F1 | apply frame_mod; [apply keeps_rect | apply kcl_rect]].
Qed.
Lemma frame_set_top s x v : frame_same s (fst (do_set_top s x v)).
Proof.
  unfold do_set_top. destruct (kind s x =? KPixel); cbn [negb]; [|apply frame_refl].
  pose proof (frame_invalidate s x) as F1. destruct (invalidate s x) as [s1 [|]]; cbn [fst] in *; [|exact F1].
  destruct (orect (objs s x)) as [[[l t] r] bt]. cbn [fst].
  eapply frame_trans; [exact F1 | apply frame_mod; [apply keeps_rect | apply kcl_rect]].
Qed.
Lemma frame_obs_bbox s x : frame_same s (fst (do_obs_bbox s x)).
Proof.
  unfold do_obs_bbox. destruct (kind s x =? KPixel); [apply frame_refl|].
  destruct (is_container s x); [|apply frame_refl].
  pose proof (frame_read_bbox s x) as F. destruct (read_bbox s x) as [s1 [b|]]; exact F.
Qed.
Lemma frame_obs_size s x : frame_same s (fst (do_obs_size s x)).
Proof.
  unfold do_obs_size. destruct (kind s x =? KGroup).
  - pose proof (frame_read_bbox s x) as F. destruct (read_bbox s x) as [s1 [[[[l t] r] b]|]]; exact F.
  - destruct (orect (objs s x)) as [[[l t] r] b]. apply frame_refl.
Qed.
Lemma frame_obs_repr s x : frame_same s (fst (do_obs_repr s x)).
Proof.
  unfold do_obs_repr. destruct (kind s x =? KGroup).
  - pose proof (frame_read_bbox s x) as F. destruct (read_bbox s x) as [s1 [[[[l t] r] b]|]]; exact F.
  - destruct (orect (objs s x)) as [[[l t] r] b]. destruct (kind s x =? KDoc); apply frame_refl.
Qed.

Lemma do_set_clip_ok s x b : Good s -> descfix (conf s) = true -> okstep s (fst (do_set_clip s x b)) [].
Proof.
  intros [HI Q] D.
  assert (P : ptr_same s (fst (do_set_clip s x b))).
  { unfold do_set_clip. destruct (is_layer s x); cbn [negb]; [|apply ptr_same_refl].
    destruct (clipfix (conf s)).
    - destruct (opsd (objs s x)); cbn [fst].
      + eapply ptr_same_trans; [apply mod_obj_ptr, keeps_clipf | apply compute_clipping_ptr].
      + apply mod_obj_ptr, keeps_clipf.
    - destruct (opsd (objs s x)); [|apply ptr_same_refl].
      destruct (0 <? zlen (kids_of s z)); [|apply ptr_same_refl]. cbn [fst].
      eapply ptr_same_trans; [apply mod_obj_ptr, keeps_clipf | apply compute_clipping_ptr]. }
  split; [split; [apply (ptr_same_inv _ _ P HI) | left; rewrite (ps_conf _ _ P); exact D]|].
  split; [apply ptr_kn, P|]. intros r Hr _. unfold rootid. rewrite (ps_roots _ _ P). exact Hr.
Qed.

(* ================================================================ the guard and the step theorem *)
Definition op_ids (o : op) : list Z :=
  match o with
  | NewDoc _ _ => []
  | NewPixel _ _ _ _ _ => []
  | NewGroup p => match p with Some q => [q] | None => [] end
  | GroupLayers xs p => xs ++ match p with Some q => [q] | None => [] end
  | Append g x | Insert g _ x | SetItem g _ x | Remove g x | MoveToGroup x g | ObsFind g x => [g; x]
  | Extend g xs => g :: xs
  | Pop g _ | Clear g | DelItem g _ | ObsDesc g => [g]
  | DeleteLayer x | MoveUp x _ | MoveDown x _ | SetVisible x _ | SetLeft x _ | SetTop x _ | SetClip x _
  | ObsBbox x | ObsSize x | ObsRepr x | ObsVisible x | ObsExport x _ => [x]
  end.

(* The guard: the operation names existing objects; a layer handed to append / extend / insert /
   item assignment is detached (listed nowhere); an extend list has no repetitions and (on the
   variant without the repair 543e601) does not contain the group itself; the clipping flag is only
   assigned on the variant where descendants() ignores clip_layers (b1bb75f). *)
Definition guard s (o : op) : Prop :=
  Forall (alloc_ok s) (op_ids o) /\
  match o with
  | Append _ x | Insert _ _ x | SetItem _ _ x => rootid s x
  | Extend g xs => Forall (rootid s) xs /\ NoDup xs /\ (selffix (conf s) = true \/ ~ In g xs)
  | SetClip _ _ => descfix (conf s) = true
  | _ => True
  end.

Theorem step_ok s o : Good s -> guard s o -> okstep s (fst (step s o)) (op_ids o).
Proof.
  intros G [Hids Hg]. pose proof G as [[_ [_ [_ [_ [_ [Hcor _]]]]]] _].
  unfold step. rewrite Hcor.
  assert (W0 : forall s', okstep s s' [] -> okstep s s' (op_ids o)).
  { intros s' H. apply (okstep_weaken _ _ []); [intros y []|exact H]. }
  destruct (match needs_container o with Some g => negb (is_container s g) | None => false end) eqn:NC;
    [apply W0, okstep_refl, G|].
  destruct (match needs_layer o with Some x => negb (is_layer s x) | None => false end) eqn:NL;
    [apply W0, okstep_refl, G|].
  rewrite Forall_forall in Hids.
  destruct o; cbn [op_ids needs_container needs_layer] in *.
  - (* NewDoc *) destruct (alloc_step s (new_doc_obj w h) G eq_refl eq_refl) as [O _]. exact O.
  - (* NewPixel *) destruct (alloc_step s (new_pixel_obj psd l t w h) G eq_refl eq_refl) as [O _]. exact O.
  - (* NewGroup *) apply W0. apply do_new_group_ok; [exact G|]. intros p E. subst. apply Hids. left. reflexivity.
  - (* GroupLayers *)
    apply (okstep_weaken _ _ xs); [intros y Hy; apply in_or_app; left; exact Hy|].
    apply do_group_layers_ok; [exact G | | ].
    + apply Forall_forall. intros y Hy. apply Hids. apply in_or_app. left. exact Hy.
    + intros p E. subst. apply Hids. apply in_or_app. right. left. reflexivity.
  - (* Append *) apply negb_false_iff in NC.
    apply (okstep_weaken _ _ [x]); [intros y [Hy|[]]; right; left; exact Hy|].
    apply do_append_ok; [exact G | apply Hids; left; reflexivity | exact NC | exact Hg].
  - (* Extend *) apply negb_false_iff in NC. destruct Hg as [A [B C]].
    apply (okstep_weaken _ _ xs); [intros y Hy; right; exact Hy|].
    apply do_extend_ok; [exact G | apply Hids; left; reflexivity | exact NC | exact A | exact B | exact C].
  - (* Insert *) apply negb_false_iff in NC.
    apply (okstep_weaken _ _ [x]); [intros y [Hy|[]]; right; left; exact Hy|].
    apply do_insert_ok; [exact G | apply Hids; left; reflexivity | exact NC | exact Hg].
  - (* Remove *) apply W0, do_remove_ok, G.
  - (* Pop *) apply W0, do_pop_ok, G.
  - (* Clear *) apply W0, do_clear_ok, G.
  - (* SetItem *) apply negb_false_iff in NC.
    apply (okstep_weaken _ _ [x]); [intros y [Hy|[]]; right; left; exact Hy|].
    apply do_setitem_ok; [exact G | apply Hids; left; reflexivity | exact NC | exact Hg].
  - (* DelItem *) apply W0, do_delitem_ok, G.
  - (* DeleteLayer *) apply W0, do_delete_layer_ok; [exact G | apply Hids; left; reflexivity].
  - (* MoveToGroup *)
    apply (okstep_weaken _ _ [x]); [intros y [Hy|[]]; right; left; exact Hy|].
    apply do_move_to_group_ok; [exact G | apply Hids; right; left; reflexivity | apply Hids; left; reflexivity].
  - (* MoveUp *) apply do_move_up_ok; [exact G | apply Hids; left; reflexivity].
  - (* MoveDown *) apply do_move_up_ok; [exact G | apply Hids; left; reflexivity].
  - (* SetVisible *) apply W0, frame_ok; [exact G | apply frame_set_visible].
  - (* SetLeft *) apply W0, frame_ok; [exact G | apply frame_set_left].
  - (* SetTop *) apply W0, frame_ok; [exact G | apply frame_set_top].
  - (* SetClip *) apply W0, do_set_clip_ok; [exact G | exact Hg].
  - (* ObsBbox *) apply W0, frame_ok; [exact G | apply frame_obs_bbox].
  - (* ObsSize *) apply W0, frame_ok; [exact G | apply frame_obs_size].
  - (* ObsRepr *) apply W0, frame_ok; [exact G | apply frame_obs_repr].
  - (* ObsDesc *) apply W0, okstep_refl, G.
  - (* ObsFind *) apply W0, okstep_refl, G.
  - (* ObsVisible *) apply W0. destruct (isvis (fuel_of s) s x); apply okstep_refl, G.
  - (* ObsExport *) apply W0, okstep_refl, G.
Qed.
