(* Edit/Corr.v -- glue for the correspondence checks of C09 / C10 / C14:
   the initial scenes (scripts of public-API calls, replayed step by step on
   both sides, so the scenes themselves are compared too) and the digest of a
   whole trace.  harness/vh/edit_common.py holds the mirrored scripts. *)
From PsdV Require Import Base.Prelude Edit.Model Edit.Persist.
From Coq Require Import Uint63.
Open Scope Z_scope.

Definition px (psd : option Z) (l t w h : Z) := NewPixel psd l t w h.

(* 0: doc0=[p1, g2=[p3]]  +  detached p4, detached empty group g5 *)
Definition init0 : list op :=
  [NewDoc 8 8; px (Some 0) 1 1 2 2; Append 0 1; NewGroup (Some 0); px (Some 0) 3 2 2 3; Append 2 3;
   px (Some 0) 0 4 3 1; NewGroup None].
(* 1: nested: doc0=[g1=[g2=[p3], p4], p5] + detached p6 *)
Definition init1 : list op :=
  [NewDoc 8 8; NewGroup (Some 0); NewGroup (Some 1); px (Some 0) 1 1 2 2; Append 2 3;
   px (Some 0) 4 0 2 2; Append 1 4; px (Some 0) 0 5 3 2; Append 0 5; px (Some 0) 6 6 1 1].
(* 2: clipping: doc0=[p1, p2^, g3=[p4, p5^]] + detached p6   (^ = clipping layer) *)
Definition init2 : list op :=
  [NewDoc 8 8; px (Some 0) 1 1 2 2; Append 0 1; px (Some 0) 2 2 3 3; Append 0 2; NewGroup (Some 0);
   px (Some 0) 0 0 1 1; Append 3 4; px (Some 0) 5 5 2 2; Append 3 5; SetClip 2 true; SetClip 5 true;
   px (Some 0) 6 0 1 2].
(* 3: two documents: doc0=[p2, g3=[p4]], doc1=[p5, g6=[]] *)
Definition init3 : list op :=
  [NewDoc 8 8; NewDoc 6 6; px (Some 0) 1 1 2 2; Append 0 2; NewGroup (Some 0); px (Some 0) 3 3 2 2; Append 3 4;
   px (Some 1) 0 0 2 1; Append 1 5; NewGroup (Some 1)].
(* 4: small: doc0=[p1, g2=[p3]] *)
Definition init4 : list op :=
  [NewDoc 8 8; px (Some 0) 1 1 2 2; Append 0 1; NewGroup (Some 0); px (Some 0) 3 2 2 3; Append 2 3].
(* 5: detached group with a child and a document: doc0=[p1], detached g2=[p3], detached p4 (no document) *)
Definition init5 : list op :=
  [NewDoc 8 8; px (Some 0) 1 1 2 2; Append 0 1; NewGroup None; px (Some 0) 3 2 2 3; Append 2 3; px None 0 0 2 2].
(* 6: small two-document scene with a clipping layer: doc0=[p2, p3^], doc1=[g4=[p5]] *)
Definition init6 : list op :=
  [NewDoc 8 8; NewDoc 8 8; px (Some 0) 1 1 2 2; Append 0 2; px (Some 0) 2 2 3 3; Append 0 3; SetClip 3 true;
   NewGroup (Some 1); px (Some 1) 4 4 2 2; Append 4 5].
(* 7: empty: nothing exists yet (random walks build their own scene) *)
Definition init7 : list op := [].
(* 8: a document without layers and two detached pixel layers made for it (first layer in / last layer out) *)
Definition init8 : list op := [NewDoc 8 8; px (Some 0) 1 1 2 2; px (Some 0) 3 3 3 2].

Definition init (k : Z) : list op :=
  match k with
  | 0 => init0 | 1 => init1 | 2 => init2 | 3 => init3 | 4 => init4 | 5 => init5 | 6 => init6 | 8 => init8 | _ => init7
  end.

(* a case is (scene number, history); the answer is one digest over the per-step digests *)
Definition run_digest_v (v : cfg) (c : Z * list op) : list Z :=
  [to_Z (h63_list 0%uint63 (trace (empty_state_v v) (init (fst c) ++ snd c)))].
Definition run_digest := run_digest_v cfg0.
Definition run_digest_nc_v (v : cfg) (c : Z * list op) : list Z :=
  [to_Z (h63_list 0%uint63 (trace_nc (empty_state_v v) (init (fst c) ++ snd c)))].

(* detail for diagnosing a mismatch: per step, outcome and printed state *)
Fixpoint trace_full (s : state) (h : list op) : list (list Z) :=
  match h with
  | [] => []
  | o :: r => let '(s1, a) := step s o in (out_canon a ++ (-7) :: print_state s1) :: trace_full s1 r
  end.
Definition run_full_v (v : cfg) (c : Z * list op) : list (list Z) := trace_full (empty_state_v v) (init (fst c) ++ snd c).
Definition run_full := run_full_v cfg0.

(* Python list primitives, compared with real Python lists by the harness *)
Definition pylist_case (c : Z * (list Z * (Z * Z))) : list Z :=
  let '(which, (l, (i, x))) := c in
  let n := zlen l in
  match which with
  | 0 => splice l (Z.to_nat (ins_pos n i)) [x]                                          (* l.insert(i, x) *)
  | 1 => match idx_pos n i with None => [-1] | Some j => nth (Z.to_nat j) l 0 :: del_nth l (Z.to_nat j) end   (* l.pop(i) *)
  | 2 => match idx_pos n i with None => [-1] | Some j => splice (del_nth l (Z.to_nat j)) (Z.to_nat j) [x] end (* l[i] = x *)
  | 3 => match index_of x l with None => [-1] | Some k => del_nth l k end                 (* l.remove(x) *)
  | _ => match index_of x l with None => [-1] | Some k => [Z.of_nat k] end                (* l.index(x) *)
  end.

(* the record list _build_record_tree produces for every document of the final state
   (Edit.Persist.flat_l): per document [-1; id], then 1 = bounding divider, 2 j = record of group j, 3 j = leaf j *)
Definition rcd_code (r : rcd) : list Z :=
  match r with RDiv => [1] | RGrp j => [2; j] | RLeaf j => [3; j] end.
Definition flat_case_v (v : cfg) (c : Z * list op) : list Z :=
  let s := run (empty_state_v v) (init (fst c) ++ snd c) in
  if corrupt s then [-9] else
  flat_map (fun d => if kind s d =? KDoc
                     then (-1) :: d :: flat_map rcd_code (flat_l (fun j => kind s j =? KGroup) (kids_of s d))
                     else []) (all_ids s).
