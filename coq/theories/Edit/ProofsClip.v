(* Edit/ProofsClip.v -- C15 inside the edit state machine: after _compute_clipping_layers the clip lists below
   the document are the specification (a non-clipping layer owns the run of clipping layers listed directly
   above it, a clipping layer owns none); with repair edc9f34 every structure edit recomputes them. *)
From PsdV Require Import Base.Prelude Edit.Model Edit.Spec Edit.Inv Edit.Cache Edit.Forest Edit.ProofsInv Edit.ProofsTree
  Edit.ProofsKids Edit.ProofsRefine Edit.ProofsMoves Edit.ProofsCache Edit.ProofsCoh Edit.ProofsGen.
Open Scope Z_scope.

(* ---------------------------------------------------------------- the assignment list *)
Fixpoint chunks (cf : Z -> bool) (rec : tree -> list (Z * list Z)) (l : list tree) : list (list (Z * list Z)) :=
  match l with
  | [] => []
  | c :: r => ((if cf (tid c) then [] else [(tid c, takewhile cf (map tid r))]) ++ rec c) :: chunks cf rec r
  end.
Lemma clip_assign_eq cf j ks : clip_assign cf (T j ks) = concat (rev (chunks cf (clip_assign cf) ks)).
Proof.
  cbn [clip_assign]. f_equal. f_equal. induction ks as [|c r IH]; [reflexivity|]. cbn [chunks]. f_equal. exact IH.
Qed.

Definition kid_clip (cf : Z -> bool) (ks : list tree) (c : Z) (l : list Z) : Prop :=
  exists pre x post, ks = pre ++ x :: post /\ tid x = c /\ cf c = false /\ l = takewhile cf (map tid post).

Lemma in_chunks cf rec : forall l ch, In ch (chunks cf rec l) <->
  exists pre c post, l = pre ++ c :: post
    /\ ch = (if cf (tid c) then [] else [(tid c, takewhile cf (map tid post))]) ++ rec c.
Proof.
  induction l as [|c r IH]; intro ch; cbn [chunks In].
  - split; [contradiction | intros [pre [c [post [E _]]]]; destruct pre; discriminate].
  - rewrite IH. split.
    + intros [H|[pre [c0 [post [E H]]]]].
      * exists [], c, r. split; [reflexivity | symmetry; exact H].
      * exists (c :: pre), c0, post. split; [rewrite E; reflexivity | exact H].
    + intros [pre [c0 [post [E H]]]]. destruct pre as [|p pre]; cbn [app] in E; inversion E; subst.
      * left. reflexivity.
      * right. exists pre, c0, post. auto.
Qed.

Lemma in_assign cf : forall t c l, In (c, l) (clip_assign cf t) <->
  exists u, In u (subs_t t) /\ kid_clip cf (tkids u) c l.
Proof.
  apply (tree_ind2 (fun t => forall c l, In (c, l) (clip_assign cf t) <->
           exists u, In u (subs_t t) /\ kid_clip cf (tkids u) c l)).
  intros j ks IH c l. rewrite clip_assign_eq, in_concat. rewrite Forall_forall in IH. split.
  - intros [ch [Hch Hin]]. apply in_rev, in_chunks in Hch as [pre [x [post [E Ech]]]]. subst ch.
    apply in_app_iff in Hin as [Hin|Hin].
    + destruct (cf (tid x)) eqn:Cx; [contradiction|]. destruct Hin as [Hin|[]]. inversion Hin; subst.
      exists (T j (pre ++ x :: post)). split; [left; reflexivity|]. exists pre, x, post. auto.
    + assert (Hx : In x ks) by (rewrite E; apply in_or_app; right; left; reflexivity).
      apply (IH x Hx) in Hin as [u [Hu Hk]]. exists u. split; [|exact Hk].
      cbn [subs_t]. right. apply in_flat_map. exists x. auto.
  - intros [u [Hu [pre [x [post [E [Ex [Cx El]]]]]]]]. cbn [subs_t] in Hu. destruct Hu as [Hu|Hu].
    + subst u. cbn [tkids] in E.
      exists ((if cf (tid x) then [] else [(tid x, takewhile cf (map tid post))]) ++ clip_assign cf x). split.
      * apply -> in_rev. apply in_chunks. exists pre, x, post. auto.
      * apply in_or_app. left. rewrite Ex, Cx. left. rewrite El. reflexivity.
    + apply in_flat_map in Hu as [y [Hy Huy]].
      assert (Hin : In (c, l) (clip_assign cf y)).
      { apply (IH y Hy). exists u. split; [exact Huy|]. exists pre, x, post. auto. }
      apply in_split in Hy as [p1 [p2 Ey]].
      exists ((if cf (tid y) then [] else [(tid y, takewhile cf (map tid p2))]) ++ clip_assign cf y). split.
      * apply -> in_rev. apply in_chunks. exists p1, y, p2. auto.
      * apply in_or_app. right. exact Hin.
Qed.

(* every object receives at most one assignment *)
Lemma cnt_concat_rev {A} (f : A -> Z) y : forall L : list (list A),
  cnt y (map f (concat (rev L))) = cnt y (map f (concat L)).
Proof.
  induction L as [|a L IH]; [reflexivity|]. cbn [rev concat]. rewrite concat_app, !map_app, !cnt_app, IH. cbn [concat].
  rewrite app_nil_r. lia.
Qed.
Lemma keys_le cf : forall t y, (cnt y (map fst (clip_assign cf t)) <= cnt y (ids_l (tkids t)))%nat.
Proof.
  apply (tree_ind2 (fun t => forall y, (cnt y (map fst (clip_assign cf t)) <= cnt y (ids_l (tkids t)))%nat)).
  intros j ks IH y. rewrite clip_assign_eq, cnt_concat_rev. cbn [tkids].
  induction ks as [|c r IHr]; [cbn; lia|]. inversion IH; subst.
  cbn [chunks concat]. rewrite !map_app, !cnt_app, ids_l_cons, cnt_app. specialize (IHr H2). specialize (H1 y).
  destruct c as [i kk]. cbn [tid tkids] in *. rewrite ids_t_eq, cnt_cons.
  destruct (cf i); cbn [map]; [rewrite cnt_nil | rewrite cnt_cons, cnt_nil; cbn [fst]]; destruct (Z.eq_dec i y); lia.
Qed.

(* applying the assignments *)
Definition assign (st : state) (a : Z * list Z) : state := mod_obj st (fst a) (with_clips (snd a)).
Lemma fold_assign : forall A st, NoDup (map fst A) ->
  (forall c l, In (c, l) A -> oclips (objs (fold_left assign A st) c) = l)
  /\ (forall c, ~ In c (map fst A) -> oclips (objs (fold_left assign A st) c) = oclips (objs st c)).
Proof.
  induction A as [|[k v] A IH]; intros st N; [split; [intros c l [] | reflexivity]|].
  cbn [map fst] in N. inversion N as [|? ? Hn Nr]; subst. cbn [fold_left]. destruct (IH (assign st (k, v)) Nr) as [I1 I2]. split.
  - intros c l [H|H]; [|apply I1, H]. inversion H; subst. rewrite (I2 c Hn).
    unfold assign, mod_obj, set_objs, upd. cbn [objs fst snd]. rewrite Z.eqb_refl. reflexivity.
  - intros c Hc. cbn [map fst In] in Hc. rewrite I2 by tauto.
    unfold assign, mod_obj, set_objs, upd. cbn [objs fst snd]. destruct (c =? k) eqn:E; [apply Z.eqb_eq in E; subst; tauto | reflexivity].
Qed.
Lemma fold_assign_other : forall A st i, oclipf (objs (fold_left assign A st) i) = oclipf (objs st i).
Proof.
  induction A as [|a A IH]; intros st i; [reflexivity|]. cbn [fold_left]. rewrite IH.
  unfold assign, mod_obj, set_objs, upd. cbn [objs]. destruct (i =? fst a) eqn:E; [apply Z.eqb_eq in E; subst|]; reflexivity.
Qed.

(* ---------------------------------------------------------------- the specification and what _compute_clipping_layers achieves *)
Definition cfl s (i : Z) : bool := oclipf (objs s i).
Definition KidsCur s (a : Z) : Prop :=
  forall pre c post, kid_ids s a = pre ++ c :: post ->
    oclips (objs s c) = if cfl s c then [] else takewhile (cfl s) post.
Definition TreeCur s (d : Z) : Prop := forall a, (a = d \/ below s d a) -> KidsCur s a.
Definition Current s : Prop := forall d, kind s d = KDoc -> In d (ids_l (roots s)) -> TreeCur s d.

Lemma map_split {A B} (f : A -> B) : forall l p c q, map f l = p ++ c :: q ->
  exists l1 x l2, l = l1 ++ x :: l2 /\ map f l1 = p /\ f x = c /\ map f l2 = q.
Proof.
  induction l as [|y r IH]; intros p c q E; [destruct p; discriminate|].
  destruct p as [|p0 p]; cbn [map app] in E; inversion E; subst.
  - exists [], y, r. auto.
  - destruct (IH p c q H1) as [l1 [x [l2 [E1 [E2 [E3 E4]]]]]]. exists (y :: l1), x, l2. subst. auto.
Qed.

Lemma takewhile_ext (f g : Z -> bool) : (forall i, f i = g i) -> forall l, takewhile f l = takewhile g l.
Proof. intros H l. induction l as [|x r IH]; [reflexivity|]. cbn. rewrite H, IH. reflexivity. Qed.

Lemma subs_of_below s d a : NoDup (ids_l (roots s)) -> In d (ids_l (roots s)) -> (a = d \/ below s d a) ->
  In (subtree s a) (subs_t (subtree s d)).
Proof.
  intros N Hd [->|B]; [apply subs_self|].
  apply (below_induct s d (fun z => In (subtree s z) (subs_t (subtree s d))) Hd (subs_self _)); [|exact B].
  intros u w He Hu. destruct (edges_l_in_ids _ _ _ He) as [Huin _].
  pose proof (edge_from_found _ _ _ _ N (found_node s u Huin) He) as Hk. apply in_map_iff in Hk as [dw [Ew Hdw]].
  rewrite <- Ew, (kids_found s u N Huin dw Hdw). rewrite (subtree_node s u Huin) in Hu.
  apply (subs_child_t _ u (kids_of s u) dw Hu Hdw).
Qed.

Lemma compute_clipping_result s d : NoDup (ids_l (roots s)) -> quiet s -> In d (ids_l (roots s)) ->
  TreeCur (compute_clipping s d) d
  /\ (forall c, ~ below s d c -> oclips (objs (compute_clipping s d) c) = oclips (objs s c))
  /\ (forall i, cfl (compute_clipping s d) i = cfl s i).
Proof.
  intros N Q Hd. pose proof (compute_clipping_ptr s d) as P. pose proof (ps_roots _ _ P) as R.
  unfold compute_clipping in *.
  set (s1 := map_objs s (descendants s d) (with_clips [])) in *.
  set (A := clip_assign (fun i => oclipf (objs s i)) (subtree s d)) in *.
  change (fold_left (fun st a => mod_obj st (fst a) (with_clips (snd a))) A s1) with (fold_left assign A s1) in *.
  assert (NA : NoDup (map fst A)).
  { apply NoDup_cnt. intro y. pose proof (keys_le (fun i => oclipf (objs s i)) (subtree s d) y) as H. fold A in H.
    rewrite (subtree_node s d Hd) in H. cbn [tkids] in H.
    destruct (find_l_sub _ _ _ (found_node s d Hd)) as [_ [Sub _]]. specialize (Sub y). rewrite ids_t_eq, cnt_cons in Sub.
    apply NoDup_cnt with (x := y) in N. destruct (Z.eq_dec d y); lia. }
  destruct (fold_assign A s1 NA) as [F1 F2].
  assert (Fcf : forall i, cfl (fold_left assign A s1) i = cfl s i).
  { intro i. unfold cfl. rewrite fold_assign_other. unfold s1, map_objs, set_objs. cbn [objs]. destruct (memz i _); reflexivity. }
  assert (Hs1 : forall c, oclips (objs s1 c) = if memz c (descendants s d) then [] else oclips (objs s c)).
  { intro c. unfold s1, map_objs, set_objs. cbn [objs]. destruct (memz c _); reflexivity. }
  assert (Hkey : forall c, In c (map fst A) -> below s d c).
  { intros c Hc. apply in_map_iff in Hc as [[c0 l] [E Hin]]. cbn in E. subst c0.
    apply cnt_In. pose proof (keys_le (fun i => oclipf (objs s i)) (subtree s d) c) as H. fold A in H.
    assert (In c (map fst A)) by (apply in_map_iff; exists (c, l); auto). apply cnt_In in H0.
    rewrite (subtree_node s d Hd) in H. cbn [tkids] in H. unfold below. lia. }
  split; [|split].
  - intros a Ha' pre c post Ek. rewrite Fcf.
    assert (Ha : a = d \/ below s d a) by (destruct Ha' as [E|B]; [left; exact E | right; apply (below_roots s _ d a R); exact B]).
    assert (Ek0 : kid_ids s a = pre ++ c :: post) by (rewrite <- Ek; symmetry; apply kids_eq_roots; exact R).
    assert (Hain : In a (ids_l (roots s))) by (destruct Ha as [->|B]; [exact Hd | destruct (in_dec Z.eq_dec a (ids_l (roots s))) as [|Hn]; [assumption|]; unfold kid_ids in Ek0; rewrite (kids_of_notin s a Hn) in Ek0; destruct pre; discriminate]).
    unfold kid_ids in Ek0. destruct (map_split tid _ _ _ _ Ek0) as [l1 [x [l2 [E1 [E2 [E3 E4]]]]]].
    assert (Bc : below s d c).
    { assert (Bac : below s a c).
      { unfold below. rewrite E1. rewrite ids_l_app, ids_l_cons. apply in_or_app. right. apply in_or_app. left. rewrite <- E3. apply tid_in_ids. }
      destruct Ha as [->|B]; [exact Bac | apply (below_trans s d a c N B Bac)]. }
    destruct (cfl s c) eqn:Cc.
    + (* a clipping layer gets no assignment and was cleared *)
      rewrite F2.
      * rewrite Hs1. rewrite (descendants_quiet s d Q). apply memz_In in Bc. unfold below in Bc. rewrite Bc. reflexivity.
      * intro Hk. apply in_map_iff in Hk as [[c0 l] [E Hin]]. cbn in E. subst c0.
        apply in_assign in Hin as [u [_ [p0 [x0 [q0 [_ [Ex0 [Cf0 _]]]]]]]]. unfold cfl in Cc. rewrite Cf0 in Cc. discriminate.
    + rewrite (takewhile_ext _ _ Fcf post). apply F1. apply in_assign. exists (subtree s a). split; [apply subs_of_below; assumption|].
      rewrite (subtree_node s a Hain). cbn [tkids]. exists l1, x, l2. split; [exact E1|]. split; [exact E3|].
      split; [exact Cc|]. rewrite E4. reflexivity.
  - intros c Hc. rewrite F2; [|intro Hk; exact (Hc (Hkey c Hk))].
    rewrite Hs1. rewrite (descendants_quiet s d Q). apply memz_false_notin in Hc. unfold below in Hc. rewrite Hc. reflexivity.
  - exact Fcf.
Qed.

(* ---------------------------------------------------------------- recomputing one region keeps the rest *)
Definition under s (d a : Z) : Prop := a = d \/ below s d a.

Lemma classic_under s d a : under s d a \/ ~ under s d a.
Proof.
  unfold under, below. destruct (Z.eq_dec a d) as [E|E]; [left; left; exact E|].
  destruct (in_dec Z.eq_dec a (ids_l (kids_of s d))) as [H|H]; [left; right; exact H | right; intros [H1|H1]; contradiction].
Qed.

Lemma KidsCur_ext s s' a : kid_ids s' a = kid_ids s a -> (forall i, cfl s' i = cfl s i) ->
  (forall c, In c (kid_ids s a) -> oclips (objs s' c) = oclips (objs s c)) -> KidsCur s a -> KidsCur s' a.
Proof.
  intros K F O H pre c post E. rewrite K in E. rewrite F, (takewhile_ext _ _ F post), O; [apply (H pre c post E)|].
  rewrite E. apply in_or_app. right. left. reflexivity.
Qed.

Lemma below_in_c s a c : below s a c -> In c (ids_l (roots s)).
Proof.
  intro B. pose proof (below_in s a c B) as Ha. destruct (find_l_sub _ _ _ (found_node s a Ha)) as [_ [Sub _]].
  apply cnt_In. specialize (Sub c). rewrite ids_t_eq, cnt_cons in Sub. apply cnt_In in B. destruct (Z.eq_dec a c); lia.
Qed.
Lemma inval_up_clipf f : forall s x i, oclipf (objs (inval_up f s x) i) = oclipf (objs s i).
Proof.
  induction f as [|f IH]; intros s x i; [reflexivity|]. simpl.
  set (s1 := if is_container s x then mod_obj s x (with_cache None) else s).
  assert (E1 : oclipf (objs s1 i) = oclipf (objs s i)).
  { unfold s1. destruct (is_container s x); [|reflexivity]. unfold mod_obj, set_objs, upd. cbn [objs].
    destruct (i =? x) eqn:E; [apply Z.eqb_eq in E; subst|]; reflexivity. }
  destruct (oparent (objs s x)); [rewrite IH|]; exact E1.
Qed.

Lemma compute_keeps_current s d : NoDup (ids_l (roots s)) -> quiet s ->
  (forall d' a, kind s d' = KDoc -> In d' (ids_l (roots s)) -> under s d' a -> ~ under s d a -> KidsCur s a) ->
  Current (compute_clipping s d).
Proof.
  intros N Q Hout d' Kd Hd' a Ha.
  pose proof (compute_clipping_ptr s d) as P. pose proof (ps_roots _ _ P) as R.
  assert (Kd0 : kind s d' = KDoc) by (rewrite <- (ptr_same_kind _ _ d' P); exact Kd).
  assert (Hd0 : In d' (ids_l (roots s))) by (rewrite <- R; exact Hd').
  assert (Ha0 : under s d' a) by (destruct Ha as [E|B]; [left; exact E | right; apply (below_roots s _ d' a R); exact B]).
  destruct (classic_under s d a) as [U|U].
  - assert (Hdin : In d (ids_l (roots s))).
    { destruct U as [E|B]; [|apply (below_in _ _ _ B)]. subst a. destruct Ha0 as [->|B0]; [exact Hd0 | apply (below_in_c _ _ _ B0)]. }
    destruct (compute_clipping_result s d N Q Hdin) as [T _]. apply T.
    destruct U as [E|B]; [left; exact E | right; apply (below_roots s _ d a R); exact B].
  - destruct (in_dec Z.eq_dec d (ids_l (roots s))) as [Hdin|Hdn].
    + destruct (compute_clipping_result s d N Q Hdin) as [_ [Fr Fc]].
      apply (KidsCur_ext s); [apply kids_eq_roots; exact R | exact Fc | | apply (Hout d' a Kd0 Hd0 Ha0 U)].
      intros c Hc. apply Fr. intro Bc.
      (* c is listed in a; if c were below d, a would be d or below d *)
      destruct (in_dec Z.eq_dec a (ids_l (roots s))) as [Hain|Han]; [|unfold kid_ids in Hc; rewrite (kids_of_notin s a Han) in Hc; contradiction].
      pose proof (kids_are_edges _ _ _ _ (found_node s a Hain) Hc) as He.
      destruct (below_closed_up _ _ _ _ _ N (found_node s d Hdin) He Bc) as [E|B]; apply U; [left; exact E | right; exact B].
    + (* d is not in the forest: nothing is recomputed *)
      assert (E0 : forall i, oclips (objs (compute_clipping s d) i) = oclips (objs s i) /\ cfl (compute_clipping s d) i = cfl s i).
      { intro i. unfold compute_clipping, subtree. rewrite (find_l_notin _ _ Hdn). cbn [clip_assign rev concat fold_left].
        unfold descendants. rewrite (kids_of_notin s d Hdn). cbn [flat_map]. unfold map_objs, set_objs, cfl. cbn [objs memz existsb]. auto. }
      apply (KidsCur_ext s); [apply kids_eq_roots; exact R | intro i; apply E0 | intros c _; apply E0 | apply (Hout d' a Kd0 Hd0 Ha0 U)].
Qed.

(* ---------------------------------------------------------------- Current through bookkeeping steps *)
Lemma under_roots s s' d a : roots s' = roots s -> (under s' d a <-> under s d a).
Proof. intro R. unfold under. rewrite (below_roots s s' d a R). tauto. Qed.

Lemma KidsCur_ext_in s s' a : kid_ids s' a = kid_ids s a ->
  (forall c, In c (kid_ids s a) -> cfl s' c = cfl s c /\ oclips (objs s' c) = oclips (objs s c)) -> KidsCur s a -> KidsCur s' a.
Proof.
  intros K F H pre c post E. rewrite K in E.
  assert (Hc : In c (kid_ids s a)) by (rewrite E; apply in_or_app; right; left; reflexivity).
  destruct (F c Hc) as [Fc Oc]. rewrite Fc, Oc, (H pre c post E). destruct (cfl s c); [reflexivity|].
  assert (Hp : forall y, In y post -> cfl s' y = cfl s y).
  { intros y Hy. apply F. rewrite E. apply in_or_app. right. right. exact Hy. }
  clear -Hp. induction post as [|y r IH]; [reflexivity|]. cbn. rewrite (Hp y (or_introl eq_refl)).
  destruct (cfl s y); [f_equal; apply IH; intros; apply Hp; right; assumption | reflexivity].
Qed.

Lemma cur_bookkeeping s s' : roots s' = roots s -> (forall i, kind s' i = kind s i) ->
  (forall i, oclips (objs s' i) = oclips (objs s i) /\ cfl s' i = cfl s i) -> Current s -> Current s'.
Proof.
  intros R K F C d Kd Hd a Ha. rewrite K in Kd. rewrite R in Hd. apply (under_roots s s' d a R) in Ha.
  apply (KidsCur_ext s); [apply kids_eq_roots; exact R | intro i; apply F | intros c _; apply F | apply (C d Kd Hd a Ha)].
Qed.

(* ---------------------------------------------------------------- the structural unit: lists change at g only, then _update_psd_record *)
Lemma under_doc_psd s d g : Inv s -> kind s d = KDoc -> under s d g -> eff_psd s g = Some d.
Proof.
  intros HI K [->|B]; unfold eff_psd.
  - rewrite K, Z.eqb_refl. reflexivity.
  - assert (Kg : kind s g <> KDoc).
    { pose proof (inv_nodup s HI) as N. pose proof (below_in s d g B) as Hd.
      destruct (root_or_child _ _ B) as [Hr|[b Hb]].
      - pose proof (kids_are_edges _ _ _ _ (found_node s d Hd) Hr) as He.
        destruct HI as [_ [_ [_ [Hk _]]]]. rewrite Forall_forall in Hk. destruct (Hk _ He) as [_ L]. apply layer_not_doc. exact L.
      - destruct (find_l_sub _ _ _ (found_node s d Hd)) as [_ [_ Sub]].
        assert (He : In (b, g) (edges_l (roots s))) by (apply Sub; rewrite edges_t_eq, in_app_iff; right; exact Hb).
        destruct HI as [_ [_ [_ [Hk _]]]]. rewrite Forall_forall in Hk. destruct (Hk _ He) as [_ L]. apply layer_not_doc. exact L. }
    apply Z.eqb_neq in Kg. rewrite Kg. apply (I3_global s d g HI K B).
Qed.

Lemma cur_unit s s2 g : Good s -> Inv s2 -> quiet s2 -> fixedv s2 -> next s2 = next s ->
  (forall a, a <> g -> kid_ids s2 a = kid_ids s a) ->
  (forall i, oclips (objs s2 i) = oclips (objs s i) /\ cfl s2 i = cfl s i) ->
  (forall i, kind s2 i = kind s i) ->
  Current s -> Current (mark_dirty s2 g).
Proof.
  intros [HI Q] HI2 Q2 [Cf Cl] Nx K1 F Kk C.
  pose proof (inv_nodup s HI) as N. pose proof (inv_nodup s2 HI2) as N2.
  pose proof (ids_same s s2 HI HI2 Nx) as Hids.
  (* nodes of a document tree that does not contain g are as they were *)
  assert (A : forall d' a, kind s2 d' = KDoc -> In d' (ids_l (roots s2)) -> under s2 d' a -> ~ under s2 d' g -> KidsCur s2 a).
  { intros d' a Kd Hd Ha Hg.
    assert (Kd0 : kind s d' = KDoc) by (rewrite <- Kk; exact Kd). assert (Hd0 : In d' (ids_l (roots s))) by (apply Hids; exact Hd).
    assert (T : forall z, under s2 d' z -> under s d' z).
    { intros z [->|B]; [left; reflexivity|].
      refine (proj2 (below_induct s2 d' (fun z => under s2 d' z /\ under s d' z) Hd (conj (or_introl eq_refl) (or_introl eq_refl)) _ z B)).
      intros u w He [Hu2 Hu]. assert (Hug : u <> g) by (intro E; subst; exact (Hg Hu2)).
      destruct (edges_l_in_ids _ _ _ He) as [Huin _].
      pose proof (edge_from_found _ _ _ _ N2 (found_node s2 u Huin) He) as Hw. change (In w (kid_ids s2 u)) in Hw. rewrite (K1 u Hug) in Hw.
      assert (Hu0 : In u (ids_l (roots s))) by (apply Hids; exact Huin).
      pose proof (kids_are_edges _ _ _ _ (found_node s u Hu0) Hw) as He0.
      split.
      - right. destruct Hu2 as [->|B2]; [apply (child_below s2 d' w He N2) | apply (below_trans s2 d' u w N2 B2 (child_below s2 u w He N2))].
      - right. destruct Hu as [->|B0]; [apply (child_below s d' w He0 N) | apply (below_trans s d' u w N B0 (child_below s u w He0 N))]. }
    assert (Hag : a <> g) by (intro E; subst; exact (Hg Ha)).
    apply (KidsCur_ext s); [apply K1, Hag | intro i; apply F | intros c _; apply F | apply (C d' Kd0 Hd0 a (T a Ha))]. }
  unfold mark_dirty. rewrite Cf, Cl.
  set (s0 := inval_up (fuel_of s2) s2 g).
  assert (P0 : ptr_same s2 s0) by apply inval_up_ptr. assert (C0 : cl_same s2 s0) by apply inval_up_cl.
  assert (F0 : forall i, cfl s0 i = cfl s2 i) by (intro i; unfold cfl, s0; apply inval_up_clipf).
  assert (E0 : eff_psd s0 g = eff_psd s2 g) by (unfold eff_psd; rewrite (ptr_same_kind _ _ g P0), (ps_psd _ _ P0); reflexivity).
  rewrite E0. destruct (eff_psd s2 g) as [dg|] eqn:Eg.
  - set (s3 := mod_obj s0 dg (with_dirty true)).
    assert (P3 : ptr_same s2 s3) by (eapply ptr_same_trans; [exact P0 | apply mod_obj_ptr, keeps_dirty]).
    assert (C3 : cl_same s2 s3) by (eapply cl_same_trans; [exact C0 | apply mod_obj_cl, kcl_dirty]).
    assert (F3 : forall i, cfl s3 i = cfl s2 i).
    { intro i. rewrite <- F0. unfold cfl, s3, mod_obj, set_objs, upd. cbn [objs]. destruct (i =? dg) eqn:E; [apply Z.eqb_eq in E; subst|]; reflexivity. }
    pose proof (ps_roots _ _ P3) as R3.
    apply compute_keeps_current.
    + rewrite R3. exact N2.
    + apply (cl_same_quiet _ _ C3 Q2).
    + intros d' a Kd Hd Ha Hn. rewrite (ptr_same_kind _ _ d' P3) in Kd. rewrite R3 in Hd.
      apply (under_roots s2 s3 d' a R3) in Ha.
      apply (KidsCur_ext s2); [apply kids_eq_roots; exact R3 | exact F3 | intros c _; apply (proj2 C3) |].
      apply (A d' a Kd Hd Ha). intro Hg. apply Hn. apply (under_roots s2 s3 dg a R3).
      pose proof (under_doc_psd s2 d' g HI2 Kd Hg) as E. rewrite Eg in E. inversion E; subst. exact Ha.
  - apply (cur_bookkeeping s2 s0 (ps_roots _ _ P0)); [intro i; apply (ptr_same_kind _ _ i P0) | intro i; split; [apply (proj2 C0) | apply F0]|].
    intros d' Kd Hd a Ha. apply (A d' a Kd Hd Ha). intro Hg.
    pose proof (under_doc_psd s2 d' g HI2 Kd Hg) as E. rewrite Eg in E. discriminate.
Qed.

(* ---------------------------------------------------------------- the hypotheses of Edit/ProofsGen.v for Current *)
Lemma cur_read s g : Current s -> Current (fst (read_bbox s g)).
Proof.
  intro C. pose proof (sbc_read_bbox s g) as [R [_ [_ [_ H]]]].
  apply (cur_bookkeeping s); [exact R | | | exact C].
  - intro i. unfold kind. destruct (nocache_fields _ _ (H i)) as [E _]. exact E.
  - intro i. unfold cfl. destruct (nocache_fields _ _ (H i)) as [_ [_ [_ [_ [_ [A [B _]]]]]]]. auto.
Qed.

Lemma cur_detach s s1 g : Good s -> fixedv s ->
  objs s1 = objs s -> next s1 = next s -> conf s1 = conf s -> Inv s1 -> In g (ids_l (roots s1)) ->
  (forall a, a <> g -> kid_ids s1 a = kid_ids s a) -> (forall c, In c (kid_ids s1 g) -> In c (kid_ids s g)) ->
  Current s -> Current (mark_dirty s1 g).
Proof.
  intros G Fx O Nx Cx HI1 _ K1 _ C.
  apply (cur_unit s s1 g G HI1); try assumption.
  - apply (cl_same_quiet s); [apply objs_same_cl; assumption | apply G].
  - unfold fixedv. rewrite Cx. exact Fx.
  - intro i. unfold cfl. rewrite O. auto.
  - intro i. unfold kind. rewrite O. reflexivity.
Qed.

Lemma meta_clipf s g i : oclipf (objs (meta s g) i) = oclipf (objs s i).
Proof.
  unfold meta, inval_below, map_objs, set_objs.
  destruct (cachefix (conf s)); destruct (eff_psd s g); cbn [objs];
    repeat match goal with |- context [if ?b then _ else _] => destruct b end; reflexivity.
Qed.

Lemma cur_attach s s1 g xs : Good s -> fixedv s ->
  objs s1 = objs s -> next s1 = next s -> conf s1 = conf s -> InvG s1 g -> In g (ids_l (roots s1)) ->
  (forall a, a <> g -> kid_ids s1 a = kid_ids s a) ->
  (forall c, In c (kid_ids s1 g) -> In c (kid_ids s g) \/ In c xs) ->
  (forall x, In x xs -> In x (kid_ids s1 g) /\ rootid s x /\ kind s x <> KDoc) ->
  In g (ids_l (roots s)) ->
  Current s -> Current (mark_dirty (meta s1 g) g).
Proof.
  intros G Fx O Nx Cx HG1 Hg1 K1 _ _ _ C.
  assert (Q1 : quiet s1) by (apply (cl_same_quiet s); [apply objs_same_cl; assumption | apply G]).
  destruct (meta_frame s1 g) as [Fr [Fn [Fc Ff]]].
  apply (cur_unit s (meta s1 g) g G (meta_inv s1 g HG1 Q1 Hg1)).
  - apply (cl_same_quiet s1); [apply meta_cl | exact Q1].
  - unfold fixedv. rewrite Ff, Cx. exact Fx.
  - rewrite Fn. exact Nx.
  - intros a Ha. rewrite meta_kids. apply K1, Ha.
  - intro i. unfold cfl. rewrite meta_clipf, (proj2 (meta_cl s1 g) i), O. auto.
  - intro i. unfold kind. rewrite meta_kind, O. reflexivity.
  - exact C.
Qed.

Lemma subtree_alloc s o a : In a (ids_l (roots s)) -> subtree (alloc s o) a = subtree s a.
Proof. intro H. unfold subtree, alloc. cbn [roots]. rewrite find_l_app, (found_node s a H). reflexivity. Qed.

Lemma cur_alloc s o : Good s -> oparent o = None -> ocache o = None -> oclips o = [] -> oclipf o = false ->
  Current s -> Current (alloc s o).
Proof.
  intros [HI Q] _ _ _ _ C d Kd Hd a Ha. pose proof HI as [_ [_ [_ [_ [H5 _]]]]].
  set (n := next s) in *.
  assert (Hobj : forall i, i <> n -> objs (alloc s o) i = objs s i).
  { intros i Hi. unfold alloc, upd. cbn [objs]. fold n. apply Z.eqb_neq in Hi. rewrite Hi. reflexivity. }
  assert (Hlt : forall i, In i (ids_l (roots s)) -> i <> n) by (intros i Hi; apply H5 in Hi; unfold n; lia).
  unfold alloc in Hd. cbn [roots] in Hd. rewrite ids_l_snoc, in_app_iff in Hd. destruct Hd as [Hd|[Hd|[]]].
  - (* an old document *)
    assert (Es : subtree (alloc s o) d = subtree s d) by (apply subtree_alloc; exact Hd).
    assert (Ha0 : under s d a).
    { destruct Ha as [E|B]; [left; exact E | right]. unfold below, kids_of in *. rewrite Es in B. exact B. }
    assert (Hain : In a (ids_l (roots s))) by (destruct Ha0 as [->|B]; [exact Hd | apply (below_in_c _ _ _ B)]).
    assert (Kd0 : kind s d = KDoc) by (unfold kind in *; rewrite (Hobj d (Hlt d Hd)) in Kd; exact Kd).
    apply (KidsCur_ext_in s); [apply alloc_kids; exact HI | | apply (C d Kd0 Hd a Ha0)].
    intros c Hc. assert (Hcn : c <> n).
    { apply Hlt. pose proof (kids_are_edges _ _ _ _ (found_node s a Hain) Hc) as He. apply (edges_l_in_ids _ _ _ He). }
    unfold cfl. rewrite (Hobj c Hcn). auto.
  - (* the new object: nothing is listed in it *)
    subst d. intros pre c post E. exfalso.
    assert (Hk : forall z, under (alloc s o) n z -> kid_ids (alloc s o) z = []).
    { assert (Kn : kid_ids (alloc s o) n = []).
      { rewrite (alloc_kids s o n HI). unfold kid_ids. rewrite kids_of_notin; [reflexivity|]. intro Hn. exact (Hlt n Hn eq_refl). }
      intros z [->|B]; [exact Kn|]. unfold below in B. unfold kid_ids in Kn. destruct (kids_of (alloc s o) n); [contradiction | discriminate]. }
    rewrite (Hk a Ha) in E. destruct pre; discriminate.
Qed.

Lemma mod_obj_clipf s i f j : (forall o, oclipf (f o) = oclipf o) -> oclipf (objs (mod_obj s i f) j) = oclipf (objs s j).
Proof. intro K. unfold mod_obj, set_objs, upd. cbn [objs]. destruct (j =? i) eqn:E; [apply Z.eqb_eq in E; subst; apply K | reflexivity]. Qed.
Lemma inval_below_clipf s g i : oclipf (objs (inval_below s g) i) = oclipf (objs s i).
Proof. unfold inval_below, map_objs, set_objs. cbn [objs]. destruct (memz i _); reflexivity. Qed.

Lemma cur_setvis s x b : Good s -> fixedv s -> alloc_ok s x -> Current s -> Current (fst (do_set_visible s x b)).
Proof.
  intros G [Cf _] _ C. destruct (frame_set_visible s x b) as [P [_ O]].
  apply (cur_bookkeeping s); [apply (ps_roots _ _ P) | intro i; apply (ptr_same_kind _ _ i P) | | exact C].
  intro i. split; [apply O|]. unfold cfl, do_set_visible. destruct (is_layer s x); cbn [negb fst]; [|reflexivity].
  unfold invalidate. rewrite Cf. cbn [fst].
  destruct (true && (kind s x =? KGroup)); [rewrite inval_below_clipf|];
    (rewrite mod_obj_clipf; [apply inval_up_clipf | intro o; reflexivity]).
Qed.
Lemma cur_setleft s x v : Good s -> fixedv s -> alloc_ok s x -> Current s -> Current (fst (do_set_left s x v)).
Proof.
  intros G [Cf _] _ C. destruct (frame_set_left s x v) as [P [_ O]].
  apply (cur_bookkeeping s); [apply (ps_roots _ _ P) | intro i; apply (ptr_same_kind _ _ i P) | | exact C].
  intro i. split; [apply O|]. unfold cfl, do_set_left. destruct (kind s x =? KPixel); cbn [negb fst]; [|reflexivity].
  unfold invalidate. rewrite Cf. cbn [fst]. destruct (orect (objs s x)) as [[[l t] r] bt]. cbn [fst].
  rewrite mod_obj_clipf; [apply inval_up_clipf | intro o; reflexivity].
Qed.
Lemma cur_settop s x v : Good s -> fixedv s -> alloc_ok s x -> Current s -> Current (fst (do_set_top s x v)).
Proof.
  intros G [Cf _] _ C. destruct (frame_set_top s x v) as [P [_ O]].
  apply (cur_bookkeeping s); [apply (ps_roots _ _ P) | intro i; apply (ptr_same_kind _ _ i P) | | exact C].
  intro i. split; [apply O|]. unfold cfl, do_set_top. destruct (kind s x =? KPixel); cbn [negb fst]; [|reflexivity].
  unfold invalidate. rewrite Cf. cbn [fst]. destruct (orect (objs s x)) as [[[l t] r] bt]. cbn [fst].
  rewrite mod_obj_clipf; [apply inval_up_clipf | intro o; reflexivity].
Qed.

Lemma cur_setclip s x b : Good s -> fixedv s -> alloc_ok s x -> Current s -> Current (fst (do_set_clip s x b)).
Proof.
  intros [HI Q] _ _ C. pose proof (inv_nodup s HI) as N. unfold do_set_clip.
  destruct (is_layer s x); cbn [negb]; [|exact C].
  set (s1 := mod_obj s x (with_clipf b)).
  assert (P1 : ptr_same s s1) by apply mod_obj_ptr, keeps_clipf.
  assert (R1 : roots s1 = roots s) by apply (ps_roots _ _ P1).
  assert (Q1 : quiet s1) by (apply (cl_same_quiet s); [apply mod_obj_cl, kcl_clipf | exact Q]).
  (* a list that does not contain x is as before *)
  assert (L : forall d' a, kind s d' = KDoc -> In d' (ids_l (roots s)) -> under s d' a -> ~ In x (kid_ids s a) -> KidsCur s1 a).
  { intros d' a Kd Hd Ha Hx. apply (KidsCur_ext_in s); [apply kids_eq_roots; exact R1 | | apply (C d' Kd Hd a Ha)].
    intros c Hc. assert (Hcx : c <> x) by (intro E; subst; contradiction).
    unfold cfl, s1, mod_obj, set_objs, upd. cbn [objs]. apply Z.eqb_neq in Hcx. rewrite Hcx. auto. }
  (* if x is listed below a document, it reports that document *)
  assert (Hp : forall d' a, kind s d' = KDoc -> under s d' a -> In x (kid_ids s a) -> opsd (objs s x) = Some d').
  { intros d' a Kd Ha Hx.
    assert (Hain : In a (ids_l (roots s))) by (destruct (in_dec Z.eq_dec a (ids_l (roots s))) as [|Hn]; [assumption|]; unfold kid_ids in Hx; rewrite (kids_of_notin s a Hn) in Hx; contradiction).
    pose proof (kids_are_edges _ _ _ _ (found_node s a Hain) Hx) as He.
    apply (I3_global s d' x HI Kd). destruct Ha as [->|B]; [apply (child_below s d' x He N) | apply (below_trans s d' a x N B (child_below s a x He N))]. }
  assert (Cs1 : opsd (objs s x) = None -> Current s1).
  { intros Pn d' Kd Hd a Ha. rewrite (ptr_same_kind _ _ d' P1) in Kd. rewrite R1 in Hd. apply (under_roots s s1 d' a R1) in Ha.
    apply (L d' a Kd Hd Ha). intro Hx. rewrite (Hp d' a Kd Ha Hx) in Pn. discriminate. }
  assert (Cc : forall d, opsd (objs s x) = Some d -> Current (compute_clipping s1 d)).
  { intros d Pd. apply compute_keeps_current; [rewrite R1; exact N | exact Q1|].
    intros d' a Kd Hd Ha Hn. rewrite (ptr_same_kind _ _ d' P1) in Kd. rewrite R1 in Hd. apply (under_roots s s1 d' a R1) in Ha.
    apply (L d' a Kd Hd Ha). intro Hx. pose proof (Hp d' a Kd Ha Hx) as E. rewrite Pd in E. inversion E; subst.
    apply Hn. apply (under_roots s s1 d' a R1). exact Ha. }
  destruct (clipfix (conf s)).
  - destruct (opsd (objs s x)) as [d|] eqn:Pd; cbn [fst]; [apply Cc; reflexivity | apply Cs1; reflexivity].
  - destruct (opsd (objs s x)) as [d|] eqn:Pd; [|exact C]. destruct (0 <? zlen (kids_of s d)); [|exact C]. cbn [fst]. apply Cc. reflexivity.
Qed.

(* ================================================================ the theorems *)
Theorem step_current s o : Good s -> fixedv s -> guard s o -> Current s -> Current (fst (step s o)).
Proof.
  apply (ProofsGen.step_gen Current cur_read cur_detach cur_attach cur_alloc cur_setvis cur_setleft cur_settop cur_setclip).
Qed.

Theorem run_current : forall h s, Good s -> fixedv s -> guards s h -> Current s -> Current (run s h).
Proof.
  apply (ProofsGen.run_gen Current cur_read cur_detach cur_attach cur_alloc cur_setvis cur_setleft cur_settop cur_setclip).
Qed.

Lemma empty_current c : Current (empty_state_v c).
Proof. intros d _ Hd. cbn in Hd. contradiction. Qed.
