(* Edit/ProofsPersist.v -- C09 end to end: the tree a guarded history leaves below a document is what
   save + reopen gives back. *)
From PsdV Require Import Base.Prelude Edit.Model Edit.Spec Edit.Inv Edit.Forest Edit.ProofsInv Edit.ProofsTree
  Edit.ProofsKids Edit.ProofsRefine Edit.Persist.
Open Scope Z_scope.

Definition isgroup s (j : Z) : bool := kind s j =? KGroup.

(* below a document only groups have members (W: a lister is a container, a listed object is a layer) *)
Lemma wk_of_edges s : forall t,
  (forall e, In e (edges_t t) -> In e (edges_l (roots s))) -> Forall (kinds_ok s) (edges_l (roots s)) ->
  is_layer s (tid t) = true -> wk_t (isgroup s) t.
Proof.
  apply (tree_ind3 (fun t => (forall e, In e (edges_t t) -> In e (edges_l (roots s))) -> Forall (kinds_ok s) (edges_l (roots s)) ->
                             is_layer s (tid t) = true -> wk_t (isgroup s) t)).
  intros j ks IH HE HK L. apply wk_t_eq. rewrite Forall_forall in HK, IH. split.
  - intro G. destruct ks as [|c r]; [reflexivity|]. exfalso.
    assert (He : In (j, tid c) (edges_l (roots s))).
    { apply HE. rewrite edges_t_eq, in_app_iff. left. left. reflexivity. }
    destruct (HK _ He) as [C _]. unfold is_container, is_layer, isgroup in *. cbn [fst tid] in *.
    rewrite G, orb_false_r in C. apply Z.eqb_eq in C. rewrite C in L. discriminate.
  - assert (forall c, In c ks -> wk_t (isgroup s) c).
    { intros c Hc. apply (IH c Hc).
      - intros e He. apply HE. rewrite edges_t_eq, in_app_iff. right. unfold edges_l. apply in_flat_map. exists c. auto.
      - apply Forall_forall. exact HK.
      - assert (He : In (j, tid c) (edges_l (roots s))).
        { apply HE. rewrite edges_t_eq, in_app_iff. left. apply in_map_iff. exists c. auto. }
        apply (HK _ He). }
    clear -H. induction ks as [|c r IHr]; cbn [wk_l]; [exact I|].
    split; [apply H; left; reflexivity | apply IHr; intros; apply H; right; assumption].
Qed.

Lemma wk_doc_kids s d : Inv s -> In d (ids_l (roots s)) -> wk_l (isgroup s) (kids_of s d).
Proof.
  intros HI Hd. pose proof (found_node s d Hd) as F. destruct (find_l_sub _ _ _ F) as [_ [_ Sub]].
  destruct HI as [_ [_ [_ [HK _]]]].
  assert (forall c, In c (kids_of s d) -> wk_t (isgroup s) c).
  { intros c Hc. apply wk_of_edges.
    - intros e He. apply Sub. rewrite edges_t_eq, in_app_iff. right. unfold edges_l. apply in_flat_map. exists c. auto.
    - exact HK.
    - assert (He : In (d, tid c) (edges_l (roots s))) by (apply (kids_are_edges _ _ _ _ F); apply in_map; exact Hc).
      rewrite Forall_forall in HK. apply (HK _ He). }
  clear -H. generalize dependent (kids_of s d). intro l. induction l as [|c r IHr]; intro H; cbn [wk_l]; [exact I|].
  split; [apply H; left; reflexivity | apply IHr; intros; apply H; right; assumption].
Qed.

(* history; save; open: the reopened tree below document d is the tree the history left there -- same
   objects (records travel with their identity: name, kind, visibility, clipping flag, rectangle, pixels are
   fields of the record), same nesting, same order -- and its child lists are the plain-list result *)
Theorem history_save_reopen h s f d lrfix :
  Good s -> guards s h -> (lrfix = true \/ lr16 f = None) ->
  0 <= d < next (run s h) ->
  reopen (save lrfix (isgroup (run s h)) f (kids_of (run s h) d)) = Some (kids_of (run s h) d).
Proof.
  intros G Hg Hl Hd. pose proof (run_good h s G Hg) as [HI _].
  apply reopen_after_save; [|exact Hl]. apply wk_doc_kids; [exact HI|]. apply (alloc_in_forest _ d HI). exact Hd.
Qed.
