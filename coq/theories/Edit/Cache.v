(* Edit/Cache.v -- cache coherence (C14): definitions, boolean twins, reflection. *)
From PsdV Require Import Base.Prelude Edit.Model Edit.Inv.
Open Scope Z_scope.

(* every filled bbox cache equals what a fresh Group.extract_bbox computes now *)
Definition Coherent s : Prop :=
  forall i b, 0 <= i < next s -> ocache (objs s i) = Some b -> fresh_bbox s i = Some b.

Definition opt_box_eqb (a : option box) (b : box) : bool :=
  match a with Some x => box_eqb x b | None => false end.
Definition coherentb s : bool :=
  forallb (fun i => match ocache (objs s i) with
                    | None => true
                    | Some b => opt_box_eqb (fresh_bbox s i) b
                    end) (all_ids s).

Lemma box_eqb_eq a b : box_eqb a b = true <-> a = b.
Proof.
  destruct a as [[[a1 a2] a3] a4], b as [[[b1 b2] b3] b4]. unfold box_eqb.
  rewrite !andb_true_iff, !Z.eqb_eq. split.
  - intros [[[-> ->] ->] ->]. reflexivity.
  - intro H. inversion H. auto.
Qed.

Lemma coherentb_iff s : coherentb s = true <-> Coherent s.
Proof.
  unfold coherentb, Coherent. rewrite forallb_forall. split.
  - intros H i b Hi Hc. specialize (H i (proj2 (all_ids_In s i) Hi)). rewrite Hc in H.
    destruct (fresh_bbox s i) as [f|]; simpl in H; [|discriminate].
    apply box_eqb_eq in H. congruence.
  - intros H i Hi. apply all_ids_In in Hi. destruct (ocache (objs s i)) as [b|] eqn:E; [|reflexivity].
    rewrite (H i b Hi E). simpl. apply box_eqb_eq. reflexivity.
Qed.

(* the state without its caches *)
Definition nocache_obj (o : obj) : obj := with_cache None o.
Definition same_but_caches (s s' : state) : Prop :=
  roots s' = roots s /\ next s' = next s /\ corrupt s' = corrupt s /\ conf s' = conf s
  /\ forall i, nocache_obj (objs s' i) = nocache_obj (objs s i).

Definition is_observer (o : op) : bool :=
  match o with
  | ObsBbox _ | ObsSize _ | ObsRepr _ | ObsDesc _ | ObsFind _ _ | ObsVisible _ | ObsExport _ _ => true
  | _ => false
  end.
