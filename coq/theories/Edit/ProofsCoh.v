(* Edit/ProofsCoh.v -- C14 on the repaired variant (cachefix): every operation keeps the caches of the
   containers that hang below a document coherent. *)
From PsdV Require Import Base.Prelude Edit.Model Edit.Spec Edit.Inv Edit.Cache Edit.Forest Edit.ProofsInv Edit.ProofsTree
  Edit.ProofsKids Edit.ProofsRefine Edit.ProofsMoves Edit.ProofsCache.
Open Scope Z_scope.

(* ---------------------------------------------------------------- attached objects *)
Inductive att (s : state) : Z -> Prop :=
| att_doc d : kind s d = KDoc -> In d (ids_l (roots s)) -> att s d
| att_child a c : att s a -> In (a, c) (edges_l (roots s)) -> att s c.

Definition CoherentA s : Prop :=
  forall j b, att s j -> is_container s j = true -> ocache (objs s j) = Some b -> fresh_bbox s j = Some b.

Lemma att_in s j : att s j -> In j (ids_l (roots s)).
Proof. induction 1; [assumption|]. apply (edges_l_in_ids _ _ _ H0). Qed.

(* below an attached object everything is attached *)
Lemma att_below s a c : NoDup (ids_l (roots s)) -> att s a -> In c (ids_l (kids_of s a)) -> att s c.
Proof.
  intros N Ha Hc. pose proof (found_node s a (att_in s a Ha)) as F. destruct (find_l_sub _ _ _ F) as [_ [_ Sub]].
  (* induction on the forest below a *)
  assert (G : forall ks, (forall e, In e (edges_l ks) -> In e (edges_l (roots s))) ->
                         (forall r, In r (map tid ks) -> att s r) -> forall y, In y (ids_l ks) -> att s y).
  { intro ks. induction ks as [|t r IHr]; intros HE HR y Hy; [contradiction|].
    rewrite ids_l_cons, in_app_iff in Hy. destruct Hy as [Hy|Hy].
    - assert (Ht : att s (tid t)) by (apply HR; left; reflexivity).
      assert (HEt : forall e, In e (edges_t t) -> In e (edges_l (roots s))).
      { intros e He. apply HE. rewrite edges_l_cons, in_app_iff. left. exact He. }
      clear IHr HE HR. revert y Hy Ht HEt.
      apply (tree_ind2 (fun t => forall y, In y (ids_t t) -> att s (tid t) ->
               (forall e, In e (edges_t t) -> In e (edges_l (roots s))) -> att s y)).
      intros j kk IH y Hy Aj HEt. rewrite ids_t_eq in Hy. destruct Hy as [<-|Hy]; [exact Aj|].
      apply In_ids_l in Hy as [c0 [Hc0 Hyc]]. rewrite Forall_forall in IH. apply (IH c0 Hc0 y Hyc).
      + apply (att_child s j). exact Aj. apply HEt. rewrite edges_t_eq, in_app_iff. left. apply in_map_iff. exists c0. auto.
      + intros e He. apply HEt. rewrite edges_t_eq, in_app_iff. right. unfold edges_l. apply in_flat_map. exists c0. auto.
    - apply IHr; [| |exact Hy].
      + intros e He. apply HE. rewrite edges_l_cons, in_app_iff. right. exact He.
      + intros q Hq. apply HR. right. exact Hq. }
  apply (G (kids_of s a)); [| |exact Hc].
  - intros e He. apply Sub. rewrite edges_t_eq, in_app_iff. right. exact He.
  - intros q Hq. apply (att_child s a); [exact Ha | apply (kids_are_edges _ _ _ _ F Hq)].
Qed.

(* a detached root (not a document) is not attached *)
Lemma root_not_att s x : Inv s -> rootid s x -> kind s x <> KDoc -> ~ att s x.
Proof.
  intros HI Rx K A. inversion A; subst; [contradiction|].
  exact (root_not_child (roots s) a x (inv_nodup s HI) Rx H0).
Qed.

(* ---------------------------------------------------------------- subtrees are determined by the child lists *)
Lemma subtree_node s j : In j (ids_l (roots s)) -> subtree s j = T j (kids_of s j).
Proof. intro H. pose proof (found_node s j H) as F. unfold subtree. rewrite F. reflexivity. Qed.

Lemma kids_found s j : NoDup (ids_l (roots s)) -> In j (ids_l (roots s)) ->
  forall d, In d (kids_of s j) -> subtree s (tid d) = d.
Proof.
  intros N Hj d Hd. unfold subtree. rewrite (child_found _ _ _ d N (found_node s j Hj) Hd). reflexivity.
Qed.

Lemma subtree_same_aux s s' : NoDup (ids_l (roots s)) -> NoDup (ids_l (roots s')) ->
  (forall y, In y (ids_l (roots s)) <-> In y (ids_l (roots s'))) ->
  forall t, In (tid t) (ids_l (roots s)) -> subtree s (tid t) = t ->
  (forall a, In a (ids_t t) -> kid_ids s' a = kid_ids s a) -> subtree s' (tid t) = t.
Proof.
  intros N N' Hids. apply (tree_ind2 (fun t => In (tid t) (ids_l (roots s)) -> subtree s (tid t) = t ->
      (forall a, In a (ids_t t) -> kid_ids s' a = kid_ids s a) -> subtree s' (tid t) = t)).
  intros j ks IH Hj Es Hk. cbn [tid] in *.
  assert (Ek : kids_of s j = ks) by (unfold kids_of; rewrite Es; reflexivity).
  assert (Hj' : In j (ids_l (roots s'))) by (apply Hids; exact Hj).
  rewrite (subtree_node s' j Hj'). f_equal.
  (* the children in s' have the same ids, and each is the subtree of its id *)
  assert (Eids : map tid (kids_of s' j) = map tid ks).
  { pose proof (Hk j) as H. unfold kid_ids in H. rewrite Ek in H. apply H. rewrite ids_t_eq. left. reflexivity. }
  assert (Hch : forall d', In d' (kids_of s' j) -> exists d, In d ks /\ tid d = tid d' /\ d' = d).
  { intros d' Hd'. assert (In (tid d') (map tid ks)) by (rewrite <- Eids; apply in_map; exact Hd').
    apply in_map_iff in H as [d [Et Hd]]. exists d. split; [exact Hd|]. split; [exact Et|].
    rewrite <- (kids_found s' j N' Hj' d' Hd'). rewrite <- Et.
    rewrite Forall_forall in IH. apply (IH d Hd).
    - destruct (find_l_sub _ _ _ (found_node s j Hj)) as [_ [Sub _]].
      apply cnt_In. specialize (Sub (tid d)). rewrite Ek, ids_t_eq, cnt_cons in Sub.
      assert (In (tid d) (ids_l ks)) by (apply root_in_ids; exact Hd). apply cnt_In in H. destruct (Z.eq_dec j (tid d)); lia.
    - rewrite <- Ek in Hd. apply (kids_found s j N Hj d Hd).
    - intros a Ha. apply Hk. rewrite ids_t_eq. right. apply In_ids_l. exists d. auto. }
  (* lists with the same ids whose elements are pairwise equal *)
  revert Eids Hch. generalize (kids_of s' j). intro l'. revert ks IH Es Hk Ek.
  induction l' as [|d' r' IHl]; intros ks IH Es Hk Ek Eids Hch; destruct ks as [|d r]; try discriminate; [reflexivity|].
  cbn [map] in Eids. inversion Eids as [[E1 E2]].
  destruct (Hch d' (or_introl eq_refl)) as [d0 [Hd0 [Et0 Ed0]]]. subst d'.
  assert (d0 = d).
  { (* same id among the children of j in s: NoDup *)
    destruct Hd0 as [->|Hd0]; [reflexivity|]. exfalso.
    assert (Nk : NoDup (ids_l (d :: r))).
    { apply NoDup_cnt. intro x. destruct (find_l_sub _ _ _ (found_node s j Hj)) as [_ [Sub _]]. specialize (Sub x).
      rewrite Ek, ids_t_eq, cnt_cons in Sub. apply NoDup_cnt with (x := x) in N. destruct (Z.eq_dec j x); lia. }
    rewrite ids_l_cons in Nk. apply NoDup_cnt with (x := tid d) in Nk. rewrite cnt_app in Nk.
    pose proof (tid_in_ids d) as H1. apply cnt_In in H1.
    assert (H2 : In (tid d) (ids_l r)) by (rewrite <- E1; apply root_in_ids; exact Hd0). apply cnt_In in H2. lia. }
  subst d0. f_equal.
  (* the tails: re-run the argument is awkward; use the pairwise fact directly *)
  clear IHl.
  assert (forall l1 l2 : list tree, map tid l1 = map tid l2 ->
            (forall x, In x l1 -> exists y, In y (d :: r) /\ tid y = tid x /\ x = y) ->
            NoDup (map tid (d :: r)) -> (forall y, In y l2 -> In y (d :: r)) -> l1 = l2).
  { induction l1 as [|x1 t1 IH1]; intros [|x2 t2] Em Hx Nd Hin; try discriminate; [reflexivity|].
    cbn [map] in Em. inversion Em as [[A B]].
    destruct (Hx x1 (or_introl eq_refl)) as [y [Hy [Ety Exy]]]. subst x1.
    assert (y = x2) by (apply (tid_inj_NoDup (d :: r)); [exact Nd | exact Hy | apply Hin; left; reflexivity | exact A]).
    subst. f_equal. apply IH1; auto. intros; apply Hx; right; assumption. intros; apply Hin; right; assumption. }
  apply H; [exact E2 | intros x Hx; apply Hch; right; exact Hx | | intros y Hy; right; exact Hy].
  apply root_tids_NoDup. apply NoDup_cnt. intro x. destruct (find_l_sub _ _ _ (found_node s j Hj)) as [_ [Sub _]]. specialize (Sub x).
  rewrite Ek, ids_t_eq, cnt_cons in Sub. apply NoDup_cnt with (x := x) in N. destruct (Z.eq_dec j x); lia.
Qed.

Lemma subtree_same s s' j : NoDup (ids_l (roots s)) -> NoDup (ids_l (roots s')) ->
  (forall y, In y (ids_l (roots s)) <-> In y (ids_l (roots s'))) -> In j (ids_l (roots s)) ->
  (forall a, In a (ids_t (subtree s j)) -> kid_ids s' a = kid_ids s a) -> subtree s' j = subtree s j.
Proof.
  intros N N' Hids Hj Hk. pose proof (subtree_node s j Hj) as E.
  pose proof (subtree_same_aux s s' N N' Hids (subtree s j)) as H. rewrite E in H |- *. cbn [tid] in H.
  apply H; [exact Hj | exact E | rewrite <- E; exact Hk].
Qed.

(* ---------------------------------------------------------------- a property that is inherited along edges holds below *)
Lemma below_induct s a (P : Z -> Prop) : In a (ids_l (roots s)) -> P a ->
  (forall u w, In (u, w) (edges_l (roots s)) -> P u -> P w) ->
  forall c, In c (ids_l (kids_of s a)) -> P c.
Proof.
  intros Ha Pa Hstep c Hc. pose proof (found_node s a Ha) as F. destruct (find_l_sub _ _ _ F) as [_ [_ Sub]].
  assert (G : forall ks, (forall e, In e (edges_l ks) -> In e (edges_l (roots s))) ->
                         (forall r, In r (map tid ks) -> P r) -> forall y, In y (ids_l ks) -> P y).
  { intro ks. induction ks as [|t r IHr]; intros HE HR y Hy; [contradiction|].
    rewrite ids_l_cons, in_app_iff in Hy. destruct Hy as [Hy|Hy].
    - assert (Ht : P (tid t)) by (apply HR; left; reflexivity).
      assert (HEt : forall e, In e (edges_t t) -> In e (edges_l (roots s))).
      { intros e He. apply HE. rewrite edges_l_cons, in_app_iff. left. exact He. }
      clear IHr HE HR. revert y Hy Ht HEt.
      apply (tree_ind2 (fun t => forall y, In y (ids_t t) -> P (tid t) ->
               (forall e, In e (edges_t t) -> In e (edges_l (roots s))) -> P y)).
      intros j kk IH y Hy Aj HEt. rewrite ids_t_eq in Hy. destruct Hy as [<-|Hy]; [exact Aj|].
      apply In_ids_l in Hy as [c0 [Hc0 Hyc]]. rewrite Forall_forall in IH. apply (IH c0 Hc0 y Hyc).
      + apply (Hstep j); [|exact Aj]. apply HEt. rewrite edges_t_eq, in_app_iff. left. apply in_map_iff. exists c0. auto.
      + intros e He. apply HEt. rewrite edges_t_eq, in_app_iff. right. unfold edges_l. apply in_flat_map. exists c0. auto.
    - apply IHr; [| |exact Hy].
      + intros e He. apply HE. rewrite edges_l_cons, in_app_iff. right. exact He.
      + intros q Hq. apply HR. right. exact Hq. }
  apply (G (kids_of s a)); [| |exact Hc].
  - intros e He. apply Sub. rewrite edges_t_eq, in_app_iff. right. exact He.
  - intros q Hq. apply (Hstep a); [apply (kids_are_edges _ _ _ _ F Hq) | exact Pa].
Qed.

Definition below s (y c : Z) : Prop := In c (ids_l (kids_of s y)).   (* c strictly below y *)

Lemma below_trans s y a c : NoDup (ids_l (roots s)) -> below s y a -> below s a c -> below s y c.
Proof.
  intros N Hya Hac. unfold below in *.
  assert (Hy : In y (ids_l (roots s))).
  { destruct (in_dec Z.eq_dec y (ids_l (roots s))) as [|Hn]; [assumption|]. rewrite (kids_of_notin s y Hn) in Hya. contradiction. }
  assert (Ha : In a (ids_l (roots s))).
  { destruct (in_dec Z.eq_dec a (ids_l (roots s))) as [|Hn]; [assumption|]. rewrite (kids_of_notin s a Hn) in Hac. contradiction. }
  apply (below_induct s a (fun z => In z (ids_l (kids_of s y))) Ha Hya); [|exact Hac].
  intros u w He Hu. apply (below_closed_down _ _ _ _ _ N (found_node s y Hy) He Hu).
Qed.
Lemma child_below s a c : In (a, c) (edges_l (roots s)) -> NoDup (ids_l (roots s)) -> below s a c.
Proof.
  intros He N. destruct (edges_l_in_ids _ _ _ He) as [Ha _]. unfold below.
  pose proof (edge_from_found _ _ _ _ N (found_node s a Ha) He) as H.
  apply in_map_iff in H as [t [Et Ht]]. subst. apply root_in_ids. exact Ht.
Qed.

(* ---------------------------------------------------------------- what a fresh bbox depends on *)
Fixpoint visited (fuel : nat) s (x : Z) : list Z :=
  match fuel with
  | O => []
  | S f => x :: (if kind s x =? KDoc then [] else if negb (ovis (objs s x)) then []
                 else match oparent (objs s x) with None => [] | Some p => visited f s p end)
  end.
Definition same3 (s s' : state) (y : Z) : Prop :=
  okind (objs s' y) = okind (objs s y) /\ ovis (objs s' y) = ovis (objs s y) /\ oparent (objs s' y) = oparent (objs s y).

Lemma isvis_stable : forall f s s' x v f', isvis f s x = Some v -> (f <= f')%nat ->
  (forall y, In y (visited f s x) -> same3 s s' y) -> isvis f' s' x = Some v.
Proof.
  induction f as [|f IH]; intros s s' x v f' H Hle Hs; [discriminate|].
  destruct f' as [|f']; [lia|]. cbn [isvis visited] in *. unfold kind in *.
  destruct (Hs x (or_introl eq_refl)) as [K [V P]]. rewrite K, V, P.
  destruct (okind (objs s x) =? KDoc); [exact H|]. destruct (negb (ovis (objs s x))); [exact H|].
  destruct (oparent (objs s x)) as [p|]; [|exact H].
  apply (IH s s' p v f' H); [lia|]. intros y Hy. apply Hs. right. exact Hy.
Qed.

Lemma all_some_stable {A B} (F F' : A -> option B) : forall ks l,
  (forall c, In c ks -> forall b, F c = Some b -> F' c = Some b) ->
  all_some (map F ks) = Some l -> all_some (map F' ks) = Some l.
Proof.
  induction ks as [|c r IH]; intros l H E; [exact E|]. cbn [map all_some] in *.
  destruct (F c) as [b|] eqn:Fc; [|discriminate]. rewrite (H c (or_introl eq_refl) b Fc).
  destruct (all_some (map F r)) as [lr|] eqn:Er; [|discriminate]. cbn in E. inversion E; subst.
  rewrite (IH lr); [reflexivity | intros; apply H; [right; assumption | assumption] | reflexivity].
Qed.

Lemma ebox_stable vis vis' kd kd' rc rc' : forall t b,
  ebox vis kd rc t = Some b ->
  (forall c, In c (ids_l (tkids t)) -> kd' c = kd c /\ rc' c = rc c /\ forall v, vis c = Some v -> vis' c = Some v) ->
  ebox vis' kd' rc' t = Some b.
Proof.
  apply (tree_ind2 (fun t => forall b, ebox vis kd rc t = Some b ->
    (forall c, In c (ids_l (tkids t)) -> kd' c = kd c /\ rc' c = rc c /\ forall v, vis c = Some v -> vis' c = Some v) ->
    ebox vis' kd' rc' t = Some b)).
  intros j ks IH b E H. cbn [tkids] in H. cbn [ebox] in *.
  destruct (all_some (map _ ks)) as [l|] eqn:A in E; [|discriminate]. cbn in E.
  erewrite all_some_stable; [exact E | | exact A].
  intros c Hc bc Fc. rewrite Forall_forall in IH. cbn beta in *.
  destruct (H (tid c) (root_in_ids c ks Hc)) as [K [R V]].
  destruct (vis (tid c)) as [[|]|] eqn:Vc; [| |discriminate].
  - rewrite (V true eq_refl), K, R. destruct (kd (tid c) =? KPixel); [exact Fc|].
    apply (IH c Hc bc Fc). intros d Hd. apply H. apply In_ids_l. exists c. split; [exact Hc|].
    destruct c as [i kk]. rewrite ids_t_eq. right. exact Hd.
  - rewrite (V false eq_refl). exact Fc.
Qed.

Lemma fresh_stable s s' j b : fresh_bbox s j = Some b -> subtree s' j = subtree s j ->
  (fuel_of s <= fuel_of s')%nat ->
  (forall c, below s j c -> kind s' c = kind s c /\ orect (objs s' c) = orect (objs s c)
                           /\ forall y, In y (visited (fuel_of s) s c) -> same3 s s' y) ->
  fresh_bbox s' j = Some b.
Proof.
  intros F Es Hf H. unfold fresh_bbox in *. rewrite Es.
  apply (ebox_stable (isvis (fuel_of s) s) _ (kind s) _ (fun i => orect (objs s i)) _ _ b F).
  intros c Hc. destruct (H c Hc) as [K [R V]]. split; [exact K|]. split; [exact R|].
  intros v Hv. apply (isvis_stable _ s s' c v _ Hv Hf V).
Qed.

(* the chain isvis walks from an attached object consists of the object and its listing ancestors *)
Lemma visited_anc : forall f s c y, Inv s -> att s c -> In y (visited f s c) -> y = c \/ below s y c.
Proof.
  induction f as [|f IH]; intros s c y HI A Hy; [contradiction|]. cbn [visited] in Hy.
  destruct Hy as [<-|Hy]; [left; reflexivity|]. right.
  destruct (kind s c =? KDoc) eqn:Kc; [contradiction|]. destruct (negb (ovis (objs s c))); [contradiction|].
  destruct (oparent (objs s c)) as [p|] eqn:P; [|contradiction].
  inversion A as [d K Hd|a c0 Aa He]; subst.
  - (* isvis stops at a document *) exfalso. rewrite K in Kc. discriminate.
  - pose proof (inv_nodup s HI) as N. destruct (listed_has_parent s a c HI He) as [Pa _]. rewrite Pa in P. inversion P; subst p.
    destruct (IH s a y HI Aa Hy) as [->|Hb].
    + apply (child_below s a c He N).
    + apply (below_trans s y a c N Hb (child_below s a c He N)).
Qed.

(* ---------------------------------------------------------------- _invalidate_bbox_upwards reaches every lister *)
Fixpoint up_chain (fuel : nat) s (x : Z) : list Z :=
  match fuel with
  | O => []
  | S f => x :: match oparent (objs s x) with Some p => up_chain f s p | None => [] end
  end.

Lemma up_chain_ptr f : forall s s' x, ptr_same s s' -> up_chain f s' x = up_chain f s x.
Proof.
  induction f as [|f IH]; intros s s' x P; [reflexivity|]. cbn [up_chain]. rewrite (ps_parent _ _ P).
  destruct (oparent (objs s x)); [rewrite (IH s s' z P)|]; reflexivity.
Qed.

Lemma inval_up_clears : forall f s x a, In a (up_chain f s x) -> is_container s a = true ->
  ocache (objs (inval_up f s x) a) = None.
Proof.
  induction f as [|f IH]; intros s x a Ha Ca; [contradiction|]. cbn [up_chain inval_up] in *.
  set (s1 := if is_container s x then mod_obj s x (with_cache None) else s).
  assert (P1 : ptr_same s s1) by (unfold s1; destruct (is_container s x); [apply mod_obj_ptr, keeps_cache | apply ptr_same_refl]).
  destruct Ha as [<-|Ha].
  - assert (C1 : ocache (objs s1 x) = None).
    { unfold s1. rewrite Ca. unfold mod_obj, set_objs, upd. cbn [objs]. rewrite Z.eqb_refl. reflexivity. }
    destruct (oparent (objs s x)) as [p|]; [|exact C1].
    destruct (ocache (objs (inval_up f s1 p) x)) as [b|] eqn:E; [|reflexivity].
    destruct (inval_up_oc f s1 p) as [_ [_ [_ K]]]. rewrite (K x b E) in C1. discriminate.
  - destruct (oparent (objs s x)) as [p|]; [|contradiction].
    apply IH; [rewrite (up_chain_ptr f s s1 p P1); exact Ha | rewrite (ptr_same_container _ _ _ P1); exact Ca].
Qed.

Definition sz s (a : Z) : nat := length (ids_t (subtree s a)).

Lemma cnt_le_length (l1 l2 : list Z) : NoDup l1 -> (forall x, (cnt x l1 <= cnt x l2)%nat) -> (length l1 <= length l2)%nat.
Proof.
  intros N H. apply NoDup_incl_length; [exact N|]. intros x Hx. apply cnt_In. apply cnt_In in Hx. specialize (H x). lia.
Qed.

Lemma sz_le s a : NoDup (ids_l (roots s)) -> In a (ids_l (roots s)) -> (sz s a <= length (ids_l (roots s)))%nat.
Proof.
  intros N Ha. unfold sz. pose proof (found_node s a Ha) as F. destruct (find_l_sub _ _ _ F) as [_ [Sub _]].
  rewrite (subtree_node s a Ha). apply cnt_le_length; [|exact Sub].
  apply NoDup_cnt. intro x. specialize (Sub x). apply NoDup_cnt with (x := x) in N. lia.
Qed.

Lemma sz_parent s p x : NoDup (ids_l (roots s)) -> In (p, x) (edges_l (roots s)) -> (sz s x < sz s p)%nat.
Proof.
  intros N He. destruct (edges_l_in_ids _ _ _ He) as [Hp Hx]. unfold sz.
  pose proof (found_node s p Hp) as Fp. pose proof (edge_from_found _ _ _ _ N Fp He) as Hk.
  apply in_map_iff in Hk as [d [Ed Hd]]. pose proof (kids_found s p N Hp d Hd) as Sd. rewrite Ed in Sd.
  rewrite Sd, (subtree_node s p Hp), ids_t_eq. cbn [length].
  apply in_split in Hd as [l1 [l2 E]]. rewrite E, ids_l_app, ids_l_cons, !app_length. lia.
Qed.

Lemma forest_size s : Inv s -> (length (ids_l (roots s)) <= Z.to_nat (next s))%nat.
Proof.
  intros HI. pose proof (inv_nodup s HI) as N. destruct HI as [_ [_ [_ [_ [H5 _]]]]].
  assert (L : length (all_ids s) = Z.to_nat (next s)).
  { unfold all_ids. generalize (Z.to_nat (next s)) 0. induction n as [|n IH]; intro a; [reflexivity|]. simpl. rewrite IH. reflexivity. }
  rewrite <- L. apply NoDup_incl_length; [exact N|]. intros x Hx. apply all_ids_In. apply H5. exact Hx.
Qed.

Lemma up_chain_reaches s : Inv s -> forall f x a, In x (ids_l (roots s)) ->
  (length (ids_l (roots s)) < f + sz s x)%nat -> below s a x -> In a (up_chain f s x).
Proof.
  intros HI. pose proof (inv_nodup s HI) as N.
  induction f as [|f IH]; intros x a Hx Hf Hb.
  { pose proof (sz_le s x N Hx). lia. }
  (* x has a lister p, which is its stored parent *)
  assert (Ha : In a (ids_l (roots s))).
  { destruct (in_dec Z.eq_dec a (ids_l (roots s))) as [|Hn]; [assumption|]. unfold below in Hb. rewrite (kids_of_notin s a Hn) in Hb. contradiction. }
  pose proof (found_node s a Ha) as Fa. destruct (find_l_sub _ _ _ Fa) as [_ [_ Sub]].
  assert (exists p, In (p, x) (edges_l (roots s))) as [p He].
  { destruct (root_or_child _ _ Hb) as [Hr|[b Hbx]].
    - exists a. apply (kids_are_edges _ _ _ _ Fa Hr).
    - exists b. apply Sub. rewrite edges_t_eq, in_app_iff. right. exact Hbx. }
  destruct (listed_has_parent s p x HI He) as [Pp _]. cbn [up_chain]. rewrite Pp. right.
  pose proof (sz_parent s p x N He) as Hs. destruct (edges_l_in_ids _ _ _ He) as [Hp _].
  destruct (below_closed_up _ _ _ _ _ N Fa He Hb) as [E|Hbp].
  - subst p. destruct f as [|f]; [pose proof (sz_le s a N Hp); lia|]. left. reflexivity.
  - apply IH; [exact Hp | lia | exact Hbp].
Qed.

(* after _invalidate_bbox_upwards(x): x (if a container) and every object that has x below it have no cache *)
Lemma inval_up_reach s x a : Inv s -> In x (ids_l (roots s)) -> (a = x \/ below s a x) -> is_container s a = true ->
  ocache (objs (inval_up (fuel_of s) s x) a) = None.
Proof.
  intros HI Hx H Ca. apply inval_up_clears; [|exact Ca].
  destruct H as [->|Hb]; [unfold fuel_of; left; reflexivity|].
  apply (up_chain_reaches s HI); [exact Hx | | exact Hb].
  pose proof (forest_size s HI). unfold fuel_of, sz. rewrite (subtree_node s x Hx), ids_t_eq. cbn [length]. lia.
Qed.

(* ---------------------------------------------------------------- helper facts *)
Lemma visited_att : forall f s c y, Inv s -> att s c -> In y (visited f s c) -> att s y.
Proof.
  induction f as [|f IH]; intros s c y HI A Hy; [contradiction|]. cbn [visited] in Hy.
  destruct Hy as [<-|Hy]; [exact A|].
  destruct (kind s c =? KDoc) eqn:Kc; [contradiction|]. destruct (negb (ovis (objs s c))); [contradiction|].
  destruct (oparent (objs s c)) as [p|] eqn:P; [|contradiction].
  inversion A as [d K Hd|a c0 Aa He]; subst.
  - exfalso. rewrite K in Kc. discriminate.
  - destruct (listed_has_parent s a c HI He) as [Pa _]. rewrite Pa in P. inversion P; subst p. apply (IH s a y HI Aa Hy).
Qed.

Lemma ids_same s s' : Inv s -> Inv s' -> next s' = next s -> forall y, In y (ids_l (roots s)) <-> In y (ids_l (roots s')).
Proof.
  intros [_ [_ [_ [_ [H5 _]]]]] [_ [_ [_ [_ [H5' _]]]]] N y. rewrite H5, H5', N. tauto.
Qed.

Lemma below_in s a c : below s a c -> In a (ids_l (roots s)).
Proof.
  intro H. destruct (in_dec Z.eq_dec a (ids_l (roots s))) as [|Hn]; [assumption|].
  unfold below in H. rewrite (kids_of_notin s a Hn) in H. contradiction.
Qed.

Lemma anc_comparable s j x c : NoDup (ids_l (roots s)) -> below s j c -> below s x c ->
  x = j \/ below s x j \/ below s j x.
Proof.
  intros N Hj Hx. pose proof (below_in s j c Hj) as Hjin.
  assert (G : forall w, below s j w -> (forall x0, below s x0 w -> x0 = j \/ below s x0 j \/ below s j x0)).
  { intros w Hw.
    refine (proj2 (below_induct s j (fun u => (u = j \/ below s j u) /\
               forall x0, below s x0 u -> x0 = j \/ below s x0 j \/ below s j x0) Hjin _ _ w Hw)).
    - split; [left; reflexivity|]. intros x0 H0. right. left. exact H0.
    - intros u w0 He [Hu Pu]. split.
      + right. destruct Hu as [->|Hu]; [apply (child_below s j w0 He N) | apply (below_trans s j u w0 N Hu (child_below s u w0 He N))].
      + intros x0 H0. pose proof (below_in s x0 w0 H0) as Hx0.
        destruct (below_closed_up _ _ _ _ _ N (found_node s x0 Hx0) He H0) as [E|Hb].
        * subst u. destruct Hu as [->|Hu]; [left; reflexivity | right; right; exact Hu].
        * apply Pu. exact Hb. }
  apply (G c Hj x Hx).
Qed.

(* ---------------------------------------------------------------- a structural change at one container g *)
Section StructUnit.
  Variables (s s' : state) (g : Z) (xs : list Z).
  Hypothesis HI : Inv s.
  Hypothesis HI' : Inv s'.
  Hypothesis Hn : next s' = next s.
  Hypothesis K1 : forall a, a <> g -> kid_ids s' a = kid_ids s a.
  Hypothesis K2 : forall c, In c (kid_ids s' g) -> In c (kid_ids s g) \/ In c xs.
  Hypothesis K4 : forall x, In x xs -> ~ att s x.
  Hypothesis Fk : forall y, okind (objs s' y) = okind (objs s y) /\ ovis (objs s' y) = ovis (objs s y)
                            /\ orect (objs s' y) = orect (objs s y).
  Hypothesis Fp : forall y, oparent (objs s' y) = oparent (objs s y) \/ In y xs.
  Hypothesis C1 : forall j b, ocache (objs s' j) = Some b -> ocache (objs s j) = Some b.
  Hypothesis C2 : forall a, is_container s' a = true -> (a = g \/ below s' a g) -> ocache (objs s' a) = None.
  Hypothesis C3 : forall a x, is_container s' a = true -> In x xs -> (a = x \/ below s' x a) -> ocache (objs s' a) = None.

  Let NS (c : Z) : Prop := exists x, In x xs /\ (c = x \/ below s' x c).

  Lemma att_back : forall j, att s' j -> ~ NS j -> att s j.
  Proof.
    pose proof (inv_nodup s HI) as N. pose proof (inv_nodup s' HI') as N'.
    induction 1 as [d K Hd|a c Aa IH He]; intro Hns.
    - apply att_doc; [unfold kind in *; rewrite <- (proj1 (Fk d)); exact K | apply (ids_same s s' HI HI' Hn); exact Hd].
    - assert (Hna : ~ NS a).
      { intros [x [Hx Hax]]. apply Hns. exists x. split; [exact Hx|]. right.
        destruct Hax as [->|Hb]; [apply (child_below s' x c He N') | apply (below_trans s' x a c N' Hb (child_below s' a c He N'))]. }
      specialize (IH Hna). apply (att_child s a c IH).
      destruct (edges_l_in_ids _ _ _ He) as [Ha' _].
      pose proof (edge_from_found _ _ _ _ N' (found_node s' a Ha') He) as Hc. change (In c (kid_ids s' a)) in Hc.
      assert (Ha : In a (ids_l (roots s))) by (apply (ids_same s s' HI HI' Hn); exact Ha').
      apply (kids_are_edges _ _ _ _ (found_node s a Ha)). change (In c (kid_ids s a)).
      destruct (Z.eq_dec a g) as [->|Hne]; [|rewrite <- (K1 a Hne); exact Hc].
      destruct (K2 c Hc) as [H|H]; [exact H|]. exfalso. apply Hns. exists c. split; [exact H | left; reflexivity].
  Qed.

  Lemma coh_struct_unit : CoherentA s -> CoherentA s'.
  Proof.
    intros Co j b Aj Cj Hc. pose proof (inv_nodup s HI) as N. pose proof (inv_nodup s' HI') as N'.
    pose proof (att_in s' j Aj) as Hj'.
    assert (Hjg : j <> g) by (intro E; subst; rewrite (C2 g Cj (or_introl eq_refl)) in Hc; discriminate).
    assert (Hbg : ~ below s' j g) by (intro B; rewrite (C2 j Cj (or_intror B)) in Hc; discriminate).
    assert (Hns : ~ NS j) by (intros [x [Hx H]]; rewrite (C3 j x Cj Hx H) in Hc; discriminate).
    pose proof (att_back j Aj Hns) as Aj0.
    assert (Es : subtree s j = subtree s' j).
    { apply (subtree_same s' s j N' N); [intro y; symmetry; apply (ids_same s s' HI HI' Hn) | exact Hj'|].
      intros a Ha. symmetry. apply K1. intro E. subst a. rewrite (subtree_node s' j Hj'), ids_t_eq in Ha.
      destruct Ha as [Ha|Ha]; [congruence | exact (Hbg Ha)]. }
    assert (Cj0 : is_container s j = true) by (unfold is_container, kind in *; rewrite <- (proj1 (Fk j)); exact Cj).
    pose proof (Co j b Aj0 Cj0 (C1 j b Hc)) as F0.
    apply (fresh_stable s s' j b F0 (eq_sym Es)); [unfold fuel_of; rewrite Hn; lia|].
    intros c Hcb. destruct (Fk c) as [Kc [_ Rc]]. split; [unfold kind; exact Kc|]. split; [exact Rc|].
    intros y Hy. destruct (Fk y) as [Ky [Vy _]]. split; [exact Ky|]. split; [exact Vy|].
    destruct (Fp y) as [P|Hx]; [exact P|]. exfalso.
    apply (K4 y Hx). apply (visited_att (fuel_of s) s c y HI); [apply (att_below s j c N Aj0 Hcb) | exact Hy].
  Qed.
End StructUnit.

(* ---------------------------------------------------------------- a field change at one object x *)
Section FieldUnit.
  Variables (s s' : state) (x : Z) (dvis : bool).
  Hypothesis HI : Inv s.
  Hypothesis Hr : roots s' = roots s.
  Hypothesis Hn : next s' = next s.
  Hypothesis Fk : forall y, okind (objs s' y) = okind (objs s y) /\ oparent (objs s' y) = oparent (objs s y).
  Hypothesis Fv : forall y, y <> x -> ovis (objs s' y) = ovis (objs s y) /\ orect (objs s' y) = orect (objs s y).
  Hypothesis Fx : dvis = false -> ovis (objs s' x) = ovis (objs s x).
  Hypothesis C1 : forall j b, ocache (objs s' j) = Some b -> ocache (objs s j) = Some b.
  Hypothesis C2 : forall a, is_container s a = true -> (a = x \/ below s a x) -> ocache (objs s' a) = None.
  Hypothesis C3 : dvis = true -> forall a, is_container s a = true -> below s x a -> ocache (objs s' a) = None.

  Lemma att_same_roots : forall j, att s' j -> att s j.
  Proof.
    induction 1 as [d K Hd|a c Aa IH He].
    - apply att_doc; [unfold kind in *; rewrite <- (proj1 (Fk d)); exact K | rewrite <- Hr; exact Hd].
    - apply (att_child s a c IH). rewrite <- Hr. exact He.
  Qed.

  Lemma coh_field_unit : CoherentA s -> CoherentA s'.
  Proof.
    intros Co j b Aj Cj Hc. pose proof (inv_nodup s HI) as N.
    pose proof (att_same_roots j Aj) as Aj0.
    assert (Cj0 : is_container s j = true) by (unfold is_container, kind in *; rewrite <- (proj1 (Fk j)); exact Cj).
    assert (Hjx : j <> x) by (intro E; subst; rewrite (C2 x Cj0 (or_introl eq_refl)) in Hc; discriminate).
    assert (Hbx : ~ below s j x) by (intro B; rewrite (C2 j Cj0 (or_intror B)) in Hc; discriminate).
    pose proof (Co j b Aj0 Cj0 (C1 j b Hc)) as F0.
    apply (fresh_stable s s' j b F0); [unfold subtree; rewrite Hr; reflexivity | unfold fuel_of; rewrite Hn; lia|].
    intros c Hcb. assert (Hcx : c <> x) by (intro E; subst; exact (Hbx Hcb)).
    destruct (Fk c) as [Kc _]. destruct (Fv c Hcx) as [_ Rc]. split; [unfold kind; exact Kc|]. split; [exact Rc|].
    intros y Hy. destruct (Fk y) as [Ky Py]. split; [exact Ky|]. split; [|exact Py].
    destruct (Z.eq_dec y x) as [->|Hne]; [|apply (Fv y Hne)].
    destruct dvis eqn:D; [|apply Fx; reflexivity]. exfalso.
    (* x is on the visibility chain of c, which lies below j: x is j, above j, or below j *)
    destruct (visited_anc (fuel_of s) s c x HI (att_below s j c N Aj0 Hcb) Hy) as [E|Hxc]; [congruence|].
    destruct (anc_comparable s j x c N Hcb Hxc) as [E|[B|B]].
    - congruence.
    - rewrite (C3 eq_refl j Cj0 B) in Hc. discriminate.
    - exact (Hbx B).
  Qed.
End FieldUnit.

(* ================================================================ operations (repaired variant) *)
Definition fixedv s : Prop := cachefix (conf s) = true /\ clipsfix (conf s) = true.

(* ---------------------------------------------------------------- what happens to the caches *)
Definition keeps_cache_f (f : obj -> obj) : Prop := forall o, ocache (f o) = ocache o.
Lemma mod_obj_cache s i f j : keeps_cache_f f -> ocache (objs (mod_obj s i f) j) = ocache (objs s j).
Proof. intro K. unfold mod_obj, set_objs, upd. cbn [objs]. destruct (j =? i) eqn:E; [apply Z.eqb_eq in E; subst; apply K | reflexivity]. Qed.
Lemma map_objs_cache s l f j : keeps_cache_f f -> ocache (objs (map_objs s l f) j) = ocache (objs s j).
Proof. intro K. unfold map_objs, set_objs. cbn [objs]. destruct (memz j l); [apply K | reflexivity]. Qed.
Lemma compute_clipping_cache s d j : ocache (objs (compute_clipping s d) j) = ocache (objs s j).
Proof.
  unfold compute_clipping.
  assert (G : forall l st, ocache (objs (fold_left (fun st a => mod_obj st (fst a) (with_clips (snd a))) l st) j) = ocache (objs st j)).
  { induction l as [|a r IH]; intro st; [reflexivity|]. simpl. rewrite IH. apply mod_obj_cache. intro o. reflexivity. }
  rewrite G. apply map_objs_cache. intro o. reflexivity.
Qed.

Lemma mark_dirty_cache s g j : fixedv s ->
  ocache (objs (mark_dirty s g) j) = ocache (objs (inval_up (fuel_of s) s g) j).
Proof.
  intros [Cf Cl]. unfold mark_dirty. rewrite Cf, Cl. destruct (eff_psd (inval_up (fuel_of s) s g) g); [|reflexivity].
  rewrite compute_clipping_cache. apply mod_obj_cache. intro o. reflexivity.
Qed.

Lemma meta_cache s g j : cachefix (conf s) = true ->
  ocache (objs (meta s g) j) = if memz j (filter (is_container s) (descendants s g)) then None else ocache (objs s j).
Proof.
  intro Cf. unfold meta, inval_below, map_objs, set_objs. rewrite Cf.
  destruct (eff_psd s g); cbn [objs];
    repeat match goal with |- context [if ?b then _ else _] => destruct b end; reflexivity.
Qed.

Lemma inval_up_only_clears f s x j b : ocache (objs (inval_up f s x) j) = Some b -> ocache (objs s j) = Some b.
Proof. destruct (inval_up_oc f s x) as [_ [_ [_ K]]]. apply K. Qed.

Lemma in_del_nth {A} (x : A) l k : In x (del_nth l k) -> In x l.
Proof.
  unfold del_nth. rewrite in_app_iff. intros [H|H].
  - rewrite <- (firstn_skipn k l). apply in_or_app. left. exact H.
  - rewrite <- (firstn_skipn (S k) l). apply in_or_app. right. exact H.
Qed.

(* visibility flags and rectangles are not touched by the bookkeeping steps *)
Definition vr_same (s s' : state) : Prop :=
  forall y, ovis (objs s' y) = ovis (objs s y) /\ orect (objs s' y) = orect (objs s y).
Definition keeps_vr (f : obj -> obj) : Prop := forall o, ovis (f o) = ovis o /\ orect (f o) = orect o.
Lemma vr_refl s : vr_same s s. Proof. intro; auto. Qed.
Lemma vr_trans a b c : vr_same a b -> vr_same b c -> vr_same a c.
Proof. intros H1 H2 y. destruct (H1 y), (H2 y). split; congruence. Qed.
Lemma mod_obj_vr s i f : keeps_vr f -> vr_same s (mod_obj s i f).
Proof. intros K y. unfold mod_obj, set_objs, upd. cbn [objs]. destruct (y =? i) eqn:E; [apply Z.eqb_eq in E; subst; apply K | auto]. Qed.
Lemma map_objs_vr s l f : keeps_vr f -> vr_same s (map_objs s l f).
Proof. intros K y. unfold map_objs, set_objs. cbn [objs]. destruct (memz y l); [apply K | auto]. Qed.
Lemma kvr_cache c : keeps_vr (with_cache c). Proof. intro; auto. Qed.
Lemma kvr_dirty c : keeps_vr (with_dirty c). Proof. intro; auto. Qed.
Lemma kvr_clips c : keeps_vr (with_clips c). Proof. intro; auto. Qed.
Lemma kvr_psd c : keeps_vr (with_psd c). Proof. intro; auto. Qed.
Lemma kvr_parent c : keeps_vr (with_parent c). Proof. intro; auto. Qed.
Lemma inval_up_vr f : forall s x, vr_same s (inval_up f s x).
Proof.
  induction f as [|f IH]; intros s x; [apply vr_refl|]. simpl.
  set (s1 := if is_container s x then mod_obj s x (with_cache None) else s).
  assert (P1 : vr_same s s1) by (unfold s1; destruct (is_container s x); [apply mod_obj_vr, kvr_cache | apply vr_refl]).
  destruct (oparent (objs s x)); [|exact P1]. eapply vr_trans; [exact P1 | apply IH].
Qed.
Lemma compute_clipping_vr s d : vr_same s (compute_clipping s d).
Proof.
  unfold compute_clipping. eapply vr_trans; [apply map_objs_vr, kvr_clips|].
  assert (G : forall l st, vr_same st (fold_left (fun st a => mod_obj st (fst a) (with_clips (snd a))) l st)).
  { induction l as [|a r IH]; intro st; [apply vr_refl|]. simpl. eapply vr_trans; [apply mod_obj_vr, kvr_clips | apply IH]. }
  apply G.
Qed.
Lemma mark_dirty_vr s g : vr_same s (mark_dirty s g).
Proof.
  unfold mark_dirty. set (s0 := if cachefix (conf s) then inval_up (fuel_of s) s g else s).
  assert (P0 : vr_same s s0) by (unfold s0; destruct (cachefix (conf s)); [apply inval_up_vr | apply vr_refl]).
  destruct (eff_psd s0 g); [|exact P0]. eapply vr_trans; [exact P0|].
  destruct (clipsfix (conf s)); [eapply vr_trans; [apply mod_obj_vr, kvr_dirty | apply compute_clipping_vr] | apply mod_obj_vr, kvr_dirty].
Qed.
Lemma meta_vr s g : vr_same s (meta s g).
Proof.
  unfold meta. set (s0 := if cachefix (conf s) then inval_below s g else s).
  assert (P0 : vr_same s s0) by (unfold s0, inval_below; destruct (cachefix (conf s)); [apply map_objs_vr, kvr_cache | apply vr_refl]).
  eapply vr_trans; [|apply map_objs_vr, kvr_parent].
  destruct (eff_psd s g); [|exact P0]. eapply vr_trans; [exact P0 | apply map_objs_vr, kvr_psd].
Qed.

Lemma below_roots s s' a c : roots s' = roots s -> (below s' a c <-> below s a c).
Proof. intro R. unfold below, kids_of, subtree. rewrite R. tauto. Qed.

(* ---------------------------------------------------------------- the detaching unit: the list of g shrinks, then _update_psd_record *)
Lemma detach_unit s s1 g : Good s -> fixedv s ->
  objs s1 = objs s -> next s1 = next s -> conf s1 = conf s -> Inv s1 -> In g (ids_l (roots s1)) ->
  (forall a, a <> g -> kid_ids s1 a = kid_ids s a) -> (forall c, In c (kid_ids s1 g) -> In c (kid_ids s g)) ->
  CoherentA s -> CoherentA (mark_dirty s1 g).
Proof.
  intros [HI Q] Fx O Nx Cx HI1 Hg1 K1 K2 Co.
  assert (Fx1 : fixedv s1) by (unfold fixedv; rewrite Cx; exact Fx).
  pose proof (mark_dirty_ptr s1 g) as P. pose proof (ptr_same_inv _ _ P HI1) as HI2.
  pose proof (mark_dirty_vr s1 g) as V.
  apply (coh_struct_unit s (mark_dirty s1 g) g [] HI HI2).
  - rewrite (ps_next _ _ P). exact Nx.
  - intros a Ha. rewrite mark_dirty_kids. apply K1, Ha.
  - intros c Hc. rewrite mark_dirty_kids in Hc. left. apply K2, Hc.
  - intros x [].
  - intro y. rewrite (ps_kind _ _ P). destruct (V y) as [A B]. rewrite A, B, O. auto.
  - intro y. left. rewrite (ps_parent _ _ P), O. reflexivity.
  - intros j b Hc. rewrite (mark_dirty_cache s1 g j Fx1) in Hc. apply inval_up_only_clears in Hc. rewrite O in Hc. exact Hc.
  - intros a Ca H. rewrite (mark_dirty_cache s1 g a Fx1).
    apply (inval_up_reach s1 g a HI1 Hg1).
    + destruct H as [E|B]; [left; exact E | right; apply (below_roots s1 _ a g (mark_dirty_roots s1 g)); exact B].
    + rewrite <- (ptr_same_container _ _ a P). exact Ca.
  - intros a x _ [].
  - exact Co.
Qed.

(* ---------------------------------------------------------------- the attaching unit: detached objects xs join the list of g,
   then _update_layer_metadata and _update_psd_record *)
Lemma attach_unit s s1 g xs : Good s -> fixedv s ->
  objs s1 = objs s -> next s1 = next s -> conf s1 = conf s -> InvG s1 g -> In g (ids_l (roots s1)) ->
  (forall a, a <> g -> kid_ids s1 a = kid_ids s a) ->
  (forall c, In c (kid_ids s1 g) -> In c (kid_ids s g) \/ In c xs) ->
  (forall x, In x xs -> In x (kid_ids s1 g) /\ rootid s x /\ kind s x <> KDoc) ->
  In g (ids_l (roots s)) ->
  CoherentA s -> CoherentA (mark_dirty (meta s1 g) g).
Proof.
  intros [HI Q] Fx O Nx Cx HG1 Hg1 K1 K2 Kx Hg Co.
  assert (Q1 : quiet s1) by (apply (cl_same_quiet s); [apply objs_same_cl; assumption | exact Q]).
  pose proof (meta_inv s1 g HG1 Q1 Hg1) as HI2. destruct (meta_frame s1 g) as [Fr [Fn [Fc Ff]]].
  set (s2 := meta s1 g) in *.
  assert (Fx2 : fixedv s2) by (unfold fixedv; rewrite Ff, Cx; exact Fx).
  pose proof (mark_dirty_ptr s2 g) as P. pose proof (ptr_same_inv _ _ P HI2) as HI3.
  pose proof (vr_trans _ _ _ (meta_vr s1 g) (mark_dirty_vr s2 g)) as V. fold s2 in V.
  assert (R3 : roots (mark_dirty s2 g) = roots s1) by (rewrite mark_dirty_roots; exact Fr).
  assert (Cf1 : cachefix (conf s1) = true) by (rewrite Cx; apply Fx).
  pose proof (inv_nodup _ HI2) as N2.
  apply (coh_struct_unit s (mark_dirty s2 g) g xs HI HI3).
  - rewrite (ps_next _ _ P), Fn. exact Nx.
  - intros a Ha. rewrite mark_dirty_kids. unfold s2. rewrite meta_kids. apply K1, Ha.
  - intros c Hc. rewrite mark_dirty_kids in Hc. unfold s2 in Hc. rewrite meta_kids in Hc. apply K2, Hc.
  - intros x Hx. destruct (Kx x Hx) as [_ [Rx Kd]]. apply (root_not_att s x HI Rx Kd).
  - intro y. destruct (V y) as [A B]. rewrite A, B, (ps_kind _ _ P). unfold s2. rewrite meta_kind, O. auto.
  - intro y. rewrite (ps_parent _ _ P). unfold s2. rewrite meta_parent, O.
    destruct (memz y (kid_ids s1 g)) eqn:M; [|left; reflexivity]. apply memz_In in M.
    destruct (K2 y M) as [H|H]; [left | right; exact H].
    symmetry. apply (I1_parent s g y HI H Hg).
  - intros j b Hc. rewrite (mark_dirty_cache s2 g j Fx2) in Hc. apply inval_up_only_clears in Hc.
    unfold s2 in Hc. rewrite (meta_cache s1 g j Cf1) in Hc. destruct (memz j _); [discriminate|]. rewrite O in Hc. exact Hc.
  - intros a Ca H. rewrite (mark_dirty_cache s2 g a Fx2).
    apply (inval_up_reach s2 g a HI2); [rewrite Fr; exact Hg1 | | rewrite <- (ptr_same_container _ _ a P); exact Ca].
    destruct H as [E|B]; [left; exact E | right; apply (below_roots s2 _ a g (mark_dirty_roots s2 g)); exact B].
  - intros a x Ca Hx H.
    destruct (ocache (objs (mark_dirty s2 g) a)) as [b|] eqn:E; [|reflexivity]. exfalso.
    rewrite (mark_dirty_cache s2 g a Fx2) in E. apply inval_up_only_clears in E.
    unfold s2 in E. rewrite (meta_cache s1 g a Cf1) in E.
    assert (M : memz a (filter (is_container s1) (descendants s1 g)) = true).
    { apply memz_In. apply filter_In. split.
      - rewrite (descendants_quiet s1 g Q1). destruct (Kx x Hx) as [Hk _].
        assert (Bx : below s1 g x).
        { unfold below. unfold kid_ids in Hk. apply in_map_iff in Hk as [t [Et Ht]]. subst. apply root_in_ids. exact Ht. }
        destruct H as [->|B]; [exact Bx|].
        apply (below_trans s1 g x a); [rewrite <- Fr; exact N2 | exact Bx |].
        apply (below_roots s1 _ x a R3). exact B.
      - rewrite (ptr_same_container _ _ a P) in Ca. unfold s2, is_container, kind in Ca. rewrite meta_kind in Ca. exact Ca. }
    rewrite M in E. discriminate.
  - exact Co.
Qed.

(* ---------------------------------------------------------------- steps that only fill caches with fresh values *)
Lemma att_sbc s s' j : same_but_caches s s' -> att s' j -> att s j.
Proof.
  intros [R [_ [_ [_ H]]]]. induction 1 as [d K Hd|a c Aa IH He].
  - apply att_doc; [|rewrite <- R; exact Hd]. unfold kind in *. destruct (nocache_fields _ _ (H d)) as [E _]. rewrite <- E. exact K.
  - apply (att_child s a c IH). rewrite <- R. exact He.
Qed.
Lemma read_bbox_cohA s g : CoherentA s -> CoherentA (fst (read_bbox s g)).
Proof.
  intros C. pose proof (sbc_read_bbox s g) as S. unfold read_bbox in *.
  destruct (ocache (objs s g)) eqn:Eg; [exact C|]. destruct (fresh_bbox s g) as [b|] eqn:F; [|exact C].
  cbn [fst] in *. intros i bi Ai Ci Hc. rewrite (fresh_nocache _ _ i S).
  pose proof (att_sbc _ _ i S Ai) as Ai0.
  assert (Ci0 : is_container s i = true).
  { destruct S as [_ [_ [_ [_ H]]]]. destruct (nocache_fields _ _ (H i)) as [E _]. unfold is_container, kind in *. rewrite <- E. exact Ci. }
  unfold mod_obj, set_objs, upd in Hc. cbn [objs] in Hc. destruct (i =? g) eqn:E.
  - apply Z.eqb_eq in E. subst i. cbn in Hc. inversion Hc; subst. exact F.
  - apply (C i bi Ai0 Ci0 Hc).
Qed.
Lemma repr_touch_cohA s x : CoherentA s -> CoherentA (fst (repr_touch s x)).
Proof.
  intro C. unfold repr_touch. destruct (kind s x =? KGroup); [|exact C].
  pose proof (read_bbox_cohA s x C) as H. destruct (read_bbox s x) as [s1 [b|]]; exact H.
Qed.
Lemma fail_fmt_cohA xs : forall s c, CoherentA s -> CoherentA (fst (fail_fmt s xs c)).
Proof.
  induction xs as [|x r IH]; intros s c C; [exact C|]. simpl.
  pose proof (repr_touch_cohA s x C) as H. destruct (repr_touch s x) as [s1 [|]]; cbn [fst] in *; [apply IH, H | exact H].
Qed.
Lemma check_fail_cohA s g bad : CoherentA s -> CoherentA (fst (check_fail s g bad)).
Proof. intro C. unfold check_fail. destruct bad as [x|]; [|exact C]. destruct (x =? g); apply fail_fmt_cohA, C. Qed.

(* ---------------------------------------------------------------- remove / pop / del / clear *)
Lemma detach_at_coh s g k : Good s -> fixedv s -> alloc_ok s g -> CoherentA s -> CoherentA (mark_dirty (detach_at s g k) g).
Proof.
  intros G Fx Hg Co. pose proof G as [HI Q]. pose proof (inv_nodup s HI) as N.
  destruct (detach_at_facts s g k N) as [Ao [An [Ac [Af [Acnt _]]]]].
  apply (detach_unit s (detach_at s g k) g G Fx Ao An Af (detach_at_inv s g k HI)).
  - apply (cnt_same_In _ _ Acnt). apply (alloc_in_forest s g HI), Hg.
  - intros a Ha. rewrite (detach_at_kids s g k N a). unfold updL. apply Z.eqb_neq in Ha. rewrite Ha. reflexivity.
  - intros c Hc. rewrite (detach_at_kids s g k N g), updL_eq in Hc. apply (in_del_nth c _ k Hc).
  - exact Co.
Qed.
Lemma do_remove_coh s g x : Good s -> fixedv s -> alloc_ok s g -> CoherentA s -> CoherentA (fst (do_remove s g x)).
Proof. intros G Fx Hg Co. unfold do_remove. destruct (index_of x (kid_ids s g)); [apply detach_at_coh; assumption | exact Co]. Qed.
Lemma do_pop_coh s g i : Good s -> fixedv s -> alloc_ok s g -> CoherentA s -> CoherentA (fst (do_pop s g i)).
Proof. intros G Fx Hg Co. unfold do_pop. destruct (idx_pos (zlen (kids_of s g)) i); [apply detach_at_coh; assumption | exact Co]. Qed.
Lemma do_delitem_coh s g i : Good s -> fixedv s -> alloc_ok s g -> CoherentA s -> CoherentA (fst (do_delitem s g i)).
Proof.
  intros G Fx Hg Co. unfold do_delitem. rewrite (proj2 Fx).
  destruct (idx_pos (zlen (kids_of s g)) i); [apply detach_at_coh; assumption | exact Co].
Qed.
Lemma skipn_In {A} (x : A) n l : In x (skipn n l) -> In x l.
Proof. intro H. rewrite <- (firstn_skipn n l). apply in_or_app. right. exact H. Qed.
Lemma detach_n_frame n : forall s g, NoDup (ids_l (roots s)) -> Inv s ->
  objs (detach_n s g n) = objs s /\ next (detach_n s g n) = next s /\ conf (detach_n s g n) = conf s
  /\ (forall y, cnt y (ids_l (roots (detach_n s g n))) = cnt y (ids_l (roots s))).
Proof.
  induction n as [|n IH]; intros s g N HI; [repeat split; auto|]. simpl.
  destruct (detach_at_facts s g 0 N) as [Ao [An [_ [Af [Acnt _]]]]].
  pose proof (detach_at_inv s g 0 HI) as HI1.
  destruct (IH (detach_at s g 0) g (inv_nodup _ HI1) HI1) as [B1 [B2 [B3 B4]]].
  split; [congruence|]. split; [congruence|]. split; [congruence|]. intro y. rewrite B4. apply Acnt.
Qed.
Lemma do_clear_coh s g : Good s -> fixedv s -> alloc_ok s g -> CoherentA s -> CoherentA (fst (do_clear s g)).
Proof.
  intros G Fx Hg Co. pose proof G as [HI Q]. unfold do_clear, detach_all. cbn [fst].
  set (n := length (kids_of s g)).
  destruct (detach_n_frame n s g (inv_nodup s HI) HI) as [B1 [B2 [B3 B4]]].
  apply (detach_unit s (detach_n s g n) g G Fx B1 B2 B3 (detach_n_inv n s g HI)).
  - apply (cnt_same_In _ _ B4). apply (alloc_in_forest s g HI), Hg.
  - intros a Ha. rewrite (detach_n_kids n s g G a). unfold updL. apply Z.eqb_neq in Ha. rewrite Ha. reflexivity.
  - intros c Hc. rewrite (detach_n_kids n s g G g), updL_eq in Hc. apply (skipn_In c n _ Hc).
  - exact Co.
Qed.

(* ---------------------------------------------------------------- extend / append / insert / item assignment *)
Lemma layer_not_doc s x : is_layer s x = true -> kind s x <> KDoc.
Proof. unfold is_layer. intros H K. rewrite K in H. discriminate. Qed.

Lemma do_extend_coh s g xs :
  Good s -> fixedv s -> alloc_ok s g -> is_container s g = true ->
  Forall (rootid s) xs -> NoDup xs -> (selffix (conf s) = true \/ ~ In g xs) ->
  CoherentA s -> CoherentA (fst (do_extend s g xs)).
Proof.
  intros [HI Q] Fx Hg Hc Hr Nd Hself Co. unfold do_extend.
  destruct (check_valid s g xs) as [bad|] eqn:CV; [apply check_fail_cohA, Co|].
  pose proof (check_valid_ok s g xs CV) as Hok. rewrite Forall_forall in Hok, Hr.
  assert (Hne : forall x, In x xs -> x <> g).
  { intros x Hx. destruct Hself as [Sf|Hn]; [apply (proj1 (proj2 (Hok x Hx)) Sf) | intro E; subst; contradiction]. }
  assert (Hm : memz g xs = false) by (apply memz_false_notin; intro Hx; exact (Hne g Hx eq_refl)).
  rewrite Hm. pose proof (proj1 (alloc_in_forest s g HI) Hg) as Hgin.
  assert (HF : Forall (fun x => detached_ok s g x /\ is_layer s x = true) xs).
  { apply Forall_forall. intros x Hx. destruct (Hok x Hx) as [L [_ D]]. split; [|exact L].
    apply root_detached_ok; [exact HI | exact Q | exact (Hr x Hx) | exact (Hne x Hx) | exact L | exact D]. }
  destruct (attach_invG xs s g (length (kids_of s g)) (inv_invG s g HI) Hgin Hc Nd HF) as [B1 [B2 [B3 [B4 [B5 B6]]]]].
  pose proof (attach_end_kids xs s g (inv_invG s g HI) Hgin Hc Nd HF) as K. rewrite <- len_kids in K.
  cbn [fst]. apply (attach_unit s _ g xs (conj HI Q) Fx B3 B5 B4 B1 B2).
  - intros a Ha. rewrite K. unfold updL. apply Z.eqb_neq in Ha. rewrite Ha. reflexivity.
  - intros c Hcin. rewrite K, updL_eq in Hcin. apply in_app_iff in Hcin. exact Hcin.
  - intros x Hx. split; [rewrite K, updL_eq; apply in_or_app; right; exact Hx|]. split; [apply Hr, Hx|].
    apply layer_not_doc. apply (Hok x Hx).
  - exact Hgin.
  - exact Co.
Qed.

Lemma do_append_coh s g x :
  Good s -> fixedv s -> alloc_ok s g -> is_container s g = true -> rootid s x ->
  CoherentA s -> CoherentA (fst (do_append s g x)).
Proof.
  intros G Fx Hg Hc Hr Co. unfold do_append. destruct (x =? g) eqn:E; [exact Co|]. apply Z.eqb_neq in E.
  apply do_extend_coh; auto.
  - constructor; [|constructor]. intros [].
  - right. intros [H|[]]. congruence.
Qed.

Lemma splice_in {A} (c : A) l k m : In c (splice l k m) -> In c l \/ In c m.
Proof.
  unfold splice. rewrite !in_app_iff. intros [H|[H|H]]; auto; left;
    rewrite <- (firstn_skipn k l); apply in_or_app; auto.
Qed.
Lemma in_splice_new {A} (c : A) l k m : In c m -> In c (splice l k m).
Proof. intro H. unfold splice. apply in_or_app. right. apply in_or_app. left. exact H. Qed.

Lemma do_insert_coh s g i x :
  Good s -> fixedv s -> alloc_ok s g -> is_container s g = true -> rootid s x ->
  CoherentA s -> CoherentA (fst (do_insert s g i x)).
Proof.
  intros [HI Q] Fx Hg Hc Hr Co. unfold do_insert. destruct (x =? g) eqn:E; [apply fail_fmt_cohA, Co|].
  apply Z.eqb_neq in E.
  destruct (check_valid s g [x]) as [bad|] eqn:CV; [apply check_fail_cohA, Co|].
  pose proof (check_valid_ok s g [x] CV) as Hok. inversion Hok as [|? ? [L [_ D]] _]; subst.
  pose proof (proj1 (alloc_in_forest s g HI) Hg) as Hgin.
  assert (HF : Forall (fun y => detached_ok s g y /\ is_layer s y = true) [x]).
  { constructor; [|constructor]. split; [|exact L].
    apply root_detached_ok; [exact HI | exact Q | exact Hr | exact E | exact L | exact D]. }
  set (k := Z.to_nat (ins_pos (zlen (kids_of s g)) i)).
  assert (Nd : NoDup [x]) by (constructor; [intros [] | constructor]).
  destruct (attach_invG [x] s g k (inv_invG s g HI) Hgin Hc Nd HF) as [B1 [B2 [B3 [B4 [B5 B6]]]]].
  pose proof (attach1_kids_st s g k x (conj HI Q) Hg Hr E CV) as K.
  cbn [fst attach] in *. apply (attach_unit s _ g [x] (conj HI Q) Fx B3 B5 B4 B1 B2).
  - intros a Ha. rewrite K. unfold updL. apply Z.eqb_neq in Ha. rewrite Ha. reflexivity.
  - intros c Hcin. rewrite K, updL_eq in Hcin. apply (splice_in c _ k _ Hcin).
  - intros y [<-|[]]. split; [rewrite K, updL_eq; apply in_splice_new; left; reflexivity|]. split; [exact Hr | apply layer_not_doc, L].
  - exact Hgin.
  - exact Co.
Qed.

Lemma do_setitem_coh s g i x :
  Good s -> fixedv s -> alloc_ok s g -> is_container s g = true -> rootid s x ->
  CoherentA s -> CoherentA (fst (do_setitem s g i x)).
Proof.
  intros [HI Q] Fx Hg Hc Hr Co. unfold do_setitem. destruct (x =? g) eqn:E; [apply fail_fmt_cohA, Co|].
  apply Z.eqb_neq in E.
  destruct (check_valid s g [x]) as [bad|] eqn:CV; [apply check_fail_cohA, Co|].
  destruct (idx_pos (zlen (kids_of s g)) i) as [j|]; [|exact Co].
  pose proof (check_valid_ok s g [x] CV) as Hok. inversion Hok as [|? ? [L [_ D]] _]; subst.
  destruct (root_detached_ok s g x HI Q Hr E L D) as [tx [Htx [Et Hng]]].
  set (k := Z.to_nat j). pose proof (inv_nodup s HI) as N.
  pose proof (detach_at_good s g k (conj HI Q)) as [HI1 Q1].
  destruct (detach_at_facts s g k N) as [Ao [An [Ac [Af [Acnt _]]]]].
  pose proof (detach_at_kids s g k N) as Kd.
  set (s1 := detach_at s g k) in *.
  pose proof (proj1 (alloc_in_forest s g HI) Hg) as Hgin.
  assert (Hg1 : In g (ids_l (roots s1))) by (apply (cnt_same_In _ _ Acnt); exact Hgin).
  assert (Hc1 : is_container s1 g = true) by (unfold is_container, kind; rewrite Ao; exact Hc).
  assert (HF : Forall (fun y => detached_ok s1 g y /\ is_layer s1 y = true) [x]).
  { constructor; [|constructor]. split.
    - exists tx. split; [apply detach_keeps_root; assumption | split; assumption].
    - unfold is_layer, kind. rewrite Ao. exact L. }
  assert (Nd : NoDup [x]) by (constructor; [intros [] | constructor]).
  destruct (attach_invG [x] s1 g k (inv_invG s1 g HI1) Hg1 Hc1 Nd HF) as [B1 [B2 [B3 [B4 [B5 B6]]]]].
  subst x.
  pose proof (attach1_kids s1 g k tx (inv_nodup s1 HI1) (detach_keeps_root s g k tx Htx Hng) Hg1 Hng) as Ka.
  cbn [fst attach] in *. apply (attach_unit s _ g [tid tx] (conj HI Q) Fx); try congruence; try assumption.
  - intros a Ha. rewrite Ka. unfold updL. pose proof Ha as Ha'. apply Z.eqb_neq in Ha. rewrite Ha. rewrite Kd. unfold updL. rewrite Ha. reflexivity.
  - intros c Hcin. rewrite Ka, updL_eq, Kd, updL_eq in Hcin. destruct (splice_in c _ k _ Hcin) as [H|H]; [left; apply (in_del_nth c _ k H) | right; exact H].
  - intros y [<-|[]]. split; [rewrite Ka, updL_eq; apply in_splice_new; left; reflexivity|]. split; [exact Hr | apply layer_not_doc, L].
Qed.

(* ---------------------------------------------------------------- layer-side operations *)
Lemma fixedv_kn s s' : kn_same s s' -> fixedv s -> fixedv s'.
Proof. intros [_ [C _]] F. unfold fixedv. rewrite C. exact F. Qed.

Lemma unlist_coh s x : Good s -> fixedv s -> CoherentA s -> CoherentA (unlist_from_parent s x).
Proof.
  intros G Fx Co. unfold unlist_from_parent. destruct (oparent (objs s x)) as [p|]; [|exact Co].
  destruct (memz x (kid_ids s p)) eqn:M; [|exact Co].
  destruct (listed_edge s p x M) as [Hp _]. apply do_remove_coh; auto. apply (alloc_in_forest s p (proj1 G)), Hp.
Qed.

Lemma mark_dirty_coh_noop s g : Good s -> fixedv s -> alloc_ok s g -> CoherentA s -> CoherentA (mark_dirty s g).
Proof.
  intros G Fx Hg Co. pose proof G as [HI Q].
  apply (detach_unit s s g G Fx eq_refl eq_refl eq_refl HI); auto. apply (alloc_in_forest s g HI), Hg.
Qed.

Lemma do_delete_layer_coh s x : Good s -> fixedv s -> alloc_ok s x -> CoherentA s -> CoherentA (fst (do_delete_layer s x)).
Proof.
  intros G Fx Hx Co. unfold do_delete_layer. destruct (oparent (objs s x)) as [p|] eqn:P.
  - cbn [fst]. destruct (unlist_ok s x G Hx) as [[G1 [K1 _]] _].
    pose proof (unlist_coh s x G Fx Co) as C1.
    assert (Hp : alloc_ok s p).
    { destruct G as [[_ [_ [_ [_ [_ [_ [H7 _]]]]]]] _]. rewrite Forall_forall in H7.
      specialize (H7 x (proj2 (all_ids_In s x) Hx)). unfold parent_alloc in H7. rewrite P in H7. exact H7. }
    apply mark_dirty_coh_noop; [exact G1 | apply (fixedv_kn _ _ K1 Fx) | apply (kn_alloc _ _ _ K1 Hp) | exact C1].
  - pose proof (repr_touch_cohA s x Co) as H. destruct (repr_touch s x) as [s1 [|]]; exact H.
Qed.

Lemma do_move_to_group_coh s x g : Good s -> fixedv s -> alloc_ok s x -> alloc_ok s g ->
  CoherentA s -> CoherentA (fst (do_move_to_group s x g)).
Proof.
  intros G Fx Hx Hg Co. unfold do_move_to_group.
  destruct (is_container s g) eqn:C; cbn [negb]; [|exact Co].
  destruct (g =? x); [exact Co|].
  destruct ((kind s x =? KGroup) && memz g (descendants s x)); [apply fail_fmt_cohA, Co|].
  destruct (unlist_ok s x G Hx) as [[G1 [K1 _]] Rx].
  apply do_append_coh; [exact G1 | apply (fixedv_kn _ _ K1 Fx) | apply (kn_alloc _ _ _ K1 Hg)
                        | rewrite (kn_container _ _ _ K1 Hg); exact C | exact Rx | apply unlist_coh; assumption].
Qed.

Lemma do_move_up_coh s x off : Good s -> fixedv s -> alloc_ok s x -> CoherentA s -> CoherentA (fst (do_move_up s x off)).
Proof.
  intros G Fx Hx Co. unfold do_move_up. destruct (oparent (objs s x)) as [p|] eqn:P; [|exact Co].
  destruct (index_of x (kid_ids s p)) as [k|] eqn:I; [|apply fail_fmt_cohA, Co].
  assert (M : memz x (kid_ids s p) = true).
  { unfold kid_ids in *. destruct (index_of_nth x _ k I) as [d [Hd Ed]]. apply memz_In. rewrite <- Ed.
    apply in_map. apply nth_error_In with (n := k). exact Hd. }
  destruct (listed_edge s p x M) as [Hpin He]. pose proof G as [HI Q].
  pose proof (proj2 (alloc_in_forest s p HI) Hpin) as Hp.
  assert (Cp : is_container s p = true).
  { destruct HI as [_ [_ [_ [Hk _]]]]. rewrite Forall_forall in Hk. apply (Hk _ He). }
  pose proof (do_remove_ok s p x G) as [G1 [K1 _]]. pose proof (do_remove_root s p x G M) as Rx.
  apply do_insert_coh; [exact G1 | apply (fixedv_kn _ _ K1 Fx) | apply (kn_alloc _ _ _ K1 Hp)
                        | rewrite (kn_container _ _ _ K1 Hp); exact Cp | exact Rx | apply do_remove_coh; assumption].
Qed.

(* ---------------------------------------------------------------- allocation *)
Lemma att_alloc s o j : Inv s -> att (alloc s o) j -> j <> next s -> att s j.
Proof.
  intros HI A. induction A as [d K Hd|a c Aa IH He]; intro Hne.
  - apply att_doc.
    + unfold kind, alloc, upd in K. cbn [objs] in K. apply Z.eqb_neq in Hne. rewrite Hne in K. exact K.
    + unfold alloc in Hd. cbn [roots] in Hd. rewrite ids_l_snoc, in_app_iff in Hd. destruct Hd as [H|[H|[]]]; [exact H | congruence].
  - unfold alloc in He. cbn [roots] in He. rewrite edges_l_snoc in He.
    destruct (edges_l_in_ids _ _ _ He) as [Ha _].
    apply (att_child s a c); [apply IH|exact He].
    destruct HI as [_ [_ [_ [_ [H5 _]]]]]. apply H5 in Ha. lia.
Qed.

Lemma alloc_coh s o : Good s -> oparent o = None -> ocache o = None -> CoherentA s -> CoherentA (alloc s o).
Proof.
  intros [HI Q] Po Co0 Co j b Aj Cj Hc.
  pose proof HI as [_ [_ [_ [_ [H5 _]]]]].
  assert (Hobj : forall i, i <> next s -> objs (alloc s o) i = objs s i).
  { intros i Hi. unfold alloc, upd. cbn [objs]. apply Z.eqb_neq in Hi. rewrite Hi. reflexivity. }
  assert (Hjn : j <> next s).
  { intro E. subst. unfold alloc, upd in Hc. cbn [objs] in Hc. rewrite Z.eqb_refl, Co0 in Hc. discriminate. }
  pose proof (att_alloc s o j HI Aj Hjn) as Aj0. rewrite (Hobj j Hjn) in Hc.
  assert (Cj0 : is_container s j = true) by (unfold is_container, kind in *; rewrite (Hobj j Hjn) in Cj; exact Cj).
  pose proof (Co j b Aj0 Cj0 Hc) as F0. pose proof (inv_nodup s HI) as N.
  assert (Hlt : forall i, In i (ids_l (roots s)) -> i <> next s) by (intros i Hi; apply H5 in Hi; lia).
  apply (fresh_stable s (alloc s o) j b F0).
  - unfold subtree, alloc. cbn [roots]. rewrite find_l_app. rewrite (found_node s j (att_in s j Aj0)). reflexivity.
  - unfold fuel_of, alloc. cbn [next]. lia.
  - intros c Hcb. assert (Hcn : c <> next s).
    { apply Hlt. apply (att_in s c). apply (att_below s j c N Aj0 Hcb). }
    unfold kind. rewrite (Hobj c Hcn). split; [reflexivity|]. split; [reflexivity|].
    intros y Hy. assert (Hyn : y <> next s).
    { apply Hlt. apply (att_in s y). apply (visited_att (fuel_of s) s c y HI); [apply (att_below s j c N Aj0 Hcb) | exact Hy]. }
    unfold same3. rewrite (Hobj y Hyn). auto.
Qed.

Lemma do_new_group_coh s parent : Good s -> fixedv s -> (forall p, parent = Some p -> alloc_ok s p) ->
  CoherentA s -> CoherentA (fst (do_new_group s parent)).
Proof.
  intros G Fx Hp Co. unfold do_new_group.
  destruct (alloc_step s new_group_obj G eq_refl eq_refl) as [[G1 [K1 R1]] [Rn [An On]]].
  pose proof (alloc_coh s new_group_obj G eq_refl eq_refl Co) as C1.
  destruct parent as [p|]; [|exact C1]. destruct (is_container (alloc s new_group_obj) p); [|exact C1].
  rewrite fst_relabel. apply do_move_to_group_coh; [exact G1 | apply (fixedv_kn _ _ K1 Fx) | exact An | apply (kn_alloc _ _ _ K1 (Hp p eq_refl)) | exact C1].
Qed.

Lemma move_all_coh n : forall xs st, Good st -> fixedv st -> alloc_ok st n -> Forall (fun x => alloc_ok st x) xs ->
  CoherentA st -> CoherentA (fst (move_all st xs n)).
Proof.
  induction xs as [|x r IH]; intros st G Fx An HF Co; [exact Co|].
  inversion HF as [|? ? Ax HFr]; subst. simpl.
  pose proof (do_move_to_group_ok st x n G Ax An) as [G1 [K1 _]].
  pose proof (do_move_to_group_coh st x n G Fx Ax An Co) as C1.
  destruct (do_move_to_group st x n) as [s1 [w|c]]; cbn [fst] in *; [|exact C1].
  apply IH; [exact G1 | apply (fixedv_kn _ _ K1 Fx) | apply (kn_alloc _ _ _ K1 An) | | exact C1].
  eapply Forall_impl; [|exact HFr]. intros y Ay. apply (kn_alloc _ _ _ K1 Ay).
Qed.

Lemma do_group_layers_coh s xs parent : Good s -> fixedv s -> Forall (alloc_ok s) xs -> (forall p, parent = Some p -> alloc_ok s p) ->
  CoherentA s -> CoherentA (fst (do_group_layers s xs parent)).
Proof.
  intros G Fx Hxs Hp Co. unfold do_group_layers. destruct xs as [|x0 r]; [exact Co|].
  set (xs := x0 :: r) in *.
  set (par := match parent with Some p => Some p | None => oparent (objs s x0) end).
  assert (Hpar : forall p, par = Some p -> alloc_ok s p).
  { intros p Ep. unfold par in Ep. destruct parent as [q|]; [inversion Ep; subst; apply Hp; reflexivity|].
    destruct G as [[_ [_ [_ [_ [_ [_ [H7 _]]]]]]] _]. rewrite Forall_forall in H7.
    inversion Hxs as [|? ? A0 _]; subst. specialize (H7 x0 (proj2 (all_ids_In s x0) A0)).
    unfold parent_alloc in H7. rewrite Ep in H7. exact H7. }
  destruct (alloc_step s new_group_obj G eq_refl eq_refl) as [[G1 [K1 R1]] [Rn [An On]]].
  pose proof (alloc_coh s new_group_obj G eq_refl eq_refl Co) as C1.
  set (s1 := alloc s new_group_obj) in *. set (n := next s) in *.
  assert (HF : Forall (fun x => alloc_ok s1 x) xs) by (eapply Forall_impl; [|exact Hxs]; intros y Ay; apply (kn_alloc _ _ _ K1 Ay)).
  pose proof (move_all_coh n xs s1 G1 (fixedv_kn _ _ K1 Fx) An HF C1) as C2.
  destruct (move_all_ok n xs s1 G1 An Rn) as [[G2 [K2 R2]] Rn2].
  { eapply Forall_impl; [|exact Hxs]. intros y Ay. split; [apply (kn_alloc _ _ _ K1 Ay) | unfold alloc_ok, n in *; lia]. }
  destruct (move_all s1 xs n) as [s2 [w|c]]; cbn [fst] in *; [|exact C2].
  destruct par as [p|]; [|exact C2]. destruct (is_container s2 p) eqn:C; [|exact C2].
  rewrite fst_relabel.
  apply do_append_coh; [exact G2 | apply (fixedv_kn _ _ K2), (fixedv_kn _ _ K1 Fx)
                        | apply (kn_alloc _ _ _ K2), (kn_alloc _ _ _ K1), Hpar; reflexivity | exact C | exact Rn2 | exact C2].
Qed.

(* ---------------------------------------------------------------- setters *)
Lemma inval_below_cache s g j : ocache (objs (inval_below s g) j)
  = if memz j (filter (is_container s) (descendants s g)) then None else ocache (objs s j).
Proof. unfold inval_below, map_objs, set_objs. cbn [objs]. destruct (memz j _); reflexivity. Qed.

Lemma do_set_visible_coh s x b : Good s -> fixedv s -> alloc_ok s x -> CoherentA s -> CoherentA (fst (do_set_visible s x b)).
Proof.
  intros [HI Q] [Cf Cl] Hx Co. unfold do_set_visible. destruct (is_layer s x) eqn:L; cbn [negb]; [|exact Co].
  unfold invalidate. rewrite Cf. cbn [fst andb].
  set (s1 := inval_up (fuel_of s) s x). set (s2 := mod_obj s1 x (with_vis b)).
  set (s3 := if kind s x =? KGroup then inval_below s2 x else s2).
  pose proof (inval_up_ptr (fuel_of s) s x) as P1. fold s1 in P1.
  assert (P2 : ptr_same s s2) by (eapply ptr_same_trans; [exact P1 | apply mod_obj_ptr, keeps_vis]).
  assert (P3 : ptr_same s s3) by (unfold s3; destruct (kind s x =? KGroup); [eapply ptr_same_trans; [exact P2 | apply inval_below_ptr] | exact P2]).
  pose proof (proj1 (alloc_in_forest s x HI) Hx) as Hxin.
  assert (V3 : forall y, y <> x -> ovis (objs s3 y) = ovis (objs s y) /\ orect (objs s3 y) = orect (objs s y)).
  { intros y Hy. assert (V2 : ovis (objs s2 y) = ovis (objs s y) /\ orect (objs s2 y) = orect (objs s y)).
    { unfold s2, mod_obj, set_objs, upd. cbn [objs]. apply Z.eqb_neq in Hy. rewrite Hy. apply (inval_up_vr (fuel_of s) s x y). }
    unfold s3. destruct (kind s x =? KGroup); [|exact V2].
    destruct (map_objs_vr s2 (filter (is_container s2) (descendants s2 x)) (with_cache None) (kvr_cache None) y) as [A B].
    unfold inval_below. rewrite A, B. exact V2. }
  assert (C12 : forall j, ocache (objs s2 j) = ocache (objs s1 j)).
  { intro j. unfold s2. apply mod_obj_cache. intro o. reflexivity. }
  assert (C3le : forall j b0, ocache (objs s3 j) = Some b0 -> ocache (objs s2 j) = Some b0).
  { intros j b0 H. unfold s3 in H. destruct (kind s x =? KGroup); [|exact H].
    rewrite inval_below_cache in H. destruct (memz j _); [discriminate | exact H]. }
  apply (coh_field_unit s s3 x true HI (ps_roots _ _ P3) (ps_next _ _ P3)).
  - intro y. split; [apply (ps_kind _ _ P3) | apply (ps_parent _ _ P3)].
  - exact V3.
  - discriminate.
  - intros j b0 H. apply C3le in H. rewrite C12 in H. apply (inval_up_only_clears _ _ _ _ _ H).
  - intros a Ca H. destruct (ocache (objs s3 a)) as [b0|] eqn:E; [|reflexivity]. exfalso.
    apply C3le in E. rewrite C12 in E. unfold s1 in E. rewrite (inval_up_reach s x a HI Hxin H Ca) in E. discriminate.
  - intros _ a Ca B. unfold s3.
    destruct (kind s x =? KGroup) eqn:K.
    + rewrite inval_below_cache.
      assert (M : memz a (filter (is_container s2) (descendants s2 x)) = true).
      { apply memz_In. apply filter_In. split.
        - assert (Q2 : quiet s2).
          { apply (cl_same_quiet s); [|exact Q]. eapply cl_same_trans; [apply inval_up_cl | apply mod_obj_cl, kcl_vis]. }
          rewrite (descendants_quiet s2 x Q2). apply (below_roots s s2 x a (ps_roots _ _ P2)). exact B.
        - rewrite (ptr_same_container _ _ a P2). exact Ca. }
      rewrite M. reflexivity.
    + exfalso. destruct (is_layer_kinds s x L) as [Kx|Kx]; [rewrite Kx in K; discriminate|].
      unfold below in B. pose proof (inv_nodup s HI) as N. destruct HI as [_ [_ [_ HW]]].
      rewrite (pixel_no_kids s x HW N Kx) in B. exact B.
  - exact Co.
Qed.

Lemma move_rect_coh s x (nr : box) : Good s -> fixedv s -> alloc_ok s x -> CoherentA s ->
  CoherentA (mod_obj (inval_up (fuel_of s) s x) x (with_rect nr)).
Proof.
  intros [HI Q] [Cf Cl] Hx Co.
  set (s1 := inval_up (fuel_of s) s x). set (s2 := mod_obj s1 x (with_rect nr)).
  pose proof (inval_up_ptr (fuel_of s) s x) as P1. fold s1 in P1.
  assert (P2 : ptr_same s s2) by (eapply ptr_same_trans; [exact P1 | apply mod_obj_ptr, keeps_rect]).
  pose proof (proj1 (alloc_in_forest s x HI) Hx) as Hxin.
  assert (C12 : forall j, ocache (objs s2 j) = ocache (objs s1 j)).
  { intro j. unfold s2. apply mod_obj_cache. intro o. reflexivity. }
  apply (coh_field_unit s s2 x false HI (ps_roots _ _ P2) (ps_next _ _ P2)).
  - intro y. split; [apply (ps_kind _ _ P2) | apply (ps_parent _ _ P2)].
  - intros y Hy. unfold s2, mod_obj, set_objs, upd. cbn [objs]. apply Z.eqb_neq in Hy. rewrite Hy. apply (inval_up_vr (fuel_of s) s x y).
  - intros _. unfold s2, mod_obj, set_objs, upd. cbn [objs]. rewrite Z.eqb_refl. cbn. apply (inval_up_vr (fuel_of s) s x x).
  - intros j b0 H. rewrite C12 in H. apply (inval_up_only_clears _ _ _ _ _ H).
  - intros a Ca H. rewrite C12. apply (inval_up_reach s x a HI Hxin H Ca).
  - discriminate.
  - exact Co.
Qed.

Lemma do_set_left_coh s x v : Good s -> fixedv s -> alloc_ok s x -> CoherentA s -> CoherentA (fst (do_set_left s x v)).
Proof.
  intros G Fx Hx Co. unfold do_set_left. destruct (kind s x =? KPixel); cbn [negb]; [|exact Co].
  unfold invalidate. rewrite (proj1 Fx). cbn [fst]. destruct (orect (objs s x)) as [[[l t] r] bt]. cbn [fst].
  apply move_rect_coh; assumption.
Qed.
Lemma do_set_top_coh s x v : Good s -> fixedv s -> alloc_ok s x -> CoherentA s -> CoherentA (fst (do_set_top s x v)).
Proof.
  intros G Fx Hx Co. unfold do_set_top. destruct (kind s x =? KPixel); cbn [negb]; [|exact Co].
  unfold invalidate. rewrite (proj1 Fx). cbn [fst]. destruct (orect (objs s x)) as [[[l t] r] bt]. cbn [fst].
  apply move_rect_coh; assumption.
Qed.

(* changes of clip lists / clipping flag / dirty flag only *)
Lemma coh_bookkeeping s s' : roots s' = roots s -> next s' = next s ->
  (forall y, okind (objs s' y) = okind (objs s y) /\ oparent (objs s' y) = oparent (objs s y)
             /\ ovis (objs s' y) = ovis (objs s y) /\ orect (objs s' y) = orect (objs s y) /\ ocache (objs s' y) = ocache (objs s y)) ->
  CoherentA s -> CoherentA s'.
Proof.
  intros R Nx F Co j b Aj Cj Hc.
  assert (A0 : att s j).
  { clear Hc Cj. induction Aj as [d K Hd|a c Aa IH He].
    - apply att_doc; [unfold kind in *; rewrite <- (proj1 (F d)); exact K | rewrite <- R; exact Hd].
    - apply (att_child s a c IH). rewrite <- R. exact He. }
  destruct (F j) as [Kj [_ [_ [_ Cj']]]].
  assert (C0 : is_container s j = true) by (unfold is_container, kind in *; rewrite <- Kj; exact Cj).
  rewrite Cj' in Hc. rewrite <- (Co j b A0 C0 Hc).
  apply fresh_ext; [exact R | exact Nx | | ].
  - intro i. destruct (F i) as [A [B [C _]]]. auto.
  - intros c _. apply (F c).
Qed.

Lemma do_set_clip_coh s x b : CoherentA s -> CoherentA (fst (do_set_clip s x b)).
Proof.
  intro Co. unfold do_set_clip. destruct (is_layer s x); cbn [negb]; [|exact Co].
  assert (G : forall st d, CoherentA st -> CoherentA (compute_clipping (mod_obj st x (with_clipf b)) d)).
  { intros st d C. apply (coh_bookkeeping st); [| |  |exact C].
    - rewrite (ps_roots _ _ (compute_clipping_ptr _ d)). reflexivity.
    - rewrite (ps_next _ _ (compute_clipping_ptr _ d)). reflexivity.
    - intro y. pose proof (compute_clipping_ptr (mod_obj st x (with_clipf b)) d) as P.
      pose proof (mod_obj_ptr st x (with_clipf b) (keeps_clipf b)) as P0.
      rewrite (ps_kind _ _ P), (ps_parent _ _ P), (ps_kind _ _ P0), (ps_parent _ _ P0).
      destruct (compute_clipping_vr (mod_obj st x (with_clipf b)) d y) as [A B]. rewrite A, B, compute_clipping_cache.
      unfold mod_obj, set_objs, upd. cbn [objs]. destruct (y =? x) eqn:E; [apply Z.eqb_eq in E; subst; cbn; auto | auto]. }
  destruct (clipfix (conf s)).
  - destruct (opsd (objs s x)); cbn [fst]; [apply G, Co|].
    apply (coh_bookkeeping s); [reflexivity | reflexivity | | exact Co].
    intro y. unfold mod_obj, set_objs, upd. cbn [objs]. destruct (y =? x) eqn:E; [apply Z.eqb_eq in E; subst; cbn; auto | auto].
  - destruct (opsd (objs s x)); [|exact Co]. destruct (0 <? zlen (kids_of s z)); [|exact Co]. cbn [fst]. apply G, Co.
Qed.

(* ---------------------------------------------------------------- the step theorem *)
Theorem step_cohA s o : Good s -> fixedv s -> guard s o -> CoherentA s -> CoherentA (fst (step s o)).
Proof.
  intros G Fx [Hids Hg] Co. pose proof G as [[_ [_ [_ [_ [_ [Hcor _]]]]]] _].
  unfold step. rewrite Hcor.
  destruct (match needs_container o with Some g => negb (is_container s g) | None => false end) eqn:NC; [exact Co|].
  destruct (match needs_layer o with Some x => negb (is_layer s x) | None => false end) eqn:NL; [exact Co|].
  rewrite Forall_forall in Hids.
  destruct o; cbn [op_ids needs_container needs_layer fst] in *.
  - apply alloc_coh; auto.
  - apply alloc_coh; auto.
  - apply do_new_group_coh; auto. intros p E. subst. apply Hids. left. reflexivity.
  - apply do_group_layers_coh; auto.
    + apply Forall_forall. intros y Hy. apply Hids. apply in_or_app. left. exact Hy.
    + intros p E. subst. apply Hids. apply in_or_app. right. left. reflexivity.
  - apply negb_false_iff in NC. apply do_append_coh; auto. apply Hids. left. reflexivity.
  - apply negb_false_iff in NC. destruct Hg as [A [B C]]. apply do_extend_coh; auto. apply Hids. left. reflexivity.
  - apply negb_false_iff in NC. apply do_insert_coh; auto. apply Hids. left. reflexivity.
  - apply do_remove_coh; auto. apply Hids. left. reflexivity.
  - apply do_pop_coh; auto. apply Hids. left. reflexivity.
  - apply do_clear_coh; auto. apply Hids. left. reflexivity.
  - apply negb_false_iff in NC. apply do_setitem_coh; auto. apply Hids. left. reflexivity.
  - apply do_delitem_coh; auto. apply Hids. left. reflexivity.
  - apply do_delete_layer_coh; auto. apply Hids. left. reflexivity.
  - apply do_move_to_group_coh; auto; apply Hids; [right; left | left]; reflexivity.
  - apply do_move_up_coh; auto. apply Hids. left. reflexivity.
  - apply do_move_up_coh; auto. apply Hids. left. reflexivity.
  - apply do_set_visible_coh; auto. apply Hids. left. reflexivity.
  - apply do_set_left_coh; auto. apply Hids. left. reflexivity.
  - apply do_set_top_coh; auto. apply Hids. left. reflexivity.
  - apply do_set_clip_coh; auto.
  - unfold do_obs_bbox. destruct (kind s x =? KPixel); [exact Co|]. destruct (is_container s x); [|exact Co].
    pose proof (read_bbox_cohA s x Co) as H. destruct (read_bbox s x) as [s1 [b|]]; exact H.
  - unfold do_obs_size. destruct (kind s x =? KGroup).
    + pose proof (read_bbox_cohA s x Co) as H. destruct (read_bbox s x) as [s1 [[[[l t] r] b]|]]; exact H.
    + destruct (orect (objs s x)) as [[[l t] r] b]. exact Co.
  - unfold do_obs_repr. destruct (kind s x =? KGroup).
    + pose proof (read_bbox_cohA s x Co) as H. destruct (read_bbox s x) as [s1 [[[[l t] r] b]|]]; exact H.
    + destruct (orect (objs s x)) as [[[l t] r] b]. destruct (kind s x =? KDoc); exact Co.
  - exact Co.
  - exact Co.
  - destruct (isvis (fuel_of s) s x); exact Co.
  - exact Co.
Qed.

(* all guarded histories *)
Lemma fixedv_step s o : fixedv s -> Good s -> guard s o -> fixedv (fst (step s o)).
Proof. intros F G Hg. destruct (step_ok s o G Hg) as [_ [K _]]. apply (fixedv_kn _ _ K F). Qed.

Theorem run_cohA : forall h s, Good s -> fixedv s -> guards s h -> CoherentA s -> CoherentA (run s h).
Proof.
  induction h as [|o r IH]; intros s G Fx Hg Co; [exact Co|].
  destruct Hg as [G0 Gr]. rewrite run_cons.
  apply IH; [apply (step_ok s o G G0) | apply fixedv_step; assumption | exact Gr | apply step_cohA; assumption].
Qed.

Lemma coherent_cohA s : Inv s -> Coherent s -> CoherentA s.
Proof.
  intros HI C j b A _ Hc. apply (C j b); [|exact Hc]. apply (alloc_in_forest s j HI). apply (att_in s j A).
Qed.

(* computed membership tests (their proofs keep a VM cast, so Qed is fast) *)
Lemma In_edge_b (a c : Z) (l : list (Z * Z)) :
  existsb (fun e => (fst e =? a) && (snd e =? c)) l = true -> In (a, c) l.
Proof.
  rewrite existsb_exists. intros [[x y] [Hin H]]. apply andb_true_iff in H as [H1 H2].
  apply Z.eqb_eq in H1, H2. simpl in *. subst. exact Hin.
Qed.
Lemma notin_memz (x : Z) l : memz x l = false -> ~ In x l.
Proof. apply memz_false_notin. Qed.
