(* Edit/ProofsGen.v -- the case analysis over the 27 operations, once and for all: a state predicate P that
   survives the two structural units (detach.. ; _update_psd_record  and  attach.. ; _update_layer_metadata ;
   _update_psd_record), allocation, cache fills and the four setters survives every guarded step and history.
   (Generated from the CoherentA development in Edit/ProofsCoh.v by renaming; instantiated in Edit/ProofsClip.v.) *)
From PsdV Require Import Base.Prelude Edit.Model Edit.Spec Edit.Inv Edit.Cache Edit.Forest Edit.ProofsInv Edit.ProofsTree
  Edit.ProofsKids Edit.ProofsRefine Edit.ProofsMoves Edit.ProofsCache Edit.ProofsCoh.
Open Scope Z_scope.

Section Generic.
  Variable PP : state -> Prop.
  Hypothesis HP_read : forall s g, PP s -> PP (fst (read_bbox s g)).
  Hypothesis HP_detach : forall s s1 g, Good s -> fixedv s ->
    objs s1 = objs s -> next s1 = next s -> conf s1 = conf s -> Inv s1 -> In g (ids_l (roots s1)) ->
    (forall a, a <> g -> kid_ids s1 a = kid_ids s a) -> (forall c, In c (kid_ids s1 g) -> In c (kid_ids s g)) ->
    PP s -> PP (mark_dirty s1 g).
  Hypothesis HP_attach : forall s s1 g xs, Good s -> fixedv s ->
    objs s1 = objs s -> next s1 = next s -> conf s1 = conf s -> InvG s1 g -> In g (ids_l (roots s1)) ->
    (forall a, a <> g -> kid_ids s1 a = kid_ids s a) ->
    (forall c, In c (kid_ids s1 g) -> In c (kid_ids s g) \/ In c xs) ->
    (forall x, In x xs -> In x (kid_ids s1 g) /\ rootid s x /\ kind s x <> KDoc) ->
    In g (ids_l (roots s)) ->
    PP s -> PP (mark_dirty (meta s1 g) g).
  Hypothesis HP_alloc : forall s o, Good s -> oparent o = None -> ocache o = None -> oclips o = [] -> oclipf o = false -> PP s -> PP (alloc s o).
  Hypothesis HP_setvis : forall s x b, Good s -> fixedv s -> alloc_ok s x -> PP s -> PP (fst (do_set_visible s x b)).
  Hypothesis HP_setleft : forall s x v, Good s -> fixedv s -> alloc_ok s x -> PP s -> PP (fst (do_set_left s x v)).
  Hypothesis HP_settop : forall s x v, Good s -> fixedv s -> alloc_ok s x -> PP s -> PP (fst (do_set_top s x v)).
  Hypothesis HP_setclip : forall s x b, Good s -> fixedv s -> alloc_ok s x -> PP s -> PP (fst (do_set_clip s x b)).

Lemma repr_touch_gen s x : PP s -> PP (fst (repr_touch s x)).
Proof.
  intro C. unfold repr_touch. destruct (kind s x =? KGroup); [|exact C].
  pose proof (HP_read s x C) as H. destruct (read_bbox s x) as [s1 [b|]]; exact H.
Qed.
Lemma fail_fmt_gen xs : forall s c, PP s -> PP (fst (fail_fmt s xs c)).
Proof.
  induction xs as [|x r IH]; intros s c C; [exact C|]. simpl.
  pose proof (repr_touch_gen s x C) as H. destruct (repr_touch s x) as [s1 [|]]; cbn [fst] in *; [apply IH, H | exact H].
Qed.
Lemma check_fail_gen s g bad : PP s -> PP (fst (check_fail s g bad)).
Proof. intro C. unfold check_fail. destruct bad as [x|]; [|exact C]. destruct (x =? g); apply fail_fmt_gen, C. Qed.


Lemma detach_at_gen s g k : Good s -> fixedv s -> alloc_ok s g -> PP s -> PP (mark_dirty (detach_at s g k) g).
Proof.
  intros G Fx Hg Co. pose proof G as [HI Q]. pose proof (inv_nodup s HI) as N.
  destruct (detach_at_facts s g k N) as [Ao [An [Ac [Af [Acnt _]]]]].
  apply (HP_detach s (detach_at s g k) g G Fx Ao An Af (detach_at_inv s g k HI)).
  - apply (cnt_same_In _ _ Acnt). apply (alloc_in_forest s g HI), Hg.
  - intros a Ha. rewrite (detach_at_kids s g k N a). unfold updL. apply Z.eqb_neq in Ha. rewrite Ha. reflexivity.
  - intros c Hc. rewrite (detach_at_kids s g k N g), updL_eq in Hc. apply (in_del_nth c _ k Hc).
  - exact Co.
Qed.
Lemma do_remove_gen s g x : Good s -> fixedv s -> alloc_ok s g -> PP s -> PP (fst (do_remove s g x)).
Proof. intros G Fx Hg Co. unfold do_remove. destruct (index_of x (kid_ids s g)); [apply detach_at_gen; assumption | exact Co]. Qed.
Lemma do_pop_gen s g i : Good s -> fixedv s -> alloc_ok s g -> PP s -> PP (fst (do_pop s g i)).
Proof. intros G Fx Hg Co. unfold do_pop. destruct (idx_pos (zlen (kids_of s g)) i); [apply detach_at_gen; assumption | exact Co]. Qed.
Lemma do_delitem_gen s g i : Good s -> fixedv s -> alloc_ok s g -> PP s -> PP (fst (do_delitem s g i)).
Proof.
  intros G Fx Hg Co. unfold do_delitem. rewrite (proj2 Fx).
  destruct (idx_pos (zlen (kids_of s g)) i); [apply detach_at_gen; assumption | exact Co].
Qed.
Lemma do_clear_gen s g : Good s -> fixedv s -> alloc_ok s g -> PP s -> PP (fst (do_clear s g)).
Proof.
  intros G Fx Hg Co. pose proof G as [HI Q]. unfold do_clear, detach_all. cbn [fst].
  set (n := length (kids_of s g)).
  destruct (detach_n_frame n s g (inv_nodup s HI) HI) as [B1 [B2 [B3 B4]]].
  apply (HP_detach s (detach_n s g n) g G Fx B1 B2 B3 (detach_n_inv n s g HI)).
  - apply (cnt_same_In _ _ B4). apply (alloc_in_forest s g HI), Hg.
  - intros a Ha. rewrite (detach_n_kids n s g G a). unfold updL. apply Z.eqb_neq in Ha. rewrite Ha. reflexivity.
  - intros c Hc. rewrite (detach_n_kids n s g G g), updL_eq in Hc. apply (skipn_In c n _ Hc).
  - exact Co.
Qed.



Lemma do_extend_gen s g xs :
  Good s -> fixedv s -> alloc_ok s g -> is_container s g = true ->
  Forall (rootid s) xs -> NoDup xs -> (selffix (conf s) = true \/ ~ In g xs) ->
  PP s -> PP (fst (do_extend s g xs)).
Proof.
  intros [HI Q] Fx Hg Hc Hr Nd Hself Co. unfold do_extend.
  destruct (check_valid s g xs) as [bad|] eqn:CV; [apply check_fail_gen, Co|].
  pose proof (check_valid_ok s g xs CV) as Hok. rewrite Forall_forall in Hok, Hr.
  assert (Hne : forall x, In x xs -> x <> g).
  { intros x Hx. destruct Hself as [Sf|Hn]; [apply (proj1 (proj2 (Hok x Hx)) Sf) | intro E; subst; contradiction]. }
  assert (Hm : memz g xs = false) by (apply memz_false_notin; intro Hx; exact (Hne g Hx eq_refl)).
  rewrite Hm. pose proof (proj1 (alloc_in_forest s g HI) Hg) as Hgin.
  assert (HF : Forall (fun x => detached_ok s g x /\ is_layer s x = true) xs).
  { apply Forall_forall. intros x Hx. destruct (Hok x Hx) as [L [_ D]]. split; [|exact L].
    apply root_detached_ok; [exact HI | exact Q | exact (Hr x Hx) | exact (Hne x Hx) | exact L | exact D]. }
  destruct (attach_invG xs s g (length (kids_of s g)) (inv_invG s g HI) Hgin Hc Nd HF) as [B1 [B2 [B3 [B4 [B5 B6]]]]].
  pose proof (attach_end_kids xs s g (inv_invG s g HI) Hgin Hc Nd HF) as K. rewrite <- len_kids in K.
  cbn [fst]. apply (HP_attach s _ g xs (conj HI Q) Fx B3 B5 B4 B1 B2).
  - intros a Ha. rewrite K. unfold updL. apply Z.eqb_neq in Ha. rewrite Ha. reflexivity.
  - intros c Hcin. rewrite K, updL_eq in Hcin. apply in_app_iff in Hcin. exact Hcin.
  - intros x Hx. split; [rewrite K, updL_eq; apply in_or_app; right; exact Hx|]. split; [apply Hr, Hx|].
    apply layer_not_doc. apply (Hok x Hx).
  - exact Hgin.
  - exact Co.
Qed.

Lemma do_append_gen s g x :
  Good s -> fixedv s -> alloc_ok s g -> is_container s g = true -> rootid s x ->
  PP s -> PP (fst (do_append s g x)).
Proof.
  intros G Fx Hg Hc Hr Co. unfold do_append. destruct (x =? g) eqn:E; [exact Co|]. apply Z.eqb_neq in E.
  apply do_extend_gen; auto.
  - constructor; [|constructor]. intros [].
  - right. intros [H|[]]. congruence.
Qed.


Lemma do_insert_gen s g i x :
  Good s -> fixedv s -> alloc_ok s g -> is_container s g = true -> rootid s x ->
  PP s -> PP (fst (do_insert s g i x)).
Proof.
  intros [HI Q] Fx Hg Hc Hr Co. unfold do_insert. destruct (x =? g) eqn:E; [apply fail_fmt_gen, Co|].
  apply Z.eqb_neq in E.
  destruct (check_valid s g [x]) as [bad|] eqn:CV; [apply check_fail_gen, Co|].
  pose proof (check_valid_ok s g [x] CV) as Hok. inversion Hok as [|? ? [L [_ D]] _]; subst.
  pose proof (proj1 (alloc_in_forest s g HI) Hg) as Hgin.
  assert (HF : Forall (fun y => detached_ok s g y /\ is_layer s y = true) [x]).
  { constructor; [|constructor]. split; [|exact L].
    apply root_detached_ok; [exact HI | exact Q | exact Hr | exact E | exact L | exact D]. }
  set (k := Z.to_nat (ins_pos (zlen (kids_of s g)) i)).
  assert (Nd : NoDup [x]) by (constructor; [intros [] | constructor]).
  destruct (attach_invG [x] s g k (inv_invG s g HI) Hgin Hc Nd HF) as [B1 [B2 [B3 [B4 [B5 B6]]]]].
  pose proof (attach1_kids_st s g k x (conj HI Q) Hg Hr E CV) as K.
  cbn [fst attach] in *. apply (HP_attach s _ g [x] (conj HI Q) Fx B3 B5 B4 B1 B2).
  - intros a Ha. rewrite K. unfold updL. apply Z.eqb_neq in Ha. rewrite Ha. reflexivity.
  - intros c Hcin. rewrite K, updL_eq in Hcin. apply (splice_in c _ k _ Hcin).
  - intros y [<-|[]]. split; [rewrite K, updL_eq; apply in_splice_new; left; reflexivity|]. split; [exact Hr | apply layer_not_doc, L].
  - exact Hgin.
  - exact Co.
Qed.

Lemma do_setitem_gen s g i x :
  Good s -> fixedv s -> alloc_ok s g -> is_container s g = true -> rootid s x ->
  PP s -> PP (fst (do_setitem s g i x)).
Proof.
  intros [HI Q] Fx Hg Hc Hr Co. unfold do_setitem. destruct (x =? g) eqn:E; [apply fail_fmt_gen, Co|].
  apply Z.eqb_neq in E.
  destruct (check_valid s g [x]) as [bad|] eqn:CV; [apply check_fail_gen, Co|].
  destruct (idx_pos (zlen (kids_of s g)) i) as [j|]; [|exact Co].
  pose proof (check_valid_ok s g [x] CV) as Hok. inversion Hok as [|? ? [L [_ D]] _]; subst.
  destruct (root_detached_ok s g x HI Q Hr E L D) as [tx [Htx [Et Hng]]].
  set (k := Z.to_nat j). pose proof (inv_nodup s HI) as N.
  pose proof (detach_at_good s g k (conj HI Q)) as [HI1 Q1].
  destruct (detach_at_facts s g k N) as [Ao [An [Ac [Af [Acnt _]]]]].
  pose proof (detach_at_kids s g k N) as Kd.
  set (s1 := detach_at s g k) in *.
  pose proof (proj1 (alloc_in_forest s g HI) Hg) as Hgin.
  assert (Hg1 : In g (ids_l (roots s1))) by (apply (cnt_same_In _ _ Acnt); exact Hgin).
  assert (Hc1 : is_container s1 g = true) by (unfold is_container, kind; rewrite Ao; exact Hc).
  assert (HF : Forall (fun y => detached_ok s1 g y /\ is_layer s1 y = true) [x]).
  { constructor; [|constructor]. split.
    - exists tx. split; [apply detach_keeps_root; assumption | split; assumption].
    - unfold is_layer, kind. rewrite Ao. exact L. }
  assert (Nd : NoDup [x]) by (constructor; [intros [] | constructor]).
  destruct (attach_invG [x] s1 g k (inv_invG s1 g HI1) Hg1 Hc1 Nd HF) as [B1 [B2 [B3 [B4 [B5 B6]]]]].
  subst x.
  pose proof (attach1_kids s1 g k tx (inv_nodup s1 HI1) (detach_keeps_root s g k tx Htx Hng) Hg1 Hng) as Ka.
  cbn [fst attach] in *. apply (HP_attach s _ g [tid tx] (conj HI Q) Fx); try congruence; try assumption.
  - intros a Ha. rewrite Ka. unfold updL. pose proof Ha as Ha'. apply Z.eqb_neq in Ha. rewrite Ha. rewrite Kd. unfold updL. rewrite Ha. reflexivity.
  - intros c Hcin. rewrite Ka, updL_eq, Kd, updL_eq in Hcin. destruct (splice_in c _ k _ Hcin) as [H|H]; [left; apply (in_del_nth c _ k H) | right; exact H].
  - intros y [<-|[]]. split; [rewrite Ka, updL_eq; apply in_splice_new; left; reflexivity|]. split; [exact Hr | apply layer_not_doc, L].
Qed.



Lemma unlist_gen s x : Good s -> fixedv s -> PP s -> PP (unlist_from_parent s x).
Proof.
  intros G Fx Co. unfold unlist_from_parent. destruct (oparent (objs s x)) as [p|]; [|exact Co].
  destruct (memz x (kid_ids s p)) eqn:M; [|exact Co].
  destruct (listed_edge s p x M) as [Hp _]. apply do_remove_gen; auto. apply (alloc_in_forest s p (proj1 G)), Hp.
Qed.

Lemma mark_dirty_gen_noop s g : Good s -> fixedv s -> alloc_ok s g -> PP s -> PP (mark_dirty s g).
Proof.
  intros G Fx Hg Co. pose proof G as [HI Q].
  apply (HP_detach s s g G Fx eq_refl eq_refl eq_refl HI); auto. apply (alloc_in_forest s g HI), Hg.
Qed.

Lemma do_delete_layer_gen s x : Good s -> fixedv s -> alloc_ok s x -> PP s -> PP (fst (do_delete_layer s x)).
Proof.
  intros G Fx Hx Co. unfold do_delete_layer. destruct (oparent (objs s x)) as [p|] eqn:P.
  - cbn [fst]. destruct (unlist_ok s x G Hx) as [[G1 [K1 _]] _].
    pose proof (unlist_gen s x G Fx Co) as C1.
    assert (Hp : alloc_ok s p).
    { destruct G as [[_ [_ [_ [_ [_ [_ [H7 _]]]]]]] _]. rewrite Forall_forall in H7.
      specialize (H7 x (proj2 (all_ids_In s x) Hx)). unfold parent_alloc in H7. rewrite P in H7. exact H7. }
    apply mark_dirty_gen_noop; [exact G1 | apply (fixedv_kn _ _ K1 Fx) | apply (kn_alloc _ _ _ K1 Hp) | exact C1].
  - pose proof (repr_touch_gen s x Co) as H. destruct (repr_touch s x) as [s1 [|]]; exact H.
Qed.

Lemma do_move_to_group_gen s x g : Good s -> fixedv s -> alloc_ok s x -> alloc_ok s g ->
  PP s -> PP (fst (do_move_to_group s x g)).
Proof.
  intros G Fx Hx Hg Co. unfold do_move_to_group.
  destruct (is_container s g) eqn:C; cbn [negb]; [|exact Co].
  destruct (g =? x); [exact Co|].
  destruct ((kind s x =? KGroup) && memz g (descendants s x)); [apply fail_fmt_gen, Co|].
  destruct (unlist_ok s x G Hx) as [[G1 [K1 _]] Rx].
  apply do_append_gen; [exact G1 | apply (fixedv_kn _ _ K1 Fx) | apply (kn_alloc _ _ _ K1 Hg)
                        | rewrite (kn_container _ _ _ K1 Hg); exact C | exact Rx | apply unlist_gen; assumption].
Qed.

Lemma do_move_up_gen s x off : Good s -> fixedv s -> alloc_ok s x -> PP s -> PP (fst (do_move_up s x off)).
Proof.
  intros G Fx Hx Co. unfold do_move_up. destruct (oparent (objs s x)) as [p|] eqn:P; [|exact Co].
  destruct (index_of x (kid_ids s p)) as [k|] eqn:I; [|apply fail_fmt_gen, Co].
  assert (M : memz x (kid_ids s p) = true).
  { unfold kid_ids in *. destruct (index_of_nth x _ k I) as [d [Hd Ed]]. apply memz_In. rewrite <- Ed.
    apply in_map. apply nth_error_In with (n := k). exact Hd. }
  destruct (listed_edge s p x M) as [Hpin He]. pose proof G as [HI Q].
  pose proof (proj2 (alloc_in_forest s p HI) Hpin) as Hp.
  assert (Cp : is_container s p = true).
  { destruct HI as [_ [_ [_ [Hk _]]]]. rewrite Forall_forall in Hk. apply (Hk _ He). }
  pose proof (do_remove_ok s p x G) as [G1 [K1 _]]. pose proof (do_remove_root s p x G M) as Rx.
  apply do_insert_gen; [exact G1 | apply (fixedv_kn _ _ K1 Fx) | apply (kn_alloc _ _ _ K1 Hp)
                        | rewrite (kn_container _ _ _ K1 Hp); exact Cp | exact Rx | apply do_remove_gen; assumption].
Qed.


Lemma do_new_group_gen s parent : Good s -> fixedv s -> (forall p, parent = Some p -> alloc_ok s p) ->
  PP s -> PP (fst (do_new_group s parent)).
Proof.
  intros G Fx Hp Co. unfold do_new_group.
  destruct (alloc_step s new_group_obj G eq_refl eq_refl) as [[G1 [K1 R1]] [Rn [An On]]].
  pose proof (HP_alloc s new_group_obj G eq_refl eq_refl eq_refl eq_refl Co) as C1.
  destruct parent as [p|]; [|exact C1]. destruct (is_container (alloc s new_group_obj) p); [|exact C1].
  rewrite fst_relabel. apply do_move_to_group_gen; [exact G1 | apply (fixedv_kn _ _ K1 Fx) | exact An | apply (kn_alloc _ _ _ K1 (Hp p eq_refl)) | exact C1].
Qed.

Lemma move_all_gen n : forall xs st, Good st -> fixedv st -> alloc_ok st n -> Forall (fun x => alloc_ok st x) xs ->
  PP st -> PP (fst (move_all st xs n)).
Proof.
  induction xs as [|x r IH]; intros st G Fx An HF Co; [exact Co|].
  inversion HF as [|? ? Ax HFr]; subst. simpl.
  pose proof (do_move_to_group_ok st x n G Ax An) as [G1 [K1 _]].
  pose proof (do_move_to_group_gen st x n G Fx Ax An Co) as C1.
  destruct (do_move_to_group st x n) as [s1 [w|c]]; cbn [fst] in *; [|exact C1].
  apply IH; [exact G1 | apply (fixedv_kn _ _ K1 Fx) | apply (kn_alloc _ _ _ K1 An) | | exact C1].
  eapply Forall_impl; [|exact HFr]. intros y Ay. apply (kn_alloc _ _ _ K1 Ay).
Qed.

Lemma do_group_layers_gen s xs parent : Good s -> fixedv s -> Forall (alloc_ok s) xs -> (forall p, parent = Some p -> alloc_ok s p) ->
  PP s -> PP (fst (do_group_layers s xs parent)).
Proof.
  intros G Fx Hxs Hp Co. unfold do_group_layers. destruct xs as [|x0 r]; [exact Co|].
  set (xs := x0 :: r) in *.
  set (par := match parent with Some p => Some p | None => oparent (objs s x0) end).
  assert (Hpar : forall p, par = Some p -> alloc_ok s p).
  { intros p Ep. unfold par in Ep. destruct parent as [q|]; [inversion Ep; subst; apply Hp; reflexivity|].
    destruct G as [[_ [_ [_ [_ [_ [_ [H7 _]]]]]]] _]. rewrite Forall_forall in H7.
    inversion Hxs as [|? ? A0 _]; subst. specialize (H7 x0 (proj2 (all_ids_In s x0) A0)).
    unfold parent_alloc in H7. rewrite Ep in H7. exact H7. }
  destruct (alloc_step s new_group_obj G eq_refl eq_refl) as [[G1 [K1 R1]] [Rn [An On]]].
  pose proof (HP_alloc s new_group_obj G eq_refl eq_refl eq_refl eq_refl Co) as C1.
  set (s1 := alloc s new_group_obj) in *. set (n := next s) in *.
  assert (HF : Forall (fun x => alloc_ok s1 x) xs) by (eapply Forall_impl; [|exact Hxs]; intros y Ay; apply (kn_alloc _ _ _ K1 Ay)).
  pose proof (move_all_gen n xs s1 G1 (fixedv_kn _ _ K1 Fx) An HF C1) as C2.
  destruct (move_all_ok n xs s1 G1 An Rn) as [[G2 [K2 R2]] Rn2].
  { eapply Forall_impl; [|exact Hxs]. intros y Ay. split; [apply (kn_alloc _ _ _ K1 Ay) | unfold alloc_ok, n in *; lia]. }
  destruct (move_all s1 xs n) as [s2 [w|c]]; cbn [fst] in *; [|exact C2].
  destruct par as [p|]; [|exact C2]. destruct (is_container s2 p) eqn:C; [|exact C2].
  rewrite fst_relabel.
  apply do_append_gen; [exact G2 | apply (fixedv_kn _ _ K2), (fixedv_kn _ _ K1 Fx)
                        | apply (kn_alloc _ _ _ K2), (kn_alloc _ _ _ K1), Hpar; reflexivity | exact C | exact Rn2 | exact C2].
Qed.


Theorem step_gen s o : Good s -> fixedv s -> guard s o -> PP s -> PP (fst (step s o)).
Proof.
  intros G Fx [Hids Hg] Co. pose proof G as [[_ [_ [_ [_ [_ [Hcor _]]]]]] _].
  unfold step. rewrite Hcor.
  destruct (match needs_container o with Some g => negb (is_container s g) | None => false end) eqn:NC; [exact Co|].
  destruct (match needs_layer o with Some x => negb (is_layer s x) | None => false end) eqn:NL; [exact Co|].
  rewrite Forall_forall in Hids.
  destruct o; cbn [op_ids needs_container needs_layer fst] in *.
  - apply HP_alloc; auto.
  - apply HP_alloc; auto.
  - apply do_new_group_gen; auto. intros p E. subst. apply Hids. left. reflexivity.
  - apply do_group_layers_gen; auto.
    + apply Forall_forall. intros y Hy. apply Hids. apply in_or_app. left. exact Hy.
    + intros p E. subst. apply Hids. apply in_or_app. right. left. reflexivity.
  - apply negb_false_iff in NC. apply do_append_gen; auto. apply Hids. left. reflexivity.
  - apply negb_false_iff in NC. destruct Hg as [A [B C]]. apply do_extend_gen; auto. apply Hids. left. reflexivity.
  - apply negb_false_iff in NC. apply do_insert_gen; auto. apply Hids. left. reflexivity.
  - apply do_remove_gen; auto. apply Hids. left. reflexivity.
  - apply do_pop_gen; auto. apply Hids. left. reflexivity.
  - apply do_clear_gen; auto. apply Hids. left. reflexivity.
  - apply negb_false_iff in NC. apply do_setitem_gen; auto. apply Hids. left. reflexivity.
  - apply do_delitem_gen; auto. apply Hids. left. reflexivity.
  - apply do_delete_layer_gen; auto. apply Hids. left. reflexivity.
  - apply do_move_to_group_gen; auto; apply Hids; [right; left | left]; reflexivity.
  - apply do_move_up_gen; auto. apply Hids. left. reflexivity.
  - apply do_move_up_gen; auto. apply Hids. left. reflexivity.
  - apply HP_setvis; auto. apply Hids. left. reflexivity.
  - apply HP_setleft; auto. apply Hids. left. reflexivity.
  - apply HP_settop; auto. apply Hids. left. reflexivity.
  - apply HP_setclip; auto. apply Hids. left. reflexivity.
  - unfold do_obs_bbox. destruct (kind s x =? KPixel); [exact Co|]. destruct (is_container s x); [|exact Co].
    pose proof (HP_read s x Co) as H. destruct (read_bbox s x) as [s1 [b|]]; exact H.
  - unfold do_obs_size. destruct (kind s x =? KGroup).
    + pose proof (HP_read s x Co) as H. destruct (read_bbox s x) as [s1 [[[[l t] r] b]|]]; exact H.
    + destruct (orect (objs s x)) as [[[l t] r] b]. exact Co.
  - unfold do_obs_repr. destruct (kind s x =? KGroup).
    + pose proof (HP_read s x Co) as H. destruct (read_bbox s x) as [s1 [[[[l t] r] b]|]]; exact H.
    + destruct (orect (objs s x)) as [[[l t] r] b]. destruct (kind s x =? KDoc); exact Co.
  - exact Co.
  - exact Co.
  - destruct (isvis (fuel_of s) s x); exact Co.
  - exact Co.
Qed.

(* all guarded histories *)

Theorem run_gen : forall h s, Good s -> fixedv s -> guards s h -> PP s -> PP (run s h).
Proof.
  induction h as [|o r IH]; intros s G Fx Hg Co; [exact Co|].
  destruct Hg as [G0 Gr]. rewrite run_cons.
  apply IH; [apply (step_ok s o G G0) | apply fixedv_step; assumption | exact Gr | apply step_gen; assumption].
Qed.


End Generic.
