(* Edit/ProofsCache.v -- C14: read-only operations only fill caches with fresh values; a fresh bounding
   box does not depend on any cache; moving a layer keeps every remaining cache coherent. *)
From PsdV Require Import Base.Prelude Edit.Model Edit.Inv Edit.Cache Edit.Forest Edit.ProofsInv.
Open Scope Z_scope.

(* ---------------------------------------------------------------- fresh values ignore caches *)
Lemma nocache_fields o o' : nocache_obj o' = nocache_obj o ->
  okind o' = okind o /\ oparent o' = oparent o /\ opsd o' = opsd o /\ ovis o' = ovis o /\ orect o' = orect o
  /\ oclips o' = oclips o /\ oclipf o' = oclipf o /\ odirty o' = odirty o.
Proof. destruct o, o'. unfold nocache_obj, with_cache. cbn. intro H. inversion H. repeat split; reflexivity. Qed.

Definition vis_same (s s' : state) : Prop :=
  forall i, okind (objs s' i) = okind (objs s i) /\ oparent (objs s' i) = oparent (objs s i) /\ ovis (objs s' i) = ovis (objs s i).

Lemma isvis_ext fuel : forall s s' x, vis_same s s' -> isvis fuel s' x = isvis fuel s x.
Proof.
  induction fuel as [|f IH]; intros s s' x H; [reflexivity|]. simpl. unfold kind.
  destruct (H x) as [K [P V]]. rewrite K, V, P. destruct (okind (objs s x) =? KDoc); [reflexivity|].
  destruct (negb (ovis (objs s x))); [reflexivity|]. destruct (oparent (objs s x)); [apply IH, H | reflexivity].
Qed.

(* ebox only looks at the strict descendants of the root of the tree *)
Lemma ebox_dep vis vis' kd kd' rc rc' : forall t,
  (forall c, In c (ids_l (tkids t)) -> vis' c = vis c /\ kd' c = kd c /\ rc' c = rc c) ->
  ebox vis' kd' rc' t = ebox vis kd rc t.
Proof.
  apply (tree_ind2 (fun t => (forall c, In c (ids_l (tkids t)) -> vis' c = vis c /\ kd' c = kd c /\ rc' c = rc c) ->
                             ebox vis' kd' rc' t = ebox vis kd rc t)).
  intros j ks IH H. cbn [tkids] in H. cbn [ebox]. f_equal. f_equal.
  apply map_ext_in. intros c Hc. rewrite Forall_forall in IH.
  destruct (H (tid c)) as [V [K R]]; [apply root_in_ids; exact Hc|]. rewrite V, K, R.
  destruct (vis (tid c)) as [[|]|]; [|reflexivity|reflexivity].
  destruct (kd (tid c) =? KPixel); [reflexivity|]. apply (IH c Hc).
  intros d Hd. apply H. apply In_ids_l. exists c. split; [exact Hc|]. destruct c as [i kk]. rewrite ids_t_eq. right. exact Hd.
Qed.

Lemma fresh_ext s s' g : roots s' = roots s -> next s' = next s -> vis_same s s' ->
  (forall c, In c (ids_l (kids_of s g)) -> orect (objs s' c) = orect (objs s c)) ->
  fresh_bbox s' g = fresh_bbox s g.
Proof.
  intros R N V Hr. unfold fresh_bbox, subtree. rewrite R. apply ebox_dep.
  intros c Hc. split; [|split].
  - unfold fuel_of. rewrite N. apply isvis_ext, V.
  - unfold kind. apply (V c).
  - apply Hr. exact Hc.
Qed.

Lemma same_but_caches_vis s s' : same_but_caches s s' -> vis_same s s'.
Proof.
  intros [_ [_ [_ [_ H]]]] i. destruct (nocache_fields _ _ (H i)) as [A [B [_ [C _]]]]. auto.
Qed.
Lemma fresh_nocache s s' g : same_but_caches s s' -> fresh_bbox s' g = fresh_bbox s g.
Proof.
  intro H. pose proof (same_but_caches_vis s s' H) as V. destruct H as [R [N [_ [_ H]]]].
  apply fresh_ext; auto. intros c _. destruct (nocache_fields _ _ (H c)) as [_ [_ [_ [_ [E _]]]]]. exact E.
Qed.

(* ---------------------------------------------------------------- read-only operations *)
Lemma sbc_refl s : same_but_caches s s.
Proof. repeat split; auto. Qed.
Lemma sbc_trans a b c : same_but_caches a b -> same_but_caches b c -> same_but_caches a c.
Proof.
  intros [A1 [A2 [A3 [A4 A5]]]] [B1 [B2 [B3 [B4 B5]]]].
  split; [congruence|]. split; [congruence|]. split; [congruence|]. split; [congruence|].
  intro i. rewrite B5. apply A5.
Qed.
Lemma sbc_mod_cache s i c : same_but_caches s (mod_obj s i (with_cache c)).
Proof.
  repeat split; auto. intro j. unfold mod_obj, set_objs, upd. cbn [objs].
  destruct (j =? i) eqn:E; [|reflexivity]. apply Z.eqb_eq in E. subst. destruct (objs s i). reflexivity.
Qed.
Lemma sbc_read_bbox s g : same_but_caches s (fst (read_bbox s g)).
Proof.
  unfold read_bbox. destruct (ocache (objs s g)); [apply sbc_refl|].
  destruct (fresh_bbox s g); [apply sbc_mod_cache | apply sbc_refl].
Qed.

Lemma observers_pure_l s o : is_observer o = true -> same_but_caches s (fst (step s o)).
Proof.
  intro Ho. unfold step. destruct (corrupt s); [apply sbc_refl|].
  destruct (match needs_container o with Some g => negb (is_container s g) | None => false end); [apply sbc_refl|].
  destruct (match needs_layer o with Some x => negb (is_layer s x) | None => false end); [apply sbc_refl|].
  destruct o; try discriminate; cbn [fst].
  - unfold do_obs_bbox. destruct (kind s x =? KPixel); [apply sbc_refl|]. destruct (is_container s x); [|apply sbc_refl].
    pose proof (sbc_read_bbox s x) as H. destruct (read_bbox s x) as [s1 [b|]]; exact H.
  - unfold do_obs_size. destruct (kind s x =? KGroup).
    + pose proof (sbc_read_bbox s x) as H. destruct (read_bbox s x) as [s1 [[[[l t] r] b]|]]; exact H.
    + destruct (orect (objs s x)) as [[[l t] r] b]. apply sbc_refl.
  - unfold do_obs_repr. destruct (kind s x =? KGroup).
    + pose proof (sbc_read_bbox s x) as H. destruct (read_bbox s x) as [s1 [[[[l t] r] b]|]]; exact H.
    + destruct (orect (objs s x)) as [[[l t] r] b]. destruct (kind s x =? KDoc); apply sbc_refl.
  - apply sbc_refl.
  - apply sbc_refl.
  - destruct (isvis (fuel_of s) s x); apply sbc_refl.
  - apply sbc_refl.
Qed.

(* filling a cache with the fresh value keeps every cache coherent *)
Lemma read_bbox_coherent s g : 0 <= g < next s -> Coherent s -> Coherent (fst (read_bbox s g)).
Proof.
  intros Hg C. pose proof (sbc_read_bbox s g) as S. unfold read_bbox in *.
  destruct (ocache (objs s g)) eqn:Eg; [exact C|]. destruct (fresh_bbox s g) as [b|] eqn:F; [|exact C].
  cbn [fst] in *. intros i bi Hi Hc. rewrite (fresh_nocache _ _ i S).
  unfold mod_obj, set_objs, upd in Hc. cbn [objs next] in *. destruct (i =? g) eqn:E.
  - apply Z.eqb_eq in E. subst i. cbn in Hc. inversion Hc; subst. exact F.
  - apply (C i bi Hi Hc).
Qed.

Lemma read_bbox_answer s g b : Coherent s -> 0 <= g < next s -> snd (read_bbox s g) = Some b -> fresh_bbox s g = Some b.
Proof.
  intros C Hg H. unfold read_bbox in H. destruct (ocache (objs s g)) as [c|] eqn:E.
  - cbn in H. inversion H; subst. apply (C g b Hg E).
  - destruct (fresh_bbox s g) as [f|]; cbn in H; [inversion H; reflexivity | discriminate].
Qed.

Lemma observers_coherent_l s o : is_observer o = true -> Forall (fun x => 0 <= x < next s) (op_ids o) ->
  Coherent s -> Coherent (fst (step s o)).
Proof.
  intros Ho Hids C. rewrite Forall_forall in Hids. unfold step. destruct (corrupt s); [exact C|].
  destruct (match needs_container o with Some g => negb (is_container s g) | None => false end); [exact C|].
  destruct (match needs_layer o with Some x => negb (is_layer s x) | None => false end); [exact C|].
  destruct o; try discriminate; cbn [fst op_ids] in *.
  - unfold do_obs_bbox. destruct (kind s x =? KPixel); [exact C|]. destruct (is_container s x); [|exact C].
    pose proof (read_bbox_coherent s x (Hids x (or_introl eq_refl)) C) as H. destruct (read_bbox s x) as [s1 [b|]]; exact H.
  - unfold do_obs_size. destruct (kind s x =? KGroup).
    + pose proof (read_bbox_coherent s x (Hids x (or_introl eq_refl)) C) as H.
      destruct (read_bbox s x) as [s1 [[[[l t] r] b]|]]; exact H.
    + destruct (orect (objs s x)) as [[[l t] r] b]. exact C.
  - unfold do_obs_repr. destruct (kind s x =? KGroup).
    + pose proof (read_bbox_coherent s x (Hids x (or_introl eq_refl)) C) as H.
      destruct (read_bbox s x) as [s1 [[[[l t] r] b]|]]; exact H.
    + destruct (orect (objs s x)) as [[[l t] r] b]. destruct (kind s x =? KDoc); exact C.
  - exact C.
  - exact C.
  - destruct (isvis (fuel_of s) s x); exact C.
  - exact C.
Qed.

(* the answer of bbox on a coherent state is the fresh value (viewbox substitution for an empty document) *)
Lemma obs_bbox_answer s x v : Coherent s -> 0 <= x < next s -> is_container s x = true -> corrupt s = false ->
  snd (step s (ObsBbox x)) = Done v ->
  exists b, fresh_bbox s x = Some b /\
            v = box_list (if (kind s x =? KDoc) && box_eqb b box0 then orect (objs s x) else b).
Proof.
  intros C Hx Hc Hcor H. unfold step in H. rewrite Hcor in H. cbn [needs_container needs_layer] in H.
  unfold do_obs_bbox in H. rewrite Hc in H.
  destruct (kind s x =? KPixel) eqn:K.
  { exfalso. unfold is_container in Hc. apply Z.eqb_eq in K. rewrite K in Hc. discriminate. }
  pose proof (read_bbox_answer s x) as A. destruct (read_bbox s x) as [s1 [b|]]; cbn [snd] in *; [|discriminate].
  exists b. split; [apply A; auto|]. inversion H. reflexivity.
Qed.

(* ---------------------------------------------------------------- moving a layer (left / top setters) *)
Definition only_clears (s s' : state) : Prop :=
  roots s' = roots s /\ next s' = next s /\
  (forall i, nocache_obj (objs s' i) = nocache_obj (objs s i)) /\
  (forall i b, ocache (objs s' i) = Some b -> ocache (objs s i) = Some b).
Lemma oc_refl s : only_clears s s. Proof. repeat split; auto. Qed.
Lemma oc_trans a b c : only_clears a b -> only_clears b c -> only_clears a c.
Proof.
  intros [A1 [A2 [A3 A4]]] [B1 [B2 [B3 B4]]]. split; [congruence|]. split; [congruence|]. split.
  - intro i. rewrite B3. apply A3.
  - intros i v H. apply A4, B4, H.
Qed.
Lemma oc_clear s i : only_clears s (mod_obj s i (with_cache None)).
Proof.
  split; [reflexivity|]. split; [reflexivity|]. split.
  - intro j. unfold mod_obj, set_objs, upd. cbn [objs]. destruct (j =? i) eqn:E; [|reflexivity].
    apply Z.eqb_eq in E. subst. destruct (objs s i). reflexivity.
  - intros j b. unfold mod_obj, set_objs, upd. cbn [objs]. destruct (j =? i) eqn:E; [|auto].
    apply Z.eqb_eq in E. subst. cbn. discriminate.
Qed.
Lemma inval_up_oc fuel : forall s x, only_clears s (inval_up fuel s x).
Proof.
  induction fuel as [|f IH]; intros s x; [apply oc_refl|]. simpl.
  set (s1 := if is_container s x then mod_obj s x (with_cache None) else s).
  assert (P1 : only_clears s s1) by (unfold s1; destruct (is_container s x); [apply oc_clear | apply oc_refl]).
  destruct (oparent (objs s x)); [|exact P1]. eapply oc_trans; [exact P1 | apply IH].
Qed.
Lemma inval_oc fuel : forall s x, only_clears s (fst (inval fuel s x)).
Proof.
  induction fuel as [|f IH]; intros s x; [apply oc_refl|]. simpl.
  set (s1 := if is_container s x then mod_obj s x (with_cache None) else s).
  assert (P1 : only_clears s s1) by (unfold s1; destruct (is_container s x); [apply oc_clear | apply oc_refl]).
  destruct (oparent (objs s x)); [|exact P1]. destruct (kind s z =? KGroup); [|exact P1].
  eapply oc_trans; [exact P1 | apply IH].
Qed.
Lemma invalidate_oc s x : only_clears s (fst (invalidate s x)).
Proof. unfold invalidate. destruct (cachefix (conf s)); [apply inval_up_oc | apply inval_oc]. Qed.

(* After layer.left = v (or .top): every cache that is still filled and does not have the moved layer
   below its object is still equal to a fresh computation.  (That the caches of the objects above the
   layer are the ones that were dropped is the reachability part: see Properties/C14.v.) *)
Lemma move_keeps_coherent_off_path s x (nr : box) s1 :
  Coherent s -> only_clears s s1 ->
  let s' := mod_obj s1 x (with_rect nr) in
  forall j b, 0 <= j < next s -> ocache (objs s' j) = Some b -> ~ In x (ids_l (kids_of s j)) -> fresh_bbox s' j = Some b.
Proof.
  intros C [R [N [F K]]] s' j b Hj Hc Hx.
  assert (Hc1 : ocache (objs s1 j) = Some b).
  { unfold s', mod_obj, set_objs, upd in Hc. cbn [objs] in Hc. destruct (j =? x) eqn:E; [|exact Hc].
    apply Z.eqb_eq in E. subst. exact Hc. }
  rewrite <- (C j b Hj (K j b Hc1)).
  apply fresh_ext.
  - unfold s'. cbn. exact R.
  - unfold s'. cbn. exact N.
  - intro i. unfold s', mod_obj, set_objs, upd. cbn [objs]. destruct (nocache_fields _ _ (F i)) as [A [B [_ [D _]]]].
    destruct (i =? x) eqn:E; [apply Z.eqb_eq in E; subst; cbn; auto | auto].
  - intros c Hcin. unfold s', mod_obj, set_objs, upd. cbn [objs].
    destruct (c =? x) eqn:E; [apply Z.eqb_eq in E; subst; contradiction|].
    destruct (nocache_fields _ _ (F c)) as [_ [_ [_ [_ [Rc _]]]]]. exact Rc.
Qed.
