(* Edit/ProofsRefine.v -- C09: every accepted operation of the model does to the child lists what the
   same operation does to plain Python lists (Edit/Spec.v), for all states satisfying the invariant. *)
From PsdV Require Import Base.Prelude Edit.Model Edit.Spec Edit.Inv Edit.Forest Edit.ProofsInv Edit.ProofsKids.
Open Scope Z_scope.

Definition kids_eq (s s' : state) : Prop := forall a, kid_ids s' a = kid_ids s a.
Lemma kids_eq_roots s s' : roots s' = roots s -> kids_eq s s'.
Proof. intros R a. unfold kid_ids, kids_of, subtree. rewrite R. reflexivity. Qed.
Lemma mark_dirty_kids s g a : kid_ids (mark_dirty s g) a = kid_ids s a.
Proof. apply kids_eq_roots, mark_dirty_roots. Qed.
Lemma meta_kids s g a : kid_ids (meta s g) a = kid_ids s a.
Proof. apply kids_eq_roots. apply (meta_frame s g). Qed.
Lemma zlen_kids s g : zlen (kids_of s g) = zlen (kid_ids s g).
Proof. unfold zlen, kid_ids. rewrite map_length. reflexivity. Qed.
Lemma len_kids s g : length (kids_of s g) = length (kid_ids s g).
Proof. unfold kid_ids. rewrite map_length. reflexivity. Qed.

Lemma updL_same L g v a : updL (updL L g v) g (updL L g v g ++ []) a = updL L g v a.
Proof. unfold updL. destruct (a =? g); [rewrite Z.eqb_refl, app_nil_r|]; reflexivity. Qed.
Lemma updL_eq L g v : updL L g v g = v.
Proof. unfold updL. rewrite Z.eqb_refl. reflexivity. Qed.
Lemma updL_twice L g v w a : updL (updL L g v) g w a = updL L g w a.
Proof. unfold updL. destruct (a =? g); reflexivity. Qed.
Lemma updL_ext (L L' : lists) g v : (forall a, L' a = L a) -> forall a, updL L' g v a = updL L g v a.
Proof. intros H a. unfold updL. destruct (a =? g); [reflexivity | apply H]. Qed.

Lemma fail_fmt_not_done : forall l s c v, snd (fail_fmt s l c) <> Done v.
Proof.
  induction l as [|y r IH]; intros s c v; simpl; [discriminate|].
  destruct (repr_touch s y) as [s1 [|]]; [apply IH | discriminate].
Qed.
Lemma check_fail_not_done s g bad v : snd (check_fail s g bad) <> Done v.
Proof. unfold check_fail. destruct bad as [x|]; [|discriminate]. destruct (x =? g); apply fail_fmt_not_done. Qed.

(* ---------------------------------------------------------------- listing one detached object *)
Lemma attach_pre s g x : Good s -> alloc_ok s g -> rootid s x -> x <> g -> check_valid s g [x] = None ->
  exists tx, In tx (roots s) /\ tid tx = x /\ ~ In g (ids_t tx) /\ In g (ids_l (roots s)) /\ is_layer s x = true.
Proof.
  intros [HI Q] Hg Hr Hne CV. pose proof (check_valid_ok s g [x] CV) as Hok.
  inversion Hok as [|? ? [L [_ D]] _]; subst.
  destruct (root_detached_ok s g x HI Q Hr Hne L D) as [tx [A [B C]]].
  exists tx. repeat split; auto. apply (alloc_in_forest s g HI). exact Hg.
Qed.

Lemma attach1_kids_st s g k x : Good s -> alloc_ok s g -> rootid s x -> x <> g -> check_valid s g [x] = None ->
  forall a, kid_ids (attach1 s g k x) a = updL (kid_ids s) g (splice (kid_ids s g) k [x]) a.
Proof.
  intros G Hg Hr Hne CV a. destruct (attach_pre s g x G Hg Hr Hne CV) as [tx [A [B [C [D _]]]]]. subst x.
  apply attach1_kids; auto. apply inv_nodup, G.
Qed.

(* listing several detached objects at the end *)
Lemma splice_end {A} (l m : list A) : splice l (length l) m = l ++ m.
Proof. unfold splice. rewrite firstn_all, skipn_all, app_nil_r. reflexivity. Qed.

Lemma attach_end_kids : forall xs s g,
  InvG s g -> In g (ids_l (roots s)) -> is_container s g = true -> NoDup xs ->
  Forall (fun x => detached_ok s g x /\ is_layer s x = true) xs ->
  forall a, kid_ids (attach s g (length (kid_ids s g)) xs) a = updL (kid_ids s) g (kid_ids s g ++ xs) a.
Proof.
  induction xs as [|x r IH]; intros s g HG Hg Hc Nd HF a.
  { simpl. unfold updL. destruct (a =? g) eqn:E; [apply Z.eqb_eq in E; subst; rewrite app_nil_r|]; reflexivity. }
  inversion HF as [|? ? [[tx [Htx [Et Hng]]] Hl] HFr]; subst.
  inversion Nd as [|? ? Hnx Ndr]; subst.
  pose proof HG as [_ [N2 _]].
  set (k := length (kid_ids s g)).
  destruct (attach1_facts s g k tx N2 Htx Hg Hng) as [Ao [An [Ac [Af [Acnt [Aed [Art Akid]]]]]]].
  pose proof (attach1_invG s g k tx HG Htx Hg Hng Hc Hl) as HG1.
  pose proof (attach1_kids s g k tx N2 Htx Hg Hng) as K1.
  set (s1 := attach1 s g k (tid tx)) in *.
  assert (Hg1 : In g (ids_l (roots s1))) by (apply (cnt_same_In _ _ Acnt); exact Hg).
  assert (Hc1 : is_container s1 g = true) by (unfold is_container, kind; rewrite Ao; exact Hc).
  assert (HF1 : Forall (fun x => detached_ok s1 g x /\ is_layer s1 x = true) r).
  { rewrite Forall_forall in *. intros y Hy. destruct (HFr y Hy) as [[ty [Hty [Ey Hny]]] Hly]. split.
    - exists ty. split; [|split; [exact Ey | exact Hny]].
      apply attach1_keeps_root; [exact Hty | | exact Hny]. rewrite Ey. intro E. apply Hnx. rewrite <- E. exact Hy.
    - unfold is_layer, kind. rewrite Ao. exact Hly. }
  assert (Lg1 : kid_ids s1 g = kid_ids s g ++ [tid tx]).
  { rewrite K1, updL_eq. unfold k. apply splice_end. }
  assert (Ek : S k = length (kid_ids s1 g)) by (rewrite Lg1, app_length; unfold k; simpl; lia).
  simpl attach. fold s1. rewrite Ek. rewrite (IH s1 g HG1 Hg1 Hc1 Ndr HF1 a). rewrite Lg1.
  unfold updL. destruct (a =? g) eqn:E.
  - rewrite <- app_assoc. reflexivity.
  - rewrite K1. unfold updL. rewrite E. reflexivity.
Qed.

(* ---------------------------------------------------------------- the list protocol *)
Definition L0 s : lists := kid_ids s.
Definition refines s (o : op) : Prop :=
  forall a, kid_ids (fst (step s o)) a = sp_apply (all_ids s) (next s) (is_container s) (kid_ids s) o a.

Lemma do_extend_kids s g xs v :
  Good s -> alloc_ok s g -> is_container s g = true ->
  Forall (rootid s) xs -> NoDup xs -> (selffix (conf s) = true \/ ~ In g xs) ->
  snd (do_extend s g xs) = Done v ->
  forall a, kid_ids (fst (do_extend s g xs)) a = updL (kid_ids s) g (kid_ids s g ++ xs) a.
Proof.
  intros [HI Q] Hg Hc Hr Nd Hself HD a. unfold do_extend in *.
  destruct (check_valid s g xs) as [bad|] eqn:CV.
  { exfalso. exact (check_fail_not_done _ _ _ _ HD). }
  pose proof (check_valid_ok s g xs CV) as Hok. rewrite Forall_forall in Hok, Hr.
  assert (Hne : forall x, In x xs -> x <> g).
  { intros x Hx. destruct Hself as [Sf|Hn]; [apply (proj1 (proj2 (Hok x Hx)) Sf) | intro E; subst; contradiction]. }
  assert (Hm : memz g xs = false) by (apply memz_false_notin; intro Hx; exact (Hne g Hx eq_refl)).
  rewrite Hm in *. apply (alloc_in_forest s g HI) in Hg.
  assert (HF : Forall (fun x => detached_ok s g x /\ is_layer s x = true) xs).
  { apply Forall_forall. intros x Hx. destruct (Hok x Hx) as [L [_ D]]. split; [|exact L].
    apply root_detached_ok; [exact HI | exact Q | exact (Hr x Hx) | exact (Hne x Hx) | exact L | exact D]. }
  cbn [fst]. rewrite mark_dirty_kids, meta_kids, len_kids.
  apply attach_end_kids; auto. apply inv_invG, HI.
Qed.

Lemma do_append_kids s g x v :
  Good s -> alloc_ok s g -> is_container s g = true -> rootid s x ->
  snd (do_append s g x) = Done v ->
  forall a, kid_ids (fst (do_append s g x)) a = updL (kid_ids s) g (kid_ids s g ++ [x]) a.
Proof.
  intros G Hg Hc Hr HD. unfold do_append in *. destruct (x =? g) eqn:E; [discriminate|].
  apply Z.eqb_neq in E. apply (do_extend_kids s g [x] v); auto.
  - constructor; [|constructor]. intros [].
  - right. intros [H|[]]. congruence.
Qed.

Lemma do_insert_kids s g i x v :
  Good s -> alloc_ok s g -> is_container s g = true -> rootid s x ->
  snd (do_insert s g i x) = Done v ->
  forall a, kid_ids (fst (do_insert s g i x)) a
            = updL (kid_ids s) g (splice (kid_ids s g) (Z.to_nat (ins_pos (zlen (kid_ids s g)) i)) [x]) a.
Proof.
  intros G Hg Hc Hr HD a. unfold do_insert in *. destruct (x =? g) eqn:E.
  { exfalso. exact (fail_fmt_not_done _ _ _ _ HD). }
  apply Z.eqb_neq in E. destruct (check_valid s g [x]) as [bad|] eqn:CV.
  { exfalso. exact (check_fail_not_done _ _ _ _ HD). }
  cbn [fst]. rewrite mark_dirty_kids, meta_kids. cbn [attach]. rewrite zlen_kids.
  apply attach1_kids_st; assumption.
Qed.

Lemma do_remove_kids s g x v : Good s -> snd (do_remove s g x) = Done v ->
  forall a, kid_ids (fst (do_remove s g x)) a = sp_apply (all_ids s) (next s) (is_container s) (kid_ids s) (Remove g x) a.
Proof.
  intros [HI Q] HD a. unfold do_remove in *. cbn [sp_apply]. destruct (index_of x (kid_ids s g)) as [k|]; [|discriminate].
  cbn [fst]. rewrite mark_dirty_kids. apply detach_at_kids, inv_nodup, HI.
Qed.
Lemma do_pop_kids s g i v : Good s -> snd (do_pop s g i) = Done v ->
  forall a, kid_ids (fst (do_pop s g i)) a = sp_apply (all_ids s) (next s) (is_container s) (kid_ids s) (Pop g i) a.
Proof.
  intros [HI Q] HD a. unfold do_pop in *. cbn [sp_apply]. rewrite zlen_kids in *.
  destruct (idx_pos (zlen (kid_ids s g)) i) as [j|]; [|discriminate].
  cbn [fst]. rewrite mark_dirty_kids. apply detach_at_kids, inv_nodup, HI.
Qed.
Lemma do_delitem_kids s g i v : Good s -> snd (do_delitem s g i) = Done v ->
  forall a, kid_ids (fst (do_delitem s g i)) a = sp_apply (all_ids s) (next s) (is_container s) (kid_ids s) (DelItem g i) a.
Proof.
  intros [HI Q] HD a. unfold do_delitem in *. cbn [sp_apply]. rewrite zlen_kids in *.
  destruct (clipsfix (conf s)).
  - destruct (idx_pos (zlen (kid_ids s g)) i) as [j|]; [|discriminate].
    cbn [fst]. rewrite mark_dirty_kids. apply detach_at_kids, inv_nodup, HI.
  - destruct (idx_pos (zlen (kid_ids s g)) i) as [j|]; [|discriminate]. cbn [fst].
    pose proof (mark_dirty_good s g (conj HI Q)) as [HI1 _].
    rewrite (detach_at_kids _ g (Z.to_nat j) (inv_nodup _ HI1) a).
    unfold updL. rewrite !mark_dirty_kids. reflexivity.
Qed.

Lemma skipn_skipn1 {A} n (l : list A) : skipn n (skipn 1 l) = skipn (S n) l.
Proof. destruct l; [destruct n; reflexivity | reflexivity]. Qed.
Lemma detach_n_kids n : forall s g, Good s ->
  forall a, kid_ids (detach_n s g n) a = updL (kid_ids s) g (skipn n (kid_ids s g)) a.
Proof.
  induction n as [|n IH]; intros s g G a.
  - simpl. unfold updL. destruct (a =? g) eqn:E; [apply Z.eqb_eq in E; subst|]; reflexivity.
  - simpl detach_n. pose proof (detach_at_good s g 0 G) as G1. rewrite (IH _ g G1 a).
    destruct G as [HI Q]. pose proof (detach_at_kids s g 0 (inv_nodup s HI)) as K.
    unfold updL at 1. destruct (a =? g) eqn:E.
    + rewrite K, updL_eq. unfold del_nth. cbn [firstn app]. rewrite skipn_skipn1. unfold updL. rewrite E. reflexivity.
    + rewrite K. unfold updL. rewrite E. reflexivity.
Qed.
Lemma do_clear_kids s g : Good s ->
  forall a, kid_ids (fst (do_clear s g)) a = sp_apply (all_ids s) (next s) (is_container s) (kid_ids s) (Clear g) a.
Proof.
  intros G a. unfold do_clear, detach_all. cbn [fst sp_apply]. rewrite mark_dirty_kids, (detach_n_kids _ s g G a), len_kids.
  rewrite skipn_all. reflexivity.
Qed.

Lemma do_setitem_kids s g i x v :
  Good s -> alloc_ok s g -> is_container s g = true -> rootid s x ->
  snd (do_setitem s g i x) = Done v ->
  forall a, kid_ids (fst (do_setitem s g i x)) a = sp_apply (all_ids s) (next s) (is_container s) (kid_ids s) (SetItem g i x) a.
Proof.
  intros [HI Q] Hg Hc Hr HD a. unfold do_setitem in *. cbn [sp_apply]. destruct (x =? g) eqn:E.
  { exfalso. exact (fail_fmt_not_done _ _ _ _ HD). }
  apply Z.eqb_neq in E. destruct (check_valid s g [x]) as [bad|] eqn:CV.
  { exfalso. exact (check_fail_not_done _ _ _ _ HD). }
  rewrite zlen_kids in *. destruct (idx_pos (zlen (kid_ids s g)) i) as [j|]; [|discriminate].
  cbn [fst]. rewrite mark_dirty_kids, meta_kids. cbn [attach]. set (k := Z.to_nat j).
  (* the detached x is still a detached root after the old entry was removed *)
  destruct (attach_pre s g x (conj HI Q) Hg Hr E CV) as [tx [Htx [Et [Hng [Hgin Hl]]]]]. subst x.
  pose proof (detach_at_good s g k (conj HI Q)) as [HI1 Q1].
  destruct (detach_at_facts s g k (inv_nodup s HI)) as [Ao [An [Ac [Af [Acnt _]]]]].
  set (s1 := detach_at s g k) in *.
  assert (Hg1 : In g (ids_l (roots s1))) by (apply (cnt_same_In _ _ Acnt); exact Hgin).
  rewrite (attach1_kids s1 g k tx (inv_nodup s1 HI1) (detach_keeps_root s g k tx Htx Hng) Hg1 Hng a).
  pose proof (detach_at_kids s g k (inv_nodup s HI)) as K. fold s1 in K.
  rewrite (K g), updL_eq. unfold updL at 1. destruct (a =? g) eqn:Ea; [unfold updL; rewrite Ea; reflexivity|].
  rewrite K. unfold updL. rewrite Ea. reflexivity.
Qed.

(* ---------------------------------------------------------------- the stored parent is the containing list *)
Lemma find_unique {A} (f : A -> bool) : forall l p, In p l -> f p = true ->
  (forall q, In q l -> f q = true -> q = p) -> find f l = Some p.
Proof.
  induction l as [|y r IH]; intros p Hin Hp Hu; [contradiction|]. simpl. destruct (f y) eqn:Fy.
  - f_equal. apply Hu; [left; reflexivity | exact Fy].
  - destruct Hin as [->|Hin]; [congruence|]. apply IH; auto. intros q Hq. apply Hu. right. exact Hq.
Qed.
Lemma find_none_all {A} (f : A -> bool) l : (forall q, In q l -> f q = false) -> find f l = None.
Proof.
  induction l as [|y r IH]; intro H; [reflexivity|]. simpl. rewrite (H y (or_introl eq_refl)).
  apply IH. intros q Hq. apply H. right. exact Hq.
Qed.

Lemma listed_edge s q x : memz x (kid_ids s q) = true -> In q (ids_l (roots s)) /\ In (q, x) (edges_l (roots s)).
Proof.
  intro M. assert (Hq : In q (ids_l (roots s))).
  { destruct (in_dec Z.eq_dec q (ids_l (roots s))) as [|Hn]; [assumption|]. unfold kid_ids in M.
    rewrite (kids_of_notin s q Hn) in M. discriminate. }
  split; [exact Hq|]. apply memz_In in M. apply (kids_are_edges _ _ _ _ (found_node s q Hq) M).
Qed.

Lemma container_listed s p x : Inv s -> memz x (kid_ids s p) = true ->
  sp_container (all_ids s) (kid_ids s) x = Some p.
Proof.
  intros HI M. unfold sp_container. destruct (listed_edge s p x M) as [Hp Hep].
  apply find_unique; [apply all_ids_In, (alloc_in_forest s p HI), Hp | exact M|].
  intros q _ Mq. destruct (listed_edge s q x Mq) as [_ Heq].
  apply (unique_parent (roots s) q p x (inv_nodup s HI) Heq Hep).
Qed.
Lemma container_unlisted s x : Inv s ->
  (forall a, oparent (objs s x) = Some a -> memz x (kid_ids s a) = false) ->
  sp_container (all_ids s) (kid_ids s) x = None.
Proof.
  intros HI Hn. unfold sp_container. apply find_none_all. intros q _.
  destruct (memz x (kid_ids s q)) eqn:M; [|reflexivity]. exfalso.
  destruct (listed_edge s q x M) as [_ He]. destruct (listed_has_parent s q x HI He) as [P M'].
  rewrite (Hn q P) in M'. discriminate.
Qed.

Lemma unlist_kids s x : Good s ->
  forall a, kid_ids (unlist_from_parent s x) a = sp_unlist (all_ids s) (kid_ids s) x a.
Proof.
  intros [HI Q] a. unfold unlist_from_parent, sp_unlist. destruct (oparent (objs s x)) as [p|] eqn:P.
  - destruct (memz x (kid_ids s p)) eqn:M.
    + rewrite (container_listed s p x HI M). unfold do_remove.
      destruct (index_of_mem x _ M) as [k Hk]. rewrite Hk. cbn [fst]. rewrite mark_dirty_kids.
      apply detach_at_kids, inv_nodup, HI.
    + rewrite container_unlisted; [reflexivity | exact HI|]. intros b Pb. rewrite P in Pb. inversion Pb; subst. exact M.
  - rewrite container_unlisted; [reflexivity | exact HI|]. intros b Pb. rewrite P in Pb. discriminate.
Qed.

Lemma repr_touch_roots s x : roots (fst (repr_touch s x)) = roots s.
Proof. apply (ps_roots _ _ (repr_touch_ptr s x)). Qed.

Lemma do_delete_layer_kids s x : Good s ->
  forall a, kid_ids (fst (do_delete_layer s x)) a = sp_unlist (all_ids s) (kid_ids s) x a.
Proof.
  intros G a. rewrite <- (unlist_kids s x G a). unfold do_delete_layer, unlist_from_parent.
  destruct (oparent (objs s x)) as [p|] eqn:P.
  - cbn [fst]. rewrite mark_dirty_kids. reflexivity.
  - pose proof (repr_touch_roots s x) as R. destruct (repr_touch s x) as [s1 [|]]; cbn [fst] in *;
      apply kids_eq_roots; exact R.
Qed.

Lemma do_move_to_group_kids s x g v : Good s -> alloc_ok s x -> alloc_ok s g ->
  snd (do_move_to_group s x g) = Done v ->
  forall a, kid_ids (fst (do_move_to_group s x g)) a
            = sp_apply (all_ids s) (next s) (is_container s) (kid_ids s) (MoveToGroup x g) a.
Proof.
  intros G Hx Hg HD a. unfold do_move_to_group in *. cbn [sp_apply].
  destruct (is_container s g) eqn:C; cbn [negb] in *; [|discriminate].
  destruct (g =? x); [discriminate|].
  destruct ((kind s x =? KGroup) && memz g (descendants s x)).
  { exfalso. exact (fail_fmt_not_done _ _ _ _ HD). }
  destruct (unlist_ok s x G Hx) as [[G1 [K1 R1]] Rx]. set (s1 := unlist_from_parent s x) in *.
  rewrite (do_append_kids s1 g x v G1 (kn_alloc _ _ _ K1 Hg)); auto.
  - unfold s1. rewrite (unlist_kids s x G g). apply updL_ext. intro b. apply unlist_kids, G.
  - rewrite (kn_container _ _ _ K1 Hg). exact C.
Qed.

Lemma do_move_up_kids s x off v : Good s -> alloc_ok s x ->
  snd (do_move_up s x off) = Done v ->
  forall a, kid_ids (fst (do_move_up s x off)) a
            = sp_apply (all_ids s) (next s) (is_container s) (kid_ids s) (MoveUp x off) a.
Proof.
  intros G Hx HD a. unfold do_move_up in *. cbn [sp_apply].
  destruct (oparent (objs s x)) as [p|] eqn:P; [|discriminate].
  destruct (index_of x (kid_ids s p)) as [k|] eqn:I.
  2:{ exfalso. exact (fail_fmt_not_done _ _ _ _ HD). }
  assert (M : memz x (kid_ids s p) = true).
  { unfold kid_ids in *. destruct (index_of_nth x _ k I) as [d [Hd Ed]]. apply memz_In. rewrite <- Ed.
    apply in_map. apply nth_error_In with (n := k). exact Hd. }
  destruct G as [HI Q]. rewrite (container_listed s p x HI M), I.
  destruct (listed_edge s p x M) as [Hpin He]. pose proof (proj2 (alloc_in_forest s p HI) Hpin) as Hp.
  assert (Cp : is_container s p = true).
  { destruct HI as [_ [_ [_ [Hk _]]]]. rewrite Forall_forall in Hk. apply (Hk _ He). }
  pose proof (do_remove_ok s p x (conj HI Q)) as [G1 [K1 R1]].
  pose proof (do_remove_root s p x (conj HI Q) M) as Rx.
  assert (Kr : forall b, kid_ids (fst (do_remove s p x)) b = updL (kid_ids s) p (del_nth (kid_ids s p) k) b).
  { intro b. unfold do_remove. rewrite I. cbn [fst]. rewrite mark_dirty_kids. apply detach_at_kids, inv_nodup, HI. }
  set (s1 := fst (do_remove s p x)) in *.
  rewrite (do_insert_kids s1 p _ x v G1 (kn_alloc _ _ _ K1 Hp)); auto.
  - rewrite (Kr p), updL_eq, zlen_kids.
    unfold updL. destruct (a =? p) eqn:Ea; [|rewrite Kr; unfold updL; rewrite Ea; reflexivity].
    unfold sp_clamp. reflexivity.
  - rewrite (kn_container _ _ _ K1 Hp). exact Cp.
Qed.

(* ---------------------------------------------------------------- Group.new *)
Lemma find_l_app a l m : find_l a (l ++ m) = match find_l a l with Some u => Some u | None => find_l a m end.
Proof.
  unfold find_l. induction l as [|y r IH]; [reflexivity|]. cbn [app]. rewrite !first_some_cons.
  destruct (find_t a y); [reflexivity | exact IH].
Qed.
Lemma alloc_kids s o a : Inv s -> kid_ids (alloc s o) a = kid_ids s a.
Proof.
  intro HI. unfold kid_ids, kids_of, subtree, alloc. cbn [roots]. rewrite find_l_app.
  destruct (find_l a (roots s)) eqn:F; [reflexivity|].
  unfold find_l. rewrite first_some_cons. cbn [find_t first_some]. destruct (next s =? a); reflexivity.
Qed.

Lemma do_new_group_kids s parent v : Good s -> (forall p, parent = Some p -> alloc_ok s p) ->
  snd (do_new_group s parent) = Done v ->
  forall a, kid_ids (fst (do_new_group s parent)) a
            = sp_apply (all_ids s) (next s) (is_container s) (kid_ids s) (NewGroup parent) a.
Proof.
  intros G Hp HD a. unfold do_new_group in *. cbn [sp_apply].
  destruct (alloc_step s new_group_obj G eq_refl eq_refl) as [[G1 [K1 R1]] [Rn [An On]]].
  set (s1 := alloc s new_group_obj) in *. set (n := next s) in *.
  assert (Ks1 : forall b, kid_ids s1 b = kid_ids s b) by (intro b; apply alloc_kids, G).
  destruct parent as [p|]; [|cbn [fst]; apply Ks1].
  pose proof (Hp p eq_refl) as Ap.
  rewrite (kn_container _ _ _ K1 Ap) in *. destruct (is_container s p) eqn:C; [|cbn [fst]; apply Ks1].
  rewrite fst_relabel.
  (* n.move_to_group(p): n is detached with no parent *)
  destruct (do_move_to_group s1 n p) as [s2 [w|c]] eqn:E; cbn [snd] in HD; [|discriminate].
  assert (HD2 : snd (do_move_to_group s1 n p) = Done w) by (rewrite E; reflexivity).
  pose proof (do_move_to_group_kids s1 n p w G1 An (kn_alloc _ _ _ K1 Ap) HD2 a) as K.
  rewrite E in K. cbn [fst] in *. rewrite K. cbn [sp_apply].
  assert (Un : forall b, sp_unlist (all_ids s1) (kid_ids s1) n b = kid_ids s b).
  { intro b. rewrite <- (unlist_kids s1 n G1 b). unfold unlist_from_parent.
    assert (Pn : oparent (objs s1 n) = None) by (rewrite On; reflexivity). rewrite Pn. apply Ks1. }
  rewrite (Un p). apply updL_ext. exact Un.
Qed.

(* ---------------------------------------------------------------- pointwise equal lists give pointwise equal results *)
Definition leq (L L' : lists) : Prop := forall a, L a = L' a.
Lemma leq_refl L : leq L L. Proof. intro; reflexivity. Qed.
Lemma leq_trans A B C : leq A B -> leq B C -> leq A C.
Proof. intros H1 H2 a. rewrite H1. apply H2. Qed.
Lemma updL_leq L L' g v v' : leq L L' -> v = v' -> leq (updL L g v) (updL L' g v').
Proof. intros H E a. subst. unfold updL. destruct (a =? g); [reflexivity | apply H]. Qed.
Lemma find_ext {A} (f f' : A -> bool) l : (forall a, f a = f' a) -> find f l = find f' l.
Proof. intro H. induction l as [|y r IH]; [reflexivity|]. simpl. rewrite H, IH. reflexivity. Qed.
Lemma sp_container_ext dom L L' x : leq L L' -> sp_container dom L x = sp_container dom L' x.
Proof. intro H. unfold sp_container. apply find_ext. intro g. rewrite (H g). reflexivity. Qed.
Lemma sp_unlist_ext dom L L' x : leq L L' -> leq (sp_unlist dom L x) (sp_unlist dom L' x).
Proof.
  intro H. unfold sp_unlist. rewrite (sp_container_ext dom L L' x H).
  destruct (sp_container dom L' x) as [p|]; [|exact H]. rewrite (H p).
  destruct (index_of x (L' p)); [apply updL_leq; [exact H | reflexivity] | exact H].
Qed.
Lemma sp_move_all_ext dom n : forall xs L L', leq L L' -> leq (sp_move_all dom L xs n) (sp_move_all dom L' xs n).
Proof.
  induction xs as [|x r IH]; intros L L' H; [exact H|]. simpl. apply IH.
  pose proof (sp_unlist_ext dom L L' x H) as U. apply updL_leq; [exact U | rewrite (U n); reflexivity].
Qed.
Lemma sp_apply_ext dom n isc L L' o : leq L L' -> leq (sp_apply dom n isc L o) (sp_apply dom n isc L' o).
Proof.
  intro H.
  assert (U1 : forall g v, leq (updL L g v) (updL L' g v)) by (intros; apply updL_leq; [exact H | reflexivity]).
  destruct o; cbn [sp_apply].
  - exact H.
  - exact H.
  - (* NewGroup *) destruct parent as [p|]; [|exact H]. destruct (isc p); [|exact H]. rewrite (H p). apply U1.
  - (* GroupLayers *) destruct xs as [|x0 r]; [exact H|].
    rewrite (sp_container_ext dom L L' x0 H).
    pose proof (sp_move_all_ext (dom ++ [n]) n (x0 :: r) L L' H) as M.
    destruct (match parent with Some p => Some p | None => sp_container dom L' x0 end) as [p|]; [|exact M].
    destruct (isc p); [|exact M]. apply updL_leq; [exact M | rewrite (M p); reflexivity].
  - rewrite (H g). apply U1.
  - rewrite (H g). apply U1.
  - rewrite (H g). apply U1.
  - rewrite (H g). destruct (index_of x (L' g)); [apply U1 | exact H].
  - rewrite (H g). destruct (idx_pos (zlen (L' g)) i); [apply U1 | exact H].
  - apply U1.
  - rewrite (H g). destruct (idx_pos (zlen (L' g)) i); [apply U1 | exact H].
  - rewrite (H g). destruct (idx_pos (zlen (L' g)) i); [apply U1 | exact H].
  - (* DeleteLayer *) apply sp_unlist_ext, H.
  - (* MoveToGroup *) pose proof (sp_unlist_ext dom L L' x H) as U. apply updL_leq; [exact U | rewrite (U g); reflexivity].
  - (* MoveUp *) rewrite (sp_container_ext dom L L' x H). destruct (sp_container dom L' x) as [p|]; [|exact H].
    rewrite (H p). destruct (index_of x (L' p)); [apply U1 | exact H].
  - (* MoveDown *) rewrite (sp_container_ext dom L L' x H). destruct (sp_container dom L' x) as [p|]; [|exact H].
    rewrite (H p). destruct (index_of x (L' p)); [apply U1 | exact H].
  - exact H. - exact H. - exact H. - exact H. - exact H. - exact H. - exact H. - exact H. - exact H. - exact H. - exact H.
Qed.

(* ---------------------------------------------------------------- Group.group_layers *)
Lemma next_detach_at s g k : next (detach_at s g k) = next s.
Proof. unfold detach_at. destruct (nth_error (kids_of s g) k); reflexivity. Qed.
Lemma next_attach : forall xs s g k, next (attach s g k xs) = next s.
Proof. induction xs as [|x r IH]; intros s g k; [reflexivity|]. simpl. rewrite IH. reflexivity. Qed.
Lemma next_mark_dirty s g : next (mark_dirty s g) = next s.
Proof. apply (ps_next _ _ (mark_dirty_ptr s g)). Qed.
Lemma next_do_remove s g x : next (fst (do_remove s g x)) = next s.
Proof. unfold do_remove. destruct (index_of x (kid_ids s g)); [|reflexivity]. cbn [fst]. rewrite next_mark_dirty. apply next_detach_at. Qed.
Lemma next_unlist s x : next (unlist_from_parent s x) = next s.
Proof.
  unfold unlist_from_parent. destruct (oparent (objs s x)); [|reflexivity].
  destruct (memz x (kid_ids s z)); [apply next_do_remove | reflexivity].
Qed.
Lemma next_do_extend s g xs : next (fst (do_extend s g xs)) = next s.
Proof.
  unfold do_extend. destruct (check_valid s g xs); [apply (ps_next _ _ (check_fail_ptr s g o))|].
  destruct (memz g xs); cbn [fst].
  - unfold set_corrupt. cbn [next]. apply next_attach.
  - rewrite next_mark_dirty. destruct (meta_frame (attach s g (length (kids_of s g)) xs) g) as [_ [N _]]. rewrite N. apply next_attach.
Qed.
Lemma next_do_move_to_group s x g : next (fst (do_move_to_group s x g)) = next s.
Proof.
  unfold do_move_to_group. destruct (negb (is_container s g)); [reflexivity|]. destruct (g =? x); [reflexivity|].
  destruct ((kind s x =? KGroup) && memz g (descendants s x)); [apply (ps_next _ _ (fail_fmt_ptr _ s _))|].
  unfold do_append. destruct (x =? g); [apply next_unlist|]. rewrite next_do_extend. apply next_unlist.
Qed.

Lemma move_all_kids n : forall xs st v,
  Good st -> alloc_ok st n -> Forall (fun x => alloc_ok st x) xs ->
  snd (move_all st xs n) = Done v ->
  forall a, kid_ids (fst (move_all st xs n)) a = sp_move_all (all_ids st) (kid_ids st) xs n a.
Proof.
  induction xs as [|x r IH]; intros st v G An HF HD a; [reflexivity|].
  inversion HF as [|? ? Ax HFr]; subst. simpl in *.
  pose proof (do_move_to_group_ok st x n G Ax An) as [G1 [K1 _]].
  pose proof (next_do_move_to_group st x n) as Nx.
  destruct (do_move_to_group st x n) as [s1 [w|c]] eqn:E; cbn [fst snd] in *; [|discriminate].
  assert (HD1 : snd (do_move_to_group st x n) = Done w) by (rewrite E; reflexivity).
  pose proof (do_move_to_group_kids st x n w G Ax An HD1) as K. rewrite E in K. cbn [fst sp_apply] in K.
  assert (HF1 : Forall (fun y => alloc_ok s1 y) r).
  { eapply Forall_impl; [|exact HFr]. intros y Ay. apply (kn_alloc _ _ _ K1 Ay). }
  rewrite (IH s1 v G1 (kn_alloc _ _ _ K1 An) HF1 HD a).
  assert (Ed : all_ids s1 = all_ids st) by (unfold all_ids; rewrite Nx; reflexivity). rewrite Ed.
  apply sp_move_all_ext. exact K.
Qed.

Lemma zrange_snoc a : forall n, zrange a (S n) = zrange a n ++ [a + Z.of_nat n].
Proof.
  intro n. revert a. induction n as [|n IH]; intro a.
  - simpl. f_equal. lia.
  - change (zrange a (S (S n))) with (a :: zrange (a + 1) (S n)). rewrite IH. simpl. f_equal. f_equal. f_equal. lia.
Qed.
Lemma all_ids_alloc s o : 0 <= next s -> all_ids (alloc s o) = all_ids s ++ [next s].
Proof.
  intro H. unfold all_ids, alloc. cbn [next]. replace (Z.to_nat (next s + 1)) with (S (Z.to_nat (next s))) by lia.
  rewrite zrange_snoc. f_equal. f_equal. lia.
Qed.

(* the default parent is layers[0]._parent; the plain lists use the list that contains layers[0]:
   they agree unless the stored parent no longer lists the layer (F-C09-2) *)
Definition parent_fresh s (xs : list Z) (parent : option Z) : Prop :=
  match parent, xs with
  | None, x0 :: _ => forall q, oparent (objs s x0) = Some q -> memz x0 (kid_ids s q) = true
  | _, _ => True
  end.

Lemma do_group_layers_kids s xs parent v :
  Good s -> Forall (alloc_ok s) xs -> (forall p, parent = Some p -> alloc_ok s p) -> parent_fresh s xs parent ->
  snd (do_group_layers s xs parent) = Done v ->
  forall a, kid_ids (fst (do_group_layers s xs parent)) a
            = sp_apply (all_ids s) (next s) (is_container s) (kid_ids s) (GroupLayers xs parent) a.
Proof.
  intros G Hxs Hp Hpf HD a. unfold do_group_layers in *. cbn [sp_apply]. destruct xs as [|x0 r]; [discriminate|].
  set (xs := x0 :: r) in *.
  pose proof G as [HI Q].
  assert (Epar : match parent with Some p => Some p | None => oparent (objs s x0) end
                 = match parent with Some p => Some p | None => sp_container (all_ids s) (kid_ids s) x0 end).
  { destruct parent as [p|]; [reflexivity|]. cbn in Hpf. destruct (oparent (objs s x0)) as [q|] eqn:P.
    - symmetry. apply container_listed; [exact HI | apply Hpf; reflexivity].
    - symmetry. apply container_unlisted; [exact HI|]. intros b Pb. rewrite P in Pb. discriminate. }
  rewrite <- Epar. clear Epar.
  set (par := match parent with Some p => Some p | None => oparent (objs s x0) end) in *.
  assert (Hpar : forall p, par = Some p -> alloc_ok s p).
  { intros p Ep. unfold par in Ep. destruct parent as [q|]; [inversion Ep; subst; apply Hp; reflexivity|].
    destruct HI as [_ [_ [_ [_ [_ [_ [H7 _]]]]]]]. rewrite Forall_forall in H7.
    inversion Hxs as [|? ? A0 _]; subst. specialize (H7 x0 (proj2 (all_ids_In s x0) A0)).
    unfold parent_alloc in H7. rewrite Ep in H7. exact H7. }
  destruct (alloc_step s new_group_obj G eq_refl eq_refl) as [[G1 [K1 R1]] [Rn [An On]]].
  set (s1 := alloc s new_group_obj) in *. set (n := next s) in *.
  assert (HF : Forall (fun x => alloc_ok s1 x) xs).
  { eapply Forall_impl; [|exact Hxs]. intros y Ay. apply (kn_alloc _ _ _ K1 Ay). }
  assert (Hn0 : 0 <= next s) by (destruct HI as [_ [_ [_ [_ [_ [_ [_ H8]]]]]]]; exact H8).
  assert (Kmove : forall w, snd (move_all s1 xs n) = Done w ->
            forall b, kid_ids (fst (move_all s1 xs n)) b = sp_move_all (all_ids s ++ [n]) (kid_ids s) xs n b).
  { intros w Hw b. rewrite (move_all_kids n xs s1 w G1 An HF Hw b).
    unfold s1 at 1. rewrite (all_ids_alloc s new_group_obj Hn0). fold n.
    apply sp_move_all_ext. intro c. apply alloc_kids, HI. }
  destruct (move_all_ok n xs s1 G1 An Rn) as [[G2 [K2 R2]] Rn2].
  { eapply Forall_impl; [|exact Hxs]. intros y Ay. split; [apply (kn_alloc _ _ _ K1 Ay) | unfold alloc_ok, n in *; lia]. }
  destruct (move_all s1 xs n) as [s2 [w|c]] eqn:E; cbn [fst snd] in *; [|discriminate].
  specialize (Kmove w eq_refl).
  destruct par as [p|]; [|cbn [fst]; apply Kmove].
  assert (Ap : alloc_ok s p) by (apply Hpar; reflexivity).
  assert (Ap2 : alloc_ok s2 p) by (apply (kn_alloc _ _ _ K2), (kn_alloc _ _ _ K1), Ap).
  assert (Ec : is_container s2 p = is_container s p).
  { rewrite (kn_container _ _ _ K2 (kn_alloc _ _ _ K1 Ap)). apply (kn_container _ _ _ K1 Ap). }
  rewrite Ec in *. destruct (is_container s p) eqn:C; [|cbn [fst]; apply Kmove].
  rewrite fst_relabel.
  destruct (do_append s2 p n) as [s3 [w3|c3]] eqn:E3; cbn [snd] in HD; [|discriminate].
  assert (HD3 : snd (do_append s2 p n) = Done w3) by (rewrite E3; reflexivity).
  assert (C2 : is_container s2 p = true) by (rewrite Ec; reflexivity).
  pose proof (do_append_kids s2 p n w3 G2 Ap2 C2 Rn2 HD3 a) as K3. rewrite E3 in K3. cbn [fst] in *. rewrite K3.
  rewrite (Kmove p). apply updL_ext. exact Kmove.
Qed.

(* ---------------------------------------------------------------- the refinement theorem (one step) *)
(* the extra hypothesis of the refinement: only Group.group_layers has one *)
Definition refine_guard s (o : op) : Prop :=
  match o with GroupLayers xs parent => parent_fresh s xs parent | _ => True end.

Theorem step_refines s o v :
  Good s -> guard s o -> refine_guard s o -> snd (step s o) = Done v ->
  forall a, kid_ids (fst (step s o)) a = sp_apply (all_ids s) (next s) (is_container s) (kid_ids s) o a.
Proof.
  intros G [Hids Hg] Hro HD a. pose proof G as [[_ [_ [_ [_ [_ [Hcor _]]]]]] _].
  unfold step in *. rewrite Hcor in *.
  destruct (match needs_container o with Some g => negb (is_container s g) | None => false end) eqn:NC; [discriminate|].
  destruct (match needs_layer o with Some x => negb (is_layer s x) | None => false end) eqn:NL; [discriminate|].
  rewrite Forall_forall in Hids.
  destruct o; cbn [op_ids needs_container needs_layer refine_guard] in *.
  - (* NewDoc *) cbn [fst sp_apply]. apply alloc_kids, G.
  - (* NewPixel *) cbn [fst sp_apply]. apply alloc_kids, G.
  - (* NewGroup *) apply (do_new_group_kids s parent v G); [|exact HD]. intros p E. subst. apply Hids. left. reflexivity.
  - (* GroupLayers *) apply (do_group_layers_kids s xs parent v G); [| |exact Hro|exact HD].
    + apply Forall_forall. intros y Hy. apply Hids. apply in_or_app. left. exact Hy.
    + intros p E. subst. apply Hids. apply in_or_app. right. left. reflexivity.
  - (* Append *) apply negb_false_iff in NC. cbn [sp_apply].
    apply (do_append_kids s g x v G); auto. apply Hids. left. reflexivity.
  - (* Extend *) apply negb_false_iff in NC. destruct Hg as [A [B C]]. cbn [sp_apply].
    apply (do_extend_kids s g xs v G); auto. apply Hids. left. reflexivity.
  - (* Insert *) apply negb_false_iff in NC. cbn [sp_apply].
    apply (do_insert_kids s g i x v G); auto. apply Hids. left. reflexivity.
  - (* Remove *) apply (do_remove_kids s g x v G HD).
  - (* Pop *) apply (do_pop_kids s g i v G HD).
  - (* Clear *) apply (do_clear_kids s g G).
  - (* SetItem *) apply negb_false_iff in NC.
    apply (do_setitem_kids s g i x v G); auto. apply Hids. left. reflexivity.
  - (* DelItem *) apply (do_delitem_kids s g i v G HD).
  - (* DeleteLayer *) cbn [sp_apply]. apply (do_delete_layer_kids s x G).
  - (* MoveToGroup *) apply (do_move_to_group_kids s x g v G); [apply Hids; right; left; reflexivity | apply Hids; left; reflexivity | exact HD].
  - (* MoveUp *) apply (do_move_up_kids s x off v G); [apply Hids; left; reflexivity | exact HD].
  - (* MoveDown *)
    pose proof (do_move_up_kids s x (- off) v G (Hids x (or_introl eq_refl)) HD a) as K. rewrite K. reflexivity.
  - (* SetVisible *) cbn [sp_apply]. apply kids_eq_roots. apply (ps_roots _ _ (proj1 (frame_set_visible s x b))).
  - (* SetLeft *) cbn [sp_apply]. apply kids_eq_roots. apply (ps_roots _ _ (proj1 (frame_set_left s x v0))).
  - (* SetTop *) cbn [sp_apply]. apply kids_eq_roots. apply (ps_roots _ _ (proj1 (frame_set_top s x v0))).
  - (* SetClip *) cbn [sp_apply]. destruct (do_set_clip_ok s x b G Hg) as [_ _].
    apply kids_eq_roots. unfold do_set_clip. destruct (is_layer s x); cbn [negb fst]; [|reflexivity].
    destruct (clipfix (conf s)).
    + destruct (opsd (objs s x)); cbn [fst]; [rewrite (ps_roots _ _ (compute_clipping_ptr _ _))|]; reflexivity.
    + destruct (opsd (objs s x)); [|reflexivity]. destruct (0 <? zlen (kids_of s z)); [|reflexivity].
      cbn [fst]. rewrite (ps_roots _ _ (compute_clipping_ptr _ _)). reflexivity.
  - (* ObsBbox *) cbn [sp_apply]. apply kids_eq_roots. apply (ps_roots _ _ (proj1 (frame_obs_bbox s x))).
  - (* ObsSize *) cbn [sp_apply]. apply kids_eq_roots. apply (ps_roots _ _ (proj1 (frame_obs_size s x))).
  - (* ObsRepr *) cbn [sp_apply]. apply kids_eq_roots. apply (ps_roots _ _ (proj1 (frame_obs_repr s x))).
  - (* ObsDesc *) reflexivity.
  - (* ObsFind *) reflexivity.
  - (* ObsVisible *) cbn [sp_apply]. destruct (isvis (fuel_of s) s x); reflexivity.
  - (* ObsExport *) reflexivity.
Qed.

(* ---------------------------------------------------------------- histories *)
Lemma run_cons_r s o r : run s (o :: r) = run (fst (step s o)) r.
Proof. reflexivity. Qed.
(* the plain lists run next to the model; which ids exist and which are containers is read off the model *)
Fixpoint sp_run (s : state) (L : lists) (h : list op) : lists :=
  match h with
  | [] => L
  | o :: r => sp_run (fst (step s o)) (sp_apply (all_ids s) (next s) (is_container s) L o) r
  end.
Fixpoint accepted (s : state) (h : list op) : Prop :=
  match h with
  | [] => True
  | o :: r => (exists v, snd (step s o) = Done v) /\ refine_guard s o /\ accepted (fst (step s o)) r
  end.
Fixpoint guards_r (s : state) (h : list op) : Prop :=
  match h with [] => True | o :: r => guard s o /\ guards_r (fst (step s o)) r end.

Theorem history_refines : forall h s L,
  Good s -> guards_r s h -> accepted s h -> leq (kid_ids s) L -> leq (kid_ids (run s h)) (sp_run s L h).
Proof.
  induction h as [|o r IH]; intros s L G Hg Ha HL; [exact HL|].
  destruct Hg as [G0 Gr]. destruct Ha as [[v Hv] [Ro Ar]]. cbn [sp_run]. rewrite run_cons_r.
  apply IH; [apply (step_ok s o G G0) | exact Gr | exact Ar|].
  intro a. rewrite (step_refines s o v G G0 Ro Hv a). apply sp_apply_ext. exact HL.
Qed.
