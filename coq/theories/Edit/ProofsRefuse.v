(* Edit/ProofsRefuse.v -- C10: an operation that answers an error leaves the tree as it was
   (structure, pointers, flags, rectangles, clip lists); only bbox caches (the error message prints the
   group) and, for `del g[i]` before repair edc9f34, the dirty flag may differ. *)
From PsdV Require Import Base.Prelude Edit.Model Edit.Inv Edit.Forest Edit.ProofsInv.
Open Scope Z_scope.

Definition cd_erase (o : obj) : obj := with_dirty false (with_cache None o).
Definition same_tree (s s' : state) : Prop :=
  roots s' = roots s /\ next s' = next s /\ corrupt s' = corrupt s /\ conf s' = conf s
  /\ forall i, cd_erase (objs s' i) = cd_erase (objs s i).

Lemma st_refl s : same_tree s s. Proof. repeat split; auto. Qed.
Lemma st_trans a b c : same_tree a b -> same_tree b c -> same_tree a c.
Proof.
  intros [A1 [A2 [A3 [A4 A5]]]] [B1 [B2 [B3 [B4 B5]]]].
  split; [congruence|]. split; [congruence|]. split; [congruence|]. split; [congruence|].
  intro i. rewrite B5. apply A5.
Qed.
Lemma st_mod s i f : (forall o, cd_erase (f o) = cd_erase o) -> same_tree s (mod_obj s i f).
Proof.
  intro K. repeat split; auto. intro j. unfold mod_obj, set_objs, upd. cbn [objs].
  destruct (j =? i) eqn:E; [|reflexivity]. apply Z.eqb_eq in E. subst. apply K.
Qed.
Lemma cde_cache c o : cd_erase (with_cache c o) = cd_erase o. Proof. destruct o; reflexivity. Qed.
Lemma cde_dirty c o : cd_erase (with_dirty c o) = cd_erase o. Proof. destruct o; reflexivity. Qed.

Lemma st_read_bbox s g : same_tree s (fst (read_bbox s g)).
Proof.
  unfold read_bbox. destruct (ocache (objs s g)); [apply st_refl|].
  destruct (fresh_bbox s g); [apply st_mod; intro; apply cde_cache | apply st_refl].
Qed.
Lemma st_repr_touch s x : same_tree s (fst (repr_touch s x)).
Proof.
  unfold repr_touch. destruct (kind s x =? KGroup); [|apply st_refl].
  pose proof (st_read_bbox s x). destruct (read_bbox s x) as [s1 [b|]]; exact H.
Qed.
Lemma st_fail_fmt xs : forall s c, same_tree s (fst (fail_fmt s xs c)).
Proof.
  induction xs as [|x r IH]; intros s c; [apply st_refl|].
  simpl. pose proof (st_repr_touch s x) as P. destruct (repr_touch s x) as [s1 [|]]; simpl in P.
  - eapply st_trans; [exact P | apply IH].
  - exact P.
Qed.
Lemma st_check_fail s g bad : same_tree s (fst (check_fail s g bad)).
Proof. unfold check_fail. destruct bad as [x|]; [|apply st_refl]. destruct (x =? g); apply st_fail_fmt. Qed.
Lemma st_inval_up fuel : forall s x, same_tree s (inval_up fuel s x).
Proof.
  induction fuel as [|f IH]; intros s x; [apply st_refl|]. simpl.
  set (s1 := if is_container s x then mod_obj s x (with_cache None) else s).
  assert (P1 : same_tree s s1) by (unfold s1; destruct (is_container s x); [apply st_mod; intro; apply cde_cache | apply st_refl]).
  destruct (oparent (objs s x)); [|exact P1]. eapply st_trans; [exact P1 | apply IH].
Qed.
Lemma st_inval fuel : forall s x, same_tree s (fst (inval fuel s x)).
Proof.
  induction fuel as [|f IH]; intros s x; [apply st_refl|]. simpl.
  set (s1 := if is_container s x then mod_obj s x (with_cache None) else s).
  assert (P1 : same_tree s s1) by (unfold s1; destruct (is_container s x); [apply st_mod; intro; apply cde_cache | apply st_refl]).
  destruct (oparent (objs s x)); [|exact P1]. destruct (kind s z =? KGroup); [|exact P1].
  eapply st_trans; [exact P1 | apply IH].
Qed.
Lemma st_invalidate s x : same_tree s (fst (invalidate s x)).
Proof. unfold invalidate. destruct (cachefix (conf s)); [apply st_inval_up | apply st_inval]. Qed.
Lemma st_mark_dirty_old s g : clipsfix (conf s) = false -> same_tree s (mark_dirty s g).
Proof.
  intro C. unfold mark_dirty. rewrite C.
  set (s0 := if cachefix (conf s) then inval_up (fuel_of s) s g else s).
  assert (P0 : same_tree s s0) by (unfold s0; destruct (cachefix (conf s)); [apply st_inval_up | apply st_refl]).
  destruct (eff_psd s0 g); [|exact P0]. eapply st_trans; [exact P0 | apply st_mod; intro; apply cde_dirty].
Qed.

(* operations whose every error outcome is decided before anything is written *)
Definition early_refusing (o : op) : bool :=
  match o with
  | Append _ _ | Extend _ _ | Insert _ _ _ | SetItem _ _ _ | Remove _ _ | Pop _ _ | DelItem _ _ | Clear _
  | DeleteLayer _ | SetVisible _ _ | SetLeft _ _ | SetTop _ _ | SetClip _ _
  | ObsBbox _ | ObsSize _ | ObsRepr _ | ObsDesc _ | ObsFind _ _ | ObsVisible _ | ObsExport _ _ => true
  | _ => false
  end.

Theorem refused_unchanged_l s o c :
  early_refusing o = true -> snd (step s o) = Fail c -> corrupt (fst (step s o)) = corrupt s ->
  same_tree s (fst (step s o)).
Proof.
  intros He HF Hc. unfold step in *. destruct (corrupt s) eqn:Cor; [apply st_refl|].
  destruct (match needs_container o with Some g => negb (is_container s g) | None => false end); [apply st_refl|].
  destruct (match needs_layer o with Some x => negb (is_layer s x) | None => false end); [apply st_refl|].
  destruct o; try discriminate; cbn [fst snd] in *.
  - (* Append *) unfold do_append in *. destruct (x =? g); [apply st_refl|]. unfold do_extend in *.
    destruct (check_valid s g [x]); [apply st_check_fail|].
    destruct (memz g [x]); cbn [fst snd] in *; [simpl in Hc; congruence | discriminate].
  - (* Extend *) unfold do_extend in *. destruct (check_valid s g xs); [apply st_check_fail|].
    destruct (memz g xs); cbn [fst snd] in *; [simpl in Hc; congruence | discriminate].
  - (* Insert *) unfold do_insert in *. destruct (x =? g); [apply st_fail_fmt|].
    destruct (check_valid s g [x]); [apply st_check_fail | discriminate].
  - (* Remove *) unfold do_remove in *. destruct (index_of x (kid_ids s g)); [discriminate | apply st_refl].
  - (* Pop *) unfold do_pop in *. destruct (idx_pos (zlen (kids_of s g)) i); [discriminate | apply st_refl].
  - (* SetItem *) unfold do_setitem in *. destruct (x =? g); [apply st_fail_fmt|].
    destruct (check_valid s g [x]); [apply st_check_fail|].
    destruct (idx_pos (zlen (kids_of s g)) i); [discriminate | apply st_refl].
  - (* DelItem *) unfold do_delitem in *. destruct (clipsfix (conf s)) eqn:Cf.
    + destruct (idx_pos (zlen (kids_of s g)) i); [discriminate | apply st_refl].
    + destruct (idx_pos (zlen (kids_of s g)) i); [discriminate | apply st_mark_dirty_old, Cf].
  - (* DeleteLayer *) unfold do_delete_layer in *. destruct (oparent (objs s x)); [discriminate|].
    pose proof (st_repr_touch s x) as P. destruct (repr_touch s x) as [s1 [|]]; exact P.
  - (* SetVisible *) unfold do_set_visible in *. destruct (is_layer s x); cbn [negb] in *; [|apply st_refl].
    pose proof (st_invalidate s x) as P. destruct (invalidate s x) as [s1 [|]]; cbn [fst snd] in *; [discriminate | exact P].
  - (* SetLeft *) unfold do_set_left in *. destruct (kind s x =? KPixel); cbn [negb] in *; [|apply st_refl].
    pose proof (st_invalidate s x) as P. destruct (invalidate s x) as [s1 [|]]; cbn [fst snd] in *; [|exact P].
    destruct (orect (objs s x)) as [[[l t] r] b]. discriminate.
  - (* SetTop *) unfold do_set_top in *. destruct (kind s x =? KPixel); cbn [negb] in *; [|apply st_refl].
    pose proof (st_invalidate s x) as P. destruct (invalidate s x) as [s1 [|]]; cbn [fst snd] in *; [|exact P].
    destruct (orect (objs s x)) as [[[l t] r] b]. discriminate.
  - (* SetClip *) unfold do_set_clip in *. destruct (is_layer s x); cbn [negb] in *; [|apply st_refl].
    destruct (clipfix (conf s)).
    + destruct (opsd (objs s x)); discriminate.
    + destruct (opsd (objs s x)); [|discriminate]. destruct (0 <? zlen (kids_of s z)); discriminate.
  - (* ObsBbox *) unfold do_obs_bbox in *. destruct (kind s x =? KPixel); [discriminate|].
    destruct (is_container s x); [|apply st_refl].
    pose proof (st_read_bbox s x) as P. destruct (read_bbox s x) as [s1 [b|]]; exact P.
  - (* ObsSize *) unfold do_obs_size in *. destruct (kind s x =? KGroup).
    + pose proof (st_read_bbox s x) as P. destruct (read_bbox s x) as [s1 [[[[l t] r] b]|]]; exact P.
    + destruct (orect (objs s x)) as [[[l t] r] b]. discriminate.
  - (* ObsRepr *) unfold do_obs_repr in *. destruct (kind s x =? KGroup).
    + pose proof (st_read_bbox s x) as P. destruct (read_bbox s x) as [s1 [[[[l t] r] b]|]]; exact P.
    + destruct (orect (objs s x)) as [[[l t] r] b]. destruct (kind s x =? KDoc); discriminate.
  - destruct (isvis (fuel_of s) s x); [discriminate | apply st_refl].
Qed.

(* the refusals of move_to_group that the property names: not a group, the layer itself, a descendant *)
Theorem move_to_group_refused_unchanged s x g :
  corrupt s = false -> is_layer s x = true ->
  (is_container s g = false \/ g = x \/ (kind s x = KGroup /\ In g (descendants s x))) ->
  (exists c, snd (step s (MoveToGroup x g)) = Fail c) /\ same_tree s (fst (step s (MoveToGroup x g))).
Proof.
  intros Cor L H. unfold step. rewrite Cor. cbn [needs_container needs_layer]. rewrite L. cbn [negb].
  unfold do_move_to_group. destruct (is_container s g) eqn:C; cbn [negb].
  2:{ split; [eexists; reflexivity | apply st_refl]. }
  destruct (g =? x) eqn:E.
  { split; [eexists; reflexivity | apply st_refl]. }
  destruct H as [H|[H|[K D]]]; [discriminate | subst; rewrite Z.eqb_refl in E; discriminate|].
  apply Z.eqb_eq in K. apply memz_In in D. rewrite K, D. cbn [andb]. split; [|apply st_fail_fmt].
  assert (forall l s0 c0, exists c1, snd (fail_fmt s0 l c0) = Fail c1).
  { induction l as [|y r IH]; intros s0 c0; simpl; [eexists; reflexivity|].
    destruct (repr_touch s0 y) as [s1 [|]]; [apply IH | eexists; reflexivity]. }
  apply H.
Qed.
