(* Edit/Persist.v -- save and reopen at the level of the layer-record list (C09, persistence part).
   [flat]  mirrors psd_image._build_record_tree: for a group the bounding divider record, the
           records of its members, then the group's own record; for any other layer its record.
   [build] mirrors PSDImage._init: a stack of open groups; a bounding divider opens a group, the
           group's own (open/closed folder) record closes it, any other record is a leaf.
   [save] / [reopen] mirror PSDImage._update_record and PSD._get_layer_info: the reader takes the
           Lr16/Lr32 tagged block when the file has one, layer_info otherwise; before repair de76dec
           the writer always updated layer_info. *)
From PsdV Require Import Base.Prelude Edit.Model.
Open Scope Z_scope.

Inductive rcd := RDiv | RGrp (j : Z) | RLeaf (j : Z).

Fixpoint flat_t (isg : Z -> bool) (t : tree) : list rcd :=
  match t with
  | T j ks => if isg j then RDiv :: flat_map (flat_t isg) ks ++ [RGrp j] else [RLeaf j]
  end.
Definition flat_l (isg : Z -> bool) (l : list tree) : list rcd := flat_map (flat_t isg) l.

Fixpoint build (rs : list rcd) (stack : list (list tree)) : option (list tree) :=
  match rs with
  | [] => match stack with [top] => Some top | _ => None end
  | RDiv :: r => build r ([] :: stack)
  | RGrp j :: r => match stack with
                   | ks :: up :: rest => build r ((up ++ [T j ks]) :: rest)
                   | _ => None
                   end
  | RLeaf j :: r => match stack with
                    | up :: rest => build r ((up ++ [T j []]) :: rest)
                    | [] => None
                    end
  end.

(* only groups have members *)
Fixpoint wk_t (isg : Z -> bool) (t : tree) : Prop :=
  match t with T j ks => (isg j = false -> ks = []) /\ (fix all (l : list tree) : Prop :=
                                                       match l with [] => True | x :: r => wk_t isg x /\ all r end) ks end.
Fixpoint wk_l (isg : Z -> bool) (l : list tree) : Prop :=
  match l with [] => True | x :: r => wk_t isg x /\ wk_l isg r end.

Lemma wk_t_eq isg j ks : wk_t isg (T j ks) <-> (isg j = false -> ks = []) /\ wk_l isg ks.
Proof.
  cbn [wk_t]. assert (E : forall l, (fix all (l : list tree) : Prop :=
      match l with [] => True | x :: r => wk_t isg x /\ all r end) l <-> wk_l isg l).
  { induction l as [|x r IH]; cbn [wk_l]; [tauto|]. rewrite IH. tauto. }
  rewrite E. tauto.
Qed.

Section TreeInd.
  Variable P : tree -> Prop.
  Hypothesis H : forall i ks, Forall P ks -> P (T i ks).
  Fixpoint tree_ind3 (t : tree) : P t :=
    match t with
    | T i ks => H i ks ((fix go (l : list tree) : Forall P l :=
                           match l with
                           | [] => Forall_nil P
                           | x :: r => Forall_cons x (tree_ind3 x) (go r)
                           end) ks)
    end.
End TreeInd.

Definition build_spec_t isg (t : tree) : Prop :=
  wk_t isg t -> forall rest cur stack, build (flat_t isg t ++ rest) (cur :: stack) = build rest ((cur ++ [t]) :: stack).

Lemma build_flat_l isg l : Forall (build_spec_t isg) l -> wk_l isg l ->
  forall rest cur stack, build (flat_l isg l ++ rest) (cur :: stack) = build rest ((cur ++ l) :: stack).
Proof.
  induction 1 as [|t r Ht Hr IH]; intros W rest cur stack.
  - simpl. rewrite app_nil_r. reflexivity.
  - destruct W as [Wt Wr]. unfold flat_l. cbn [flat_map]. rewrite <- app_assoc.
    rewrite (Ht Wt). fold (flat_l isg r). rewrite (IH Wr). rewrite <- app_assoc. reflexivity.
Qed.

Lemma build_flat_t isg : forall t, build_spec_t isg t.
Proof.
  apply tree_ind3. intros j ks IH W rest cur stack. apply wk_t_eq in W as [Wl Wk]. cbn [flat_t].
  destruct (isg j) eqn:G.
  - cbn [app build]. rewrite <- app_assoc. fold (flat_l isg ks).
    rewrite (build_flat_l isg ks IH Wk). cbn [app build]. reflexivity.
  - rewrite (Wl eq_refl). reflexivity.
Qed.

(* reading back what was written gives the same nesting, order and identities, for every tree *)
Theorem build_flat isg l : wk_l isg l -> build (flat_l isg l) [[]] = Some l.
Proof.
  intro W. pose proof (build_flat_l isg l) as H. specialize (H (proj2 (Forall_forall _ _) (fun t _ => build_flat_t isg t)) W [] [] []).
  rewrite app_nil_r in H. rewrite H. reflexivity.
Qed.

(* ---------------------------------------------------------------- the two places a file keeps its layers *)
Record file := mkFile { layer_info : list rcd; lr16 : option (list rcd) }.

Definition save (lrfix : bool) (isg : Z -> bool) (f : file) (l : list tree) : file :=
  if lrfix then
    match lr16 f with
    | Some _ => mkFile (layer_info f) (Some (flat_l isg l))     (* de76dec: update what the reader will use *)
    | None => mkFile (flat_l isg l) None
    end
  else mkFile (flat_l isg l) (lr16 f).                          (* the pinned tree: always layer_info *)
Definition reopen (f : file) : option (list tree) :=
  build (match lr16 f with Some r => r | None => layer_info f end) [[]].

Theorem reopen_after_save lrfix isg f l :
  wk_l isg l -> (lrfix = true \/ lr16 f = None) -> reopen (save lrfix isg f l) = Some l.
Proof.
  intros W H. unfold reopen, save. destruct lrfix.
  - destruct (lr16 f); cbn [lr16 layer_info]; apply build_flat, W.
  - destruct H as [H|H]; [discriminate|]. rewrite H. cbn [lr16 layer_info]. apply build_flat, W.
Qed.

(* F-C09-1: a 16/32-bit file (Lr16 block present), edited and saved by the pinned tree, reopens unchanged *)
Theorem save_lr16_drops_edit_refuted :
  exists isg f l, wk_l isg l /\ reopen (save false isg f l) <> Some l.
Proof.
  exists (fun j => j =? 1), (mkFile [] (Some [RLeaf 2; RLeaf 3])), [T 2 []].
  split; [simpl; tauto|]. vm_compute. discriminate.
Qed.
