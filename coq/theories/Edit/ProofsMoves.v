(* Edit/ProofsMoves.v -- C10: from states satisfying the invariant, move_to_group / move_up / move_down
   cannot fail after their remove step, so an error of these operations leaves the tree unchanged too;
   the refusal behaviour of Group.group_layers with the parent among the grouped layers. *)
From PsdV Require Import Base.Prelude Edit.Model Edit.Spec Edit.Inv Edit.Forest Edit.ProofsInv Edit.ProofsKids
  Edit.ProofsRefine Edit.ProofsRefuse.
Open Scope Z_scope.

Lemma subs_child_t : forall t p ks d, In (T p ks) (subs_t t) -> In d ks -> In d (subs_t t).
Proof.
  apply (tree_ind2 (fun t => forall p ks d, In (T p ks) (subs_t t) -> In d ks -> In d (subs_t t))).
  intros j kk IH p ks d H Hd. cbn [subs_t] in *. destruct H as [H|H].
  - inversion H; subst. right. apply in_flat_map. exists d. split; [exact Hd | apply subs_self].
  - right. apply in_flat_map in H as [c [Hc Hin]]. apply in_flat_map. exists c. split; [exact Hc|].
    rewrite Forall_forall in IH. apply (IH c Hc p ks d Hin Hd).
Qed.
Lemma subs_child l p ks d : In (T p ks) (subs_l l) -> In d ks -> In d (subs_l l).
Proof.
  unfold subs_l. intros H Hd. apply in_flat_map in H as [t [Ht Hin]]. apply in_flat_map. exists t.
  split; [exact Ht | apply (subs_child_t t p ks d Hin Hd)].
Qed.
Lemma child_found l p ks d : NoDup (ids_l l) -> find_l p l = Some (T p ks) -> In d ks -> find_l (tid d) l = Some d.
Proof.
  intros N F Hd. apply subs_found; [exact N|]. apply (subs_child l p ks d); [apply (find_l_subs _ _ _ F) | exact Hd].
Qed.

(* unlisting x does not touch what is below x *)
Lemma unlist_subtree s x : Good s -> subtree (unlist_from_parent s x) x = subtree s x.
Proof.
  intros [HI Q]. pose proof (inv_nodup s HI) as N. unfold unlist_from_parent.
  destruct (oparent (objs s x)) as [p|]; [|reflexivity].
  destruct (memz x (kid_ids s p)) eqn:M; [|reflexivity].
  unfold do_remove. destruct (index_of_mem x _ M) as [k Hk]. rewrite Hk. cbn [fst].
  unfold kid_ids in Hk. destruct (index_of_nth x _ k Hk) as [d [Hd Ed]].
  destruct (listed_edge s p x M) as [Hpin _].
  pose proof (child_found _ _ _ d N (found_node s p Hpin) (nth_error_In _ _ Hd)) as Fd. rewrite Ed in Fd.
  assert (E1 : subtree s x = d) by (unfold subtree; rewrite Fd; reflexivity).
  destruct (detach_at_facts s p k N) as [_ [_ [_ [_ [_ [_ [_ R]]]]]]].
  pose proof (detach_at_inv s p k HI) as HI1.
  pose proof (subtree_root (detach_at s p k) d (inv_nodup _ HI1) (R d Hd)) as E2. rewrite Ed in E2.
  rewrite E1. unfold subtree in *. rewrite mark_dirty_roots. exact E2.
Qed.

Lemma descendants_subtree s s' x : quiet s -> quiet s' -> subtree s' x = subtree s x -> descendants s' x = descendants s x.
Proof.
  intros Q Q' E. rewrite (descendants_quiet s x Q), (descendants_quiet s' x Q'). unfold kids_of. rewrite E. reflexivity.
Qed.

Lemma fail_fmt_fails : forall l s c, exists c1, snd (fail_fmt s l c) = Fail c1.
Proof.
  induction l as [|y r IH]; intros s c; simpl; [eexists; reflexivity|].
  destruct (repr_touch s y) as [s1 [|]]; [apply IH | eexists; reflexivity].
Qed.

(* ---------------------------------------------------------------- move_to_group *)
Lemma do_move_to_group_fail_early s x g c : Good s -> alloc_ok s x -> alloc_ok s g -> is_layer s x = true ->
  snd (do_move_to_group s x g) = Fail c ->
  is_container s g = false \/ g = x \/ (kind s x = KGroup /\ In g (descendants s x)).
Proof.
  intros G Hx Hg L HF. unfold do_move_to_group in HF.
  destruct (is_container s g) eqn:C; cbn [negb] in HF; [|left; reflexivity].
  destruct (g =? x) eqn:E; [right; left; apply Z.eqb_eq; exact E|].
  destruct ((kind s x =? KGroup) && memz g (descendants s x)) eqn:D.
  { right. right. apply andb_true_iff in D as [K M]. split; [apply Z.eqb_eq; exact K | apply memz_In; exact M]. }
  exfalso.
  destruct (unlist_ok s x G Hx) as [[G1 [K1 _]] _].
  pose proof (unlist_subtree s x G) as Es. set (s1 := unlist_from_parent s x) in *.
  unfold do_append in HF. rewrite Z.eqb_sym, E in HF. unfold do_extend in HF.
  assert (CV : check_valid s1 g [x] = None).
  { cbn [check_valid]. rewrite (kn_layer _ _ _ K1 Hx), L. cbn [negb].
    rewrite (Z.eqb_sym x g), E, andb_false_r.
    assert (Ek : kind s1 x = kind s x) by (unfold kind; apply (proj2 (proj2 K1)); exact Hx).
    rewrite Ek, (descendants_subtree s s1 x (proj2 G) (proj2 G1) Es), D. reflexivity. }
  rewrite CV in HF. cbn [memz existsb] in HF. rewrite E in HF. cbn in HF. discriminate.
Qed.

Theorem move_to_group_refused_unchanged_all s x g c :
  Good s -> alloc_ok s x -> alloc_ok s g -> snd (step s (MoveToGroup x g)) = Fail c ->
  same_tree s (fst (step s (MoveToGroup x g))).
Proof.
  intros G Hx Hg HF. pose proof G as [[_ [_ [_ [_ [_ [Cor _]]]]]] _]. unfold step in *. rewrite Cor in *.
  cbn [needs_container needs_layer] in *. destruct (is_layer s x) eqn:L; cbn [negb] in *; [|apply st_refl].
  destruct (do_move_to_group_fail_early s x g c G Hx Hg L HF) as [H|[H|[K D]]]; unfold do_move_to_group.
  - rewrite H. apply st_refl.
  - subst. destruct (negb (is_container s x)); [apply st_refl|]. rewrite Z.eqb_refl. apply st_refl.
  - destruct (negb (is_container s g)); [apply st_refl|]. destruct (g =? x); [apply st_refl|].
    apply Z.eqb_eq in K. apply memz_In in D. rewrite K, D. apply st_fail_fmt.
Qed.

(* ---------------------------------------------------------------- move_up / move_down *)
Lemma do_move_up_fail_early s x off c : Good s -> alloc_ok s x ->
  snd (do_move_up s x off) = Fail c ->
  oparent (objs s x) = None \/ (exists p, oparent (objs s x) = Some p /\ index_of x (kid_ids s p) = None).
Proof.
  intros G Hx HF. unfold do_move_up in HF. destruct (oparent (objs s x)) as [p|] eqn:P; [|left; reflexivity].
  destruct (index_of x (kid_ids s p)) as [k|] eqn:I; [|right; exists p; auto]. exfalso.
  assert (M : memz x (kid_ids s p) = true).
  { unfold kid_ids in *. destruct (index_of_nth x _ k I) as [d [Hd Ed]]. apply memz_In. rewrite <- Ed.
    apply in_map. apply nth_error_In with (n := k). exact Hd. }
  destruct G as [HI Q]. pose proof (inv_nodup s HI) as N.
  destruct (listed_edge s p x M) as [Hpin He]. pose proof (proj2 (alloc_in_forest s p HI) Hpin) as Hp.
  pose proof (found_node s p Hpin) as Fp.
  assert (Hxp : x <> p).
  { intro E. subst. apply (node_not_below _ _ _ N Fp). destruct (edges_l_in_ids _ _ _ He) as [_ _].
    apply memz_In in M. apply in_map_iff in M as [y [Ey Hy]]. apply In_ids_l. exists y. split; [exact Hy|]. rewrite <- Ey. apply tid_in_ids. }
  pose proof (do_remove_ok s p x (conj HI Q)) as [G1 [K1 _]].
  assert (Es : subtree (fst (do_remove s p x)) x = subtree s x).
  { pose proof (unlist_subtree s x (conj HI Q)) as U. unfold unlist_from_parent in U.
    destruct (listed_has_parent s p x HI He) as [Pp _]. rewrite Pp, M in U. exact U. }
  set (s1 := fst (do_remove s p x)) in *.
  unfold do_insert in HF. apply Z.eqb_neq in Hxp. rewrite Hxp in HF.
  assert (CV : check_valid s1 p [x] = None).
  { cbn [check_valid].
    assert (Lx : is_layer s x = true).
    { destruct HI as [_ [_ [_ [Hk _]]]]. rewrite Forall_forall in Hk. apply (Hk _ He). }
    rewrite (kn_layer _ _ _ K1 Hx), Lx. cbn [negb]. rewrite Hxp, andb_false_r.
    rewrite (descendants_subtree s s1 x Q (proj2 G1) Es), (descendants_quiet s x Q).
    assert (Hn : memz p (ids_l (kids_of s x)) = false).
    { apply memz_false_notin. intro Hin. apply (node_not_below _ _ _ N Fp).
      (* x's subtree lies below p *)
      unfold kid_ids in I. destruct (index_of_nth x _ k I) as [d [Hd Ed]].
      pose proof (child_found _ _ _ d N Fp (nth_error_In _ _ Hd)) as Fd. rewrite Ed in Fd.
      unfold kids_of, subtree in Hin. rewrite Fd in Hin.
      apply In_ids_l. exists d. split; [apply (nth_error_In _ _ Hd)|]. destruct d as [j kk]. rewrite ids_t_eq. right. exact Hin. }
    rewrite Hn, andb_false_r. reflexivity. }
  rewrite CV in HF. cbn in HF. discriminate.
Qed.

Theorem move_up_refused_unchanged s x off c :
  Good s -> alloc_ok s x -> snd (step s (MoveUp x off)) = Fail c -> same_tree s (fst (step s (MoveUp x off))).
Proof.
  intros G Hx HF. pose proof G as [[_ [_ [_ [_ [_ [Cor _]]]]]] _]. unfold step in *. rewrite Cor in *.
  cbn [needs_container needs_layer] in *. destruct (is_layer s x); cbn [negb] in *; [|apply st_refl].
  destruct (do_move_up_fail_early s x off c G Hx HF) as [P|[p [P I]]]; unfold do_move_up; rewrite P.
  - apply st_refl.
  - rewrite I. apply st_fail_fmt.
Qed.
Theorem move_down_refused_unchanged s x off c :
  Good s -> alloc_ok s x -> snd (step s (MoveDown x off)) = Fail c -> same_tree s (fst (step s (MoveDown x off))).
Proof.
  intros G Hx HF. pose proof G as [[_ [_ [_ [_ [_ [Cor _]]]]]] _]. unfold step in *. rewrite Cor in *.
  cbn [needs_container needs_layer] in *. destruct (is_layer s x); cbn [negb] in *; [|apply st_refl].
  destruct (do_move_up_fail_early s x (- off) c G Hx HF) as [P|[p [P I]]]; unfold do_move_up; rewrite P.
  - apply st_refl.
  - rewrite I. apply st_fail_fmt.
Qed.

(* ---------------------------------------------------------------- Group.group_layers *)
Lemma root_not_below s n x : Good s -> rootid s n -> ~ In n (descendants s x).
Proof.
  intros [HI Q] Rn. rewrite (descendants_quiet s x Q). intro Hin. pose proof (inv_nodup s HI) as N.
  destruct (in_dec Z.eq_dec x (ids_l (roots s))) as [Hx|Hx]; [|rewrite (kids_of_notin s x Hx) in Hin; exact Hin].
  pose proof (found_node s x Hx) as F. destruct (find_l_sub _ _ _ F) as [_ [_ Sub]].
  destruct (root_or_child _ _ Hin) as [Hr|[a Ha]].
  - apply (root_not_child (roots s) x n N Rn). apply (kids_are_edges _ _ _ _ F Hr).
  - apply (root_not_child (roots s) a n N Rn). apply Sub. rewrite edges_t_eq, in_app_iff. right. exact Ha.
Qed.

Lemma move_all_done n : forall xs st, Good st -> alloc_ok st n -> rootid st n -> is_container st n = true ->
  Forall (fun x => alloc_ok st x /\ is_layer st x = true /\ x <> n) xs ->
  exists v, snd (move_all st xs n) = Done v.
Proof.
  induction xs as [|x r IH]; intros st G An Rn Cn HF; [eexists; reflexivity|].
  inversion HF as [|? ? [Ax [Lx Nx]] HFr]; subst. simpl.
  pose proof (do_move_to_group_ok st x n G Ax An) as [G1 [K1 R1]].
  destruct (do_move_to_group st x n) as [s1 [w|c]] eqn:E; cbn [fst] in *.
  - apply IH; [exact G1 | apply (kn_alloc _ _ _ K1 An) | apply R1; [exact Rn | intros [H|[]]; congruence]
               | rewrite (kn_container _ _ _ K1 An); exact Cn|].
    eapply Forall_impl; [|exact HFr]. intros y [Ay [Ly Ny]]. split; [apply (kn_alloc _ _ _ K1 Ay)|].
    split; [rewrite (kn_layer _ _ _ K1 Ay); exact Ly | exact Ny].
  - exfalso. assert (HF1 : snd (do_move_to_group st x n) = Fail c) by (rewrite E; reflexivity).
    destruct (do_move_to_group_fail_early st x n c G Ax An Lx HF1) as [H|[H|[_ H]]].
    + congruence.
    + congruence.
    + exact (root_not_below st n x G Rn H).
Qed.

(* When Group.group_layers of existing layers answers an error, the layers HAVE been moved into the new
   group (every child list is what moving them gives) and the error comes from the final parent.append(group):
   it is raised exactly when the resolved parent lies inside the new group.  [s2] is the state after the moves. *)
Theorem group_layers_refusal s x0 r parent c :
  Good s -> Forall (fun x => alloc_ok s x /\ is_layer s x = true) (x0 :: r) -> (forall p, parent = Some p -> alloc_ok s p) ->
  snd (step s (GroupLayers (x0 :: r) parent)) = Fail c ->
  let n := next s in
  let s2 := fst (move_all (alloc s new_group_obj) (x0 :: r) n) in
  (exists p, match parent with Some q => Some q | None => oparent (objs s x0) end = Some p
             /\ is_container s p = true /\ In p (descendants s2 n))
  /\ (forall a, kid_ids (fst (step s (GroupLayers (x0 :: r) parent))) a
                = sp_move_all (all_ids s ++ [n]) (kid_ids s) (x0 :: r) n a).
Proof.
  intros G Hxs Hp HF n s2. pose proof G as [HI Q]. pose proof HI as [_ [_ [_ [_ [_ [Cor [H7 H8]]]]]]].
  unfold step in HF |- *. rewrite Cor in *. cbn [needs_container needs_layer] in *. unfold do_group_layers in *.
  set (xs := x0 :: r) in *.
  set (par := match parent with Some q => Some q | None => oparent (objs s x0) end) in *.
  assert (Hpar : forall p, par = Some p -> alloc_ok s p).
  { intros p Ep. unfold par in Ep. destruct parent as [q|]; [inversion Ep; subst; apply Hp; reflexivity|].
    rewrite Forall_forall in H7. inversion Hxs as [|? ? [A0 _] _]; subst.
    specialize (H7 x0 (proj2 (all_ids_In s x0) A0)). unfold parent_alloc in H7. rewrite Ep in H7. exact H7. }
  destruct (alloc_step s new_group_obj G eq_refl eq_refl) as [[G1 [K1 R1]] [Rn [An On]]].
  set (s1 := alloc s new_group_obj) in *. fold n in Rn, An, On, HF |- *.
  assert (Cn : is_container s1 n = true) by (unfold is_container, kind; rewrite On; reflexivity).
  assert (HF1 : Forall (fun x => alloc_ok s1 x /\ is_layer s1 x = true /\ x <> n) xs).
  { eapply Forall_impl; [|exact Hxs]. intros y [Ay Ly]. split; [apply (kn_alloc _ _ _ K1 Ay)|].
    split; [rewrite (kn_layer _ _ _ K1 Ay); exact Ly | unfold alloc_ok, n in *; lia]. }
  destruct (move_all_done n xs s1 G1 An Rn Cn HF1) as [w Hw].
  assert (HFa : Forall (fun x => alloc_ok s1 x) xs) by (eapply Forall_impl; [|exact HF1]; intros y [A _]; exact A).
  pose proof (move_all_kids n xs s1 w G1 An HFa Hw) as Km.
  destruct (move_all_ok n xs s1 G1 An Rn) as [[G2 [K2 R2]] Rn2].
  { eapply Forall_impl; [|exact HF1]. intros y [A [_ B]]. auto. }
  fold s2 in Km, G2, K2, R2, Rn2.
  assert (Ks2 : forall a, kid_ids s2 a = sp_move_all (all_ids s ++ [n]) (kid_ids s) xs n a).
  { intro a. rewrite Km. unfold s1 at 1. rewrite (all_ids_alloc s new_group_obj H8). fold n.
    apply sp_move_all_ext. intro b. apply alloc_kids, HI. }
  destruct (move_all s1 xs n) as [s2' [w'|c']] eqn:E; cbn [snd fst] in *; [|discriminate]. subst s2.
  destruct par as [p|] eqn:Epar; [|discriminate].
  assert (Ap : alloc_ok s p) by (apply Hpar; reflexivity).
  assert (Ap2 : alloc_ok s2' p) by (apply (kn_alloc _ _ _ K2), (kn_alloc _ _ _ K1), Ap).
  assert (Ec : is_container s2' p = is_container s p).
  { rewrite (kn_container _ _ _ K2 (kn_alloc _ _ _ K1 Ap)). apply (kn_container _ _ _ K1 Ap). }
  rewrite Ec in HF |- *. destruct (is_container s p) eqn:C; [|discriminate].
  rewrite fst_relabel.
  unfold do_append in *. assert (Hnp : (n =? p) = false) by (apply Z.eqb_neq; unfold alloc_ok, n in *; lia).
  rewrite Hnp in *. unfold do_extend in *.
  destruct (check_valid s2' p [n]) as [bad|] eqn:CV.
  - split.
    + exists p. split; [reflexivity|]. split; [exact C|].
      cbn [check_valid] in CV.
      assert (Ln : is_layer s2' n = true).
      { rewrite (kn_layer _ _ _ K2 An). unfold is_layer, kind. rewrite On. reflexivity. }
      rewrite Ln, Hnp, andb_false_r in CV. cbn [negb] in CV.
      destruct ((kind s2' n =? KGroup) && memz p (descendants s2' n)) eqn:D; [|discriminate].
      apply andb_true_iff in D as [_ D]. apply memz_In. exact D.
    + intro a. rewrite <- Ks2. apply kids_eq_roots. apply (ps_roots _ _ (check_fail_ptr s2' p bad)).
  - exfalso. cbn [memz existsb] in HF. rewrite Z.eqb_sym, Hnp in HF. cbn in HF. discriminate.
Qed.
