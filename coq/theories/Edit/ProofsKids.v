(* Edit/ProofsKids.v -- what the forest primitives do to the child-id list of every object
   (the bridge between the forest of the model and plain lists of ids). *)
From PsdV Require Import Base.Prelude Edit.Model Edit.Spec Edit.Inv Edit.Forest Edit.ProofsInv.
Open Scope Z_scope.

(* every node of the tree lists (by id) what L says *)
Fixpoint cons_t (L : Z -> list Z) (t : tree) : Prop :=
  match t with T j ks => map tid ks = L j /\ (fix all (l : list tree) : Prop :=
                                               match l with [] => True | x :: r => cons_t L x /\ all r end) ks end.
Fixpoint cons_l (L : Z -> list Z) (l : list tree) : Prop :=
  match l with [] => True | x :: r => cons_t L x /\ cons_l L r end.
Lemma cons_t_eq L j ks : cons_t L (T j ks) <-> map tid ks = L j /\ cons_l L ks.
Proof.
  cbn [cons_t]. assert (E : forall l, (fix all (l : list tree) : Prop :=
      match l with [] => True | x :: r => cons_t L x /\ all r end) l <-> cons_l L l).
  { induction l as [|x r IH]; cbn [cons_l]; [tauto|]. rewrite IH. tauto. }
  rewrite E. tauto.
Qed.
Lemma cons_l_app L a b : cons_l L (a ++ b) <-> cons_l L a /\ cons_l L b.
Proof. induction a as [|x r IH]; cbn [cons_l app]; [tauto|]. rewrite IH. tauto. Qed.
Lemma cons_l_In L l t : cons_l L l -> In t l -> cons_t L t.
Proof. induction l as [|x r IH]; intros H Hi; [contradiction|]. destruct H, Hi; subst; auto. Qed.
Lemma cons_l_forall L l : (forall t, In t l -> cons_t L t) -> cons_l L l.
Proof.
  induction l as [|x r IH]; intro H; cbn [cons_l]; [exact I|].
  split; [apply H; left; reflexivity | apply IH; intros; apply H; right; assumption].
Qed.
Lemma cons_l_split L l k : cons_l L l <-> cons_l L (firstn k l) /\ cons_l L (skipn k l).
Proof. rewrite <- cons_l_app, firstn_skipn. tauto. Qed.

(* L and L' agree on the ids of the tree *)
Lemma cons_t_ext L L' : forall t, (forall a, In a (ids_t t) -> L' a = L a) -> cons_t L t -> cons_t L' t.
Proof.
  apply (tree_ind2 (fun t => (forall a, In a (ids_t t) -> L' a = L a) -> cons_t L t -> cons_t L' t)).
  intros j ks IH Hag H. rewrite cons_t_eq in *. destruct H as [A B]. split.
  - rewrite Hag; [exact A | rewrite ids_t_eq; left; reflexivity].
  - apply cons_l_forall. intros t Ht. rewrite Forall_forall in IH. apply (IH t Ht).
    + intros a Ha. apply Hag. rewrite ids_t_eq. right. apply In_ids_l. exists t. auto.
    + apply (cons_l_In L ks); assumption.
Qed.

(* what find returns obeys L *)
Lemma cons_find_t L : forall t g u, cons_t L t -> find_t g t = Some u -> cons_t L u.
Proof.
  apply (tree_ind2 (fun t => forall g u, cons_t L t -> find_t g t = Some u -> cons_t L u)).
  intros j ks IH g u H F. simpl find_t in F. destruct (j =? g); [inversion F; subst; exact H|].
  apply cons_t_eq in H as [_ B]. clear j.
  induction ks as [|y r IHr]; [discriminate|]. rewrite first_some_cons in F. inversion IH; subst.
  destruct B as [By Br]. destruct (find_t g y) eqn:Fy.
  - inversion F; subst. apply (H1 g u By Fy).
  - apply IHr; assumption.
Qed.
Lemma cons_find_l L l g u : cons_l L l -> find_l g l = Some u -> cons_t L u.
Proof.
  unfold find_l. induction l as [|y r IH]; intros H F; [discriminate|].
  rewrite first_some_cons in F. destruct H as [Hy Hr]. destruct (find_t g y) eqn:Fy.
  - inversion F; subst. apply (cons_find_t L y g u Hy Fy).
  - apply IH; assumption.
Qed.

Definition kidsL (l : list tree) (a : Z) : list Z :=
  map tid (tkids (match find_l a l with Some t => t | None => T a [] end)).
Lemma kid_ids_kidsL s a : kid_ids s a = kidsL (roots s) a.
Proof. reflexivity. Qed.

Lemma cons_kids L l a : cons_l L l -> In a (ids_l l) -> kidsL l a = L a.
Proof.
  intros H Hin. unfold kidsL. destruct (find_l_in l a Hin) as [u F]. rewrite F.
  pose proof (cons_find_l L l a u H F) as C. pose proof (find_l_node _ _ _ F) as E. rewrite E in C.
  apply cons_t_eq in C as [A _]. exact A.
Qed.
Lemma kidsL_notin l a : ~ In a (ids_l l) -> kidsL l a = [].
Proof. intro H. unfold kidsL. rewrite (find_l_notin l a H). reflexivity. Qed.

(* a duplicate-free forest obeys its own child lists *)
Fixpoint subs_t (t : tree) : list tree := match t with T j ks => t :: flat_map subs_t ks end.
Definition subs_l (l : list tree) : list tree := flat_map subs_t l.
Lemma subs_tids : forall t, map tid (subs_t t) = ids_t t.
Proof.
  apply tree_ind2. intros j ks IH. cbn [subs_t map tid ids_t]. f_equal.
  induction ks as [|y r IHr]; [reflexivity|]. inversion IH; subst. cbn [flat_map]. rewrite map_app, H1, IHr by assumption. reflexivity.
Qed.
Lemma subs_l_tids l : map tid (subs_l l) = ids_l l.
Proof. induction l as [|y r IH]; [reflexivity|]. unfold subs_l, ids_l in *. cbn [flat_map]. rewrite map_app, subs_tids, IH. reflexivity. Qed.
Lemma subs_self t : In t (subs_t t).
Proof. destruct t. left. reflexivity. Qed.
Lemma find_t_subs : forall t g u, find_t g t = Some u -> In u (subs_t t).
Proof.
  apply (tree_ind2 (fun t => forall g u, find_t g t = Some u -> In u (subs_t t))).
  intros j ks IH g u F. simpl find_t in F. destruct (j =? g); [inversion F; left; reflexivity|].
  right. induction ks as [|y r IHr]; [discriminate|]. rewrite first_some_cons in F. inversion IH; subst.
  cbn [flat_map]. apply in_or_app. destruct (find_t g y) eqn:Fy.
  - inversion F; subst. left. apply (H1 g u Fy).
  - right. apply IHr; assumption.
Qed.
Lemma find_l_subs l g u : find_l g l = Some u -> In u (subs_l l).
Proof.
  unfold find_l, subs_l. induction l as [|y r IH]; intro F; [discriminate|].
  rewrite first_some_cons in F. cbn [flat_map]. apply in_or_app. destruct (find_t g y) eqn:Fy.
  - inversion F; subst. left. apply (find_t_subs y g u Fy).
  - right. apply IH. exact F.
Qed.
Lemma subs_found l u : NoDup (ids_l l) -> In u (subs_l l) -> find_l (tid u) l = Some u.
Proof.
  intros N Hu. assert (Hin : In (tid u) (ids_l l)) by (rewrite <- subs_l_tids; apply in_map; exact Hu).
  destruct (find_l_in l _ Hin) as [v F]. rewrite F. f_equal.
  apply (tid_inj_NoDup (subs_l l)); [rewrite subs_l_tids; exact N | apply (find_l_subs _ _ _ F) | exact Hu|].
  destruct (find_l_sub _ _ _ F) as [E _]. exact E.
Qed.
Lemma cons_of_subs L : forall t, (forall u, In u (subs_t t) -> map tid (tkids u) = L (tid u)) -> cons_t L t.
Proof.
  apply (tree_ind2 (fun t => (forall u, In u (subs_t t) -> map tid (tkids u) = L (tid u)) -> cons_t L t)).
  intros j ks IH H. apply cons_t_eq. split; [apply (H (T j ks)); left; reflexivity|].
  apply cons_l_forall. intros t Ht. rewrite Forall_forall in IH. apply (IH t Ht).
  intros u Hu. apply H. right. apply in_flat_map. exists t. auto.
Qed.
Lemma self_consistent l : NoDup (ids_l l) -> cons_l (kidsL l) l.
Proof.
  intro N. apply cons_l_forall. intros t Ht. apply cons_of_subs. intros u Hu.
  assert (Hul : In u (subs_l l)) by (unfold subs_l; apply in_flat_map; exists t; auto).
  unfold kidsL. rewrite (subs_found l u N Hul). reflexivity.
Qed.

(* ---------------------------------------------------------------- upd keeps consistency *)
Lemma cons_upd L L' g f :
  (forall a, a <> g -> L' a = L a) ->
  (forall ks, cons_l L' ks -> map tid ks = L g -> map tid (f ks) = L' g /\ cons_l L' (f ks)) ->
  forall t, cons_t L t -> cons_t L' (upd_t g f t).
Proof.
  intros Hag Hf. apply (tree_ind2 (fun t => cons_t L t -> cons_t L' (upd_t g f t))).
  intros j ks IH H. apply cons_t_eq in H as [A B]. simpl upd_t.
  assert (C : cons_l L' (map (upd_t g f) ks)).
  { apply cons_l_forall. intros t Ht. apply in_map_iff in Ht as [t0 [E Ht0]]. subst.
    rewrite Forall_forall in IH. apply (IH t0 Ht0). apply (cons_l_In L ks); assumption. }
  assert (Mt : map tid (map (upd_t g f) ks) = map tid ks).
  { rewrite map_map. apply map_ext. intro. apply upd_t_tid. }
  destruct (j =? g) eqn:E.
  - apply Z.eqb_eq in E. subst j. destruct (Hf _ C (eq_trans Mt A)) as [F1 F2]. apply cons_t_eq. split; assumption.
  - apply Z.eqb_neq in E. apply cons_t_eq. split; [rewrite Mt, (Hag j E); exact A | exact C].
Qed.
Lemma cons_upd_l L L' g f l :
  (forall a, a <> g -> L' a = L a) ->
  (forall ks, cons_l L' ks -> map tid ks = L g -> map tid (f ks) = L' g /\ cons_l L' (f ks)) ->
  cons_l L l -> cons_l L' (upd_l g f l).
Proof.
  intros Hag Hf H. apply cons_l_forall. intros t Ht. unfold upd_l in Ht. apply in_map_iff in Ht as [t0 [E Ht0]]. subst.
  apply (cons_upd L L' g f Hag Hf). apply (cons_l_In L l); assumption.
Qed.


(* ---------------------------------------------------------------- the two primitives *)
Lemma map_tid_splice (ks : list tree) k (m : list tree) :
  map tid (splice ks k m) = splice (map tid ks) k (map tid m).
Proof. unfold splice. rewrite !map_app, firstn_map, skipn_map. reflexivity. Qed.
Lemma map_tid_del_nth (ks : list tree) k : map tid (del_nth ks k) = del_nth (map tid ks) k.
Proof. unfold del_nth. rewrite map_app, firstn_map, skipn_map. reflexivity. Qed.

Lemma attach1_kids s g k tx :
  NoDup (ids_l (roots s)) -> In tx (roots s) -> In g (ids_l (roots s)) -> ~ In g (ids_t tx) ->
  forall a, kid_ids (attach1 s g k (tid tx)) a = updL (kid_ids s) g (splice (kid_ids s g) k [tid tx]) a.
Proof.
  intros N Htx Hg Hng a.
  destruct (attach1_facts s g k tx N Htx Hg Hng) as [_ [_ [_ [_ [Acnt _]]]]].
  set (L := kidsL (roots s)). set (L' := updL L g (splice (L g) k [tid tx])).
  assert (C' : cons_l L' (roots (attach1 s g k (tid tx)))).
  { unfold attach1, set_roots. cbn [roots]. rewrite (subtree_root s tx N Htx).
    assert (C1 : cons_l L' (upd_l g (fun ks => splice ks k [tx]) (roots s))).
    { apply (cons_upd_l L L' g); [| |apply self_consistent, N].
      - intros b Hb. unfold L', updL. apply Z.eqb_neq in Hb. rewrite Hb. reflexivity.
      - intros ks Ck Mk. split.
        + rewrite map_tid_splice, Mk. unfold L', updL. rewrite Z.eqb_refl. reflexivity.
        + unfold splice. rewrite !cons_l_app. apply (cons_l_split L' ks k) in Ck as [C1 C2].
          split; [exact C1|]. split; [|exact C2]. cbn [cons_l]. split; [|exact I].
          apply (cons_t_ext L L').
          * intros b Hb. unfold L', updL. destruct (b =? g) eqn:E; [|reflexivity]. apply Z.eqb_eq in E. subst. contradiction.
          * apply (cons_l_In L (roots s)); [apply self_consistent, N | exact Htx]. }
    apply cons_l_forall. intros t Ht. unfold drop_roots in Ht. apply filter_In in Ht as [Ht _].
    apply (cons_l_In L' _ t C1 Ht). }
  change (kid_ids s) with L. rewrite kid_ids_kidsL. fold L'.
  destruct (in_dec Z.eq_dec a (ids_l (roots s))) as [Ha|Hna].
  - apply (cons_kids L' _ a C'). apply (cnt_same_In _ _ Acnt). exact Ha.
  - rewrite kidsL_notin; [|intro H; apply Hna; apply (cnt_same_In _ _ Acnt); exact H].
    unfold L', updL. destruct (a =? g) eqn:E; [apply Z.eqb_eq in E; subst; contradiction|].
    unfold L. rewrite (kidsL_notin (roots s) a Hna). reflexivity.
Qed.

Lemma del_nth_oob {A} (l : list A) k : nth_error l k = None -> del_nth l k = l.
Proof.
  intro H. apply nth_error_None in H. unfold del_nth. rewrite firstn_all2 by exact H.
  rewrite skipn_all2 by lia. apply app_nil_r.
Qed.

Lemma detach_at_kids s g k : NoDup (ids_l (roots s)) ->
  forall a, kid_ids (detach_at s g k) a = updL (kid_ids s) g (del_nth (kid_ids s g) k) a.
Proof.
  intros N a. unfold detach_at. destruct (nth_error (kids_of s g) k) as [d|] eqn:E.
  2:{ unfold updL. destruct (a =? g) eqn:Ea; [|reflexivity]. apply Z.eqb_eq in Ea. subst.
      unfold kid_ids. rewrite <- map_tid_del_nth, (del_nth_oob _ _ E). reflexivity. }
  assert (Hg : In g (ids_l (roots s))).
  { destruct (in_dec Z.eq_dec g (ids_l (roots s))) as [|Hn]; [assumption|].
    rewrite (kids_of_notin s g Hn) in E. destruct k; discriminate. }
  pose proof (found_node s g Hg) as F.
  assert (Acnt : forall y, cnt y (ids_l (roots (detach_at s g k))) = cnt y (ids_l (roots s))).
  { apply (detach_at_facts s g k N). }
  unfold detach_at in Acnt. rewrite E in Acnt.
  set (L := kidsL (roots s)). set (L' := updL L g (del_nth (L g) k)).
  assert (Hd : In d (kids_of s g)) by (apply nth_error_In with (n := k); exact E).
  assert (Hdg : ~ In g (ids_t d)).
  { intro H. apply (node_not_below _ _ _ N F). apply In_ids_l. exists d. auto. }
  assert (Cd : cons_t L d).
  { pose proof (cons_find_l L _ g _ (self_consistent _ N) F) as Cg. apply cons_t_eq in Cg as [_ Ck].
    apply (cons_l_In L _ d Ck Hd). }
  assert (C' : cons_l L' (roots (set_roots s (add_roots [d] (upd_l g (fun ks => del_nth ks k) (roots s)))))).
  { unfold set_roots. cbn [roots]. rewrite add_roots_one.
    assert (C1 : cons_l L' (upd_l g (fun ks => del_nth ks k) (roots s))).
    { apply (cons_upd_l L L' g); [| |apply self_consistent, N].
      - intros b Hb. unfold L', updL. apply Z.eqb_neq in Hb. rewrite Hb. reflexivity.
      - intros ks Ck Mk. split.
        + rewrite map_tid_del_nth, Mk. unfold L', updL. rewrite Z.eqb_refl. reflexivity.
        + unfold del_nth. rewrite cons_l_app. pose proof (proj1 (cons_l_split L' ks k) Ck) as [C1 _].
          pose proof (proj1 (cons_l_split L' ks (S k)) Ck) as [_ C3]. split; assumption. }
    destruct (occ_l (tid d) _); [exact C1|]. rewrite cons_l_app. split; [exact C1|]. cbn [cons_l]. split; [|exact I].
    apply (cons_t_ext L L'); [|exact Cd].
    intros b Hb. unfold L', updL. destruct (b =? g) eqn:Eb; [|reflexivity]. apply Z.eqb_eq in Eb. subst. contradiction. }
  change (kid_ids s) with L. rewrite kid_ids_kidsL. fold L'.
  destruct (in_dec Z.eq_dec a (ids_l (roots s))) as [Ha|Hna].
  - apply (cons_kids L' _ a C'). apply (cnt_same_In _ _ Acnt). exact Ha.
  - rewrite kidsL_notin; [|intro H; apply Hna; apply (cnt_same_In _ _ Acnt); exact H].
    unfold L', updL. destruct (a =? g) eqn:Ea; [apply Z.eqb_eq in Ea; subst; contradiction|].
    unfold L. rewrite (kidsL_notin (roots s) a Hna). reflexivity.
Qed.
