(* Edit/Spec.v -- the specification side of C09: the same operations on plain Python lists.
   One list of ids per container ([lists] : id -> list of child ids), nothing else: no parent or
   document pointers, no caches, no trees.  Objects are addressed by the list that contains them.
   The index arithmetic is Python's (Edit.Model.ins_pos / idx_pos, compared with real Python lists by
   the harness: stream python_list_primitives). *)
From PsdV Require Import Base.Prelude Edit.Model.
Open Scope Z_scope.

Definition lists := Z -> list Z.
Definition updL (L : lists) (g : Z) (v : list Z) : lists := fun a => if a =? g then v else L a.

(* the list that contains x: the first container (in id order) whose list has x *)
Definition sp_container (dom : list Z) (L : lists) (x : Z) : option Z :=
  find (fun g => memz x (L g)) dom.

(* l.remove(x) on the list that contains x, if any *)
Definition sp_unlist (dom : list Z) (L : lists) (x : Z) : lists :=
  match sp_container dom L x with
  | Some p => match index_of x (L p) with
              | Some k => updL L p (del_nth (L p) k)
              | None => L
              end
  | None => L
  end.

Definition sp_clamp (n j : Z) : Z := if j <? 0 then 0 else if j >=? n then n - 1 else j.

Fixpoint sp_move_all (dom : list Z) (L : lists) (xs : list Z) (n : Z) : lists :=
  match xs with
  | [] => L
  | x :: r => let L1 := sp_unlist dom L x in sp_move_all dom (updL L1 n (L1 n ++ [x])) r n
  end.

(* the effect of an accepted operation.  dom: the existing objects; n: the id the next created object
   gets; isc: which objects are containers (groups, documents) *)
Definition sp_apply (dom : list Z) (n : Z) (isc : Z -> bool) (L : lists) (o : op) : lists :=
  match o with
  | Append g x => updL L g (L g ++ [x])                                            (* l.append(x) *)
  | Extend g xs => updL L g (L g ++ xs)                                            (* l.extend(xs) *)
  | Insert g i x => updL L g (splice (L g) (Z.to_nat (ins_pos (zlen (L g)) i)) [x])   (* l.insert(i, x) *)
  | Remove g x => match index_of x (L g) with                                      (* l.remove(x) *)
                  | Some k => updL L g (del_nth (L g) k)
                  | None => L
                  end
  | Pop g i | DelItem g i =>                                                       (* l.pop(i) / del l[i] *)
      match idx_pos (zlen (L g)) i with
      | Some j => updL L g (del_nth (L g) (Z.to_nat j))
      | None => L
      end
  | Clear g => updL L g []                                                         (* l.clear() *)
  | SetItem g i x =>                                                               (* l[i] = x *)
      match idx_pos (zlen (L g)) i with
      | Some j => updL L g (splice (del_nth (L g) (Z.to_nat j)) (Z.to_nat j) [x])
      | None => L
      end
  | DeleteLayer x => sp_unlist dom L x
  | MoveToGroup x g => let L1 := sp_unlist dom L x in updL L1 g (L1 g ++ [x])
  | MoveUp x off | MoveDown x off =>
      let d := match o with MoveDown _ _ => - off | _ => off end in
      match sp_container dom L x with
      | Some p => match index_of x (L p) with
                  | Some k =>
                      let l1 := del_nth (L p) k in
                      updL L p (splice l1 (Z.to_nat (ins_pos (zlen l1) (sp_clamp (zlen (L p)) (Z.of_nat k + d)))) [x])
                  | None => L
                  end
      | None => L
      end
  | NewGroup (Some p) => if isc p then updL L p (L p ++ [n]) else L
  | GroupLayers xs par =>
      match xs with
      | [] => L
      | x0 :: _ =>
          let target := match par with Some p => Some p | None => sp_container dom L x0 end in
          let L2 := sp_move_all (dom ++ [n]) L xs n in     (* the new group exists while the layers move *)
          match target with
          | Some p => if isc p then updL L2 p (L2 p ++ [n]) else L2
          | None => L2
          end
      end
  | _ => L
  end.
