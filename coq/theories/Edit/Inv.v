(* Edit/Inv.v -- the well-formedness invariant of the edit state machine (C10), as
   propositions and as booleans (for computed witnesses), with the reflection lemmas. *)
From PsdV Require Import Base.Prelude Edit.Model.
Open Scope Z_scope.

Fixpoint edges_t (t : tree) : list (Z * Z) :=
  match t with T i ks => map (fun c => (i, tid c)) ks ++ flat_map edges_t ks end.
Definition edges_l (l : list tree) : list (Z * Z) := flat_map edges_t l.

Definition opt_eqb (a b : option Z) : bool :=
  match a, b with
  | None, None => true
  | Some x, Some y => x =? y
  | _, _ => false
  end.
Lemma opt_eqb_eq a b : opt_eqb a b = true <-> a = b.
Proof.
  destruct a, b; simpl; split; intro H; try discriminate; try reflexivity.
  - apply Z.eqb_eq in H. congruence.
  - inversion H. apply Z.eqb_refl.
Qed.

(* I1: a listed child reports the listing container as its parent *)
Definition parent_ok s (e : Z * Z) : Prop := oparent (objs s (snd e)) = Some (fst e).
Definition parent_okb s (e : Z * Z) : bool := opt_eqb (oparent (objs s (snd e))) (Some (fst e)).
Definition I1 s : Prop := Forall (parent_ok s) (edges_l (roots s)).
Definition I1b s : bool := forallb (parent_okb s) (edges_l (roots s)).

(* I2: no object is listed twice, anywhere *)
Definition I2 s : Prop := NoDup (ids_l (roots s)).
Fixpoint nodupb (l : list Z) : bool :=
  match l with [] => true | x :: r => negb (memz x r) && nodupb r end.
Definition I2b s : bool := nodupb (ids_l (roots s)).

(* I3: the document pointer is inherited along every listing edge: a child of a document
   reports that document; a child of a group that reports a document reports the same one.
   (Consequence, [I3_global] in ProofsInv: every layer below a document reports it.) *)
Definition psd_ok s (e : Z * Z) : Prop :=
  let (g, c) := e in
  if kind s g =? KDoc then opsd (objs s c) = Some g
  else match opsd (objs s g) with
       | Some d => opsd (objs s c) = Some d
       | None => True
       end.
Definition psd_okb s (e : Z * Z) : bool :=
  let (g, c) := e in
  if kind s g =? KDoc then opt_eqb (opsd (objs s c)) (Some g)
  else match opsd (objs s g) with
       | Some d => opt_eqb (opsd (objs s c)) (Some d)
       | None => true
       end.
Definition I3 s : Prop := Forall (psd_ok s) (edges_l (roots s)).
Definition I3b s : bool := forallb (psd_okb s) (edges_l (roots s)).

(* W: the representation is sane: containers list layers; every allocated id occurs; ids are allocated *)
Definition kinds_ok s (e : Z * Z) : Prop := is_container s (fst e) = true /\ is_layer s (snd e) = true.
Definition kinds_okb s (e : Z * Z) : bool := is_container s (fst e) && is_layer s (snd e).
Definition parent_alloc s (i : Z) : Prop :=
  match oparent (objs s i) with Some p => 0 <= p < next s | None => True end.
Definition parent_allocb s (i : Z) : bool :=
  match oparent (objs s i) with Some p => (0 <=? p) && (p <? next s) | None => true end.
Definition W s : Prop :=
  Forall (kinds_ok s) (edges_l (roots s))
  /\ (forall i, In i (ids_l (roots s)) <-> 0 <= i < next s)
  /\ corrupt s = false
  /\ Forall (parent_alloc s) (all_ids s)
  /\ 0 <= next s.
Definition Wb s : bool :=
  forallb (kinds_okb s) (edges_l (roots s))
  && forallb (fun i => (0 <=? i) && (i <? next s)) (ids_l (roots s))
  && forallb (fun i => memz i (ids_l (roots s))) (all_ids s)
  && negb (corrupt s)
  && forallb (parent_allocb s) (all_ids s)
  && (0 <=? next s).

Definition Inv s : Prop := I1 s /\ I2 s /\ I3 s /\ W s.
Definition Invb s : bool := I1b s && I2b s && I3b s && Wb s.

(* ---------------------------------------------------------------- reflection *)
Lemma memz_In x l : memz x l = true <-> In x l.
Proof.
  unfold memz. rewrite existsb_exists. split.
  - intros [y [Hy He]]. apply Z.eqb_eq in He. subst. exact Hy.
  - intro H. exists x. split; [exact H | apply Z.eqb_refl].
Qed.

Lemma nodupb_NoDup l : nodupb l = true <-> NoDup l.
Proof.
  induction l as [|x r IH]; simpl.
  - split; [constructor | reflexivity].
  - rewrite andb_true_iff, negb_true_iff, IH. split.
    + intros [H1 H2]. constructor; [|exact H2]. intro Hin. apply memz_In in Hin. congruence.
    + intro H. inversion H; subst. split; [|assumption].
      destruct (memz x r) eqn:E; [|reflexivity]. apply memz_In in E. contradiction.
Qed.

Lemma forallb_Forall_iff {A} (p : A -> bool) (P : A -> Prop) l :
  (forall a, p a = true <-> P a) -> (forallb p l = true <-> Forall P l).
Proof.
  intro H. rewrite forallb_forall, Forall_forall. split; intros G a Ha; apply H, G, Ha.
Qed.

Lemma I1b_iff s : I1b s = true <-> I1 s.
Proof. apply forallb_Forall_iff. intro e. apply opt_eqb_eq. Qed.
Lemma I2b_iff s : I2b s = true <-> I2 s.
Proof. apply nodupb_NoDup. Qed.
Lemma I3b_iff s : I3b s = true <-> I3 s.
Proof.
  apply forallb_Forall_iff. intros [g c]. unfold psd_okb, psd_ok.
  destruct (kind s g =? KDoc); [apply opt_eqb_eq|].
  destruct (opsd (objs s g)); [apply opt_eqb_eq | tauto].
Qed.

Lemma zrange_In a n i : In i (zrange a n) <-> a <= i < a + Z.of_nat n.
Proof.
  revert a; induction n as [|n IH]; intro a; simpl zrange.
  - simpl. lia.
  - simpl In. rewrite IH. lia.
Qed.
Lemma all_ids_In s i : In i (all_ids s) <-> 0 <= i < next s.
Proof. unfold all_ids. rewrite zrange_In. lia. Qed.

Lemma Wb_iff s : Wb s = true <-> W s.
Proof.
  unfold Wb, W. rewrite !andb_true_iff, negb_true_iff.
  rewrite (forallb_Forall_iff (kinds_okb s) (kinds_ok s)).
  2:{ intro e. unfold kinds_okb, kinds_ok. apply andb_true_iff. }
  rewrite (forallb_Forall_iff (parent_allocb s) (parent_alloc s)).
  2:{ intro i. unfold parent_allocb, parent_alloc. destruct (oparent (objs s i)); [|tauto].
      rewrite andb_true_iff, Z.leb_le, Z.ltb_lt. tauto. }
  rewrite !forallb_forall, Z.leb_le. split.
  - intros [[[[[H1 H2] H3] H4] H5] H6]. repeat split; try assumption.
    + apply H2 in H. lia.
    + apply H2 in H. lia.
    + intros H. apply memz_In. apply H3. apply all_ids_In. exact H.
  - intros [H1 [H2 [H3 [H4 H5]]]]. repeat split; try assumption.
    + intros i Hi. apply H2 in Hi. lia.
    + intros i Hi. apply memz_In. apply H2. apply all_ids_In. exact Hi.
Qed.

Lemma Invb_iff s : Invb s = true <-> Inv s.
Proof.
  unfold Invb, Inv. rewrite !andb_true_iff, I1b_iff, I2b_iff, I3b_iff, Wb_iff. tauto.
Qed.
