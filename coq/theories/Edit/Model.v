(* Edit/Model.v -- executable model of the structure-editing API of psd-tools
   (src/psd_tools/api/layers.py: GroupMixin list protocol, Layer.delete_layer /
   move_to_group / move_up / move_down, Group.new / group_layers, the visible /
   left / top / clipping_layer setters, the lazily cached bbox and the
   read-only observers; src/psd_tools/api/psd_image.py: _compute_clipping_layers,
   bbox).  Definitions only.

   Representation.  Every Python object (PSDImage, Group, PixelLayer) is an id
   (allocation order).  The *stored* fields of the objects live in a per-id
   record [obj] ([_parent], [_psd], record.flags.visible, record rectangle,
   [_bbox] cache, [_clip_layers], clipping flag, [_updated_layers]).  The
   [_layers] lists live in a forest of rose trees of ids: documents and every
   detached ("limbo") object are roots.  The same Python object listed twice is
   the same id occurring twice; every list mutation is applied to all
   occurrences of the container id, which is what mutation of the one Python
   list means for the unfolded tree.  A cycle cannot be a rose tree: the one
   cycle-creating path of the code (extend / slice assignment with the group
   itself inside the list argument) yields RecursionError after the list was
   mutated; the model answers [Fail E_RECURSION] and sets [corrupt].

   The model mirrors the code as it is, defects included (no cache
   invalidation on structural edits, stale [_parent] after remove, clip layers
   yielded by descendants(), ...).  The clean specification is Edit/Spec.v. *)
From PsdV Require Import Base.Prelude.
From Coq Require Import Uint63.
Open Scope Z_scope.

(* ------------------------------------------------------------------ trees *)
Inductive tree := T (id : Z) (kids : list tree).
Definition tid (t : tree) : Z := let 'T i _ := t in i.
Definition tkids (t : tree) : list tree := let 'T _ k := t in k.

Definition first_some {A B} (f : A -> option B) :=
  fix go (l : list A) : option B :=
    match l with
    | [] => None
    | x :: r => match f x with Some y => Some y | None => go r end
    end.

Fixpoint find_t (i : Z) (t : tree) : option tree :=
  match t with T j ks => if j =? i then Some t else first_some (find_t i) ks end.
Definition find_l (i : Z) (l : list tree) : option tree := first_some (find_t i) l.

Fixpoint occ_t (i : Z) (t : tree) : bool :=
  match t with T j ks => (j =? i) || existsb (occ_t i) ks end.
Definition occ_l (i : Z) (l : list tree) : bool := existsb (occ_t i) l.

Fixpoint ids_t (t : tree) : list Z :=
  match t with T j ks => j :: flat_map ids_t ks end.
Definition ids_l (l : list tree) : list Z := flat_map ids_t l.

(* apply [f] to the child list of every node whose id is [g] *)
Fixpoint upd_t (g : Z) (f : list tree -> list tree) (t : tree) : tree :=
  match t with
  | T j ks => let ks' := map (upd_t g f) ks in T j (if j =? g then f ks' else ks')
  end.
Definition upd_l (g : Z) (f : list tree -> list tree) (l : list tree) := map (upd_t g f) l.

Definition memz (i : Z) (l : list Z) : bool := existsb (Z.eqb i) l.

(* ------------------------------------------------------------------ Python list semantics *)
Definition zlen {A} (l : list A) : Z := Z.of_nat (length l).

(* list.insert(i, x): negative counts from the end, everything is clamped *)
Definition ins_pos (n i : Z) : Z := if i <? 0 then Z.max 0 (n + i) else Z.min i n.
(* l[i], l.pop(i), del l[i], l[i] = x: negative counts from the end, out of range is IndexError *)
Definition idx_pos (n i : Z) : option Z :=
  let j := if i <? 0 then n + i else i in
  if (0 <=? j) && (j <? n) then Some j else None.

Definition splice {A} (l : list A) (k : nat) (m : list A) : list A := firstn k l ++ m ++ skipn k l.
Definition del_nth {A} (l : list A) (k : nat) : list A := firstn k l ++ skipn (S k) l.

Fixpoint index_of (i : Z) (l : list Z) : option nat :=
  match l with
  | [] => None
  | x :: r => if x =? i then Some O else option_map S (index_of i r)
  end.

(* ------------------------------------------------------------------ objects *)
Definition box := (Z * Z * Z * Z)%type.
Definition box0 : box := (0, 0, 0, 0).
Definition box_eqb (a b : box) : bool :=
  let '(a1, a2, a3, a4) := a in let '(b1, b2, b3, b4) := b in
  (a1 =? b1) && (a2 =? b2) && (a3 =? b3) && (a4 =? b4).
Definition box_list (b : box) : list Z := let '(l, t, r, bt) := b in [l; t; r; bt].

Definition KDoc := 0.
Definition KGroup := 1.
Definition KPixel := 2.

Record obj := mkObj {
  okind : Z;               (* class of the object; never changes *)
  oparent : option Z;      (* _parent *)
  opsd : option Z;         (* _psd *)
  ovis : bool;             (* _record.flags.visible *)
  orect : box;             (* record left, top, right, bottom; for a document (0,0,width,height) *)
  ocache : option box;     (* _bbox of GroupMixin objects *)
  oclips : list Z;         (* _clip_layers *)
  oclipf : bool;           (* _record.clipping == NON_BASE *)
  odirty : bool            (* PSDImage._updated_layers *)
}.
Definition dflt_obj : obj := mkObj (-1) None None true box0 None [] false false.

Definition with_parent p o := mkObj (okind o) p (opsd o) (ovis o) (orect o) (ocache o) (oclips o) (oclipf o) (odirty o).
Definition with_psd p o := mkObj (okind o) (oparent o) p (ovis o) (orect o) (ocache o) (oclips o) (oclipf o) (odirty o).
Definition with_vis v o := mkObj (okind o) (oparent o) (opsd o) v (orect o) (ocache o) (oclips o) (oclipf o) (odirty o).
Definition with_rect r o := mkObj (okind o) (oparent o) (opsd o) (ovis o) r (ocache o) (oclips o) (oclipf o) (odirty o).
Definition with_cache c o := mkObj (okind o) (oparent o) (opsd o) (ovis o) (orect o) c (oclips o) (oclipf o) (odirty o).
Definition with_clips c o := mkObj (okind o) (oparent o) (opsd o) (ovis o) (orect o) (ocache o) c (oclipf o) (odirty o).
Definition with_clipf c o := mkObj (okind o) (oparent o) (opsd o) (ovis o) (orect o) (ocache o) (oclips o) c (odirty o).
Definition with_dirty d o := mkObj (okind o) (oparent o) (opsd o) (ovis o) (orect o) (ocache o) (oclips o) (oclipf o) d.

(* Code variants.  All false = the pinned tree the properties were written against.  Each flag
   mirrors one repair (proposed under /verif/proposed_fixes or already committed to /repo); the
   harness probes the implementation under test and runs the model with the same flags, the
   theorems say which flags they need.
     clipfix: clipping_layer setter always stores the flag, recomputes when _psd is not None   (ee5faa2)
     selffix: _check_valid_layers also refuses the group itself inside the list argument        (543e601)
     descfix: descendants() no longer re-yields clip_layers (each layer visited once)          (b1bb75f)
     clipsfix: _update_psd_record recomputes the clipping stacks; __delitem__ deletes first    (c15_recompute_clipping)
     cachefix: bbox caches dropped upwards incl. the document by setters and structure edits,
               downwards by group visibility and by adoption of members                        (c14_invalidate_bbox) *)
Record cfg := mkCfg { clipfix : bool; selffix : bool; descfix : bool; clipsfix : bool; cachefix : bool }.
Definition cfg0 : cfg := mkCfg false false false false false.

Record state := mkSt {
  objs : Z -> obj;
  next : Z;              (* ids 0 .. next-1 are allocated *)
  roots : list tree;     (* documents and detached objects *)
  corrupt : bool;        (* a list cycle was created; nothing is modelled afterwards *)
  conf : cfg             (* which code variant runs; never changes *)
}.
Definition empty_state_v (c : cfg) : state := mkSt (fun _ => dflt_obj) 0 [] false c.
Definition empty_state : state := empty_state_v cfg0.

Definition set_objs s m := mkSt m (next s) (roots s) (corrupt s) (conf s).
Definition set_roots s r := mkSt (objs s) (next s) r (corrupt s) (conf s).
Definition set_corrupt s := mkSt (objs s) (next s) (roots s) true (conf s).
Definition upd {A} (m : Z -> A) (i : Z) (v : A) : Z -> A := fun j => if j =? i then v else m j.
Definition mod_obj s (i : Z) (f : obj -> obj) := set_objs s (upd (objs s) i (f (objs s i))).
Definition map_objs s (l : list Z) (f : obj -> obj) :=
  set_objs s (fun j => if memz j l then f (objs s j) else objs s j).

Definition kind s i := okind (objs s i).
Definition is_container s g := (kind s g =? KDoc) || (kind s g =? KGroup).   (* isinstance(_, GroupMixin) *)
Definition is_layer s x := (kind s x =? KGroup) || (kind s x =? KPixel).       (* isinstance(_, Layer) *)

Definition subtree s (x : Z) : tree :=
  match find_l x (roots s) with Some t => t | None => T x [] end.
Definition kids_of s (g : Z) : list tree := tkids (subtree s g).
Definition kid_ids s (g : Z) : list Z := map tid (kids_of s g).

(* ------------------------------------------------------------------ forest edits *)
Definition drop_roots (xs : list Z) (rs : list tree) : list tree :=
  filter (fun t => negb (memz (tid t) xs)) rs.
Definition add_roots (ds : list tree) (rs : list tree) : list tree :=
  fold_left (fun r d => if occ_l (tid d) r then r else r ++ [d]) ds rs.

(* list the object x at position k of g._layers; it stops being a root *)
Definition attach1 s (g : Z) (k : nat) (x : Z) : state :=
  set_roots s (drop_roots [x] (upd_l g (fun ks => splice ks k [subtree s x]) (roots s))).
(* list the objects xs (in this order) from position k on *)
Fixpoint attach s (g : Z) (k : nat) (xs : list Z) : state :=
  match xs with
  | [] => s
  | x :: r => attach (attach1 s g k x) g (S k) r
  end.
(* remove the k-th entry of g._layers; the object becomes a root if it is listed nowhere else *)
Definition detach_at s (g : Z) (k : nat) : state :=
  match nth_error (kids_of s g) k with
  | None => s
  | Some d => set_roots s (add_roots [d] (upd_l g (fun ks => del_nth ks k) (roots s)))
  end.
(* g._layers.clear() *)
Fixpoint detach_n s (g : Z) (n : nat) : state :=
  match n with
  | O => s
  | S m => detach_n (detach_at s g 0) g m
  end.
Definition detach_all s (g : Z) : state := detach_n s g (length (kids_of s g)).

(* ------------------------------------------------------------------ outcomes *)
Inductive out := Done (v : list Z) | Fail (code : Z).
Definition E_VALUE := 1.      (* ValueError *)
Definition E_INDEX := 3.      (* IndexError *)
Definition E_ASSERT := 4.     (* AssertionError *)
Definition E_RECURSION := 8.  (* RecursionError *)
Definition E_OTHER := 99.     (* AttributeError: receiver has no such method / read-only property *)
Definition out_canon (o : out) : list Z := match o with Done v => 0 :: v | Fail c => [c] end.

(* ------------------------------------------------------------------ traversal: GroupMixin.descendants *)
(* for layer in self: yield layer; yield from layer.descendants(); yield from layer.clip_layers *)
Fixpoint desc_t (cl : Z -> list Z) (t : tree) : list Z :=
  match t with T i ks => i :: flat_map (desc_t cl) ks ++ cl i end.
Definition clips_of s (i : Z) : list Z := if descfix (conf s) then [] else oclips (objs s i).
Definition descendants s (g : Z) : list Z := flat_map (desc_t (clips_of s)) (kids_of s g).

(* ------------------------------------------------------------------ derived values *)
Definition fuel_of s : nat := S (Z.to_nat (next s)).

(* Layer.is_visible: self.visible and self.parent is not None and self.parent.is_visible() *)
Fixpoint isvis (fuel : nat) s (x : Z) : option bool :=
  match fuel with
  | O => None
  | S f =>
      if kind s x =? KDoc then Some true
      else if negb (ovis (objs s x)) then Some false
      else match oparent (objs s x) with
           | None => Some false
           | Some p => isvis f s p
           end
  end.

Definition bunion (acc : option box) (b : box) : option box :=
  if box_eqb b box0 then acc
  else match acc with
       | None => Some b
       | Some (l, t, r, bt) => let '(l2, t2, r2, b2) := b in
                               Some (Z.min l l2, Z.min t t2, Z.max r r2, Z.max bt b2)
       end.
Definition bunion_all (bs : list box) : box :=
  match fold_left bunion bs None with Some b => b | None => box0 end.
Fixpoint all_some {A} (l : list (option A)) : option (list A) :=
  match l with
  | [] => Some []
  | None :: _ => None
  | Some a :: r => option_map (cons a) (all_some r)
  end.

(* Group.extract_bbox(container).  [vis] answers is_visible (None = RecursionError). *)
Fixpoint ebox (vis : Z -> option bool) (kd : Z -> Z) (rc : Z -> box) (t : tree) : option box :=
  match t with
  | T _ ks =>
      option_map bunion_all
        (all_some (map (fun c =>
           match vis (tid c) with
           | None => None
           | Some false => Some box0                                  (* not in the list: same as an empty box *)
           | Some true => if kd (tid c) =? KPixel then Some (rc (tid c)) else ebox vis kd rc c
           end) ks))
  end.
Definition fresh_bbox s (g : Z) : option box :=
  ebox (isvis (fuel_of s) s) (kind s) (fun i => orect (objs s i)) (subtree s g).

(* GroupMixin.bbox: fill the cache when empty *)
Definition read_bbox s (g : Z) : state * option box :=
  match ocache (objs s g) with
  | Some b => (s, Some b)
  | None => match fresh_bbox s g with
            | None => (s, None)
            | Some b => (mod_obj s g (with_cache (Some b)), Some b)
            end
  end.

(* repr(x), evaluated by the code inside assertion / warning messages ("...{}".format(self)):
   Layer.__repr__ reads width and height, which for a Group reads (and fills) the cached bbox *)
Definition repr_touch s (x : Z) : state * bool :=
  if kind s x =? KGroup then
    match read_bbox s x with
    | (s1, None) => (s1, false)
    | (s1, Some _) => (s1, true)
    end
  else (s, true).
(* an assertion whose message formats the objects xs fails: the message is built first *)
Fixpoint fail_fmt s (xs : list Z) (code : Z) : state * out :=
  match xs with
  | [] => (s, Fail code)
  | x :: r => match repr_touch s x with
              | (s1, false) => (s1, Fail E_RECURSION)
              | (s1, true) => fail_fmt s1 r code
              end
  end.

(* PSDImage._compute_clipping_layers (default compatibility mode).  The assignments are
   produced in the order the code makes them and applied one after the other. *)
Fixpoint takewhile (f : Z -> bool) (l : list Z) : list Z :=
  match l with [] => [] | x :: r => if f x then x :: takewhile f r else [] end.
(* rec_helper walks reversed(layer._layers); a non-clipping sublayer receives the run of clipping
   layers directly above it (in list order), then rec_helper(sublayer) runs.  [chunks] are built
   in list order and emitted in reverse so that the assignment order is the code's. *)
Fixpoint clip_assign (cf : Z -> bool) (t : tree) : list (Z * list Z) :=
  match t with
  | T _ ks =>
      concat (rev ((fix go (l : list tree) : list (list (Z * list Z)) :=
                      match l with
                      | [] => []
                      | c :: r =>
                          ((if cf (tid c) then [] else [(tid c, takewhile cf (map tid r))])
                             ++ clip_assign cf c) :: go r
                      end) ks))
  end.

Definition compute_clipping s (d : Z) : state :=
  let s1 := map_objs s (descendants s d) (with_clips []) in          (* _clear_clipping_layers *)
  fold_left (fun st a => mod_obj st (fst a) (with_clips (snd a)))
            (clip_assign (fun i => oclipf (objs s i)) (subtree s d)) s1.

(* variant cachefix: _invalidate_bbox_upwards (iterative, stops on a pointer cycle without error)
   and _invalidate_bbox_below *)
Fixpoint inval_up (fuel : nat) s (x : Z) : state :=
  match fuel with
  | O => s
  | S f =>
      let s1 := if is_container s x then mod_obj s x (with_cache None) else s in
      match oparent (objs s x) with
      | Some p => inval_up f s1 p
      | None => s1
      end
  end.
Definition inval_below s (g : Z) : state :=
  map_objs s (filter (is_container s) (descendants s g)) (with_cache None).

(* ------------------------------------------------------------------ _check_valid_layers / metadata / dirty *)
(* None: valid; Some None: "assert isinstance(layer, Layer)" failed (no message);
   Some (Some x): the reference-loop assertion failed at x (its message formats self and x) *)
Fixpoint check_valid s (g : Z) (xs : list Z) : option (option Z) :=
  match xs with
  | [] => None
  | x :: r =>
      if negb (is_layer s x) then Some None
      else if selffix (conf s) && (x =? g) then Some (Some g)     (* variant: "assert layer is not self" *)
      else if (kind s x =? KGroup) && memz g (descendants s x) then Some (Some x)
      else check_valid s g r
  end.
Definition check_fail s (g : Z) (bad : option Z) : state * out :=
  match bad with
  | None => (s, Fail E_ASSERT)
  | Some x => if x =? g then fail_fmt s [g] E_ASSERT      (* "Cannot add the group {} to itself." *)
              else fail_fmt s [g; x] E_ASSERT             (* "... reference loop ... between {} and {}." *)
  end.

Definition eff_psd s (g : Z) : option Z := if kind s g =? KDoc then Some g else opsd (objs s g).

(* _update_layer_metadata: every object yielded by self.descendants() gets _psd (when the
   effective document is not None; assigning an equal value is the skipped case of the code);
   then every direct child gets _parent = self *)
Definition meta s (g : Z) : state :=
  let s0 := if cachefix (conf s) then inval_below s g else s in
  let s1 := match eff_psd s g with
            | None => s0
            | Some d => map_objs s0 (descendants s g) (with_psd (Some d))
            end in
  map_objs s1 (kid_ids s g) (with_parent (Some g)).

(* _update_psd_record *)
Definition mark_dirty s (g : Z) : state :=
  let s0 := if cachefix (conf s) then inval_up (fuel_of s) s g else s in
  match eff_psd s0 g with
  | Some d =>
      let s1 := mod_obj s0 d (with_dirty true) in
      if clipsfix (conf s) then compute_clipping s1 d else s1
  | None => s0
  end.

(* ------------------------------------------------------------------ list protocol *)
Definition do_extend s (g : Z) (xs : list Z) : state * out :=
  match check_valid s g xs with
  | Some bad => check_fail s g bad
  | None =>
    let s1 := attach s g (length (kids_of s g)) xs in
    if memz g xs then (set_corrupt s1, Fail E_RECURSION)
    else (mark_dirty (meta s1 g) g, Done [])
  end.

Definition do_append s (g x : Z) : state * out :=
  if x =? g then (s, Fail E_ASSERT) else do_extend s g [x].

Definition do_insert s (g i x : Z) : state * out :=
  if x =? g then fail_fmt s [g] E_ASSERT          (* "Cannot add the group {} to itself.".format(self) *)
  else match check_valid s g [x] with
  | Some bad => check_fail s g bad
  | None =>
    let k := Z.to_nat (ins_pos (zlen (kids_of s g)) i) in
    (mark_dirty (meta (attach s g k [x]) g) g, Done [])
  end.

Definition do_setitem s (g i x : Z) : state * out :=
  if x =? g then fail_fmt s [g] E_ASSERT
  else match check_valid s g [x] with
  | Some bad => check_fail s g bad
  | None =>
       match idx_pos (zlen (kids_of s g)) i with
       | None => (s, Fail E_INDEX)
       | Some j =>
           let k := Z.to_nat j in
           (mark_dirty (meta (attach (detach_at s g k) g k [x]) g) g, Done [])
       end
  end.

Definition do_delitem s (g i : Z) : state * out :=
  if clipsfix (conf s) then
    match idx_pos (zlen (kids_of s g)) i with
    | None => (s, Fail E_INDEX)
    | Some j => (mark_dirty (detach_at s g (Z.to_nat j)) g, Done [])
    end
  else
  let s0 := mark_dirty s g in                       (* the flag is set before the list is touched *)
  match idx_pos (zlen (kids_of s g)) i with
  | None => (s0, Fail E_INDEX)
  | Some j => (detach_at s0 g (Z.to_nat j), Done [])
  end.

Definition do_remove s (g x : Z) : state * out :=
  match index_of x (kid_ids s g) with
  | None => (s, Fail E_VALUE)
  | Some k => (mark_dirty (detach_at s g k) g, Done [])
  end.

Definition do_pop s (g i : Z) : state * out :=
  match idx_pos (zlen (kids_of s g)) i with
  | None => (s, Fail E_INDEX)
  | Some j =>
      let k := Z.to_nat j in
      (mark_dirty (detach_at s g k) g, Done [nth k (kid_ids s g) (-1)])
  end.

Definition do_clear s (g : Z) : state * out := (mark_dirty (detach_all s g) g, Done []).

(* ------------------------------------------------------------------ layer-side operations *)
(* "if self in self.parent: self.parent.remove(self)" *)
Definition unlist_from_parent s (x : Z) : state :=
  match oparent (objs s x) with
  | Some p => if memz x (kid_ids s p) then fst (do_remove s p x) else s
  | None => s
  end.

Definition do_delete_layer s (x : Z) : state * out :=
  match oparent (objs s x) with
  | Some p => (mark_dirty (unlist_from_parent s x) p, Done [])
  | None => match repr_touch s x with            (* logger.warning("...{}".format(self)) *)
            | (s1, false) => (s1, Fail E_RECURSION)
            | (s1, true) => (s1, Done [])
            end
  end.

Definition do_move_to_group s (x g : Z) : state * out :=
  if negb (is_container s g) then (s, Fail E_ASSERT)
  else if g =? x then (s, Fail E_ASSERT)
  else if (kind s x =? KGroup) && memz g (descendants s x) then fail_fmt s [x; g] E_ASSERT
  else do_append (unlist_from_parent s x) g x.

Definition do_move_up s (x off : Z) : state * out :=
  match oparent (objs s x) with
  | None => (s, Fail E_ASSERT)
  | Some p =>
      match index_of x (kid_ids s p) with
      | None => fail_fmt s [x] E_VALUE     (* list.index: "%R is not in list" evaluates repr(x) *)
      | Some k =>
          let n := zlen (kids_of s p) in
          let ni := Z.of_nat k + off in
          let ni := if ni <? 0 then 0 else if ni >=? n then n - 1 else ni in
          do_insert (fst (do_remove s p x)) p ni x
      end
  end.

Definition alloc s (o : obj) : state :=
  mkSt (upd (objs s) (next s) o) (next s + 1) (roots s ++ [T (next s) []]) (corrupt s) (conf s).

Definition new_group_obj : obj := mkObj KGroup None None true box0 None [] false false.
Definition new_pixel_obj (psd : option Z) (l t w h : Z) : obj :=
  mkObj KPixel None psd true (l, t, l + w, t + h) None [] false false.
Definition new_doc_obj (w h : Z) : obj := mkObj KDoc None None true (0, 0, w, h) None [] false false.

Definition do_new_group s (parent : option Z) : state * out :=
  let n := next s in
  let s1 := alloc s new_group_obj in
  match parent with
  | None => (s1, Done [n])
  | Some p =>
      if is_container s1 p then
        match do_move_to_group s1 n p with
        | (s2, Done _) => (s2, Done [n])
        | (s2, Fail c) => (s2, Fail c)
        end
      else (s1, Done [n])
  end.

Fixpoint move_all s (xs : list Z) (n : Z) : state * out :=
  match xs with
  | [] => (s, Done [])
  | x :: r => match do_move_to_group s x n with
              | (s1, Done _) => move_all s1 r n
              | (s1, Fail c) => (s1, Fail c)
              end
  end.

Definition do_group_layers s (xs : list Z) (parent : option Z) : state * out :=
  match xs with
  | [] => (s, Fail E_ASSERT)
  | x0 :: _ =>
      let par := match parent with
                 | Some p => Some p
                 | None => oparent (objs s x0)        (* layers[0]._parent, read before anything moves *)
                 end in
      let n := next s in
      let s1 := alloc s new_group_obj in
      match move_all s1 xs n with
      | (s2, Fail c) => (s2, Fail c)
      | (s2, Done _) =>
          match par with
          | None => (s2, Done [n])
          | Some p =>
              if is_container s2 p then
                match do_append s2 p n with          (* may be refused AFTER the layers were moved *)
                | (s3, Done _) => (s3, Done [n])
                | (s3, Fail c) => (s3, Fail c)
                end
              else (s2, Done [n])
          end
      end
  end.

(* ------------------------------------------------------------------ setters *)
(* Layer._invalidate_bbox: follows the stored _parent pointers through Group objects;
   a pointer cycle (possible with stale pointers of detached groups) is a RecursionError *)
Fixpoint inval (fuel : nat) s (x : Z) : state * bool :=
  match fuel with
  | O => (s, false)
  | S f =>
      let s1 := if is_container s x then mod_obj s x (with_cache None) else s in
      match oparent (objs s x) with
      | Some p => if kind s p =? KGroup then inval f s1 p else (s1, true)
      | None => (s1, true)
      end
  end.

Definition invalidate s (x : Z) : state * bool :=
  if cachefix (conf s) then (inval_up (fuel_of s) s x, true) else inval (fuel_of s) s x.

Definition do_set_visible s (x : Z) (b : bool) : state * out :=
  if negb (is_layer s x) then (s, Fail E_OTHER)
  else match invalidate s x with
       | (s1, false) => (s1, Fail E_RECURSION)
       | (s1, true) =>
           let s2 := mod_obj s1 x (with_vis b) in
           (if cachefix (conf s) && (kind s x =? KGroup) then inval_below s2 x else s2, Done [])
       end.

Definition do_set_left s (x v : Z) : state * out :=
  if negb (kind s x =? KPixel) then (s, Fail E_OTHER)       (* GroupMixin.left has no setter *)
  else match invalidate s x with
       | (s1, false) => (s1, Fail E_RECURSION)
       | (s1, true) =>
           let '(l, t, r, b) := orect (objs s x) in
           (mod_obj s1 x (with_rect (v, t, v + (r - l), b)), Done [])
       end.

Definition do_set_top s (x v : Z) : state * out :=
  if negb (kind s x =? KPixel) then (s, Fail E_OTHER)
  else match invalidate s x with
       | (s1, false) => (s1, Fail E_RECURSION)
       | (s1, true) =>
           let '(l, t, r, b) := orect (objs s x) in
           (mod_obj s1 x (with_rect (l, v, r, v + (b - t))), Done [])
       end.

Definition do_set_clip s (x : Z) (b : bool) : state * out :=
  if negb (is_layer s x) then (s, Fail E_OTHER)
  else if clipfix (conf s) then
    let s1 := mod_obj s x (with_clipf b) in
    match opsd (objs s x) with
    | Some d => (compute_clipping s1 d, Done [])
    | None => (s1, Done [])
    end
  else match opsd (objs s x) with
       | Some d =>
           if 0 <? zlen (kids_of s d)                                (* "if self._psd:" is len(psd) > 0 *)
           then (compute_clipping (mod_obj s x (with_clipf b)) d, Done [])
           else (s, Done [])
       | None => (s, Done [])
       end.

Definition b2z (b : bool) : Z := if b then 1 else 0.

Definition do_obs_bbox s (x : Z) : state * out :=
  if kind s x =? KPixel then (s, Done (box_list (orect (objs s x))))
  else if is_container s x then
    match read_bbox s x with
    | (s1, None) => (s1, Fail E_RECURSION)
    | (s1, Some b) =>
        let b' := if (kind s x =? KDoc) && box_eqb b box0 then orect (objs s x) else b in  (* PSDImage.bbox: viewbox *)
        (s1, Done (box_list b'))
    end
  else (s, Fail E_OTHER).

Definition do_obs_size s (x : Z) : state * out :=
  if kind s x =? KGroup then
    match read_bbox s x with
    | (s1, None) => (s1, Fail E_RECURSION)
    | (s1, Some (l, t, r, b)) => (s1, Done [r - l; b - t])
    end
  else let '(l, t, r, b) := orect (objs s x) in (s, Done [r - l; b - t]).

Definition repr_fields (w h : Z) (v : bool) : list Z :=
  if (0 <? w) && (0 <? h) then [1; w; h; b2z (negb v)] else [0; 0; 0; b2z (negb v)].

Definition do_obs_repr s (x : Z) : state * out :=
  if kind s x =? KGroup then
    match read_bbox s x with
    | (s1, None) => (s1, Fail E_RECURSION)
    | (s1, Some (l, t, r, b)) => (s1, Done (repr_fields (r - l) (b - t) (ovis (objs s x))))
    end
  else let '(l, t, r, b) := orect (objs s x) in
       if kind s x =? KDoc then (s, Done [r - l; b - t])
       else (s, Done (repr_fields (r - l) (b - t) (ovis (objs s x)))).

Definition count_z (i : Z) (l : list Z) : Z := zlen (filter (Z.eqb i) l).

(* ------------------------------------------------------------------ operations *)
Inductive op :=
| NewDoc (w h : Z)
| NewPixel (psd : option Z) (l t w h : Z)
| NewGroup (parent : option Z)
| GroupLayers (xs : list Z) (parent : option Z)
| Append (g x : Z) | Extend (g : Z) (xs : list Z) | Insert (g i x : Z)
| Remove (g x : Z) | Pop (g i : Z) | Clear (g : Z) | SetItem (g i x : Z) | DelItem (g i : Z)
| DeleteLayer (x : Z) | MoveToGroup (x g : Z) | MoveUp (x off : Z) | MoveDown (x off : Z)
| SetVisible (x : Z) (b : bool) | SetLeft (x v : Z) | SetTop (x v : Z) | SetClip (x : Z) (b : bool)
| ObsBbox (x : Z) | ObsSize (x : Z) | ObsRepr (x : Z) | ObsDesc (g : Z) | ObsFind (g x : Z) | ObsVisible (x : Z)
(* exporting / printing reads: k = 0 topil(), 1 numpy(), 2 composite(), 3 save(scratch buffer), 4 mask /
   has_effects() / effects / has_mask() / print.  Their answers (pixels, bytes) are not modelled; as far as
   the stored fields go they may fill bbox caches and nothing else (they run the compositor, which reads
   bbox): the model leaves the state alone and states containing them are compared without caches. *)
| ObsExport (x k : Z).

Definition needs_container (o : op) : option Z :=
  match o with
  | Append g _ | Extend g _ | Insert g _ _ | Remove g _ | Pop g _ | Clear g | SetItem g _ _ | DelItem g _
  | ObsDesc g | ObsFind g _ => Some g
  | _ => None
  end.
Definition needs_layer (o : op) : option Z :=
  match o with
  | DeleteLayer x | MoveToGroup x _ | MoveUp x _ | MoveDown x _ => Some x
  | _ => None
  end.

Definition step (s : state) (o : op) : state * out :=
  if corrupt s then (s, Fail (-1))
  else if match needs_container o with Some g => negb (is_container s g) | None => false end then (s, Fail E_OTHER)
  else if match needs_layer o with Some x => negb (is_layer s x) | None => false end then (s, Fail E_OTHER)
  else
  match o with
  | NewDoc w h => (alloc s (new_doc_obj w h), Done [next s])
  | NewPixel psd l t w h => (alloc s (new_pixel_obj psd l t w h), Done [next s])
  | NewGroup p => do_new_group s p
  | GroupLayers xs p => do_group_layers s xs p
  | Append g x => do_append s g x
  | Extend g xs => do_extend s g xs
  | Insert g i x => do_insert s g i x
  | Remove g x => do_remove s g x
  | Pop g i => do_pop s g i
  | Clear g => do_clear s g
  | SetItem g i x => do_setitem s g i x
  | DelItem g i => do_delitem s g i
  | DeleteLayer x => do_delete_layer s x
  | MoveToGroup x g => do_move_to_group s x g
  | MoveUp x off => do_move_up s x off
  | MoveDown x off => do_move_up s x (- off)
  | SetVisible x b => do_set_visible s x b
  | SetLeft x v => do_set_left s x v
  | SetTop x v => do_set_top s x v
  | SetClip x b => do_set_clip s x b
  | ObsBbox x => do_obs_bbox s x
  | ObsSize x => do_obs_size s x
  | ObsRepr x => do_obs_repr s x
  | ObsDesc g => (s, Done (descendants s g))
  | ObsFind g x => let d := descendants s g in (s, Done [b2z (memz x d); count_z x d])
  | ObsVisible x => match isvis (fuel_of s) s x with
                    | None => (s, Fail E_RECURSION)
                    | Some b => (s, Done [b2z b])
                    end
  | ObsExport _ _ => (s, Done [])
  end.

Definition run (s : state) (h : list op) : state := fold_left (fun st o => fst (step st o)) h s.

(* ------------------------------------------------------------------ canonical printer *)
Definition optz (o : option Z) : Z := match o with None => 0 | Some i => i + 1 end.
Fixpoint zrange (a : Z) (n : nat) : list Z := match n with O => [] | S m => a :: zrange (a + 1) m end.
Definition all_ids s : list Z := zrange 0 (Z.to_nat (next s)).

Definition print_obj s (i : Z) : list Z :=
  let o := objs s i in
  [okind o; optz (oparent o); optz (opsd o); b2z (ovis o)] ++ box_list (orect o)
  ++ match ocache o with None => [0; 0; 0; 0; 0] | Some b => 1 :: box_list b end
  ++ [b2z (oclipf o); b2z (odirty o); zlen (oclips o)] ++ oclips o
  ++ zlen (kid_ids s i) :: kid_ids s i.
Definition print_state s : list Z :=
  if corrupt s then [-1] else next s :: flat_map (print_obj s) (all_ids s).

(* trace of a history: per step the outcome followed by the whole state, hashed *)
Definition step_digest (s : state) (o : out) : Z :=
  to_Z (h63_list (h63_list 0%uint63 (out_canon o)) (print_state s)).
Fixpoint trace (s : state) (h : list op) : list Z :=
  match h with
  | [] => []
  | o :: r => let '(s1, a) := step s o in step_digest s1 a :: trace s1 r
  end.

(* the same without the bbox caches (histories that contain exporting reads) *)
Definition print_obj_nc s (i : Z) : list Z :=
  let o := objs s i in
  [okind o; optz (oparent o); optz (opsd o); b2z (ovis o)] ++ box_list (orect o)
  ++ [b2z (oclipf o); b2z (odirty o); zlen (oclips o)] ++ oclips o
  ++ zlen (kid_ids s i) :: kid_ids s i.
Definition print_state_nc s : list Z :=
  if corrupt s then [-1] else next s :: flat_map (print_obj_nc s) (all_ids s).
Definition step_digest_nc (s : state) (o : out) : Z :=
  to_Z (h63_list (h63_list 0%uint63 (out_canon o)) (print_state_nc s)).
Fixpoint trace_nc (s : state) (h : list op) : list Z :=
  match h with
  | [] => []
  | o :: r => let '(s1, a) := step s o in step_digest_nc s1 a :: trace_nc s1 r
  end.
