(* Pixels/Proofs.v -- lemmas about the plane plumbing model (C07, C17). *)
From Coq Require Import ZArith List Bool Lia ZifyBool.
From PsdV Require Import Base.Prelude Pixels.Model.
Open Scope Z_scope.

(* ================================================================== inversion *)
Lemma inv_inv x : inv (inv x) = x.
Proof. unfold inv. lia. Qed.

Lemma inv_byte x : byte x -> byte (inv x).
Proof. unfold byte, inv. lia. Qed.

Lemma inv_plane_inv p : inv_plane (inv_plane p) = p.
Proof.
  unfold inv_plane. rewrite map_map. rewrite <- (map_id p) at 2.
  apply map_ext. intro. apply inv_inv.
Qed.

Lemma inv_planes_inv ps : map inv_plane (map inv_plane ps) = ps.
Proof.
  rewrite map_map. rewrite <- (map_id ps) at 2. apply map_ext. intro. apply inv_plane_inv.
Qed.

Lemma invert_invert r : invert (invert r) = r.
Proof. destruct r. unfold invert. cbn. now rewrite inv_planes_inv. Qed.

Lemma inv_plane_length p : length (inv_plane p) = length p.
Proof. apply map_length. Qed.

Lemma inv_plane_bytes p : bytes p -> bytes (inv_plane p).
Proof.
  unfold bytes, inv_plane. intro H. apply Forall_forall. intros y Hy.
  apply in_map_iff in Hy as (x & <- & Hx). apply inv_byte.
  eapply Forall_forall in H; eauto.
Qed.

(* ================================================================== white matte arithmetic *)
Lemma matte_px_opaque x : byte x -> matte_px x 255 = x.
Proof.
  unfold byte, matte_px. intro H.
  replace (x * 255 + 255 * (255 - 255) + 127) with (127 + x * 255) by lia.
  rewrite Z.div_add by lia. rewrite Z.div_small; lia.
Qed.

Lemma matte_px_transparent x : matte_px x 0 = 255.
Proof. unfold matte_px. replace (x * 0 + 255 * (255 - 0) + 127) with (127 + 255 * 255) by lia.
  rewrite Z.div_add by lia. reflexivity. Qed.

Lemma matte_px_byte x a : byte x -> byte a -> byte (matte_px x a).
Proof.
  unfold byte, matte_px. intros Hx Ha.
  assert (0 <= x * a + 255 * (255 - a) + 127 <= 255 * 255 + 127) by nia.
  split.
  - apply Z.div_pos; lia.
  - apply Z.div_lt_upper_bound; lia.
Qed.

Lemma unmatte_px_opaque s : byte s -> unmatte_px s 255 = s.
Proof.
  unfold byte, unmatte_px, clip255. intro H. cbn [Z.eqb].
  replace ((s + 255 - 255) * 255) with (s * 255) by lia.
  rewrite Z.div_mul by lia. lia.
Qed.

(* the round trip through the white matte is exact on opaque pixels ... *)
Lemma matte_unmatte_opaque x : byte x -> unmatte_px (matte_px x 255) 255 = x.
Proof. intro H. rewrite matte_px_opaque by assumption. now apply unmatte_px_opaque. Qed.

(* ... and off by at most 127/a + 1 on partially transparent ones (quantisation of the 8-bit matte) *)
Lemma matte_unmatte_bound x a : byte x -> 0 < a <= 255 ->
  Z.abs (unmatte_px (matte_px x a) a - x) <= 127 / a + 1.
Proof.
  unfold byte. intros Hx Ha.
  unfold unmatte_px. destruct (a =? 0) eqn:E; [lia|]. clear E.
  unfold matte_px.
  set (n := x * a + 255 * (255 - a) + 127).
  assert (Hn : n = 255 * (n / 255) + n mod 255) by (apply Z.div_mod; lia).
  assert (Hr : 0 <= n mod 255 < 255) by (apply Z.mod_pos_bound; lia).
  set (s := n / 255) in *.
  set (r := n mod 255) in *.
  (* (s + a - 255) * 255 = x * a + 127 - r *)
  assert (Hk : (s + a - 255) * 255 = x * a + (127 - r)) by (unfold n in Hn; lia).
  rewrite Hk.
  set (e := 127 - r) in *.
  assert (He : -127 <= e <= 127) by (unfold e; lia).
  (* q = floor ((x*a + e) / a) lies within x - ceil(127/a) .. x + floor(127/a) *)
  assert (Hq : x * a + e = a * ((x * a + e) / a) + (x * a + e) mod a) by (apply Z.div_mod; lia).
  assert (Hm : 0 <= (x * a + e) mod a < a) by (apply Z.mod_pos_bound; lia).
  set (q := (x * a + e) / a) in *.
  set (m := (x * a + e) mod a) in *.
  assert (Hd : 127 = a * (127 / a) + 127 mod a) by (apply Z.div_mod; lia).
  assert (Hdm : 0 <= 127 mod a < a) by (apply Z.mod_pos_bound; lia).
  set (k := 127 / a) in *.
  assert (Hk0 : 0 <= k) by (unfold k; apply Z.div_pos; lia).
  assert (Hlo : x - k - 1 <= q) by nia.
  assert (Hhi : q <= x + k) by nia.
  unfold clip255. lia.
Qed.

(* ================================================================== list plumbing *)
Lemma zlen_nonneg {A} (l : list A) : 0 <= zlen l.
Proof. unfold zlen. lia. Qed.

Lemma zlen_app {A} (a b : list A) : zlen (a ++ b) = zlen a + zlen b.
Proof. unfold zlen. rewrite app_length. lia. Qed.

Lemma concat_length_uniform (ps : list plane) k :
  Forall (fun p => length p = k) ps -> length (concat ps) = (length ps * k)%nat.
Proof.
  induction 1 as [|p ps Hp _ IH]; cbn; [reflexivity|].
  rewrite app_length, IH, Hp. lia.
Qed.

Lemma chunks_length k n l : length (chunks k n l) = n.
Proof. revert l; induction n; intro l; cbn; [reflexivity| now rewrite IHn]. Qed.

Lemma chunks_concat k (ps : list plane) :
  Forall (fun p => length p = k) ps -> chunks k (length ps) (concat ps) = ps.
Proof.
  induction 1 as [|p ps Hp _ IH]; cbn; [reflexivity|].
  rewrite firstn_app, skipn_app. subst k.
  rewrite firstn_all, skipn_all, Nat.sub_diag. cbn.
  rewrite app_nil_r. f_equal. exact IH.
Qed.

Lemma chunks_sizes k n l : length l = (n * k)%nat ->
  Forall (fun p => length p = k) (chunks k n l).
Proof.
  revert l; induction n; intros l H; cbn; constructor.
  - rewrite firstn_length. lia.
  - apply IHn. rewrite skipn_length. lia.
Qed.

Lemma concat_chunks k n l : length l = (n * k)%nat -> concat (chunks k n l) = l.
Proof.
  revert l; induction n; intros l H; cbn.
  - destruct l; [reflexivity|discriminate].
  - rewrite IHn by (rewrite skipn_length; lia). apply firstn_skipn.
Qed.

Lemma overwrite_length {A} (new old : list A) : length (overwrite new old) = length old.
Proof.
  revert old; induction new as [|x n IH]; intros [|y o]; cbn; try reflexivity.
  now rewrite IH.
Qed.

Lemma overwrite_Forall {A} (P : A -> Prop) (new old : list A) :
  Forall P new -> Forall P old -> Forall P (overwrite new old).
Proof.
  intros Hn; revert old; induction Hn as [|x n Hx _ IH]; intros [|y o] Ho; cbn; auto.
  inversion Ho; subst. constructor; auto.
Qed.

Lemma firstn_overwrite {A} (new old : list A) : (length new <= length old)%nat ->
  firstn (length new) (overwrite new old) = new.
Proof.
  revert old; induction new as [|x n IH]; intros [|y o] H; cbn in *; try reflexivity; try lia.
  f_equal. apply IH. lia.
Qed.

Lemma skipn_overwrite {A} (new old : list A) :
  skipn (length new) (overwrite new old) = skipn (length new) old.
Proof.
  revert old; induction new as [|x n IH]; intros [|y o]; cbn; try reflexivity.
  apply IH.
Qed.

Lemma set_nth_length {A} n (x : A) l : length (set_nth n x l) = length l.
Proof. revert n; induction l; intros [|n]; cbn; auto. Qed.

Lemma set_nth_Forall {A} (P : A -> Prop) n x l : P x -> Forall P l -> Forall P (set_nth n x l).
Proof.
  intros Hx Hl; revert n; induction Hl; intros [|n]; cbn; constructor; auto.
Qed.

Lemma nth_set_nth_same {A} n (x d : A) l : (n < length l)%nat -> nth n (set_nth n x l) d = x.
Proof. revert n; induction l; intros [|n] H; cbn in *; try lia; auto. apply IHl. lia. Qed.

Lemma nth_set_nth_other {A} n m (x d : A) l : n <> m -> nth m (set_nth n x l) d = nth m l d.
Proof.
  revert n m; induction l; intros [|n] [|m] H; cbn; try reflexivity; try congruence.
  apply IHl. congruence.
Qed.

(* ================================================================== ImageData container *)
Definition depth_ok (d : Z) : Prop := d = 8 \/ d = 16 \/ d = 32.
Definition header_ok (hd : header) : Prop :=
  1 <= h_w hd /\ 1 <= h_h hd /\ 1 <= h_channels hd /\ depth_ok (h_depth hd).
(* the planes fit the header: one per declared channel, each of height*width*bytes-per-sample *)
Definition planes_fit (hd : header) (ps : list plane) : Prop :=
  zlen ps = h_channels hd /\ Forall (fun p => zlen p = plane_bytes hd) ps.

Lemma row_size_bps w d : depth_ok d -> row_size w d = w * bps d.
Proof.
  unfold depth_ok, row_size, bps. intros [->|[->|->]]; cbn [Z.div Z.max];
    change (8 / 8) with 1; change (16 / 8) with 2; change (32 / 8) with 4.
  - replace (w * 8 + 7) with (7 + w * 8) by lia. rewrite Z.div_add by lia. cbn. lia.
  - replace (w * 16 + 7) with (7 + (w * 2) * 8) by lia. rewrite Z.div_add by lia. cbn. lia.
  - replace (w * 32 + 7) with (7 + (w * 4) * 8) by lia. rewrite Z.div_add by lia. cbn. lia.
Qed.

Lemma bps_pos d : 1 <= bps d.
Proof. unfold bps. lia. Qed.

Lemma bps_cases d : depth_ok d -> (d = 8 /\ bps d = 1) \/ (d = 16 /\ bps d = 2) \/ (d = 32 /\ bps d = 4).
Proof. unfold depth_ok, bps. intros [->|[->|->]]; cbn; auto. Qed.

Lemma planes_fit_concat hd ps : header_ok hd -> planes_fit hd ps ->
  zlen (concat ps) = h_channels hd * plane_bytes hd.
Proof.
  intros Hh [Hn Hs]. unfold zlen in *.
  assert (0 <= plane_bytes hd).
  { unfold plane_bytes. destruct Hh as (?&?&?&?). pose proof (bps_pos (h_depth hd)). nia. }
  rewrite (concat_length_uniform ps (Z.to_nat (plane_bytes hd))).
  - rewrite Nat2Z.inj_mul, Z2Nat.id by lia. lia.
  - eapply Forall_impl; [|exact Hs]. cbn. intros p Hp. lia.
Qed.

Lemma zipp_check_exact d w rows : depth_ok d -> 0 <= w -> 0 <= rows ->
  zipp_check d w rows (w * rows * bps d) = Ok tt.
Proof.
  intros Hd Hw Hr. unfold zipp_check.
  destruct (bps_cases d Hd) as [[-> ->]|[[-> ->]|[-> ->]]]; cbn [Z.eqb].
  - destruct ((2 <=? w) && (1 <=? rows) && (w * rows * 1 <? w * rows)) eqn:E; [lia|reflexivity].
  - replace (Z.odd (w * rows * 2)) with false
      by (symmetry; rewrite Z.odd_mul; cbn; apply andb_false_r).
    rewrite Z.div_mul by lia.
    destruct ((2 <=? w) && (1 <=? rows) && (w * rows <? w * rows)) eqn:E; [lia|reflexivity].
  - destruct ((0 <? w * rows) && (w * rows * 4 <? 4 * w * rows)) eqn:E; [lia|reflexivity].
Qed.

(* what get_data gives back after set_data when the planes fit the header: exactly those planes,
   for every compression method *)
Lemma set_get_inverse c hd ps : header_ok hd -> planes_fit hd ps ->
  (do st <- set_data c hd ps; get_data st hd) = Ok ps.
Proof.
  intros Hh Hf.
  pose proof (planes_fit_concat hd ps Hh Hf) as Hlen.
  destruct Hh as (Hw & Hht & Hc & Hd). destruct Hf as [Hn Hs].
  pose proof (bps_pos (h_depth hd)) as Hb.
  set (data := concat ps) in *.
  assert (Hwant : h_w hd * (h_h hd * h_channels hd) * bps (h_depth hd) = zlen data).
  { rewrite Hlen. unfold plane_bytes. lia. }
  assert (Hsplit : chunks (Z.to_nat (zlen data / h_channels hd)) (Z.to_nat (h_channels hd)) data = ps).
  { rewrite Hlen. rewrite Z.mul_comm, Z.div_mul by lia.
    replace (Z.to_nat (h_channels hd)) with (length ps) by (unfold zlen in Hn; lia).
    apply chunks_concat. eapply Forall_impl; [|exact Hs]. cbn. unfold zlen. intros p Hp. lia. }
  assert (Hall : firstn (Z.to_nat (zlen data)) data = data)
    by (unfold zlen; rewrite Nat2Z.id; apply firstn_all).
  unfold set_data. fold data.
  destruct c; cbn [bind].
  - (* RAW *)
    unfold get_data, decompress_vis; cbn [i_comp i_vis bind].
    rewrite Hwant, Hall, Z.eqb_refl. cbn [bind]. now rewrite Hsplit.
  - (* RLE *)
    rewrite row_size_bps by assumption.
    replace (h_h hd * h_channels hd * (h_w hd * bps (h_depth hd))) with (zlen data) by lia.
    rewrite Hall.
    unfold get_data, decompress_vis; cbn [i_comp i_vis bind].
    rewrite row_size_bps by assumption.
    replace (Z.max (h_w hd * bps (h_depth hd)) 1) with (h_w hd * bps (h_depth hd)) by nia.
    replace (h_h hd * h_channels hd * (h_w hd * bps (h_depth hd))) with (zlen data) by lia.
    rewrite Hwant, Z.eqb_refl. cbn [bind]. now rewrite Hsplit.
  - (* ZIP *)
    unfold get_data, decompress_vis; cbn [i_comp i_vis bind].
    rewrite Hwant, Z.eqb_refl. cbn [bind]. now rewrite Hsplit.
  - (* ZIP with prediction *)
    rewrite <- Hwant. rewrite zipp_check_exact by (try assumption; nia). cbn [bind].
    unfold get_data, decompress_vis; cbn [i_comp i_vis bind].
    rewrite <- Hwant. rewrite zipp_check_exact by (try assumption; nia). cbn [bind].
    rewrite Z.eqb_refl. cbn [bind]. rewrite Hwant. now rewrite Hsplit.
Qed.

Lemma decompress_vis_len st w rows d data :
  decompress_vis st w rows d = Ok data -> zlen data = w * rows * bps d.
Proof.
  unfold decompress_vis. destruct (i_comp st).
  - destruct (_ =? _) eqn:E; [|discriminate]. intro H; inversion H; subst. lia.
  - destruct (_ =? _); [|discriminate]. destruct (_ =? _) eqn:E; [|discriminate].
    intro H; inversion H; subst. lia.
  - destruct (_ =? _) eqn:E; [|discriminate]. intro H; inversion H; subst. lia.
  - destruct (zipp_check _ _ _ _); cbn [bind]; [|discriminate].
    destruct (_ =? _) eqn:E; [|discriminate]. intro H; inversion H; subst. lia.
Qed.

(* whatever get_data returns has the shape the header declares *)
Lemma get_data_fit st hd ps : header_ok hd -> get_data st hd = Ok ps -> planes_fit hd ps.
Proof.
  intros (Hw & Hh & Hc & Hd) H. unfold get_data in H.
  destruct (decompress_vis st (h_w hd) (h_h hd * h_channels hd) (h_depth hd)) as [data|] eqn:E;
    cbn [bind] in H; [|discriminate].
  inversion H; subst ps; clear H.
  apply decompress_vis_len in E.
  assert (Hq : zlen data / h_channels hd = plane_bytes hd).
  { rewrite E. unfold plane_bytes.
    replace (h_w hd * (h_h hd * h_channels hd) * bps (h_depth hd))
      with (h_w hd * h_h hd * bps (h_depth hd) * h_channels hd) by lia.
    apply Z.div_mul. lia. }
  pose proof (bps_pos (h_depth hd)).
  assert (0 <= plane_bytes hd) by (unfold plane_bytes; nia).
  split.
  - unfold zlen. rewrite chunks_length. lia.
  - rewrite Hq. eapply Forall_impl; [|apply chunks_sizes].
    + cbn. unfold zlen. intros p Hp. rewrite Hp. lia.
    + unfold zlen in E. apply Nat2Z.inj. rewrite Nat2Z.inj_mul, !Z2Nat.id by lia.
      rewrite E. unfold plane_bytes. lia.
Qed.

Lemma get_data_concat st hd ps : header_ok hd -> get_data st hd = Ok ps ->
  decompress_vis st (h_w hd) (h_h hd * h_channels hd) (h_depth hd) = Ok (concat ps).
Proof.
  intros (Hw & Hh & Hc & Hd) H. unfold get_data in H.
  destruct (decompress_vis st (h_w hd) (h_h hd * h_channels hd) (h_depth hd)) as [data|] eqn:E;
    cbn [bind] in H; [|discriminate].
  inversion H; subst ps; clear H. f_equal. symmetry.
  apply decompress_vis_len in E.
  pose proof (bps_pos (h_depth hd)).
  apply concat_chunks.
  apply Nat2Z.inj. rewrite Nat2Z.inj_mul, !Z2Nat.id.
  - fold (zlen data). rewrite E.
    replace (h_w hd * (h_h hd * h_channels hd) * bps (h_depth hd))
      with (h_w hd * h_h hd * bps (h_depth hd) * h_channels hd) by lia.
    rewrite Z.div_mul by lia. lia.
  - apply Z.div_pos; [apply zlen_nonneg|lia].
  - lia.
Qed.
