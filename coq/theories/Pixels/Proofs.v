(* Pixels/Proofs.v -- lemmas about the plane plumbing model (C07, C17). *)
From Coq Require Import ZArith List Bool Lia ZifyBool.
From PsdV Require Import Base.Prelude Pixels.Model.
Open Scope Z_scope.

(* ================================================================== inversion *)
Lemma inv_inv x : inv (inv x) = x.
Proof. unfold inv. lia. Qed.

Lemma inv_byte x : byte x -> byte (inv x).
Proof. unfold byte, inv. lia. Qed.

Lemma inv_plane_inv p : inv_plane (inv_plane p) = p.
Proof.
  unfold inv_plane. rewrite map_map. rewrite <- (map_id p) at 2.
  apply map_ext. intro. apply inv_inv.
Qed.

Lemma inv_planes_inv ps : map inv_plane (map inv_plane ps) = ps.
Proof.
  rewrite map_map. rewrite <- (map_id ps) at 2. apply map_ext. intro. apply inv_plane_inv.
Qed.

Lemma invert_invert r : invert (invert r) = r.
Proof. destruct r. unfold invert. cbn. now rewrite inv_planes_inv. Qed.

Lemma inv_plane_length p : length (inv_plane p) = length p.
Proof. apply map_length. Qed.

Lemma inv_plane_bytes p : bytes p -> bytes (inv_plane p).
Proof.
  unfold bytes, inv_plane. intro H. apply Forall_forall. intros y Hy.
  apply in_map_iff in Hy as (x & <- & Hx). apply inv_byte.
  eapply Forall_forall in H; eauto.
Qed.

(* ================================================================== white matte arithmetic *)
Lemma matte_px_opaque x : byte x -> matte_px x 255 = x.
Proof.
  unfold byte, matte_px. intro H.
  replace (x * 255 + 255 * (255 - 255) + 127) with (127 + x * 255) by lia.
  rewrite Z.div_add by lia. rewrite Z.div_small; lia.
Qed.

Lemma matte_px_transparent x : matte_px x 0 = 255.
Proof. unfold matte_px. replace (x * 0 + 255 * (255 - 0) + 127) with (127 + 255 * 255) by lia.
  rewrite Z.div_add by lia. reflexivity. Qed.

Lemma matte_px_byte x a : byte x -> byte a -> byte (matte_px x a).
Proof.
  unfold byte, matte_px. intros Hx Ha.
  assert (0 <= x * a + 255 * (255 - a) + 127 <= 255 * 255 + 127) by nia.
  split.
  - apply Z.div_pos; lia.
  - apply Z.div_lt_upper_bound; lia.
Qed.

Lemma unmatte_px_opaque s : byte s -> unmatte_px s 255 = s.
Proof.
  unfold byte, unmatte_px, clip255. intro H. cbn [Z.eqb].
  replace ((s + 255 - 255) * 255) with (s * 255) by lia.
  rewrite Z.div_mul by lia. lia.
Qed.

(* the round trip through the white matte is exact on opaque pixels ... *)
Lemma matte_unmatte_opaque x : byte x -> unmatte_px (matte_px x 255) 255 = x.
Proof. intro H. rewrite matte_px_opaque by assumption. now apply unmatte_px_opaque. Qed.

(* ... and off by at most 127/a + 1 on partially transparent ones (quantisation of the 8-bit matte) *)
Lemma matte_unmatte_bound x a : byte x -> 0 < a <= 255 ->
  Z.abs (unmatte_px (matte_px x a) a - x) <= 127 / a + 1.
Proof.
  unfold byte. intros Hx Ha.
  unfold unmatte_px. destruct (a =? 0) eqn:E; [lia|]. clear E.
  unfold matte_px.
  set (n := x * a + 255 * (255 - a) + 127).
  assert (Hn : n = 255 * (n / 255) + n mod 255) by (apply Z.div_mod; lia).
  assert (Hr : 0 <= n mod 255 < 255) by (apply Z.mod_pos_bound; lia).
  set (s := n / 255) in *.
  set (r := n mod 255) in *.
  (* (s + a - 255) * 255 = x * a + 127 - r *)
  assert (Hk : (s + a - 255) * 255 = x * a + (127 - r)) by (unfold n in Hn; lia).
  rewrite Hk.
  set (e := 127 - r) in *.
  assert (He : -127 <= e <= 127) by (unfold e; lia).
  (* q = floor ((x*a + e) / a) lies within x - ceil(127/a) .. x + floor(127/a) *)
  assert (Hq : x * a + e = a * ((x * a + e) / a) + (x * a + e) mod a) by (apply Z.div_mod; lia).
  assert (Hm : 0 <= (x * a + e) mod a < a) by (apply Z.mod_pos_bound; lia).
  set (q := (x * a + e) / a) in *.
  set (m := (x * a + e) mod a) in *.
  assert (Hd : 127 = a * (127 / a) + 127 mod a) by (apply Z.div_mod; lia).
  assert (Hdm : 0 <= 127 mod a < a) by (apply Z.mod_pos_bound; lia).
  set (k := 127 / a) in *.
  assert (Hk0 : 0 <= k) by (unfold k; apply Z.div_pos; lia).
  assert (Hlo : x - k - 1 <= q) by nia.
  assert (Hhi : q <= x + k) by nia.
  unfold clip255. lia.
Qed.

(* ================================================================== list plumbing *)
Lemma zlen_nonneg {A} (l : list A) : 0 <= zlen l.
Proof. unfold zlen. lia. Qed.

Lemma zlen_app {A} (a b : list A) : zlen (a ++ b) = zlen a + zlen b.
Proof. unfold zlen. rewrite app_length. lia. Qed.

Lemma concat_length_uniform (ps : list plane) k :
  Forall (fun p => length p = k) ps -> length (concat ps) = (length ps * k)%nat.
Proof.
  induction 1 as [|p ps Hp _ IH]; cbn; [reflexivity|].
  rewrite app_length, IH, Hp. lia.
Qed.

Lemma chunks_length k n l : length (chunks k n l) = n.
Proof. revert l; induction n; intro l; cbn; [reflexivity| now rewrite IHn]. Qed.

Lemma chunks_concat k (ps : list plane) :
  Forall (fun p => length p = k) ps -> chunks k (length ps) (concat ps) = ps.
Proof.
  induction 1 as [|p ps Hp _ IH]; cbn; [reflexivity|].
  rewrite firstn_app, skipn_app. subst k.
  rewrite firstn_all, skipn_all, Nat.sub_diag. cbn.
  rewrite app_nil_r. f_equal. exact IH.
Qed.

Lemma chunks_sizes k n l : length l = (n * k)%nat ->
  Forall (fun p => length p = k) (chunks k n l).
Proof.
  revert l; induction n; intros l H; cbn; constructor.
  - rewrite firstn_length. lia.
  - apply IHn. rewrite skipn_length. lia.
Qed.

Lemma concat_chunks k n l : length l = (n * k)%nat -> concat (chunks k n l) = l.
Proof.
  revert l; induction n; intros l H; cbn.
  - destruct l; [reflexivity|discriminate].
  - rewrite IHn by (rewrite skipn_length; lia). apply firstn_skipn.
Qed.

Lemma overwrite_length {A} (new old : list A) : length (overwrite new old) = length old.
Proof.
  revert old; induction new as [|x n IH]; intros [|y o]; cbn; try reflexivity.
  now rewrite IH.
Qed.

Lemma overwrite_Forall {A} (P : A -> Prop) (new old : list A) :
  Forall P new -> Forall P old -> Forall P (overwrite new old).
Proof.
  intros Hn; revert old; induction Hn as [|x n Hx _ IH]; intros [|y o] Ho; cbn; auto.
  inversion Ho; subst. constructor; auto.
Qed.

Lemma firstn_overwrite {A} (new old : list A) : (length new <= length old)%nat ->
  firstn (length new) (overwrite new old) = new.
Proof.
  revert old; induction new as [|x n IH]; intros [|y o] H; cbn in *; try reflexivity; try lia.
  f_equal. apply IH. lia.
Qed.

Lemma skipn_overwrite {A} (new old : list A) :
  skipn (length new) (overwrite new old) = skipn (length new) old.
Proof.
  revert old; induction new as [|x n IH]; intros [|y o]; cbn; try reflexivity.
  apply IH.
Qed.

Lemma nth_firstn_lt {A} i n (l : list A) d : (i < n)%nat -> nth i (firstn n l) d = nth i l d.
Proof.
  revert i l; induction n; intros i l H; [lia|].
  destruct l; [now destruct i|]. destruct i; cbn; [reflexivity|]. apply IHn. lia.
Qed.

Lemma set_nth_length {A} n (x : A) l : length (set_nth n x l) = length l.
Proof. revert n; induction l; intros [|n]; cbn; auto. Qed.

Lemma set_nth_Forall {A} (P : A -> Prop) n x l : P x -> Forall P l -> Forall P (set_nth n x l).
Proof.
  intros Hx Hl; revert n; induction Hl; intros [|n]; cbn; constructor; auto.
Qed.

Lemma nth_set_nth_same {A} n (x d : A) l : (n < length l)%nat -> nth n (set_nth n x l) d = x.
Proof. revert n; induction l; intros [|n] H; cbn in *; try lia; auto. apply IHl. lia. Qed.

Lemma nth_set_nth_other {A} n m (x d : A) l : n <> m -> nth m (set_nth n x l) d = nth m l d.
Proof.
  revert n m; induction l; intros [|n] [|m] H; cbn; try reflexivity; try congruence.
  apply IHl. congruence.
Qed.

(* ================================================================== ImageData container *)
Definition depth_ok (d : Z) : Prop := d = 8 \/ d = 16 \/ d = 32.
Definition header_ok (hd : header) : Prop :=
  1 <= h_w hd /\ 1 <= h_h hd /\ 1 <= h_channels hd /\ depth_ok (h_depth hd).
(* the planes fit the header: one per declared channel, each of height*width*bytes-per-sample *)
Definition planes_fit (hd : header) (ps : list plane) : Prop :=
  zlen ps = h_channels hd /\ Forall (fun p => zlen p = plane_bytes hd) ps.

Lemma row_size_bps w d : depth_ok d -> row_size w d = w * bps d.
Proof.
  unfold depth_ok, row_size, bps. intros [ -> | [ -> | -> ] ]; cbn [Z.div Z.max];
    change (8 / 8) with 1; change (16 / 8) with 2; change (32 / 8) with 4.
  - replace (w * 8 + 7) with (7 + w * 8) by lia. rewrite Z.div_add by lia. cbn. lia.
  - replace (w * 16 + 7) with (7 + (w * 2) * 8) by lia. rewrite Z.div_add by lia. cbn. lia.
  - replace (w * 32 + 7) with (7 + (w * 4) * 8) by lia. rewrite Z.div_add by lia. cbn. lia.
Qed.

Lemma bps_pos d : 1 <= bps d.
Proof. unfold bps. lia. Qed.

Lemma bps_cases d : depth_ok d -> (d = 8 /\ bps d = 1) \/ (d = 16 /\ bps d = 2) \/ (d = 32 /\ bps d = 4).
Proof. unfold depth_ok, bps. intros [ -> | [ -> | -> ] ]; cbn; auto. Qed.

Lemma planes_fit_concat hd ps : header_ok hd -> planes_fit hd ps ->
  zlen (concat ps) = h_channels hd * plane_bytes hd.
Proof.
  intros Hh [Hn Hs]. unfold zlen in *.
  assert (0 <= plane_bytes hd).
  { unfold plane_bytes. destruct Hh as (?&?&?&?). pose proof (bps_pos (h_depth hd)). nia. }
  rewrite (concat_length_uniform ps (Z.to_nat (plane_bytes hd))).
  - rewrite Nat2Z.inj_mul, Z2Nat.id by lia. lia.
  - eapply Forall_impl; [|exact Hs]. cbn. intros p Hp. lia.
Qed.

Lemma zipp_check_exact d w rows : depth_ok d -> 0 <= w -> 0 <= rows ->
  zipp_check d w rows (w * rows * bps d) = Ok tt.
Proof.
  intros Hd Hw Hr. unfold zipp_check.
  destruct (bps_cases d Hd) as [[-> ->]|[[-> ->]|[-> ->]]]; cbn [Z.eqb].
  - destruct ((2 <=? w) && (1 <=? rows) && (w * rows * 1 <? w * rows)) eqn:E; [lia|reflexivity].
  - replace (Z.odd (w * rows * 2)) with false
      by (symmetry; rewrite Z.odd_mul; cbn; apply andb_false_r).
    rewrite Z.div_mul by lia.
    destruct ((2 <=? w) && (1 <=? rows) && (w * rows <? w * rows)) eqn:E; [lia|reflexivity].
  - destruct ((0 <? w * rows) && (w * rows * 4 <? 4 * w * rows)) eqn:E; [lia|reflexivity].
Qed.

(* what get_data gives back after set_data when the planes fit the header: exactly those planes,
   for every compression method *)
Lemma set_get_inverse c hd ps : header_ok hd -> planes_fit hd ps ->
  (do st <- set_data c hd ps; get_data st hd) = Ok ps.
Proof.
  intros Hh Hf.
  pose proof (planes_fit_concat hd ps Hh Hf) as Hlen.
  destruct Hh as (Hw & Hht & Hc & Hd). destruct Hf as [Hn Hs].
  pose proof (bps_pos (h_depth hd)) as Hb.
  set (data := concat ps) in *.
  assert (Hwant : h_w hd * (h_h hd * h_channels hd) * bps (h_depth hd) = zlen data).
  { rewrite Hlen. unfold plane_bytes. lia. }
  assert (Hsplit : chunks (Z.to_nat (zlen data / h_channels hd)) (Z.to_nat (h_channels hd)) data = ps).
  { rewrite Hlen. rewrite Z.mul_comm, Z.div_mul by lia.
    replace (Z.to_nat (h_channels hd)) with (length ps) by (unfold zlen in Hn; lia).
    apply chunks_concat. eapply Forall_impl; [|exact Hs]. cbn. unfold zlen. intros p Hp. lia. }
  assert (Hall : firstn (Z.to_nat (zlen data)) data = data)
    by (unfold zlen; rewrite Nat2Z.id; apply firstn_all).
  unfold set_data. fold data.
  destruct c; cbn [bind].
  - (* RAW *)
    unfold get_data, decompress_vis; cbn [i_comp i_vis bind]; cbv zeta.
    rewrite Hwant, Hall, Z.eqb_refl. cbn [bind]. now rewrite Hsplit.
  - (* RLE *)
    rewrite row_size_bps by assumption.
    replace (h_h hd * h_channels hd * (h_w hd * bps (h_depth hd))) with (zlen data) by lia.
    rewrite Hall.
    unfold get_data, decompress_vis; cbn [i_comp i_vis bind]; cbv zeta.
    rewrite row_size_bps by assumption.
    replace (Z.max (h_w hd * bps (h_depth hd)) 1) with (h_w hd * bps (h_depth hd)) by nia.
    replace (h_h hd * h_channels hd * (h_w hd * bps (h_depth hd))) with (zlen data) by lia.
    rewrite Hwant, Z.eqb_refl. cbn [bind]. now rewrite Hsplit.
  - (* ZIP *)
    unfold get_data, decompress_vis; cbn [i_comp i_vis bind]; cbv zeta.
    rewrite Hwant, Z.eqb_refl. cbn [bind]. now rewrite Hsplit.
  - (* ZIP with prediction *)
    rewrite <- Hwant. rewrite zipp_check_exact by (try assumption; nia). cbn [bind].
    unfold get_data, decompress_vis; cbn [i_comp i_vis bind]; cbv zeta.
    rewrite <- Hwant. rewrite zipp_check_exact by (try assumption; nia). cbn [bind].
    rewrite Z.eqb_refl. cbn [bind]. try rewrite Hwant. now rewrite Hsplit.
Qed.

Lemma decompress_vis_len st w rows d data :
  decompress_vis st w rows d = Ok data -> zlen data = w * rows * bps d.
Proof.
  unfold decompress_vis. destruct (i_comp st).
  - destruct (_ =? _) eqn:E; [|discriminate]. intro H; inversion H; subst. lia.
  - destruct (_ =? _); [|discriminate]. destruct (_ =? _) eqn:E; [|discriminate].
    intro H; inversion H; subst. lia.
  - destruct (_ =? _) eqn:E; [|discriminate]. intro H; inversion H; subst. lia.
  - destruct (zipp_check _ _ _ _); cbn [bind]; [|discriminate].
    destruct (_ =? _) eqn:E; [|discriminate]. intro H; inversion H; subst. lia.
Qed.

(* whatever get_data returns has the shape the header declares *)
Lemma get_data_fit st hd ps : header_ok hd -> get_data st hd = Ok ps -> planes_fit hd ps.
Proof.
  intros (Hw & Hh & Hc & Hd) H. unfold get_data in H.
  destruct (decompress_vis st (h_w hd) (h_h hd * h_channels hd) (h_depth hd)) as [data|] eqn:E;
    cbn [bind] in H; [|discriminate].
  inversion H; subst ps; clear H.
  apply decompress_vis_len in E.
  assert (Hq : zlen data / h_channels hd = plane_bytes hd).
  { rewrite E. unfold plane_bytes.
    replace (h_w hd * (h_h hd * h_channels hd) * bps (h_depth hd))
      with (h_w hd * h_h hd * bps (h_depth hd) * h_channels hd) by lia.
    apply Z.div_mul. lia. }
  pose proof (bps_pos (h_depth hd)).
  assert (0 <= plane_bytes hd) by (unfold plane_bytes; nia).
  split.
  - unfold zlen. rewrite chunks_length. lia.
  - rewrite Hq. eapply Forall_impl; [|apply chunks_sizes].
    + cbn. unfold zlen. intros p Hp. rewrite Hp. lia.
    + unfold zlen in E. apply Nat2Z.inj. rewrite Nat2Z.inj_mul, !Z2Nat.id by lia.
      rewrite E. unfold plane_bytes. lia.
Qed.

Lemma get_data_concat st hd ps : header_ok hd -> get_data st hd = Ok ps ->
  decompress_vis st (h_w hd) (h_h hd * h_channels hd) (h_depth hd) = Ok (concat ps).
Proof.
  intros (Hw & Hh & Hc & Hd) H. unfold get_data in H.
  destruct (decompress_vis st (h_w hd) (h_h hd * h_channels hd) (h_depth hd)) as [data|] eqn:E;
    cbn [bind] in H; [|discriminate].
  inversion H; subst ps; clear H. f_equal. symmetry.
  apply decompress_vis_len in E.
  pose proof (bps_pos (h_depth hd)).
  apply concat_chunks.
  apply Nat2Z.inj. rewrite Nat2Z.inj_mul, !Z2Nat.id.
  - fold (zlen data). rewrite E.
    replace (h_w hd * (h_h hd * h_channels hd) * bps (h_depth hd))
      with (h_w hd * h_h hd * bps (h_depth hd) * h_channels hd) by lia.
    rewrite Z.div_mul by lia. lia.
  - apply Z.div_pos; [apply zlen_nonneg|lia].
  - lia.
Qed.

(* ================================================================== save(): the merged image *)
Lemma clean_save c hd old rd t ti : save c hd false old rd t ti = Ok old.
Proof. reflexivity. Qed.

(* the rendered planes have the size of one plane of the header *)
Definition rendered_fit (hd : header) (rd : rendered) : Prop :=
  Forall (fun p => zlen p = plane_bytes hd) (rd_straight rd) /\
  Forall (fun p => zlen p = plane_bytes hd) (rd_white rd) /\
  zlen (rd_alpha rd) = plane_bytes hd /\
  length (rd_white rd) = length (rd_straight rd).

Definition chosen_color (hd : header) (rd : rendered) (transparency : bool) : list plane :=
  match h_cm hd with
  | CRgb => rd_white rd
  | _ => if transparency then rd_straight rd else rd_white rd
  end.

Lemma chosen_color_fit hd rd t : rendered_fit hd rd ->
  Forall (fun p => zlen p = plane_bytes hd) (chosen_color hd rd t) /\
  length (chosen_color hd rd t) = length (rd_straight rd).
Proof.
  intros (Hs & Hw & Ha & Hl). unfold chosen_color.
  destruct (h_cm hd), t; auto.
Qed.

(* the corrected save(): whatever the channel count, depth and compression, the merged image that is
   written reads back, has exactly the planes the header declares, holds the rendered colour in the
   colour planes and the rendered alpha in the transparency plane, and keeps every other plane *)
Lemma save_fixed_spec c hd old rd transp ti planes :
  fx_save c = true -> header_ok hd -> h_cm hd <> CBitmap ->
  get_data old hd = Ok planes -> rendered_fit hd rd ->
  (length (rd_straight rd) <= length planes)%nat -> 0 <= ti < h_channels hd ->
  let nc := length (rd_straight rd) in
  let transparency := transp && (nc <? length planes)%nat in
  exists st ps,
    save c hd true old rd transp ti = Ok st /\ get_data st hd = Ok ps /\
    planes_fit hd ps /\
    (transparency = false -> firstn nc ps = chosen_color hd rd false /\ skipn nc ps = skipn nc planes) /\
    (transparency = true -> nth (Z.to_nat ti) ps [] = rd_alpha rd /\
       forall i, (i < nc)%nat -> i <> Z.to_nat ti -> nth i ps [] = nth i (chosen_color hd rd true) []).
Proof.
  intros Hfx Hh Hcm Hold Hrd Hnc Hti nc transparency.
  pose proof (get_data_fit _ _ _ Hh Hold) as [Hpn Hps].
  destruct (chosen_color_fit hd rd transparency Hrd) as [Hcf Hcl].
  destruct Hrd as (Hs & Hw & Ha & Hl).
  set (color := chosen_color hd rd transparency) in *.
  set (planes1 := overwrite color planes).
  set (planes2 := if transparency then set_nth (Z.to_nat ti) (rd_alpha rd) planes1 else planes1).
  assert (Hfit2 : planes_fit hd planes2).
  { unfold planes_fit, planes2, zlen. destruct transparency.
    - rewrite set_nth_length. unfold planes1. rewrite overwrite_length. split; [exact Hpn|].
      apply set_nth_Forall; [exact Ha|]. apply overwrite_Forall; assumption.
    - unfold planes1. rewrite overwrite_length. split; [exact Hpn|].
      apply overwrite_Forall; assumption. }
  pose proof (set_get_inverse (i_comp old) hd planes2 Hh Hfit2) as Hinv.
  assert (Hsave : save c hd true old rd transp ti = set_data (i_comp old) hd planes2).
  { unfold save. cbn [negb]. rewrite Hfx. cbn [negb].
    assert (Hd1 : (h_depth hd =? 1) = false).
    { destruct Hh as (_ & _ & _ & [E|[E|E]]); rewrite E; reflexivity. }
    rewrite Hd1, Hold. cbn [bind].
    fold nc. replace (length planes <? nc)%nat with false by (symmetry; apply Nat.ltb_ge; exact Hnc).
    fold transparency. unfold planes2, planes1, color, chosen_color.
    destruct (h_cm hd); try congruence; reflexivity. }
  destruct (set_data (i_comp old) hd planes2) as [st|e] eqn:Est; cbn [bind] in Hinv; [|discriminate].
  exists st, planes2.
  split; [exact Hsave|]. split; [exact Hinv|]. split; [exact Hfit2|]. split.
  - intro Ht.
    assert (Hc' : color = chosen_color hd rd false) by (unfold color; now rewrite Ht).
    split.
    + unfold planes2, planes1. rewrite Ht. unfold nc. rewrite <- Hcl, <- Hc'.
      apply firstn_overwrite. rewrite Hcl. exact Hnc.
    + unfold planes2, planes1. rewrite Ht. unfold nc. rewrite <- Hcl. apply skipn_overwrite.
  - intro Ht.
    assert (Hc' : color = chosen_color hd rd true) by (unfold color; now rewrite Ht).
    split.
    + unfold planes2. rewrite Ht. apply nth_set_nth_same.
      unfold planes1. rewrite overwrite_length. unfold zlen in Hpn. lia.
    + intros i Hi Hne. unfold planes2. rewrite Ht.
      rewrite nth_set_nth_other by congruence.
      unfold planes1. rewrite <- Hc'.
      assert (Hf : firstn (length color) (overwrite color planes) = color)
        by (apply firstn_overwrite; rewrite Hcl; exact Hnc).
      rewrite <- Hf at 2. symmetry. apply nth_firstn_lt. rewrite Hcl. exact Hi.
Qed.

(* the code as it is: a forced composite always carries an alpha band and 8-bit samples *)
Definition rendered8 (hd : header) (rd : rendered) : Prop :=
  length (rd_straight rd) = Z.to_nat (cm_channels (h_cm hd)) /\
  Forall (fun p => zlen p = h_w hd * h_h hd) (rd_straight rd) /\
  zlen (rd_alpha rd) = h_w hd * h_h hd.

(* exactly these documents get a merged image that holds what the composite delivered *)
Definition unfixed_save_class (hd : header) : Prop :=
  h_depth hd = 8 /\ ((h_cm hd = CGray /\ h_channels hd = 2) \/ (h_cm hd = CRgb /\ h_channels hd = 4)).

Lemma save_unfixed_ok c hd old rd transp ti :
  fx_save c = false -> header_ok hd -> rendered8 hd rd -> unfixed_save_class hd ->
  exists st, save c hd true old rd transp ti = Ok st /\
             get_data st hd = Ok (rd_straight rd ++ [rd_alpha rd]).
Proof.
  intros Hfx Hh (Hn & Hs & Ha) (Hd & Hcls).
  assert (Hfit : planes_fit hd (rd_straight rd ++ [rd_alpha rd])).
  { unfold planes_fit, plane_bytes. rewrite Hd. change (bps 8) with 1. rewrite Z.mul_1_r. split.
    - rewrite zlen_app. unfold zlen at 1. rewrite Hn.
      destruct Hcls as [[E1 E2]|[E1 E2]]; rewrite E1, E2; reflexivity.
    - apply Forall_app; split; [exact Hs| constructor; [exact Ha| constructor]]. }
  pose proof (set_get_inverse (i_comp old) hd _ Hh Hfit) as Hinv.
  unfold save. cbn [negb]. rewrite Hfx. cbn [negb].
  destruct Hcls as [[E1 E2]|[E1 E2]]; unfold composite_pil_force; rewrite E1; cbn [bind r_bands];
    destruct (set_data (i_comp old) hd (rd_straight rd ++ [rd_alpha rd])) as [st|e];
    cbn [bind] in Hinv; try discriminate; exists st; split; auto.
Qed.

Lemma save_unfixed_only c hd old rd transp ti st :
  fx_save c = false -> header_ok hd -> rendered8 hd rd ->
  save c hd true old rd transp ti = Ok st ->
  get_data st hd = Ok (rd_straight rd ++ [rd_alpha rd]) ->
  unfixed_save_class hd.
Proof.
  intros Hfx Hh (Hn & Hs & Ha) Hsave Hget.
  pose proof (get_data_fit _ _ _ Hh Hget) as [Hcnt Hsz].
  destruct Hh as (Hw & Hht & Hc & Hd).
  unfold save in Hsave. cbn [negb] in Hsave. rewrite Hfx in Hsave. cbn [negb] in Hsave.
  rewrite zlen_app in Hcnt. unfold zlen in Hcnt at 1. rewrite Hn in Hcnt. cbn in Hcnt.
  apply Forall_app in Hsz as [_ Hsz]. inversion Hsz as [|? ? Hsa _]; subst.
  rewrite Ha in Hsa. unfold plane_bytes in Hsa.
  assert (Hb : bps (h_depth hd) = 1) by nia.
  assert (Hd8 : h_depth hd = 8).
  { destruct (bps_cases _ Hd) as [[? ?]|[[? ?]|[? ?]]]; lia. }
  split; [exact Hd8|].
  unfold composite_pil_force in Hsave.
  destruct (h_cm hd) eqn:Ecm; cbn [bind] in Hsave; try discriminate; cbn in Hcnt.
  - left. split; [reflexivity|lia].
  - right. split; [reflexivity|lia].
Qed.

(* ================================================================== layers: import then export *)
Definition with_opaque (r : raster) : raster :=
  match r_mode r with
  | ML => mkR MLA (r_w r) (r_h r) (r_bands r ++ [opaque (r_w r) (r_h r)])
  | MRGB => mkR MRGBA (r_w r) (r_h r) (r_bands r ++ [opaque (r_w r) (r_h r)])
  | _ => r
  end.

Lemma layer_topil_mk cm top left w h chans : 1 <= w -> 1 <= h ->
  layer_topil cm (mkL top left (top + h) (left + w) chans) =
  let color := map snd (filter (fun c => 0 <=? fst c) chans) in
  let expected := Z.to_nat (cm_channels cm) in
  if (length color <? expected)%nat then Err ValueErr
  else Ok (Some (post_process (mkR (cm_pil cm false) w h (firstn expected color))
                              (option_map snd (find (fun c => fst c =? -1) chans)))).
Proof.
  intros Hw Hh. unfold layer_topil, find_chan. cbn [l_right l_left l_bottom l_top l_chans].
  replace (left + w - left) with w by lia. replace (top + h - top) with h by lia.
  destruct ((w =? 0) || (h =? 0)) eqn:E; [lia|]. reflexivity.
Qed.

Section Laws.
  Variable conv : mode -> raster -> raster.
  Hypothesis conv_same : forall r, conv (r_mode r) r = r.
  Hypothesis conv_alpha : forall r, has_alpha (r_mode r) = true ->
    last_band (conv MRGBA r) = last_band r.

  (* import into a document whose PIL mode is the image's mode, then export: the image comes back,
     with an opaque alpha band where the image had none (L, RGB) *)
  Lemma layer_roundtrip c img top left :
    wf_raster img -> 1 <= r_w img -> 1 <= r_h img -> r_mode img <> M1 ->
    layer_topil (color_mode_of (r_mode img))
                (layer_frompil conv c (Some (r_mode img)) img top left)
    = Ok (Some (with_opaque img)).
  Proof.
    intros (Hw0 & Hh0 & Hlen & Hall) Hw Hh Hm.
    destruct img as [m w h bands]. cbn [r_mode r_w r_h r_bands] in *.
    destruct m; try congruence; cbn in Hlen;
      repeat (destruct bands as [|? bands]; try discriminate);
      unfold layer_frompil; cbn [r_mode mode_eqb mode_code Z.eqb has_alpha];
      match goal with |- context [conv ?m ?r] =>
        let E := fresh in pose proof (conv_same r) as E; cbn [r_mode] in E
      end.
    - (* L *)
      rewrite H. cbn [r_mode r_w r_h r_bands mode_eqb mode_code Z.eqb has_alpha base pil_channels firstn].
      destruct (fx_alpha c); rewrite layer_topil_mk by assumption; reflexivity.
    - (* LA *)
      rewrite H.
      pose proof (conv_alpha (mkR MLA w h [p; p0]) eq_refl) as Ea. rewrite Ea.
      cbn [r_mode r_w r_h r_bands mode_eqb mode_code Z.eqb has_alpha base pil_channels firstn last_band last].
      destruct (fx_alpha c); rewrite layer_topil_mk by assumption; reflexivity.
    - (* RGB *)
      rewrite H. cbn [r_mode r_w r_h r_bands mode_eqb mode_code Z.eqb has_alpha base pil_channels firstn].
      destruct (fx_alpha c); rewrite layer_topil_mk by assumption; reflexivity.
    - (* RGBA *)
      rewrite H.
      cbn [r_mode r_w r_h r_bands mode_eqb mode_code Z.eqb has_alpha base pil_channels firstn last_band last].
      destruct (fx_alpha c); rewrite layer_topil_mk by assumption; reflexivity.
    - (* CMYK: inverted on import (layers.py) and inverted back by post_process *)
      rewrite H.
      cbn [r_mode r_w r_h r_bands mode_eqb mode_code Z.eqb has_alpha base pil_channels firstn invert map Pos.eqb].
      destruct (fx_alpha c); rewrite layer_topil_mk by assumption;
        cbn -[inv_plane]; unfold invert; cbn -[inv_plane]; change (Pos.to_nat 4) with 4%nat; cbn -[inv_plane]; rewrite !inv_plane_inv; reflexivity.
  Qed.

  (* the NumPy export of the same layer: the stored planes (CMYK: stored inverted) then alpha *)
  Lemma layer_numpy_roundtrip c img top left :
    wf_raster img -> r_mode img <> M1 ->
    layer_numpy (color_mode_of (r_mode img))
                (layer_frompil conv c (Some (r_mode img)) img top left)
    = (if mode_eqb (r_mode img) MCMYK then map inv_plane (r_bands img) else color_bands img)
      ++ [if has_alpha (r_mode img) then last_band img else opaque (r_w img) (r_h img)].
  Proof.
    intros (Hw0 & Hh0 & Hlen & Hall) Hm.
    destruct img as [m w h bands]. cbn [r_mode r_w r_h r_bands] in *.
    destruct m; try congruence; cbn in Hlen;
      repeat (destruct bands as [|? bands]; try discriminate);
      unfold layer_frompil; cbn [r_mode mode_eqb mode_code Z.eqb has_alpha];
      match goal with |- context [conv ?m ?r] =>
        let E := fresh in pose proof (conv_same r) as E; cbn [r_mode] in E; rewrite E
      end.
    - destruct (fx_alpha c); reflexivity.
    - pose proof (conv_alpha (mkR MLA w h [p; p0]) eq_refl) as Ea. rewrite Ea.
      destruct (fx_alpha c); reflexivity.
    - destruct (fx_alpha c); reflexivity.
    - destruct (fx_alpha c); reflexivity.
    - destruct (fx_alpha c); reflexivity.
  Qed.

  (* corrected PixelLayer.frompil: the transparency channel of the layer is the alpha band of the
     image, whatever the document's mode is (even none) *)
  Lemma layer_alpha_kept c docpm img top left :
    fx_alpha c = true -> r_mode img <> M1 -> has_alpha (r_mode img) = true ->
    find_chan (-1) (layer_frompil conv c docpm img top left) = Some (last_band img).
  Proof.
    intros Hfx Hm Ha. unfold layer_frompil, find_chan. rewrite Hfx.
    replace (mode_eqb (r_mode img) M1) with false
      by (destruct (r_mode img); try reflexivity; congruence).
    rewrite Ha. cbn. now rewrite conv_alpha.
  Qed.
End Laws.

(* a tiny PIL stand-in that satisfies both laws: used for witnesses and examples only *)
Definition conv_simple (m : mode) (r : raster) : raster :=
  if mode_eqb m (r_mode r) then r
  else match r_mode r, m with
       | MRGBA, MRGB => mkR MRGB (r_w r) (r_h r) (firstn 3 (r_bands r))
       | MLA, ML => mkR ML (r_w r) (r_h r) (firstn 1 (r_bands r))
       | MLA, MRGBA => let l := nth 0 (r_bands r) [] in
                       mkR MRGBA (r_w r) (r_h r) [l; l; l; last_band r]
       | MRGB, MRGBA => mkR MRGBA (r_w r) (r_h r) (r_bands r ++ [opaque (r_w r) (r_h r)])
       | ML, MLA => mkR MLA (r_w r) (r_h r) (r_bands r ++ [opaque (r_w r) (r_h r)])
       | _, _ => mkR m (r_w r) (r_h r) (r_bands r)
       end.

Lemma conv_simple_same r : conv_simple (r_mode r) r = r.
Proof. unfold conv_simple, mode_eqb. now rewrite Z.eqb_refl. Qed.

Lemma conv_simple_alpha r : has_alpha (r_mode r) = true ->
  last_band (conv_simple MRGBA r) = last_band r.
Proof. destruct r as [[] w h b]; cbn; try discriminate; reflexivity. Qed.

(* ================================================================== layer exports agree *)
Lemma pil_numpy_agree_layer cm l r :
  layer_topil cm l = Ok (Some r) ->
  match cm with
  | CGray | CRgb => r_bands r = layer_numpy cm l
  | CCmyk => map inv_plane (r_bands r) ++
             match find_chan (-1) l with Some a => [a] | None => [] end = layer_numpy cm l
  | CBitmap => True
  end.
Proof.
  unfold layer_topil, layer_numpy.
  destruct (_ || _); [discriminate|].
  set (color := map snd (filter (fun c => 0 <=? fst c) (l_chans l))).
  destruct (_ <? _)%nat; [discriminate|].
  intro H; inversion H; subst r; clear H.
  destruct cm; cbn; auto.
  - destruct (find_chan (-1) l); cbn; [reflexivity| now rewrite app_nil_r].
  - destruct (find_chan (-1) l); cbn; [reflexivity| now rewrite app_nil_r].
  - unfold post_process. cbn [r_mode mode_eqb mode_code Z.eqb Pos.eqb cm_pil].
    destruct (find_chan (-1) l); cbn [putalpha invert r_mode r_bands];
      now rewrite inv_planes_inv.
Qed.

(* ================================================================== documents: import then export *)
Lemma zipw_length f a b : length a = length b -> length (zipw f a b) = length a.
Proof.
  revert b; induction a as [|x a IH]; intros [|y b] H; cbn in *; try discriminate; auto.
Qed.

Lemma doc_topil_after_set cmp hd planes transp : header_ok hd -> planes_fit hd planes ->
  (do st <- set_data cmp hd planes; doc_topil hd st transp) =
  Ok (unmatte (post_process
                 (mkR (cm_pil (h_cm hd) false) (h_w hd) (h_h hd)
                      (firstn (pil_channels (cm_pil (h_cm hd) false)) planes))
                 (if transp then Some (last planes []) else None))).
Proof.
  intros Hh Hf. pose proof (set_get_inverse cmp hd planes Hh Hf) as Hinv.
  destruct (set_data cmp hd planes) as [st|e]; cbn [bind] in *; [|discriminate].
  unfold doc_topil. rewrite Hinv. reflexivity.
Qed.

Lemma doc_numpy_after_set cmp hd planes : header_ok hd -> planes_fit hd planes ->
  (h_cm hd <> CRgb \/ (length planes <= 3)%nat) ->
  (do st <- set_data cmp hd planes; doc_numpy hd st) = Ok planes.
Proof.
  intros Hh Hf Hc. pose proof (set_get_inverse cmp hd planes Hh Hf) as Hinv.
  destruct (set_data cmp hd planes) as [st|e]; cbn [bind] in *; [|discriminate].
  unfold doc_numpy. rewrite Hinv. cbn [bind].
  destruct (h_cm hd); try reflexivity.
  destruct Hc as [Hc|Hc]; [congruence|].
  replace (3 <? length planes)%nat with false by (symmetry; apply Nat.ltb_ge; exact Hc).
  reflexivity.
Qed.

Lemma wf_plane_zlen w h p : 0 <= w -> 0 <= h -> wf_plane w h p -> zlen p = w * h * bps 8.
Proof.
  intros Hw Hh [Hl _]. unfold zlen, npix in *. rewrite Hl. change (bps 8) with 1.
  rewrite Z2Nat.id by nia. lia.
Qed.

Section DocLaws.
  Variable conv : mode -> raster -> raster.

  (* what a document made by PSDImage.frompil exports, mode by mode *)
  Definition doc_export (c : cfg) (cmp : comp) (img : raster) : res raster :=
    do x <- doc_frompil conv c cmp img;
    doc_topil (fst x) (snd x) (doc_has_transparency (fst x) 0).

  Definition doc_export_np (c : cfg) (cmp : comp) (img : raster) : res (list plane) :=
    do x <- doc_frompil conv c cmp img; doc_numpy (fst x) (snd x).

  Lemma doc_export_unfold c cmp img :
    doc_export c cmp img =
    (do st <- set_data cmp (fst (doc_frompil_planes conv c img)) (snd (doc_frompil_planes conv c img));
     doc_topil (fst (doc_frompil_planes conv c img)) st
               (doc_has_transparency (fst (doc_frompil_planes conv c img)) 0)).
  Proof.
    unfold doc_export, doc_frompil. destruct (doc_frompil_planes conv c img) as [hd planes].
    cbn [fst snd]. destruct (set_data cmp hd planes); reflexivity.
  Qed.

  Lemma doc_export_np_unfold c cmp img :
    doc_export_np c cmp img =
    (do st <- set_data cmp (fst (doc_frompil_planes conv c img)) (snd (doc_frompil_planes conv c img));
     doc_numpy (fst (doc_frompil_planes conv c img)) st).
  Proof.
    unfold doc_export_np, doc_frompil. destruct (doc_frompil_planes conv c img) as [hd planes].
    cbn [fst snd]. destruct (set_data cmp hd planes); reflexivity.
  Qed.

  Lemma doc_export_spec c cmp img :
    wf_raster img -> 1 <= r_w img -> 1 <= r_h img -> r_mode img <> M1 ->
    doc_export c cmp img =
    Ok (match r_mode img with
        | MCMYK => if fx_cmyk c then img else invert img
        | MRGBA => if fx_matte c then unmatte (matte img) else unmatte img
        | _ => img
        end).
  Proof.
    intros (Hw0 & Hh0 & Hlen & Hall) Hw Hh Hm.
    destruct img as [m w h bands]. cbn [r_mode r_w r_h r_bands] in *.
    rewrite doc_export_unfold. unfold doc_frompil_planes.
    assert (Hz : forall p, wf_plane w h p -> zlen p = w * h * bps 8)
      by (intros; apply wf_plane_zlen; auto).
    assert (Hok : forall cm ch, 1 <= ch -> header_ok (mkH cm ch w h 8))
      by (intros; unfold header_ok, depth_ok; cbn; auto).
    assert (Hfit : forall cm ch ps, zlen ps = ch -> Forall (fun p => zlen p = w * h * bps 8) ps ->
                                    planes_fit (mkH cm ch w h 8) ps)
      by (intros; split; auto).
    destruct m; try congruence; cbn in Hlen;
      repeat (destruct bands as [|? bands]; try discriminate);
      repeat match goal with H : Forall _ (_ :: _) |- _ => inversion H; clear H; subst end;
      replace (fx_bitmap c && mode_eqb _ M1) with false by (now rewrite andb_false_r);
      cbn [r_mode r_w r_h r_bands mode_eqb mode_code Z.eqb Pos.eqb andb].
    - (* L *)
      rewrite !andb_false_r.
      unfold make_header; cbn [fst snd r_mode r_w r_h r_bands mode_eqb mode_code Z.eqb Pos.eqb
           color_mode_of has_alpha cm_channels Z.add].
      rewrite doc_topil_after_set; [reflexivity| apply Hok; lia | apply Hfit; [reflexivity|]; repeat constructor; auto].
    - (* LA *)
      rewrite !andb_false_r.
      unfold make_header; cbn [fst snd r_mode r_w r_h r_bands mode_eqb mode_code Z.eqb Pos.eqb
           color_mode_of has_alpha cm_channels Z.add].
      rewrite doc_topil_after_set; [reflexivity| apply Hok; lia | apply Hfit; [reflexivity|]; repeat constructor; auto].
    - (* RGB *)
      rewrite !andb_false_r.
      unfold make_header; cbn [fst snd r_mode r_w r_h r_bands mode_eqb mode_code Z.eqb Pos.eqb
           color_mode_of has_alpha cm_channels Z.add].
      rewrite doc_topil_after_set; [reflexivity| apply Hok; lia | apply Hfit; [reflexivity|]; repeat constructor; auto].
    - (* RGBA *)
      rewrite andb_false_r, andb_true_r.
      destruct (fx_matte c).
      + unfold make_header; cbn [fst snd r_mode r_w r_h r_bands mode_eqb mode_code Z.eqb Pos.eqb
             color_mode_of has_alpha cm_channels Z.add matte map_rgba color_bands base
             nbands firstn last_band last map app].
        rewrite doc_topil_after_set; [reflexivity| apply Hok; lia | apply Hfit; [reflexivity|]].
        assert (Hq : forall q, wf_plane w h q -> zlen (zipw matte_px q p2) = w * h * bps 8).
        { intros q Hq. unfold zlen. rewrite zipw_length.
          - fold (zlen q). auto.
          - destruct Hq as [Hq _]. match goal with H : wf_plane w h p2 |- _ => destruct H as [Hl5 _] end. congruence. }
        repeat constructor; auto.
      + unfold make_header; cbn [fst snd r_mode r_w r_h r_bands mode_eqb mode_code Z.eqb Pos.eqb
             color_mode_of has_alpha cm_channels Z.add].
        rewrite doc_topil_after_set; [reflexivity| apply Hok; lia | apply Hfit; [reflexivity|]; repeat constructor; auto].
    - (* CMYK *)
      rewrite andb_true_r.
      destruct (fx_cmyk c).
      + unfold make_header; cbn -[inv_plane zlen bps].
        rewrite doc_topil_after_set.
        * cbn -[inv_plane]. unfold unmatte, map_rgba, invert. cbn -[inv_plane].
          now rewrite !inv_plane_inv.
        * apply Hok; lia.
        * apply Hfit; [reflexivity|].
          repeat constructor; unfold zlen; rewrite inv_plane_length;
            fold (zlen p) (zlen p0) (zlen p1) (zlen p2); auto.
      + rewrite andb_false_r.
        unfold make_header; cbn [fst snd r_mode r_w r_h r_bands mode_eqb mode_code Z.eqb Pos.eqb
             color_mode_of has_alpha cm_channels Z.add].
        rewrite doc_topil_after_set; [reflexivity| apply Hok; lia | apply Hfit; [reflexivity|]; repeat constructor; auto].
  Qed.

  (* the NumPy export of the same document: the stored planes as they are (no inversion) *)
  Lemma doc_export_np_spec c cmp img :
    wf_raster img -> 1 <= r_w img -> 1 <= r_h img ->
    r_mode img = ML \/ r_mode img = MLA \/ r_mode img = MRGB \/ r_mode img = MCMYK ->
    doc_export_np c cmp img =
    Ok (if mode_eqb (r_mode img) MCMYK && fx_cmyk c then map inv_plane (r_bands img) else r_bands img).
  Proof.
    intros (Hw0 & Hh0 & Hlen & Hall) Hw Hh Hm.
    destruct img as [m w h bands]. cbn [r_mode r_w r_h r_bands] in *.
    rewrite doc_export_np_unfold. unfold doc_frompil_planes.
    assert (Hz : forall p, wf_plane w h p -> zlen p = w * h * bps 8)
      by (intros; apply wf_plane_zlen; auto).
    assert (Hok : forall cm ch, 1 <= ch -> header_ok (mkH cm ch w h 8))
      by (intros; unfold header_ok, depth_ok; cbn; auto).
    assert (Hfit : forall cm ch ps, zlen ps = ch -> Forall (fun p => zlen p = w * h * bps 8) ps ->
                                    planes_fit (mkH cm ch w h 8) ps)
      by (intros; split; auto).
    destruct Hm as [->|[->|[->| ->]]]; cbn in Hlen;
      repeat (destruct bands as [|? bands]; try discriminate);
      repeat match goal with H : Forall _ (_ :: _) |- _ => inversion H; clear H; subst end;
      replace (fx_bitmap c && mode_eqb _ M1) with false by (now rewrite andb_false_r);
      cbn [r_mode r_w r_h r_bands mode_eqb mode_code Z.eqb Pos.eqb andb].
    - rewrite !andb_false_r. unfold make_header.
      cbn [fst snd r_mode r_w r_h r_bands mode_eqb mode_code Z.eqb Pos.eqb color_mode_of has_alpha cm_channels Z.add].
      rewrite doc_numpy_after_set; [reflexivity| apply Hok; lia | apply Hfit; [reflexivity|]; repeat constructor; auto | left; discriminate].
    - rewrite !andb_false_r. unfold make_header.
      cbn [fst snd r_mode r_w r_h r_bands mode_eqb mode_code Z.eqb Pos.eqb color_mode_of has_alpha cm_channels Z.add].
      rewrite doc_numpy_after_set; [reflexivity| apply Hok; lia | apply Hfit; [reflexivity|]; repeat constructor; auto | left; discriminate].
    - rewrite !andb_false_r. unfold make_header.
      cbn [fst snd r_mode r_w r_h r_bands mode_eqb mode_code Z.eqb Pos.eqb color_mode_of has_alpha cm_channels Z.add].
      rewrite doc_numpy_after_set; [reflexivity| apply Hok; lia | apply Hfit; [reflexivity|]; repeat constructor; auto | right; cbn; lia].
    - rewrite andb_true_r. destruct (fx_cmyk c).
      + unfold make_header. cbn -[inv_plane zlen bps].
        rewrite doc_numpy_after_set; [reflexivity| apply Hok; lia | | left; discriminate].
        apply Hfit; [reflexivity|].
        repeat constructor; unfold zlen; rewrite inv_plane_length;
          fold (zlen p) (zlen p0) (zlen p1) (zlen p2); auto.
      + rewrite andb_false_r. unfold make_header.
        cbn [fst snd r_mode r_w r_h r_bands mode_eqb mode_code Z.eqb Pos.eqb color_mode_of has_alpha cm_channels Z.add].
        rewrite doc_numpy_after_set; [reflexivity| apply Hok; lia | apply Hfit; [reflexivity|]; repeat constructor; auto | left; discriminate].
  Qed.
End DocLaws.

(* alpha survives the white matte and its removal; colours of opaque pixels are exact *)
Lemma unmatte_matte_alpha r : r_mode r = MRGBA -> last_band (unmatte (matte r)) = last_band r.
Proof.
  intro Hm. unfold unmatte, matte, map_rgba. rewrite Hm. cbn [r_mode].
  unfold last_band. cbn [r_bands]. rewrite !last_last. reflexivity.
Qed.

Lemma zipw_matte_unmatte_opaque p a :
  bytes p -> length a = length p -> Forall (fun x => x = 255) a ->
  zipw unmatte_px (zipw matte_px p a) a = p.
Proof.
  intros Hp; revert a; induction Hp as [|x p Hx _ IH]; intros [|y a] Hl Ha; cbn in *;
    try discriminate; [reflexivity|].
  inversion Ha; subst. f_equal.
  - now apply matte_unmatte_opaque.
  - apply IH; auto.
Qed.

(* ================================================================== several saves of one object *)
Lemma session_app c hd s pre post :
  session c hd s (pre ++ post) = session c hd s pre ++ session c hd (state_after c hd s pre) post.
Proof.
  revert s; induction pre as [|st pre IH]; intro s; [reflexivity|].
  destruct st; cbn [app session state_after fold_left]; rewrite IH; reflexivity.
Qed.

Lemma state_after_flag c hd s steps :
  fst (state_after c hd s steps) = fst s || existsb is_struct steps.
Proof.
  revert s; induction steps as [|st steps IH]; intro s; cbn [state_after fold_left existsb].
  - now rewrite orb_false_r.
  - fold (state_after c hd (step_state c hd s st) steps). rewrite IH.
    destruct st; cbn [step_state is_struct fst].
    + now rewrite orb_true_r.
    + reflexivity.
    + destruct (save c hd (fst s) (snd s) rd transp tindex); reflexivity.
Qed.

(* the save() that follows any history is the save of a dirty document as soon as the history
   contains one structural edit - however many saves and attribute edits lie in between *)
Lemma session_save_after c hd s pre rd tr ti :
  session c hd s (pre ++ [SSave rd tr ti]) =
  session c hd s pre ++
  [save c hd (fst s || existsb is_struct pre) (snd (state_after c hd s pre)) rd tr ti].
Proof.
  rewrite session_app. cbn [session]. now rewrite state_after_flag.
Qed.

(* ================================================================== channel selectors *)
Lemma layer_numpy_split cm l : layer_numpy cm l = layer_numpy_color cm l ++ layer_numpy_shape l.
Proof. reflexivity. Qed.

Lemma doc_numpy_plain hd st : h_cm hd <> CRgb -> doc_numpy hd st = get_data st hd.
Proof.
  intro H. unfold doc_numpy. destruct (get_data st hd) as [ps|e]; cbn [bind]; [|reflexivity].
  destruct (h_cm hd); try reflexivity. congruence.
Qed.

(* topil(k) and plane k of numpy() are the same samples (documents whose NumPy export is not
   un-matted: every mode but RGB; RGB with at most 3 planes is covered by [doc_channel_agree_rgb3]) *)
Lemma doc_channel_agree hd st k p ps : h_cm hd <> CRgb -> 0 <= k ->
  doc_topil_chan hd st k = Ok (Some p) -> doc_numpy_sel hd st true 0 = Ok ps ->
  nth_error ps (Z.to_nat k) = Some p.
Proof.
  intros Hc Hk Ht Hn. unfold doc_numpy_sel in Hn. cbn [Z.eqb andb] in Hn.
  rewrite doc_numpy_plain in Hn by assumption.
  unfold doc_topil_chan in Ht. destruct (h_channels hd <=? k); [discriminate|].
  destruct (get_data st hd) as [planes|e]; cbn [bind] in *; [|discriminate].
  inversion Hn; subst. now inversion Ht.
Qed.

(* numpy("shape") of a document with transparency is the plane topil(TRANSPARENCY_MASK) returns,
   when the transparency plane is the last one (channels = colour planes + 1) *)
Lemma doc_shape_agree hd st a b :
  h_cm hd <> CRgb -> h_cm hd <> CBitmap -> h_channels hd = cm_channels (h_cm hd) + 1 -> header_ok hd ->
  doc_numpy_sel hd st true 2 = Ok [a] -> doc_topil_transparency hd st = Ok (Some b) -> a = b.
Proof.
  intros Hc Hb Hch Hh Hn Ht. unfold doc_numpy_sel in Hn. cbn [Z.eqb andb negb] in Hn.
  rewrite doc_numpy_plain in Hn by assumption.
  unfold doc_topil_transparency, doc_topil_chan in Ht.
  assert (Hk : Z.of_nat (pil_channels (cm_pil (h_cm hd) false)) = cm_channels (h_cm hd))
    by (destruct (h_cm hd); try congruence; reflexivity).
  rewrite Hk in Ht.
  destruct (h_channels hd <=? cm_channels (h_cm hd)) eqn:E; [lia|].
  destruct (get_data st hd) as [planes|e] eqn:Eg; cbn [bind] in *; [|discriminate].
  pose proof (get_data_fit _ _ _ Hh Eg) as [Hlen _].
  inversion Hn; subst a; clear Hn. inversion Ht as [Hnth]; clear Ht.
  assert (Hl : length planes = S (Z.to_nat (cm_channels (h_cm hd)))).
  { unfold zlen in Hlen. destruct (h_cm hd); cbn in *; lia. }
  clear - Hnth Hl. revert Hnth Hl. generalize (Z.to_nat (cm_channels (h_cm hd))) as n.
  induction planes as [|x planes IH]; intros n Hnth Hl; [discriminate|].
  destruct n.
  - destruct planes; [|discriminate]. cbn in *. congruence.
  - cbn [nth_error] in Hnth. destruct planes as [|y planes]; [discriminate|].
    change (last (x :: y :: planes) []) with (last (y :: planes) []).
    apply (IH n); [exact Hnth| cbn in *; lia].
Qed.

(* ================================================================== 16-bit samples *)
Lemma dec16_np_enc v : byte v -> dec16_np v v = v.
Proof.
  unfold byte, dec16_np. intro H. replace (v * 256 + v) with (v * 257) by lia.
  apply Z.div_mul. lia.
Qed.

Lemma dec16_pil_enc v : byte v -> dec16_pil v v = v.
Proof.
  unfold byte, dec16_pil. intro H. rewrite Z.div_add_l by lia. rewrite Z.div_small by lia. lia.
Qed.

Lemma enc_plane_16_length p : zlen (enc_plane 16 p) = 2 * zlen p.
Proof.
  unfold zlen, enc_plane. induction p; cbn [flat_map]; [reflexivity|].
  rewrite app_length. cbn [enc_sample Z.eqb Pos.eqb length] in *. lia.
Qed.
