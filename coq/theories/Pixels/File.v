(* Pixels/File.v -- the plane plumbing of C07 composed with the codec theorems (Compression/ProofsCodec.v,
   Properties/C04.v roundtrip) and the file theorems (Psd/Proofs.v psd_rt = Properties/C01.v psd_roundtrip)
   through Compression/File.v: an imported image goes through ChannelData.set_data / ImageData.set_data,
   write_psd, the bytes, read_psd and get_data before it is exported.  Here the codecs are no longer
   represented by "what a correct decoder recovers": they are the modelled codecs of C04/C05 (zlib is
   a Section variable with its inverse law, the RLE decoder any conforming decoder). *)
From Coq Require Import ZArith List Bool Lia ZifyBool.
From PsdV Require Import Base.Prelude Pixels.Model Pixels.Proofs.
From PsdV Require Compression.Model Compression.Proofs Compression.ProofsCodec Compression.File.
From PsdV Require Psd.Codec Psd.Model Psd.Proofs.
Import ListNotations.
Open Scope Z_scope.

Module CM := PsdV.Compression.Model.
Module CPr := PsdV.Compression.Proofs.
Module CP := PsdV.Compression.ProofsCodec.
Module CF := PsdV.Compression.File.
Module PM := PsdV.Psd.Model.
Module PC := PsdV.Psd.Codec.

(* ---------------------------------------------------------------- mapM over res *)
Fixpoint mapM {A B} (f : A -> res B) (l : list A) : res (list B) :=
  match l with
  | [] => Ok []
  | x :: t => do y <- f x; do ys <- mapM f t; Ok (y :: ys)
  end.

Lemma mapM_inverse {A B} (f : A -> res B) (g : B -> res A) (P : A -> Prop) l l' :
  (forall x y, P x -> f x = Ok y -> g y = Ok x) -> Forall P l ->
  mapM f l = Ok l' -> mapM g l' = Ok l.
Proof.
  intros H HP; revert l'; induction HP as [|x l Hx _ IH]; intros l' Hm; cbn in Hm.
  - inversion Hm. reflexivity.
  - destruct (f x) as [y|] eqn:E; cbn [bind] in Hm; [|discriminate].
    destruct (mapM f l) as [ys|]; cbn [bind] in Hm; [|discriminate].
    inversion Hm; subst l'. cbn. rewrite (H x y Hx E). cbn [bind]. rewrite (IH ys eq_refl). reflexivity.
Qed.

Lemma mapM_length {A B} (f : A -> res B) l l' : mapM f l = Ok l' -> length l' = length l.
Proof.
  revert l'; induction l as [|x l IH]; intros l' H; cbn in H.
  - inversion H; reflexivity.
  - destruct (f x); cbn [bind] in H; [|discriminate].
    destruct (mapM f l) as [ys|]; cbn [bind] in H; [|discriminate].
    inversion H; subst. cbn. now rewrite (IH ys eq_refl).
Qed.

(* ---------------------------------------------------------------- what PixelLayer.frompil builds *)
Definition stored_color (img : raster) : list plane :=
  if mode_eqb (r_mode img) MCMYK then map inv_plane (r_bands img) else color_bands img.
Definition stored_alpha (img : raster) : plane :=
  if has_alpha (r_mode img) then last_band img else opaque (r_w img) (r_h img).

Section Laws.
  Variable conv : mode -> raster -> raster.
  Hypothesis conv_same : forall r, conv (r_mode r) r = r.
  Hypothesis conv_alpha : forall r, has_alpha (r_mode r) = true ->
    last_band (conv MRGBA r) = last_band r.

  Lemma layer_frompil_same_mode c img top left :
    wf_raster img -> r_mode img <> M1 ->
    layer_frompil conv c (Some (r_mode img)) img top left =
    mkL top left (top + r_h img) (left + r_w img)
        ((-1, stored_alpha img) :: number_from 0 (stored_color img)).
  Proof.
    intros (Hw0 & Hh0 & Hlen & Hall) Hm.
    destruct img as [m w h bands]. cbn [r_mode r_w r_h r_bands] in *.
    unfold stored_alpha, stored_color.
    destruct m; try congruence; cbn in Hlen;
      repeat (destruct bands as [|? bands]; try discriminate);
      unfold layer_frompil; cbn [r_mode mode_eqb mode_code Z.eqb Pos.eqb has_alpha];
      match goal with |- context [conv ?m ?r] =>
        let E := fresh in pose proof (conv_same r) as E; cbn [r_mode] in E; rewrite E
      end.
    - destruct (fx_alpha c); reflexivity.
    - pose proof (conv_alpha (mkR MLA w h [p; p0]) eq_refl) as Ea. rewrite Ea.
      destruct (fx_alpha c); reflexivity.
    - destruct (fx_alpha c); reflexivity.
    - destruct (fx_alpha c); reflexivity.
    - destruct (fx_alpha c); reflexivity.
  Qed.
End Laws.

(* ---------------------------------------------------------------- planes as rasters of the codec model *)
Lemma row_size_8 w : CM.row_size w 8 = w.
Proof. unfold CM.row_size. replace (w * 8 + 7) with (7 + w * 8) by lia. rewrite Z.div_add by lia. reflexivity. Qed.

Lemma wf_plane_raster w h p : 0 <= w -> 0 <= h -> wf_plane w h p -> CP.raster p w h 8.
Proof.
  intros Hw Hh [Hl Hb]. unfold CP.raster, CP.depth_ok. rewrite row_size_8.
  repeat split; auto. unfold CM.len. rewrite Hl. unfold npix. rewrite Z2Nat.id by nia. lia.
Qed.

Lemma opaque_wf w h : wf_plane w h (opaque w h).
Proof.
  unfold wf_plane, opaque. split; [apply repeat_length|].
  apply Forall_forall. intros x Hx. apply repeat_spec in Hx. subst. unfold byte. lia.
Qed.

Lemma inv_plane_wf w h p : wf_plane w h p -> wf_plane w h (inv_plane p).
Proof. intros [Hl Hb]. split; [now rewrite inv_plane_length | now apply inv_plane_bytes]. Qed.

Lemma stored_planes_wf img : wf_raster img -> r_mode img <> M1 ->
  Forall (wf_plane (r_w img) (r_h img)) (stored_alpha img :: stored_color img).
Proof.
  intros (Hw0 & Hh0 & Hlen & Hall) Hm.
  destruct img as [m w h bands]. cbn [r_mode r_w r_h r_bands] in *.
  unfold stored_alpha, stored_color, color_bands, last_band. cbn [r_mode r_w r_h r_bands].
  destruct m; try congruence; cbn in Hlen;
    repeat (destruct bands as [|? bands]; try discriminate);
    repeat match goal with H : Forall _ (_ :: _) |- _ => inversion H; clear H; subst end;
    cbn -[inv_plane opaque wf_plane]; repeat first [apply Forall_nil | apply Forall_cons];
    auto using opaque_wf, inv_plane_wf.
Qed.

(* ---------------------------------------------------------------- a layer through the file *)
Section PixFile.
Variable zc : list Z -> list Z.
Variable zd : list Z -> option (list Z).
Hypothesis zlib_inverse : forall x, zd (zc x) = Some x.
Variable rdec : list Z -> Z -> res (list Z).
Hypothesis rdec_conforming : CPr.conforming_decoder rdec.
Variable enc_s : list Z -> res (list Z).
Variable dec_s : list Z -> res (list Z).

(* ChannelData(compression).set_data(plane, width, height, 8, version) as the pair the file holds
   (PixelLayer.frompil with the version of the document, f478b9b) *)
Definition chan_stored (c : CM.codec) (w h version : Z) (p : plane) : res PM.channel_data :=
  do cd <- CM.cd_set_data zc {| CM.cd_comp := c; CM.cd_data := [] |} p w h 8 version;
  Ok (CF.to_file cd).
(* ChannelData.get_data(width, height, depth, version) of what was read from the file *)
Definition chan_loaded (w h depth version : Z) (cd : PM.channel_data) : res plane :=
  CM.cd_get_data zd rdec (CF.of_file cd) w h depth version.

Definition store_layer (c : CM.codec) (version : Z) (l : layer) : res (list PM.channel_data) :=
  mapM (chan_stored c (l_right l - l_left l) (l_bottom l - l_top l) version) (map snd (l_chans l)).
(* the layer object after open(): geometry and channel ids from the record (C01), planes decoded *)
Definition load_layer (l0 : layer) (depth version : Z) (cds : list PM.channel_data) : res layer :=
  do ps <- mapM (chan_loaded (l_right l0 - l_left l0) (l_bottom l0 - l_top l0) depth version) cds;
  Ok (mkL (l_top l0) (l_left l0) (l_bottom l0) (l_right l0) (combine (map fst (l_chans l0)) ps)).

Lemma combine_fst_snd {A B} (l : list (A * B)) : combine (map fst l) (map snd l) = l.
Proof. induction l as [|[a b] l IH]; cbn; [reflexivity| now rewrite IH]. Qed.

Lemma codec_guard_8 c : CP.codec_guard c 8.
Proof. destruct c; cbn; auto. discriminate. Qed.

(* any layer whose planes are 8-bit rasters of its own size: stored in a well-formed 8-bit document
   as the channels of layer i, written, read back and decoded, it is the same layer *)
Theorem layer_survives_file : forall pad d i l c cds bs n,
  0 < pad -> PM.wf_psd enc_s dec_s d = true -> PM.h_depth (PM.p_header d) = 8 ->
  Forall (fun p => CP.raster p (l_right l - l_left l) (l_bottom l - l_top l) 8) (map snd (l_chans l)) ->
  store_layer c (PM.h_version (PM.p_header d)) l = Ok cds ->
  nth_error (CF.chans_of d) i = Some cds ->
  PM.write_psd enc_s pad d = Ok (bs, n) ->
  exists d2, PM.read_psd dec_s bs = Ok d2 /\
    nth_error (CF.chans_of d2) i = Some cds /\
    load_layer l (PM.h_depth (PM.p_header d2)) (PM.h_version (PM.p_header d2)) cds = Ok l.
Proof.
  intros pad d i l c cds bs n Hpad Hwf Hd HR HS HN HW.
  exists (PM.psd_after_write d).
  split; [apply (Psd.Proofs.psd_rt enc_s dec_s pad d bs n Hpad Hwf HW)|].
  split; [rewrite CF.chans_after_write; exact HN|].
  unfold load_layer. cbn [PM.psd_after_write PM.p_header]. rewrite Hd.
  unfold store_layer in HS.
  set (w := l_right l - l_left l) in *. set (h := l_bottom l - l_top l) in *.
  assert (Hinv : forall p cd, CP.raster p w h 8 ->
            chan_stored c w h (PM.h_version (PM.p_header d)) p = Ok cd ->
            chan_loaded w h 8 (PM.h_version (PM.p_header d)) cd = Ok p).
  { intros p cd HRp HSp. unfold chan_stored in HSp.
    destruct (CM.cd_set_data zc {| CM.cd_comp := c; CM.cd_data := [] |} p w h 8
                (PM.h_version (PM.p_header d))) as [cd'|] eqn:E; cbn [bind] in HSp; [|discriminate].
    inversion HSp; subst cd. unfold chan_loaded. rewrite CF.of_to_file.
    apply (CP.channel_data_roundtrip zc zd zlib_inverse rdec rdec_conforming _ cd' p _ _ 8 _ HRp
             (codec_guard_8 _) E). }
  rewrite (mapM_inverse (chan_stored c w h (PM.h_version (PM.p_header d)))
                        (chan_loaded w h 8 (PM.h_version (PM.p_header d)))
                        (fun p => CP.raster p w h 8) _ _ Hinv HR HS).
  cbn [bind]. rewrite combine_fst_snd. destruct l; reflexivity.
Qed.

Variable conv : mode -> raster -> raster.
Hypothesis conv_same : forall r, conv (r_mode r) r = r.
Hypothesis conv_alpha : forall r, has_alpha (r_mode r) = true ->
  last_band (conv MRGBA r) = last_band r.

(* C07, layers, end to end: image -> PixelLayer.frompil -> ChannelData.set_data (any of the four
   compressions) -> channels of layer i of a well-formed 8-bit document (file version 1 or 2) ->
   write_psd -> bytes -> read_psd -> ChannelData.get_data -> topil() / numpy():
   the image (opaque alpha added for L / RGB), and the stored samples (CMYK inverted) then alpha. *)
Theorem layer_import_export_through_file : forall pad d i cfg0 img top left c cds bs n,
  0 < pad -> PM.wf_psd enc_s dec_s d = true -> PM.h_depth (PM.p_header d) = 8 ->
  wf_raster img -> 1 <= r_w img -> 1 <= r_h img -> r_mode img <> M1 ->
  let l := layer_frompil conv cfg0 (Some (r_mode img)) img top left in
  store_layer c (PM.h_version (PM.p_header d)) l = Ok cds ->
  nth_error (CF.chans_of d) i = Some cds ->
  PM.write_psd enc_s pad d = Ok (bs, n) ->
  exists d2 l2, PM.read_psd dec_s bs = Ok d2 /\
    nth_error (CF.chans_of d2) i = Some cds /\
    load_layer l (PM.h_depth (PM.p_header d2)) (PM.h_version (PM.p_header d2)) cds = Ok l2 /\
    layer_topil (color_mode_of (r_mode img)) l2 = Ok (Some (with_opaque img)) /\
    layer_numpy (color_mode_of (r_mode img)) l2 = stored_color img ++ [stored_alpha img].
Proof.
  intros pad d i cfg0 img top left c cds bs n Hpad Hwf Hd Himg Hw Hh Hm l HS HN HW.
  assert (El : l = mkL top left (top + r_h img) (left + r_w img)
                       ((-1, stored_alpha img) :: number_from 0 (stored_color img)))
    by (apply layer_frompil_same_mode; assumption).
  assert (HR : Forall (fun p => CP.raster p (l_right l - l_left l) (l_bottom l - l_top l) 8)
                      (map snd (l_chans l))).
  { rewrite El. cbn [l_right l_left l_bottom l_top l_chans map snd].
    replace (left + r_w img - left) with (r_w img) by lia.
    replace (top + r_h img - top) with (r_h img) by lia.
    pose proof (stored_planes_wf img Himg Hm) as Hp.
    destruct Himg as (Hw0 & Hh0 & _).
    inversion Hp as [|? ? Ha Hc]; subst. constructor; [now apply wf_plane_raster|].
    clear - Hc Hw0 Hh0. generalize 0 as k. induction Hc as [|p ps Hp _ IH]; intro k; cbn; constructor.
    - now apply wf_plane_raster.
    - apply IH. }
  destruct (layer_survives_file pad d i l c cds bs n Hpad Hwf Hd HR HS HN HW) as (d2 & Hr & Hn2 & Hl).
  exists d2, l. repeat split; auto.
  - unfold l. apply layer_roundtrip; assumption.
  - unfold l. rewrite (layer_numpy_roundtrip conv conv_same conv_alpha) by assumption.
    reflexivity.
Qed.

(* ---------------------------------------------------------------- a document through the file *)
Lemma zipw_matte_bytes p a : bytes p -> bytes a -> bytes (zipw matte_px p a).
Proof.
  intros Hp; revert a; induction Hp as [|x p Hx _ IH]; intros [|y a] Ha; cbn; try constructor.
  - inversion Ha; subst. now apply matte_px_byte.
  - inversion Ha; subst. now apply IH.
Qed.

(* topil() as a function of the planes get_data returned *)
Definition topil_of_planes (hd : header) (planes : list plane) (transp : bool) : raster :=
  unmatte (post_process
             (mkR (cm_pil (h_cm hd) false) (h_w hd) (h_h hd)
                  (firstn (pil_channels (cm_pil (h_cm hd) false)) planes))
             (if transp then Some (last planes []) else None)).

Lemma doc_frompil_planes_fit c img :
  wf_raster img -> 1 <= r_w img -> 1 <= r_h img -> r_mode img <> M1 ->
  let hp := doc_frompil_planes conv c img in
  header_ok (fst hp) /\ planes_fit (fst hp) (snd hp) /\ Forall bytes (snd hp) /\
  h_w (fst hp) = r_w img /\ h_h (fst hp) = r_h img /\ h_depth (fst hp) = 8.
Proof.
  clear conv_same conv_alpha.
  intros (Hw0 & Hh0 & Hlen & Hall) Hw Hh Hm.
  destruct img as [m w h bands]. cbn [r_mode r_w r_h r_bands] in *.
  unfold doc_frompil_planes.
  assert (Hz : forall p, wf_plane w h p -> zlen p = w * h * bps 8)
    by (intros; apply wf_plane_zlen; auto).
  assert (Hb : forall p, wf_plane w h p -> bytes p) by (intros p [_ H]; exact H).
  assert (Hok : forall cm ch, 1 <= ch -> header_ok (mkH cm ch w h 8))
    by (intros; unfold header_ok, depth_ok; cbn; auto).
  destruct m; try congruence; cbn in Hlen;
    repeat (destruct bands as [|? bands]; try discriminate);
    repeat match goal with H : Forall _ (_ :: _) |- _ => inversion H; clear H; subst end;
    replace (fx_bitmap c && mode_eqb _ M1) with false by (now rewrite andb_false_r);
    cbn [r_mode r_w r_h r_bands mode_eqb mode_code Z.eqb Pos.eqb andb];
    rewrite ?andb_false_r, ?andb_true_r; unfold make_header;
    cbn [r_mode color_mode_of has_alpha cm_channels Z.add].
  - cbv zeta. cbn [fst snd r_mode r_w r_h r_bands mode_eqb mode_code Z.eqb Pos.eqb].
    repeat split; auto; repeat constructor; auto. apply Hok; lia.
  - cbv zeta. cbn [fst snd r_mode r_w r_h r_bands mode_eqb mode_code Z.eqb Pos.eqb].
    repeat split; auto; repeat constructor; auto. apply Hok; lia.
  - cbv zeta. cbn [fst snd r_mode r_w r_h r_bands mode_eqb mode_code Z.eqb Pos.eqb].
    repeat split; auto; repeat constructor; auto. apply Hok; lia.
  - destruct (fx_matte c); cbv zeta;
      cbn [fst snd r_mode r_w r_h r_bands mode_eqb mode_code Z.eqb Pos.eqb matte map_rgba color_bands
           base nbands firstn last_band last map app].
    + assert (Hq : forall q, wf_plane w h q -> zlen (zipw matte_px q p2) = w * h * bps 8).
      { intros q Hq. unfold zlen. rewrite zipw_length.
        - fold (zlen q). auto.
        - destruct Hq as [Hq _].
          match goal with H : wf_plane w h p2 |- _ => destruct H as [Hl5 _] end. congruence. }
      split; [apply Hok; lia|]. split; [split; [reflexivity|]; repeat constructor; auto|].
      split; [|auto]. repeat constructor; auto using zipw_matte_bytes.
    + repeat split; auto; repeat constructor; auto. apply Hok; lia.
  - destruct (fx_cmyk c); cbv zeta; cbn -[inv_plane zlen bps].
    + split; [apply Hok; lia|]. split.
      * split; [reflexivity|].
        repeat constructor; unfold zlen; rewrite inv_plane_length;
          fold (zlen p) (zlen p0) (zlen p1) (zlen p2); auto.
      * split; [|auto]. repeat constructor; auto using inv_plane_bytes.
    + repeat split; auto; repeat constructor; auto. apply Hok; lia.
Qed.

(* topil() of the planes that PSDImage.frompil stored, mode by mode and correction by correction *)
Lemma topil_of_frompil_planes c img :
  wf_raster img -> 1 <= r_w img -> 1 <= r_h img -> r_mode img <> M1 ->
  let hp := doc_frompil_planes conv c img in
  topil_of_planes (fst hp) (snd hp) (doc_has_transparency (fst hp) 0) =
  match r_mode img with
  | MCMYK => if fx_cmyk c then img else invert img
  | MRGBA => if fx_matte c then unmatte (matte img) else unmatte img
  | _ => img
  end.
Proof.
  clear conv_same conv_alpha.
  intros Himg Hw Hh Hm hp.
  destruct (doc_frompil_planes_fit c img Himg Hw Hh Hm) as (Hok & Hfit & _).
  pose proof (doc_export_spec conv c RAW img Himg Hw Hh Hm) as Hs.
  rewrite doc_export_unfold in Hs. fold hp in Hs.
  rewrite (doc_topil_after_set RAW (fst hp) (snd hp) _ Hok Hfit) in Hs.
  unfold topil_of_planes. now inversion Hs.
Qed.

(* C07, documents, end to end: image -> PSDImage.frompil planes -> ImageData.set_data (any of the four
   compressions) -> image-data section of a well-formed document whose header is the one frompil
   made (any file version) -> write_psd -> bytes -> read_psd -> ImageData.get_data -> topil() *)
Theorem doc_import_export_through_file : forall pad cfg0 img c d d1 bs n,
  0 < pad ->
  wf_raster img -> 1 <= r_w img -> 1 <= r_h img -> r_mode img <> M1 ->
  let hp := doc_frompil_planes conv cfg0 img in
  PM.h_width (PM.p_header d) = h_w (fst hp) -> PM.h_height (PM.p_header d) = h_h (fst hp) ->
  PM.h_channels (PM.p_header d) = h_channels (fst hp) -> PM.h_depth (PM.p_header d) = 8 ->
  CF.store_image zc c (snd hp) d = Ok d1 ->
  PM.wf_psd enc_s dec_s d1 = true ->
  PM.write_psd enc_s pad d1 = Ok (bs, n) ->
  exists d2, PM.read_psd dec_s bs = Ok d2 /\
    CF.image_pixels zd rdec d2 = Ok (snd hp) /\
    topil_of_planes (fst hp) (snd hp) (doc_has_transparency (fst hp) 0) =
      match r_mode img with
      | MCMYK => if fx_cmyk cfg0 then img else invert img
      | MRGBA => if fx_matte cfg0 then unmatte (matte img) else unmatte img
      | _ => img
      end.
Proof.
  clear conv_same conv_alpha.
  intros pad cfg0 img c d d1 bs n Hpad Himg Hw Hh Hm hp Ew Eh Ec Ed HS Hwf HW.
  destruct (doc_frompil_planes_fit cfg0 img Himg Hw Hh Hm) as (Hok & [Hn Hsz] & Hb & Ew' & Eh' & Ed').
  unfold hp in *. clear hp.
  set (hp := doc_frompil_planes conv cfg0 img) in *.
  assert (Hlen : Forall (fun p => CM.len p = PM.h_height (PM.p_header d) *
                                   CM.row_size (PM.h_width (PM.p_header d)) (PM.h_depth (PM.p_header d)))
                        (snd hp)).
  { rewrite Eh, Ew, Ed, row_size_8.
    eapply Forall_impl; [|exact Hsz]. cbv beta. intros p Hp. unfold CM.len. unfold zlen in Hp.
    rewrite Hp. unfold plane_bytes. rewrite Ed'. change (bps 8) with 1. lia. }
  assert (Hcnt : Z.of_nat (length (snd hp)) = PM.h_channels (PM.p_header d))
    by (rewrite Ec; exact Hn).
  assert (Hg : CP.codec_guard c (PM.h_depth (PM.p_header d))) by (rewrite Ed; apply codec_guard_8).
  destruct (CF.pixels_survive_file_image zc zd zlib_inverse rdec rdec_conforming enc_s dec_s
              pad c (snd hp) d d1 bs n Hpad Hcnt Hb Hlen Hg HS Hwf HW) as (d2 & Hr & Hp).
  exists d2. split; [exact Hr|]. split; [exact Hp|].
  apply topil_of_frompil_planes; assumption.
Qed.

(* C17, clean save, on bytes: any file a well-formed document was written to, read by read_psd and
   written again by write_psd (no edit in between), gives the very same bytes - in particular an
   identical image-data section: the record (compression code, payload) that is read is the one that
   was stored, and its bytes are the tail write_image_data emits (Properties/C01.v psd_rewrite). *)
Theorem clean_save_file_bytes : forall pad d bs n d',
  0 < pad -> PM.wf_psd enc_s dec_s d = true ->
  PM.write_psd enc_s pad d = Ok (bs, n) ->
  PM.read_psd dec_s bs = Ok d' ->
  PM.write_psd enc_s pad d' = Ok (bs, n) /\
  PM.p_img d' = PM.p_img d /\
  PM.write_image_data (PM.p_img d') = PM.write_image_data (PM.p_img d).
Proof.
  intros pad d bs n d' Hpad Hwf HW HR.
  pose proof (Psd.Proofs.psd_rt enc_s dec_s pad d bs n Hpad Hwf HW) as Hrt.
  rewrite Hrt in HR. inversion HR; subst d'; clear HR.
  split; [|split; reflexivity].
  now rewrite Psd.Proofs.write_psd_after.
Qed.

End PixFile.
