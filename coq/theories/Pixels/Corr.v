(* Pixels/Corr.v -- glue of the C07 / C17 correspondence checks: the image generator mirrored in
   harness/vh/pixels_common.py, a table-driven instance of PIL's [convert], canonical forms and
   digests of the model's outputs. *)
From PsdV Require Import Base.Prelude Pixels.F32 Pixels.Model.
From Coq Require Import Uint63.
Open Scope Z_scope.

(* ------------------------------------------------------------------ generator (pixels_common.gen_planes) *)
Definition gen_sample (n c i seed step : Z) : Z := (seed + (i * n + c) * step) mod 256.
Definition gen_alpha (i seed style : Z) : Z :=
  if style =? 0 then 255
  else if style =? 1 then (if ((i * 5 + seed) mod 3) =? 0 then 0 else 255)
  else if style =? 3 then 0
  else (seed * 7 + i * 37 + 11) mod 256.

Definition zseq (n : nat) : list Z := map Z.of_nat (seq 0 n).

Definition gen_bands (m : mode) (w h seed step astyle : Z) : list plane :=
  let idx := zseq (npix w h) in
  let n := Z.of_nat (nbands m) in
  match m with
  | M1 => [map (fun i => if ((i * 7 + seed) mod 3) =? 0 then 255 else 0) idx]
  | _ =>
    map (fun c =>
           if has_alpha m && (c =? n - 1) then map (fun i => gen_alpha i seed astyle) idx
           else map (fun i => gen_sample n c i seed step) idx)
        (zseq (nbands m))
  end.

Definition gen_raster (m : mode) (w h seed step astyle : Z) : raster :=
  mkR m w h (gen_bands m w h seed step astyle).

(* ------------------------------------------------------------------ PIL convert as a table *)
(* the harness supplies, per case, the result of Image.convert for every target mode the code may
   ask for; the same mode is the identity (law conv_same, tested separately) *)
Definition conv_tab (tab : list (Z * list plane)) (m : mode) (r : raster) : raster :=
  if mode_eqb m (r_mode r) then r
  else match find (fun e => fst e =? mode_code m) tab with
       | Some e => mkR m (r_w r) (r_h r) (snd e)
       | None => mkR m (r_w r) (r_h r) []
       end.

(* ------------------------------------------------------------------ canonical forms *)
Definition canon_planes (ps : list plane) : list Z :=
  zlen ps :: flat_map (fun p => zlen p :: p) ps.
Definition canon_raster (r : raster) : list Z :=
  mode_code (r_mode r) :: r_w r :: r_h r :: canon_planes (r_bands r).
Definition canon_res {A} (f : A -> list Z) (r : res A) : list Z :=
  match r with Ok a => 0 :: f a | Err e => [err_code e] end.
Definition OFF := 1000000.
Definition canon_chans (chs : list (Z * list Z)) : list Z :=
  flat_map (fun c => (fst c + 2) :: zlen (snd c) :: snd c) chs.
Definition canon_layer (l : layer) : list Z :=
  [l_top l + OFF; l_left l + OFF; l_bottom l + OFF; l_right l + OFF; zlen (l_chans l)] ++ canon_chans (l_chans l).
(* the record with the channel bytes as they are stored for a document of [depth] *)
Definition canon_layer_stored (c : cfg) (depth : Z) (l : layer) : list Z :=
  [l_top l + OFF; l_left l + OFF; l_bottom l + OFF; l_right l + OFF; zlen (l_chans l)] ++
  canon_chans (layer_stored c depth l).
Definition canon_header (hd : header) : list Z :=
  [cmode_code (h_cm hd); h_channels hd; h_w hd; h_h hd; h_depth hd].
Definition dg (l : list Z) : Z := to_Z (h63_list 0%uint63 l).

Definition canon_opt_plane (o : option plane) : list Z :=
  match o with None => [0] | Some p => 1 :: zlen p :: p end.

Definition cfg_of_bits (b : Z) : cfg :=
  mkCfg (Z.testbit b 0) (Z.testbit b 1) (Z.testbit b 2) (Z.testbit b 3) (Z.testbit b 4) (Z.testbit b 5).

(* ------------------------------------------------------------------ stream "layer" (C07) *)
Record layer_case := mkLC {
  lc_cfg : Z; lc_docpm : Z (* -1: no document *); lc_cm : Z;
  lc_mode : Z; lc_w : Z; lc_h : Z; lc_seed : Z; lc_step : Z; lc_astyle : Z;
  lc_top : Z; lc_left : Z; lc_export : bool; lc_depth : Z; lc_tab : list (Z * list plane) }.

Definition layer_digests (k : layer_case) : list Z :=
  let img := gen_raster (mode_of_code (lc_mode k)) (lc_w k) (lc_h k) (lc_seed k) (lc_step k) (lc_astyle k) in
  let pm := if lc_docpm k <? 0 then None else Some (mode_of_code (lc_docpm k)) in
  let cm := cmode_of_code (lc_cm k) in
  let l := layer_frompil (conv_tab (lc_tab k)) (cfg_of_bits (lc_cfg k)) pm img (lc_top k) (lc_left k) in
  [ dg (canon_layer_stored (cfg_of_bits (lc_cfg k)) (lc_depth k) l);
    if lc_export k then
      dg (canon_res (fun o => match o with None => [0] | Some r => 1 :: canon_raster r end) (layer_topil cm l))
    else 0;
    if lc_export k then dg (canon_planes (layer_numpy cm l)) else 0;
    (* every channel selector: topil(-1), topil(0..n-1), numpy("color"), numpy("shape") *)
    if lc_export k then
      dg (flat_map (fun id => canon_opt_plane (layer_topil_chan l id)) ((-1) :: zseq (Z.to_nat (cm_channels cm)))
          ++ canon_planes (layer_numpy_color cm l) ++ canon_planes (layer_numpy_shape l))
    else 0 ].

(* ------------------------------------------------------------------ stream "doc" (C07) *)
Record doc_case := mkDC {
  dc_cfg : Z; dc_mode : Z; dc_w : Z; dc_h : Z; dc_seed : Z; dc_step : Z; dc_astyle : Z;
  dc_comp : Z; dc_topil : bool; dc_numpy : bool; dc_tab : list (Z * list plane) }.

Definition doc_digests (k : doc_case) : list Z :=
  let img := gen_raster (mode_of_code (dc_mode k)) (dc_w k) (dc_h k) (dc_seed k) (dc_step k) (dc_astyle k) in
  let c := cfg_of_bits (dc_cfg k) in
  let conv := conv_tab (dc_tab k) in
  let hd := fst (doc_frompil_planes conv c img) in
  let r := doc_frompil conv c (comp_of_code (dc_comp k)) img in
  [ dg (canon_header hd);
    dg (canon_res canon_planes (do x <- r; get_data (snd x) hd));
    if dc_topil k then dg (canon_res canon_raster (do x <- r; doc_topil hd (snd x) (doc_has_transparency hd 0))) else 0;
    if dc_numpy k then dg (canon_res canon_planes (do x <- r; doc_numpy hd (snd x))) else 0;
    (* every channel selector: topil(0..channels-1), topil(TRANSPARENCY_MASK), numpy("color"/"shape"/"mask") *)
    if dc_topil k && dc_numpy k then
      let tr := doc_has_transparency hd 0 in
      dg (flat_map (fun ch => canon_res canon_opt_plane (do x <- r; doc_topil_chan hd (snd x) ch))
                   (zseq (Z.to_nat (h_channels hd)))
          ++ canon_res canon_opt_plane (do x <- r; doc_topil_transparency hd (snd x))
          ++ flat_map (fun sel => canon_res canon_planes (do x <- r; doc_numpy_sel hd (snd x) tr sel)) [1; 2; 3])
    else 0 ].

(* ------------------------------------------------------------------ stream "save" (C17) *)
Record save_case := mkSC {
  sc_cfg : Z; sc_cm : Z; sc_channels : Z; sc_w : Z; sc_h : Z; sc_depth : Z; sc_comp : Z;
  sc_dirty : bool; sc_old : list plane;
  sc_straight : list plane; sc_white : list plane; sc_alpha : plane;
  sc_transp : bool; sc_tindex : Z }.

Definition save_digests (k : save_case) : list Z :=
  let hd := mkH (cmode_of_code (sc_cm k)) (sc_channels k) (sc_w k) (sc_h k) (sc_depth k) in
  let cmp := comp_of_code (sc_comp k) in
  (* the original merged image is one that reads back: [sc_old] are its planes *)
  let old := mkI cmp (concat (sc_old k)) in
  let r := save (cfg_of_bits (sc_cfg k)) hd (sc_dirty k) old
                (mkRd (sc_straight k) (sc_white k) (sc_alpha k)) (sc_transp k) (sc_tindex k) in
  [ dg (canon_res canon_planes (do st <- r; get_data st hd));
    match r with Ok st => (match i_comp st with RAW => zlen (i_vis st) | _ => 0 end) | Err _ => 0 end ].

(* ------------------------------------------------------------------ stream "container" (set/get) *)
(* planes of arbitrary sizes and counts against a header: what get_data returns after set_data *)
Definition container_digest (a : (Z * Z * Z * Z * Z) * list plane) : list Z :=
  let '((cmp, channels, w, h, d), planes) := a in
  let hd := mkH CRgb channels w h d in
  canon_res canon_planes (do st <- set_data (comp_of_code cmp) hd planes; get_data st hd).

(* ------------------------------------------------------------------ the white-matte formulas, all 65536 pairs *)
Definition matte_table_digest : Z :=
  dg (flat_map (fun x => map (fun a => matte_px x a) (zseq 256)) (zseq 256)).
Definition unmatte_table_digest : Z :=
  dg (flat_map (fun x => map (fun a => unmatte_px x a) (zseq 256)) (zseq 256)).

(* ------------------------------------------------------------------ stream "session" (C17): several saves of one object *)
(* step = (kind, (straight, white, alpha), (transp, tindex)); kind 0 structural edit, 1 attribute edit, 2 save *)
Definition step_of (e : Z * (list plane * list plane * plane) * (bool * Z)) : step :=
  let '(k, (s, w, a), (tr, ti)) := e in
  if k =? 0 then SStruct else if k =? 1 then SAttr else SSave (mkRd s w a) tr ti.

Record session_case := mkSS {
  ss_cfg : Z; ss_cm : Z; ss_channels : Z; ss_w : Z; ss_h : Z; ss_depth : Z; ss_comp : Z;
  ss_old : list plane; ss_steps : list (Z * (list plane * list plane * plane) * (bool * Z)) }.

Definition session_digests (k : session_case) : list Z :=
  let hd := mkH (cmode_of_code (ss_cm k)) (ss_channels k) (ss_w k) (ss_h k) (ss_depth k) in
  let old := mkI (comp_of_code (ss_comp k)) (concat (ss_old k)) in
  flat_map (fun r =>
              [ dg (canon_res canon_planes (do st <- r; get_data st hd));
                match r with Ok st => (match i_comp st with RAW => zlen (i_vis st) | _ => 0 end) | Err _ => 0 end ])
           (session (cfg_of_bits (ss_cfg k)) hd (false, old) (map step_of (ss_steps k))).

Definition f32_table_digest : Z := dg (concat f32_table).
