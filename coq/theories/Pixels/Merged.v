(* Pixels/Merged.v -- C17, the dirty case tied to the compositor's RESULT TYPE.
   The compositor is taken through its interface only: a function of the pixel and the channel that
   returns (colour, shape, alpha), each in [0,1] (Composite: composite_in_range).  composite_pil turns
   that into 8-bit bands with (255 * x).astype(uint8), i.e. the integer part of 255*x.  Given such a
   compositor result, "the merged image that save() writes = the bands of the composite" is a theorem
   about the byte planes (for the documents of [unfixed_save_class]; the other classes are the open
   findings F-C17-1/2/3).
   What remains outside (oracle / other properties): that composite(force=True) computes the modelled
   function (C11/C13 correspondence), float32 versus real arithmetic in the compositor and in the
   product 255*x next to an integer, and NumPy/PIL moving the samples unchanged (fromarray, split, tobytes). *)
From Coq Require Import Reals ZArith List Bool Lia Lra.
From PsdV Require Import Base.Prelude Pixels.Model Pixels.Proofs.
Import ListNotations.
Open Scope Z_scope.

Definition unitR (x : R) : Prop := (0 <= x <= 1)%R.

(* (255 * x).astype(np.uint8) on x in [0,1] *)
Definition quant8 (x : R) : Z := Int_part (255 * x).

Lemma quant8_byte x : unitR x -> byte (quant8 x).
Proof.
  unfold unitR, quant8, byte. intros [H0 H1].
  destruct (base_Int_part (255 * x)) as [Hle Hgt].
  set (n := Int_part (255 * x)) in *.
  split.
  - assert (H : (IZR n > -1)%R) by lra.
    apply lt_IZR in H. lia.
  - assert (H : (IZR n < 256)%R) by lra.
    apply lt_IZR in H. exact H.
Qed.

Lemma quant8_one : quant8 1 = 255.
Proof.
  unfold quant8. rewrite Rmult_1_r.
  destruct (base_Int_part 255) as [Hle Hgt]. set (n := Int_part 255) in *.
  assert (H1 : (IZR n < 256)%R) by lra. assert (H2 : (IZR n > 254)%R) by lra.
  apply lt_IZR in H1. apply lt_IZR in H2. lia.
Qed.

(* row-major enumeration of the canvas, as ndarray.tobytes() walks a (h, w) plane *)
Definition zrange (n : Z) : list Z := map Z.of_nat (seq 0 (Z.to_nat n)).
Definition coords (w h : Z) : list (Z * Z) :=
  flat_map (fun y => map (fun x => (x, y)) (zrange w)) (zrange h).
Definition plane_of (w h : Z) (f : Z -> Z -> R) : plane :=
  map (fun xy => quant8 (f (fst xy) (snd xy))) (coords w h).

Lemma zrange_length n : length (zrange n) = Z.to_nat n.
Proof. unfold zrange. now rewrite map_length, seq_length. Qed.

Lemma flat_map_const_length {A B} (f : A -> list B) k l :
  (forall a, length (f a) = k) -> length (flat_map f l) = (length l * k)%nat.
Proof. intro H. induction l; cbn; [reflexivity|]. rewrite app_length, H, IHl. lia. Qed.

Lemma coords_length w h : 0 <= w -> 0 <= h -> length (coords w h) = Z.to_nat (w * h).
Proof.
  intros Hw Hh. unfold coords.
  rewrite (flat_map_const_length _ (Z.to_nat w)).
  - rewrite zrange_length. rewrite Z2Nat.inj_mul by lia. lia.
  - intro. now rewrite map_length, zrange_length.
Qed.

Lemma plane_of_zlen w h f : 0 <= w -> 0 <= h -> zlen (plane_of w h f) = w * h.
Proof.
  intros. unfold zlen, plane_of. rewrite map_length, coords_length by lia.
  rewrite Z2Nat.id; nia.
Qed.

Lemma plane_of_bytes w h f : (forall x y, unitR (f x y)) -> bytes (plane_of w h f).
Proof.
  intro H. unfold bytes, plane_of. apply Forall_forall. intros v Hv.
  apply in_map_iff in Hv as (xy & <- & _). apply quant8_byte, H.
Qed.

(* sample (x, y) of the plane is the quantised value of the compositor at (x, y) *)
Lemma nth_flat_map_rows {A} (rows : list (list A)) k d y x :
  (forall r, In r rows -> length r = k) -> (x < k)%nat -> (y < length rows)%nat ->
  nth (y * k + x) (concat rows) d = nth x (nth y rows []) d.
Proof.
  revert y; induction rows as [|r rows IH]; intros y Hk Hx Hy; cbn in Hy; [lia|].
  cbn [concat]. destruct y.
  - cbn. rewrite app_nth1; [reflexivity|]. rewrite (Hk r); [exact Hx|now left].
  - rewrite app_nth2 by (rewrite (Hk r) by (now left); lia).
    rewrite (Hk r) by (now left).
    replace (S y * k + x - k)%nat with (y * k + x)%nat by lia.
    cbn [nth]. apply IH; [intros; apply Hk; now right| exact Hx| lia].
Qed.

Lemma plane_of_sample w h f x y : 0 <= x < w -> 0 <= y < h ->
  nth (Z.to_nat (y * w + x)) (plane_of w h f) 0 = quant8 (f x y).
Proof.
  intros Hx Hy. unfold plane_of, coords.
  rewrite flat_map_concat_map, concat_map, map_map.
  set (rows := map (fun y0 => map (fun xy => quant8 (f (fst xy) (snd xy)))
                                  (map (fun x0 => (x0, y0)) (zrange w))) (zrange h)).
  replace (Z.to_nat (y * w + x)) with (Z.to_nat y * Z.to_nat w + Z.to_nat x)%nat
    by (rewrite Z2Nat.inj_add, Z2Nat.inj_mul by nia; reflexivity).
  rewrite (nth_flat_map_rows rows (Z.to_nat w)).
  - unfold rows. 
    rewrite (nth_indep _ [] (map (fun xy => quant8 (f (fst xy) (snd xy))) (map (fun x0 => (x0, 0)) (zrange w))))
      by (rewrite map_length, zrange_length; lia).
    rewrite (map_nth (fun y0 => map (fun xy => quant8 (f (fst xy) (snd xy))) (map (fun x0 => (x0, y0)) (zrange w)))
                     (zrange h) 0).
    rewrite map_map. cbn [fst snd].
    rewrite (nth_indep _ 0 (quant8 (f 0 (nth (Z.to_nat y) (zrange h) 0))))
      by (rewrite map_length, zrange_length; lia).
    rewrite (map_nth (fun x0 => quant8 (f x0 (nth (Z.to_nat y) (zrange h) 0))) (zrange w) 0).
    unfold zrange.
    rewrite (nth_indep _ 0 (Z.of_nat 0)) by (rewrite map_length, seq_length; lia).
    rewrite map_nth, seq_nth by lia.
    rewrite (nth_indep _ 0 (Z.of_nat 0)) by (rewrite map_length, seq_length; lia).
    rewrite map_nth, seq_nth by lia.
    cbn [Nat.add]. now rewrite !Z2Nat.id by lia.
  - intros r Hr. unfold rows in Hr. apply in_map_iff in Hr as (y0 & <- & _).
    now rewrite !map_length, zrange_length.
  - lia.
  - unfold rows. rewrite map_length, zrange_length. lia.
Qed.

(* ---------------------------------------------------------------- the bands of composite(force=True) *)
Section Compositor.
  (* composite(psd, force=True) at pixel (x, y), channel k: (colour, shape, alpha) *)
  Variable comp : Z -> Z -> nat -> R * R * R.
  Hypothesis comp_in_range : forall x y k,
    let '(C, f, al) := comp x y k in unitR C /\ unitR f /\ unitR al.

  Definition comp_color (x y : Z) (k : nat) : R := fst (fst (comp x y k)).
  Definition comp_alpha (x y : Z) : R := snd (comp x y 0%nat).

  Lemma comp_color_unit x y k : unitR (comp_color x y k).
  Proof. unfold comp_color. pose proof (comp_in_range x y k). destruct (comp x y k) as [[C f] al]. tauto. Qed.
  Lemma comp_alpha_unit x y : unitR (comp_alpha x y).
  Proof. unfold comp_alpha. pose proof (comp_in_range x y 0%nat). destruct (comp x y 0%nat) as [[C f] al]. tauto. Qed.

  (* what composite_pil hands to save(): one 8-bit band per colour channel, then alpha *)
  Definition rendered_of (hd : header) : rendered :=
    mkRd (map (fun k => plane_of (h_w hd) (h_h hd) (fun x y => comp_color x y k))
              (seq 0 (Z.to_nat (cm_channels (h_cm hd)))))
         []
         (plane_of (h_w hd) (h_h hd) comp_alpha).

  Lemma rendered_of_8 hd : header_ok hd -> rendered8 hd (rendered_of hd).
  Proof.
    intros (Hw & Hh & _). unfold rendered8, rendered_of. cbn [rd_straight rd_alpha].
    split; [now rewrite map_length, seq_length|]. split.
    - apply Forall_forall. intros p Hp. apply in_map_iff in Hp as (k & <- & _).
      apply plane_of_zlen; lia.
    - apply plane_of_zlen; lia.
  Qed.

  (* THE CODE AS IT IS, documents of [unfixed_save_class] (8-bit, grayscale + 1 or RGB + 1 channels):
     after a structural edit the merged image written by save() reads back as exactly the quantised
     bands of the compositor's result - plane k, sample (x, y) = floor (255 * colour_k (x, y)), the last
     plane = floor (255 * alpha (x, y)) - and every sample is a byte *)
  Theorem merged_image_is_quantised_composite : forall c hd old transp ti,
    fx_save c = false -> header_ok hd -> unfixed_save_class hd ->
    let rd := rendered_of hd in
    exists st planes,
      save c hd true old rd transp ti = Ok st /\ get_data st hd = Ok planes /\
      planes = rd_straight rd ++ [rd_alpha rd] /\ Forall bytes planes /\
      (forall k x y, (k < Z.to_nat (cm_channels (h_cm hd)))%nat -> 0 <= x < h_w hd -> 0 <= y < h_h hd ->
         nth (Z.to_nat (y * h_w hd + x)) (nth k planes []) 0 = quant8 (comp_color x y k)) /\
      (forall x y, 0 <= x < h_w hd -> 0 <= y < h_h hd ->
         nth (Z.to_nat (y * h_w hd + x)) (last planes []) 0 = quant8 (comp_alpha x y)).
  Proof.
    intros c hd old transp ti Hfx Hh Hcls rd.
    destruct (save_unfixed_ok c hd old rd transp ti Hfx Hh (rendered_of_8 hd Hh) Hcls) as (st & Hs & Hg).
    exists st, (rd_straight rd ++ [rd_alpha rd]). split; [exact Hs|]. split; [exact Hg|].
    split; [reflexivity|]. split; [|split].
    - apply Forall_app. split.
      + apply Forall_forall. intros p Hp. unfold rd, rendered_of in Hp. cbn [rd_straight] in Hp.
        apply in_map_iff in Hp as (k & <- & _). apply plane_of_bytes. intros; apply comp_color_unit.
      + constructor; [|constructor]. apply plane_of_bytes. intros; apply comp_alpha_unit.
    - intros k x y Hk Hx Hy. unfold rd, rendered_of. cbn [rd_straight rd_alpha].
      rewrite app_nth1 by (now rewrite map_length, seq_length).
      rewrite (nth_indep _ [] (plane_of (h_w hd) (h_h hd) (fun x0 y0 => comp_color x0 y0 0%nat)))
        by (now rewrite map_length, seq_length).
      rewrite (map_nth (fun k0 => plane_of (h_w hd) (h_h hd) (fun x0 y0 => comp_color x0 y0 k0))
                       (seq 0 (Z.to_nat (cm_channels (h_cm hd)))) 0%nat).
      rewrite seq_nth by exact Hk. cbn [Nat.add].
      now apply plane_of_sample.
    - intros x y Hx Hy. rewrite last_last. unfold rd, rendered_of. cbn [rd_alpha].
      now apply plane_of_sample.
  Qed.
End Compositor.
