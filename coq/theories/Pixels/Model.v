(* Pixels/Model.v -- the PLANE PLUMBING of psd-tools (properties C07 and C17), definitions only.

   A raster is a PIL image seen as a list of bands (planes), each a list of w*h samples 0..255.
   Modelled (mirroring the code as it is; the corrected variants are selected by [cfg]):
     api/psd_image.py   PSDImage.frompil, _make_header, pil_mode, save() (merged-image decision),
                        topil()/numpy() of a document
     api/layers.py      PixelLayer.frompil
     api/pil_io.py      get_color_mode, get_pil_mode, get_pil_channels, convert_image_data_to_pil,
                        convert_layer_to_pil, _merge_channels, _check_channels, post_process,
                        _remove_white_background
     api/numpy_io.py    get_image_data / get_layer_data (integer samples before the float division)
     psd/image_data.py  ImageData.set_data / get_data (packing by channels, height, width, depth)
     composite/__init__.py  composite_pil(force=True): the band list only
   Not modelled: PIL's mode conversion (a Section variable [conv] with the two laws that are used),
   the compositor's arithmetic (its result is an input), the codecs themselves (C04/C05: here a
   compressed payload is represented by what a correct decoder can see of it, see [set_data]). *)
From PsdV Require Import Base.Prelude Pixels.F32.
Open Scope Z_scope.

(* ------------------------------------------------------------------ modes *)
Inductive mode := M1 | ML | MLA | MRGB | MRGBA | MCMYK.          (* PIL modes *)
Inductive cmode := CBitmap | CGray | CRgb | CCmyk.               (* ColorMode of the header *)
Inductive comp := RAW | RLE | ZIP | ZIPP.                        (* constants.Compression *)

Definition mode_code (m : mode) : Z :=
  match m with M1 => 0 | ML => 1 | MLA => 2 | MRGB => 3 | MRGBA => 4 | MCMYK => 5 end.
Definition mode_of_code (z : Z) : mode :=
  if z =? 0 then M1 else if z =? 1 then ML else if z =? 2 then MLA
  else if z =? 3 then MRGB else if z =? 4 then MRGBA else MCMYK.
Definition mode_eqb (a b : mode) : bool := mode_code a =? mode_code b.
Definition cmode_code (c : cmode) : Z :=
  match c with CBitmap => 0 | CGray => 1 | CRgb => 3 | CCmyk => 4 end.  (* ColorMode values *)
Definition cmode_of_code (z : Z) : cmode :=
  if z =? 0 then CBitmap else if z =? 1 then CGray else if z =? 3 then CRgb else CCmyk.
Definition comp_of_code (z : Z) : comp :=
  if z =? 0 then RAW else if z =? 1 then RLE else if z =? 2 then ZIP else ZIPP.

Definition has_alpha (m : mode) : bool := match m with MLA | MRGBA => true | _ => false end.
(* mode.rstrip("A") *)
Definition base (m : mode) : mode := match m with MLA => ML | MRGBA => MRGB | x => x end.
(* len(image.getbands()) *)
Definition nbands (m : mode) : nat :=
  match m with M1 | ML => 1 | MLA => 2 | MRGB => 3 | MRGBA | MCMYK => 4 end%nat.
(* pil_io.get_pil_channels, applied to modes without alpha ("LA"/"RGBA" fall to the default 3,
   the code never asks for them) *)
Definition pil_channels (m : mode) : nat :=
  match m with M1 | ML => 1 | MCMYK => 4 | _ => 3 end%nat.
(* pil_io.get_color_mode *)
Definition color_mode_of (m : mode) : cmode :=
  match m with M1 => CBitmap | ML | MLA => CGray | MRGB | MRGBA => CRgb | MCMYK => CCmyk end.
(* constants.ColorMode.channels(mode) (without alpha) = numpy_io.EXPECTED_CHANNELS on these modes *)
Definition cm_channels (c : cmode) : Z :=
  match c with CBitmap | CGray => 1 | CRgb => 3 | CCmyk => 4 end.
(* pil_io.get_pil_mode(color_mode, alpha) *)
Definition cm_pil (c : cmode) (alpha : bool) : mode :=
  match c with
  | CBitmap => M1
  | CGray => if alpha then MLA else ML
  | CRgb => if alpha then MRGBA else MRGB
  | CCmyk => MCMYK
  end.

(* ------------------------------------------------------------------ rasters *)
Definition plane := list Z.
Record raster := mkR { r_mode : mode; r_w : Z; r_h : Z; r_bands : list plane }.

Definition npix (w h : Z) : nat := Z.to_nat (w * h).
Definition wf_plane (w h : Z) (p : plane) : Prop := length p = npix w h /\ bytes p.
Definition wf_raster (r : raster) : Prop :=
  0 <= r_w r /\ 0 <= r_h r /\ length (r_bands r) = nbands (r_mode r) /\
  Forall (wf_plane (r_w r) (r_h r)) (r_bands r).

Fixpoint zipw (f : Z -> Z -> Z) (a b : list Z) : list Z :=
  match a, b with x :: a', y :: b' => f x y :: zipw f a' b' | _, _ => [] end.

(* ImageChops.invert: every band, 255 - x *)
Definition inv (x : Z) : Z := 255 - x.
Definition inv_plane (p : plane) : plane := map inv p.
Definition invert (r : raster) : raster :=
  mkR (r_mode r) (r_w r) (r_h r) (map inv_plane (r_bands r)).

Definition clip255 (x : Z) : Z := Z.max 0 (Z.min 255 x).
(* Image.alpha_composite(white, im) on one colour sample: the harness checks on every run, for all
   65536 pairs, that Pillow's fixed-point routine equals this rounded quotient *)
Definition matte_px (x a : Z) : Z := (x * a + 255 * (255 - a) + 127) / 255.
(* pil_io._remove_white_background on one colour sample (ImageMath in float, convert "L" truncates
   and clips): same exhaustive check *)
Definition unmatte_px (s a : Z) : Z :=
  if a =? 0 then s else clip255 (((s + a - 255) * 255) / a).

Definition last_band (r : raster) : plane := last (r_bands r) [].
Definition color_bands (r : raster) : list plane := firstn (nbands (base (r_mode r))) (r_bands r).
Definition opaque (w h : Z) : plane := repeat 255 (npix w h).

(* RGBA only: colour bands through [f _ alpha], alpha kept *)
Definition map_rgba (f : Z -> Z -> Z) (r : raster) : raster :=
  match r_mode r with
  | MRGBA => let a := last_band r in
             mkR MRGBA (r_w r) (r_h r) (map (fun p => zipw f p a) (color_bands r) ++ [a])
  | _ => r
  end.
Definition matte := map_rgba matte_px.
Definition unmatte := map_rgba unmatte_px.

(* Image.putalpha on L / RGB *)
Definition putalpha (r : raster) (a : plane) : raster :=
  match r_mode r with
  | ML => mkR MLA (r_w r) (r_h r) (r_bands r ++ [a])
  | MRGB => mkR MRGBA (r_w r) (r_h r) (r_bands r ++ [a])
  | _ => r
  end.

(* PIL mode "1" -> tobytes(): rows packed MSB first, padded to a byte; non-zero pixel = bit 1 *)
Fixpoint pack_bits_row (bits : list Z) (acc nb : Z) : list Z :=
  match bits with
  | [] => if nb =? 0 then [] else [acc * 2 ^ (8 - nb)]
  | b :: t => let acc' := acc * 2 + (if b =? 0 then 0 else 1) in
              if nb =? 7 then acc' :: pack_bits_row t 0 0 else pack_bits_row t acc' (nb + 1)
  end.
Fixpoint chunks (k : nat) (n : nat) (l : list Z) : list (list Z) :=   (* n chunks of k *)
  match n with O => [] | S n' => firstn k l :: chunks k n' (skipn k l) end.
Definition pack1 (w h : Z) (p : plane) : plane :=
  flat_map (fun row => pack_bits_row row 0 0) (chunks (Z.to_nat w) (Z.to_nat h) p).

(* ------------------------------------------------------------------ header *)
Record header := mkH { h_cm : cmode; h_channels : Z; h_w : Z; h_h : Z; h_depth : Z }.

(* PSDImage._make_header(mode, size, depth) *)
Definition make_header (m : mode) (w h depth : Z) : header :=
  mkH (color_mode_of m) (cm_channels (color_mode_of m) + (if has_alpha m then 1 else 0)) w h depth.

(* PSDImage.pil_mode *)
Definition doc_pil_mode (hd : header) : mode :=
  cm_pil (h_cm hd) (0 <? h_channels hd - Z.of_nat (pil_channels (cm_pil (h_cm hd) false))).

(* ------------------------------------------------------------------ which corrections are in *)
Record cfg := mkCfg {
  fx_cmyk : bool;    (* F-C07-1  PSDImage.frompil inverts CMYK *)
  fx_alpha : bool;   (* F-C07-2  PixelLayer.frompil takes the alpha band before the conversion *)
  fx_matte : bool;   (* F-C07-4  PSDImage.frompil stores RGBA on white *)
  fx_bitmap : bool;  (* F-C07-5  PSDImage.frompil converts mode "1" to "L" *)
  fx_save : bool;    (* F-C17-1/2/3  save() writes the planes the header declares *)
  fx_deep : bool     (* F-C07-7  PixelLayer.frompil widens the samples to the depth of the document *)
}.
Definition unfixed := mkCfg false false false false false false.
Definition fixed := mkCfg true true true true true true.

(* ------------------------------------------------------------------ ImageData container *)
(* A compressed payload is represented by [i_vis]: the bytes a correct decoder of that method can
   recover from it (no length check yet).  RAW/ZIP/ZIP+prediction keep everything that was joined;
   RLE encodes exactly height*channels rows of row_size bytes read from the joined data, so whatever
   lies beyond is not stored at all. *)
Record idata := mkI { i_comp : comp; i_vis : list Z }.

Definition bps (d : Z) : Z := Z.max 1 (d / 8).
Definition row_size (w d : Z) : Z := (w * d + 7) / 8.
Definition zlen {A} (l : list A) : Z := Z.of_nat (length l).

(* compression.encode_prediction: which inputs make it raise *)
Definition zipp_check (d w rows len : Z) : res unit :=
  if d =? 8 then
    if (2 <=? w) && (1 <=? rows) && (len <? w * rows) then Err IndexErr else Ok tt
  else if d =? 16 then
    if Z.odd len then Err ValueErr
    else if (2 <=? w) && (1 <=? rows) && (len / 2 <? w * rows) then Err IndexErr else Ok tt
  else if d =? 32 then
    if (0 <? w * rows) && (len <? 4 * w * rows) then Err IndexErr else Ok tt
  else Err ValueErr.

(* ImageData.set_data(data, header) = compress(b"".join(data), c, width, height*channels, depth) *)
Definition set_data (c : comp) (hd : header) (planes : list plane) : res idata :=
  let data := concat planes in
  let rows := h_h hd * h_channels hd in
  match c with
  | RAW | ZIP => Ok (mkI c data)
  | RLE => Ok (mkI c (firstn (Z.to_nat (rows * row_size (h_w hd) (h_depth hd))) data))
  | ZIPP => do _ <- zipp_check (h_depth hd) (h_w hd) rows (zlen data); Ok (mkI c data)
  end.

(* ImageData.get_data(header) = decompress(...) then split into header.channels planes *)
Definition decompress_vis (st : idata) (w rows d : Z) : res (list Z) :=
  let want := w * rows * bps d in
  let v := i_vis st in
  match i_comp st with
  | RAW => let r := firstn (Z.to_nat want) v in
           if zlen r =? want then Ok r else Err AssertErr
  | RLE => (* every row must expand to row_size bytes: a short row is a ValueError *)
           if zlen v =? rows * Z.max (row_size w d) 1 then
             (if zlen v =? want then Ok v else Err AssertErr)
           else Err ValueErr
  | ZIP => if zlen v =? want then Ok v else Err AssertErr
  | ZIPP => do _ <- zipp_check d w rows (zlen v);
            if zlen v =? want then Ok v else Err AssertErr
  end.

Definition get_data (st : idata) (hd : header) : res (list plane) :=
  do data <- decompress_vis st (h_w hd) (h_h hd * h_channels hd) (h_depth hd);
  let ps := Z.to_nat (zlen data / h_channels hd) in
  Ok (chunks ps (Z.to_nat (h_channels hd)) data).

(* bytes of one plane by the header geometry *)
Definition plane_bytes (hd : header) : Z := h_w hd * h_h hd * bps (h_depth hd).

(* ------------------------------------------------------------------ layers *)
(* (channel id, raw plane) in record order; -1 = ChannelID.TRANSPARENCY_MASK *)
Record layer := mkL { l_top : Z; l_left : Z; l_bottom : Z; l_right : Z; l_chans : list (Z * plane) }.

Fixpoint number_from (i : Z) (ps : list plane) : list (Z * plane) :=
  match ps with [] => [] | p :: t => (i, p) :: number_from (i + 1) t end.

Section PIL.
  (* Image.convert(mode).  Laws used by the theorems (both tested on every generated image):
       conv_same : conv (r_mode r) r = r
       conv_alpha: has_alpha (r_mode r) = true -> last_band (conv MRGBA r) = last_band r *)
  Variable conv : mode -> raster -> raster.

  (* PixelLayer.frompil(pil_im, psd_file, name, top, left, compression); [docpm] = psd_file.pil_mode *)
  Definition layer_frompil (c : cfg) (docpm : option mode) (img : raster) (top left : Z) : layer :=
    let img1 := if mode_eqb (r_mode img) M1 then conv ML img else img in
    let alpha0 := if has_alpha (r_mode img1) then Some (last_band (conv MRGBA img1)) else None in
    let img2 := match docpm with Some pm => conv pm img1 | None => img1 end in
    let img3 := if mode_eqb (r_mode img2) MCMYK then invert img2 else img2 in
    let w := r_w img3 in
    let h := r_h img3 in
    let color := firstn (pil_channels (base (r_mode img3))) (r_bands img3) in
    let alpha := if fx_alpha c then alpha0
                 else if has_alpha (r_mode img3) then Some (last_band img3) else None in
    mkL top left (top + h) (left + w)
        ((-1, match alpha with Some a => a | None => opaque w h end) :: number_from 0 color).

  (* PSDImage.frompil(image, compression): header and the planes handed to ImageData.set_data *)
  Definition doc_frompil_planes (c : cfg) (img : raster) : header * list plane :=
    let img1 := if fx_bitmap c && mode_eqb (r_mode img) M1 then conv ML img else img in
    let hd := make_header (r_mode img1) (r_w img1) (r_h img1) 8 in
    let img2 := if fx_cmyk c && mode_eqb (r_mode img1) MCMYK then invert img1
                else if fx_matte c && mode_eqb (r_mode img1) MRGBA then matte img1 else img1 in
    (hd, if mode_eqb (r_mode img2) M1 then map (pack1 (r_w img2) (r_h img2)) (r_bands img2)
         else r_bands img2).

  Definition doc_frompil (c : cfg) (cmp : comp) (img : raster) : res (header * idata) :=
    let '(hd, planes) := doc_frompil_planes c img in
    do st <- set_data cmp hd planes; Ok (hd, st).
End PIL.

(* ------------------------------------------------------------------ exports *)
(* pil_io.post_process without ICC *)
Definition post_process (image : raster) (alpha : option plane) : raster :=
  let image1 := if mode_eqb (r_mode image) MCMYK then invert image else image in
  match alpha with Some a => putalpha image1 a | None => image1 end.

Definition find_chan (id : Z) (l : layer) : option plane :=
  option_map snd (find (fun c => fst c =? id) (l_chans l)).

(* convert_layer_to_pil(layer, None, apply_icc=False) for an 8-bit document of colour mode [cm];
   None = the method returns None (a channel without data) *)
Definition layer_topil (cm : cmode) (l : layer) : res (option raster) :=
  let w := l_right l - l_left l in
  let h := l_bottom l - l_top l in
  let color := map snd (filter (fun c => 0 <=? fst c) (l_chans l)) in
  if (w =? 0) || (h =? 0) then Ok None
  else
    let expected := Z.to_nat (cm_channels cm) in
    if (length color <? expected)%nat then Err ValueErr          (* _check_channels *)
    else Ok (Some (post_process (mkR (cm_pil cm false) w h (firstn expected color))
                                (find_chan (-1) l))).

(* numpy_io.get_layer_data(layer, None): colour planes then the shape plane; samples as integers *)
Definition layer_numpy (cm : cmode) (l : layer) : list plane :=
  let color := map snd (filter (fun c => 0 <=? fst c) (l_chans l)) in
  firstn (Z.to_nat (cm_channels cm)) color ++
  match find_chan (-1) l with Some a => [a] | None => [] end.

(* numpy_io.has_transparency for a document without tagged blocks / alpha identifiers:
   more channels than the colour mode needs, and no layers *)
Definition doc_has_transparency (hd : header) (nlayers : Z) : bool :=
  (cm_channels (h_cm hd) <? h_channels hd) && (nlayers =? 0).

(* convert_image_data_to_pil(psd, None, apply_icc=False), 8-bit, transparency = last channel *)
Definition doc_topil (hd : header) (st : idata) (transp : bool) : res raster :=
  do planes <- get_data st hd;
  let m := cm_pil (h_cm hd) false in
  let image := mkR m (h_w hd) (h_h hd) (firstn (pil_channels m) planes) in
  Ok (unmatte (post_process image (if transp then Some (last planes []) else None))).

(* numpy_io.get_image_data(psd, None): all planes; RGB documents with more than 3 planes have the
   white background removed in float arithmetic -- exact here only where alpha is 0 or 255 *)
Definition np_unmatte_px (s a : Z) : Z := if a =? 0 then s else ((s + a - 255) * 255) / a.
Definition doc_numpy (hd : header) (st : idata) : res (list plane) :=
  do planes <- get_data st hd;
  match h_cm hd with
  | CRgb => if (3 <? length planes)%nat then
              let a := nth 3 planes [] in
              Ok (map (fun p => zipw np_unmatte_px p a) (firstn 3 planes) ++ skipn 3 planes)
            else Ok planes
  | _ => Ok planes
  end.

(* ------------------------------------------------------------------ save(): the merged image *)
(* What the compositor delivered for the canvas, as sample planes: the straight colour, the colour
   rendered on white, and alpha -- 8-bit samples for the code as it is, samples in the header's depth
   for the corrected code (the numeric work is the compositor's and NumPy's, not modelled). *)
Record rendered := mkRd { rd_straight : list plane; rd_white : list plane; rd_alpha : plane }.

(* composite_pil(psd, force=True): mode = get_pil_mode(color_mode) + "A", Image.fromarray *)
Definition composite_pil_force (hd : header) (rd : rendered) : res raster :=
  match h_cm hd with
  | CGray => Ok (mkR MLA (h_w hd) (h_h hd) (rd_straight rd ++ [rd_alpha rd]))
  | CRgb => Ok (mkR MRGBA (h_w hd) (h_h hd) (rd_straight rd ++ [rd_alpha rd]))
  | _ => Err TypeErr                     (* "CMYKA" / "1A": Cannot handle this data type *)
  end.

Fixpoint set_nth {A} (n : nat) (x : A) (l : list A) : list A :=
  match n, l with
  | _, [] => []
  | O, _ :: t => x :: t
  | S n', y :: t => y :: set_nth n' x t
  end.

(* planes[i] = new[i] for i < length new *)
Fixpoint overwrite {A} (new old : list A) : list A :=
  match new, old with
  | x :: n', _ :: o' => x :: overwrite n' o'
  | _, _ => old
  end.

(* PSDImage.save: the image-data record that is written.  [transp] = has_transparency(psd),
   [tindex] = get_transparency_index(psd) already reduced modulo the channel count. *)
Definition save (c : cfg) (hd : header) (dirty : bool) (old : idata) (rd : rendered)
                (transp : bool) (tindex : Z) : res idata :=
  if negb dirty then Ok old
  else if negb (fx_save c) then
    do img <- composite_pil_force hd rd; set_data (i_comp old) hd (r_bands img)
  else
    match h_cm hd with
    | CBitmap => Ok old
    | _ =>
      if h_depth hd =? 1 then Ok old else
      do planes <- get_data old hd;
      let nc := length (rd_straight rd) in
      if (length planes <? nc)%nat then Ok old else
      let transparency := transp && (nc <? length planes)%nat in
      let color := match h_cm hd with
                   | CRgb => rd_white rd
                   | _ => if transparency then rd_straight rd else rd_white rd
                   end in
      let planes1 := overwrite color planes in
      let planes2 := if transparency then set_nth (Z.to_nat tindex) (rd_alpha rd) planes1 else planes1 in
      set_data (i_comp old) hd planes2
    end.

(* number of planes handed to set_data by the code as it is *)
Definition bands_written_unfixed (hd : header) : option Z :=
  match h_cm hd with CGray => Some 2 | CRgb => Some 4 | _ => None end.

(* ------------------------------------------------------------------ one PSDImage object across several save() calls *)
(* The state that matters: (_updated_layers, image_data).  A structural edit sets the flag
   (GroupMixin._update_psd_record); an attribute edit (visible, opacity, offset, name, blend mode)
   does not touch it; save() never resets it - once the structure was edited every later save()
   renders the merged image again.  A save() that raises leaves the image data as it was. *)
Inductive step :=
| SStruct
| SAttr
| SSave (rd : rendered) (transp : bool) (tindex : Z).

Definition step_state (c : cfg) (hd : header) (s : bool * idata) (st : step) : bool * idata :=
  match st with
  | SStruct => (true, snd s)
  | SAttr => s
  | SSave rd tr ti =>
      match save c hd (fst s) (snd s) rd tr ti with
      | Ok d => (fst s, d)
      | Err _ => s
      end
  end.

Fixpoint session (c : cfg) (hd : header) (s : bool * idata) (steps : list step) : list (res idata) :=
  match steps with
  | [] => []
  | SSave rd tr ti :: t =>
      save c hd (fst s) (snd s) rd tr ti :: session c hd (step_state c hd s (SSave rd tr ti)) t
  | st :: t => session c hd (step_state c hd s st) t
  end.

Definition state_after (c : cfg) (hd : header) (s : bool * idata) (steps : list step) : bool * idata :=
  fold_left (step_state c hd) steps s.

Definition is_struct (st : step) : bool := match st with SStruct => true | _ => false end.

(* the variant with "self._updated_layers = False" after regenerating (NOT the code): kept to state
   what goes wrong with it *)
Definition step_state_reset (c : cfg) (hd : header) (s : bool * idata) (st : step) : bool * idata :=
  match st with
  | SSave rd tr ti =>
      match save c hd (fst s) (snd s) rd tr ti with
      | Ok d => (false, d)
      | Err _ => s
      end
  | _ => step_state c hd s st
  end.
Fixpoint session_reset (c : cfg) (hd : header) (s : bool * idata) (steps : list step) : list (res idata) :=
  match steps with
  | [] => []
  | SSave rd tr ti :: t =>
      save c hd (fst s) (snd s) rd tr ti :: session_reset c hd (step_state_reset c hd s (SSave rd tr ti)) t
  | st :: t => session_reset c hd (step_state_reset c hd s st) t
  end.

(* ------------------------------------------------------------------ every channel selector of the exports *)
(* PSDImage.topil(channel = k), 0 <= k: one plane as an "L" image *)
Definition doc_topil_chan (hd : header) (st : idata) (k : Z) : res (option plane) :=
  if h_channels hd <=? k then Err AssertErr
  else do planes <- get_data st hd; Ok (nth_error planes (Z.to_nat k)).
(* PSDImage.topil(ChannelID.TRANSPARENCY_MASK): the plane after the colour planes, None if there is none *)
Definition doc_topil_transparency (hd : header) (st : idata) : res (option plane) :=
  let k := Z.of_nat (pil_channels (cm_pil (h_cm hd) false)) in
  if h_channels hd <=? k then Ok None else doc_topil_chan hd st k.

(* PSDImage.numpy(channel): 0 = None (all), 1 = "color", 2 = "shape", 3 = "mask"; 1.0 is sample 255 *)
Definition doc_numpy_sel (hd : header) (st : idata) (transp : bool) (sel : Z) : res (list plane) :=
  let ones := repeat 255 (npix (h_w hd) (h_h hd)) in
  if sel =? 3 then Ok [ones]
  else if (sel =? 2) && negb transp then Ok [ones]
  else
    do ps <- doc_numpy hd st;
    if sel =? 2 then Ok [last ps []]                    (* data[:, :, get_transparency_index] = -1 *)
    else if sel =? 1 then Ok (firstn (Z.to_nat (cm_channels (h_cm hd))) ps)
    else Ok ps.

(* layer.topil(channel id): the stored plane, for colour ids and for -1 alike *)
Definition layer_topil_chan (l : layer) (id : Z) : option plane :=
  if (l_right l - l_left l =? 0) || (l_bottom l - l_top l =? 0) then None else find_chan id l.
(* layer.numpy("color") / layer.numpy("shape") *)
Definition layer_numpy_color (cm : cmode) (l : layer) : list plane :=
  firstn (Z.to_nat (cm_channels cm)) (map snd (filter (fun c => 0 <=? fst c) (l_chans l))).
Definition layer_numpy_shape (l : layer) : list plane :=
  match find_chan (-1) l with Some a => [a] | None => [] end.

(* ------------------------------------------------------------------ layers in 16 / 32-bit documents *)
(* the bytes of one sample 0..255 in the depth of the document, as the corrected PixelLayer.frompil
   writes them: x * 257 as a big-endian 16-bit integer (= the byte twice), x / 255 as a big-endian single *)
Definition enc_sample (depth v : Z) : list Z :=
  if depth =? 16 then [v; v] else if depth =? 32 then f32_of_sample v else [v].
Definition enc_plane (depth : Z) (p : plane) : list Z := flat_map (enc_sample depth) p.
(* the channel bytes PixelLayer.frompil hands to ChannelData.set_data for a document of that depth *)
Definition layer_stored (c : cfg) (depth : Z) (l : layer) : list (Z * list Z) :=
  map (fun ch => (fst ch, if fx_deep c then enc_plane depth (snd ch) else snd ch)) (l_chans l).
(* how the readers see a 16-bit sample: numpy_io._parse_array v / 65535 (as a 0..255 sample: exact
   quotient by 257), pil_io._create_image v * (1/256) truncated *)
Definition dec16_np (hi lo : Z) : Z := (hi * 256 + lo) / 257.
Definition dec16_pil (hi lo : Z) : Z := (hi * 256 + lo) / 256.
(* export of a layer of a document of [depth]: with 8-bit planes in a deeper document the channel
   cannot be decoded (which exception depends on the compression) *)
Definition layer_topil_depth (c : cfg) (depth : Z) (cm : cmode) (l : layer) : res (option raster) :=
  if (depth =? 8) || fx_deep c then layer_topil cm l else Err AssertErr.
