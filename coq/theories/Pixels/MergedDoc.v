(* Pixels/MergedDoc.v -- [Merged.merged_image_is_quantised_composite] instantiated with the document
   compositor of C11/C13 (Composite/Doc.v composite_doc over the reals) through its range theorem. *)
From Coq Require Import Reals ZArith List.
From PsdV Require Import Base.Prelude Pixels.Model Pixels.Proofs Pixels.Merged.
From PsdV Require Composite.Scalar Composite.Geometry Composite.Doc Composite.ProofsKernel Composite.ProofsDoc.
Import ListNotations.
Open Scope Z_scope.

Module CD := PsdV.Composite.Doc.
Module CS := PsdV.Composite.Scalar.
Module CK := PsdV.Composite.ProofsKernel.
Module CPD := PsdV.Composite.ProofsDoc.

(* composite(psd, color=cb, alpha=ab, viewport=vp, force=True) of the layer list [ls] *)
Definition doc_comp (vp : PsdV.Composite.Geometry.rect) (cb ab : R) (ls : list CD.layer) : Z -> Z -> nat -> R * R * R :=
  fun x y k => @CD.composite_doc CS.ROps vp cb ab ls x y k.

Lemma doc_comp_in_range vp cb ab ls :
  Forall CPD.layer_ok ls -> CK.unit cb -> CK.unit ab ->
  forall x y k, let '(C, f, al) := doc_comp vp cb ab ls x y k in unitR C /\ unitR f /\ unitR al.
Proof.
  intros Hl Hc Ha x y k. unfold doc_comp.
  exact (CPD.composite_doc_in_range ls vp cb ab x y k Hl Hc Ha).
Qed.

Theorem merged_image_is_quantised_document_composite : forall vp cb ab ls c hd old transp ti,
  Forall CPD.layer_ok ls -> CK.unit cb -> CK.unit ab ->
  fx_save c = false -> header_ok hd -> unfixed_save_class hd ->
  let comp := doc_comp vp cb ab ls in
  let rd := rendered_of comp hd in
  exists st planes,
    save c hd true old rd transp ti = Ok st /\ get_data st hd = Ok planes /\
    planes = rd_straight rd ++ [rd_alpha rd] /\ Forall bytes planes /\
    (forall k x y, (k < Z.to_nat (cm_channels (h_cm hd)))%nat -> 0 <= x < h_w hd -> 0 <= y < h_h hd ->
       nth (Z.to_nat (y * h_w hd + x)) (nth k planes []) 0 = quant8 (comp_color comp x y k)) /\
    (forall x y, 0 <= x < h_w hd -> 0 <= y < h_h hd ->
       nth (Z.to_nat (y * h_w hd + x)) (last planes []) 0 = quant8 (comp_alpha comp x y)).
Proof.
  intros vp cb ab ls c hd old transp ti Hl Hc Ha Hfx Hh Hcls comp rd.
  exact (merged_image_is_quantised_composite comp (doc_comp_in_range vp cb ab ls Hl Hc Ha)
           c hd old transp ti Hfx Hh Hcls).
Qed.
