(* Prediction (delta coding on big-endian words, 32-bit byte shuffle): inverse laws for all lengths. *)
From PsdV Require Import Base.Prelude Rle.Model Compression.Model Compression.Proofs.
From Coq Require Import ZArith List Bool Lia ZifyBool.
Ltac Zify.zify_post_hook ::= Z.to_euclidean_division_equations.

Definition inrange (m : Z) (l : list Z) : Prop := Forall (fun x => 0 <= x < m) l.

(* ====================================================================== 1. one row of delta coding *)
Lemma delta_enc_from_length m : forall l p, length (delta_enc_from m p l) = length l.
Proof. induction l; intros; cbn [delta_enc_from length]; [|rewrite IHl]; reflexivity. Qed.
Lemma delta_dec_from_length m : forall l p, length (delta_dec_from m p l) = length l.
Proof. induction l; intros; cbn [delta_dec_from length]; [|rewrite IHl]; reflexivity. Qed.
Lemma delta_enc_row_length m l : length (delta_enc_row m l) = length l.
Proof. destruct l; cbn [delta_enc_row length]; [|rewrite delta_enc_from_length]; reflexivity. Qed.
Lemma delta_dec_row_length m l : length (delta_dec_row m l) = length l.
Proof. destruct l; cbn [delta_dec_row length]; [|rewrite delta_dec_from_length]; reflexivity. Qed.

Lemma delta_dec_enc_from m : 0 < m -> forall l p, inrange m l ->
  delta_dec_from m p (delta_enc_from m p l) = l.
Proof.
  intros Hm. induction l as [|x l IH]; intros p H; [reflexivity|].
  apply Forall_cons_iff in H. destruct H as [Hx H].
  cbn [delta_enc_from delta_dec_from].
  rewrite Zplus_mod_idemp_l. replace (x - p + p) with x by lia.
  rewrite Z.mod_small by lia. rewrite IH by exact H. reflexivity.
Qed.

Lemma delta_enc_dec_from m : 0 < m -> forall l p, inrange m l ->
  delta_enc_from m p (delta_dec_from m p l) = l.
Proof.
  intros Hm. induction l as [|x l IH]; intros p H; [reflexivity|].
  apply Forall_cons_iff in H. destruct H as [Hx H].
  cbn [delta_enc_from delta_dec_from].
  rewrite Zminus_mod_idemp_l. replace (x + p - p) with x by lia.
  rewrite Z.mod_small by lia. rewrite IH by exact H. reflexivity.
Qed.

(* delta_inv, both directions, every row length *)
Theorem delta_dec_enc_row m l : 0 < m -> inrange m l -> delta_dec_row m (delta_enc_row m l) = l.
Proof.
  intros Hm H. destruct l as [|x l]; [reflexivity|].
  apply Forall_cons_iff in H. destruct H as [_ H].
  cbn [delta_enc_row delta_dec_row]. rewrite delta_dec_enc_from by assumption. reflexivity.
Qed.

Theorem delta_enc_dec_row m l : 0 < m -> inrange m l -> delta_enc_row m (delta_dec_row m l) = l.
Proof.
  intros Hm H. destruct l as [|x l]; [reflexivity|].
  apply Forall_cons_iff in H. destruct H as [_ H].
  cbn [delta_enc_row delta_dec_row]. rewrite delta_enc_dec_from by assumption. reflexivity.
Qed.

Lemma delta_enc_from_range m : 0 < m -> forall l p, inrange m (delta_enc_from m p l).
Proof.
  intros Hm. induction l; intros; cbn [delta_enc_from]; constructor; [|apply IHl].
  apply Z.mod_pos_bound. exact Hm.
Qed.
Lemma delta_dec_from_range m : 0 < m -> forall l p, inrange m (delta_dec_from m p l).
Proof.
  intros Hm. induction l; intros; cbn [delta_dec_from]; constructor; [|apply IHl].
  apply Z.mod_pos_bound. exact Hm.
Qed.
Lemma delta_enc_row_range m l : 0 < m -> inrange m l -> inrange m (delta_enc_row m l).
Proof.
  intros Hm H. destruct l; [constructor|]. apply Forall_cons_iff in H. destruct H as [Hx _].
  cbn [delta_enc_row]. constructor; [exact Hx|apply delta_enc_from_range; exact Hm].
Qed.
Lemma delta_dec_row_range m l : 0 < m -> inrange m l -> inrange m (delta_dec_row m l).
Proof.
  intros Hm H. destruct l; [constructor|]. apply Forall_cons_iff in H. destruct H as [Hx _].
  cbn [delta_dec_row]. constructor; [exact Hx|apply delta_dec_from_range; exact Hm].
Qed.

(* ====================================================================== 2. row-wise application *)
Lemma Forall_firstn (Q : Z -> Prop) n (l : list Z) : Forall Q l -> Forall Q (firstn n l).
Proof. revert l; induction n; intros [|x l] H; cbn [firstn]; try constructor;
  apply Forall_cons_iff in H; destruct H; [assumption|apply IHn; assumption]. Qed.
Lemma Forall_skipn (Q : Z -> Prop) n (l : list Z) : Forall Q l -> Forall Q (skipn n l).
Proof. revert l; induction n; intros [|x l] H; cbn [skipn]; try assumption.
  apply Forall_cons_iff in H; destruct H. apply IHn; assumption. Qed.

Lemma map_rows_length (f : list Z -> list Z) (w : nat) :
  (forall r, length r = w -> length (f r) = w) ->
  forall h l, (h * w <= length l)%nat -> length (map_rows f h w l) = length l.
Proof.
  intros Hf. induction h as [|h IH]; intros l H; [reflexivity|].
  cbn [map_rows]. assert (L : length (firstn w l) = w) by (apply firstn_length_le; lia).
  rewrite app_length, (Hf _ L), IH by (rewrite skipn_length; lia).
  rewrite skipn_length. lia.
Qed.

Lemma map_rows_Forall (Q : Z -> Prop) (f : list Z -> list Z) (w : nat) :
  (forall r, length r = w -> Forall Q r -> Forall Q (f r)) ->
  forall h l, (h * w <= length l)%nat -> Forall Q l -> Forall Q (map_rows f h w l).
Proof.
  intros Hf. induction h as [|h IH]; intros l H HQ; [exact HQ|].
  cbn [map_rows]. assert (L : length (firstn w l) = w) by (apply firstn_length_le; lia).
  apply Forall_app. split.
  - apply Hf; [exact L|apply Forall_firstn; exact HQ].
  - apply IH; [rewrite skipn_length; lia|apply Forall_skipn; exact HQ].
Qed.

Lemma map_rows_inv (Q : Z -> Prop) (f g : list Z -> list Z) (w : nat) :
  (forall r, length r = w -> Forall Q r -> length (f r) = w /\ g (f r) = r) ->
  forall h l, (h * w <= length l)%nat -> Forall Q l -> map_rows g h w (map_rows f h w l) = l.
Proof.
  intros Hf. induction h as [|h IH]; intros l H HQ; [reflexivity|].
  cbn [map_rows]. assert (L : length (firstn w l) = w) by (apply firstn_length_le; lia).
  destruct (Hf _ L (Forall_firstn Q w l HQ)) as [L2 E].
  rewrite (firstn_app_exact _ _ _ L2), (skipn_app_exact _ _ _ L2), E.
  rewrite IH; [apply firstn_skipn|rewrite skipn_length; lia|apply Forall_skipn; exact HQ].
Qed.

(* ====================================================================== 3. 16-bit big-endian words *)
Lemma list_ind2 (P : list Z -> Prop) :
  P [] -> (forall a, P [a]) -> (forall a b l, P l -> P (a :: b :: l)) -> forall l, P l.
Proof.
  intros H0 H1 H2. fix IH 1. intros [|a [|b l]]; [exact H0|apply H1|apply H2, IH].
Qed.

Lemma words2_unwords2 a : inrange 65536 a -> words2 (unwords2 a) = a.
Proof.
  induction a as [|x a IH]; intros H; [reflexivity|].
  apply Forall_cons_iff in H. destruct H as [Hx H].
  cbn [unwords2 flat_map app words2]. fold (unwords2 a). rewrite IH by exact H.
  f_equal. lia.
Qed.

Lemma unwords2_words2 l : bytes l -> Nat.even (length l) = true -> unwords2 (words2 l) = l.
Proof.
  induction l as [| a | a b l IH] using list_ind2; intros Hb He; [reflexivity|discriminate|].
  apply Forall_cons_iff in Hb. destruct Hb as [Ha Hb].
  apply Forall_cons_iff in Hb. destruct Hb as [Hb0 Hb]. unfold byte in *.
  cbn [words2 unwords2 flat_map app]. fold (unwords2 (words2 l)).
  rewrite IH; [|exact Hb|exact He]. f_equal; [lia|f_equal; lia].
Qed.

Lemma words2_range l : bytes l -> inrange 65536 (words2 l).
Proof.
  induction l as [| a | a b l IH] using list_ind2; intros Hb; try constructor.
  - apply Forall_cons_iff in Hb. destruct Hb as [Ha Hb].
    apply Forall_cons_iff in Hb. destruct Hb as [Hb0 Hb]. unfold byte in *. lia.
  - apply IH. apply Forall_cons_iff in Hb. destruct Hb as [_ Hb].
    apply Forall_cons_iff in Hb. destruct Hb as [_ Hb]. exact Hb.
Qed.

Lemma words2_length l : Nat.even (length l) = true -> (2 * length (words2 l) = length l)%nat.
Proof.
  induction l as [| a | a b l IH] using list_ind2; intros He; [reflexivity|discriminate|].
  cbn [words2 length]. cbn [length] in He. specialize (IH He). lia.
Qed.

Lemma unwords2_length a : length (unwords2 a) = (2 * length a)%nat.
Proof. induction a as [|x a IH]; [reflexivity|]. cbn [unwords2 flat_map app length]. fold (unwords2 a). lia. Qed.

Lemma even_double n k : n = (2 * k)%nat -> Nat.even n = true.
Proof. intros ->. apply Nat.even_spec. exists k. reflexivity. Qed.

(* ====================================================================== 4. the 32-bit byte shuffle *)
Lemma list_ind4 (P : list Z -> Prop) :
  P [] -> (forall a, P [a]) -> (forall a b, P [a; b]) -> (forall a b c, P [a; b; c]) ->
  (forall a b c d l, P l -> P (a :: b :: c :: d :: l)) -> forall l, P l.
Proof.
  intros H0 H1 H2 H3 H4. fix IH 1.
  intros [|a [|b [|c [|d l]]]]; [exact H0|apply H1|apply H2|apply H3|apply H4, IH].
Qed.

Lemma deal4_spec : forall l n p0 p1 p2 p3, length l = (4 * n)%nat -> deal4 l = (p0, p1, p2, p3) ->
  length p0 = n /\ length p1 = n /\ length p2 = n /\ length p3 = n /\ zip4 p0 p1 p2 p3 = l.
Proof.
  induction l as [| a | a b | a b c | a b c d l IH] using list_ind4; intros n p0 p1 p2 p3 L E;
    cbn [length] in L; try lia.
  - cbn [deal4] in E. inversion E; subst. destruct n; [|lia]. repeat split; reflexivity.
  - cbn [deal4] in E. destruct (deal4 l) as [[[q0 q1] q2] q3] eqn:D.
    inversion E; subst; clear E. destruct n as [|n]; [lia|].
    destruct (IH n q0 q1 q2 q3 ltac:(lia) eq_refl) as (L0 & L1 & L2 & L3 & Z4).
    cbn [length zip4]. rewrite Z4, L0, L1, L2, L3. repeat split; reflexivity.
Qed.

Lemma deal4_Forall (Q : Z -> Prop) : forall l p0 p1 p2 p3, Forall Q l -> deal4 l = (p0, p1, p2, p3) ->
  Forall Q p0 /\ Forall Q p1 /\ Forall Q p2 /\ Forall Q p3.
Proof.
  induction l as [| a | a b | a b c | a b c d l IH] using list_ind4; intros p0 p1 p2 p3 H E;
    cbn [deal4] in E; try (inversion E; subst; repeat split; constructor).
  destruct (deal4 l) as [[[q0 q1] q2] q3] eqn:D. inversion E; subst; clear E.
  apply Forall_cons_iff in H. destruct H as [Ha H].
  apply Forall_cons_iff in H. destruct H as [Hb H].
  apply Forall_cons_iff in H. destruct H as [Hc H].
  apply Forall_cons_iff in H. destruct H as [Hd H].
  destruct (IH q0 q1 q2 q3 H eq_refl) as (F0 & F1 & F2 & F3).
  repeat split; constructor; assumption.
Qed.

Lemma shuffle_row_length l n : length l = (4 * n)%nat -> length (shuffle_row l) = (4 * n)%nat.
Proof.
  intros L. unfold shuffle_row. destruct (deal4 l) as [[[p0 p1] p2] p3] eqn:D.
  destruct (deal4_spec l n p0 p1 p2 p3 L D) as (L0 & L1 & L2 & L3 & _).
  rewrite !app_length. lia.
Qed.

Lemma shuffle_row_Forall (Q : Z -> Prop) l : Forall Q l -> Forall Q (shuffle_row l).
Proof.
  intros H. unfold shuffle_row. destruct (deal4 l) as [[[p0 p1] p2] p3] eqn:D.
  destruct (deal4_Forall Q l p0 p1 p2 p3 H D) as (F0 & F1 & F2 & F3).
  repeat (apply Forall_app; split); assumption.
Qed.

(* shuffle_inv: restoring the shuffled row gives the row back, every width *)
Theorem restore_shuffle_row w l : length l = (4 * w)%nat -> restore_row w (shuffle_row l) = l.
Proof.
  intros L. unfold shuffle_row, restore_row. destruct (deal4 l) as [[[p0 p1] p2] p3] eqn:D.
  destruct (deal4_spec l w p0 p1 p2 p3 L D) as (L0 & L1 & L2 & L3 & Z4).
  rewrite (firstn_app_exact p0 _ w L0), (skipn_app_exact p0 _ w L0).
  rewrite (firstn_app_exact p1 _ w L1).
  replace (p0 ++ p1 ++ p2 ++ p3) with ((p0 ++ p1) ++ p2 ++ p3) by (rewrite <- app_assoc; reflexivity).
  rewrite (skipn_app_exact (p0 ++ p1) _ (2 * w)) by (rewrite app_length; lia).
  rewrite (firstn_app_exact p2 _ w L2).
  replace ((p0 ++ p1) ++ p2 ++ p3) with ((p0 ++ p1 ++ p2) ++ p3) by (rewrite <- !app_assoc; reflexivity).
  rewrite (skipn_app_exact (p0 ++ p1 ++ p2) _ (3 * w)) by (rewrite !app_length; lia).
  rewrite firstn_all2 by lia. exact Z4.
Qed.

(* and the other way round *)
Lemma zip4_deal4 : forall p0 p1 p2 p3 n, length p0 = n -> length p1 = n -> length p2 = n -> length p3 = n ->
  deal4 (zip4 p0 p1 p2 p3) = (p0, p1, p2, p3).
Proof.
  induction p0 as [|a p0 IH]; intros [|b p1] [|c p2] [|d p3] n L0 L1 L2 L3; cbn [length] in *; try lia;
    [reflexivity|].
  cbn [zip4 deal4]. destruct n; [lia|]. rewrite (IH p1 p2 p3 n) by lia. reflexivity.
Qed.

Lemma skipn_skipn' {A} : forall b a (l : list A), skipn a (skipn b l) = skipn (b + a) l.
Proof.
  induction b as [|b IH]; intros a l; [reflexivity|].
  destruct l as [|x l]; [rewrite !skipn_nil; reflexivity|]. cbn [skipn Nat.add]. apply IH.
Qed.

Theorem shuffle_restore_row w l : length l = (4 * w)%nat -> shuffle_row (restore_row w l) = l.
Proof.
  intros L. unfold shuffle_row, restore_row.
  rewrite (zip4_deal4 _ _ _ _ w);
    try (rewrite firstn_length, ?skipn_length; lia).
  assert (E3 : firstn w (skipn (3 * w) l) = skipn (3 * w) l)
    by (apply firstn_all2; rewrite skipn_length; lia).
  rewrite E3.
  replace (skipn (3 * w) l) with (skipn w (skipn (2 * w) l)) by (rewrite skipn_skipn'; f_equal; lia).
  rewrite firstn_skipn.
  replace (skipn (2 * w) l) with (skipn w (skipn w l)) by (rewrite skipn_skipn'; f_equal; lia).
  rewrite firstn_skipn. apply firstn_skipn.
Qed.
