(* Composition of the codec theorems (Compression/ProofsCodec.v) with the container model of the file
   (Psd/Model.v, Psd/Proofs.v psd_rt = Properties/C01.v psd_roundtrip):
   pixels stored in a document as a layer channel or as the merged image survive
   write_psd -> bytes -> read_psd -> decompress, for all four codecs, depths and both file versions. *)
From PsdV Require Import Base.Prelude Rle.Model.
From PsdV Require Compression.Model Compression.Proofs Compression.ProofsCodec.
From PsdV Require Import Psd.Codec Psd.Model.
From PsdV Require Psd.Proofs.
From Coq Require Import ZArith List Bool Lia ZifyBool.
Import ListNotations.
Open Scope Z_scope.

Module CM := PsdV.Compression.Model.
Module CPr := PsdV.Compression.Proofs.
Module CP := PsdV.Compression.ProofsCodec.

(* ---------------------------------------------------------------- the Compression enum in the file *)
Definition codec_num (c : CM.codec) : Z :=
  match c with CM.RAW => 0 | CM.RLE => 1 | CM.ZIP => 2 | CM.ZIPP => 3 end.
Definition codec_of_num (z : Z) : CM.codec :=
  if z =? 0 then CM.RAW else if z =? 1 then CM.RLE else if z =? 2 then CM.ZIP else CM.ZIPP.

Lemma codec_of_num_num c : codec_of_num (codec_num c) = c.
Proof. destruct c; reflexivity. Qed.

(* a ChannelData object of the codec model <-> the (compression, data) pair the file holds *)
Definition to_file (cd : CM.channel_data) : channel_data :=
  mkCD (codec_num (CM.cd_comp cd)) (CM.cd_data cd).
Definition of_file (cd : channel_data) : CM.channel_data :=
  {| CM.cd_comp := codec_of_num (cd_comp cd); CM.cd_data := cd_data cd |}.

Lemma of_to_file cd : of_file (to_file cd) = cd.
Proof. destruct cd as [c d]. unfold of_file, to_file. cbn. rewrite codec_of_num_num. reflexivity. Qed.

(* the geometry the merged image is decoded with: the file header *)
Definition hdr_of (h : header) : CM.header :=
  {| CM.hd_w := h_width h; CM.hd_h := h_height h; CM.hd_channels := h_channels h;
     CM.hd_depth := h_depth h; CM.hd_version := h_version h |}.

(* channel image data of layer i, channel j (document order, as ChannelImageData lists them) *)
Definition chans_of (d : psd) : list (list channel_data) :=
  match la_info (p_lami d) with
  | Some li => match li_chans li with Some cs => cs | None => [] end
  | None => []
  end.
Definition layer_channel (d : psd) (i j : nat) : option channel_data :=
  nth_error (nth i (chans_of d) []) j.

(* ---------------------------------------------------------------- what writing leaves untouched *)
Lemma li_after_write_chans li : li_chans (li_after_write li) = li_chans li.
Proof.
  destruct li as [cnt recs chans]. unfold li_after_write, li_update. cbn [li_count li_records li_chans].
  destruct (cnt =? 0); [reflexivity|].
  destruct recs as [[|r rs]|]; try reflexivity.
  destruct chans as [[|c cs]|]; reflexivity.
Qed.

Lemma chans_after_write d : chans_of (psd_after_write d) = chans_of d.
Proof.
  unfold chans_of, psd_after_write, lami_after_write. cbn [p_lami la_info].
  destruct (la_info (p_lami d)) as [li|]; [|reflexivity].
  cbn [option_map]. rewrite li_after_write_chans. reflexivity.
Qed.

Lemma header_valid_geometry h : header_valid h = true ->
  CP.depth_ok (h_depth h) /\ 0 <= h_width h /\ 0 <= h_height h /\ 0 < h_channels h.
Proof.
  unfold header_valid, memz, model_depths, model_dim_range, model_channels_range, CP.depth_ok.
  cbn [existsb fst snd]. intros H. lia.
Qed.

Section File.
Variable zc : list Z -> list Z.
Variable zd : list Z -> option (list Z).
Hypothesis zlib_inverse : forall x, zd (zc x) = Some x.
Variable rdec : list Z -> Z -> res (list Z).
Hypothesis rdec_conforming : CPr.conforming_decoder rdec.
Variable enc_s : list Z -> res (list Z).
Variable dec_s : list Z -> res (list Z).

(* ---------------------------------------------------------------- a layer channel *)
(* ChannelData(compression=c).set_data(pixels, w, h, depth, version) stored as channel j of layer i of a
   well-formed document; save; open; get_data with the same geometry and the depth / version of the
   re-read header *)
Theorem pixels_survive_file_channel : forall pad d i j data w h cd0 cd' bs n,
  0 < pad -> wf_psd enc_s dec_s d = true ->
  let depth := h_depth (p_header d) in
  let version := h_version (p_header d) in
  CP.raster data w h depth -> CP.codec_guard (CM.cd_comp cd0) depth ->
  CM.cd_set_data zc cd0 data w h depth version = Ok cd' ->
  layer_channel d i j = Some (to_file cd') ->
  write_psd enc_s pad d = Ok (bs, n) ->
  exists d2, read_psd dec_s bs = Ok d2 /\
    exists cd2, layer_channel d2 i j = Some cd2 /\
      CM.cd_get_data zd rdec (of_file cd2) w h (h_depth (p_header d2)) (h_version (p_header d2)) = Ok data.
Proof.
  intros pad d i j data w h cd0 cd' bs n Hpad Hwf depth version HR HG HS HL HW.
  exists (psd_after_write d). split; [apply (Psd.Proofs.psd_rt enc_s dec_s pad d bs n Hpad Hwf HW)|].
  exists (to_file cd'). split.
  - unfold layer_channel. rewrite chans_after_write. exact HL.
  - rewrite of_to_file. cbn [psd_after_write p_header]. fold depth version.
    apply (CP.channel_data_roundtrip zc zd zlib_inverse rdec rdec_conforming cd0 cd' data w h depth version HR HG HS).
Qed.

(* ---------------------------------------------------------------- the merged image *)
(* ImageData(compression=c).set_data(planes, header) stored as the image data section *)
Definition store_image (c : CM.codec) (planes : list (list Z)) (d : psd) : res psd :=
  do e <- CM.id_set_data zc c planes (hdr_of (p_header d));
  Ok (mkPSD (p_header d) (p_cmd d) (p_res d) (p_lami d) (mkCD (codec_num c) e)).
(* ImageData.get_data(header) of a document *)
Definition image_pixels (d : psd) : res (list (list Z)) :=
  CM.id_get_data zd rdec (codec_of_num (cd_comp (p_img d))) (cd_data (p_img d)) (hdr_of (p_header d)).

Theorem pixels_survive_file_image : forall pad c planes d d1 bs n,
  0 < pad ->
  let hd := p_header d in
  Z.of_nat (length planes) = h_channels hd ->
  Forall bytes planes ->
  Forall (fun p => CM.len p = h_height hd * CM.row_size (h_width hd) (h_depth hd)) planes ->
  CP.codec_guard c (h_depth hd) ->
  store_image c planes d = Ok d1 ->
  wf_psd enc_s dec_s d1 = true ->
  write_psd enc_s pad d1 = Ok (bs, n) ->
  exists d2, read_psd dec_s bs = Ok d2 /\ image_pixels d2 = Ok planes.
Proof.
  intros pad c planes d d1 bs n Hpad hd HN HB HL HG HS Hwf HW.
  exists (psd_after_write d1). split; [apply (Psd.Proofs.psd_rt enc_s dec_s pad d1 bs n Hpad Hwf HW)|].
  unfold store_image in HS.
  destruct (CM.id_set_data zc c planes (hdr_of (p_header d))) as [e|] eqn:E; [|discriminate].
  cbn [bind] in HS. inversion HS; subst d1; clear HS.
  unfold image_pixels. cbn [psd_after_write p_header p_img cd_comp cd_data]. rewrite codec_of_num_num.
  assert (HV : header_valid (p_header d) = true).
  { unfold wf_psd in Hwf. cbn [p_header] in Hwf.
    destruct (header_valid (p_header d)); [reflexivity|discriminate]. }
  destruct (header_valid_geometry _ HV) as (Hd & Hw & Hh & Hc).
  apply (CP.image_data_roundtrip zc zd zlib_inverse rdec rdec_conforming c planes (hdr_of (p_header d)) e);
    cbn [hdr_of CM.hd_w CM.hd_h CM.hd_channels CM.hd_depth CM.hd_version]; assumption.
Qed.
End File.
