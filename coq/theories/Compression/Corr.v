(* Correspondence glue for C04: content generators mirrored in harness/vh/c04.py, compact case
   descriptors, digests of the model's outcomes.  zlib is instantiated by the identity: the harness
   compares the bytes handed to / received from zlib (it unwraps / wraps them around the real zlib). *)
From PsdV Require Import Base.Prelude Rle.Model Compression.Model.
From Coq Require Import Uint63.

(* ---------------------------------------------------------------- pseudo-random bytes (wraps mod 2^63) *)
Definition lcg (s : int) : int := (s * 6364136223846793005 + 1442695040888963407)%uint63.
Definition rnd_byte (s : int) : Z := to_Z ((s >> 33) land 255)%uint63.

Fixpoint noise (n : nat) (s : int) : list Z :=
  match n with O => [] | S n' => let s' := lcg s in rnd_byte s' :: noise n' s' end.

Fixpoint extremes (n : nat) (s : int) : list Z :=
  match n with O => [] | S n' => let s' := lcg s in (if rnd_byte s' <? 128 then 0 else 255) :: extremes n' s' end.

(* runs: while bytes remain, draw a value and a length 1 + r mod 200 *)
Fixpoint runs (n : nat) (left : nat) (v : Z) (s : int) : list Z :=
  match n with
  | O => []
  | S n' =>
      match left with
      | S l' => v :: runs n' l' v s
      | O => let s1 := lcg s in let s2 := lcg s1 in
             let v' := rnd_byte s1 in
             v' :: runs n' (Z.to_nat (to_Z ((s2 >> 33) land 1023)%uint63 mod 200)) v' s2
      end
  end.

Fixpoint ramp (n : nat) (v step : Z) : list Z :=
  match n with O => [] | S n' => (v mod 256) :: ramp n' (v + step) step end.

Fixpoint alt (n : nat) (a b : Z) : list Z :=
  match n with O => [] | S n' => a :: alt n' b a end.

Inductive content :=
| CConst (v : Z) | CRuns (seed : Z) | CRamp (v step : Z) | CAlt (a b : Z)
| CNoise (seed : Z) | CExt (seed : Z) | CLit (l : list Z).

Definition gen (c : content) (n : Z) : list Z :=
  let k := Z.to_nat n in
  match c with
  | CConst v => repeat v k
  | CRuns s => runs k 0 0 (of_Z s)
  | CRamp v st => ramp k v st
  | CAlt a b => alt k a b
  | CNoise s => noise k (of_Z s)
  | CExt s => extremes k (of_Z s)
  | CLit l => l
  end.

(* ---------------------------------------------------------------- instantiation *)
Definition zid (x : list Z) : list Z := x.
Definition zsome (x : list Z) : option (list Z) := Some x.
Definition rdec_of (cy : bool) := if cy then cy_decode else py_decode.
Definition codec_of (c : Z) : codec :=
  if c =? 0 then RAW else if c =? 1 then RLE else if c =? 2 then ZIP else ZIPP.

Definition comp (c : Z) data w h depth version := compress zid (codec_of c) data w h depth version.
Definition decomp (cy : bool) (c : Z) data w h depth version :=
  decompress zsome (rdec_of cy) (codec_of c) data w h depth version.

Definition dig (r : res (list Z)) : list Z := [to_Z (h63_list 0%uint63 (canon r))].

(* case = (((((codec, w), h), depth), version), n bytes) + content *)
Definition geom := (Z * Z * Z * Z * Z * Z)%type.

Definition c_compress (a : geom * content) : list Z :=
  let '((c, w, h, depth, version, n), ct) := a in dig (comp c (gen ct n) w h depth version).

(* decompress what the model's own compress produced (the harness does the same with the code's) *)
Definition c_roundtrip (cy : bool) (a : geom * content) : list Z :=
  let '((c, w, h, depth, version, n), ct) := a in
  dig (do e <- comp c (gen ct n) w h depth version; decomp cy c e w h depth version).

(* decompress a given stream (independent encoder / mutated streams) *)
Definition c_decompress (cy : bool) (a : geom * content) : list Z :=
  let '((c, w, h, depth, version, n), ct) := a in dig (decomp cy c (gen ct n) w h depth version).

(* prediction functions alone, on data of any length *)
Definition c_predict (enc : bool) (a : geom * content) : list Z :=
  let '((_, w, h, depth, _, n), ct) := a in
  dig (if enc then encode_prediction (gen ct n) w h depth else decode_prediction (gen ct n) w h depth).

(* the index form of the 32-bit shuffle against the structural form *)
Definition c_shuffle_ix (a : geom * content) : list Z :=
  let '((_, w, _, _, _, n), ct) := a in
  let d := gen ct n in
  dig (Ok (shuffle_row_ix (Z.to_nat w) d ++ restore_row_ix (Z.to_nat w) d)).

(* containers.  kind 0 = ChannelData, 1 = ImageData (h = height, extra = channels), 2 = VirtualMemoryArray *)
Definition split_planes (channels : Z) (d : list Z) : list (list Z) :=
  read_n (Z.to_nat channels) (Z.to_nat (len d / channels)) d.

Definition canon_planes (r : res (list (list Z))) : list Z :=
  match r with
  | Ok ps => 0 :: flat_map (fun p => len p :: p) ps
  | Err e => [err_code e]
  end.

Definition c_container (cy : bool) (a : Z * Z * geom * content) : list Z :=
  let '(kind, channels, (c, w, h, depth, version, n), ct) := a in
  let data := gen ct n in
  if kind =? 0 then
    dig (do cd <- cd_set_data zid {| cd_comp := codec_of c; cd_data := [] |} data w h depth version;
         cd_get_data zsome (rdec_of cy) cd w h depth version)
  else if kind =? 1 then
    let hd := {| hd_w := w; hd_h := h; hd_channels := channels; hd_depth := depth; hd_version := version |} in
    [to_Z (h63_list 0%uint63 (canon_planes (
       do e <- id_set_data zid (codec_of c) (split_planes channels data) hd;
       id_get_data zsome (rdec_of cy) (codec_of c) e hd)))]
  else
    dig (do v <- vm_set_data zid (w, h) data depth (codec_of c);
         match vm_get_data zsome (rdec_of cy) v with Some r => r | None => Err TypeErr end).
